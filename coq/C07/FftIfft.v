(* C07 proofs: fft (ifft x) = x for the in-order radix-2 transforms (the mirror of
   DomainProofs.ifft_fft_id): the io butterflies with w undo the oi butterflies with w^-1
   up to the factor 2 per level. *)
From V Require Import Base.Field C07.Dft C07.Radix2 C07.DftProofs C07.Radix2Proofs.
Require Import Lia Field Ring.
Local Open Scope nat_scope.

Section FI.
  Context {T : Type} (F : Fops T).
  Hypothesis Fth : field_theory (f0 F) (f1 F) (fadd F) (fmul F) (fsub F) (fneg F) (fdiv F) (finv F) eq.
  Add Field Ff7 : Fth.
  Local Notation zero := (f0 F).
  Local Notation one := (f1 F).
  Local Notation add := (fadd F).
  Local Notation sub := (fsub F).
  Local Notation mul := (fmul F).
  Local Notation neg := (fneg F).
  Local Notation pw := (pown F).
  Local Notation two := (fadd F (f1 F) (f1 F)).

  Lemma oi_aux_length : forall k w x, length x = 2 ^ k -> length (oi_aux F k 0 w x) = 2 ^ k.
  Proof.
    induction k as [|k IH]; intros w x H; [exact H|].
    rewrite pow2_S in H. cbn [oi_aux Nat.leb].
    rewrite app_length, !zipw_length, (powers_length F Fth).
    rewrite !IH by (rewrite ?firstn_length, ?skipn_length; lia).
    rewrite pow2_S. lia.
  Qed.

  Lemma zipw_add_scale : forall c a b,
    zipw add (map (mul c) a) (map (mul c) b) = map (mul c) (zipw add a b).
  Proof.
    intros c. induction a as [|u a IH]; intros [|v b]; cbn [map zipw]; auto.
    rewrite IH. f_equal. ring.
  Qed.
  Lemma zipw_sub_scale : forall c a b,
    zipw sub (map (mul c) a) (map (mul c) b) = map (mul c) (zipw sub a b).
  Proof.
    intros c. induction a as [|u a IH]; intros [|v b]; cbn [map zipw]; auto.
    rewrite IH. f_equal. ring.
  Qed.
  Lemma zipw_mul_scale : forall c a (t : list T),
    zipw mul (map (mul c) a) t = map (mul c) (zipw mul a t).
  Proof.
    intros c. induction a as [|u a IH]; intros [|v t]; cbn [map zipw]; auto.
    rewrite IH. f_equal. ring.
  Qed.

  (* the io butterflies are linear *)
  Lemma io_aux_scale : forall k w c x,
    io_aux F k w (map (mul c) x) = map (mul c) (io_aux F k w x).
  Proof.
    induction k as [|k IH]; intros w c x; [reflexivity|].
    cbn [io_aux]. unfold bfly_io_lo, bfly_io_hi.
    rewrite firstn_map, skipn_map, zipw_add_scale, zipw_sub_scale, zipw_mul_scale, !IH, map_app.
    reflexivity.
  Qed.

  (* the io butterflies with the root undo the oi butterflies with the inverse root, up to 2^k *)
  Lemma io_oi : forall k w w' x, length x = 2 ^ k -> mul w w' = one ->
    io_aux F k w (oi_aux F k 0 w' x) = map (mul (pw two k)) x.
  Proof.
    induction k as [|k IH]; intros w w' x H Hw.
    - cbn [oi_aux io_aux pown]. rewrite <- (map_id x) at 1. apply map_ext. intros; ring.
    - rewrite pow2_S in H. cbn [oi_aux io_aux Nat.leb]. set (g := 2 ^ k) in *.
      assert (H1 : length (firstn g x) = g) by (rewrite firstn_length; lia).
      assert (H2 : length (skipn g x) = g) by (rewrite skipn_length; lia).
      assert (Hx : x = firstn g x ++ skipn g x) by (symmetry; apply firstn_skipn).
      set (xlo := firstn g x) in *. set (xhi := skipn g x) in *.
      assert (Hw2 : mul (mul w w) (mul w' w') = one).
      { transitivity (mul (mul w w') (mul w w')); [ring | rewrite Hw; ring]. }
      pose proof (IH (mul w w) (mul w' w') xlo H1 Hw2) as IHlo.
      pose proof (IH (mul w w) (mul w' w') xhi H2 Hw2) as IHhi.
      pose proof (oi_aux_length k (mul w' w') xlo H1) as Llo.
      pose proof (oi_aux_length k (mul w' w') xhi H2) as Lhi.
      fold g in Llo, Lhi.
      set (LO := oi_aux F k 0 (mul w' w') xlo) in *.
      set (HI := oi_aux F k 0 (mul w' w') xhi) in *.
      set (t := zipw mul HI (powers F g w' one)).
      assert (Lt : length t = g) by (unfold t; rewrite zipw_length, (powers_length F Fth); lia).
      set (A := zipw add LO t). set (B := zipw sub LO t).
      assert (LA : length A = g) by (unfold A; rewrite zipw_length; lia).
      assert (Ef : firstn g (A ++ B) = A).
      { rewrite <- LA. rewrite firstn_app, Nat.sub_diag, firstn_O, app_nil_r. apply firstn_all. }
      assert (Es : skipn g (A ++ B) = B).
      { rewrite <- LA. rewrite skipn_app, Nat.sub_diag, skipn_O, skipn_all. reflexivity. }
      rewrite Ef, Es.
      assert (Hp : forall i, mul (pw w i) (pw w' i) = one).
      { intros i. rewrite <- (pown_mulbase F Fth), Hw. apply (pown_one F Fth). }
      assert (C1 : bfly_io_lo F A B = map (mul two) LO).
      { unfold bfly_io_lo, A, B, t.
        rewrite (as_map_nth zero LO g Llo), (as_map_nth zero HI g Lhi).
        rewrite !(powers_spec F Fth), !zipw_map_map, map_map.
        apply map_ext. intros i. ring. }
      assert (C2 : bfly_io_hi F A B (powers F g w one) = map (mul two) HI).
      { unfold bfly_io_hi, A, B, t.
        rewrite (as_map_nth zero LO g Llo), (as_map_nth zero HI g Lhi).
        rewrite !(powers_spec F Fth), !zipw_map_map, map_map.
        apply map_ext. intros i. specialize (Hp i).
        set (a := pw w i) in *. set (b := pw w' i) in *.
        set (v := nth i HI zero).
        transitivity (mul (mul two v) (mul a b)); [ring | rewrite Hp; ring]. }
      rewrite C1, C2, !io_aux_scale, IHlo, IHhi.
      rewrite Hx at 1. rewrite map_app, !map_map.
      f_equal; apply map_ext; intros a; cbn [pown]; ring.
  Qed.

  (* ---------- fft (ifft x) = x ----------
     (no assumption on feqb: both transforms take the same branch of is_one h) *)
  Theorem fft_ifft_id : forall k w wi h hi si x, length x = 2 ^ k ->
    mul w wi = one -> mul h hi = one -> mul (pw two k) si = one ->
    in_order_fft F k w h (in_order_ifft F k wi h hi si x) = x.
  Proof.
    intros k w wi h hi si x H Hw Hh Hs. unfold in_order_fft, in_order_ifft.
    assert (Ld : length (derange F x k) = 2 ^ k).
    { rewrite (derange_bl F) by exact H. apply bl_length; exact H. }
    pose proof (oi_aux_length k wi (derange F x k) Ld) as Ly.
    set (y := oi_aux F k 0 wi (derange F x k)) in *.
    assert (X1 : (if is_one F h
                  then (if is_one F h then map (fun v => mul v si) y
                        else distribute_powers_and_mul_by_const F y hi si)
                  else distribute_powers F
                         (if is_one F h then map (fun v => mul v si) y
                          else distribute_powers_and_mul_by_const F y hi si) h)
                 = map (mul si) y).
    { destruct (is_one F h) eqn:E.
      - apply map_ext. intros a. ring.
      - unfold distribute_powers, distribute_powers_and_mul_by_const.
        rewrite !zipw_length, !(powers_length F Fth), Nat.min_id.
        rewrite (as_map_nth zero y (2 ^ k) Ly).
        rewrite map_length, seq_length.
        rewrite !(powers_spec F Fth), !zipw_map_map, map_map.
        apply map_ext. intros i.
        assert (Hp : mul (pw h i) (pw hi i) = one).
        { rewrite <- (pown_mulbase F Fth), Hh. apply (pown_one F Fth). }
        set (a := pw h i) in *. set (b := pw hi i) in *.
        set (u := nth i y zero).
        transitivity (mul (mul si u) (mul a b)); [ring | rewrite Hp; ring]. }
    rewrite X1. rewrite io_aux_scale. unfold y.
    rewrite (io_oi k w wi) by assumption.
    rewrite map_map.
    rewrite (derange_bl F k x) by exact H.
    assert (Eid : map (fun a => mul si (mul (pw two k) a)) (bl k x) = bl k x).
    { rewrite <- (map_id (bl k x)) at 2. apply map_ext. intros a.
      transitivity (mul (mul (pw two k) si) a); [ring | rewrite Hs; ring]. }
    rewrite Eid.
    rewrite (derange_bl F) by (apply bl_length; exact H).
    apply bl_involutive; exact H.
  Qed.
End FI.

Example fft_ifft_ex :
  let F := ZpOps 17 in
  let x := [1; 2; 3; 4; 5; 6; 7; 8]%Z in
  in_order_fft F 3 2%Z 3%Z (in_order_ifft F 3 9%Z 3%Z 6%Z 15%Z x) = x.
Proof. vm_compute. reflexivity. Qed.
