(* C07 proofs: filter_polynomial / evaluate_filter_polynomial, the polynomial long division they use,
   mul_polynomials_in_evaluation_domain, sample_element_outside_domain. *)
From V Require Import Base.Field C07.Dft C07.Radix2 C07.MixedRadix C07.Domain C07.Domain2
  C07.DftProofs C07.Radix2Proofs C07.DomainProofs C07.Lagrange.
Require Import Lia Field Ring.
Local Open Scope nat_scope.

Section Fil.
  Context {T : Type} (F : Fops T).
  Hypothesis Fth : field_theory (f0 F) (f1 F) (fadd F) (fmul F) (fsub F) (fneg F) (fdiv F) (finv F) eq.
  Hypothesis feqb_ok : forall a b, feqb F a b = true <-> a = b.
  Add Field Ff9 : Fth.
  Local Notation zero := (f0 F).
  Local Notation one := (f1 F).
  Local Notation add := (fadd F).
  Local Notation sub := (fsub F).
  Local Notation mul := (fmul F).
  Local Notation neg := (fneg F).
  Local Notation inv := (finv F).
  Local Notation pw := (pown F).
  Local Notation ev := (eval F).

  (* ---------- list helpers ---------- *)
  Lemma set_nth_length : forall (l : list T) n v, length (set_nth n v l) = length l.
  Proof. induction l as [|a l IH]; intros [|n] v; cbn [set_nth length]; auto. Qed.

  Lemma nth_set_nth_neq : forall (l : list T) n j v, j <> n -> nth j (set_nth n v l) zero = nth j l zero.
  Proof.
    induction l as [|a l IH]; intros [|n] [|j] v H; cbn [set_nth nth]; auto; try lia.
  Qed.

  Lemma eval_set_nth : forall l n v x, n < length l ->
    ev (set_nth n v l) x = add (ev l x) (mul (sub v (nth n l zero)) (pw x n)).
  Proof.
    induction l as [|a l IH]; intros n v x H; cbn [length] in H; [lia|].
    destruct n as [|n]; cbn [set_nth nth pown]; rewrite !(eval_cons F).
    - ring.
    - rewrite IH by lia. ring.
  Qed.

  Lemma eval_repeat_zero : forall n x, ev (repeat zero n) x = zero.
  Proof. induction n; intros; cbn [repeat]; [reflexivity | rewrite (eval_cons F), IHn; ring]. Qed.

  Lemma psub_scaled_length : forall rem dv q, length (psub_scaled F rem dv q) = length rem.
  Proof. induction rem as [|r rem IH]; intros [|d dv] q; cbn [psub_scaled length]; auto. Qed.
  Lemma psub_shift_length : forall sh rem dv q, length (psub_shift F sh rem dv q) = length rem.
  Proof.
    induction sh as [|sh IH]; intros rem dv q; cbn [psub_shift]; [apply psub_scaled_length|].
    destruct rem; cbn [length]; auto.
  Qed.

  Lemma eval_psub_scaled : forall rem dv q x, length dv <= length rem ->
    ev (psub_scaled F rem dv q) x = sub (ev rem x) (mul q (ev dv x)).
  Proof.
    induction rem as [|r rem IH]; intros [|d dv] q x H; cbn [length] in H; cbn [psub_scaled]; try lia.
    - rewrite (eval_nil F). ring.
    - rewrite (eval_nil F). ring.
    - rewrite !(eval_cons F), IH by lia. ring.
  Qed.
  Lemma eval_psub_shift : forall sh rem dv q x, sh + length dv <= length rem ->
    ev (psub_shift F sh rem dv q) x = sub (ev rem x) (mul (mul q (pw x sh)) (ev dv x)).
  Proof.
    induction sh as [|sh IH]; intros rem dv q x H; cbn [psub_shift pown].
    - rewrite eval_psub_scaled by lia. ring.
    - destruct rem as [|r rem]; cbn [length] in H; [lia|]. rewrite !(eval_cons F), IH by lia. ring.
  Qed.

  Lemma last_cons2 : forall (a b : T) l dflt, last (a :: b :: l) dflt = last (b :: l) dflt.
  Proof. reflexivity. Qed.

  Lemma last_psub_scaled : forall rem dv q, dv <> [] -> length dv = length rem ->
    last (psub_scaled F rem dv q) zero = sub (last rem zero) (mul q (last dv zero)).
  Proof.
    induction rem as [|r rem IH]; intros [|d dv] q Hn H; cbn [length] in H; try congruence; try lia.
    destruct rem as [|r2 rem]; destruct dv as [|d2 dv]; cbn [length] in H; try lia.
    - reflexivity.
    - cbn [psub_scaled]. rewrite last_cons2. change (sub r2 (mul q d2) :: psub_scaled F rem dv q) with (psub_scaled F (r2 :: rem) (d2 :: dv) q).
      rewrite IH by (cbn [length]; try discriminate; lia). reflexivity.
  Qed.
  Lemma last_psub_shift : forall sh rem dv q, dv <> [] -> sh + length dv = length rem ->
    last (psub_shift F sh rem dv q) zero = sub (last rem zero) (mul q (last dv zero)).
  Proof.
    induction sh as [|sh IH]; intros rem dv q Hn H; cbn [psub_shift].
    - apply last_psub_scaled; [assumption | lia].
    - destruct rem as [|r rem]; cbn [length] in H; [lia|].
      assert (Hl : length (psub_shift F sh rem dv q) = length rem) by apply psub_shift_length.
      assert (Hd : 1 <= length dv) by (destruct dv; [congruence | cbn [length]; lia]).
      destruct rem as [|r2 rem]; [cbn [length] in H; lia|].
      destruct (psub_shift F sh (r2 :: rem) dv q) as [|u us] eqn:E; [cbn [length] in Hl; lia|].
      rewrite !last_cons2, <- E. apply IH; [assumption | lia].
  Qed.

  (* ---------- trim ---------- *)
  Lemma trim_rev_spec : forall l, exists k, l = repeat zero k ++ trim_rev F l /\
    (trim_rev F l <> [] -> hd zero (trim_rev F l) <> zero).
  Proof.
    induction l as [|a l IH]; [exists 0; split; [reflexivity | intros H; exfalso; apply H; reflexivity]|].
    cbn [trim_rev]. destruct (feqb F a zero) eqn:E.
    - apply feqb_ok in E. subst a. destruct IH as (k & Hk & Hh). exists (S k). split; [cbn [repeat app]; now rewrite <- Hk | exact Hh].
    - exists 0. split; [reflexivity|]. intros _. cbn [hd]. intros ->.
      assert (feqb F zero zero = true) by now apply feqb_ok. congruence.
  Qed.
  Lemma rev_repeat' : forall (a : T) k, rev (repeat a k) = repeat a k.
  Proof.
    induction k; [reflexivity|]. cbn [repeat rev]. rewrite IHk.
    clear. induction k; [reflexivity | cbn [repeat app]; now rewrite IHk].
  Qed.
  Lemma trim_spec : forall l, exists k, l = trim F l ++ repeat zero k /\
    (trim F l <> [] -> last (trim F l) zero <> zero).
  Proof.
    intros l. unfold trim. destruct (trim_rev_spec (rev l)) as (k & Hk & Hh). exists k. split.
    - rewrite <- (rev_involutive l), Hk at 1. now rewrite rev_app_distr, rev_repeat'.
    - intros Hne. set (t := trim_rev F (rev l)) in *.
      assert (Ht : t <> []) by (intros E; apply Hne; now rewrite E).
      specialize (Hh Ht). destruct t as [|a t]; [congruence|]. cbn [hd] in Hh. cbn [rev].
      now rewrite last_last.
  Qed.
  Lemma eval_trim : forall l x, ev (trim F l) x = ev l x.
  Proof.
    intros l x. destruct (trim_spec l) as (k & Hk & _). rewrite Hk at 2. now rewrite (eval_app_zeros F Fth).
  Qed.
  Lemma trim_length_le : forall l, length (trim F l) <= length l.
  Proof. intros l. destruct (trim_spec l) as (k & Hk & _). rewrite Hk at 2. rewrite app_length. lia. Qed.
  Lemma trim_shorter : forall l, l <> [] -> last l zero = zero -> length (trim F l) < length l.
  Proof.
    intros l Hne Hl. destruct (trim_spec l) as (k & Hk & Hnz).
    destruct k as [|k].
    - cbn [repeat] in Hk. rewrite app_nil_r in Hk. rewrite <- Hk in Hnz. specialize (Hnz Hne). congruence.
    - rewrite Hk at 2. rewrite app_length, repeat_length. lia.
  Qed.

  (* ---------- the division loop: quot * dv + rem is invariant ---------- *)
  Section Div.
    Variables (dv : list T) (linv : T).
    Hypothesis Hdv : dv <> [].
    Hypothesis Hlinv : mul (last dv zero) linv = one.

    Lemma divide_loop_inv : forall fuel quot rem q r,
      divide_loop F fuel quot rem dv linv = Some (q, r) ->
      (length dv <= length rem -> length rem - length dv < length quot /\
         forall j, j <= length rem - length dv -> nth j quot zero = zero) ->
      (forall x, add (mul (ev q x) (ev dv x)) (ev r x) = add (mul (ev quot x) (ev dv x)) (ev rem x))
      /\ length r < length dv.
    Proof.
      assert (Hd1 : 1 <= length dv) by (destruct dv; [congruence | cbn [length]; lia]).
      induction fuel as [|fuel IH]; intros quot rem q r E Hq; cbn [divide_loop] in E; [discriminate|].
      destruct (Nat.eqb (length rem) 0 || Nat.ltb (length rem) (length dv))%bool eqn:B.
      - inversion E; subst q r. split; [reflexivity|].
        apply Bool.orb_true_iff in B. destruct B as [B|B]; [apply Nat.eqb_eq in B; lia | apply Nat.ltb_lt in B; lia].
      - apply Bool.orb_false_iff in B. destruct B as [B1 B2]. apply Nat.eqb_neq in B1. apply Nat.ltb_ge in B2.
        destruct (Hq B2) as [Hlen Hz].
        set (deg := length rem - length dv) in *. set (cq := mul (last rem zero) linv) in *.
        set (rem1 := psub_shift F deg rem dv cq) in *.
        assert (L1 : length rem1 = length rem) by apply psub_shift_length.
        assert (Hlast : last rem1 zero = zero).
        { unfold rem1. rewrite last_psub_shift by (try assumption; unfold deg; lia). unfold cq.
          transitivity (sub (last rem zero) (mul (last rem zero) (mul (last dv zero) linv))); [ring|]. rewrite Hlinv. ring. }
        assert (Hsh : length (trim F rem1) < length rem).
        { rewrite <- L1. apply trim_shorter; [|exact Hlast]. intros E1. rewrite E1 in L1. cbn [length] in L1. lia. }
        apply IH in E.
        + destruct E as [E Hr]. split; [|exact Hr]. intros x. rewrite E.
          rewrite eval_trim. unfold rem1. rewrite eval_psub_shift by (unfold deg; lia).
          rewrite eval_set_nth by lia. rewrite (Hz deg) by lia. ring.
        + intros Hge. rewrite set_nth_length. split; [lia|].
          intros j Hj. rewrite nth_set_nth_neq by lia. apply Hz. lia.
    Qed.
  End Div.

  (* divide_with_q_and_r: a returned (q, r) satisfies num = q * dv + r (as functions) and deg r < deg dv;
     the divisor is a trimmed non-zero coefficient list *)
  Theorem divide_with_q_and_r_spec : forall num dv q r,
    dv <> [] -> last dv zero <> zero ->
    divide_with_q_and_r F num dv = Some (q, r) ->
    (forall x, add (mul (ev q x) (ev dv x)) (ev r x) = ev num x) /\ length r < length dv.
  Proof.
    intros num dv q r Hdv Hl E. unfold divide_with_q_and_r in E.
    assert (Hd1 : 1 <= length dv) by (destruct dv; [congruence | cbn [length]; lia]).
    destruct num as [|a num'] eqn:En.
    { inversion E; subst q r. split; [intros; rewrite !(eval_nil F); ring | cbn [length]; lia]. }
    rewrite <- En in *. destruct dv as [|b dv'] eqn:Ed; [congruence|]. rewrite <- Ed in *.
    destruct (Nat.ltb (length num) (length dv)) eqn:B.
    { inversion E; subst q r. apply Nat.ltb_lt in B. split; [intros; rewrite (eval_nil F); ring | exact B]. }
    apply Nat.ltb_ge in B.
    destruct (divide_loop F (S (length num)) (repeat zero (length num - length dv + 1)) num dv (inv (last dv zero))) as [[q0 r0]|] eqn:L;
      [|discriminate].
    inversion E; subst q r. clear E.
    apply (divide_loop_inv dv (inv (last dv zero))) in L.
    - destruct L as [L Hr]. split; [|exact Hr]. intros x. rewrite eval_trim, L, eval_repeat_zero. ring.
    - rewrite Ed. discriminate.
    - field. exact Hl.
    - intros _. rewrite repeat_length. split; [lia|]. intros j _. apply nth_repeat.
  Qed.

  (* ---------- the dense form of a scaled vanishing polynomial ---------- *)
  Lemma fis0_false_nz : forall z, fis0 F z = false -> z <> zero.
  Proof. intros z E ->. assert (fis0 F zero = true) by now apply (fis0_true F feqb_ok). congruence. Qed.

  Lemma eval_scaled_vanishing : forall (d : domain T) N k x, d_size d = Z.of_nat N -> 1 <= N ->
    ev (sparse_to_dense F (sparse_scale F k (vanishing_polynomial F d))) x
    = mul k (sub (pw x N) (d_offset_pow_size d)).
  Proof.
    intros d N k x HN H1. unfold sparse_scale, vanishing_polynomial.
    destruct (fis0 F k) eqn:Ek.
    - apply (fis0_true F feqb_ok) in Ek. subst k. cbn [sparse_to_dense]. rewrite (eval_nil F). ring.
    - cbn [map]. unfold sparse_to_dense. cbn [last fst fold_left]. rewrite HN, Nat2Z.id. change (Z.to_nat 0) with 0.
      rewrite eval_trim. rewrite eval_set_nth by (rewrite set_nth_length, repeat_length; lia).
      rewrite nth_set_nth_neq by lia. rewrite nth_repeat.
      rewrite eval_set_nth by (rewrite repeat_length; lia). rewrite nth_repeat, eval_repeat_zero.
      cbn [pown]. ring.
  Qed.

  Lemma scaled_vanishing_nonzero : forall (d : domain T) N k, d_size d = Z.of_nat N -> 1 <= N -> k <> zero ->
    let l := sparse_to_dense F (sparse_scale F k (vanishing_polynomial F d)) in
    l <> [] /\ last l zero <> zero.
  Proof.
    intros d N k HN H1 Hk l.
    assert (Hne : l <> []).
    { intros E. (* the value at a point where it is non-zero: use the polynomial identity at two points *)
      pose proof (eval_scaled_vanishing d N k zero HN H1) as E0.
      pose proof (eval_scaled_vanishing d N k one HN H1) as E1.
      fold l in E0, E1. rewrite E in E0, E1. rewrite (eval_nil F) in E0, E1.
      assert (P0 : pw zero N = zero) by (destruct N; [lia | cbn [pown]; ring]).
      rewrite P0 in E0. rewrite (pown_one F Fth) in E1.
      assert (Hc : mul k one = zero) by (transitivity (sub (mul k (sub one (d_offset_pow_size d))) (mul k (sub zero (d_offset_pow_size d)))); [ring | rewrite <- E0, <- E1; ring]).
      apply Hk. rewrite <- Hc. ring. }
    split; [exact Hne|].
    unfold l, sparse_to_dense in *. destruct (sparse_scale F k (vanishing_polynomial F d)) eqn:Es; [congruence|].
    rewrite <- Es in *. destruct (trim_spec (fold_left (fun acc '(e, v) => set_nth (Z.to_nat e) v acc) (sparse_scale F k (vanishing_polynomial F d))
           (repeat zero (S (Z.to_nat (fst (last (sparse_scale F k (vanishing_polynomial F d)) (0%Z, zero)))))))) as (kk & _ & Hnz).
    apply Hnz. exact Hne.
  Qed.

  (* ---------- filter_polynomial ---------- *)
  (* the returned polynomial q satisfies, at EVERY tau,
       q(tau) * |G| * Z_S(tau) = |S| * offset_S^|S| * Z_G(tau) *)
  Theorem filter_polynomial_spec : forall (d s : domain T) N n q tau,
    d_size d = Z.of_nat N -> d_size s = Z.of_nat n -> 1 <= N -> 1 <= n ->
    d_size_fe d <> zero ->
    filter_polynomial F d s = Some q ->
    mul (ev q tau) (mul (d_size_fe d) (evaluate_vanishing_polynomial F s tau))
    = mul (mul (d_size_fe s) (pw (d_offset s) n)) (evaluate_vanishing_polynomial F d tau).
  Proof.
    intros d s N n q tau HN Hn H1 H2 Hfe E. unfold filter_polynomial in E.
    set (k1 := mul (d_size_fe s) (fpow F (d_offset s) (d_size s))) in *.
    set (num := sparse_to_dense F (sparse_scale F k1 (vanishing_polynomial F d))) in *.
    set (den := sparse_to_dense F (sparse_scale F (d_size_fe d) (vanishing_polynomial F s))) in *.
    destruct (divide_with_q_and_r F num den) as [[q0 r0]|] eqn:D; [|discriminate].
    destruct r0; [|discriminate]. inversion E; subst q0; clear E.
    destruct (scaled_vanishing_nonzero s n (d_size_fe d) Hn H2 Hfe) as [Hne Hl]. fold den in Hne, Hl.
    destruct (divide_with_q_and_r_spec num den q [] Hne Hl D) as [Hq _].
    specialize (Hq tau). rewrite (eval_nil F) in Hq.
    unfold num, den in Hq. rewrite (eval_scaled_vanishing d N) in Hq by assumption.
    rewrite (eval_scaled_vanishing s n) in Hq by assumption.
    unfold evaluate_vanishing_polynomial. rewrite HN, Hn, !(fpow_spec F Fth).
    unfold k1 in Hq. rewrite Hn, (fpow_spec F Fth) in Hq.
    transitivity (add (mul (ev q tau) (mul (d_size_fe d) (sub (pw tau n) (d_offset_pow_size s)))) zero); [ring|].
    exact Hq.
  Qed.

  (* evaluate_filter_polynomial (the model = the documented meaning) is the value of that polynomial
     wherever Z_S(tau) <> 0 *)
  Theorem evaluate_filter_is_eval : forall (d s : domain T) N n q tau,
    d_size d = Z.of_nat N -> d_size s = Z.of_nat n -> 1 <= N -> 1 <= n ->
    d_size_fe d <> zero -> d_offset_pow_size s = pw (d_offset s) n ->
    filter_polynomial F d s = Some q ->
    evaluate_vanishing_polynomial F s tau <> zero ->
    evaluate_filter_polynomial F d s tau = ev q tau.
  Proof.
    intros d s N n q tau HN Hn H1 H2 Hfe Hops E Hz.
    pose proof (filter_polynomial_spec d s N n q tau HN Hn H1 H2 Hfe E) as Hs.
    unfold evaluate_filter_polynomial.
    destruct (fis0 F (evaluate_vanishing_polynomial F s tau)) eqn:B.
    - apply (fis0_true F feqb_ok) in B. congruence.
    - rewrite Hops. unfold fdiv. set (zs := evaluate_vanishing_polynomial F s tau) in *.
      set (zd := evaluate_vanishing_polynomial F d tau) in *.
      rewrite <- Hs. field. split; assumption.
  Qed.

  (* what the Rust code computes instead (DEFECT-1): it agrees when offset_S^|S| = 1 *)
  Theorem evaluate_filter_as_coded_agrees : forall (d s : domain T) tau,
    d_offset_pow_size s = one ->
    evaluate_filter_polynomial_as_coded F d s tau = evaluate_filter_polynomial F d s tau.
  Proof.
    intros d s tau H. unfold evaluate_filter_polynomial_as_coded, evaluate_filter_polynomial. rewrite H.
    destruct (fis0 F (evaluate_vanishing_polynomial F s tau)); [reflexivity|]. f_equal. ring.
  Qed.

  (* ---------- mul_polynomials_in_evaluation_domain ---------- *)
  Lemma eval_padd : forall a b x, ev (padd F a b) x = add (ev a x) (ev b x).
  Proof.
    induction a as [|u a IH]; intros [|v b] x; cbn [padd]; rewrite ?(eval_cons F), ?(eval_nil F); try ring.
    rewrite IH. ring.
  Qed.
  Lemma eval_map_mul : forall c b x, ev (map (mul c) b) x = mul c (ev b x).
  Proof. induction b as [|v b IH]; intros x; cbn [map]; rewrite ?(eval_cons F), ?(eval_nil F); [ring | rewrite IH; ring]. Qed.
  Lemma eval_pmul : forall a b x, ev (pmul F a b) x = mul (ev a x) (ev b x).
  Proof.
    induction a as [|u a IH]; intros b x; cbn [pmul]; [rewrite !(eval_nil F); ring|].
    rewrite eval_padd, eval_map_mul, !(eval_cons F), IH. ring.
  Qed.
  (* the pointwise product of the evaluations of a and b over a (coset) domain = the evaluations of a*b *)
  Theorem mul_in_evaluation_domain_spec : forall n h w a b,
    mul_polynomials_in_evaluation_domain F (dft_coset F n h w a) (dft_coset F n h w b)
    = Some (dft_coset F n h w (pmul F a b)).
  Proof.
    intros. unfold mul_polynomials_in_evaluation_domain, dft_coset. rewrite !map_length, Nat.eqb_refl.
    rewrite zipw_map_map. f_equal. apply map_ext. intros i. now rewrite eval_pmul.
  Qed.

  (* ---------- sample_element_outside_domain ---------- *)
  Theorem sample_outside_spec : forall (d : domain T) cands t,
    sample_element_outside_domain F d cands = Some t ->
    In t cands /\ evaluate_vanishing_polynomial F d t <> zero.
  Proof.
    induction cands as [|c cands IH]; intros t E; cbn [sample_element_outside_domain] in E; [discriminate|].
    destruct (fis0 F (evaluate_vanishing_polynomial F d c)) eqn:B.
    - destruct (IH t E) as [H1 H2]. split; [now right | exact H2].
    - inversion E; subst c. split; [now left | now apply fis0_false_nz].
  Qed.
  (* ... hence not an element of the domain *)
  Theorem sample_outside_not_in_domain : forall (d : domain T) (n : nat) cands t,
    d_size d = Z.of_nat n -> (1 <= n) -> pw (d_gen d) n = one ->
    (forall i, 0 < i < n -> pw (d_gen d) i <> one) -> d_offset d <> zero ->
    d_offset_pow_size d = pw (d_offset d) n -> nfe F n <> zero ->
    sample_element_outside_domain F d cands = Some t ->
    forall j, j < n -> t <> mul (d_offset d) (pw (d_gen d) j).
  Proof.
    intros d n cands t Hn H1 Hg Hord Hh Hops Hnz E j Hj Ht.
    destruct (sample_outside_spec d cands t E) as [_ Hv]. apply Hv.
    apply (vanishing_zero_iff_in_domain F Fth feqb_ok d n t Hn H1 Hg Hord Hh Hops Hnz). exists j. split; assumption.
  Qed.
End Fil.
