(* C07 proofs: k_adicity (ff/src/fields/utils.rs) computes the exact k-adic valuation.
   Pure Z arithmetic. *)
Require Import ZArith Lia Znumtheory Zpow_facts.
From V Require Import Base.Field C07.Dft C07.Radix2 C07.MixedRadix.
Open Scope Z_scope.

Lemma k_adicity_loop_spec : forall (e : nat) fuel k u r,
  2 <= k -> 1 <= u -> ~ (k | u) -> (e < fuel)%nat ->
  k_adicity_loop fuel k (k ^ Z.of_nat e * u) r = r + Z.of_nat e.
Proof.
  induction e as [|e IH]; intros fuel k u r Hk Hu Hnd Hf.
  - change (Z.of_nat 0) with 0. rewrite Z.pow_0_r, Z.mul_1_l, Z.add_0_r.
    destruct fuel as [|f]; [lia|].
    cbn [k_adicity_loop].
    destruct (u <=? 1) eqn:Hu1; [reflexivity|].
    destruct (u mod k =? 0) eqn:Hm; [|reflexivity].
    apply Z.eqb_eq in Hm. apply Z.mod_divide in Hm; [|lia]. contradiction.
  - destruct fuel as [|f]; [lia|].
    rewrite Nat2Z.inj_succ, Z.pow_succ_r by lia.
    assert (Hp' : 0 < k ^ Z.of_nat e) by (apply Z.pow_pos_nonneg; lia).
    assert (Hm1 : 1 <= k ^ Z.of_nat e * u) by nia.
    cbn [k_adicity_loop].
    replace (k * k ^ Z.of_nat e * u) with ((k ^ Z.of_nat e * u) * k) by ring.
    destruct ((k ^ Z.of_nat e * u) * k <=? 1) eqn:Hle.
    { apply Z.leb_le in Hle. nia. }
    rewrite Z.mod_mul by lia. rewrite Z.eqb_refl.
    rewrite Z.div_mul by lia.
    rewrite IH by (try assumption; lia). lia.
Qed.

Theorem k_adicity_spec : forall k e u,
  2 <= k -> 0 <= e -> 1 <= u -> ~ (k | u) -> k_adicity k (k ^ e * u) = e.
Proof.
  intros k e u Hk He Hu Hnd. unfold k_adicity.
  assert (H2e : 2 ^ e <= k ^ e) by (apply Z.pow_le_mono_l; lia).
  assert (H2p : 0 < 2 ^ e) by (apply Z.pow_pos_nonneg; lia).
  assert (Hn : 2 ^ e <= k ^ e * u) by nia.
  assert (Hlog : e <= Z.log2 (k ^ e * u)) by (apply Z.log2_le_pow2; lia).
  rewrite <- (Z2Nat.id e) at 2 by lia.
  rewrite k_adicity_loop_spec by (try assumption; lia).
  rewrite Z2Nat.id by lia. lia.
Qed.

(* an odd number dividing 2*m divides m *)
Lemma odd_divide_double : forall q m, Z.odd q = true -> (q | 2 * m) -> (q | m).
Proof.
  intros q m Hq [c Hc].
  assert (Hoc : Z.odd c = false).
  { assert (Ho : Z.odd (2 * m) = false) by (rewrite Z.odd_mul; reflexivity).
    rewrite Hc, Z.odd_mul, Hq, Bool.andb_true_r in Ho. exact Ho. }
  assert (Hev : Z.even c = true) by (rewrite <- Z.negb_odd, Hoc; reflexivity).
  apply Z.even_spec in Hev. destruct Hev as [d Hd].
  exists d. subst c. lia.
Qed.

Lemma odd_not_divide_pow2 : forall q s, 3 <= q -> Z.odd q = true -> 0 <= s -> ~ (q | 2 ^ s).
Proof.
  intros q s Hq Ho Hs. revert s Hs.
  apply (natlike_ind (fun s => ~ (q | 2 ^ s))).
  - rewrite Z.pow_0_r. intros Hd. apply Z.divide_1_r_nonneg in Hd; lia.
  - intros s Hs IH Hd. rewrite Z.pow_succ_r in Hd by lia.
    apply IH, odd_divide_double; assumption.
Qed.

Lemma odd_pow_odd : forall q t, Z.odd q = true -> 0 <= t -> Z.odd (q ^ t) = true.
Proof.
  intros q t Hq Ht.
  destruct (Z.eq_dec t 0) as [->|Hne]; [reflexivity|].
  rewrite Z.odd_pow by lia. exact Hq.
Qed.

Lemma two_not_divide_odd : forall x, Z.odd x = true -> ~ (2 | x).
Proof.
  intros x Hx [c Hc]. subst x. rewrite Z.odd_mul in Hx.
  rewrite Bool.andb_false_r in Hx. discriminate.
Qed.

Theorem k_adicity_q_part : forall q s t,
  3 <= q -> Z.odd q = true -> 0 <= s -> 0 <= t -> k_adicity q (q ^ t * 2 ^ s) = t.
Proof.
  intros q s t Hq Ho Hs Ht.
  assert (Hp : 0 < 2 ^ s) by (apply Z.pow_pos_nonneg; lia).
  apply k_adicity_spec; [lia | lia | lia |].
  apply odd_not_divide_pow2; assumption.
Qed.

Theorem k_adicity_q_part' : forall q s t,
  3 <= q -> Z.odd q = true -> 0 <= s -> 0 <= t -> k_adicity q (2 ^ s * q ^ t) = t.
Proof.
  intros q s t Hq Ho Hs Ht. rewrite Z.mul_comm. apply k_adicity_q_part; assumption.
Qed.

Theorem k_adicity_two_part : forall q s t,
  Z.odd q = true -> 1 <= q -> 0 <= s -> 0 <= t -> k_adicity 2 (2 ^ s * q ^ t) = s.
Proof.
  intros q s t Ho Hq Hs Ht.
  assert (Hp : 0 < q ^ t) by (apply Z.pow_pos_nonneg; lia).
  apply k_adicity_spec; [lia | lia | lia |].
  apply two_not_divide_odd, odd_pow_odd; assumption.
Qed.

Theorem k_adicity_two_part' : forall q s t,
  Z.odd q = true -> 1 <= q -> 0 <= s -> 0 <= t -> k_adicity 2 (q ^ t * 2 ^ s) = s.
Proof.
  intros q s t Ho Hq Hs Ht. rewrite Z.mul_comm. apply k_adicity_two_part; assumption.
Qed.

Example k_adicity_ex1 : k_adicity 3 (3 ^ 2 * 2 ^ 5) = 2.
Proof. vm_compute. reflexivity. Qed.
Example k_adicity_ex2 : k_adicity 2 (2 ^ 5 * 3 ^ 2) = 5.
Proof. vm_compute. reflexivity. Qed.
