(* C07 proofs, part 6: evaluate_all_lagrange_coefficients (poly/src/domain/mod.rs) over an
   abstract field.  Setting: a domain of size n >= 1, g = d_gen a primitive n-th root of unity,
   offset h <> 0, stored offset^size, size_fe = n * 1 <> 0 (characteristic does not divide n),
   a_i = h g^i the domain elements.  Main results (all without exceptions on tau):
     lagrange_length               the result has n entries
     lagrange_in_domain            tau = a_j  ->  result = j-th unit vector
     vanishing_zero_iff_in_domain  Z(tau) = 0 <-> tau is one of the a_j  (X^n - h^n has no other roots)
     lagrange_generic_coeff        Z(tau) <> 0 -> L_i * (n h^n (tau - a_i)) = Z(tau) * a_i
     lagrange_interpolates         sum_{i<n} L_i * p(a_i) = p(tau) for EVERY tau, every p with
                                   at most n coefficients (both branches of the code)
   Batch inversion is modelled by [map (finv F)]; no assumption on [finv zero] is needed because in
   the generic branch every inverted entry is non-zero.
   Auxiliary specification-level definitions: [nfe n] = 1 + ... + 1 (n times), [sumn n f] =
   f 0 + ... + f (n-1). *)
From V Require Import Base.Field C07.Dft C07.Radix2 C07.MixedRadix C07.Domain C07.DftProofs C07.Radix2Proofs C07.DomainProofs.
Require Import Lia Field Ring.
Local Open Scope nat_scope.

Section Lag.
  Context {T : Type} (F : Fops T).
  Hypothesis Fth : field_theory (f0 F) (f1 F) (fadd F) (fmul F) (fsub F) (fneg F) (fdiv F) (finv F) eq.
  Hypothesis feqb_ok : forall a b, feqb F a b = true <-> a = b.
  Add Field Ff7 : Fth.
  Local Notation zero := (f0 F).
  Local Notation one := (f1 F).
  Local Notation add := (fadd F).
  Local Notation sub := (fsub F).
  Local Notation mul := (fmul F).
  Local Notation neg := (fneg F).
  Local Notation inv := (finv F).
  Local Notation pw := (pown F).
  Local Notation ev := (eval F).

  (* n * 1 *)
  Fixpoint nfe (n : nat) : T := match n with O => zero | S n' => add one (nfe n') end.
  (* f 0 + ... + f (n-1) *)
  Fixpoint sumn (n : nat) (f : nat -> T) : T :=
    match n with O => zero | S n' => add (sumn n' f) (f n') end.

  (* ---------- field basics ---------- *)
  Lemma lg_one_neq_zero : one <> zero.
  Proof. exact (F_1_neq_0 Fth). Qed.

  Lemma lg_integral : forall a b, mul a b = zero -> b <> zero -> a = zero.
  Proof.
    intros a b H Hb. transitivity (mul (mul a b) (inv b)); [field; exact Hb | rewrite H; ring].
  Qed.
  Lemma lg_mul_nz : forall a b, a <> zero -> b <> zero -> mul a b <> zero.
  Proof. intros a b Ha Hb H. apply Ha. exact (lg_integral a b H Hb). Qed.
  Lemma lg_pown_nz : forall x n, x <> zero -> pw x n <> zero.
  Proof.
    intros x n Hx. induction n as [|n IH]; cbn [pown]; [exact lg_one_neq_zero | now apply lg_mul_nz].
  Qed.
  Lemma lg_sub_zero_eq : forall a b, sub a b = zero -> a = b.
  Proof. intros a b H. transitivity (add (sub a b) b); [ring | rewrite H; ring]. Qed.
  Lemma lg_mul_one_nz : forall a b, mul a b = one -> a <> zero.
  Proof. intros a b H Ha. rewrite Ha in H. apply lg_one_neq_zero. rewrite <- H. ring. Qed.
  Lemma lg_mul_cancel_r : forall a b c, c <> zero -> mul a c = mul b c -> a = b.
  Proof.
    intros a b c Hc H. apply lg_sub_zero_eq. apply (lg_integral _ c); [|exact Hc].
    transitivity (sub (mul a c) (mul b c)); [ring | rewrite H; ring].
  Qed.
  Lemma lg_inv_unique : forall a b, mul a b = one -> b = inv a.
  Proof.
    intros a b H. pose proof (lg_mul_one_nz a b H) as Ha.
    transitivity (mul (mul a b) (inv a)); [field; exact Ha | rewrite H; ring].
  Qed.

  (* ---------- finite sums ---------- *)
  Lemma sumn_ext : forall n f g, (forall i, i < n -> f i = g i) -> sumn n f = sumn n g.
  Proof.
    induction n as [|n IH]; intros f g H; cbn [sumn]; [reflexivity|].
    rewrite (IH f g) by (intros i Hi; apply H; lia). rewrite (H n) by lia. reflexivity.
  Qed.
  Lemma sumn_zero : forall n, sumn n (fun _ => zero) = zero.
  Proof. induction n as [|n IH]; cbn [sumn]; [reflexivity | rewrite IH; ring]. Qed.
  Lemma sumn_add : forall n f g, sumn n (fun i => add (f i) (g i)) = add (sumn n f) (sumn n g).
  Proof. induction n as [|n IH]; intros f g; cbn [sumn]; [ring | rewrite IH; ring]. Qed.
  Lemma sumn_scale : forall n c f, sumn n (fun i => mul c (f i)) = mul c (sumn n f).
  Proof. induction n as [|n IH]; intros c f; cbn [sumn]; [ring | rewrite IH; ring]. Qed.
  Lemma sumn_scale_r : forall n c f, sumn n (fun i => mul (f i) c) = mul (sumn n f) c.
  Proof. induction n as [|n IH]; intros c f; cbn [sumn]; [ring | rewrite IH; ring]. Qed.
  Lemma sumn_const : forall n c, sumn n (fun _ => c) = mul (nfe n) c.
  Proof. induction n as [|n IH]; intros c; cbn [sumn nfe]; [ring | rewrite IH; ring]. Qed.
  Lemma sumn_exch : forall n m (f : nat -> nat -> T),
    sumn n (fun i => sumn m (fun j => f i j)) = sumn m (fun j => sumn n (fun i => f i j)).
  Proof.
    induction n as [|n IH]; intros m f; cbn [sumn].
    - now rewrite sumn_zero.
    - rewrite IH. symmetry.
      exact (sumn_add m (fun j => sumn n (fun i => f i j)) (fun j => f n j)).
  Qed.
  Lemma sumn_shift : forall n f, sumn (S n) f = add (f 0) (sumn n (fun i => f (S i))).
  Proof.
    induction n as [|n IH]; intros f.
    - cbn [sumn]. ring.
    - change (sumn (S (S n)) f) with (add (sumn (S n) f) (f (S n))). rewrite IH. cbn [sumn]. ring.
  Qed.
  Lemma sumn_single : forall n j f, j < n -> (forall i, i < n -> i <> j -> f i = zero) ->
    sumn n f = f j.
  Proof.
    induction n as [|n IH]; intros j f Hj H; [lia|]. cbn [sumn].
    destruct (Nat.eq_dec j n) as [->|Hne].
    - rewrite (sumn_ext n f (fun _ => zero)) by (intros i Hi; apply H; lia).
      rewrite sumn_zero. ring.
    - rewrite (IH j f) by (try lia; intros i Hi Hij; apply H; lia).
      rewrite (H n) by lia. ring.
  Qed.

  (* a polynomial value as a finite sum *)
  Lemma eval_sum : forall c x, ev c x = sumn (length c) (fun k => mul (nth k c zero) (pw x k)).
  Proof.
    induction c as [|a c IH]; intros x; [reflexivity|].
    cbn [length]. rewrite sumn_shift, (eval_cons F), IH. cbn [nth pown].
    rewrite <- sumn_scale. replace (mul a one) with a by ring. f_equal.
    apply sumn_ext. intros i _. ring.
  Qed.

  (* linearity: an interpolation identity for the monomials extends to all polynomials *)
  Lemma interp_linear : forall n (L a : nat -> T) tau c,
    (forall k, k < n -> sumn n (fun i => mul (L i) (pw (a i) k)) = pw tau k) ->
    length c <= n ->
    sumn n (fun i => mul (L i) (ev c (a i))) = ev c tau.
  Proof.
    intros n L a tau c H Hc.
    rewrite (sumn_ext n _ (fun i => sumn (length c) (fun k => mul (nth k c zero) (mul (L i) (pw (a i) k))))).
    2:{ intros i _. rewrite eval_sum, <- sumn_scale. apply sumn_ext. intros k _. ring. }
    rewrite sumn_exch, eval_sum. apply sumn_ext. intros k Hk.
    rewrite sumn_scale, H by lia. reflexivity.
  Qed.

  (* ---------- geometric series ---------- *)
  Lemma geom : forall x y n,
    sub (pw x n) (pw y n) = mul (sub x y) (sumn n (fun m => mul (pw x (n - 1 - m)) (pw y m))).
  Proof.
    intros x y. induction n as [|n IH].
    - cbn [pown sumn]. ring.
    - cbn [sumn].
      rewrite (sumn_ext n _ (fun m => mul x (mul (pw x (n - 1 - m)) (pw y m)))).
      2:{ intros m Hm. replace (S n - 1 - m) with (S (n - 1 - m)) by lia. cbn [pown]. ring. }
      rewrite sumn_scale. replace (S n - 1 - n) with 0 by lia. cbn [pown].
      transitivity (add (mul x (sub (pw x n) (pw y n))) (mul (sub x y) (pw y n))); [ring|].
      rewrite IH. ring.
  Qed.
  Lemma geom1 : forall r n, mul (sub r one) (sumn n (fun i => pw r i)) = sub (pw r n) one.
  Proof.
    intros r. induction n as [|n IH]; cbn [sumn pown]; [ring|].
    transitivity (add (mul (sub r one) (sumn n (fun i => pw r i))) (mul (sub r one) (pw r n))); [ring|].
    rewrite IH. ring.
  Qed.

  (* ---------- the coset h * <g>, g a primitive n-th root of unity ---------- *)
  Section Roots.
    Variables (g h : T) (n : nat).
    Hypothesis Hn : 1 <= n.
    Hypothesis Hg : pw g n = one.
    Hypothesis Hprim : forall i, 0 < i < n -> pw g i <> one.
    Hypothesis Hh : h <> zero.
    Local Notation el i := (mul h (pw g i)) (only parsing).
    (* (tau^n - a^n) / (tau - a) *)
    Local Notation quo tau a := (sumn n (fun m => mul (pw tau (n - 1 - m)) (pw a m))) (only parsing).

    Lemma g_nz : g <> zero.
    Proof.
      apply (lg_mul_one_nz g (pw g (n - 1))). rewrite <- Hg.
      replace n with (S (n - 1)) at 2 by lia. reflexivity.
    Qed.
    Lemma el_nz : forall i, el i <> zero.
    Proof. intros i. apply lg_mul_nz; [exact Hh | apply lg_pown_nz, g_nz]. Qed.
    Lemma g_pow_mul_n : forall e, pw g (e * n) = one.
    Proof. intros e. rewrite Nat.mul_comm, (pown_mul F Fth), Hg. apply (pown_one F Fth). Qed.
    Lemma el_pow_n : forall i, pw (el i) n = pw h n.
    Proof. intros i. rewrite (pown_mulbase F Fth), <- (pown_mul F Fth), g_pow_mul_n. ring. Qed.

    Lemma g_ord : forall e, 0 < e < 2 * n -> e <> n -> pw g e <> one.
    Proof.
      intros e He Hne. destruct (Nat.lt_ge_cases e n) as [L|L]; [apply Hprim; lia|].
      replace e with (n + (e - n)) by lia. rewrite (pown_add F Fth), Hg.
      intros H. apply (Hprim (e - n)); [lia|]. rewrite <- H. ring.
    Qed.

    Lemma el_distinct : forall i j, i < j -> j < n -> el i <> el j.
    Proof.
      intros i j Hij Hj E. apply (Hprim (j - i)); [lia|].
      replace j with (i + (j - i)) in E by lia. rewrite (pown_add F Fth) in E.
      apply lg_sub_zero_eq. apply (lg_integral _ (el i)); [|apply el_nz].
      transitivity (sub (mul h (mul (pw g i) (pw g (j - i)))) (el i)); [ring|].
      rewrite <- E. ring.
    Qed.

    (* orthogonality of the characters i |-> g^(i e) *)
    Lemma orth0 : forall e, pw g e <> one -> sumn n (fun i => pw g (i * e)) = zero.
    Proof.
      intros e He.
      rewrite (sumn_ext n _ (fun i => pw (pw g e) i)).
      2:{ intros i _. now rewrite Nat.mul_comm, (pown_mul F Fth). }
      apply (lg_integral _ (sub (pw g e) one)).
      - transitivity (mul (sub (pw g e) one) (sumn n (fun i => pw (pw g e) i))); [ring|].
        rewrite geom1, <- (pown_mul F Fth), g_pow_mul_n. ring.
      - intros H. apply He. now apply lg_sub_zero_eq.
    Qed.
    Lemma orth1 : forall e, pw g e = one -> sumn n (fun i => pw g (i * e)) = nfe n.
    Proof.
      intros e He.
      rewrite (sumn_ext n _ (fun _ => one)).
      2:{ intros i _. rewrite Nat.mul_comm, (pown_mul F Fth), He. apply (pown_one F Fth). }
      rewrite sumn_const. ring.
    Qed.

    (* the key identity (no division): sum_i quo(tau, a_i) * a_i^(k+1) = n h^n tau^k, k < n *)
    Lemma key_identity : forall tau k, k < n ->
      sumn n (fun i => mul (quo tau (el i)) (pw (el i) (S k))) = mul (mul (nfe n) (pw h n)) (pw tau k).
    Proof.
      intros tau k Hk.
      rewrite (sumn_ext n _ (fun i => sumn n (fun m =>
                 mul (mul (pw tau (n - 1 - m)) (pw h (m + S k))) (pw g (i * (m + S k)))))).
      2:{ intros i _. rewrite <- sumn_scale_r. apply sumn_ext. intros m _.
          rewrite !(pown_mulbase F Fth), <- !(pown_mul F Fth), Nat.mul_add_distr_l, !(pown_add F Fth). ring. }
      rewrite sumn_exch. rewrite (sumn_single n (n - 1 - k)); [| lia |].
      - rewrite sumn_scale, orth1.
        + replace (n - 1 - (n - 1 - k)) with k by lia. replace (n - 1 - k + S k) with n by lia. ring.
        + replace (n - 1 - k + S k) with n by lia. exact Hg.
      - intros m Hm Hne. rewrite sumn_scale, orth0; [ring|]. apply g_ord; lia.
    Qed.

    Hypothesis HN : nfe n <> zero.

    Lemma D_nz : mul (nfe n) (pw h n) <> zero.
    Proof. apply lg_mul_nz; [exact HN | apply lg_pown_nz, Hh]. Qed.

    (* bounded search for tau among the domain elements *)
    Lemma find_elt : forall tau m,
      (exists j, j < m /\ el j = tau) \/ (forall j, j < m -> el j <> tau).
    Proof.
      intros tau. induction m as [|m IH]; [right; intros j Hj; lia|].
      destruct IH as [[j [Hj E]]|Hno]; [left; exists j; split; [lia | exact E]|].
      destruct (feqb F (el m) tau) eqn:E.
      - left. exists m. split; [lia | now apply feqb_ok].
      - right. intros j Hj. destruct (Nat.eq_dec j m) as [->|Hne].
        + intros X. apply feqb_ok in X. congruence.
        + apply Hno. lia.
    Qed.

    (* X^n - h^n has no roots besides the domain elements *)
    Lemma root_in_domain : forall tau, pw tau n = pw h n -> exists j, j < n /\ el j = tau.
    Proof.
      intros tau Ht. destruct (find_elt tau n) as [H|Hno]; [exact H | exfalso].
      assert (HS : forall i, i < n -> quo tau (el i) = zero).
      { intros i Hi. apply (lg_integral _ (sub tau (el i))).
        - transitivity (mul (sub tau (el i)) (quo tau (el i))); [ring|].
          rewrite <- geom, el_pow_n, Ht. ring.
        - intros X. apply lg_sub_zero_eq in X. apply (Hno i Hi). now symmetry. }
      pose proof (key_identity tau 0 ltac:(lia)) as K.
      rewrite (sumn_ext n _ (fun _ => zero)) in K.
      2:{ intros i Hi. cbv beta. rewrite (HS i Hi). ring. }
      rewrite sumn_zero in K. apply D_nz. cbn [pown] in K.
      transitivity (mul (mul (nfe n) (pw h n)) one); [ring | now symmetry].
    Qed.

    (* ---------- the in-domain branch ---------- *)
    Lemma lg_map_zero : forall m s j, j < s ->
      map (fun i => if Nat.eqb i j then one else zero) (seq s m) = repeat zero m.
    Proof.
      induction m as [|m IH]; intros s j H; [reflexivity|]. cbn [seq map repeat].
      destruct (Nat.eqb_spec s j) as [E|E]; [lia|]. f_equal. apply IH. lia.
    Qed.

    Lemma scan_spec : forall tau j m s, s <= j -> j < s + m ->
      (forall i, s <= i < j -> el i <> tau) -> el j = tau ->
      lagrange_scan F m (el s) tau g = map (fun i => if Nat.eqb i j then one else zero) (seq s m).
    Proof.
      intros tau j. induction m as [|m IH]; intros s Hs Hj Hfirst Hhit; [lia|].
      cbn [lagrange_scan seq map]. destruct (Nat.eq_dec s j) as [E|E].
      - subst s. rewrite (proj2 (feqb_ok _ _) Hhit), Nat.eqb_refl. f_equal.
        symmetry. apply lg_map_zero. lia.
      - destruct (feqb F (el s) tau) eqn:Eq.
        + apply feqb_ok in Eq. exfalso. apply (Hfirst s); [lia | exact Eq].
        + destruct (Nat.eqb_spec s j) as [E'|_]; [lia|]. f_equal.
          replace (mul (el s) g) with (el (S s)) by (cbn [pown]; ring).
          apply IH; [lia | lia | | exact Hhit]. intros i Hi. apply Hfirst. lia.
    Qed.

    Lemma scan_in_domain : forall j, j < n ->
      lagrange_scan F n h (el j) g = map (fun i => if Nat.eqb i j then one else zero) (seq 0 n).
    Proof.
      intros j Hj. replace h with (el 0) at 1 by (cbn [pown]; ring).
      apply scan_spec; [lia | lia | | reflexivity].
      intros i Hi. apply el_distinct; lia.
    Qed.

    (* ---------- the generic branch ---------- *)
    Variable gi : T.
    Hypothesis Hgi : mul g gi = one.

    Lemma gi_pow : forall i, pw gi i = inv (pw g i).
    Proof.
      intros i. apply lg_inv_unique. rewrite <- (pown_mulbase F Fth), Hgi. apply (pown_one F Fth).
    Qed.

    (* closed form of one inverted entry: 1 / (l_i (tau - a_i)) * (n h^n) = quo(tau, a_i) * a_i *)
    Lemma coeff_closed : forall tau i, sub (pw tau n) (pw h n) <> zero ->
      mul (inv (mul (mul (mul (inv (sub (pw tau n) (pw h n))) (mul (nfe n) (pw h (n - 1)))) (pw gi i))
                    (add tau (mul (neg h) (pw g i)))))
          (mul (nfe n) (pw h n))
      = mul (quo tau (el i)) (el i).
    Proof.
      intros tau i Hz.
      assert (Hq : sub (pw tau n) (pw h n) = mul (sub tau (el i)) (quo tau (el i))).
      { rewrite <- geom, el_pow_n. reflexivity. }
      rewrite Hq in *. clear Hq.
      set (Q := quo tau (el i)) in *.
      assert (Hu : sub tau (el i) <> zero).
      { intros X. apply Hz. rewrite X. ring. }
      assert (HQ : Q <> zero).
      { intros X. apply Hz. rewrite X. ring. }
      rewrite gi_pow. replace (pw h n) with (mul h (pw h (n - 1))).
      2:{ replace n with (S (n - 1)) at 2 by lia. reflexivity. }
      pose proof (lg_pown_nz h (n - 1) Hh) as H1.
      pose proof (lg_pown_nz g i g_nz) as HG.
      set (H' := pw h (n - 1)) in *. set (G := pw g i) in *. set (N := nfe n) in *.
      field. repeat split; try assumption.
    Qed.

    Lemma lg_nth_map_seq : forall (f : nat -> T) m i, i < m -> nth i (map f (seq 0 m)) zero = f i.
    Proof.
      intros f m i Hi. rewrite (nth_indep _ zero (f 0)) by (rewrite map_length, seq_length; lia).
      rewrite map_nth, seq_nth by lia. reflexivity.
    Qed.

    Lemma inv_coeffs_spec : forall tau m l nc,
      lagrange_inv_coeffs F m l nc tau g gi =
      map (fun i => mul (mul l (pw gi i)) (add tau (mul nc (pw g i)))) (seq 0 m).
    Proof.
      intros tau. induction m as [|m IH]; intros l nc; [reflexivity|].
      cbn [lagrange_inv_coeffs seq map]. f_equal; [cbn [pown]; ring|].
      rewrite IH, <- seq_shift, map_map. apply map_ext. intros i. cbn [pown]. ring.
    Qed.

    (* the list computed in the generic branch, with the stored constants replaced by their meaning *)
    Definition generic_coeffs (tau : T) : list T :=
      map inv (lagrange_inv_coeffs F n
                 (mul (inv (sub (pw tau n) (pw h n))) (mul (nfe n) (pw h (n - 1))))
                 (neg h) tau g gi).

    Lemma generic_nth : forall tau i, sub (pw tau n) (pw h n) <> zero -> i < n ->
      mul (nth i (generic_coeffs tau) zero) (mul (nfe n) (pw h n)) = mul (quo tau (el i)) (el i).
    Proof.
      intros tau i Hz Hi. unfold generic_coeffs. rewrite inv_coeffs_spec, map_map.
      rewrite lg_nth_map_seq by exact Hi. now apply coeff_closed.
    Qed.

    Lemma generic_monomial : forall tau k, sub (pw tau n) (pw h n) <> zero -> k < n ->
      sumn n (fun i => mul (nth i (generic_coeffs tau) zero) (pw (el i) k)) = pw tau k.
    Proof.
      intros tau k Hz Hk. apply (lg_mul_cancel_r _ _ (mul (nfe n) (pw h n)) D_nz).
      rewrite <- sumn_scale_r.
      rewrite (sumn_ext n _ (fun i => mul (quo tau (el i)) (pw (el i) (S k)))).
      - rewrite key_identity by exact Hk. ring.
      - intros i Hi. cbv beta.
        transitivity (mul (mul (nth i (generic_coeffs tau) zero) (mul (nfe n) (pw h n))) (pw (el i) k)); [ring|].
        rewrite generic_nth by assumption. cbn [pown]. ring.
    Qed.

    Lemma generic_interp : forall tau c, sub (pw tau n) (pw h n) <> zero -> length c <= n ->
      sumn n (fun i => mul (nth i (generic_coeffs tau) zero) (ev c (el i))) = ev c tau.
    Proof.
      intros tau c Hz Hc.
      apply (interp_linear n (fun i => nth i (generic_coeffs tau) zero) (fun i => el i) tau c); [|exact Hc].
      intros k Hk. now apply generic_monomial.
    Qed.

    Lemma unit_interp : forall j c, j < n ->
      sumn n (fun i => mul (nth i (map (fun i => if Nat.eqb i j then one else zero) (seq 0 n)) zero) (ev c (el i)))
      = ev c (el j).
    Proof.
      intros j c Hj. rewrite (sumn_single n j); [| exact Hj |].
      - rewrite lg_nth_map_seq by exact Hj. rewrite Nat.eqb_refl. ring.
      - intros i Hi Hne. rewrite lg_nth_map_seq by exact Hi.
        destruct (Nat.eqb_spec i j) as [E|_]; [contradiction | ring].
    Qed.
  End Roots.

  (* ---------- evaluate_all_lagrange_coefficients ---------- *)
  Lemma scan_length : forall m cur tau g, length (lagrange_scan F m cur tau g) = m.
  Proof.
    induction m as [|m IH]; intros cur tau g; [reflexivity|]. cbn [lagrange_scan].
    destruct (feqb F cur tau); cbn [length]; [now rewrite repeat_length | now rewrite IH].
  Qed.

  Theorem lagrange_length : forall (d : domain T) (n : nat) tau, d_size d = Z.of_nat n ->
    length (evaluate_all_lagrange_coefficients F d tau) = n.
  Proof.
    intros d n tau Hs. unfold evaluate_all_lagrange_coefficients. cbv zeta. rewrite Hs, Nat2Z.id.
    destruct (fis0 F _).
    - apply scan_length.
    - rewrite map_length, inv_coeffs_spec, map_length, seq_length. reflexivity.
  Qed.

  Lemma fis0_true : forall z, fis0 F z = true <-> z = zero.
  Proof. intros z. unfold fis0. apply feqb_ok. Qed.

  (* tau a domain element: the j-th unit vector *)
  Theorem lagrange_in_domain : forall (d : domain T) (n j : nat) tau,
    d_size d = Z.of_nat n ->
    pw (d_gen d) n = one -> (forall i, 0 < i < n -> pw (d_gen d) i <> one) ->
    d_offset d <> zero -> d_offset_pow_size d = pw (d_offset d) n ->
    j < n -> tau = mul (d_offset d) (pw (d_gen d) j) ->
    evaluate_all_lagrange_coefficients F d tau =
    map (fun i => if Nat.eqb i j then one else zero) (seq 0 n).
  Proof.
    intros d n j tau Hs Hg Hprim Hh Hop Hj ->.
    unfold evaluate_all_lagrange_coefficients. cbv zeta.
    rewrite (vanishing_eval_spec F Fth d n _ Hs Hop).
    rewrite (el_pow_n (d_gen d) (d_offset d) n Hg j).
    replace (sub (pw (d_offset d) n) (pw (d_offset d) n)) with zero by ring.
    rewrite (proj2 (fis0_true zero) eq_refl), Hs, Nat2Z.id.
    apply scan_in_domain; try assumption; lia.
  Qed.

  (* the vanishing polynomial is zero exactly on the domain *)
  Theorem vanishing_zero_iff_in_domain : forall (d : domain T) (n : nat) tau,
    d_size d = Z.of_nat n -> 1 <= n ->
    pw (d_gen d) n = one -> (forall i, 0 < i < n -> pw (d_gen d) i <> one) ->
    d_offset d <> zero -> d_offset_pow_size d = pw (d_offset d) n ->
    nfe n <> zero ->
    (evaluate_vanishing_polynomial F d tau = zero <->
     exists j, j < n /\ tau = mul (d_offset d) (pw (d_gen d) j)).
  Proof.
    intros d n tau Hs Hn Hg Hprim Hh Hop HN.
    rewrite (vanishing_eval_spec F Fth d n _ Hs Hop). split.
    - intros Hz. apply lg_sub_zero_eq in Hz.
      destruct (root_in_domain (d_gen d) (d_offset d) n Hn Hg Hprim Hh HN tau Hz) as [j [Hj E]].
      exists j. split; [exact Hj | now symmetry].
    - intros [j [Hj ->]]. rewrite (el_pow_n (d_gen d) (d_offset d) n Hg j). ring.
  Qed.

  (* the generic branch: closed form of every coefficient *)
  Theorem lagrange_generic_coeff : forall (d : domain T) (n i : nat) tau,
    d_size d = Z.of_nat n -> 1 <= n ->
    pw (d_gen d) n = one -> mul (d_gen d) (d_gen_inv d) = one ->
    d_offset d <> zero -> d_offset_pow_size d = pw (d_offset d) n ->
    d_size_fe d = nfe n -> nfe n <> zero ->
    evaluate_vanishing_polynomial F d tau <> zero -> i < n ->
    mul (nth i (evaluate_all_lagrange_coefficients F d tau) zero)
        (mul (mul (nfe n) (pw (d_offset d) n)) (sub tau (mul (d_offset d) (pw (d_gen d) i))))
    = mul (evaluate_vanishing_polynomial F d tau) (mul (d_offset d) (pw (d_gen d) i)).
  Proof.
    intros d n i tau Hs Hn Hg Hgi Hh Hop Hfe HN Hz Hi.
    unfold evaluate_all_lagrange_coefficients. cbv zeta.
    destruct (fis0 F _) eqn:E; [apply fis0_true in E; contradiction|]. clear E.
    rewrite (vanishing_eval_spec F Fth d n _ Hs Hop) in *.
    rewrite Hs, Nat2Z.id, Hfe.
    replace (Z.of_nat n - 1)%Z with (Z.of_nat (n - 1)) by lia. rewrite (fpow_spec F Fth).
    fold (generic_coeffs (d_gen d) (d_offset d) n (d_gen_inv d) tau).
    transitivity (mul (mul (nth i (generic_coeffs (d_gen d) (d_offset d) n (d_gen_inv d) tau) zero)
                           (mul (nfe n) (pw (d_offset d) n)))
                      (sub tau (mul (d_offset d) (pw (d_gen d) i)))); [ring|].
    rewrite (generic_nth (d_gen d) (d_offset d) n Hn Hg Hh HN (d_gen_inv d) Hgi tau i Hz Hi).
    rewrite <- (el_pow_n (d_gen d) (d_offset d) n Hg i), geom. ring.
  Qed.

  (* interpolation: sum_i L_i(tau) p(a_i) = p(tau) for every tau and every p of degree < n *)
  Theorem lagrange_interpolates : forall (d : domain T) (n : nat) tau (c : list T),
    d_size d = Z.of_nat n -> 1 <= n ->
    pw (d_gen d) n = one -> (forall i, 0 < i < n -> pw (d_gen d) i <> one) ->
    mul (d_gen d) (d_gen_inv d) = one ->
    d_offset d <> zero -> d_offset_pow_size d = pw (d_offset d) n ->
    d_size_fe d = nfe n -> nfe n <> zero ->
    length c <= n ->
    sumn n (fun i => mul (nth i (evaluate_all_lagrange_coefficients F d tau) zero)
                         (ev c (mul (d_offset d) (pw (d_gen d) i))))
    = ev c tau.
  Proof.
    intros d n tau c Hs Hn Hg Hprim Hgi Hh Hop Hfe HN Hc.
    destruct (fis0 F (evaluate_vanishing_polynomial F d tau)) eqn:E.
    - apply fis0_true in E.
      apply (vanishing_zero_iff_in_domain d n tau Hs Hn Hg Hprim Hh Hop HN) in E.
      destruct E as [j [Hj E]].
      rewrite (lagrange_in_domain d n j tau Hs Hg Hprim Hh Hop Hj E). rewrite E.
      now apply unit_interp.
    - assert (Hz : evaluate_vanishing_polynomial F d tau <> zero).
      { intros X. apply fis0_true in X. congruence. }
      unfold evaluate_all_lagrange_coefficients. cbv zeta. rewrite E.
      rewrite (vanishing_eval_spec F Fth d n _ Hs Hop) in *.
      rewrite Hs, Nat2Z.id, Hfe.
      replace (Z.of_nat n - 1)%Z with (Z.of_nat (n - 1)) by lia. rewrite (fpow_spec F Fth).
      fold (generic_coeffs (d_gen d) (d_offset d) n (d_gen_inv d) tau).
      exact (generic_interp (d_gen d) (d_offset d) n Hn Hg Hprim Hh HN (d_gen_inv d) Hgi tau c Hz Hc).
  Qed.
End Lag.
