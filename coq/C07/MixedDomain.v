(* C07 proofs, part 9: the mixed-radix / general domain transforms.
   mixed_fft = naive evaluation on the coset; domain_fft (General dispatch) = naive_fft;
   the inverse DFT (orthogonality of the characters of a primitive n-th root);
   mixed_ifft (mixed_fft x) = x. *)
From V Require Import Base.Field C07.Dft C07.Radix2 C07.MixedRadix C07.Domain C07.DftProofs C07.Radix2Proofs
  C07.DomainProofs C07.DegreeAwareFull C07.Lagrange C07.MixedPerm C07.MixedSpec.
Require Import Lia Field Ring Arith.
Local Open Scope nat_scope.

Section MD.
  Context {T : Type} (F : Fops T).
  Hypothesis Fth : field_theory (f0 F) (f1 F) (fadd F) (fmul F) (fsub F) (fneg F) (fdiv F) (finv F) eq.
  Hypothesis feqb_ok : forall a b, feqb F a b = true <-> a = b.
  Add Field Ff9 : Fth.
  Local Notation zero := (f0 F).
  Local Notation one := (f1 F).
  Local Notation add := (fadd F).
  Local Notation mul := (fmul F).
  Local Notation neg := (fneg F).
  Local Notation pw := (pown F).
  Local Notation ev := (eval F).

  Lemma resize_length : forall n (l : list T), length (resize F n l) = n.
  Proof. intros. unfold resize. rewrite app_length, firstn_length, repeat_length. lia. Qed.
  Lemma resize_id : forall n (l : list T), length l = n -> resize F n l = l.
  Proof. intros n l H. unfold resize. rewrite firstn_all2, H, Nat.sub_diag by lia. apply app_nil_r. Qed.

  Lemma dft_as_coset : forall n w c, dft F n w c = dft_coset F n one w c.
  Proof. intros. unfold dft, dft_coset. apply map_ext. intros i. f_equal. ring. Qed.

  (* ---------- MixedRadixEvaluationDomain::fft_in_place = values at offset * gen^i ---------- *)
  Theorem mixed_fft_spec : forall (q s t : nat) (d : domain T) coeffs,
    3 <= q -> Z.odd (Z.of_nat q) = true ->
    d_size d = Z.of_nat (2 ^ s * q ^ t) -> d_log d = Z.of_nat s ->
    pw (d_gen d) (2 ^ s * q ^ t) = one ->
    (1 <= s -> pw (d_gen d) (2 ^ (s - 1) * q ^ t) = neg one) ->
    length coeffs <= 2 ^ s * q ^ t ->
    mixed_fft F (Z.of_nat q) d coeffs =
    Some (dft_coset F (2 ^ s * q ^ t) (d_offset d) (d_gen d) coeffs).
  Proof.
    intros q s t d coeffs Hq Hodd Hsz Hlg Hw1 Hw2 Hlen.
    unfold mixed_fft. rewrite Hsz, Hlg, Nat2Z.id.
    rewrite (serial_mixed_radix_fft_spec F Fth q s t) by (auto using resize_length).
    f_equal. rewrite dft_as_coset. destruct (is_one F (d_offset d)) eqn:E.
    - apply (is_one_true F feqb_ok) in E. rewrite E. now apply (dft_coset_resize F Fth).
    - unfold distribute_powers.
      rewrite (dft_coset_resize F Fth) by (rewrite (distribute_length F Fth); exact Hlen).
      unfold dft_coset. apply map_ext. intros i. rewrite (eval_distribute F Fth).
      replace (mul (d_offset d) (mul one (pw (d_gen d) i))) with (mul (d_offset d) (pw (d_gen d) i)) by ring. ring.
  Qed.

  (* ---------- GeneralEvaluationDomain::fft_in_place = the naive specification ---------- *)
  Theorem domain_fft_naive : forall (q s t : nat) (d : domain T) coeffs,
    3 <= q -> Z.odd (Z.of_nat q) = true ->
    d_size d = Z.of_nat (2 ^ s * q ^ t) -> d_log d = Z.of_nat s ->
    (d_mixed d = false -> t = 0) ->
    pw (d_gen d) (2 ^ s * q ^ t) = one ->
    (1 <= s -> pw (d_gen d) (2 ^ (s - 1) * q ^ t) = neg one) ->
    length coeffs <= 2 ^ s * q ^ t ->
    domain_fft F (Z.of_nat q) d coeffs = Some (naive_fft F d coeffs).
  Proof.
    intros q s t d coeffs Hq Hodd Hsz Hlg Hmx Hw1 Hw2 Hlen.
    unfold domain_fft, naive_fft. rewrite Hsz, Nat2Z.id. destruct (d_mixed d) eqn:E.
    - now apply mixed_fft_spec.
    - rewrite (Hmx eq_refl) in *. cbn [Nat.pow] in *. rewrite Nat.mul_1_r in *.
      apply (radix2_fft_spec F Fth feqb_ok); try assumption.
      destruct s as [|s]; [exact I|]. cbn [prim_root].
      specialize (Hw2 ltac:(lia)). replace (S s - 1) with s in Hw2 by lia. exact Hw2.
  Qed.

  (* ---------- the inverse DFT ---------- *)
  Lemma winv_pow : forall n w wi i j, pw w n = one -> mul w wi = one -> j <= n ->
    pw wi (i * j) = pw w (i * (n - j)).
  Proof.
    intros n w wi i j Hn Hi Hj.
    assert (H1 : mul (pw w (i * j)) (pw wi (i * j)) = one)
      by (rewrite <- (pown_mulbase F Fth), Hi; apply (pown_one F Fth)).
    assert (H2 : mul (pw w (i * (n - j))) (pw w (i * j)) = one).
    { rewrite <- (pown_add F Fth). replace (i * (n - j) + i * j) with (n * i) by nia.
      rewrite (pown_mul F Fth), Hn. apply (pown_one F Fth). }
    transitivity (mul (mul (pw w (i * (n - j))) (pw w (i * j))) (pw wi (i * j))); [rewrite H2; ring|].
    transitivity (mul (pw w (i * (n - j))) (mul (pw w (i * j)) (pw wi (i * j)))); [ring | rewrite H1; ring].
  Qed.

  Theorem dft_dft_inv : forall n w wi x, 1 <= n -> length x = n ->
    pw w n = one -> (forall i, 0 < i < n -> pw w i <> one) -> mul w wi = one ->
    dft F n wi (dft F n w x) = map (mul (nfe F n)) x.
  Proof.
    intros n w wi x Hn Hx Hw Hprim Hi.
    rewrite (as_map_nth zero x n Hx) at 2. rewrite map_map.
    unfold dft at 1. apply map_ext_in. intros j Hj. apply in_seq in Hj.
    rewrite (Lagrange.eval_sum F Fth), (dft_length F).
    rewrite (sumn_ext F n _ (fun i => sumn F n (fun k => mul (nth k x zero) (pw w (i * (k + (n - j))))))).
    2:{ intros i Hi'. unfold dft. rewrite nth_map_seq by exact Hi'.
        rewrite (Lagrange.eval_sum F Fth), Hx, <- (sumn_scale_r F Fth). apply sumn_ext. intros k _.
        rewrite <- !(pown_mul F Fth), (Nat.mul_comm j i), (winv_pow n w wi i j Hw Hi ltac:(lia)).
        rewrite Nat.mul_add_distr_l, (pown_add F Fth). ring. }
    rewrite (sumn_exch F Fth). rewrite (sumn_single F Fth n j); [| lia |].
    - rewrite (sumn_scale F Fth), (orth1 F Fth); [ring|].
      replace (j + (n - j)) with n by lia. exact Hw.
    - intros k Hk Hne. rewrite (sumn_scale F Fth), (orth0 F Fth w n Hw); [ring|].
      apply (g_ord F Fth w n Hn Hw Hprim); lia.
  Qed.

  Lemma ginv_pow_one : forall g gi k, mul g gi = one -> pw g k = one -> pw gi k = one.
  Proof.
    intros g gi k Hg Hk. transitivity (mul (pw g k) (pw gi k)); [rewrite Hk; ring|].
    rewrite <- (pown_mulbase F Fth), Hg. apply (pown_one F Fth).
  Qed.
  Lemma ginv_pow_neg : forall g gi k, mul g gi = one -> pw g k = neg one -> pw gi k = neg one.
  Proof.
    intros g gi k Hg Hk.
    assert (H1 : mul (pw g k) (pw gi k) = one) by (rewrite <- (pown_mulbase F Fth), Hg; apply (pown_one F Fth)).
    rewrite Hk in H1. transitivity (neg (mul (neg one) (pw gi k))); [ring | rewrite H1; reflexivity].
  Qed.

  (* ---------- MixedRadixEvaluationDomain: ifft (fft x) = x, subgroup and coset ---------- *)
  Theorem mixed_ifft_fft_id : forall (q s t : nat) (d : domain T) x,
    3 <= q -> Z.odd (Z.of_nat q) = true ->
    d_size d = Z.of_nat (2 ^ s * q ^ t) -> d_log d = Z.of_nat s ->
    pw (d_gen d) (2 ^ s * q ^ t) = one ->
    (forall i, 0 < i < 2 ^ s * q ^ t -> pw (d_gen d) i <> one) ->
    (1 <= s -> pw (d_gen d) (2 ^ (s - 1) * q ^ t) = neg one) ->
    mul (d_gen d) (d_gen_inv d) = one -> mul (d_offset d) (d_offset_inv d) = one ->
    mul (nfe F (2 ^ s * q ^ t)) (d_size_inv d) = one ->
    length x = 2 ^ s * q ^ t ->
    match mixed_fft F (Z.of_nat q) d x with
    | Some y => mixed_ifft F (Z.of_nat q) d y
    | None => None
    end = Some x.
  Proof.
    intros q s t d x Hq Hodd Hsz Hlg Hw1 Hprim Hw2 Hgi Hhi Hsi Hx.
    set (n := 2 ^ s * q ^ t) in *.
    assert (Hn : 1 <= n).
    { unfold n. pose proof (Nat.pow_nonzero 2 s ltac:(lia)). pose proof (Nat.pow_nonzero q t ltac:(lia)). nia. }
    unfold mixed_fft. rewrite Hsz, Hlg, Nat2Z.id.
    set (x1 := if is_one F (d_offset d) then x else distribute_powers F x (d_offset d)).
    assert (L1 : length x1 = n).
    { unfold x1. destruct (is_one F (d_offset d)); [exact Hx|]. unfold distribute_powers. now rewrite (distribute_length F Fth). }
    rewrite (resize_id n x1 L1).
    rewrite (serial_mixed_radix_fft_spec F Fth q s t) by assumption. fold n.
    unfold mixed_ifft. rewrite Hsz, Hlg, Nat2Z.id.
    rewrite (resize_id n) by apply (dft_length F).
    rewrite (serial_mixed_radix_fft_spec F Fth q s t);
      [ | assumption | assumption | apply (dft_length F) | now apply (ginv_pow_one (d_gen d))
        | intros Hs; apply (ginv_pow_neg (d_gen d)); auto ].
    fold n. rewrite (dft_dft_inv n (d_gen d) (d_gen_inv d) x1 Hn L1 Hw1 Hprim Hgi).
    f_equal. unfold x1. destruct (is_one F (d_offset d)) eqn:E.
    - rewrite map_map. rewrite <- (map_id x) at 2. apply map_ext. intros a.
      transitivity (mul a (mul (nfe F n) (d_size_inv d))); [ring | rewrite Hsi; ring].
    - unfold distribute_powers, distribute_powers_and_mul_by_const.
      rewrite !map_length, !zipw_length, !(powers_length F Fth), Nat.min_id.
      pose proof (as_map_nth zero x n Hx) as Hxm. rewrite Hx.
      set (fx := fun i => nth i x zero) in *. rewrite Hxm.
      rewrite !(powers_spec F Fth), !zipw_map_map, map_map, zipw_map_map.
      apply map_ext. intros i.
      assert (Hp : mul (pw (d_offset d) i) (pw (d_offset_inv d) i) = one).
      { rewrite <- (pown_mulbase F Fth), Hhi. apply (pown_one F Fth). }
      set (a := pw (d_offset d) i) in *. set (b := pw (d_offset_inv d) i) in *.
      transitivity (mul (fx i) (mul (mul (nfe F n) (d_size_inv d)) (mul a b))); [ring|].
      rewrite Hsi, Hp. ring.
  Qed.
End MD.
