(* C07 proofs, part 10: MixedRadixEvaluationDomain::new end to end -- a returned domain has the
   minimal admissible size 2^a q^b, log = a, a generator satisfying the premises of the
   mixed-radix FFT theorem, correct stored inverses; hence its fft_in_place is naive evaluation. *)
From V Require Import Base.Field C07.Dft C07.Radix2 C07.MixedRadix C07.Domain C07.DftProofs C07.Radix2Proofs
  C07.DomainProofs C07.NewProofs C07.KAdicity C07.MixedSize C07.RootLarge C07.MixedSpec C07.MixedDomain.
Require Import Lia Field Ring Arith.
Local Open Scope nat_scope.

Section MN.
  Context {T : Type} (F : Fops T).
  Hypothesis Fth : field_theory (f0 F) (f1 F) (fadd F) (fmul F) (fsub F) (fneg F) (fdiv F) (finv F) eq.
  Hypothesis feqb_ok : forall a b, feqb F a b = true <-> a = b.
  Add Field Ff10 : Fth.
  Local Notation zero := (f0 F).
  Local Notation one := (f1 F).
  Local Notation mul := (fmul F).
  Local Notation neg := (fneg F).
  Local Notation pw := (pown F).

  Lemma pow_to_nat : forall (a b : nat) (q : nat),
    Z.to_nat (2 ^ Z.of_nat a * Z.of_nat q ^ Z.of_nat b) = 2 ^ a * q ^ b.
  Proof.
    intros. change 2%Z with (Z.of_nat 2). rewrite <- !Nat2Z.inj_pow, <- Nat2Z.inj_mul. apply Nat2Z.id.
  Qed.

  Theorem mixed_new_spec : forall (c : fftcfg T) L (q : nat) qa m d,
    c_large_root c = Some L -> c_small_base c = Some (Z.of_nat q) -> c_small_adicity c = Some qa ->
    3 <= q -> Z.odd (Z.of_nat q) = true -> (0 <= qa)%Z -> (0 <= c_two_adicity c)%Z ->
    pw L (Z.to_nat (2 ^ c_two_adicity c * Z.of_nat q ^ qa)) = one ->
    ((1 <= c_two_adicity c)%Z -> pw L (Z.to_nat (2 ^ (c_two_adicity c - 1) * Z.of_nat q ^ qa)) = neg one) ->
    mixed_new F c m = RSome d ->
    exists a b : nat,
      (Z.of_nat a <= c_two_adicity c)%Z /\ (Z.of_nat b <= qa)%Z /\
      d_size d = best_mixed_domain_size (Z.of_nat q) qa (c_two_adicity c) m /\
      d_size d = Z.of_nat (2 ^ a * q ^ b) /\ d_log d = Z.of_nat a /\ d_mixed d = true /\
      pw (d_gen d) (2 ^ a * q ^ b) = one /\
      (1 <= a -> pw (d_gen d) (2 ^ (a - 1) * q ^ b) = neg one) /\
      get_root_of_unity F c (d_size d) = RSome (d_gen d) /\
      mul (d_gen d) (d_gen_inv d) = one /\ mul (d_size_fe d) (d_size_inv d) = one /\
      d_size_fe d = fof F [d_size d] /\
      d_offset d = one /\ d_offset_inv d = one /\ d_offset_pow_size d = one.
  Proof.
    intros c L q qa m d HL Hq Hqa Hq3 Hodd Hqa0 HS HL1 HL2 H.
    unfold mixed_new in H. rewrite Hq, Hqa in H.
    set (size := best_mixed_domain_size (Z.of_nat q) qa (c_two_adicity c) m) in *.
    destruct (negb (size =? Z.of_nat q ^ k_adicity (Z.of_nat q) size * 2 ^ k_adicity 2 size)%Z); [discriminate|].
    destruct (get_root_of_unity F c size) as [g| |] eqn:G; try discriminate.
    destruct (get_root_large_inv F c L (Z.of_nat q) qa size g HL Hq Hqa G) as (az & bz & Haz & Hbz & Hsz).
    unfold build_domain in H.
    destruct (inverse F (fof F [size])) as [si|] eqn:I1; [|discriminate].
    destruct (inverse F g) as [gi|] eqn:I2; [|discriminate].
    inversion H; subst d; clear H. cbn [d_size d_log d_mixed d_gen d_gen_inv d_size_fe d_size_inv d_offset d_offset_inv d_offset_pow_size].
    exists (Z.to_nat az), (Z.to_nat bz).
    assert (Ea : Z.of_nat (Z.to_nat az) = az) by lia. assert (Eb : Z.of_nat (Z.to_nat bz) = bz) by lia.
    assert (Hsz' : size = Z.of_nat (2 ^ Z.to_nat az * q ^ Z.to_nat bz)).
    { rewrite Hsz, Nat2Z.inj_mul, !Nat2Z.inj_pow, Ea, Eb. reflexivity. }
    rewrite Ea, Eb.
    repeat split; auto using (inverse_some F Fth feqb_ok); try lia.
    - rewrite Hsz. apply k_adicity_two_part; [exact Hodd | lia | lia | lia].
    - rewrite Hsz in G.
      pose proof (get_root_large_pow_n F Fth c L (Z.of_nat q) qa az bz g HL Hq Hqa ltac:(lia) Hodd Haz Hbz HL1 G) as P.
      rewrite <- Ea, <- Eb, pow_to_nat in P. exact P.
    - intros Ha. rewrite Hsz in G.
      pose proof (get_root_large_pow_half F Fth c L (Z.of_nat q) qa az bz g HL Hq Hqa ltac:(lia) Hodd ltac:(lia) Hbz
                    (HL2 ltac:(lia)) G) as P.
      replace (2 ^ az * Z.of_nat q ^ bz / 2)%Z with (2 ^ (az - 1) * Z.of_nat q ^ bz)%Z in P.
      + replace (az - 1)%Z with (Z.of_nat (Z.to_nat az - 1)) in P by lia.
        rewrite <- Eb, pow_to_nat in P. exact P.
      + replace az with (Z.succ (az - 1)) at 2 by lia. rewrite Z.pow_succ_r by lia.
        replace (2 * 2 ^ (az - 1) * Z.of_nat q ^ bz)%Z with (2 ^ (az - 1) * Z.of_nat q ^ bz * 2)%Z by ring.
        now rewrite Z.div_mul by lia.
  Qed.

  (* end to end: the FFT of a domain returned by MixedRadixEvaluationDomain::new is naive evaluation *)
  Theorem mixed_new_fft_naive : forall (c : fftcfg T) L (q : nat) qa m d coeffs,
    c_large_root c = Some L -> c_small_base c = Some (Z.of_nat q) -> c_small_adicity c = Some qa ->
    3 <= q -> Z.odd (Z.of_nat q) = true -> (0 <= qa)%Z -> (0 <= c_two_adicity c)%Z ->
    pw L (Z.to_nat (2 ^ c_two_adicity c * Z.of_nat q ^ qa)) = one ->
    ((1 <= c_two_adicity c)%Z -> pw L (Z.to_nat (2 ^ (c_two_adicity c - 1) * Z.of_nat q ^ qa)) = neg one) ->
    mixed_new F c m = RSome d ->
    (Z.of_nat (length coeffs) <= d_size d)%Z ->
    mixed_fft F (Z.of_nat q) d coeffs = Some (naive_fft F d coeffs).
  Proof.
    intros c L q qa m d coeffs HL Hq Hqa Hq3 Hodd Hqa0 HS HL1 HL2 H Hlen.
    destruct (mixed_new_spec c L q qa m d HL Hq Hqa Hq3 Hodd Hqa0 HS HL1 HL2 H)
      as (a & b & _ & _ & _ & Hsz & Hlg & _ & Hg1 & Hg2 & _).
    unfold naive_fft. rewrite Hsz, Nat2Z.id.
    apply (mixed_fft_spec F Fth feqb_ok); try assumption. lia.
  Qed.
End MN.
