(* C07 proofs, part 7: one merge pass of serial_mixed_radix_fft (radix q: Cooley-Tukey with the
   q-th roots table; radix 2: butterflies) turns the DFTs of the q residue classes of a block
   into the DFT of the block; hence the pass loops (q_passes, two_passes), run on the leaves of
   the decimation family, produce the DFT. *)
From V Require Import Base.Field C07.Dft C07.Radix2 C07.MixedRadix C07.DftProofs C07.Radix2Proofs
  C07.DegreeAware C07.DomainProofs C07.MixedPerm.
Require Import Lia Field Ring Arith.
Local Open Scope nat_scope.

(* ---------- generic ---------- *)
Lemma flat_map_map {A B C} (f : B -> list C) (g : A -> B) : forall l,
  flat_map f (map g l) = flat_map (fun x => f (g x)) l.
Proof. induction l as [|x l IH]; cbn [map flat_map]; congruence. Qed.

Lemma map_blocks {A} (f : nat -> A) (m : nat) : forall q,
  map f (seq 0 (m * q)) = flat_map (fun i => map (fun j => f (i * m + j)) (seq 0 m)) (seq 0 q).
Proof.
  induction q as [|q IH]; [rewrite Nat.mul_0_r; reflexivity|].
  rewrite seq_S, flat_map_app. cbn [flat_map Nat.add]. rewrite app_nil_r, <- IH.
  replace (m * S q) with (m * q + m) by lia. rewrite seq_app, map_app. f_equal. cbn [Nat.add].
  rewrite <- (seq_shift_add (m * q)), map_map. apply map_ext. intros j. f_equal. lia.
Qed.

Lemma stride_evens {A} (d : A) : forall m (z : list A), length z = 2 * m -> stride d 2 0 m z = evens z.
Proof.
  intros m z H. destruct (evens_odds_length _ _ H) as [He _].
  rewrite (as_map_nth d (evens z) m He). unfold stride. apply map_ext. intros k.
  rewrite nth_evens. reflexivity.
Qed.
Lemma stride_odds {A} (d : A) : forall m (z : list A), length z = 2 * m -> stride d 2 1 m z = odds z.
Proof.
  intros m z H. destruct (evens_odds_length _ _ H) as [_ Ho].
  rewrite (as_map_nth d (odds z) m Ho). unfold stride. apply map_ext. intros k.
  rewrite nth_odds. f_equal. lia.
Qed.

Lemma bl_fam {A} (d : A) : forall s (a : list A), length a = 2 ^ s ->
  bl s a = concat (fam d (repeat 2 s) 1 a).
Proof.
  induction s as [|s IH]; intros a H.
  - cbn [bl repeat fam concat]. now rewrite app_nil_r.
  - rewrite pow2_S in H. destruct (evens_odds_length _ _ H) as [He Ho].
    cbn [bl repeat fam seq flat_map]. rewrite app_nil_r, concat_app, prodl_repeat, Nat.mul_1_r.
    rewrite (stride_evens d _ _ H), (stride_odds d _ _ H), <- !IH by assumption. reflexivity.
Qed.

Section MP.
  Context {T : Type} (F : Fops T).
  Hypothesis Fth : field_theory (f0 F) (f1 F) (fadd F) (fmul F) (fsub F) (fneg F) (fdiv F) (finv F) eq.
  Add Field Ff7 : Fth.
  Local Notation zero := (f0 F).
  Local Notation one := (f1 F).
  Local Notation add := (fadd F).
  Local Notation sub := (fsub F).
  Local Notation mul := (fmul F).
  Local Notation neg := (fneg F).
  Local Notation pw := (pown F).
  Local Notation ev := (eval F).

  (* ---------- finite sums over index lists ---------- *)
  Fixpoint suml (l : list nat) (f : nat -> T) : T :=
    match l with [] => zero | k :: l' => add (f k) (suml l' f) end.

  Lemma suml_ext : forall l f g, (forall k, In k l -> f k = g k) -> suml l f = suml l g.
  Proof.
    induction l as [|k l IH]; intros f g H; cbn [suml]; [reflexivity|].
    rewrite (H k) by (left; reflexivity). rewrite (IH f g); [reflexivity|]. intros j Hj. apply H. now right.
  Qed.
  Lemma suml_app : forall a b f, suml (a ++ b) f = add (suml a f) (suml b f).
  Proof. induction a as [|k a IH]; intros; cbn [app suml]; [ring | rewrite IH; ring]. Qed.
  Lemma suml_add : forall l f g, suml l (fun k => add (f k) (g k)) = add (suml l f) (suml l g).
  Proof. induction l as [|k l IH]; intros; cbn [suml]; [ring | rewrite IH; ring]. Qed.
  Lemma suml_scale : forall l c f, suml l (fun k => mul c (f k)) = mul c (suml l f).
  Proof. induction l as [|k l IH]; intros; cbn [suml]; [ring | rewrite IH; ring]. Qed.
  Lemma suml_map : forall (h : nat -> nat) l f, suml (map h l) f = suml l (fun k => f (h k)).
  Proof. induction l as [|k l IH]; intros; cbn [map suml]; [reflexivity | now rewrite IH]. Qed.
  Lemma suml_zero : forall l, suml l (fun _ => zero) = zero.
  Proof. induction l as [|k l IH]; cbn [suml]; [reflexivity | rewrite IH; ring]. Qed.

  (* the value of a polynomial as a sum of monomials *)
  Lemma eval_sum : forall c x, ev c x = suml (seq 0 (length c)) (fun k => mul (nth k c zero) (pw x k)).
  Proof.
    induction c as [|a c IH]; intros x; [reflexivity|].
    rewrite (eval_cons F). cbn [length seq suml nth pown].
    rewrite <- seq_shift, suml_map, IH, <- suml_scale.
    replace (mul a one) with a by ring. f_equal.
    apply suml_ext. intros k _. cbn [nth pown]. ring.
  Qed.

  (* sum over 0 .. m q - 1 = sum over residues l mod q of the sum over l, l + q, l + 2q, ... *)
  Lemma suml_reindex : forall q m g,
    suml (seq 0 (m * q)) g = suml (seq 0 q) (fun l => suml (seq 0 m) (fun k => g (l + q * k))).
  Proof.
    intros q. induction m as [|m IH]; intros g.
    - cbn [Nat.mul seq suml]. now rewrite suml_zero.
    - replace (S m * q) with (m * q + q) by lia. rewrite seq_app, suml_app, IH. cbn [Nat.add].
      rewrite <- (seq_shift_add (m * q)), suml_map, <- suml_add.
      apply suml_ext. intros l _. rewrite seq_S, suml_app. cbn [suml Nat.add].
      replace (l + q * m) with (m * q + l) by lia. ring.
  Qed.

  Lemma pown_1 : forall x, pw x 1 = x.
  Proof. intros. cbn [pown]. ring. Qed.
  Lemma pown_pow_one : forall w m j, pw w m = one -> pw w (m * j) = one.
  Proof. intros w m j H. rewrite (pown_mul F Fth), H. apply (pown_one F Fth). Qed.

  (* the decimation identity: p(X) = sum_l X^l p_l(X^q), p_l = the l-th residue class of p *)
  Lemma eval_decimate : forall q m z X, length z = m * q ->
    ev z X = suml (seq 0 q) (fun l => mul (pw X l) (ev (stride zero q l m z) (pw X q))).
  Proof.
    intros q m z X Hz. rewrite eval_sum, Hz, suml_reindex.
    apply suml_ext. intros l _. rewrite eval_sum, stride_length, <- suml_scale.
    apply suml_ext. intros k Hk. apply in_seq in Hk.
    unfold stride. rewrite nth_map_seq by lia.
    rewrite (pown_add F Fth), (pown_mul F Fth). ring.
  Qed.

  (* ---------- one radix-2 pass on a chunk ---------- *)
  Lemma radix2_chunk_spec : forall m w z, length z = 2 * m -> pw w m = neg one ->
    radix2_chunk F m w (flat_map (fun l => dft F m (pw w 2) (stride zero 2 l m z)) (seq 0 2))
    = dft F (2 * m) w z.
  Proof.
    intros m w z Hz Hw. cbn [seq flat_map]. rewrite app_nil_r.
    rewrite (stride_evens zero _ _ Hz), (stride_odds zero _ _ Hz).
    replace (pw w 2) with (mul w w) by (cbn [pown]; ring).
    unfold radix2_chunk.
    set (E := dft F m (mul w w) (evens z)). set (O := dft F m (mul w w) (odds z)).
    assert (LE : length E = m) by apply dft_length.
    assert (Ef : firstn m (E ++ O) = E).
    { rewrite <- LE. rewrite firstn_app, Nat.sub_diag, firstn_O, app_nil_r. apply firstn_all. }
    assert (Es : skipn m (E ++ O) = O).
    { rewrite <- LE. rewrite skipn_app, Nat.sub_diag, skipn_O, skipn_all. reflexivity. }
    rewrite Ef, Es. exact (oi_step F Fth m w z Hz Hw).
  Qed.

  (* ---------- one radix-q merge on a chunk ---------- *)
  Lemma twist_blocks_spec : forall (D : nat -> list T) wj cnt l0,
    twist_blocks F (map D (seq l0 cnt)) l0 wj =
    map (fun l => zipw (fun a w => mul a (pw w l)) (D l) wj) (seq l0 cnt).
  Proof.
    induction cnt as [|cnt IH]; intros l0; cbn [seq map twist_blocks]; [reflexivity|].
    now rewrite IH.
  Qed.

  Lemma sum_terms_spec : forall (g : nat -> nat -> T) m i q qroots cnt l0 (A : nat -> T),
    sum_terms F (map (fun l => map (g l) (seq 0 m)) (seq l0 cnt)) (Z.of_nat l0) i q qroots (map A (seq 0 m)) =
    map (fun j => add (A j)
           (suml (seq l0 cnt) (fun l => mul (g l j) (nth (Z.to_nat ((i * Z.of_nat l) mod q)) qroots zero))))
        (seq 0 m).
  Proof.
    induction cnt as [|cnt IH]; intros l0 A; cbn [seq map sum_terms suml].
    - apply map_ext. intros j. ring.
    - rewrite map_map, zipw_map_map.
      replace (Z.of_nat l0 + 1)%Z with (Z.of_nat (S l0)) by lia.
      rewrite IH. apply map_ext. intros j. ring.
  Qed.

  Lemma merge_chunk_spec : forall q m w z, 1 <= q -> 1 <= m -> length z = m * q ->
    pw w (m * q) = one ->
    merge_chunk F (Z.of_nat q) m w (powers F q (pw w m) one)
      (flat_map (fun l => dft F m (pw w q) (stride zero q l m z)) (seq 0 q))
    = dft F (m * q) w z.
  Proof.
    intros q m w z Hq Hm Hz Hw. unfold merge_chunk.
    rewrite chunks_blocks by (auto; intros; apply dft_length).
    rewrite Nat2Z.id. destruct q as [|q']; [lia|]. set (q := S q') in *.
    change (seq 0 q) with (0 :: seq 1 q') at 1 2. cbn [map hd tl].
    set (d := fun l j => ev (stride zero q l m z) (pw (pw w q) j)).
    assert (HD : forall l, dft F m (pw w q) (stride zero q l m z) = map (d l) (seq 0 m)) by reflexivity.
    rewrite (map_ext _ _ HD), twist_blocks_spec, HD.
    rewrite (powers_spec F Fth m w one).
    rewrite (map_ext _ (fun l => map (fun j => mul (d l j) (pw (mul one (pw w j)) l)) (seq 0 m)))
      by (intros l; rewrite zipw_map_map; reflexivity).
    unfold dft. rewrite map_blocks. apply flat_map_ext_in. intros i Hi. apply in_seq in Hi.
    change 1%Z with (Z.of_nat 1).
    rewrite (sum_terms_spec (fun l j => mul (d l j) (pw (mul one (pw w j)) l))).
    apply map_ext_in. intros j Hj. apply in_seq in Hj.
    rewrite (eval_decimate q m z _ Hz).
    change (seq 0 q) with (0 :: seq 1 q'). cbn [suml].
    assert (HX : pw (pw w (i * m + j)) q = pw (pw w q) j).
    { rewrite <- !(pown_mul F Fth). replace ((i * m + j) * q) with (m * q * i + q * j) by lia.
      rewrite (pown_add F Fth), (pown_pow_one w (m * q) i Hw). ring. }
    rewrite HX. fold (d 0 j). f_equal; [cbn [pown]; ring|].
    apply suml_ext. intros l Hl. apply in_seq in Hl. fold (d l j).
    rewrite <- Nat2Z.inj_mul, <- Nat2Z.inj_mod, Nat2Z.id.
    rewrite (powers_spec F Fth), nth_map_seq by (apply Nat.mod_upper_bound; lia).
    assert (HR : pw (pw w m) ((i * l) mod q) = pw (pw w m) (i * l)).
    { rewrite (Nat.div_mod (i * l) q) at 2 by lia.
      rewrite (pown_add F Fth), <- (pown_mul F Fth w m (q * _)), Nat.mul_assoc, (pown_pow_one w (m * q) _ Hw). ring. }
    rewrite HR, <- !(pown_mul F Fth), (pown_mulbase F Fth), (pown_one F Fth), <- (pown_mul F Fth).
    replace ((i * m + j) * l) with (m * (i * l) + j * l) by lia. rewrite (pown_add F Fth). ring.
  Qed.

  (* ---------- the pass loops ---------- *)
  Section Passes.
    Variables (omega : T) (n : nat).
    Hypothesis Hn1 : pw omega n = one.

    Lemma fpow_div : forall a b c, 1 <= b -> n = c * b -> a = Z.of_nat b ->
      fpow F omega (Z.of_nat n / a) = pw omega c.
    Proof.
      intros a b c Hb Hn ->. rewrite <- Nat2Z.inj_div, (fpow_spec F Fth). f_equal.
      subst n. apply Nat.div_mul. lia.
    Qed.

    Lemma q_passes_spec : forall q, 1 <= q -> forall t m0 c ys, 1 <= m0 -> n = c * (m0 * q ^ t) ->
      (forall y, In y ys -> length y = m0 * q ^ t) ->
      q_passes F t (Z.of_nat q) (Z.of_nat n) (Z.of_nat m0) omega
        (powers F q (fpow F omega (Z.of_nat n / Z.of_nat q)) one)
        (flat_map (fun y => flat_map (dft F m0 (pw omega (c * q ^ t))) (fam zero (repeat q t) m0 y)) ys)
      = (flat_map (dft F (m0 * q ^ t) (pw omega c)) ys, Z.of_nat (m0 * q ^ t)).
    Proof.
      intros q Hq. induction t as [|t IH]; intros m0 c ys Hm Hn Hys.
      - cbn [q_passes repeat fam Nat.pow]. rewrite !Nat.mul_1_r. f_equal.
        apply flat_map_ext_in. intros y _. cbn [flat_map]. now rewrite app_nil_r.
      - cbn [q_passes]. cbn [Nat.pow] in Hn, Hys.
        assert (Hq0 : 1 <= q ^ t) by (pose proof (Nat.pow_nonzero q t ltac:(lia)); lia).
        set (w := pw omega (c * q ^ t)).
        rewrite (fpow_div (Z.of_nat q * Z.of_nat m0) (m0 * q) (c * q ^ t)) by nia.
        fold w.
        assert (Hqr : fpow F omega (Z.of_nat n / Z.of_nat q) = pw w m0).
        { rewrite (fpow_div (Z.of_nat q) q (c * q ^ t * m0)) by nia. unfold w. now rewrite <- (pown_mul F Fth). }
        replace (Z.of_nat m0 * Z.of_nat q)%Z with (Z.of_nat (m0 * q)) by lia.
        replace (Z.to_nat (Z.of_nat q * Z.of_nat m0)) with (m0 * q) by lia.
        rewrite Nat2Z.id.
        replace (m0 * q ^ S t) with (m0 * q * q ^ t) by (cbn [Nat.pow]; lia).
        rewrite <- (IH (m0 * q) c ys); [| nia | nia | intros y Hy; rewrite (Hys y Hy); lia ].
        f_equal. rewrite Hqr.
        (* the array before the pass, as a concatenation of chunks *)
        set (chunk_of := fun z => flat_map (fun l => dft F m0 (pw w q) (stride zero q l m0 z)) (seq 0 q)).
        assert (HW : pw omega (c * q ^ S t) = pw w q).
        { unfold w. rewrite <- (pown_mul F Fth). f_equal. cbn [Nat.pow]. lia. }
        assert (Harr : flat_map (fun y => flat_map (dft F m0 (pw omega (c * q ^ S t))) (fam zero (repeat q (S t)) m0 y)) ys
                     = flat_map chunk_of (flat_map (fam zero (repeat q t) (m0 * q)) ys)).
        { rewrite flat_map_flat_map. apply flat_map_ext_in. intros y _.
          change (repeat q (S t)) with (q :: repeat q t). rewrite repeat_cons, fam_app.
          cbn [prodl]. replace (q * 1 * m0) with (m0 * q) by lia.
          rewrite flat_map_flat_map. apply flat_map_ext_in. intros z _.
          rewrite fam_single, flat_map_map, HW. reflexivity. }
        rewrite Harr.
        assert (Hlen : forall z, length (chunk_of z) = m0 * q).
        { intros z. unfold chunk_of. rewrite (length_flat_map_const _ m0) by (intros; apply dft_length).
          rewrite seq_length. lia. }
        rewrite chunks_blocks by (auto; nia). rewrite flat_map_map.
        rewrite flat_map_flat_map. apply flat_map_ext_in. intros y Hy.
        apply flat_map_ext_in. intros z Hz.
        assert (Lz : length z = m0 * q).
        { eapply (fam_lengths zero (repeat q t) (m0 * q) y); [|exact Hz]. rewrite prodl_repeat, (Hys y Hy). lia. }
        unfold chunk_of.
        apply (merge_chunk_spec q m0 w z Hq Hm Lz).
        unfold w. rewrite <- (pown_mul F Fth). rewrite <- Hn1. f_equal. nia.
    Qed.

    Lemma two_passes_spec : forall s m0 c ys, 1 <= m0 -> n = c * (m0 * 2 ^ s) ->
      (1 <= s -> exists h, n = 2 * h /\ pw omega h = neg one) ->
      (forall y, In y ys -> length y = m0 * 2 ^ s) ->
      two_passes F s (Z.of_nat n) (Z.of_nat m0) omega
        (flat_map (fun y => flat_map (dft F m0 (pw omega (c * 2 ^ s))) (fam zero (repeat 2 s) m0 y)) ys)
      = flat_map (dft F (m0 * 2 ^ s) (pw omega c)) ys.
    Proof.
      induction s as [|s IH]; intros m0 c ys Hm Hn Hh Hys.
      - cbn [two_passes repeat fam Nat.pow]. rewrite !Nat.mul_1_r.
        apply flat_map_ext_in. intros y _. cbn [flat_map]. now rewrite app_nil_r.
      - cbn [two_passes]. cbn [Nat.pow] in Hn, Hys.
        assert (Hq0 : 1 <= 2 ^ s) by (pose proof (Nat.pow_nonzero 2 s ltac:(lia)); lia).
        destruct (Hh ltac:(lia)) as (h & Hh1 & Hh2).
        set (w := pw omega (c * 2 ^ s)).
        rewrite (fpow_div (2 * Z.of_nat m0) (m0 * 2) (c * 2 ^ s)) by nia. fold w.
        replace (Z.of_nat m0 * 2)%Z with (Z.of_nat (m0 * 2)) by lia.
        replace (Z.to_nat (2 * Z.of_nat m0)) with (m0 * 2) by lia.
        rewrite Nat2Z.id.
        replace (m0 * 2 ^ S s) with (m0 * 2 * 2 ^ s) by (cbn [Nat.pow]; lia).
        rewrite <- (IH (m0 * 2) c ys); [| nia | nia | intros _; exists h; auto | intros y Hy; rewrite (Hys y Hy); lia ].
        f_equal.
        set (chunk_of := fun z => flat_map (fun l => dft F m0 (pw w 2) (stride zero 2 l m0 z)) (seq 0 2)).
        assert (HW : pw omega (c * 2 ^ S s) = pw w 2).
        { unfold w. rewrite <- (pown_mul F Fth). f_equal. cbn [Nat.pow]. lia. }
        assert (Harr : flat_map (fun y => flat_map (dft F m0 (pw omega (c * 2 ^ S s))) (fam zero (repeat 2 (S s)) m0 y)) ys
                     = flat_map chunk_of (flat_map (fam zero (repeat 2 s) (m0 * 2)) ys)).
        { rewrite flat_map_flat_map. apply flat_map_ext_in. intros y _.
          change (repeat 2 (S s)) with (2 :: repeat 2 s). rewrite repeat_cons, fam_app.
          cbn [prodl]. replace (2 * 1 * m0) with (m0 * 2) by lia.
          rewrite flat_map_flat_map. apply flat_map_ext_in. intros z _.
          rewrite fam_single, flat_map_map, HW. reflexivity. }
        rewrite Harr.
        assert (Hlen : forall z, length (chunk_of z) = m0 * 2).
        { intros z. unfold chunk_of. rewrite (length_flat_map_const _ m0) by (intros; apply dft_length).
          rewrite seq_length. lia. }
        rewrite chunks_blocks by (auto; nia). rewrite flat_map_map.
        rewrite flat_map_flat_map. apply flat_map_ext_in. intros y Hy.
        apply flat_map_ext_in. intros z Hz.
        assert (Lz : length z = 2 * m0).
        { assert (Lz' : length z = m0 * 2); [|lia].
          eapply (fam_lengths zero (repeat 2 s) (m0 * 2) y); [|exact Hz]. rewrite prodl_repeat, (Hys y Hy). lia. }
        unfold chunk_of. replace (m0 * 2) with (2 * m0) by lia.
        apply radix2_chunk_spec; [exact Lz|].
        unfold w. rewrite <- (pown_mul F Fth). rewrite <- Hh2. f_equal. nia.
    Qed.
  End Passes.
End MP.
