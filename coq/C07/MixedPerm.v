(* C07 proofs, part 6: the index permutation of serial_mixed_radix_fft.
   `fam rs m0 x` is the decimation family of x for the radix list rs (outermost radix first):
   x is split into the r residue classes of its indices mod r (`stride`), each class is split
   again by the next radix, ...; the leaves have length m0.  The scatter by
   `mixed_radix_fft_permute` lays the leaves (m0 = 1) out in that order. *)
From V Require Import Base.Field C07.Dft C07.Radix2 C07.MixedRadix C07.DftProofs C07.Radix2Proofs C07.DegreeAware.
Require Import Lia Arith Ring.
Local Open Scope nat_scope.

Fixpoint prodl (rs : list nat) : nat :=
  match rs with [] => 1 | r :: rs' => r * prodl rs' end.

(* mixed-radix digit reversal: least significant digit (radix = head of rs) becomes most significant *)
Fixpoint Pn (rs : list nat) (i : nat) : nat :=
  match rs with
  | [] => 0
  | r :: rs' => (i mod r) * prodl rs' + Pn rs' (i / r)
  end.

Section Fam.
  Context {A : Type} (d : A).

  (* the cnt elements of x at positions l, l + r, l + 2r, ... *)
  Definition stride (r l cnt : nat) (x : list A) : list A :=
    map (fun k => nth (l + r * k) x d) (seq 0 cnt).

  Fixpoint fam (rs : list nat) (m0 : nat) (x : list A) : list (list A) :=
    match rs with
    | [] => [x]
    | r :: rs' => flat_map (fun l => fam rs' m0 (stride r l (prodl rs' * m0) x)) (seq 0 r)
    end.
End Fam.

(* ---------- generic list lemmas ---------- *)
Lemma flat_map_flat_map {A B C} (f : B -> list C) (g : A -> list B) : forall l,
  flat_map f (flat_map g l) = flat_map (fun x => flat_map f (g x)) l.
Proof. induction l as [|x l IH]; cbn [flat_map]; [reflexivity|]. now rewrite flat_map_app, IH. Qed.

Lemma flat_map_single {A B} (f : A -> B) : forall l, flat_map (fun x => [f x]) l = map f l.
Proof. induction l as [|x l IH]; cbn [flat_map map app]; congruence. Qed.

Lemma concat_flat_map {A B} (f : A -> list (list B)) : forall l,
  concat (flat_map f l) = flat_map (fun x => concat (f x)) l.
Proof. induction l as [|x l IH]; cbn [flat_map concat]; [reflexivity|]. now rewrite concat_app, IH. Qed.

Lemma flat_map_ext_in {A B} (f g : A -> list B) : forall l,
  (forall x, In x l -> f x = g x) -> flat_map f l = flat_map g l.
Proof.
  induction l as [|x l IH]; intros H; cbn [flat_map]; [reflexivity|].
  rewrite H by (left; reflexivity). rewrite IH; [reflexivity|]. intros y Hy. apply H. now right.
Qed.

Lemma length_flat_map_const {A B} (g : A -> list B) K : forall zs,
  (forall z, In z zs -> length (g z) = K) -> length (flat_map g zs) = length zs * K.
Proof.
  induction zs as [|z zs IH]; intros H; cbn [flat_map length]; [reflexivity|].
  rewrite app_length, H by (left; reflexivity). rewrite IH; [lia|]. intros y Hy. apply H. now right.
Qed.

Lemma nth_map_seq {A} (d : A) (f : nat -> A) : forall cnt k, k < cnt -> nth k (map f (seq 0 cnt)) d = f k.
Proof.
  intros cnt k H. rewrite (nth_indep _ d (f 0)) by (rewrite map_length, seq_length; exact H).
  rewrite map_nth, seq_nth by exact H. reflexivity.
Qed.

Lemma nth_flat_map_blocks {A B} (d : A) (dz : B) (g : B -> list A) K : forall zs l j,
  (forall z, In z zs -> length (g z) = K) -> l < length zs -> j < K ->
  nth (l * K + j) (flat_map g zs) d = nth j (g (nth l zs dz)) d.
Proof.
  induction zs as [|z zs IH]; intros l j H Hl Hj; cbn [length] in Hl; [lia|].
  cbn [flat_map]. assert (Hz : length (g z) = K) by (apply H; left; reflexivity).
  destruct l as [|l].
  - cbn [Nat.mul Nat.add nth]. rewrite app_nth1 by lia. reflexivity.
  - rewrite app_nth2 by (rewrite Hz; lia). rewrite Hz.
    replace (S l * K + j - K) with (l * K + j) by lia.
    cbn [nth]. apply IH; [|lia|exact Hj]. intros y Hy. apply H. now right.
Qed.

(* chunks of a concatenation of K-element blocks are the blocks *)
Lemma chunks_aux_blocks {A B} (g : B -> list A) K : 1 <= K -> forall zs fuel,
  (forall z, In z zs -> length (g z) = K) -> length (flat_map g zs) <= fuel ->
  chunks_aux fuel K (flat_map g zs) = map g zs.
Proof.
  intros HK. induction zs as [|z zs IH]; intros fuel H Hf.
  - cbn [flat_map map]. destruct fuel; reflexivity.
  - assert (Hz : length (g z) = K) by (apply H; left; reflexivity).
    cbn [flat_map map] in *. rewrite app_length in Hf.
    destruct fuel as [|fuel]; [lia|]. cbn [chunks_aux].
    destruct (g z ++ flat_map g zs) eqn:E.
    + apply (f_equal (@length A)) in E. rewrite app_length in E. cbn [length] in E. lia.
    + rewrite <- E. rewrite <- Hz at 1 3.
      rewrite firstn_app, Nat.sub_diag, firstn_O, app_nil_r, firstn_all.
      rewrite skipn_app, Nat.sub_diag, skipn_O, skipn_all. cbn [app].
      f_equal. apply IH; [|lia]. intros y Hy. apply H. now right.
Qed.

Lemma chunks_blocks {A B} (g : B -> list A) K : 1 <= K -> forall zs,
  (forall z, In z zs -> length (g z) = K) -> chunks K (flat_map g zs) = map g zs.
Proof. intros HK zs H. unfold chunks. now apply chunks_aux_blocks. Qed.

Lemma NoDup_map_inj_in {A B} (f : A -> B) : forall l,
  (forall x y, In x l -> In y l -> f x = f y -> x = y) -> NoDup l -> NoDup (map f l).
Proof.
  induction l as [|x l IH]; intros Hinj Hnd; cbn [map]; [constructor|].
  inversion Hnd as [|x' l' Hx Hl]; subst. constructor.
  - intros Hin. apply in_map_iff in Hin. destruct Hin as [y [Hy Hin]].
    assert (y = x) by (apply Hinj; [now right | now left | exact Hy]). subst y. contradiction.
  - apply IH; [|exact Hl]. intros a b Ha Hb. apply Hinj; now right.
Qed.

(* an injective self-map of {0..n-1} is surjective *)
Lemma inj_surj : forall n (pn : nat -> nat), (forall i, i < n -> pn i < n) ->
  (forall i i', i < n -> i' < n -> pn i = pn i' -> i = i') ->
  forall j, j < n -> exists i, i < n /\ pn i = j.
Proof.
  intros n pn Hr Hinj j Hj.
  assert (Hnd : NoDup (map pn (seq 0 n))).
  { apply NoDup_map_inj_in; [|apply seq_NoDup]. intros x y Hx Hy. apply in_seq in Hx, Hy. apply Hinj; lia. }
  assert (Hincl : incl (seq 0 n) (map pn (seq 0 n))).
  { apply NoDup_length_incl; [exact Hnd | rewrite map_length; lia |].
    intros y Hy. apply in_map_iff in Hy. destruct Hy as [x [Hx Hin]]. apply in_seq in Hin.
    apply in_seq. subst y. specialize (Hr x). lia. }
  assert (Hin : In j (map pn (seq 0 n))) by (apply Hincl, in_seq; lia).
  apply in_map_iff in Hin. destruct Hin as [i [Hi Hin]]. apply in_seq in Hin. exists i. split; [lia | exact Hi].
Qed.

(* ---------- prodl / Pn ---------- *)
Lemma prodl_app : forall a b, prodl (a ++ b) = prodl a * prodl b.
Proof. induction a as [|r a IH]; intros b; cbn [app prodl]; [lia|]. rewrite IH. lia. Qed.

Lemma prodl_repeat : forall r n, prodl (repeat r n) = r ^ n.
Proof. induction n; cbn [repeat prodl Nat.pow]; [reflexivity|]. now rewrite IHn. Qed.

Lemma prodl_pos : forall rs, Forall (fun r => 1 <= r) rs -> 1 <= prodl rs.
Proof. induction 1 as [|r rs Hr _ IH]; cbn [prodl]; [lia|]. nia. Qed.

Lemma Pn_app : forall a b i, Forall (fun r => 1 <= r) a ->
  Pn (a ++ b) i = Pn a i * prodl b + Pn b (i / prodl a).
Proof.
  induction a as [|r a IH]; intros b i Ha; cbn [app Pn prodl].
  - now rewrite Nat.div_1_r.
  - inversion Ha as [|r' a' Hr Ha']; subst. pose proof (prodl_pos a Ha') as Hp.
    rewrite IH by exact Ha'. rewrite prodl_app, Nat.div_div by lia. lia.
Qed.

Lemma Pn_range : forall rs i, Forall (fun r => 1 <= r) rs -> Pn rs i < prodl rs.
Proof.
  induction rs as [|r rs IH]; intros i H; cbn [Pn prodl]; [lia|].
  inversion H as [|r' rs' Hr Hrs]; subst. specialize (IH (i / r) Hrs).
  pose proof (Nat.mod_upper_bound i r ltac:(lia)) as Hm. nia.
Qed.

(* ---------- the family ---------- *)
Section FamLemmas.
  Context {A : Type} (d : A).

  Lemma stride_length : forall r l cnt (x : list A), length (stride d r l cnt x) = cnt.
  Proof. intros. unfold stride. now rewrite map_length, seq_length. Qed.

  Lemma fam_app : forall rs1 rs2 m0 (x : list A),
    fam d (rs1 ++ rs2) m0 x = flat_map (fam d rs2 m0) (fam d rs1 (prodl rs2 * m0) x).
  Proof.
    induction rs1 as [|r rs1 IH]; intros rs2 m0 x; cbn [app fam].
    - cbn [flat_map]. now rewrite app_nil_r.
    - rewrite flat_map_flat_map. apply flat_map_ext_in. intros l _.
      rewrite IH. rewrite prodl_app, Nat.mul_assoc. reflexivity.
  Qed.

  Lemma fam_single : forall r m0 (x : list A),
    fam d [r] m0 x = map (fun l => stride d r l m0 x) (seq 0 r).
  Proof.
    intros. cbn [fam prodl]. rewrite Nat.mul_1_l. apply flat_map_single.
  Qed.

  Lemma fam_lengths : forall rs m0 (x : list A), length x = prodl rs * m0 ->
    forall z, In z (fam d rs m0 x) -> length z = m0.
  Proof.
    induction rs as [|r rs IH]; intros m0 x Hx z Hz; cbn [fam prodl] in *.
    - destruct Hz as [<-|[]]. lia.
    - apply in_flat_map in Hz. destruct Hz as [l [_ Hz]].
      eapply IH; [|exact Hz]. apply stride_length.
  Qed.

  Lemma fam_concat_length : forall rs m0 (x : list A),
    length (concat (fam d rs m0 x)) = match rs with [] => length x | _ => prodl rs * m0 end.
  Proof.
    induction rs as [|r rs IH]; intros m0 x; [cbn [fam concat]; now rewrite app_nil_r|].
    cbn [fam]. rewrite concat_flat_map.
    rewrite (length_flat_map_const _ (prodl rs * m0)).
    - rewrite seq_length. cbn [prodl]. lia.
    - intros l _. rewrite IH. destruct rs; [|reflexivity]. rewrite stride_length. reflexivity.
  Qed.

  (* the leaf order: input index i sits at position Pn rs i *)
  Lemma nth_fam : forall rs (x : list A) i, Forall (fun r => 1 <= r) rs ->
    length x = prodl rs -> i < prodl rs ->
    nth (Pn rs i) (concat (fam d rs 1 x)) d = nth i x d.
  Proof.
    induction rs as [|r rs IH]; intros x i H Hx Hi.
    - cbn [prodl] in Hi. assert (i = 0) by lia. subst i. cbn. now rewrite app_nil_r.
    - inversion H as [|r' rs' Hr Hrs]; subst. cbn [fam Pn prodl] in *.
      pose proof (prodl_pos rs Hrs) as Hp.
      rewrite concat_flat_map.
      set (K := prodl rs) in *.
      assert (HL : forall l, In l (seq 0 r) -> length (concat (fam d rs 1 (stride d r l (K * 1) x))) = K).
      { intros l _. rewrite fam_concat_length. destruct rs; [|unfold K; lia].
        rewrite stride_length. unfold K. cbn. reflexivity. }
      pose proof (Nat.mod_upper_bound i r ltac:(lia)) as Hm.
      assert (Hq : i / r < K) by (apply Nat.div_lt_upper_bound; lia).
      rewrite (nth_flat_map_blocks d 0 _ K);
        [| exact HL | rewrite seq_length; exact Hm | unfold K; apply Pn_range; exact Hrs].
      rewrite seq_nth by exact Hm. cbn [Nat.add].
      rewrite IH; [| exact Hrs | rewrite stride_length; lia | exact Hq].
      unfold stride. rewrite nth_map_seq by lia.
      f_equal. pose proof (Nat.div_mod i r ltac:(lia)). lia.
  Qed.
End FamLemmas.

(* Pn is injective on [0, prodl rs) (it has a left inverse: the leaf order of [0, 1, 2, ...]) *)
Lemma Pn_inj : forall rs i i', Forall (fun r => 1 <= r) rs -> i < prodl rs -> i' < prodl rs ->
  Pn rs i = Pn rs i' -> i = i'.
Proof.
  intros rs i i' H Hi Hi' E.
  pose proof (nth_fam 0 rs (seq 0 (prodl rs)) i H (seq_length _ _) Hi) as E1.
  pose proof (nth_fam 0 rs (seq 0 (prodl rs)) i' H (seq_length _ _) Hi') as E2.
  rewrite seq_nth in E1, E2 by assumption. cbn [Nat.add] in E1, E2. congruence.
Qed.

(* ---------- permute_digits / mixed_radix_fft_permute ---------- *)
Lemma permute_digits_spec : forall cnt b m i res, 1 <= b ->
  permute_digits cnt (Z.of_nat b) (Z.of_nat (b ^ cnt * m)) (Z.of_nat i) res =
  (Z.of_nat m, Z.of_nat (i / b ^ cnt), (res + Z.of_nat (Pn (repeat b cnt) i * m))%Z).
Proof.
  induction cnt as [|cnt IH]; intros b m i res Hb; cbn [permute_digits repeat Pn Nat.pow].
  - rewrite Nat.div_1_r, Nat.mul_1_l. cbn [Nat.mul]. now rewrite Z.add_0_r.
  - rewrite <- !Nat2Z.inj_div, <- Nat2Z.inj_mod.
    replace (b * b ^ cnt * m / b) with (b ^ cnt * m)
      by (replace (b * b ^ cnt * m) with (b ^ cnt * m * b) by ring; rewrite Nat.div_mul by lia; reflexivity).
    rewrite <- Nat2Z.inj_mul, IH by exact Hb.
    rewrite Nat.div_div, prodl_repeat by (try apply Nat.pow_nonzero; lia).
    f_equal. lia.
Qed.

Lemma mixed_permute_spec : forall s t q i, 1 <= q ->
  mixed_radix_fft_permute s t (Z.of_nat q) (Z.of_nat (2 ^ s * q ^ t)) (Z.of_nat i) =
  Z.of_nat (Pn (repeat 2 s ++ repeat q t) i).
Proof.
  intros s t q i Hq. unfold mixed_radix_fft_permute.
  change 2%Z with (Z.of_nat 2). rewrite permute_digits_spec by lia.
  replace (q ^ t) with (q ^ t * 1) at 1 by lia. rewrite permute_digits_spec by exact Hq.
  rewrite Pn_app by (apply Forall_forall; intros r Hr; apply repeat_spec in Hr; lia).
  rewrite !prodl_repeat. lia.
Qed.

(* ---------- scatter ---------- *)
Section Scatter.
  Context {T : Type} (F : Fops T).
  Local Notation zero := (f0 F).

  Lemma lookup_key_in : forall keys vals j, length keys = length vals -> In j keys ->
    exists i, i < length keys /\ nth i keys 0%Z = j /\ lookup_key F j keys vals = nth i vals zero.
  Proof.
    induction keys as [|k keys IH]; intros vals j Hl Hin; [destruct Hin|].
    destruct vals as [|v vals]; cbn [length] in Hl; [discriminate|].
    cbn [lookup_key]. destruct (Z.eqb_spec k j) as [E|E].
    - exists 0. cbn [length nth]. repeat split; [lia | exact E].
    - destruct Hin as [Hk|Hin]; [contradiction|].
      destruct (IH vals j ltac:(lia) Hin) as (i & Hi & Hn & Hv).
      exists (S i). cbn [length nth]. repeat split; [lia | exact Hn | exact Hv].
  Qed.

  Lemma scatter_spec : forall (perm : Z -> Z) (pn : nat -> nat) (a mp : list T),
    length mp = length a ->
    (forall i, i < length a -> perm (Z.of_nat i) = Z.of_nat (pn i) /\ pn i < length a /\
                               nth (pn i) mp zero = nth i a zero) ->
    (forall i i', i < length a -> i' < length a -> pn i = pn i' -> i = i') ->
    scatter F perm a = mp.
  Proof.
    intros perm pn a mp Hl Hp Hinj. unfold scatter.
    rewrite (as_map_nth zero mp (length a) Hl). apply map_ext_in. intros j Hj. apply in_seq in Hj.
    destruct (inj_surj (length a) pn (fun i Hi => proj1 (proj2 (Hp i Hi))) Hinj j ltac:(lia)) as (i0 & Hi0 & E0).
    set (keys := map (fun i => perm (Z.of_nat i)) (seq 0 (length a))).
    assert (Hin : In (Z.of_nat j) keys).
    { apply in_map_iff. exists i0. split; [|apply in_seq; lia]. rewrite (proj1 (Hp i0 Hi0)). now rewrite E0. }
    destruct (lookup_key_in keys a (Z.of_nat j)) as (i & Hi & Hn & Hv);
      [unfold keys; now rewrite map_length, seq_length | exact Hin |].
    unfold keys in Hi. rewrite map_length, seq_length in Hi.
    rewrite Hv. unfold keys in Hn.
    rewrite (nth_indep _ 0%Z (perm (Z.of_nat 0))) in Hn by (rewrite map_length, seq_length; exact Hi).
    rewrite (map_nth (fun i => perm (Z.of_nat i))), seq_nth in Hn by exact Hi. cbn [Nat.add] in Hn.
    destruct (Hp i Hi) as (E1 & _ & E3). rewrite E1 in Hn. apply Nat2Z.inj in Hn. now rewrite <- Hn.
  Qed.

  (* the scatter of serial_mixed_radix_fft = the leaves of the decimation family in order *)
  Lemma scatter_mixed : forall s t q (a : list T), 1 <= q -> length a = 2 ^ s * q ^ t ->
    scatter F (mixed_radix_fft_permute s t (Z.of_nat q) (Z.of_nat (length a))) a =
    concat (fam zero (repeat 2 s ++ repeat q t) 1 a).
  Proof.
    intros s t q a Hq Hl. set (rs := repeat 2 s ++ repeat q t).
    assert (Hrs : Forall (fun r => 1 <= r) rs).
    { apply Forall_forall. intros r Hr. apply in_app_or in Hr. destruct Hr as [Hr|Hr]; apply repeat_spec in Hr; lia. }
    assert (Hpr : prodl rs = length a) by (unfold rs; rewrite prodl_app, !prodl_repeat; lia).
    apply scatter_spec with (pn := Pn rs).
    - rewrite fam_concat_length. clearbody rs. destruct rs; [reflexivity | lia].
    - intros i Hi. rewrite Hl at 1. repeat split.
      + apply mixed_permute_spec. exact Hq.
      + rewrite <- Hpr. now apply Pn_range.
      + apply nth_fam; [exact Hrs | now rewrite Hpr | now rewrite Hpr].
    - intros i i' Hi Hi'. apply Pn_inj; [exact Hrs | now rewrite Hpr | now rewrite Hpr].
  Qed.
End Scatter.
