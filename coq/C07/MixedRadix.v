(* C07 model, part 3: poly/src/domain/mixed_radix.rs (serial_mixed_radix_fft,
   mixed_radix_fft_permute, best_mixed_domain_size) and ff/src/fields/utils.rs k_adicity.
   Written level by level exactly as the Rust loops (pass after pass over the whole array).
   No proofs in this file. *)
From V Require Import Base.Field C07.Dft C07.Radix2.

(* k_adicity(k, n): while n > 1 { if n % k == 0 { r += 1; n /= k } else return r }.
   Every successful iteration at least halves n (k >= 2), so log2 n + 1 iterations suffice;
   -1 = out of fuel (only possible for k < 2) *)
Fixpoint k_adicity_loop (fuel : nat) (k n r : Z) : Z :=
  if n <=? 1 then r else
  match fuel with
  | O => -1
  | S f => if n mod k =? 0 then k_adicity_loop f k (n / k) (r + 1) else r
  end.
Definition k_adicity (k n : Z) : Z := k_adicity_loop (S (Z.to_nat (Z.log2 n))) k n 0.

(* mixed_radix_fft_permute *)
Fixpoint permute_digits (cnt : nat) (base shift i res : Z) : Z * Z * Z :=
  match cnt with
  | O => (shift, i, res)
  | S c => let shift' := shift / base in
           permute_digits c base shift' (i / base) (res + (i mod base) * shift')
  end.
Definition mixed_radix_fft_permute (two_adicity q_adicity : nat) (q n i : Z) : Z :=
  let '(shift, i1, res) := permute_digits two_adicity 2 n i 0 in
  let '(_, _, res2) := permute_digits q_adicity q shift i1 res in
  res2.

(* the inner while loop of best_mixed_domain_size: double r until r >= min_size *)
Fixpoint grow (fuel : nat) (r t min_size : Z) : option (Z * Z) :=
  if r <? min_size then
    match fuel with O => None | S f => grow f (2 * r) (t + 1) min_size end
  else Some (r, t).

Definition USIZE_MAX : Z := 2 ^ 64 - 1.

(* best_mixed_domain_size (q, q_adic, two_adic: the field's SMALL_SUBGROUP_BASE,
   SMALL_SUBGROUP_BASE_ADICITY, TWO_ADICITY); min_size < 2^63 so that r never wraps *)
Fixpoint best_loop (cnt : nat) (b q two_adic min_size best : Z) : Z :=
  match cnt with
  | O => best
  | S c =>
      let best' := match grow 64 (q ^ b) 0 min_size with
                   | Some (r, t) => if t <=? two_adic then Z.min best r else best
                   | None => best
                   end in
      best_loop c (b + 1) q two_adic min_size best'
  end.
Definition best_mixed_domain_size (q q_adic two_adic min_size : Z) : Z :=
  best_loop (S (Z.to_nat q_adic)) 0 q two_adic min_size USIZE_MAX.

Section MixedRadix.
  Context {T : Type} (F : Fops T).
  Local Notation zero := (f0 F).
  Local Notation one := (f1 F).
  Local Notation add := (fadd F).
  Local Notation sub := (fsub F).
  Local Notation mul := (fmul F).

  (* the cycle-following loop moves a[i] to position permute(i): out[permute i] = a[i] *)
  Fixpoint lookup_key (j : Z) (keys : list Z) (vals : list T) : T :=
    match keys, vals with
    | k :: ks, v :: vs => if k =? j then v else lookup_key j ks vs
    | _, _ => zero
    end.
  Definition scatter (perm : Z -> Z) (a : list T) : list T :=
    let keys := map (fun i => perm (Z.of_nat i)) (seq 0 (length a)) in
    map (fun j => lookup_key (Z.of_nat j) keys a) (seq 0 (length a)).

  (* one q-ary merge on a chunk of q*m elements:
       terms[l] = block_l[j] * (w_m^j)^l           (l = 1..q-1)
       out block_i[j] = block_0[j] + sum_{l=1}^{q-1} terms[l] * qth_roots[(i*l) mod q] *)
  Fixpoint sum_terms (terms : list (list T)) (l : Z) (i q : Z) (qroots : list T) (acc : list T) : list T :=
    match terms with
    | [] => acc
    | t :: ts =>
        let r := nth (Z.to_nat ((i * l) mod q)) qroots zero in
        sum_terms ts (l + 1) i q qroots (zipw add acc (map (fun v => mul v r) t))
    end.
  Fixpoint twist_blocks (blocks : list (list T)) (l : nat) (wj : list T) : list (list T) :=
    match blocks with
    | [] => []
    | b :: bs => zipw (fun a w => mul a (pown F w l)) b wj :: twist_blocks bs (S l) wj
    end.
  Definition merge_chunk (q : Z) (m : nat) (w_m : T) (qroots : list T) (chunk : list T) : list T :=
    let blocks := chunks m chunk in
    let wj := powers F m w_m one in
    let base := hd [] blocks in
    let terms := twist_blocks (tl blocks) 1 wj in
    flat_map (fun i => sum_terms terms 1 (Z.of_nat i) q qroots base) (seq 0 (Z.to_nat q)).

  (* one radix-2 pass on a chunk of 2m elements: t = hi * w^j; (lo, hi) = (lo + t, lo - t) *)
  Definition radix2_chunk (m : nat) (w_m : T) (chunk : list T) : list T :=
    let lo := firstn m chunk in
    let hi := skipn m chunk in
    let t := zipw mul hi (powers F m w_m one) in
    zipw add lo t ++ zipw sub lo t.

  Fixpoint q_passes (cnt : nat) (q : Z) (n m : Z) (omega : T) (qroots : list T) (a : list T) : list T * Z :=
    match cnt with
    | O => (a, m)
    | S c =>
        let w_m := fpow F omega (n / (q * m)) in
        let a' := flat_map (merge_chunk q (Z.to_nat m) w_m qroots) (chunks (Z.to_nat (q * m)) a) in
        q_passes c q n (m * q) omega qroots a'
    end.

  Fixpoint two_passes (cnt : nat) (n m : Z) (omega : T) (a : list T) : list T :=
    match cnt with
    | O => a
    | S c =>
        let w_m := fpow F omega (n / (2 * m)) in
        let a' := flat_map (radix2_chunk (Z.to_nat m) w_m) (chunks (Z.to_nat (2 * m)) a) in
        two_passes c n (m * 2) omega a'
    end.

  (* serial_mixed_radix_fft(a, omega, two_adicity); None = the assert_eq!(n, q_part * two_part) fails *)
  Definition serial_mixed_radix_fft (q : Z) (a : list T) (omega : T) (two_adicity : Z) : option (list T) :=
    let n := Z.of_nat (length a) in
    let q_adicity := k_adicity q n in
    let q_part := q ^ q_adicity in
    let two_part := 2 ^ two_adicity in
    if negb (n =? q_part * two_part) then None else
    let '(a1, m) :=
      if 0 <? q_adicity then
        let a0 := scatter (mixed_radix_fft_permute (Z.to_nat two_adicity) (Z.to_nat q_adicity) q n) a in
        let omega_q := fpow F omega (n / q) in
        let qroots := powers F (Z.to_nat q) omega_q one in
        q_passes (Z.to_nat q_adicity) q n 1 omega qroots a0
      else (bitreverse_permutation F a (Z.to_nat two_adicity), 1) in
    Some (two_passes (Z.to_nat two_adicity) n m omega a1).

  (* MixedRadixEvaluationDomain::fft_in_place / ifft_in_place (q = SMALL_SUBGROUP_BASE) *)
  Definition mixed_fft (q : Z) (d : domain T) (coeffs : list T) : option (list T) :=
    let c1 := if is_one F (d_offset d) then coeffs else distribute_powers F coeffs (d_offset d) in
    serial_mixed_radix_fft q (resize F (Z.to_nat (d_size d)) c1) (d_gen d) (d_log d).

  Definition mixed_ifft (q : Z) (d : domain T) (evals : list T) : option (list T) :=
    match serial_mixed_radix_fft q (resize F (Z.to_nat (d_size d)) evals) (d_gen_inv d) (d_log d) with
    | None => None
    | Some y =>
        Some (if is_one F (d_offset d) then map (fun v => mul v (d_size_inv d)) y
              else distribute_powers_and_mul_by_const F y (d_offset_inv d) (d_size_inv d))
    end.
End MixedRadix.
