(* C07 proofs: best_mixed_domain_size (poly/src/domain/mixed_radix.rs) returns the least
   admissible size q^b * 2^t (b <= q_adic, t <= two_adic) that is >= min_size, or USIZE_MAX
   when there is none; mixed_compute_size then returns it.  Pure Z arithmetic. *)
Require Import ZArith Lia Znumtheory Zpow_facts.
From V Require Import Base.Field C07.Dft C07.Radix2 C07.MixedRadix C07.Domain C07.KAdicity.
Open Scope Z_scope.

(* ---------- the doubling loop ---------- *)
Lemma grow_some : forall fuel r t m r' t', grow fuel r t m = Some (r', t') ->
  exists j, 0 <= j /\ r' = r * 2 ^ j /\ t' = t + j /\ m <= r'.
Proof.
  induction fuel as [|f IH]; intros r t m r' t' H; cbn [grow] in H;
    destruct (Z.ltb_spec r m) as [Hlt|Hge]; try discriminate.
  - inversion H; subst r' t'. exists 0. rewrite Z.pow_0_r. repeat split; lia.
  - apply IH in H. destruct H as (j & Hj & Hr & Ht & Hm).
    exists (Z.succ j). rewrite Z.pow_succ_r by lia. repeat split; lia.
  - inversion H; subst r' t'. exists 0. rewrite Z.pow_0_r. repeat split; lia.
Qed.

Lemma grow_min : forall fuel r t m, m <= r * 2 ^ Z.of_nat fuel ->
  exists j, 0 <= j /\ grow fuel r t m = Some (r * 2 ^ j, t + j) /\
            (forall i, 0 <= i -> m <= r * 2 ^ i -> j <= i).
Proof.
  induction fuel as [|f IH]; intros r t m Hf; cbn [grow];
    destruct (Z.ltb_spec r m) as [Hlt|Hge].
  - change (Z.of_nat 0) with 0 in Hf. rewrite Z.pow_0_r in Hf. lia.
  - exists 0. rewrite Z.pow_0_r, Z.mul_1_r, Z.add_0_r. repeat split; [lia | intros; lia].
  - rewrite Nat2Z.inj_succ, Z.pow_succ_r in Hf by lia.
    destruct (IH (2 * r) (t + 1) m ltac:(lia)) as (j & Hj & Hg & Hmin).
    exists (Z.succ j). rewrite Z.pow_succ_r by lia. split; [lia|]. split.
    + rewrite Hg. f_equal. f_equal; lia.
    + intros i Hi Hmi.
      destruct (Z.eq_dec i 0) as [->|Hne]; [rewrite Z.pow_0_r in Hmi; lia|].
      assert (Hi' : j <= Z.pred i).
      { apply Hmin; [lia|].
        replace i with (Z.succ (Z.pred i)) in Hmi by lia.
        rewrite Z.pow_succ_r in Hmi by lia. lia. }
      lia.
  - exists 0. rewrite Z.pow_0_r, Z.mul_1_r, Z.add_0_r. repeat split; [lia | intros; lia].
Qed.

(* ---------- the outer loop ---------- *)
Lemma best_loop_le : forall cnt b q ta m best, best_loop cnt b q ta m best <= best.
Proof.
  induction cnt as [|c IH]; intros b q ta m best; cbn [best_loop]; [lia|].
  etransitivity; [apply IH|].
  destruct (grow 64 (q ^ b) 0 m) as [[r1 t1]|]; [|lia].
  destruct (t1 <=? ta); lia.
Qed.

Lemma best_loop_hit : forall cnt b0 q ta m best b t,
  1 <= q -> 0 <= b0 -> m <= 2 ^ 64 ->
  b0 <= b < b0 + Z.of_nat cnt -> 0 <= t <= ta -> m <= q ^ b * 2 ^ t ->
  best_loop cnt b0 q ta m best <= q ^ b * 2 ^ t.
Proof.
  induction cnt as [|c IH]; intros b0 q ta m best b t Hq Hb0 Hm Hb Ht Hadm; [lia|].
  cbn [best_loop].
  destruct (Z.eq_dec b b0) as [->|Hne].
  - etransitivity; [apply best_loop_le|].
    assert (Hqb0 : 0 < q ^ b0) by (apply Z.pow_pos_nonneg; lia).
    assert (Hqb : 1 <= q ^ b0) by lia.
    assert (Hfuel : m <= q ^ b0 * 2 ^ Z.of_nat 64).
    { change (Z.of_nat 64) with 64. nia. }
    destruct (grow_min 64 (q ^ b0) 0 m Hfuel) as (j & Hj & Hg & Hmin).
    rewrite Hg. specialize (Hmin t ltac:(lia) Hadm).
    destruct (Z.leb_spec (0 + j) ta) as [Hle|Hgt]; [|lia].
    assert (Hmono : 2 ^ j <= 2 ^ t) by (apply Z.pow_le_mono_r; lia).
    nia.
  - apply IH; try assumption; lia.
Qed.

Lemma best_loop_form : forall cnt b0 q ta m best, 0 <= b0 ->
  best_loop cnt b0 q ta m best = best \/
  exists b t, b0 <= b < b0 + Z.of_nat cnt /\ 0 <= t <= ta /\
              best_loop cnt b0 q ta m best = q ^ b * 2 ^ t /\ m <= q ^ b * 2 ^ t.
Proof.
  induction cnt as [|c IH]; intros b0 q ta m best Hb0; [left; reflexivity|].
  cbn [best_loop].
  set (best' := match grow 64 (q ^ b0) 0 m with
                | Some (r, t) => if t <=? ta then Z.min best r else best
                | None => best
                end).
  assert (Hb' : best' = best \/
                exists t, 0 <= t <= ta /\ best' = q ^ b0 * 2 ^ t /\ m <= q ^ b0 * 2 ^ t).
  { unfold best'. destruct (grow 64 (q ^ b0) 0 m) as [[r1 t1]|] eqn:G; [|left; reflexivity].
    apply grow_some in G. destruct G as (j & Hj & Hr & Ht & Hm).
    destruct (Z.leb_spec t1 ta) as [Hle|Hgt]; [|left; reflexivity].
    destruct (Z.min_spec best r1) as [[_ E]|[_ E]]; rewrite E.
    - left; reflexivity.
    - right. exists j. subst r1. repeat split; lia. }
  destruct (IH (b0 + 1) q ta m best' ltac:(lia)) as [E|(b & t & Hb & Ht & E & Hm)].
  - rewrite E. destruct Hb' as [E'|(t & Ht & E' & Hm)]; [left; exact E'|].
    right. exists b0, t. repeat split; first [assumption | lia].
  - right. exists b, t. repeat split; first [assumption | lia].
Qed.

(* ---------- best_mixed_domain_size ---------- *)
(* (i) minimal among the admissible sizes that are >= min_size *)
Theorem best_mixed_minimal : forall q q_adic two_adic min_size b t,
  1 <= q -> 0 <= q_adic -> min_size <= 2 ^ 64 ->
  0 <= b <= q_adic -> 0 <= t <= two_adic -> min_size <= q ^ b * 2 ^ t ->
  best_mixed_domain_size q q_adic two_adic min_size <= q ^ b * 2 ^ t.
Proof.
  intros q qa ta m b t Hq Hqa Hm Hb Ht Hadm. unfold best_mixed_domain_size.
  apply best_loop_hit; first [assumption | lia].
Qed.

(* (ii) the result is USIZE_MAX or an admissible size >= min_size *)
Theorem best_mixed_form : forall q q_adic two_adic min_size, 0 <= q_adic ->
  best_mixed_domain_size q q_adic two_adic min_size = USIZE_MAX \/
  exists b t, 0 <= b <= q_adic /\ 0 <= t <= two_adic /\
              best_mixed_domain_size q q_adic two_adic min_size = q ^ b * 2 ^ t /\
              min_size <= best_mixed_domain_size q q_adic two_adic min_size.
Proof.
  intros q qa ta m Hqa. unfold best_mixed_domain_size.
  destruct (best_loop_form (S (Z.to_nat qa)) 0 q ta m USIZE_MAX ltac:(lia))
    as [E|(b & t & Hb & Ht & E & Hm)]; [left; exact E|].
  right. exists b, t. rewrite Nat2Z.inj_succ, Z2Nat.id in Hb by lia.
  repeat split; first [assumption | lia].
Qed.

(* (iii) if some admissible size >= min_size below USIZE_MAX exists, the result is the least
   admissible size >= min_size *)
Theorem best_mixed_exists : forall q q_adic two_adic min_size b0 t0,
  1 <= q -> 0 <= q_adic -> min_size <= 2 ^ 64 ->
  0 <= b0 <= q_adic -> 0 <= t0 <= two_adic ->
  min_size <= q ^ b0 * 2 ^ t0 -> q ^ b0 * 2 ^ t0 < USIZE_MAX ->
  exists b t, 0 <= b <= q_adic /\ 0 <= t <= two_adic /\
              best_mixed_domain_size q q_adic two_adic min_size = q ^ b * 2 ^ t /\
              min_size <= q ^ b * 2 ^ t /\
              (forall b' t', 0 <= b' <= q_adic -> 0 <= t' <= two_adic ->
                             min_size <= q ^ b' * 2 ^ t' -> q ^ b * 2 ^ t <= q ^ b' * 2 ^ t').
Proof.
  intros q qa ta m b0 t0 Hq Hqa Hm Hb0 Ht0 Hadm Hlt.
  pose proof (best_mixed_minimal q qa ta m b0 t0 Hq Hqa Hm Hb0 Ht0 Hadm) as Hle.
  destruct (best_mixed_form q qa ta m Hqa) as [E|(b & t & Hb & Ht & E & Hmr)]; [lia|].
  exists b, t. repeat split; try lia.
  intros b' t' Hb' Ht' Hadm'. rewrite <- E.
  apply best_mixed_minimal; assumption.
Qed.

(* no admissible size >= min_size: the initial value USIZE_MAX is returned *)
Theorem best_mixed_none : forall q q_adic two_adic min_size, 0 <= q_adic ->
  (forall b t, 0 <= b <= q_adic -> 0 <= t <= two_adic -> q ^ b * 2 ^ t < min_size) ->
  best_mixed_domain_size q q_adic two_adic min_size = USIZE_MAX.
Proof.
  intros q qa ta m Hqa Hnone.
  destruct (best_mixed_form q qa ta m Hqa) as [E|(b & t & Hb & Ht & E & Hmr)]; [exact E|].
  specialize (Hnone b t Hb Ht). lia.
Qed.

(* ---------- mixed_compute_size ---------- *)
Theorem mixed_compute_size_spec : forall {T} (c : fftcfg T) q qa m b0 t0,
  c_small_base c = Some q -> c_small_adicity c = Some qa ->
  3 <= q -> Z.odd q = true -> 0 <= qa -> m <= 2 ^ 64 ->
  0 <= b0 <= qa -> 0 <= t0 <= c_two_adicity c ->
  m <= q ^ b0 * 2 ^ t0 -> q ^ b0 * 2 ^ t0 < USIZE_MAX ->
  mixed_compute_size c m = RSome (best_mixed_domain_size q qa (c_two_adicity c) m).
Proof.
  intros T c q qa m b0 t0 Hsb Hsa Hq Hodd Hqa Hm Hb0 Ht0 Hadm Hlt.
  unfold mixed_compute_size. rewrite Hsb, Hsa.
  destruct (best_mixed_exists q qa (c_two_adicity c) m b0 t0 ltac:(lia) Hqa Hm Hb0 Ht0 Hadm Hlt)
    as (b & t & Hb & Ht & E & _).
  rewrite E.
  rewrite k_adicity_q_part, k_adicity_two_part' by (try assumption; lia).
  rewrite Z.eqb_refl. reflexivity.
Qed.

Example mixed_compute_size_ex :
  mixed_compute_size (mkCfg 7 0 (Some 3) (Some 3) None : fftcfg Z) 100 = RSome 108.
Proof. vm_compute. reflexivity. Qed.
Example best_mixed_ex1 : best_mixed_domain_size 3 3 7 100 = 108.
Proof. vm_compute. reflexivity. Qed.
Example best_mixed_ex2 : best_mixed_domain_size 3 2 4 145 = USIZE_MAX.
Proof. vm_compute. reflexivity. Qed.
Example best_mixed_ex3 : best_mixed_domain_size 5 2 31 1000 = 1024.
Proof. vm_compute. reflexivity. Qed.
