(* C07 proofs, part 8: serial_mixed_radix_fft computes the DFT, for every n = 2^s q^t (q odd),
   every omega with omega^n = 1 (and omega^(n/2) = -1 when s >= 1), every input of length n. *)
From V Require Import Base.Field C07.Dft C07.Radix2 C07.MixedRadix C07.DftProofs C07.Radix2Proofs
  C07.DegreeAware C07.DomainProofs C07.MixedPerm C07.MixedPass C07.KAdicity.
Require Import Lia Field Ring Arith.
Local Open Scope nat_scope.

Section MS.
  Context {T : Type} (F : Fops T).
  Hypothesis Fth : field_theory (f0 F) (f1 F) (fadd F) (fmul F) (fsub F) (fneg F) (fdiv F) (finv F) eq.
  Add Field Ff8 : Fth.
  Local Notation zero := (f0 F).
  Local Notation one := (f1 F).
  Local Notation mul := (fmul F).
  Local Notation neg := (fneg F).
  Local Notation pw := (pown F).

  Lemma bitreverse_permutation_bl : forall s (a : list T), length a = 2 ^ s ->
    bitreverse_permutation F a s = bl s a.
  Proof.
    intros s a H. rewrite bl_eq_bl' by exact H. unfold bitreverse_permutation, gather.
    rewrite (as_map_nth zero (bl' s a) (length a)) by (rewrite bl'_length; auto).
    apply map_ext_in. intros i Hi. apply in_seq in Hi. rewrite nth_bl' by lia. reflexivity.
  Qed.

  Lemma dft1_leaves : forall W (L : list (list T)), (forall z, In z L -> length z = 1) ->
    flat_map (dft F 1 W) L = concat L.
  Proof.
    induction L as [|z L IH]; intros H; cbn [flat_map concat]; [reflexivity|].
    rewrite IH by (intros y Hy; apply H; now right).
    assert (Hz : length z = 1) by (apply H; now left).
    destruct z as [|v [|]]; cbn [length] in Hz; try lia. now rewrite (dft_one F Fth).
  Qed.

  Lemma leaves_as_dft1 : forall W rs1 rs2 (a : list T), length a = prodl rs1 * prodl rs2 ->
    concat (fam zero (rs1 ++ rs2) 1 a) =
    flat_map (fun y => flat_map (dft F 1 W) (fam zero rs2 1 y)) (fam zero rs1 (prodl rs2) a).
  Proof.
    intros W rs1 rs2 a H. rewrite fam_app, Nat.mul_1_r, concat_flat_map.
    apply flat_map_ext_in. intros y Hy. symmetry. apply dft1_leaves.
    apply fam_lengths. rewrite Nat.mul_1_r. eapply fam_lengths; [|exact Hy]. exact H.
  Qed.

  Theorem serial_mixed_radix_fft_spec : forall (q s t : nat) omega (a : list T),
    3 <= q -> Z.odd (Z.of_nat q) = true -> length a = 2 ^ s * q ^ t ->
    pw omega (2 ^ s * q ^ t) = one ->
    (1 <= s -> pw omega (2 ^ (s - 1) * q ^ t) = neg one) ->
    serial_mixed_radix_fft F (Z.of_nat q) a omega (Z.of_nat s) = Some (dft F (2 ^ s * q ^ t) omega a).
  Proof.
    intros q s t omega a Hq Hodd Hl Hw1 Hw2.
    set (nn := 2 ^ s * q ^ t) in *.
    assert (HnZ : Z.of_nat nn = (2 ^ Z.of_nat s * Z.of_nat q ^ Z.of_nat t)%Z).
    { unfold nn. rewrite Nat2Z.inj_mul, !Nat2Z.inj_pow. reflexivity. }
    assert (Hk : k_adicity (Z.of_nat q) (Z.of_nat nn) = Z.of_nat t).
    { rewrite HnZ. apply k_adicity_q_part'; [lia | exact Hodd | lia | lia]. }
    assert (Hqt : 1 <= q ^ t) by (pose proof (Nat.pow_nonzero q t ltac:(lia)); lia).
    assert (H2s : 1 <= 2 ^ s) by (pose proof (Nat.pow_nonzero 2 s ltac:(lia)); lia).
    pose proof (scatter_mixed F s t q a ltac:(lia) Hl) as Hsc.
    unfold serial_mixed_radix_fft. rewrite Hl in *. rewrite Hk.
    replace (Z.of_nat q ^ Z.of_nat t * 2 ^ Z.of_nat s)%Z with (Z.of_nat nn) by lia.
    rewrite Z.eqb_refl. cbn [negb]. rewrite !Nat2Z.id.
    set (YS := fam zero (repeat 2 s) (q ^ t) a).
    assert (HYS : forall y, In y YS -> length y = q ^ t).
    { apply fam_lengths. rewrite prodl_repeat. exact Hl. }
    (* the permutation and the q-ary passes *)
    assert (Hfirst :
      (if (0 <? Z.of_nat t)%Z
       then q_passes F t (Z.of_nat q) (Z.of_nat nn) 1 omega
              (powers F q (fpow F omega (Z.of_nat nn / Z.of_nat q)) one)
              (scatter F (mixed_radix_fft_permute s t (Z.of_nat q) (Z.of_nat nn)) a)
       else (bitreverse_permutation F a s, 1%Z))
      = (flat_map (dft F (q ^ t) (pw omega (2 ^ s))) YS, Z.of_nat (q ^ t))).
    { destruct t as [|t'].
      - cbn [Z.of_nat Z.ltb Z.compare]. cbn [Nat.pow] in *. f_equal.
        rewrite bitreverse_permutation_bl by (fold nn in Hl; unfold nn in Hl; lia).
        rewrite (bl_fam zero) by (unfold nn in Hl; lia).
        unfold YS. symmetry. apply dft1_leaves. apply fam_lengths.
        rewrite prodl_repeat. unfold nn in Hl. lia.
      - replace (0 <? Z.of_nat (S t'))%Z with true by (symmetry; apply Z.ltb_lt; lia).
        rewrite Hsc. set (t := S t') in *.
        rewrite (leaves_as_dft1 (pw omega (2 ^ s * q ^ t))) by (rewrite !prodl_repeat; exact Hl).
        rewrite prodl_repeat. fold YS.
        pose proof (q_passes_spec F Fth omega nn Hw1 q ltac:(lia) t 1 (2 ^ s) YS (le_n 1)) as HQ.
        rewrite !Nat.mul_1_l in HQ. apply HQ; [reflexivity | exact HYS]. }
    rewrite Hfirst.
    f_equal.
    pose proof (two_passes_spec F Fth omega nn Hw1 s (q ^ t) 1 [a] Hqt) as H2.
    cbn [flat_map] in H2. rewrite !app_nil_r, !Nat.mul_1_l, pown_1 in H2 by exact Fth.
    fold YS in H2. replace (q ^ t * 2 ^ s) with nn in H2 by (unfold nn; lia).
    apply H2.
    - unfold nn. lia.
    - intros Hs. exists (2 ^ (s - 1) * q ^ t). split; [|auto].
      unfold nn. destruct s; [lia|]. cbn [Nat.pow]. replace (S s - 1) with s by lia. lia.
    - intros y [<-|[]]. unfold nn in Hl. lia.
  Qed.
End MS.
