(* C07 proofs, part 5: what Radix2EvaluationDomain::new / get_root_of_unity return. *)
From V Require Import Base.Field C07.Dft C07.Radix2 C07.MixedRadix C07.Domain C07.DftProofs C07.Radix2Proofs C07.DomainProofs.
Require Import Lia Field Ring.
Local Open Scope nat_scope.

Section N.
  Context {T : Type} (F : Fops T).
  Hypothesis Fth : field_theory (f0 F) (f1 F) (fadd F) (fmul F) (fsub F) (fneg F) (fdiv F) (finv F) eq.
  Hypothesis feqb_ok : forall a b, feqb F a b = true <-> a = b.
  Add Field Ff6 : Fth.
  Local Notation zero := (f0 F).
  Local Notation one := (f1 F).
  Local Notation mul := (fmul F).
  Local Notation neg := (fneg F).
  Local Notation pw := (pown F).

  Lemma sqr_iter_spec : forall n x, sqr_iter F n x = pw x (2 ^ n).
  Proof.
    induction n as [|n IH]; intros x.
    - cbn. ring.
    - change (sqr_iter F (S n) x) with (mul (sqr_iter F n x) (sqr_iter F n x)). rewrite IH. rewrite pow2_S.
      replace (2 * 2 ^ n) with (2 ^ n + 2 ^ n) by lia. now rewrite (pown_add F Fth).
  Qed.

  Lemma inverse_some : forall a b, inverse F a = Some b -> mul a b = one.
  Proof.
    intros a b H. unfold inverse in H. destruct (fis0 F a) eqn:E; [discriminate|].
    inversion H; subst b; clear H.
    assert (Hn : a <> zero).
    { intros ->. unfold fis0 in E. assert (feqb F zero zero = true) by now apply feqb_ok. congruence. }
    field. exact Hn.
  Qed.

  (* the power-of-two branch of get_root_of_unity (no LARGE_SUBGROUP_ROOT_OF_UNITY): the result
     has exact order 2^lg whenever the configured root has exact order 2^TWO_ADICITY *)
  Theorem get_root_of_unity_pow2 : forall (c : fftcfg T) (s lg : nat) w,
    c_large_root c = None -> c_two_adicity c = Z.of_nat s ->
    prim_root F s (c_two_adic_root c) ->
    get_root_of_unity F c (2 ^ Z.of_nat lg)%Z = RSome w ->
    lg <= s /\ w = pw (c_two_adic_root c) (2 ^ (s - lg)) /\ prim_root F lg w.
  Proof.
    intros c s lg w Hl Hs Hr H. unfold get_root_of_unity in H. rewrite Hl in H.
    assert (Hn : npow2 (2 ^ Z.of_nat lg) = (2 ^ Z.of_nat lg)%Z).
    { unfold npow2. destruct (Z.leb_spec (2 ^ Z.of_nat lg) 1) as [L|L].
      - pose proof (Z.pow_pos_nonneg 2 (Z.of_nat lg) ltac:(lia) ltac:(lia)). lia.
      - rewrite Z.log2_up_pow2 by lia. reflexivity. }
    assert (Hlg : log2c (2 ^ Z.of_nat lg) = Z.of_nat lg).
    { unfold log2c. destruct (Z.leb_spec (2 ^ Z.of_nat lg) 1) as [L|L].
      - destruct lg; [reflexivity|]. rewrite Nat2Z.inj_succ, Z.pow_succ_r in L by lia.
        pose proof (Z.pow_pos_nonneg 2 (Z.of_nat lg) ltac:(lia) ltac:(lia)). lia.
      - rewrite Z.log2_up_pow2 by lia. reflexivity. }
    rewrite Hn, Hlg, Z.eqb_refl, Hs in H. cbn [negb orb] in H.
    destruct (Z.ltb_spec (Z.of_nat s) (Z.of_nat lg)) as [L|L]; [discriminate|].
    inversion H; subst w; clear H.
    assert (Hle : lg <= s) by lia.
    replace (Z.to_nat (Z.of_nat s - Z.of_nat lg)) with (s - lg) by lia.
    rewrite sqr_iter_spec. repeat split; auto.
    destruct lg as [|lg]; [exact I|]. cbn [prim_root].
    rewrite <- (pown_mul F Fth), <- Nat.pow_add_r.
    destruct s as [|s]; [lia|]. cbn [prim_root] in Hr.
    replace (S s - S lg + lg) with s by lia. exact Hr.
  Qed.

  (* Radix2EvaluationDomain::new: size = next power of two, unit offset, stored inverses are inverses *)
  Theorem radix2_new_spec : forall (c : fftcfg T) m d, radix2_new F c m = RSome d ->
    d_size d = npow2 m /\ d_log d = Z.log2 (npow2 m) /\ d_mixed d = false /\
    (d_log d <= c_two_adicity c)%Z /\
    get_root_of_unity F c (npow2 m) = RSome (d_gen d) /\
    mul (d_gen d) (d_gen_inv d) = one /\ mul (d_size_fe d) (d_size_inv d) = one /\
    d_size_fe d = fof F [npow2 m] /\
    d_offset d = one /\ d_offset_inv d = one /\ d_offset_pow_size d = one.
  Proof.
    intros c m d H. unfold radix2_new in H.
    destruct (Z.ltb_spec (c_two_adicity c) (Z.log2 (npow2 m))) as [L|L]; [discriminate|].
    destruct (get_root_of_unity F c (npow2 m)) as [g| |] eqn:G; try discriminate.
    unfold build_domain in H.
    destruct (inverse F (fof F [npow2 m])) as [si|] eqn:I1; [|discriminate].
    destruct (inverse F g) as [gi|] eqn:I2; [|discriminate].
    inversion H; subst d; clear H. cbn.
    repeat split; auto using inverse_some.
  Qed.
End N.
