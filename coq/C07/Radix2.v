(* C07 model, part 2: poly/src/domain/radix2/fft.rs and the transform part of radix2/mod.rs.
   io (decimation in frequency) / oi (decimation in time) butterflies with the twiddle
   indices of io_helper / oi_helper: at the level with 2^j-element chunks the j-th pair uses
   roots[j * num_chunks] = (root^num_chunks)^j; the model recurses on the two halves of a
   chunk with root^2 (chunks are independent, so depth-first = level-order); the roots
   cache and its compaction are value-preserving re-indexings and are abstracted.
   No proofs in this file. *)
From V Require Import Base.Field C07.Dft.

(* the fields of Radix2EvaluationDomain / MixedRadixEvaluationDomain (identical structs) *)
Record domain (T : Type) := mkDomain {
  d_mixed : bool;            (* GeneralEvaluationDomain variant: false = Radix2, true = MixedRadix *)
  d_size : Z;
  d_log : Z;                 (* log_size_of_group: for mixed radix the two-adicity of size *)
  d_size_fe : T;
  d_size_inv : T;
  d_gen : T;
  d_gen_inv : T;
  d_offset : T;
  d_offset_inv : T;
  d_offset_pow_size : T
}.
Arguments mkDomain {T}. Arguments d_mixed {T}. Arguments d_size {T}. Arguments d_log {T}.
Arguments d_size_fe {T}. Arguments d_size_inv {T}. Arguments d_gen {T}. Arguments d_gen_inv {T}.
Arguments d_offset {T}. Arguments d_offset_inv {T}. Arguments d_offset_pow_size {T}.

(* utils.rs bitreverse(n, l): l iterations of r = (r << 1) | (n & 1); n >>= 1 *)
Fixpoint bitreverse_loop (l : nat) (n r : Z) : Z :=
  match l with O => r | S l' => bitreverse_loop l' (n / 2) (2 * r + n mod 2) end.
Definition bitreverse (n : Z) (l : nat) : Z := bitreverse_loop l n 0.

(* fft.rs bitrev(a, log_len) = a.reverse_bits().wrapping_shr(64 - log_len): the low log_len
   bits reversed; wrapping_shr(64) = shr(0), so log_len = 0 reverses all 64 bits *)
Definition bitrev (a : Z) (log_len : nat) : Z :=
  match log_len with O => bitreverse a 64 | _ => bitreverse a log_len end.

Section Radix2.
  Context {T : Type} (F : Fops T).
  Local Notation zero := (f0 F).
  Local Notation one := (f1 F).
  Local Notation add := (fadd F).
  Local Notation sub := (fsub F).
  Local Notation mul := (fmul F).

  (* gather by an index map: out[i] = x[idx i] *)
  Definition gather (idx : nat -> nat) (x : list T) : list T :=
    map (fun i => nth (idx i) x zero) (seq 0 (length x)).

  (* fft.rs derange: swap(idx, bitrev idx) for idx < bitrev idx, i.e. out[i] = x[bitrev i] *)
  Definition derange (x : list T) (log_len : nat) : list T :=
    gather (fun i => Z.to_nat (bitrev (Z.of_nat i) log_len)) x.

  (* utils.rs bitreverse_permutation_in_place (same permutation, via bitreverse) *)
  Definition bitreverse_permutation (x : list T) (width : nat) : list T :=
    gather (fun i => Z.to_nat (bitreverse (Z.of_nat i) width)) x.

  (* butterfly_fn_io on a chunk split (lo, hi) with twiddles tw: lo' = lo + hi; hi' = (lo - hi) * w *)
  Definition bfly_io_lo (lo hi : list T) : list T := zipw add lo hi.
  Definition bfly_io_hi (lo hi tw : list T) : list T := zipw mul (zipw sub lo hi) tw.

  (* io_helper restricted to one chunk of 2^k elements; w = root^(num_chunks) *)
  Fixpoint io_aux (k : nat) (w : T) (x : list T) : list T :=
    match k with
    | O => x
    | S k' =>
        let g := Nat.pow 2 k' in
        let lo := firstn g x in
        let hi := skipn g x in
        let tw := powers F g w one in
        let w2 := mul w w in
        io_aux k' w2 (bfly_io_lo lo hi) ++ io_aux k' w2 (bfly_io_hi lo hi tw)
    end.

  (* butterfly_fn_oi: hi *= w; (lo, hi) = (lo + hi, lo - hi) *)
  (* oi_helper restricted to one chunk of 2^k elements, skipping the levels whose gap is
     below start_gap = 2^s (those are the chunks of at most 2^s elements) *)
  Fixpoint oi_aux (k s : nat) (w : T) (x : list T) : list T :=
    match k with
    | O => x
    | S k' =>
        if Nat.leb k s then x else
        let g := Nat.pow 2 k' in
        let w2 := mul w w in
        let lo := oi_aux k' s w2 (firstn g x) in
        let hi := oi_aux k' s w2 (skipn g x) in
        let t := zipw mul hi (powers F g w one) in
        zipw add lo t ++ zipw sub lo t
    end.

  Definition is_one (a : T) : bool := feqb F a one.

  (* in_order_fft_in_place (x already resized to the domain size 2^k) *)
  Definition in_order_fft (k : nat) (gen offset : T) (x : list T) : list T :=
    let x1 := if is_one offset then x else distribute_powers F x offset in
    derange (io_aux k gen x1) k.

  (* in_order_ifft_in_place *)
  Definition in_order_ifft (k : nat) (gen_inv offset offset_inv size_inv : T) (x : list T) : list T :=
    let y := oi_aux k 0 gen_inv (derange x k) in
    if is_one offset then map (fun v => mul v size_inv) y
    else distribute_powers_and_mul_by_const F y offset_inv size_inv.

  (* usize::next_power_of_two / ark_std::log2 (ceiling) for values below 2^63 *)
  Definition npow2 (x : Z) : Z := if x <=? 1 then 1 else 2 ^ Z.log2_up x.
  Definition log2c (x : Z) : Z := if x <=? 1 then 0 else Z.log2_up x.

  (* the partial swap loop of degree_aware_fft: for i < d: if i < bitrev i then swap(i, bitrev i).
     bitrev is an involution, so position j is exchanged with bitrev j exactly when the
     smaller of the two is below d *)
  Definition partial_bitrev_swap (x : list T) (d : Z) (log_n : nat) : list T :=
    gather (fun j => let rj := bitrev (Z.of_nat j) log_n in
                     if (Z.of_nat j <? d) || (rj <? d) then Z.to_nat rj else j) x.

  (* duplicate initial values: every chunk of dup elements is filled with its first element *)
  Definition duplicate_initials (x : list T) (dup : nat) : list T :=
    flat_map (fun ch => repeat (hd zero ch) (length ch)) (chunks dup x).

  (* degree_aware_fft_in_place; None = panic ("domain is too small") *)
  Definition degree_aware_fft (k : nat) (gen offset : T) (coeffs : list T) : option (list T) :=
    let c1 := if is_one offset then coeffs else distribute_powers F coeffs offset in
    let n := Nat.pow 2 k in
    let num_coeffs := npow2 (Z.of_nat (length c1)) in
    let log_d := Z.to_nat (log2c num_coeffs) in
    if Nat.ltb k log_d then None else
    let s := (k - log_d)%nat in
    let dup := Nat.pow 2 s in
    let c2 := resize F n c1 in
    let c3 := partial_bitrev_swap c2 num_coeffs k in
    let c4 := if Nat.ltb 1 dup then duplicate_initials c3 dup else c3 in
    Some (oi_aux k s gen c4).

  (* Radix2EvaluationDomain::fft_in_place: DEGREE_AWARE_FFT_THRESHOLD_FACTOR = 4 *)
  Definition radix2_fft (d : domain T) (coeffs : list T) : option (list T) :=
    let k := Z.to_nat (d_log d) in
    if Z.of_nat (length coeffs) * 4 <=? d_size d
    then degree_aware_fft k (d_gen d) (d_offset d) coeffs
    else Some (in_order_fft k (d_gen d) (d_offset d) (resize F (Z.to_nat (d_size d)) coeffs)).

  (* Radix2EvaluationDomain::ifft_in_place *)
  Definition radix2_ifft (d : domain T) (evals : list T) : list T :=
    in_order_ifft (Z.to_nat (d_log d)) (d_gen_inv d) (d_offset d) (d_offset_inv d) (d_size_inv d)
      (resize F (Z.to_nat (d_size d)) evals).
End Radix2.
