(* C07 proofs, part 2: the radix-2 butterflies compute the DFT. *)
From V Require Import Base.Field C07.Dft C07.Radix2 C07.DftProofs.
Require Import Lia Field Ring.
Local Open Scope nat_scope.

(* ---------- bit-reversal as a structural permutation ---------- *)
(* even-indexed elements first, recursively (decimation) *)
Fixpoint bl {A} (k : nat) (x : list A) : list A :=
  match k with O => x | S k' => bl k' (evens x) ++ bl k' (odds x) end.

Fixpoint interleave {A} (a b : list A) : list A :=
  match a, b with
  | x :: a', y :: b' => x :: y :: interleave a' b'
  | _, _ => []
  end.

(* halves recursively, then interleaved *)
Fixpoint bl' {A} (k : nat) (x : list A) : list A :=
  match k with
  | O => x
  | S k' => let g := 2 ^ k' in interleave (bl' k' (firstn g x)) (bl' k' (skipn g x))
  end.

Lemma pow2_S : forall k, 2 ^ S k = 2 * 2 ^ k.
Proof. intros. cbn [Nat.pow]. lia. Qed.

Lemma evens_interleave {A} : forall (a b : list A), length a = length b -> evens (interleave a b) = a.
Proof.
  induction a as [|x a IH]; intros [|y b] H; cbn [length] in H; try discriminate; [reflexivity|].
  cbn [interleave evens]. now rewrite IH by lia.
Qed.
Lemma odds_interleave {A} : forall (a b : list A), length a = length b -> odds (interleave a b) = b.
Proof.
  induction a as [|x a IH]; intros [|y b] H; cbn [length] in H; try discriminate; [reflexivity|].
  cbn [interleave]. unfold odds. cbn [tl]. rewrite evens_cons.
  fold (odds (interleave a b)). now rewrite IH by lia.
Qed.
Lemma interleave_evens_odds {A} : forall g (x : list A), length x = 2 * g ->
  interleave (evens x) (odds x) = x.
Proof.
  induction g as [|g IH]; intros x H.
  - destruct x; [reflexivity | cbn in H; lia].
  - destruct x as [|a [|b t]]; cbn [length] in H; try lia.
    unfold odds. cbn [tl]. change (evens (a :: b :: t)) with (a :: evens t).
    rewrite (evens_cons b t). cbn [interleave]. fold (odds t). now rewrite IH by lia.
Qed.
Lemma interleave_length {A} : forall (a b : list A), length a = length b ->
  length (interleave a b) = 2 * length a.
Proof.
  induction a as [|x a IH]; intros [|y b] H; cbn [length] in H; try discriminate; [reflexivity|].
  cbn [interleave length]. rewrite IH by lia. lia.
Qed.
Lemma interleave_app {A} : forall (a1 b1 a2 b2 : list A), length a1 = length b1 ->
  interleave (a1 ++ a2) (b1 ++ b2) = interleave a1 b1 ++ interleave a2 b2.
Proof.
  induction a1 as [|x a1 IH]; intros [|y b1] a2 b2 H; cbn [length] in H; try discriminate; [reflexivity|].
  cbn [app interleave]. now rewrite IH by lia.
Qed.
Lemma evens_app {A} : forall g (a b : list A), length a = 2 * g -> evens (a ++ b) = evens a ++ evens b.
Proof.
  induction g as [|g IH]; intros a b H.
  - destruct a; [reflexivity | cbn in H; lia].
  - destruct a as [|x [|y t]]; cbn [length] in H; try lia.
    cbn [app evens]. now rewrite IH by lia.
Qed.
Lemma odds_app {A} : forall g (a b : list A), length a = 2 * g -> odds (a ++ b) = odds a ++ odds b.
Proof.
  induction g as [|g IH]; intros a b H.
  - destruct a; [reflexivity | cbn in H; lia].
  - destruct a as [|x [|y t]]; cbn [length] in H; try lia.
    unfold odds. cbn [app tl]. rewrite !evens_cons. fold (odds (t ++ b)). fold (odds t).
    cbn [app]. now rewrite IH by lia.
Qed.

Lemma bl_length {A} : forall k (x : list A), length x = 2 ^ k -> length (bl k x) = 2 ^ k.
Proof.
  induction k as [|k IH]; intros x H; [exact H|].
  rewrite pow2_S in H. destruct (evens_odds_length _ _ H) as [H1 H2].
  cbn [bl]. rewrite app_length, !IH by assumption. rewrite pow2_S. lia.
Qed.
Lemma bl'_length {A} : forall k (x : list A), length x = 2 ^ k -> length (bl' k x) = 2 ^ k.
Proof.
  induction k as [|k IH]; intros x H; [exact H|].
  rewrite pow2_S in H. cbn [bl'].
  assert (H1 : length (firstn (2 ^ k) x) = 2 ^ k) by (rewrite firstn_length; lia).
  assert (H2 : length (skipn (2 ^ k) x) = 2 ^ k) by (rewrite skipn_length; lia).
  rewrite interleave_length; rewrite !IH by assumption; rewrite ?pow2_S; lia.
Qed.

Lemma bl_interleave {A} : forall k (a b : list A), length a = 2 ^ k -> length b = 2 ^ k ->
  bl (S k) (interleave a b) = bl k a ++ bl k b.
Proof. intros. cbn [bl]. rewrite evens_interleave, odds_interleave by lia. reflexivity. Qed.

Lemma bl_app {A} : forall k (a b : list A), length a = 2 ^ k -> length b = 2 ^ k ->
  bl (S k) (a ++ b) = interleave (bl k a) (bl k b).
Proof.
  induction k as [|k IH]; intros a b Ha Hb.
  - destruct a as [|x [|]]; cbn in Ha; try lia. destruct b as [|y [|]]; cbn in Hb; try lia. reflexivity.
  - rewrite pow2_S in Ha, Hb.
    destruct (evens_odds_length _ _ Ha) as [Ha1 Ha2]. destruct (evens_odds_length _ _ Hb) as [Hb1 Hb2].
    change (bl (S (S k)) (a ++ b)) with (bl (S k) (evens (a ++ b)) ++ bl (S k) (odds (a ++ b))).
    rewrite (evens_app _ _ _ Ha), (odds_app _ _ _ Ha), !IH by assumption.
    cbn [bl]. rewrite interleave_app; [reflexivity|]. rewrite !bl_length; auto.
Qed.

Lemma bl_eq_bl' {A} : forall k (x : list A), length x = 2 ^ k -> bl k x = bl' k x.
Proof.
  induction k as [|k IH]; intros x H; [reflexivity|].
  rewrite pow2_S in H.
  assert (H1 : length (firstn (2 ^ k) x) = 2 ^ k) by (rewrite firstn_length; lia).
  assert (H2 : length (skipn (2 ^ k) x) = 2 ^ k) by (rewrite skipn_length; lia).
  rewrite <- (firstn_skipn (2 ^ k) x) at 1. rewrite bl_app by assumption.
  cbn [bl']. now rewrite !IH by assumption.
Qed.

Lemma bl_involutive {A} : forall k (x : list A), length x = 2 ^ k -> bl k (bl k x) = x.
Proof.
  induction k as [|k IH]; intros x H; [reflexivity|].
  rewrite pow2_S in H. destruct (evens_odds_length _ _ H) as [H1 H2].
  change (bl (S k) x) with (bl k (evens x) ++ bl k (odds x)).
  rewrite bl_app by (apply bl_length; assumption).
  rewrite !IH by assumption. now apply interleave_evens_odds with (g := 2 ^ k).
Qed.

(* ---------- the index-level bit reversal of the Rust code = the structural one ---------- *)
Lemma brl_acc : forall l n r,
  bitreverse_loop l n r = (r * 2 ^ Z.of_nat l + bitreverse_loop l n 0)%Z.
Proof.
  induction l as [|l IH]; intros n r; cbn [bitreverse_loop].
  - change (Z.of_nat 0) with 0%Z. rewrite Z.pow_0_r. lia.
  - rewrite (IH (n / 2)%Z (2 * r + n mod 2)%Z), (IH (n / 2)%Z (2 * 0 + n mod 2)%Z).
    rewrite Nat2Z.inj_succ, Z.pow_succ_r by lia. ring.
Qed.

Lemma bitreverse_S : forall l n,
  bitreverse n (S l) = ((n mod 2) * 2 ^ Z.of_nat l + bitreverse (n / 2) l)%Z.
Proof.
  intros. unfold bitreverse. cbn [bitreverse_loop]. rewrite brl_acc. repeat f_equal; lia.
Qed.

Lemma bitreverse_range : forall l n, (0 <= bitreverse n l < 2 ^ Z.of_nat l)%Z.
Proof.
  induction l as [|l IH]; intros n.
  - unfold bitreverse. cbn. lia.
  - rewrite bitreverse_S. specialize (IH (n / 2)%Z).
    pose proof (Z.mod_pos_bound n 2 ltac:(lia)) as Hm.
    rewrite Nat2Z.inj_succ, Z.pow_succ_r by lia.
    set (m := (n mod 2)%Z) in *. set (P := (2 ^ Z.of_nat l)%Z) in *. nia.
Qed.

Lemma nth_interleave {A} (d : A) : forall (a b : list A) i, length a = length b ->
  nth (2 * i) (interleave a b) d = nth i a d /\ nth (2 * i + 1) (interleave a b) d = nth i b d.
Proof.
  induction a as [|x a IH]; intros [|y b] i H; cbn [length] in H; try discriminate.
  - destruct i; cbn; auto. 
  - destruct i as [|i].
    + cbn. auto.
    + replace (2 * S i) with (S (S (2 * i))) by lia.
      replace (S (S (2 * i)) + 1) with (S (S (2 * i + 1))) by lia.
      cbn [interleave nth]. apply IH. lia.
Qed.

Lemma pow2_Z : forall k, Z.of_nat (2 ^ k) = (2 ^ Z.of_nat k)%Z.
Proof.
  induction k; [reflexivity|]. rewrite pow2_S, Nat2Z.inj_mul, IHk. change (Z.of_nat 2) with 2%Z.
  rewrite Nat2Z.inj_succ, Z.pow_succ_r by lia. reflexivity.
Qed.

Lemma nth_bl' {A} (d : A) : forall k (x : list A) i, length x = 2 ^ k -> i < 2 ^ k ->
  nth i (bl' k x) d = nth (Z.to_nat (bitreverse (Z.of_nat i) k)) x d.
Proof.
  induction k as [|k IH]; intros x i Hx Hi.
  - cbn in Hi. assert (i = 0) by lia. subst i. reflexivity.
  - rewrite pow2_S in Hx, Hi. cbn [bl'].
    set (g := 2 ^ k) in *.
    assert (H1 : length (firstn g x) = g) by (rewrite firstn_length; lia).
    assert (H2 : length (skipn g x) = g) by (rewrite skipn_length; lia).
    assert (Hl : length (bl' k (firstn g x)) = length (bl' k (skipn g x))).
    { unfold g in *. rewrite !bl'_length; auto. }
    rewrite bitreverse_S.
    pose proof (bitreverse_range k (Z.of_nat i / 2)) as Hr. rewrite <- pow2_Z in Hr. fold g in Hr.
    destruct (Nat.Even_or_Odd i) as [[j Hj]|[j Hj]]; subst i.
    + destruct (nth_interleave d _ _ j Hl) as [E _]. rewrite E.
      unfold g in *. rewrite IH by (auto; lia).
      replace (Z.of_nat (2 * j) mod 2)%Z with 0%Z by (rewrite Nat2Z.inj_mul; change (Z.of_nat 2) with 2%Z; rewrite Z.mul_comm, Z_mod_mult; reflexivity).
      replace (Z.of_nat (2 * j) / 2)%Z with (Z.of_nat j) in * by (rewrite Nat2Z.inj_mul; change (Z.of_nat 2) with 2%Z; rewrite Z.mul_comm, Z_div_mult; lia).
      rewrite Z.mul_0_l, Z.add_0_l.
      rewrite <- (firstn_skipn (2 ^ k) x) at 2. rewrite app_nth1; [reflexivity|]. rewrite H1. lia.
    + destruct (nth_interleave d _ _ j Hl) as [_ E]. rewrite E.
      unfold g in *. rewrite IH by (auto; lia).
      replace (Z.of_nat (2 * j + 1) mod 2)%Z with 1%Z
        by (rewrite Nat2Z.inj_add, Nat2Z.inj_mul; change (Z.of_nat 2) with 2%Z; change (Z.of_nat 1) with 1%Z;
            rewrite Z.add_comm, Z.mul_comm, Z_mod_plus_full; reflexivity).
      replace (Z.of_nat (2 * j + 1) / 2)%Z with (Z.of_nat j) in *
        by (rewrite Nat2Z.inj_add, Nat2Z.inj_mul; change (Z.of_nat 2) with 2%Z; change (Z.of_nat 1) with 1%Z;
            rewrite Z.add_comm, Z.mul_comm, Z_div_plus_full by lia; reflexivity).
      rewrite Z.mul_1_l, <- pow2_Z.
      rewrite <- (firstn_skipn (2 ^ k) x) at 2. rewrite app_nth2; rewrite H1; [|lia].
      f_equal. lia.
Qed.

Lemma seq_shift_add : forall g n, map (fun i => g + i) (seq 0 n) = seq g n.
Proof.
  induction g; intros. - cbn. apply map_id.
  - rewrite <- seq_shift, <- IHg, map_map. reflexivity.
Qed.

Section R2.
  Context {T : Type} (F : Fops T).
  Hypothesis Fth : field_theory (f0 F) (f1 F) (fadd F) (fmul F) (fsub F) (fneg F) (fdiv F) (finv F) eq.
  Add Field Ff2 : Fth.
  Local Notation zero := (f0 F).
  Local Notation one := (f1 F).
  Local Notation add := (fadd F).
  Local Notation sub := (fsub F).
  Local Notation mul := (fmul F).
  Local Notation neg := (fneg F).
  Local Notation pw := (pown F).
  Local Notation ev := (eval F).

  (* omega is a primitive 2^k-th root of unity: omega^(2^(k-1)) = -1 (nothing to ask for k = 0) *)
  Definition prim_root (k : nat) (w : T) : Prop :=
    match k with O => True | S k' => pw w (2 ^ k') = neg one end.

  Lemma prim_root_sqr : forall k w, prim_root (S k) w -> prim_root k (mul w w).
  Proof.
    intros [|k] w H; cbn [prim_root] in *; [exact I|].
    rewrite (pown_sqr F Fth). rewrite <- pow2_S. exact H.
  Qed.

  Lemma derange_bl' : forall k x, length x = 2 ^ k -> derange F x k = bl' k x.
  Proof.
    intros k x H. unfold derange, gather.
    rewrite (as_map_nth zero (bl' k x) (length x)) by (rewrite bl'_length; auto).
    apply map_ext_in. intros i Hi. apply in_seq in Hi.
    rewrite nth_bl' by lia. f_equal. f_equal.
    unfold bitrev. destruct k; [|reflexivity].
    cbn in H. assert (i = 0) by lia. subst i. reflexivity.
  Qed.
  Lemma derange_bl : forall k x, length x = 2 ^ k -> derange F x k = bl k x.
  Proof. intros. rewrite derange_bl', bl_eq_bl'; auto. Qed.

  Lemma dft_one : forall w a, dft F 1 w [a] = [a].
  Proof. intros. cbn. f_equal. ring. Qed.

  Lemma io_aux_length : forall k w x, length x = 2 ^ k -> length (io_aux F k w x) = 2 ^ k.
  Proof.
    induction k as [|k IH]; intros w x H; [exact H|].
    rewrite pow2_S in H. cbn [io_aux]. unfold bfly_io_lo, bfly_io_hi.
    rewrite app_length, !IH; rewrite ?pow2_S; try lia;
      rewrite ?zipw_length, ?(powers_length F Fth), ?firstn_length, ?skipn_length; lia.
  Qed.

  (* THE decimation-in-frequency theorem: io butterflies give the DFT in bit-reversed order *)
  Lemma io_aux_spec : forall k w x, length x = 2 ^ k -> prim_root k w ->
    io_aux F k w x = bl k (dft F (2 ^ k) w x).
  Proof.
    induction k as [|k IH]; intros w x H Hw.
    - destruct x as [|a [|]]; cbn in H; try lia. cbn [io_aux bl Nat.pow]. now rewrite dft_one.
    - rewrite pow2_S in H. cbn [prim_root] in Hw. cbn [io_aux bl].
      set (g := 2 ^ k) in *.
      assert (H1 : length (firstn g x) = g) by (rewrite firstn_length; lia).
      assert (H2 : length (skipn g x) = g) by (rewrite skipn_length; lia).
      assert (Hx : x = firstn g x ++ skipn g x) by (symmetry; apply firstn_skipn).
      set (lo := firstn g x) in *. set (hi := skipn g x) in *.
      unfold bfly_io_lo, bfly_io_hi.
      rewrite !IH; try (apply prim_root_sqr; exact Hw);
        try (rewrite ?zipw_length, ?(powers_length F Fth); fold g; lia).
      f_equal; f_equal.
      + unfold dft. rewrite pow2_S. fold g. rewrite evens_map_seq. apply map_ext. intros i.
        rewrite Nat.add_0_l, Hx. symmetry. now apply (dif_even F Fth g).
      + unfold dft. rewrite pow2_S. fold g. rewrite odds_map_seq. apply map_ext. intros i.
        rewrite Nat.add_0_l, Hx. symmetry. now apply (dif_odd F Fth g).
  Qed.

  (* THE decimation-in-time theorem: oi butterflies on bit-reversed input give the DFT in order *)
  Lemma oi_aux_spec : forall k w c, length c = 2 ^ k -> prim_root k w ->
    oi_aux F k 0 w (bl k c) = dft F (2 ^ k) w c.
  Proof.
    induction k as [|k IH]; intros w c H Hw.
    - destruct c as [|a [|]]; cbn in H; try lia. cbn [oi_aux bl Nat.pow]. now rewrite dft_one.
    - rewrite pow2_S in H. destruct (evens_odds_length _ _ H) as [He Ho].
      cbn [oi_aux bl Nat.leb]. set (g := 2 ^ k) in *.
      assert (L1 : length (bl k (evens c)) = g) by (apply bl_length; exact He).
      assert (Ef : firstn g (bl k (evens c) ++ bl k (odds c)) = bl k (evens c)).
      { rewrite <- L1. rewrite firstn_app, Nat.sub_diag, firstn_O, app_nil_r. apply firstn_all. }
      assert (Es : skipn g (bl k (evens c) ++ bl k (odds c)) = bl k (odds c)).
      { rewrite <- L1. rewrite skipn_app, Nat.sub_diag, skipn_O, skipn_all. reflexivity. }
      rewrite Ef, Es.
      rewrite !IH by (auto using prim_root_sqr).
      cbn [prim_root] in Hw. fold g in Hw.
      unfold dft. fold g. rewrite (powers_spec F Fth).
      rewrite pow2_S. fold g. replace (2 * g) with (g + g) by lia. rewrite seq_app, map_app. cbn [Nat.add].
      rewrite !zipw_map_map.
      f_equal.
      + apply map_ext. intros i.
        rewrite (eval_evens_odds F Fth c (pw w i)), <- (pown_mulbase F Fth). ring.
      + rewrite <- (seq_shift_add g). rewrite map_map. apply map_ext. intros i.
        rewrite (eval_evens_odds F Fth c (pw w (g + i))).
        rewrite <- (pown_mulbase F Fth w w (g + i)), !(pown_add F Fth), (pown_mulbase F Fth w w g), Hw.
        replace (mul (mul (neg one) (neg one)) (pw (mul w w) i)) with (pw (mul w w) i) by ring.
        ring.
  Qed.
End R2.

Section R2b.
  Context {T : Type} (F : Fops T).
  Hypothesis Fth : field_theory (f0 F) (f1 F) (fadd F) (fmul F) (fsub F) (fneg F) (fdiv F) (finv F) eq.
  Hypothesis feqb_ok : forall a b, feqb F a b = true <-> a = b.
  Add Field Ff3 : Fth.
  Local Notation zero := (f0 F).
  Local Notation one := (f1 F).
  Local Notation add := (fadd F).
  Local Notation sub := (fsub F).
  Local Notation mul := (fmul F).
  Local Notation neg := (fneg F).
  Local Notation pw := (pown F).
  Local Notation ev := (eval F).
  Local Notation two := (fadd F (f1 F) (f1 F)).

  Lemma dft_length : forall n w c, length (dft F n w c) = n.
  Proof. intros. unfold dft. now rewrite map_length, seq_length. Qed.

  Lemma distribute_length : forall c g k, length (distribute_powers_and_mul_by_const F c g k) = length c.
  Proof.
    intros. unfold distribute_powers_and_mul_by_const.
    rewrite zipw_length, (powers_length F Fth). lia.
  Qed.

  Lemma is_one_true : forall a, is_one F a = true -> a = one.
  Proof. intros a H. now apply feqb_ok. Qed.

  (* in_order_fft = values at offset * gen^i in domain order (subgroup and coset) *)
  Lemma in_order_fft_spec : forall k w h x, length x = 2 ^ k -> prim_root F k w ->
    in_order_fft F k w h x = dft_coset F (2 ^ k) h w x.
  Proof.
    intros k w h x H Hw. unfold in_order_fft.
    destruct (is_one F h) eqn:E.
    - apply is_one_true in E. subst h.
      rewrite derange_bl by (apply (io_aux_length F Fth); exact H).
      rewrite (io_aux_spec F Fth) by assumption.
      rewrite bl_involutive by (apply dft_length).
      unfold dft, dft_coset. apply map_ext. intros i. f_equal. ring.
    - unfold distribute_powers.
      rewrite derange_bl by (apply (io_aux_length F Fth); rewrite distribute_length; exact H).
      rewrite (io_aux_spec F Fth) by (rewrite ?distribute_length; assumption).
      rewrite bl_involutive by (apply dft_length).
      unfold dft, dft_coset. apply map_ext. intros i.
      rewrite (eval_distribute F Fth). ring.
  Qed.

  (* the oi butterflies with the inverse root undo the io butterflies up to the factor 2^k *)
  Lemma oi_io : forall k w w' x, length x = 2 ^ k -> mul w w' = one ->
    oi_aux F k 0 w' (io_aux F k w x) = map (mul (pw two k)) x.
  Proof.
    induction k as [|k IH]; intros w w' x H Hw.
    - cbn [oi_aux io_aux pown]. rewrite <- (map_id x) at 1. apply map_ext. intros; ring.
    - rewrite pow2_S in H. cbn [oi_aux io_aux Nat.leb]. set (g := 2 ^ k) in *.
      assert (H1 : length (firstn g x) = g) by (rewrite firstn_length; lia).
      assert (H2 : length (skipn g x) = g) by (rewrite skipn_length; lia).
      assert (Hx : x = firstn g x ++ skipn g x) by (symmetry; apply firstn_skipn).
      set (lo := firstn g x) in *. set (hi := skipn g x) in *.
      assert (Hw2 : mul (mul w w) (mul w' w') = one).
      { transitivity (mul (mul w w') (mul w w')); [ring | rewrite Hw; ring]. }
      assert (Ll : length (bfly_io_lo F lo hi) = g) by (unfold bfly_io_lo; rewrite zipw_length; lia).
      assert (Lh : length (bfly_io_hi F lo hi (powers F g w one)) = g)
        by (unfold bfly_io_hi; rewrite !zipw_length, (powers_length F Fth); lia).
      set (A := io_aux F k (mul w w) (bfly_io_lo F lo hi)).
      set (B := io_aux F k (mul w w) (bfly_io_hi F lo hi (powers F g w one))).
      assert (LA : length A = g) by (apply (io_aux_length F Fth); exact Ll).
      assert (Ef : firstn g (A ++ B) = A).
      { rewrite <- LA. rewrite firstn_app, Nat.sub_diag, firstn_O, app_nil_r. apply firstn_all. }
      assert (Es : skipn g (A ++ B) = B).
      { rewrite <- LA. rewrite skipn_app, Nat.sub_diag, skipn_O, skipn_all. reflexivity. }
      rewrite Ef, Es. unfold A, B. rewrite !(IH _ _ _) by assumption.
      unfold bfly_io_lo, bfly_io_hi.
      rewrite (as_map_nth zero lo g H1), (as_map_nth zero hi g H2) in Hx |- *.
      set (fl := fun i => nth i lo zero) in *. set (fh := fun i => nth i hi zero) in *.
      rewrite Hx at 1.
      rewrite !(powers_spec F Fth), !zipw_map_map, !map_map, !zipw_map_map, map_app, !map_map.
      assert (Hp : forall i, mul (pw w i) (pw w' i) = one).
      { intros i. rewrite <- (pown_mulbase F Fth), Hw. apply (pown_one F Fth). }
      f_equal; apply map_ext; intros i; cbn [pown]; specialize (Hp i);
        set (a := pw w i) in *; set (b := pw w' i) in *.
      + transitivity (add (mul (pw two k) (add (fl i) (fh i)))
                          (mul (mul (pw two k) (sub (fl i) (fh i))) (mul a b))); [ring|].
        rewrite Hp. ring.
      + transitivity (sub (mul (pw two k) (add (fl i) (fh i)))
                          (mul (mul (pw two k) (sub (fl i) (fh i))) (mul a b))); [ring|].
        rewrite Hp. ring.
  Qed.
End R2b.
