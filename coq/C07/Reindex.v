(* C07 proofs: reindex_by_subdomain (poly/src/domain/mod.rs).  G = self of size n*m, S = other of size n,
   period m = |G|/|S|.  Indices below |S| enumerate S inside G (multiples of m, in order); the remaining
   indices enumerate G \ S (the non-multiples of m) in increasing order; the whole map is a bijection of
   [0, |G|). *)
From V Require Import Base.Field C07.Dft C07.Radix2 C07.MixedRadix C07.Domain C07.Domain2 C07.DftProofs C07.Radix2Proofs C07.DomainProofs.
Require Import Lia ZArith Field Ring.
Local Open Scope Z_scope.

Section R.
  Context {T : Type}.
  Variables (d o : domain T) (n m : Z).
  Hypothesis Ho : d_size o = n.
  Hypothesis Hd : d_size d = n * m.
  Hypothesis Hn : 1 <= n.
  Hypothesis Hm : 1 <= m.

  Lemma period_eq : d_size d / d_size o = m.
  Proof. rewrite Hd, Ho, Z.mul_comm. apply Z.div_mul. lia. Qed.

  Lemma guards : (d_size d <? d_size o) = false /\ (d_size o =? 0) = false.
  Proof. rewrite Hd, Ho. split; [apply Z.ltb_ge; nia | apply Z.eqb_neq; lia]. Qed.

  (* indices of S: the i-th element of S sits at position i * |G|/|S| of G *)
  Lemma reindex_low : forall i, 0 <= i < n ->
    reindex_by_subdomain d o i = Some (i * m).
  Proof.
    intros i Hi. unfold reindex_by_subdomain. destruct guards as [-> ->].
    rewrite period_eq, Ho. destruct (Z.ltb_spec i n); [reflexivity | lia].
  Qed.

  (* indices of G \ S: with k = i - |S| = q (m-1) + r, the image is q m + r + 1 *)
  Lemma reindex_high : forall i, n <= i < n * m ->
    let k := i - n in
    reindex_by_subdomain d o i = Some (k / (m - 1) * m + k mod (m - 1) + 1) /\
    0 <= k / (m - 1) < n /\ 0 <= k mod (m - 1) < m - 1.
  Proof.
    intros i Hi k. assert (Hm2 : 2 <= m) by nia.
    assert (Hk : 0 <= k < n * (m - 1)) by (unfold k; nia).
    pose proof (Z.div_mod k (m - 1) ltac:(lia)) as Hdm.
    pose proof (Z.mod_pos_bound k (m - 1) ltac:(lia)) as Hr.
    assert (Hq : 0 <= k / (m - 1) < n).
    { split; [apply Z.div_pos; lia | apply Z.div_lt_upper_bound; nia]. }
    split; [| split; assumption].
    unfold reindex_by_subdomain. destruct guards as [-> ->].
    rewrite period_eq, Ho. destruct (Z.ltb_spec i n); [lia|].
    destruct (Z.eqb_spec (m - 1) 0); [lia|]. f_equal. fold k.
    set (q := k / (m - 1)) in *. set (r := k mod (m - 1)) in *. nia.
  Qed.

  Lemma reindex_high_range : forall i j, n <= i < n * m -> reindex_by_subdomain d o i = Some j ->
    0 <= j < n * m /\ j mod m <> 0 /\ j / m = (i - n) / (m - 1) /\ j mod m = (i - n) mod (m - 1) + 1.
  Proof.
    intros i j Hi Hj. destruct (reindex_high i Hi) as (E & Hq & Hr). rewrite E in Hj. inversion Hj; subst j; clear Hj E.
    set (q := (i - n) / (m - 1)) in *. set (r := (i - n) mod (m - 1)) in *.
    assert (Hmod : (q * m + r + 1) mod m = r + 1).
    { symmetry. apply (Z.mod_unique _ _ q); [lia | nia]. }
    assert (Hdiv : (q * m + r + 1) / m = q).
    { symmetry. apply (Z.div_unique _ _ q (r + 1)); [lia | nia]. }
    rewrite Hmod, Hdiv. repeat split; try lia; nia.
  Qed.

  (* total on [0, |G|) *)
  Lemma reindex_total : forall i, 0 <= i < n * m ->
    exists j, reindex_by_subdomain d o i = Some j /\ 0 <= j < n * m.
  Proof.
    intros i Hi. destruct (Z.lt_ge_cases i n) as [L|G].
    - exists (i * m). split; [apply reindex_low; lia | nia].
    - destruct (reindex_high i ltac:(lia)) as (E & _). eexists. split; [exact E|].
      apply (reindex_high_range i _ ltac:(lia) E).
  Qed.

  (* the images of the indices >= |S| increase with the index ... *)
  Lemma reindex_high_mono : forall i1 i2 j1 j2, n <= i1 -> i1 < i2 -> i2 < n * m ->
    reindex_by_subdomain d o i1 = Some j1 -> reindex_by_subdomain d o i2 = Some j2 -> j1 < j2.
  Proof.
    intros i1 i2 j1 j2 H1 H12 H2 E1 E2.
    destruct (reindex_high i1 ltac:(lia)) as (F1 & Hq1 & Hr1). destruct (reindex_high i2 ltac:(lia)) as (F2 & Hq2 & Hr2).
    rewrite F1 in E1. rewrite F2 in E2. inversion E1; inversion E2; subst j1 j2; clear E1 E2 F1 F2.
    assert (Hm2 : 2 <= m) by nia.
    pose proof (Z.div_mod (i1 - n) (m - 1) ltac:(lia)) as D1. pose proof (Z.div_mod (i2 - n) (m - 1) ltac:(lia)) as D2.
    assert (Hle : (i1 - n) / (m - 1) <= (i2 - n) / (m - 1)) by (apply Z.div_le_mono; lia).
    set (q1 := (i1 - n) / (m - 1)) in *. set (r1 := (i1 - n) mod (m - 1)) in *.
    set (q2 := (i2 - n) / (m - 1)) in *. set (r2 := (i2 - n) mod (m - 1)) in *.
    nia.
  Qed.

  (* ... and are exactly the indices that are not multiples of |G|/|S| *)
  Lemma reindex_high_onto : forall j, 0 <= j < n * m -> j mod m <> 0 ->
    exists i, n <= i < n * m /\ reindex_by_subdomain d o i = Some j.
  Proof.
    intros j Hj Hnz. assert (Hm2 : 2 <= m).
    { destruct (Z.eq_dec m 1) as [->|]; [rewrite Z.mod_1_r in Hnz; lia | lia]. }
    pose proof (Z.div_mod j m ltac:(lia)) as Dj. pose proof (Z.mod_pos_bound j m ltac:(lia)) as Rj.
    assert (Hq : 0 <= j / m < n) by (split; [apply Z.div_pos; lia | apply Z.div_lt_upper_bound; nia]).
    set (q := j / m) in *. set (s := j mod m) in *.
    exists (n + q * (m - 1) + (s - 1)). split; [nia|].
    destruct (reindex_high (n + q * (m - 1) + (s - 1)) ltac:(nia)) as (E & _). rewrite E. f_equal.
    replace (n + q * (m - 1) + (s - 1) - n) with (q * (m - 1) + (s - 1)) by lia.
    assert (Hd' : (q * (m - 1) + (s - 1)) / (m - 1) = q) by (symmetry; apply (Z.div_unique _ _ q (s - 1)); lia).
    assert (Hm' : (q * (m - 1) + (s - 1)) mod (m - 1) = s - 1) by (symmetry; apply (Z.mod_unique _ _ q); lia).
    rewrite Hd', Hm'. lia.
  Qed.

  (* bijection of [0, |G|) *)
  Lemma reindex_injective : forall i1 i2 j, 0 <= i1 < n * m -> 0 <= i2 < n * m ->
    reindex_by_subdomain d o i1 = Some j -> reindex_by_subdomain d o i2 = Some j -> i1 = i2.
  Proof.
    assert (W : forall i1 i2 j, 0 <= i1 < n * m -> 0 <= i2 < n * m -> i1 < i2 ->
      reindex_by_subdomain d o i1 = Some j -> reindex_by_subdomain d o i2 = Some j -> False).
    { intros i1 i2 j H1 H2 L E1 E2.
      destruct (Z.lt_ge_cases i2 n) as [L2|G2].
      - rewrite reindex_low in E1, E2 by lia. assert (i1 * m = i2 * m) by congruence. nia.
      - destruct (Z.lt_ge_cases i1 n) as [L1|G1].
        + rewrite reindex_low in E1 by lia. inversion E1; subst j.
          destruct (reindex_high_range i2 _ ltac:(lia) E2) as (_ & Hnz & _). apply Hnz. apply Z.mod_mul. lia.
        + pose proof (reindex_high_mono i1 i2 j j G1 L ltac:(lia) E1 E2). lia. }
    intros i1 i2 j H1 H2 E1 E2. destruct (Z.lt_trichotomy i1 i2) as [L|[E|L]]; [exfalso; eauto | exact E | exfalso; eauto].
  Qed.

  Lemma reindex_surjective : forall j, 0 <= j < n * m ->
    exists i, 0 <= i < n * m /\ reindex_by_subdomain d o i = Some j.
  Proof.
    intros j Hj. destruct (Z.eq_dec (j mod m) 0) as [E|NE].
    - exists (j / m). pose proof (Z.div_mod j m ltac:(lia)) as Dj. rewrite E in Dj.
      assert (Hq : 0 <= j / m < n) by (split; [apply Z.div_pos; lia | apply Z.div_lt_upper_bound; nia]).
      split; [nia|]. rewrite reindex_low by lia. f_equal. lia.
    - destruct (reindex_high_onto j Hj NE) as (i & Hi & E). exists i. split; [lia | exact E].
  Qed.
End R.

(* group meaning: if the generator of S is gen_G^(|G|/|S|) (what get_root_of_unity yields for the two
   sizes) and the offsets agree, the element of G at the re-indexed position is the i-th element of S *)
Section E.
  Context {T : Type} (F : Fops T).
  Hypothesis Fth : field_theory (f0 F) (f1 F) (fadd F) (fmul F) (fsub F) (fneg F) (fdiv F) (finv F) eq.
  Lemma reindex_element : forall g (i m : nat), pown F g (i * m) = pown F (pown F g m) i.
  Proof. intros. rewrite Nat.mul_comm. apply (pown_mul F Fth). Qed.
End E.

(* everything about the index map in one statement (pinned as C07_reindex_by_subdomain_spec) *)
Theorem reindex_by_subdomain_spec : forall T (d o : domain T) n m,
  d_size o = n -> d_size d = n * m -> 1 <= n -> 1 <= m ->
  (forall i, 0 <= i < n -> reindex_by_subdomain d o i = Some (i * m)) /\
  (forall i, n <= i < n * m ->
     exists j, reindex_by_subdomain d o i = Some j /\ 0 <= j < n * m /\ j mod m <> 0) /\
  (forall i1 i2 j1 j2, n <= i1 -> i1 < i2 -> i2 < n * m ->
     reindex_by_subdomain d o i1 = Some j1 -> reindex_by_subdomain d o i2 = Some j2 -> j1 < j2) /\
  (forall j, 0 <= j < n * m -> j mod m <> 0 ->
     exists i, n <= i < n * m /\ reindex_by_subdomain d o i = Some j) /\
  (forall i1 i2 j, 0 <= i1 < n * m -> 0 <= i2 < n * m ->
     reindex_by_subdomain d o i1 = Some j -> reindex_by_subdomain d o i2 = Some j -> i1 = i2) /\
  (forall j, 0 <= j < n * m -> exists i, 0 <= i < n * m /\ reindex_by_subdomain d o i = Some j).
Proof.
  intros T d o n m Ho Hd Hn Hm. repeat split.
  - intros i Hi. now apply (reindex_low d o n m).
  - intros i Hi. destruct (reindex_total d o n m Ho Hd Hn Hm i ltac:(lia)) as (j & E & Hj).
    exists j. repeat split; try lia; try exact E.
    apply (reindex_high_range d o n m Ho Hd Hn Hm i j Hi E).
  - intros i1 i2 j1 j2. now apply (reindex_high_mono d o n m).
  - intros j. now apply (reindex_high_onto d o n m).
  - intros i1 i2 j. now apply (reindex_injective d o n m).
  - intros j. now apply (reindex_surjective d o n m).
Qed.

(* with the subdomain generated by gen_G^(|G|/|S|) and the same offset: G.element(reindex i) = S.element(i) *)
Section E2.
  Context {T : Type} (F : Fops T).
  Hypothesis Fth : field_theory (f0 F) (f1 F) (fadd F) (fmul F) (fsub F) (fneg F) (fdiv F) (finv F) eq.
  Hypothesis feqb_ok : forall a b, feqb F a b = true <-> a = b.
  Theorem reindex_element_eq : forall (d s : domain T) (i m : nat),
    d_gen s = pown F (d_gen d) m -> d_offset s = d_offset d ->
    element F d (Z.of_nat i * Z.of_nat m) = element F s (Z.of_nat i).
  Proof.
    intros d s i m Hg Hoff. rewrite <- Nat2Z.inj_mul.
    rewrite !(DomainProofs.element_spec F Fth feqb_ok), Hg, Hoff. f_equal. apply (reindex_element F Fth).
  Qed.
End E2.
