(* C07 proofs: the large-subgroup branch of FftField::get_root_of_unity
   (LARGE_SUBGROUP_ROOT_OF_UNITY = Some L, SMALL_SUBGROUP_BASE = Some q odd):
   for n = 2^a * q^b the result is L^(q^(qa-b) * 2^(S-a)), an n-th root of unity of exact
   2-part order when L has order 2^S * q^qa. *)
From V Require Import Base.Field C07.Dft C07.Radix2 C07.MixedRadix C07.Domain
  C07.DftProofs C07.Radix2Proofs C07.DomainProofs C07.NewProofs C07.KAdicity.
Require Import ZArith Lia Field Ring.
Local Open Scope Z_scope.

Section RL.
  Context {T : Type} (F : Fops T).
  Hypothesis Fth : field_theory (f0 F) (f1 F) (fadd F) (fmul F) (fsub F) (fneg F) (fdiv F) (finv F) eq.
  Add Field Ff8 : Fth.
  Local Notation zero := (f0 F).
  Local Notation one := (f1 F).
  Local Notation mul := (fmul F).
  Local Notation neg := (fneg F).
  Local Notation pw := (pown F).

  Lemma powq_iter_nat : forall n (qn : nat) x,
    powq_iter F n (Z.of_nat qn) x = pw x (qn ^ n)%nat.
  Proof.
    induction n as [|n IH]; intros qn x.
    - cbn. ring.
    - change (powq_iter F (S n) (Z.of_nat qn) x)
        with (fpow F (powq_iter F n (Z.of_nat qn) x) (Z.of_nat qn)).
      rewrite IH, (fpow_spec F Fth), <- (pown_mul F Fth).
      f_equal. cbn [Nat.pow]. apply Nat.mul_comm.
  Qed.
  Lemma powq_iter_spec : forall n q x, 0 <= q ->
    powq_iter F n q x = pw x (Z.to_nat q ^ n)%nat.
  Proof.
    intros n q x Hq. rewrite <- (powq_iter_nat n (Z.to_nat q) x).
    now rewrite Z2Nat.id by exact Hq.
  Qed.

  (* the value returned for n = 2^a * q^b *)
  Theorem get_root_large_spec : forall (c : fftcfg T) L q qa a b,
    c_large_root c = Some L -> c_small_base c = Some q -> c_small_adicity c = Some qa ->
    3 <= q -> Z.odd q = true ->
    0 <= a <= c_two_adicity c -> 0 <= b <= qa ->
    get_root_of_unity F c (2 ^ a * q ^ b) =
      RSome (pw L (Z.to_nat (q ^ (qa - b) * 2 ^ (c_two_adicity c - a)))).
  Proof.
    intros c L q qa a b HL Hq Hqa Hq3 Hodd Ha Hb.
    unfold get_root_of_unity. rewrite HL, Hq, Hqa.
    rewrite k_adicity_q_part', k_adicity_two_part by (try assumption; lia).
    rewrite Z.eqb_refl. cbn [negb orb].
    destruct (Z.ltb_spec (c_two_adicity c) a) as [Hlt|_]; [lia|].
    destruct (Z.ltb_spec qa b) as [Hlt|_]; [lia|].
    cbn [orb]. f_equal.
    rewrite (sqr_iter_spec F Fth), powq_iter_spec by lia.
    rewrite <- (pown_mul F Fth). f_equal.
    assert (Hp1 : 0 <= q ^ (qa - b)) by (apply Z.pow_nonneg; lia).
    assert (Hp2 : 0 <= 2 ^ (c_two_adicity c - a)) by (apply Z.pow_nonneg; lia).
    rewrite Z2Nat.inj_mul, !Z2Nat.inj_pow by lia.
    reflexivity.
  Qed.

  (* converse: Some only for sizes 2^a * q^b within the configured adicities *)
  Theorem get_root_large_inv : forall (c : fftcfg T) L q qa n w,
    c_large_root c = Some L -> c_small_base c = Some q -> c_small_adicity c = Some qa ->
    get_root_of_unity F c n = RSome w ->
    exists a b, 0 <= a <= c_two_adicity c /\ 0 <= b <= qa /\ n = 2 ^ a * q ^ b.
  Proof.
    intros c L q qa n w HL Hq Hqa H.
    unfold get_root_of_unity in H. rewrite HL, Hq, Hqa in H.
    destruct (Z.eqb_spec n (2 ^ k_adicity 2 n * q ^ k_adicity q n)) as [En|]; [|discriminate].
    cbn [negb orb] in H.
    destruct (Z.ltb_spec (c_two_adicity c) (k_adicity 2 n)) as [|H2]; [discriminate|].
    destruct (Z.ltb_spec qa (k_adicity q n)) as [|Hq2]; [discriminate|].
    assert (K0 : forall k, k_adicity k 0 = 0) by (intros k; reflexivity).
    assert (Hnn : 0 <= k_adicity 2 n /\ 0 <= k_adicity q n).
    { destruct (Z.neg_nonneg_cases (k_adicity 2 n)) as [N2|P2].
      - rewrite (Z.pow_neg_r 2 _ N2), Z.mul_0_l in En. subst n. rewrite K0 in N2. lia.
      - destruct (Z.neg_nonneg_cases (k_adicity q n)) as [Nq|Pq]; [|lia].
        rewrite (Z.pow_neg_r q _ Nq), Z.mul_0_r in En. subst n. rewrite K0 in Nq. lia. }
    exists (k_adicity 2 n), (k_adicity q n). repeat split; first [exact En | lia].
  Qed.

  (* the result is an n-th root of unity when L^(2^S * q^qa) = 1 *)
  Theorem get_root_large_pow_n : forall (c : fftcfg T) L q qa a b w,
    c_large_root c = Some L -> c_small_base c = Some q -> c_small_adicity c = Some qa ->
    3 <= q -> Z.odd q = true ->
    0 <= a <= c_two_adicity c -> 0 <= b <= qa ->
    pw L (Z.to_nat (2 ^ c_two_adicity c * q ^ qa)) = one ->
    get_root_of_unity F c (2 ^ a * q ^ b) = RSome w ->
    pw w (Z.to_nat (2 ^ a * q ^ b)) = one.
  Proof.
    intros c L q qa a b w HL Hq Hqa Hq3 Hodd Ha Hb HLord H.
    rewrite (get_root_large_spec c L q qa a b) in H by assumption.
    inversion H; subst w; clear H.
    rewrite <- (pown_mul F Fth).
    assert (Hp1 : 0 <= q ^ (qa - b)) by (apply Z.pow_nonneg; lia).
    assert (Hp2 : 0 <= 2 ^ (c_two_adicity c - a)) by (apply Z.pow_nonneg; lia).
    assert (Hp3 : 0 <= q ^ b) by (apply Z.pow_nonneg; lia).
    assert (Hp4 : 0 <= 2 ^ a) by (apply Z.pow_nonneg; lia).
    rewrite <- Z2Nat.inj_mul by nia.
    rewrite <- HLord. f_equal. f_equal.
    replace (c_two_adicity c) with ((c_two_adicity c - a) + a) at 2 by lia.
    replace qa with ((qa - b) + b) at 2 by lia.
    rewrite !Z.pow_add_r by lia. ring.
  Qed.

  (* ... of exact 2-part order: w^(n/2) = -1 when L^(2^(S-1) * q^qa) = -1 and n is even *)
  Theorem get_root_large_pow_half : forall (c : fftcfg T) L q qa a b w,
    c_large_root c = Some L -> c_small_base c = Some q -> c_small_adicity c = Some qa ->
    3 <= q -> Z.odd q = true ->
    1 <= a <= c_two_adicity c -> 0 <= b <= qa ->
    pw L (Z.to_nat (2 ^ (c_two_adicity c - 1) * q ^ qa)) = neg one ->
    get_root_of_unity F c (2 ^ a * q ^ b) = RSome w ->
    pw w (Z.to_nat (2 ^ a * q ^ b / 2)) = neg one.
  Proof.
    intros c L q qa a b w HL Hq Hqa Hq3 Hodd Ha Hb HLord H.
    rewrite (get_root_large_spec c L q qa a b) in H by (try assumption; lia).
    inversion H; subst w; clear H.
    assert (Hhalf : 2 ^ a * q ^ b / 2 = 2 ^ (a - 1) * q ^ b).
    { replace a with (Z.succ (a - 1)) at 1 by lia. rewrite Z.pow_succ_r by lia.
      replace (2 * 2 ^ (a - 1) * q ^ b) with (2 ^ (a - 1) * q ^ b * 2) by ring.
      apply Z.div_mul. lia. }
    rewrite Hhalf.
    rewrite <- (pown_mul F Fth).
    assert (Hp1 : 0 <= q ^ (qa - b)) by (apply Z.pow_nonneg; lia).
    assert (Hp2 : 0 <= 2 ^ (c_two_adicity c - a)) by (apply Z.pow_nonneg; lia).
    assert (Hp3 : 0 <= q ^ b) by (apply Z.pow_nonneg; lia).
    assert (Hp4 : 0 <= 2 ^ (a - 1)) by (apply Z.pow_nonneg; lia).
    rewrite <- Z2Nat.inj_mul by nia.
    rewrite <- HLord. f_equal. f_equal.
    replace (c_two_adicity c - 1) with ((c_two_adicity c - a) + (a - 1)) by lia.
    replace qa with ((qa - b) + b) at 2 by lia.
    rewrite !Z.pow_add_r by lia. ring.
  Qed.
End RL.

(* Z_13: 13 - 1 = 2^2 * 3, L = 2 generates the whole group (order 12); n = 2 * 3 = 6 *)
Example get_root_large_ex :
  get_root_of_unity (ZpOps 13) (mkCfg 2 5 (Some 3) (Some 1) (Some 2)) 6 = RSome 4.
Proof. vm_compute. reflexivity. Qed.
Example get_root_large_ex_hyps :
  pown (ZpOps 13) 2 (Z.to_nat (2 ^ 2 * 3 ^ 1)) = 1 /\
  pown (ZpOps 13) 2 (Z.to_nat (2 ^ (2 - 1) * 3 ^ 1)) = fneg (ZpOps 13) 1 /\
  pown (ZpOps 13) 4 (Z.to_nat 6) = 1 /\ pown (ZpOps 13) 4 (Z.to_nat (6 / 2)) = 12.
Proof. vm_compute. repeat split; reflexivity. Qed.
Example get_root_large_ex_none :
  get_root_of_unity (ZpOps 13) (mkCfg 2 5 (Some 3) (Some 1) (Some 2)) 5 = RNone.
Proof. vm_compute. reflexivity. Qed.
