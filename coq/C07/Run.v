(* Uniform case interpreter for the C07 model.
   args: a0 = [cfg_id] (ignored: the model gets the field through a1, a2)
         a1 = [p]
         a2 = [TWO_ADICITY; TWO_ADIC_ROOT_OF_UNITY; SMALL_SUBGROUP_BASE (0 = None);
               SMALL_SUBGROUP_BASE_ADICITY; LARGE_SUBGROUP_ROOT_OF_UNITY]
         a3 = [kind; num_coeffs]   kind 0 = Radix2, 1 = MixedRadix, 2 = General   ([n] for op 2)
         a4 = [] (subgroup domain) | [offset] (get_coset)
         a5 = coefficients / evaluations / [tau] / [i]
              reindex: [num_coeffs of the subdomain; index ...] (no index = every index of the domain)
              filter: [num_coeffs of the subdomain; offset of the subdomain; tau]
              mul_evals: x ++ y; sample_outside: [seed (harness only); candidate draws (model only) ...]
              distribute: [g; c; coeffs ...]; bitrev_perm: [width; data ...]
   status: [0] ok, [1;0] constructor returned None, [1;1] get_coset returned None,
           [1;2] / [1;3] the same for the subdomain, [2] panic *)
From V Require Import Base.Field C07.Dft C07.Radix2 C07.MixedRadix C07.Domain C07.Domain2.

Definition ok (r : list (list Z)) : list (list Z) := [0] :: r.
Definition err (k : Z) : list (list Z) := [[1; k]].
Definition panic : list (list Z) := [[2]].
Definition unsupported : list (list Z) := [[9]].

Definition arg (n : nat) (a : list (list Z)) : list Z := nth n a [].
Definition arg0 (n : nat) (a : list (list Z)) : Z := hd 0 (arg n a).

Definition mk_cfg (p : Z) (c : list Z) : fftcfg Z :=
  let q := nth 2 c 0 in
  mkCfg (nth 0 c 0) (nth 1 c 0 mod p)
        (if q =? 0 then None else Some q)
        (if q =? 0 then None else Some (nth 3 c 0))
        (if q =? 0 then None else Some (nth 4 c 0 mod p)).

Definition new_kind (F : Fops Z) (c : fftcfg Z) (kind n : Z) : res (domain Z) :=
  match kind with
  | 0 => radix2_new F c n
  | 1 => mixed_new F c n
  | _ => general_new F c n
  end.

Definition size_kind (F : Fops Z) (c : fftcfg Z) (kind n : Z) : res Z :=
  match kind with
  | 0 => match radix2_compute_size c n with Some s => RSome s | None => RNone end
  | 1 => mixed_compute_size c n
  | _ => general_compute_size c n
  end.

Definition dom_list (d : domain Z) : list Z :=
  [Z.b2z (d_mixed d); d_size d; d_log d; d_size_fe d; d_size_inv d; d_gen d; d_gen_inv d;
   d_offset d; d_offset_inv d; d_offset_pow_size d].

(* run f on the domain described by a3/a4 *)
Definition with_domain (F : Fops Z) (p : Z) (c : fftcfg Z) (a : list (list Z))
    (f : domain Z -> list (list Z)) : list (list Z) :=
  match new_kind F c (nth 0 (arg 3 a) 0) (nth 1 (arg 3 a) 0) with
  | RNone => err 0
  | RPanic => panic
  | RSome d =>
      (* a4 = [h1; h2; ...]: new(n).get_coset(h1).get_coset(h2)... (each get_coset REPLACES the offset; a chain must
         leave no stale offset_inv / offset_pow_size behind) *)
      match fold_left (fun (o : option (domain Z)) h => match o with Some d0 => get_coset F d0 (h mod p) | None => None end)
                      (arg 4 a) (Some d) with
      | None => err 1
      | Some d' => f d'
      end
  end.

Definition opt_out (o : option (list Z)) : list (list Z) :=
  match o with Some l => ok [l] | None => panic end.

(* run f on the subdomain new(n) of the same kind, moved to the coset `off` when given *)
Definition with_sub (F : Fops Z) (p : Z) (c : fftcfg Z) (a : list (list Z)) (n : Z) (off : list Z)
    (f : domain Z -> list (list Z)) : list (list Z) :=
  match new_kind F c (nth 0 (arg 3 a) 0) n with
  | RNone => err 2
  | RPanic => panic
  | RSome s =>
      match off with
      | [] => f s
      | h :: _ => match get_coset F s (h mod p) with
                  | None => err 3
                  | Some s' => f s'
                  end
      end
  end.

Definition is_none {A} (o : option A) : bool := match o with None => true | Some _ => false end.
Definition some_or0 (o : option Z) : Z := match o with Some v => v | None => 0 end.

Definition run_reindex (F : Fops Z) (d s : domain Z) (l : list Z) : list (list Z) :=
  let idx := match l with [] => map Z.of_nat (seq 0 (Z.to_nat (d_size d))) | _ => l end in
  let r := map (reindex_by_subdomain d s) idx in
  if existsb is_none r then panic else
  let low := filter (fun i => i <? d_size s) idx in
  ok [map some_or0 r;
      map (fun i => element F d (some_or0 (reindex_by_subdomain d s i))) low;
      map (element F s) low].

Definition run_C07 (op : Z) (a : list (list Z)) : list (list Z) :=
  let p := arg0 1 a in
  let F := ZpOps p in
  let c := mk_cfg p (arg 2 a) in
  let q := nth 2 (arg 2 a) 0 in
  let data := map (fun x => x mod p) (arg 5 a) in
  match op with
  | 1 => ok [[p]; arg 2 a]
  | 2 => match get_root_of_unity F c (arg0 3 a) with
         | RSome w => ok [[w]] | RNone => err 0 | RPanic => panic end
  | 3 => with_domain F p c a (fun d => ok [dom_list d])
  | 4 => match size_kind F c (nth 0 (arg 3 a) 0) (nth 1 (arg 3 a) 0) with
         | RSome s => ok [[s]] | RNone => err 0 | RPanic => panic end
  | 6 => with_domain F p c a (fun d => opt_out (domain_fft F q d data))
  | 7 => with_domain F p c a (fun d => opt_out (domain_ifft F q d data))
  | 8 => with_domain F p c a (fun d => ok [[element F d (arg0 5 a)]])
  | 9 => with_domain F p c a (fun d => ok [elements F d])
  | 10 => with_domain F p c a (fun d =>
            ok [[evaluate_vanishing_polynomial F d (hd 0 data)];
                flat_map (fun '(e, v) => [e; v]) (vanishing_polynomial F d)])
  | 11 => with_domain F p c a (fun d => ok [evaluate_all_lagrange_coefficients F d (hd 0 data)])
  | 12 => with_domain F p c a (fun d => opt_out (interpolate F q d data))
  | 13 => with_domain F p c a (fun d => ok [naive_fft F d data])
  | 14 => with_domain F p c a (fun d => with_sub F p c a (arg0 5 a) (arg 4 a) (fun s =>
            run_reindex F d s (tl (arg 5 a))))
  | 15 => with_domain F p c a (fun d => with_sub F p c a (arg0 5 a) [nth 1 (arg 5 a) 0] (fun s =>
            let tau := nth 2 data 0 in
            match filter_polynomial F d s with
            | None => panic
            | Some q => ok [[evaluate_filter_polynomial F d s tau]; q; [eval F q tau]]
            end))
  | 16 => with_domain F p c a (fun d =>
            let h := Nat.div2 (length data) in
            opt_out (mul_polynomials_in_evaluation_domain F (firstn h data) (skipn h data)))
  | 17 => with_domain F p c a (fun d =>
            match sample_element_outside_domain F d (tl data) with
            | None => unsupported
            | Some t => ok [[Z.b2z (in_domain F d t); Z.b2z (fis0 F (evaluate_vanishing_polynomial F d t))]]
            end)
  | 18 => with_domain F p c a (fun d =>
            let g := nth 0 data 0 in let k := nth 1 data 0 in let cs := skipn 2 data in
            ok [distribute_powers F cs g; distribute_powers_and_mul_by_const F cs g k])
  | 19 => ok [bitreverse_permutation F (tl data) (Z.to_nat (arg0 5 a))]
  | _ => unsupported
  end.
