(* C08 proofs, part 0: specification predicates (canonical forms) and the lemmas shared by
   all proof files: evaluation of the list helpers, truncation, degree, scatter. *)
From V Require Import Base.Field C08.Model.
Require Import Lia Field Ring.

Section Common.
  Context {K : Type} (F : Fops K).
  Local Notation zero := (f0 F).
  Local Notation one := (f1 F).
  Local Notation add := (fadd F).
  Local Notation sub := (fsub F).
  Local Notation mul := (fmul F).
  Local Notation neg := (fneg F).
  Local Notation inv := (finv F).
  Local Notation is0 := (is0 F).
  Local Notation eval := (eval F).
  Local Notation seval := (seval F).
  Local Notation pown := (pown F).
  Local Notation trunc := (trunc F).

  Hypothesis Fth : field_theory zero one add mul sub neg (fun a b => mul a (inv b)) inv eq.
  Hypothesis eqb_ok : forall a b, feqb F a b = true <-> a = b.
  Add Field KF : Fth.

  (* ---------------- canonical forms (the SPEC side) ---------------- *)

  (* dense: empty or last coefficient non-zero *)
  Definition canon (p : list K) : Prop := p = [] \/ last p zero <> zero.

  (* sparse: degrees >= lo, strictly ascending, coefficients non-zero *)
  Fixpoint sorted_from (lo : nat) (s : list (nat * K)) : Prop :=
    match s with
    | [] => True
    | t :: r => (lo <= fst t)%nat /\ snd t <> zero /\ sorted_from (S (fst t)) r
    end.
  Definition scanon (s : list (nat * K)) : Prop := sorted_from O s.

  (* "r is Ok, canonical, and evaluates to f everywhere" *)
  Definition okd (r : res (list K)) (f : K -> K) : Prop :=
    exists v, r = ROk v /\ canon v /\ forall x, eval v x = f x.
  Definition oks (r : res (list (nat * K))) (f : K -> K) : Prop :=
    exists v, r = ROk v /\ scanon v /\ forall x, seval v x = f x.

  (* ---------------- is0 ---------------- *)

  Lemma is0_true : forall c, is0 c = true <-> c = zero.
  Proof. intro c. unfold Model.is0. apply eqb_ok. Qed.
  Lemma is0_false : forall c, is0 c = false <-> c <> zero.
  Proof.
    intro c. split.
    - intros H E. apply is0_true in E. congruence.
    - intro H. destruct (is0 c) eqn:E; [apply is0_true in E; contradiction | reflexivity].
  Qed.
  Lemma is0_zero : is0 zero = true.
  Proof. apply is0_true. reflexivity. Qed.

  Lemma one_neq_zero : one <> zero.
  Proof. exact (F_1_neq_0 Fth). Qed.

  Lemma mul_eq_zero : forall a b, mul a b = zero -> a = zero \/ b = zero.
  Proof.
    intros a b H. destruct (is0 a) eqn:Ea.
    - left. apply is0_true. exact Ea.
    - right. apply is0_false in Ea.
      assert (E : b = mul (mul a b) (inv a)) by (field; exact Ea).
      rewrite E, H. ring.
  Qed.
  Lemma mul_neq_zero : forall a b, a <> zero -> b <> zero -> mul a b <> zero.
  Proof. intros a b Ha Hb H. destruct (mul_eq_zero _ _ H); contradiction. Qed.
  Lemma neg_neq_zero : forall a, a <> zero -> neg a <> zero.
  Proof. intros a Ha H. apply Ha. transitivity (neg (neg a)); [ring | rewrite H; ring]. Qed.

  (* ---------------- eval ---------------- *)

  Lemma eval_app : forall a b x, eval (a ++ b) x = add (eval a x) (mul (pown x (length a)) (eval b x)).
  Proof. induction a as [|c a IH]; intros b x; simpl; [ring | rewrite IH; ring]. Qed.

  Lemma eval_repeat_zero : forall n x, eval (repeat zero n) x = zero.
  Proof. induction n as [|n IH]; intro x; simpl; [reflexivity | rewrite IH; ring]. Qed.

  Lemma eval_map_mul : forall c p x, eval (map (mul c) p) x = mul c (eval p x).
  Proof. induction p as [|a p IH]; intro x; simpl; [ring | rewrite IH; ring]. Qed.
  Lemma eval_map_mulr : forall c p x, eval (map (fun a => mul a c) p) x = mul (eval p x) c.
  Proof. induction p as [|a p IH]; intro x; simpl; [ring | rewrite IH; ring]. Qed.
  Lemma eval_map_neg : forall p x, eval (map neg p) x = neg (eval p x).
  Proof. induction p as [|a p IH]; intro x; simpl; [ring | rewrite IH; ring]. Qed.

  Lemma horner_eval : forall p x, horner F p x = eval p x.
  Proof. induction p as [|c p IH]; intro x; [reflexivity | ]. unfold horner in *. simpl. rewrite IH. ring. Qed.

  Lemma pown_add : forall x a b, pown x (a + b) = mul (pown x a) (pown x b).
  Proof. induction a as [|a IH]; intro b; simpl; [ring | rewrite IH; ring]. Qed.
  Lemma pown_mul : forall x a b, pown x (a * b) = pown (pown x a) b.
  Proof.
    intros x a b. induction b as [|b IH]; simpl.
    - rewrite Nat.mul_0_r. reflexivity.
    - replace (a * S b)%nat with (a + a * b)%nat by lia. rewrite pown_add, IH. reflexivity.
  Qed.
  Lemma pown_neq_zero : forall x n, x <> zero -> pown x n <> zero.
  Proof. induction n as [|n IH]; intro Hx; simpl; [exact one_neq_zero | apply mul_neq_zero; auto]. Qed.

  (* ---------------- is_zero, canon, degree ---------------- *)

  Lemma d_is_zero_eval : forall p, d_is_zero F p = true -> forall x, eval p x = zero.
  Proof.
    induction p as [|c p IH]; intros H x; simpl; [reflexivity | ].
    simpl in H. apply andb_prop in H. destruct H as [Hc Hp].
    apply is0_true in Hc. rewrite (IH Hp x), Hc. ring.
  Qed.

  Lemma d_is_zero_last : forall p, d_is_zero F p = true -> last p zero = zero.
  Proof.
    induction p as [|c p IH]; intro H; [reflexivity | ].
    simpl in H. apply andb_prop in H. destruct H as [Hc Hp].
    destruct p as [|c' p]; [apply is0_true; exact Hc | ].
    change (last (c :: c' :: p) zero) with (last (c' :: p) zero). apply IH. exact Hp.
  Qed.

  Lemma canon_zero_nil : forall p, canon p -> d_is_zero F p = true -> p = [].
  Proof. intros p [H | H] Hz; [exact H | ]. apply d_is_zero_last in Hz. contradiction. Qed.

  Lemma canon_nil : canon [].
  Proof. left. reflexivity. Qed.

  Lemma canon_cons_nonzero : forall p, canon p -> p <> [] -> d_is_zero F p = false.
  Proof.
    intros p Hc Hn. destruct (d_is_zero F p) eqn:E; [ | reflexivity].
    exfalso. apply Hn. apply canon_zero_nil; assumption.
  Qed.

  Lemma d_degree_nonzero : forall p, canon p -> d_is_zero F p = false ->
    d_degree F p = ROk (pred (length p)).
  Proof.
    intros p Hc Hz. unfold d_degree. rewrite Hz.
    destruct Hc as [Hc | Hc]; [subst; discriminate | ].
    apply is0_false in Hc. rewrite Hc. reflexivity.
  Qed.

  (* `degree()` never panics on a canonical polynomial *)
  Lemma d_degree_ok : forall p, canon p -> exists d, d_degree F p = ROk d.
  Proof.
    intros p Hc. destruct (d_is_zero F p) eqn:Hz.
    - exists O. unfold d_degree. rewrite Hz. reflexivity.
    - eexists. apply d_degree_nonzero; assumption.
  Qed.

  (* whenever degree() succeeds on a non-zero polynomial, it is len - 1 *)
  Lemma d_degree_len : forall p d, d_is_zero F p = false -> d_degree F p = ROk d ->
    d = pred (length p) /\ last p zero <> zero /\ p <> [].
  Proof.
    intros p d Hz H. unfold d_degree in H. rewrite Hz in H.
    destruct (is0 (last p zero)) eqn:E; [discriminate | ].
    injection H as <-. split; [reflexivity | ]. split; [apply is0_false; exact E | ].
    intro; subst; discriminate.
  Qed.

  (* ---------------- trunc ---------------- *)

  Lemma trunc_eval : forall p x, eval (trunc p) x = eval p x.
  Proof.
    induction p as [|c p IH]; intro x; [reflexivity | ].
    simpl. specialize (IH x). destruct (trunc p) as [|c' t'] eqn:E.
    - simpl in IH. destruct (is0 c) eqn:Ec.
      + apply is0_true in Ec. subst. simpl. rewrite <- IH. ring.
      + simpl. rewrite <- IH. reflexivity.
    - simpl in *. rewrite IH. reflexivity.
  Qed.

  Lemma trunc_canon : forall p, canon (trunc p).
  Proof.
    induction p as [|c p IH]; [left; reflexivity | ].
    simpl. destruct (trunc p) as [|c' t'] eqn:E.
    - destruct (is0 c) eqn:Ec; [left; reflexivity | ].
      right. simpl. apply is0_false. exact Ec.
    - right. destruct IH as [IH | IH]; [discriminate | exact IH].
  Qed.

  Lemma trunc_id : forall p, canon p -> trunc p = p.
  Proof.
    induction p as [|c p IH]; intro Hc; [reflexivity | ].
    simpl. destruct p as [|c' p].
    - simpl. destruct Hc as [Hc | Hc]; [discriminate | ].
      simpl in Hc. apply is0_false in Hc. rewrite Hc. reflexivity.
    - assert (Hc' : canon (c' :: p)).
      { destruct Hc as [Hc | Hc]; [discriminate | right; exact Hc]. }
      rewrite (IH Hc'). reflexivity.
  Qed.

  Lemma trunc_length : forall p, (length (trunc p) <= length p)%nat.
  Proof.
    induction p as [|c p IH]; [simpl; lia | ].
    simpl. destruct (trunc p) as [|c' t'].
    - destruct (is0 c); simpl; lia.
    - simpl in *. lia.
  Qed.

  Lemma d_from_vec_ok : forall p, d_from_vec F p = ROk (trunc p).
  Proof.
    intro p. unfold d_from_vec. destruct (trunc_canon p) as [H | H].
    - rewrite H. reflexivity.
    - destruct (trunc p) as [|c t] eqn:E; [reflexivity | ].
      apply is0_false in H. rewrite H. reflexivity.
  Qed.

  Lemma okd_trunc : forall p f, (forall x, eval p x = f x) -> okd (ROk (trunc p)) f.
  Proof.
    intros p f H. exists (trunc p). split; [reflexivity | ]. split; [apply trunc_canon | ].
    intro x. rewrite trunc_eval. apply H.
  Qed.

  Lemma okd_id : forall p f, canon p -> (forall x, eval p x = f x) -> okd (ROk p) f.
  Proof. intros p f Hc H. exists p. auto. Qed.

  (* ---------------- zip_into, resize ---------------- *)

  Lemma zip_into_length : forall (f : K -> K -> K) (a b : list K), length (zip_into f a b) = length a.
  Proof.
    induction a as [|x a IH]; intro b; [reflexivity | ].
    destruct b as [|y b]; [reflexivity | ]. simpl. rewrite IH. reflexivity.
  Qed.

  (* f u v = u + g v: zip_into adds the image of b, coefficient by coefficient *)
  Lemma zip_into_eval : forall (f : K -> K -> K) (g : K -> K),
    (forall u v, f u v = add u (g v)) ->
    forall a b x, (length b <= length a)%nat ->
    eval (zip_into f a b) x = add (eval a x) (eval (map g b) x).
  Proof.
    intros f g Hf. induction a as [|u a IH]; intros b x Hl.
    - destruct b; [simpl; ring | simpl in Hl; lia].
    - destruct b as [|v b]; [simpl; ring | ].
      simpl in Hl. simpl. rewrite IH by lia. rewrite Hf. ring.
  Qed.

  Lemma zip_add_eval : forall a b x, (length b <= length a)%nat ->
    eval (zip_into add a b) x = add (eval a x) (eval b x).
  Proof.
    intros a b x Hl. rewrite (zip_into_eval add (fun v => v)) by (auto; intros; ring).
    rewrite map_id. reflexivity.
  Qed.
  Lemma zip_sub_eval : forall a b x, (length b <= length a)%nat ->
    eval (zip_into sub a b) x = sub (eval a x) (eval b x).
  Proof.
    intros a b x Hl. rewrite (zip_into_eval sub neg) by (auto; intros; ring).
    rewrite eval_map_neg. ring.
  Qed.
  Lemma zip_addmul_eval : forall c a b x, (length b <= length a)%nat ->
    eval (zip_into (fun u v => add u (mul c v)) a b) x = add (eval a x) (mul c (eval b x)).
  Proof.
    intros c a b x Hl. rewrite (zip_into_eval _ (mul c)) by (auto; intros; ring).
    rewrite eval_map_mul. reflexivity.
  Qed.
  Lemma zip_submul_eval : forall c a b x, (length b <= length a)%nat ->
    eval (zip_into (fun u v => sub u (mul c v)) a b) x = sub (eval a x) (mul c (eval b x)).
  Proof.
    intros c a b x Hl. rewrite (zip_into_eval _ (fun v => neg (mul c v))) by (auto; intros; ring).
    rewrite <- (map_map (mul c) neg), eval_map_neg, eval_map_mul. ring.
  Qed.

  Lemma resize_length : forall n p, length (resize F n p) = n.
  Proof.
    intros n p. unfold resize. rewrite app_length, firstn_length, repeat_length. lia.
  Qed.
  Lemma resize_eval : forall n p x, (length p <= n)%nat -> eval (resize F n p) x = eval p x.
  Proof.
    intros n p x Hl. unfold resize. rewrite firstn_all2 by lia.
    rewrite eval_app, eval_repeat_zero. ring.
  Qed.

  (* ---------------- upd, scatter ---------------- *)

  Lemma upd_length : forall (l : list K) i (f : K -> K), length (upd l i f) = length l.
  Proof.
    induction l as [|h t IH]; intros i f; [reflexivity | ].
    destruct i; simpl; [reflexivity | rewrite IH; reflexivity].
  Qed.
  Lemma upd_nth_same : forall l i f, (i < length l)%nat -> nth i (upd l i f) zero = f (nth i l zero).
  Proof.
    induction l as [|h t IH]; intros i f Hi; [simpl in Hi; lia | ].
    destruct i; simpl; [reflexivity | apply IH; simpl in Hi; lia].
  Qed.
  Lemma upd_nth_other : forall l i j f, i <> j -> nth j (upd l i f) zero = nth j l zero.
  Proof.
    induction l as [|h t IH]; intros i j f Hij; [reflexivity | ].
    destruct i, j; simpl; try reflexivity; try lia. apply IH. lia.
  Qed.
  Lemma upd_eval : forall l i f x, (i < length l)%nat ->
    eval (upd l i f) x = add (eval l x) (mul (pown x i) (sub (f (nth i l zero)) (nth i l zero))).
  Proof.
    induction l as [|h t IH]; intros i f x Hi; [simpl in Hi; lia | ].
    destruct i; simpl.
    - ring.
    - rewrite IH by (simpl in Hi; lia). ring.
  Qed.

  (* degrees of s strictly ascending from lo (coefficients unconstrained) *)
  Fixpoint ascending (lo : nat) (s : list (nat * K)) : Prop :=
    match s with
    | [] => True
    | t :: r => (lo <= fst t)%nat /\ ascending (S (fst t)) r
    end.
  Lemma sorted_ascending : forall s lo, sorted_from lo s -> ascending lo s.
  Proof. induction s as [|t r IH]; intros lo H; simpl in *; [exact I | ]. destruct H as (H1 & _ & H3). auto. Qed.
  Lemma ascending_weaken : forall s lo lo', (lo' <= lo)%nat -> ascending lo s -> ascending lo' s.
  Proof. destruct s as [|t r]; intros lo lo' Hl H; simpl in *; [exact I | ]. destruct H. split; [lia | assumption]. Qed.
  Lemma sorted_weaken : forall s lo lo', (lo' <= lo)%nat -> sorted_from lo s -> sorted_from lo' s.
  Proof. destruct s as [|t r]; intros lo lo' Hl H; simpl in *; [exact I | ]. destruct H as (H1 & H2 & H3). repeat split; [lia | assumption | assumption]. Qed.

  Lemma ascending_In : forall s lo j c, ascending lo s -> In (j, c) s -> (lo <= j)%nat.
  Proof.
    induction s as [|t r IH]; intros lo j c Ha Hin; [destruct Hin | ].
    simpl in Ha. destruct Ha as [H1 H2]. destruct Hin as [-> | Hin]; [exact H1 | ].
    specialize (IH _ _ _ H2 Hin). lia.
  Qed.

  (* Scatter along strictly ascending in-range degrees, where at every visited position
     the update is "old value + g(i, c)": no panic, same length, and the value grows by
     the sparse polynomial with coefficients g(i, c). *)
  Lemma scatter_spec : forall (f : nat -> K -> K -> K) (g : nat -> K -> K) s lo base,
    ascending lo s ->
    (forall i c, In (i, c) s -> (i < length base)%nat /\ f i (nth i base zero) c = add (nth i base zero) (g i c)) ->
    exists r, scatter f base s = ROk r /\ length r = length base /\
      (forall j, (j < lo)%nat -> nth j r zero = nth j base zero) /\
      forall x, eval r x = add (eval base x) (seval (map (fun t => (fst t, g (fst t) (snd t))) s) x).
  Proof.
    intros f g. induction s as [|[i c] s IH]; intros lo base Hasc Hf.
    - exists base. simpl. repeat split; auto. intro x. ring.
    - simpl in Hasc. destruct Hasc as [Hlo Hasc].
      destruct (Hf i c (or_introl eq_refl)) as [Hi Hfi].
      simpl. apply Nat.ltb_lt in Hi as Hi'. rewrite Hi'.
      destruct (IH (S i) (upd base i (fun a => f i a c)) Hasc) as (r & Hr & Hlen & Hnth & Hev).
      { intros j c' Hin. destruct (Hf j c' (or_intror Hin)) as [Hj Hfj].
        rewrite upd_length. split; [exact Hj | ].
        assert (Hij : i <> j).
        { pose proof (ascending_In _ _ _ _ Hasc Hin). lia. }
        rewrite upd_nth_other by exact Hij. exact Hfj. }
      exists r. split; [exact Hr | ]. split; [rewrite Hlen, upd_length; reflexivity | ].
      split.
      + intros j Hj. rewrite Hnth by lia. apply upd_nth_other. lia.
      + intro x. rewrite Hev, upd_eval by exact Hi. rewrite Hfi. simpl. ring.
  Qed.

  (* ---------------- seval ---------------- *)

  Lemma seval_app : forall a b x, seval (a ++ b) x = add (seval a x) (seval b x).
  Proof. induction a as [|[i c] a IH]; intros b x; simpl; [ring | rewrite IH; ring]. Qed.

  Lemma s_is_zero_eval : forall s, s_is_zero F s = true -> forall x, seval s x = zero.
  Proof.
    induction s as [|[i c] s IH]; intros H x; simpl; [reflexivity | ].
    simpl in H. apply andb_prop in H. destruct H as [Hc Hs]. apply is0_true in Hc.
    rewrite (IH Hs x), Hc. ring.
  Qed.

  Lemma scanon_zero_nil : forall s lo, sorted_from lo s -> s_is_zero F s = true -> s = [].
  Proof.
    intros [|t r] lo Hs Hz; [reflexivity | ]. simpl in Hs, Hz. destruct Hs as (_ & Hc & _).
    apply andb_prop in Hz. destruct Hz as [Hz _]. apply is0_true in Hz. contradiction.
  Qed.

  (* last term of a canonical non-empty sparse polynomial *)
  Lemma sorted_last : forall s lo, sorted_from lo s -> s <> [] ->
    snd (last s (O, zero)) <> zero /\ (lo <= fst (last s (O, zero)))%nat /\
    Forall (fun t => (fst t <= fst (last s (O, zero)))%nat) s.
  Proof.
    induction s as [|t r IH]; intros lo Hs Hn; [contradiction | ].
    simpl in Hs. destruct Hs as (H1 & H2 & H3). destruct r as [|t' r'].
    - simpl. repeat split; auto.
    - destruct (IH _ H3) as (A & B & C); [discriminate | ].
      change (last (t :: t' :: r') (O, zero)) with (last (t' :: r') (O, zero)).
      repeat split; [exact A | lia | ]. constructor; [lia | exact C].
  Qed.

  Lemma s_degree_nonzero : forall s lo, sorted_from lo s -> s <> [] ->
    s_is_zero F s = false /\ s_degree F s = ROk (fst (last s (O, zero))).
  Proof.
    intros s lo Hs Hn. destruct (sorted_last s lo Hs Hn) as (A & _ & _).
    assert (Hz : s_is_zero F s = false).
    { destruct (s_is_zero F s) eqn:E; [ | reflexivity]. exfalso. apply Hn. eapply scanon_zero_nil; eauto. }
    split; [exact Hz | ]. unfold s_degree. rewrite Hz. apply is0_false in A. rewrite A. reflexivity.
  Qed.

  Lemma s_degree_ok : forall s, scanon s -> exists d, s_degree F s = ROk d.
  Proof.
    intros s Hs. destruct s as [|t r]; [exists O; reflexivity | ].
    eexists. eapply s_degree_nonzero; [exact Hs | discriminate].
  Qed.

  (* ---------------- sparse -> dense conversion ---------------- *)

  Lemma nth_repeat_zero : forall n i, nth i (repeat zero n) zero = zero.
  Proof. induction n as [|n IH]; intros [|i]; simpl; auto. Qed.

  Lemma map_fst_snd_id : forall (s : list (nat * K)), map (fun t => (fst t, snd t)) s = s.
  Proof. induction s as [|[i c] s IH]; simpl; [reflexivity | rewrite IH; reflexivity]. Qed.

  Lemma sorted_In_le_last : forall s lo i c, sorted_from lo s -> In (i, c) s ->
    (i <= fst (last s (O, zero)))%nat.
  Proof.
    intros s lo i c Hs Hin. assert (Hn : s <> []) by (intro; subst; destruct Hin).
    destruct (sorted_last s lo Hs Hn) as (_ & _ & Hall).
    rewrite Forall_forall in Hall. exact (Hall _ Hin).
  Qed.

  (* From<SparsePolynomial> for DensePolynomial: no panic, canonical, same function *)
  Lemma s_to_dense_spec : forall s, scanon s -> okd (s_to_dense F s) (seval s).
  Proof.
    intros s Hs. unfold s_to_dense. destruct s as [|t r].
    - cbn [s_degree s_is_zero forallb bind Nat.add repeat scatter].
      rewrite d_from_vec_ok. apply okd_trunc. intro x. cbn. ring.
    - destruct (s_degree_nonzero (t :: r) O Hs) as [_ Hd]; [discriminate | ].
      rewrite Hd. cbn [bind].
      destruct (scatter_spec (fun _ _ c => c) (fun _ c => c) (t :: r) O
                  (repeat zero (fst (last (t :: r) (O, zero)) + 1))) as (v & Hv & _ & _ & Hev).
      + apply sorted_ascending. exact Hs.
      + intros i c Hin. rewrite repeat_length, nth_repeat_zero.
        pose proof (sorted_In_le_last _ _ _ _ Hs Hin). split; [lia | ring].
      + rewrite Hv. cbn [bind]. rewrite d_from_vec_ok. apply okd_trunc.
        intro x. rewrite Hev, eval_repeat_zero, map_fst_snd_id. ring.
  Qed.

End Common.
