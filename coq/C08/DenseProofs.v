(* C08 proofs, dense (op) dense: add, add_assign, add_assign_scaled, neg, sub, sub_assign,
   scalar multiplication, naive_mul, mul, evaluate, degree on results, and equality of
   canonical forms.  Every operator theorem says: no panic (in particular the internal
   degree() calls never trip), canonical result, correct value at every point. *)
From V Require Import Base.Field C08.Model C08.Common.
Require Import Lia Field Ring.

Section DenseProofs.
  Context {K : Type} (F : Fops K).
  Local Notation zero := (f0 F).
  Local Notation one := (f1 F).
  Local Notation add := (fadd F).
  Local Notation sub := (fsub F).
  Local Notation mul := (fmul F).
  Local Notation neg := (fneg F).
  Local Notation inv := (finv F).
  Local Notation is0 := (is0 F).
  Local Notation eval := (eval F).
  Local Notation pown := (pown F).
  Local Notation trunc := (trunc F).

  Hypothesis Fth : field_theory zero one add mul sub neg (fun a b => mul a (inv b)) inv eq.
  Hypothesis eqb_ok : forall a b, feqb F a b = true <-> a = b.
  Add Field KF : Fth.

  Local Open Scope nat_scope.

  (* ---------------- small helpers ---------------- *)

  Lemma nz_length : forall p, d_is_zero F p = false -> 0 < length p.
  Proof. intros [|c p] H; [discriminate | simpl; lia]. Qed.

  Lemma canon_nz_degree : forall p, canon F p -> d_is_zero F p = false ->
    d_degree F p = ROk (pred (length p)) /\ 0 < length p.
  Proof.
    intros p Hc Hz. split; [apply (d_degree_nonzero F eqb_ok); assumption | apply nz_length; exact Hz].
  Qed.

  Lemma last_map_nonempty : forall (g : K -> K) p, p <> [] -> last (map g p) zero = g (last p zero).
  Proof.
    intros g. induction p as [|c p IH]; intro Hn; [contradiction | ].
    destruct p as [|c' p]; [reflexivity | ].
    change (last (map g (c :: c' :: p)) zero) with (last (map g (c' :: p)) zero).
    change (last (c :: c' :: p) zero) with (last (c' :: p) zero).
    apply IH. discriminate.
  Qed.

  Lemma canon_map : forall (g : K -> K) p, (forall a, a <> zero -> g a <> zero) ->
    canon F p -> canon F (map g p).
  Proof.
    intros g p Hg [Hc | Hc]; [subst; left; reflexivity | ].
    right. rewrite last_map_nonempty.
    - apply Hg. exact Hc.
    - intro E. subst. apply Hc. reflexivity.
  Qed.

  Lemma eval_nil : forall x, eval [] x = zero.
  Proof. reflexivity. Qed.

  (* ---------------- 1. &a + &b ---------------- *)

  Theorem d_add_spec : forall p q, canon F p -> canon F q ->
    okd F (d_add F p q) (fun x => add (eval p x) (eval q x)).
  Proof.
    intros p q Hp Hq. unfold d_add.
    destruct (d_is_zero F p) eqn:Zp.
    - apply (canon_zero_nil F eqb_ok) in Zp; [ | exact Hp]. subst p. cbn [bind].
      apply (okd_trunc F Fth eqb_ok). intro x. simpl. ring.
    - destruct (d_is_zero F q) eqn:Zq.
      + apply (canon_zero_nil F eqb_ok) in Zq; [ | exact Hq]. subst q. cbn [bind].
        apply (okd_trunc F Fth eqb_ok). intro x. simpl. ring.
      + destruct (canon_nz_degree p Hp Zp) as [Dp Lp].
        destruct (canon_nz_degree q Hq Zq) as [Dq Lq].
        rewrite Dp, Dq. cbn [bind].
        destruct (Nat.leb (pred (length q)) (pred (length p))) eqn:E; cbn [bind].
        * apply Nat.leb_le in E. apply (okd_trunc F Fth eqb_ok). intro x.
          apply (zip_add_eval F Fth). lia.
        * apply Nat.leb_gt in E. apply (okd_trunc F Fth eqb_ok). intro x.
          rewrite (zip_add_eval F Fth) by lia. ring.
  Qed.

  (* ---------------- 2. a += &b ---------------- *)

  Theorem d_add_assign_spec : forall p q, canon F p -> canon F q ->
    okd F (d_add_assign F p q) (fun x => add (eval p x) (eval q x)).
  Proof.
    intros p q Hp Hq. unfold d_add_assign.
    destruct (d_is_zero F q) eqn:Zq.
    - apply (canon_zero_nil F eqb_ok) in Zq; [ | exact Hq]. subst q.
      apply (okd_trunc F Fth eqb_ok). intro x. simpl. ring.
    - destruct (d_is_zero F p) eqn:Zp.
      + apply (canon_zero_nil F eqb_ok) in Zp; [ | exact Hp]. subst p.
        apply (okd_trunc F Fth eqb_ok). intro x. simpl. ring.
      + apply (okd_trunc F Fth eqb_ok). intro x.
        destruct (Nat.ltb (length p) (length q)) eqn:E.
        * apply Nat.ltb_lt in E.
          rewrite (zip_add_eval F Fth) by (rewrite resize_length; lia).
          rewrite (resize_eval F Fth) by lia. reflexivity.
        * apply Nat.ltb_ge in E. apply (zip_add_eval F Fth). lia.
  Qed.

  (* ---------------- 3. &a - &b ---------------- *)

  Theorem d_sub_spec : forall p q, canon F p -> canon F q ->
    okd F (d_sub F p q) (fun x => sub (eval p x) (eval q x)).
  Proof.
    intros p q Hp Hq. unfold d_sub.
    destruct (d_is_zero F p) eqn:Zp.
    - apply (canon_zero_nil F eqb_ok) in Zp; [ | exact Hp]. subst p. cbn [bind].
      apply (okd_trunc F Fth eqb_ok). intro x. rewrite (eval_map_neg F Fth). simpl. ring.
    - destruct (d_is_zero F q) eqn:Zq.
      + apply (canon_zero_nil F eqb_ok) in Zq; [ | exact Hq]. subst q. cbn [bind].
        apply (okd_trunc F Fth eqb_ok). intro x. simpl. ring.
      + destruct (canon_nz_degree p Hp Zp) as [Dp Lp].
        destruct (canon_nz_degree q Hq Zq) as [Dq Lq].
        rewrite Dp, Dq. cbn [bind].
        destruct (Nat.leb (pred (length q)) (pred (length p))) eqn:E; cbn [bind].
        * apply Nat.leb_le in E. apply (okd_trunc F Fth eqb_ok). intro x.
          apply (zip_sub_eval F Fth). lia.
        * apply Nat.leb_gt in E. apply (okd_trunc F Fth eqb_ok). intro x.
          rewrite (zip_sub_eval F Fth) by (rewrite resize_length; lia).
          rewrite (resize_eval F Fth) by lia. reflexivity.
  Qed.

  (* ---------------- 4. a -= &b ---------------- *)

  Theorem d_sub_assign_spec : forall p q, canon F p -> canon F q ->
    okd F (d_sub_assign F p q) (fun x => sub (eval p x) (eval q x)).
  Proof.
    intros p q Hp Hq. unfold d_sub_assign.
    destruct (d_is_zero F p) eqn:Zp.
    - apply (canon_zero_nil F eqb_ok) in Zp; [ | exact Hp]. subst p.
      apply (okd_trunc F Fth eqb_ok). intro x.
      rewrite (zip_sub_eval F Fth) by (rewrite resize_length; lia).
      rewrite (resize_eval F Fth) by (simpl; lia). reflexivity.
    - destruct (d_is_zero F q) eqn:Zq.
      + apply (canon_zero_nil F eqb_ok) in Zq; [ | exact Hq]. subst q.
        apply okd_id; [exact Hp | ]. intro x. simpl. ring.
      + destruct (canon_nz_degree p Hp Zp) as [Dp Lp].
        destruct (canon_nz_degree q Hq Zq) as [Dq Lq].
        rewrite Dp, Dq. cbn [bind].
        apply (okd_trunc F Fth eqb_ok). intro x.
        destruct (Nat.leb (pred (length q)) (pred (length p))) eqn:E.
        * apply Nat.leb_le in E. apply (zip_sub_eval F Fth). lia.
        * apply Nat.leb_gt in E.
          rewrite (zip_sub_eval F Fth) by (rewrite resize_length; lia).
          rewrite (resize_eval F Fth) by lia. reflexivity.
  Qed.

  (* ---------------- 5. a += (f, &b) ---------------- *)

  Theorem d_add_assign_scaled_spec : forall p f q, canon F p -> canon F q ->
    okd F (d_add_assign_scaled F p f q) (fun x => add (eval p x) (mul f (eval q x))).
  Proof.
    intros p f q Hp Hq. unfold d_add_assign_scaled.
    destruct (d_is_zero F q) eqn:Zq.
    - apply (canon_zero_nil F eqb_ok) in Zq; [ | exact Hq]. subst q.
      apply okd_id; [exact Hp | ]. intro x. simpl. ring.
    - destruct (d_is_zero F p) eqn:Zp.
      + apply (canon_zero_nil F eqb_ok) in Zp; [ | exact Hp]. subst p.
        apply (okd_trunc F Fth eqb_ok). intro x. rewrite (eval_map_mulr F Fth). simpl. ring.
      + destruct (canon_nz_degree p Hp Zp) as [Dp Lp].
        destruct (canon_nz_degree q Hq Zq) as [Dq Lq].
        rewrite Dp, Dq. cbn [bind].
        apply (okd_trunc F Fth eqb_ok). intro x.
        destruct (Nat.ltb (pred (length p)) (pred (length q))) eqn:E.
        * apply Nat.ltb_lt in E.
          rewrite (zip_addmul_eval F Fth) by (rewrite resize_length; lia).
          rewrite (resize_eval F Fth) by lia. reflexivity.
        * apply Nat.ltb_ge in E. apply (zip_addmul_eval F Fth). lia.
  Qed.

  (* ---------------- 6. -a ---------------- *)

  Theorem d_neg_spec : forall p, canon F p ->
    canon F (d_neg F p) /\ forall x, eval (d_neg F p) x = neg (eval p x).
  Proof.
    intros p Hp. unfold d_neg. split.
    - apply canon_map; [ | exact Hp]. intros a Ha. apply (neg_neq_zero F Fth). exact Ha.
    - intro x. apply (eval_map_neg F Fth).
  Qed.

  (* ---------------- 7. &a * elem ---------------- *)

  Theorem d_scale_spec : forall p e, canon F p ->
    canon F (d_scale F p e) /\ forall x, eval (d_scale F p e) x = mul (eval p x) e.
  Proof.
    intros p e Hp. unfold d_scale.
    destruct (d_is_zero F p) eqn:Zp; cbn [orb].
    - split; [apply canon_nil | ]. intro x.
      rewrite (d_is_zero_eval F Fth eqb_ok p Zp). simpl. ring.
    - destruct (is0 e) eqn:Ze.
      + split; [apply canon_nil | ]. intro x.
        apply (is0_true F eqb_ok) in Ze. subst e. simpl. ring.
      + apply (is0_false F eqb_ok) in Ze. split.
        * apply canon_map; [ | exact Hp]. intros a Ha.
          apply (mul_neq_zero F Fth eqb_ok); assumption.
        * intro x. apply (eval_map_mulr F Fth).
  Qed.

  (* ---------------- 8. naive_mul ---------------- *)

  Lemma add_at_length : forall i acc v, length (add_at F acc i v) = length acc.
  Proof.
    induction i as [|i IH]; intros acc v.
    - destruct acc; simpl; [reflexivity | ]. destruct v; simpl; [reflexivity | ].
      rewrite zip_into_length. reflexivity.
    - destruct acc as [|h t]; simpl; [reflexivity | ]. rewrite IH. reflexivity.
  Qed.

  Lemma add_at_zero : forall acc v, add_at F acc 0 v = zip_into add acc v.
  Proof. intros [|h t] v; reflexivity. Qed.

  Lemma add_at_eval : forall i acc v x, i + length v <= length acc ->
    eval (add_at F acc i v) x = add (eval acc x) (mul (pown x i) (eval v x)).
  Proof.
    induction i as [|i IH]; intros acc v x Hl.
    - rewrite add_at_zero. rewrite (zip_add_eval F Fth) by (simpl in Hl; lia). simpl. ring.
    - destruct acc as [|h t].
      + simpl in Hl. lia.
      + simpl in Hl. simpl. rewrite IH by lia. ring.
  Qed.

  Lemma naive_loop_length : forall p q i acc, length (naive_loop F p q i acc) = length acc.
  Proof.
    induction p as [|a p IH]; intros q i acc; simpl; [reflexivity | ].
    rewrite IH, add_at_length. reflexivity.
  Qed.

  Lemma naive_loop_eval : forall p q i acc x, i + length p + length q <= length acc + 1 ->
    eval (naive_loop F p q i acc) x =
    add (eval acc x) (mul (pown x i) (mul (eval p x) (eval q x))).
  Proof.
    induction p as [|a p IH]; intros q i acc x Hl.
    - simpl. ring.
    - simpl in Hl. simpl. rewrite IH by (rewrite add_at_length; lia).
      rewrite add_at_eval by (rewrite map_length; lia).
      rewrite (eval_map_mul F Fth). simpl. ring.
  Qed.

  (* the product loop on n >= len p + len q - 1 zero coefficients, then from_coefficients_vec *)
  Lemma product_loop_ok : forall p q n, length p + length q <= n + 1 ->
    okd F (d_from_vec F (naive_loop F p q 0 (repeat zero n))) (fun x => mul (eval p x) (eval q x)).
  Proof.
    intros p q n Hl. rewrite (d_from_vec_ok F eqb_ok).
    apply (okd_trunc F Fth eqb_ok). intro x.
    rewrite naive_loop_eval by (rewrite repeat_length; lia).
    rewrite (eval_repeat_zero F Fth). simpl. ring.
  Qed.

  Lemma product_zero : forall p q, d_is_zero F p || d_is_zero F q = true ->
    forall x, zero = mul (eval p x) (eval q x).
  Proof.
    intros p q H x. apply orb_prop in H. destruct H as [H | H];
      rewrite (d_is_zero_eval F Fth eqb_ok _ H x); ring.
  Qed.

  Theorem d_naive_mul_spec : forall p q, canon F p -> canon F q ->
    okd F (d_naive_mul F p q) (fun x => mul (eval p x) (eval q x)).
  Proof.
    intros p q Hp Hq. unfold d_naive_mul.
    destruct (d_is_zero F p || d_is_zero F q) eqn:Z.
    - apply okd_id; [apply canon_nil | ]. intro x. simpl. apply product_zero. exact Z.
    - apply orb_false_elim in Z. destruct Z as [Zp Zq].
      destruct (canon_nz_degree p Hp Zp) as [Dp Lp].
      destruct (canon_nz_degree q Hq Zq) as [Dq Lq].
      rewrite Dp, Dq. cbn [bind]. apply product_loop_ok. lia.
  Qed.

  (* ---------------- 9. &a * &b ---------------- *)

  Theorem d_mul_spec : forall p q, canon F p -> canon F q ->
    okd F (d_mul F p q) (fun x => mul (eval p x) (eval q x)).
  Proof.
    intros p q Hp Hq. unfold d_mul.
    destruct (d_is_zero F p || d_is_zero F q) eqn:Z.
    - apply okd_id; [apply canon_nil | ]. intro x. simpl. apply product_zero. exact Z.
    - apply product_loop_ok. lia.
  Qed.

  (* ---------------- 10. evaluate ---------------- *)

  Theorem d_evaluate_spec : forall p x, d_evaluate F p x = eval p x.
  Proof.
    intros p x. unfold d_evaluate.
    destruct (d_is_zero F p) eqn:Zp.
    - symmetry. apply (d_is_zero_eval F Fth eqb_ok). exact Zp.
    - destruct (is0 x) eqn:Zx.
      + apply (is0_true F eqb_ok) in Zx. subst x.
        destruct p as [|c p]; simpl; [reflexivity | ring].
      + apply (horner_eval F Fth).
  Qed.

  (* ---------------- 11. degree() on operator results ---------------- *)

  Theorem d_degree_result_ok : forall r f, okd F r f ->
    exists v d, r = ROk v /\ d_degree F v = ROk d.
  Proof.
    intros r f (v & Hr & Hc & _). destruct (d_degree_ok F eqb_ok v Hc) as [d Hd].
    exists v, d. split; assumption.
  Qed.

  (* ---------------- 12. canonical forms are unique ---------------- *)

  Lemma last_is_nth : forall (p : list K), last p zero = nth (pred (length p)) p zero.
  Proof.
    induction p as [|c p IH]; [reflexivity | ].
    destruct p as [|c' p]; [reflexivity | ].
    change (last (c :: c' :: p) zero) with (last (c' :: p) zero). rewrite IH. reflexivity.
  Qed.

  Lemma canon_coeffs_length_le : forall p q, canon F p ->
    (forall i, nth i p zero = nth i q zero) -> length p <= length q.
  Proof.
    intros p q [Hp | Hp] H; [subst; simpl; lia | ].
    destruct (Nat.le_gt_cases (length p) (length q)) as [L | L]; [exact L | ].
    exfalso. apply Hp. rewrite last_is_nth, H. apply nth_overflow. lia.
  Qed.

  Theorem canon_eq_iff : forall p q, canon F p -> canon F q ->
    (p = q <-> (forall i, nth i p zero = nth i q zero)).
  Proof.
    intros p q Hp Hq. split.
    - intros -> i. reflexivity.
    - intro H.
      assert (L1 : length p <= length q) by (apply canon_coeffs_length_le; assumption).
      assert (L2 : length q <= length p).
      { apply canon_coeffs_length_le; [exact Hq | ]. intro i. symmetry. apply H. }
      apply (nth_ext p q zero zero); [lia | ]. intros n _. apply H.
  Qed.

End DenseProofs.

(* ---------------- executable examples over Z_7 ---------------- *)

(* a cancelling addition is truncated *)
Example d_add_cancel : d_add (ZpOps 7) [1; 2; 3]%Z [1; 2; 4]%Z = ROk [2; 4]%Z.
Proof. vm_compute. reflexivity. Qed.

(* 0 += (0, &b) is canonical *)
Example d_add_assign_scaled_zero : d_add_assign_scaled (ZpOps 7) [] 0%Z [1; 2]%Z = ROk [].
Proof. vm_compute. reflexivity. Qed.

Example d_naive_mul_ex : d_naive_mul (ZpOps 7) [1; 2]%Z [3; 4; 5]%Z = ROk [3; 3; 6; 3]%Z.
Proof. vm_compute. reflexivity. Qed.

Example d_mul_ex : d_mul (ZpOps 7) [1; 2]%Z [3; 4; 5]%Z = ROk [3; 3; 6; 3]%Z.
Proof. vm_compute. reflexivity. Qed.
