(* C08 proofs: DenseOrSparsePolynomial::divide_with_q_and_r (model: [divide], [div_loop]).
   For every canonical dividend and every canonical non-zero divisor (each dense or sparse)
   the division returns Ok (no panic, no fuel exhaustion), the quotient and the remainder
   are canonical, the remainder is zero or of degree < deg b, and a = q * b + r. *)
From V Require Import Base.Field C08.Model C08.Common.
Require Import Lia Field Ring.

Section Division.
  Context {K : Type} (F : Fops K).
  Local Notation zero := (f0 F).
  Local Notation one := (f1 F).
  Local Notation add := (fadd F).
  Local Notation sub := (fsub F).
  Local Notation mul := (fmul F).
  Local Notation neg := (fneg F).
  Local Notation inv := (finv F).
  Local Notation is0 := (is0 F).
  Local Notation eval := (eval F).
  Local Notation seval := (seval F).
  Local Notation pown := (pown F).
  Local Notation trunc := (trunc F).

  Hypothesis Fth : field_theory zero one add mul sub neg (fun a b => mul a (inv b)) inv eq.
  Hypothesis eqb_ok : forall a b, feqb F a b = true <-> a = b.
  Add Field KF : Fth.

  (* ---------------- specification side ---------------- *)

  Definition dos_canon (a : dos K) : Prop :=
    match a with DP p => canon F p | SP s => scanon F s end.
  Definition dos_eval (a : dos K) (x : K) : K :=
    match a with DP p => eval p x | SP s => seval s x end.

  (* ---------------- list helpers ---------------- *)

  Lemma nth_pred_last : forall (l : list K) d, nth (pred (length l)) l d = last l d.
  Proof.
    induction l as [|c t IH]; intro d; [reflexivity | ].
    destruct t as [|c' t']; [reflexivity | ].
    change (last (c :: c' :: t') d) with (last (c' :: t') d). rewrite <- IH. reflexivity.
  Qed.

  Lemma last_In : forall (s : list (nat * K)) d, s <> [] -> In (last s d) s.
  Proof.
    induction s as [|t s IH]; intros d Hn; [contradiction | ].
    destruct s as [|t' s']; [left; reflexivity | ].
    right. change (last (t :: t' :: s') d) with (last (t' :: s') d). apply IH. discriminate.
  Qed.

  (* a non-empty list whose last coefficient is zero gets strictly shorter *)
  Lemma trunc_shrink : forall l, l <> [] -> last l zero = zero ->
    (length (trunc l) < length l)%nat.
  Proof.
    induction l as [|c t IH]; intros Hn Hl; [contradiction | ].
    simpl. destruct (trunc t) as [|k u] eqn:E.
    - destruct t as [|c' t'].
      + simpl in Hl. subst c. rewrite (is0_zero F eqb_ok). simpl. lia.
      + destruct (is0 c); simpl; lia.
    - destruct t as [|c' t']; [discriminate E | ].
      change (last (c :: c' :: t') zero) with (last (c' :: t') zero) in Hl.
      assert (Hn' : c' :: t' <> []) by discriminate.
      specialize (IH Hn' Hl). simpl in *. lia.
  Qed.

  (* ---------------- scatter: value at one index ---------------- *)

  Lemma scatter_nth_notin : forall (f : nat -> K -> K -> K) s base r j,
    scatter f base s = ROk r -> (forall c, ~ In (j, c) s) -> nth j r zero = nth j base zero.
  Proof.
    intros f. induction s as [|[i c] s IH]; intros base r j Hs Hn.
    - simpl in Hs. injection Hs as <-. reflexivity.
    - simpl in Hs. destruct (Nat.ltb i (length base)) eqn:E; [ | discriminate].
      rewrite (IH _ _ j Hs).
      + apply (upd_nth_other F). intro Hij. subst. apply (Hn c). left. reflexivity.
      + intros c' Hin. apply (Hn c'). right. exact Hin.
  Qed.

  Lemma scatter_nth_in : forall (f : nat -> K -> K -> K) s lo base r j c,
    ascending lo s -> scatter f base s = ROk r -> In (j, c) s ->
    nth j r zero = f j (nth j base zero) c.
  Proof.
    intros f. induction s as [|[i c0] s IH]; intros lo base r j c Ha Hs Hin; [destruct Hin | ].
    simpl in Ha. destruct Ha as [Hlo Ha].
    simpl in Hs. destruct (Nat.ltb i (length base)) eqn:E; [ | discriminate].
    apply Nat.ltb_lt in E.
    destruct Hin as [Heq | Hin].
    - injection Heq as -> ->. rewrite (scatter_nth_notin _ _ _ _ j Hs).
      + rewrite (upd_nth_same F) by exact E. reflexivity.
      + intros c' Hin. pose proof (ascending_In _ _ _ _ Ha Hin). lia.
    - pose proof (ascending_In _ _ _ _ Ha Hin) as Hj.
      rewrite (IH _ _ _ _ _ Ha Hs Hin). rewrite (upd_nth_other F) by lia. reflexivity.
  Qed.

  (* ---------------- the shifted divisor terms ---------------- *)

  Lemma ascending_shift : forall cur (s : list (nat * K)) lo, ascending lo s ->
    ascending (cur + lo) (map (fun t => ((cur + fst t)%nat, snd t)) s).
  Proof.
    intros cur. induction s as [|t s IH]; intros lo H; simpl in *; [exact I | ].
    destruct H as [H1 H2]. split; [lia | ].
    replace (S (cur + fst t)) with (cur + S (fst t))%nat by lia. apply IH. exact H2.
  Qed.

  Lemma seval_shift : forall cq cur ts x,
    seval (map (fun t => (fst t, neg (mul cq (snd t))))
             (map (fun t => ((cur + fst t)%nat, snd t)) ts)) x
    = neg (mul (mul cq (pown x cur)) (seval ts x)).
  Proof.
    intros cq cur. induction ts as [|[i c] ts IH]; intro x; simpl; [ring | ].
    rewrite IH, (pown_add F Fth). ring.
  Qed.

  (* ---------------- enumerate_from (iter_with_index of a dense divisor) ---------------- *)

  Lemma enum_ascending : forall (p : list K) i, ascending i (enumerate_from i p).
  Proof. induction p as [|a p IH]; intro i; simpl; [exact I | ]. split; [lia | apply IH]. Qed.

  Lemma enum_In : forall (p : list K) i j c, In (j, c) (enumerate_from i p) ->
    (i <= j < i + length p)%nat.
  Proof.
    induction p as [|a p IH]; intros i j c H; [destruct H | ].
    simpl in H. destruct H as [H | H].
    - injection H as <- <-. simpl. lia.
    - apply IH in H. simpl. lia.
  Qed.

  Lemma enum_last : forall (p : list K) i, p <> [] ->
    In ((i + pred (length p))%nat, last p zero) (enumerate_from i p).
  Proof.
    induction p as [|a p IH]; intros i Hn; [contradiction | ].
    destruct p as [|a' p'].
    - simpl. left. f_equal. lia.
    - change (enumerate_from i (a :: a' :: p')) with ((i, a) :: enumerate_from (S i) (a' :: p')).
      right. change (last (a :: a' :: p') zero) with (last (a' :: p') zero).
      replace (i + pred (length (a :: a' :: p')))%nat
        with (S i + pred (length (a' :: p')))%nat by (simpl; lia).
      apply IH. discriminate.
  Qed.

  Lemma enum_seval : forall (p : list K) i x,
    seval (enumerate_from i p) x = mul (pown x i) (eval p x).
  Proof.
    induction p as [|a p IH]; intros i x; simpl; [ring | ]. rewrite IH. simpl. ring.
  Qed.

  (* ---------------- the divisor seen as its term list ---------------- *)

  (* ts: ascending degrees, all <= db, the term (db, lead) is present, value B *)
  Definition terms_ok (ts : list (nat * K)) (db : nat) (lead : K) (B : K -> K) : Prop :=
    ascending O ts /\ In (db, lead) ts /\
    (forall i c, In (i, c) ts -> (i <= db)%nat) /\
    forall x, seval ts x = B x.

  Lemma dos_terms_ok : forall b, dos_canon b -> dos_is_zero F b = false ->
    exists db, dos_degree F b = ROk db /\ dos_leading F b <> zero /\
      terms_ok (dos_terms b) db (dos_leading F b) (dos_eval b).
  Proof.
    intros [p | s] Hc Hz;
      cbn [dos_canon dos_is_zero dos_degree dos_leading dos_terms dos_eval] in *.
    - assert (Hn : p <> []) by (intro; subst; discriminate).
      exists (pred (length p)). split; [apply (d_degree_nonzero F eqb_ok); assumption | ].
      assert (Hl : last p zero <> zero) by (destruct Hc as [Hc | Hc]; [contradiction | exact Hc]).
      split; [exact Hl | ]. split; [apply enum_ascending | ].
      split; [apply (enum_last p O Hn) | ]. split.
      + intros i c Hin. apply enum_In in Hin. lia.
      + intro x. rewrite enum_seval. simpl. ring.
    - assert (Hn : s <> []) by (intro; subst; discriminate).
      destruct (s_degree_nonzero F eqb_ok s O Hc Hn) as [_ Hd].
      destruct (sorted_last F s O Hc Hn) as (A & _ & _).
      exists (fst (last s (O, zero))). split; [exact Hd | ]. split; [exact A | ].
      split; [apply (sorted_ascending F); exact Hc | ]. split.
      + rewrite <- surjective_pairing. apply last_In. exact Hn.
      + split; [ | reflexivity]. intros i c Hin. eapply (sorted_In_le_last F); eauto.
  Qed.

  Lemma dos_degree_ok : forall a, dos_canon a -> exists d, dos_degree F a = ROk d.
  Proof.
    intros [p | s] Hc; cbn [dos_canon dos_degree] in *.
    - apply (d_degree_ok F eqb_ok). exact Hc.
    - apply (s_degree_ok F eqb_ok). exact Hc.
  Qed.

  Lemma dos_zero_eval : forall a, dos_is_zero F a = true -> forall x, dos_eval a x = zero.
  Proof.
    intros [p | s] Hz x; cbn [dos_is_zero dos_eval] in *.
    - apply (d_is_zero_eval F Fth eqb_ok). exact Hz.
    - apply (s_is_zero_eval F Fth eqb_ok). exact Hz.
  Qed.

  (* the dividend converted to a dense remainder *)
  Lemma dos_to_dense_ok : forall a da, dos_canon a -> dos_is_zero F a = false ->
    dos_degree F a = ROk da ->
    exists r0, dos_to_dense F a = ROk r0 /\ canon F r0 /\ (length r0 <= da + 1)%nat /\
      forall x, eval r0 x = dos_eval a x.
  Proof.
    intros [p | s] da Hc Hz Hd;
      cbn [dos_canon dos_is_zero dos_degree dos_to_dense dos_eval] in *.
    - exists p. destruct (d_degree_len F eqb_ok p da Hz Hd) as (-> & _ & Hn).
      split; [reflexivity | ]. split; [exact Hc | ]. split; [ | reflexivity].
      destruct p; [contradiction | simpl; lia].
    - assert (Hn : s <> []) by (intro; subst; discriminate).
      destruct (s_degree_nonzero F eqb_ok s O Hc Hn) as [_ Hd'].
      rewrite Hd' in Hd. injection Hd as <-.
      unfold s_to_dense. rewrite Hd'. cbn [bind].
      destruct (scatter_spec F Fth (fun _ _ c => c) (fun _ c => c) s O
                  (repeat zero (fst (last s (O, zero)) + 1))) as (v & Hv & Hlen & _ & Hev).
      + apply (sorted_ascending F). exact Hc.
      + intros i c Hin. rewrite repeat_length, (nth_repeat_zero F).
        pose proof (sorted_In_le_last F _ _ _ _ Hc Hin). split; [lia | ring].
      + rewrite Hv. cbn [bind]. rewrite (d_from_vec_ok F eqb_ok).
        exists (trunc v). split; [reflexivity | ]. split; [apply (trunc_canon F eqb_ok) | ].
        split.
        * pose proof (trunc_length F v). rewrite repeat_length in Hlen. lia.
        * intro x. rewrite (trunc_eval F Fth eqb_ok), Hev, (eval_repeat_zero F Fth), map_fst_snd_id.
          ring.
  Qed.

  (* ---------------- one iteration of the while loop ---------------- *)

  (* subtracting cq * x^cur * b from r: in range, cancels the leading coefficient *)
  Lemma div_step : forall ts db lead B r cq cur,
    terms_ok ts db lead B -> lead <> zero ->
    r <> [] -> (db <= pred (length r))%nat ->
    cur = (pred (length r) - db)%nat ->
    cq = mul (last r zero) (inv lead) ->
    exists r', scatter (fun _ a c => sub a (mul cq c)) r
                 (map (fun t => ((cur + fst t)%nat, snd t)) ts) = ROk r' /\
      length r' = length r /\
      nth (pred (length r)) r' zero = zero /\
      (length (trunc r') < length r)%nat /\
      forall x, eval r' x = sub (eval r x) (mul (mul cq (pown x cur)) (B x)).
  Proof.
    intros ts db lead B r cq cur (Hasc & Hin & Hle & Hev) Hlead Hn Hdb Hcur Hcq.
    assert (Hlen : (0 < length r)%nat) by (destruct r; [contradiction | simpl; lia]).
    pose proof (ascending_shift cur ts O Hasc) as Hasc'.
    destruct (scatter_spec F Fth (fun _ a c => sub a (mul cq c)) (fun _ c => neg (mul cq c))
                (map (fun t => ((cur + fst t)%nat, snd t)) ts) (cur + 0)%nat r Hasc')
      as (r' & Hr' & Hl' & _ & Hev').
    - intros i c Hi. apply in_map_iff in Hi. destruct Hi as ([j c'] & Heq & Hj).
      simpl in Heq. injection Heq as <- <-. apply Hle in Hj. split; [lia | ring].
    - assert (Htop : nth (pred (length r)) r' zero = zero).
      { assert (Hin' : In ((cur + db)%nat, lead) (map (fun t => ((cur + fst t)%nat, snd t)) ts)).
        { apply in_map_iff. exists (db, lead). split; [reflexivity | exact Hin]. }
        replace (pred (length r)) with (cur + db)%nat by lia.
        rewrite (scatter_nth_in _ _ _ _ _ _ _ Hasc' Hr' Hin').
        replace (cur + db)%nat with (pred (length r)) by lia.
        rewrite nth_pred_last, Hcq. field. exact Hlead. }
      exists r'. split; [exact Hr' | ]. split; [exact Hl' | ]. split; [exact Htop | ]. split.
      + rewrite <- Hl'. apply trunc_shrink.
        * intro E. subst r'. simpl in Hl'. lia.
        * rewrite <- nth_pred_last, Hl'. exact Htop.
      + intro x. rewrite Hev', seval_shift, Hev. ring.
  Qed.

  (* ---------------- the while loop ---------------- *)

  Lemma div_loop_spec : forall b db lead,
    dos_degree F b = ROk db -> terms_ok (dos_terms b) db lead (dos_eval b) -> lead <> zero ->
    forall fuel q r,
      canon F r -> (length r < fuel)%nat -> (length r <= length q + db)%nat ->
      (forall j, (j + db < length r)%nat -> nth j q zero = zero) ->
      exists q' r', div_loop F fuel b (inv lead) q r = ROk (q', r') /\
        canon F r' /\ (length r' <= db)%nat /\ length q' = length q /\
        forall x, add (mul (eval q x) (dos_eval b x)) (eval r x)
                = add (mul (eval q' x) (dos_eval b x)) (eval r' x).
  Proof.
    intros b db lead Hdb Hts Hlead.
    induction fuel as [|fuel IH]; intros q r Hc Hf Hq Hz; [lia | ].
    cbn [div_loop]. destruct (d_is_zero F r) eqn:Ez.
    - exists q, r. apply (canon_zero_nil F eqb_ok) in Ez; [ | exact Hc]. subst r.
      split; [reflexivity | ]. split; [exact Hc | ]. split; [simpl; lia | ].
      split; reflexivity.
    - rewrite (d_degree_nonzero F eqb_ok r Hc Ez). cbn [bind]. rewrite Hdb. cbn [bind].
      assert (Hn : r <> []) by (intro; subst; discriminate).
      destruct (Nat.ltb (pred (length r)) db) eqn:El.
      + apply Nat.ltb_lt in El. exists q, r.
        split; [reflexivity | ]. split; [exact Hc | ]. split; [lia | ]. split; reflexivity.
      + apply Nat.ltb_ge in El.
        assert (Hpos : (0 < length r)%nat) by (destruct r; [contradiction | simpl; lia]).
        assert (Hcur :(pred (length r) - db < length q)%nat) by lia.
        unfold set_at. apply Nat.ltb_lt in Hcur as Ecur. rewrite Ecur. cbn [bind].
        destruct (div_step (dos_terms b) db lead (dos_eval b) r _ _ Hts Hlead Hn El eq_refl eq_refl)
          as (r' & Hr' & _ & _ & Hsh & Hev').
        rewrite Hr'. cbn [bind].
        destruct (IH (upd q (pred (length r) - db) (fun _ => mul (last r zero) (inv lead))) (trunc r'))
          as (q'' & r'' & Hl & Hc'' & Hlen'' & Hlq & Hev'').
        * apply (trunc_canon F eqb_ok).
        * lia.
        * rewrite upd_length. lia.
        * intros j Hj. rewrite (upd_nth_other F) by lia. apply Hz. lia.
        * exists q'', r''. split; [exact Hl | ]. split; [exact Hc'' | ].
          split; [exact Hlen'' | ]. split; [rewrite Hlq; apply upd_length | ].
          intro x. rewrite <- Hev''.
          rewrite (trunc_eval F Fth eqb_ok), Hev', (upd_eval F Fth) by exact Hcur.
          cbv beta. rewrite (Hz (pred (length r) - db)%nat) by lia. ring.
  Qed.

  (* ---------------- divide_with_q_and_r ---------------- *)

  Theorem divide_spec : forall a b, dos_canon a -> dos_canon b -> dos_is_zero F b = false ->
    exists q r db, divide F a b = ROk (q, r) /\ dos_degree F b = ROk db /\
      canon F q /\ canon F r /\ (length r <= db)%nat /\
      forall x, dos_eval a x = add (mul (eval q x) (dos_eval b x)) (eval r x).
  Proof.
    intros a b Ha Hb Hbz.
    destruct (dos_terms_ok b Hb Hbz) as (db & Hdb & Hlead & Hts).
    unfold divide. destruct (dos_is_zero F a) eqn:Eaz.
    - exists [], [], db. split; [reflexivity | ]. split; [exact Hdb | ].
      split; [left; reflexivity | ]. split; [left; reflexivity | ]. split; [simpl; lia | ].
      intro x. rewrite (dos_zero_eval a Eaz). simpl. ring.
    - rewrite Hbz. destruct (dos_degree_ok a Ha) as [da Hda]. rewrite Hda, Hdb. cbn [bind].
      destruct (dos_to_dense_ok a da Ha Eaz Hda) as (r0 & Hr0 & Hc0 & Hl0 & He0).
      rewrite Hr0. cbn [bind].
      destruct (Nat.ltb da db) eqn:El.
      + apply Nat.ltb_lt in El. exists [], r0, db.
        split; [reflexivity | ]. split; [reflexivity | ]. split; [left; reflexivity | ].
        split; [exact Hc0 | ]. split; [lia | ].
        intro x. rewrite He0. simpl. ring.
      + apply Nat.ltb_ge in El.
        apply (is0_false F eqb_ok) in Hlead as Elead. rewrite Elead.
        destruct (div_loop_spec b db _ Hdb Hts Hlead (S (length r0))
                    (repeat zero (da - db + 1)) r0) as (q' & r' & Hloop & Hc' & Hlen' & _ & Hev').
        * exact Hc0.
        * lia.
        * rewrite repeat_length. lia.
        * intros j _. apply (nth_repeat_zero F).
        * rewrite Hloop. cbn [bind fst snd]. rewrite (d_from_vec_ok F eqb_ok). cbn [bind].
          exists (trunc q'), r', db.
          split; [reflexivity | ]. split; [reflexivity | ].
          split; [apply (trunc_canon F eqb_ok) | ]. split; [exact Hc' | ]. split; [exact Hlen' | ].
          intro x. rewrite (trunc_eval F Fth eqb_ok), <- Hev', (eval_repeat_zero F Fth), He0. ring.
  Qed.

End Division.

(* (4x^3 + 3x^2 + 2x + 1) / (3x^2 + 1) over Z_7, dense dividend and sparse divisor:
   quotient 6x + 1, remainder 3x *)
Example divide_example :
  divide (ZpOps 7) (DP [1; 2; 3; 4]) (SP [(0%nat, 1); (2%nat, 3)]) = ROk ([1; 6], [0; 3]).
Proof. vm_compute. reflexivity. Qed.

(* sparse dividend x^5 + 1, dense divisor x + 1: remainder 0 *)
Example divide_example_sd :
  divide (ZpOps 7) (SP [(0%nat, 1); (5%nat, 1)]) (DP [1; 1]) = ROk ([1; 6; 1; 6; 1], []).
Proof. vm_compute. reflexivity. Qed.
