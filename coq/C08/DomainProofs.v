(* C08 proofs: evaluation over a (coset) domain, pointwise operators on evaluation vectors,
   interpolation.

   The transform algorithms (FFT / IFFT) are property C07.  Here the forward transform is
   the SPEC [dft_spec] (values of an n-coefficient vector at h g^i) and the inverse is the
   SPEC [idft_spec] (explicit inverse-DFT formula).  What is proved:

     elements_spec            the Elements iterator is h g^i, i < n
     d_eval_over_domain_spec  folding the chunks of a polynomial of ANY length modulo
                              X^n - h^n and transforming yields the values p(h g^i)
     ev_*_nth / ev_*_length   the pointwise operators on evaluation vectors
     s_eval_over_domain_spec  sparse evaluation over the domain never panics
     interpolate_spec         DFT inversion on the coset: the result is canonical, of
                              length <= n and takes the prescribed values on the domain
     roundtrip_spec           interpolate (evaluate p) = p for canonical p, len p <= n *)
From V Require Import Base.Field C08.Model C08.Common C08.SparseMul.
Require Import Lia Field Ring.

Section DomainProofs.
  Context {K : Type} (F : Fops K).
  Local Notation zero := (f0 F).
  Local Notation one := (f1 F).
  Local Notation add := (fadd F).
  Local Notation sub := (fsub F).
  Local Notation mul := (fmul F).
  Local Notation neg := (fneg F).
  Local Notation inv := (finv F).
  Local Notation is0 := (is0 F).
  Local Notation eval := (eval F).
  Local Notation seval := (seval F).
  Local Notation pown := (pown F).
  Local Notation trunc := (trunc F).

  Hypothesis Fth : field_theory zero one add mul sub neg (fun a b => mul a (inv b)) inv eq.
  Hypothesis eqb_ok : forall a b, feqb F a b = true <-> a = b.
  Add Field KF : Fth.

  Local Open Scope nat_scope.

  (* ---------------- powers ---------------- *)

  Lemma pown_0 : forall x, pown x 0 = one.
  Proof. reflexivity. Qed.
  Lemma pown_S : forall x k, pown x (S k) = mul x (pown x k).
  Proof. reflexivity. Qed.

  Lemma pown_one : forall k, pown one k = one.
  Proof. induction k as [|k IH]; [reflexivity | rewrite pown_S, IH; ring]. Qed.

  Lemma pown_mul_distr : forall a b k, pown (mul a b) k = mul (pown a k) (pown b k).
  Proof.
    intros a b. induction k as [|k IH]; [rewrite !pown_0; ring | rewrite !pown_S, IH; ring].
  Qed.

  Lemma pown_pown_comm : forall x a b, pown (pown x a) b = pown (pown x b) a.
  Proof.
    intros x a b. rewrite <- !(pown_mul F Fth). f_equal. lia.
  Qed.

  Lemma inv_l : forall a, a <> zero -> mul (inv a) a = one.
  Proof. intros a Ha. field. exact Ha. Qed.

  Lemma pown_inv_l : forall a k, a <> zero -> mul (pown (inv a) k) (pown a k) = one.
  Proof.
    intros a k Ha. rewrite <- pown_mul_distr, (inv_l a Ha), pown_one. reflexivity.
  Qed.

  Lemma mul_cancel_l : forall c u v, c <> zero -> mul c u = mul c v -> u = v.
  Proof.
    intros c u v Hc H.
    transitivity (mul (inv c) (mul c u)); [field; exact Hc | rewrite H; field; exact Hc].
  Qed.

  (* ---------------- 1. the Elements iterator ---------------- *)

  Theorem elements_spec : forall n g cur,
    elements F n g cur = map (fun i => mul cur (pown g i)) (seq 0 n).
  Proof.
    induction n as [|n IH]; intros g cur; [reflexivity | ].
    cbn [elements seq map]. rewrite <- seq_shift, map_map, IH. f_equal.
    - rewrite pown_0. ring.
    - apply map_ext. intro i. rewrite pown_S. ring.
  Qed.

  (* ---------------- 2. dense evaluation over the domain ---------------- *)

  Lemma fold_chunks_length : forall fuel n h i first rest,
    length (fold_chunks F fuel n h i first rest) = length first.
  Proof.
    induction fuel as [|fuel IH]; intros n h i first rest; [reflexivity | ].
    destruct rest as [|c rest]; [reflexivity | ].
    cbn [fold_chunks]. rewrite IH. destruct (feqb F h one); apply zip_into_length.
  Qed.

  (* p = (first n coefficients) + x^n (the rest), whatever the length of p *)
  Lemma eval_firstn_skipn : forall n l x,
    eval l x = add (eval (firstn n l) x) (mul (pown x n) (eval (skipn n l) x)).
  Proof.
    intros n l x.
    transitivity (eval (firstn n l ++ skipn n l) x); [rewrite firstn_skipn; reflexivity | ].
    rewrite (eval_app F Fth).
    destruct (Nat.le_gt_cases n (length l)) as [Hl | Hl].
    - rewrite firstn_length_le by lia. reflexivity.
    - rewrite (skipn_all2 l) by lia. cbn [Model.eval]. ring.
  Qed.

  (* at a point x with x^n = h^n, folding chunk k (scaled by h^((i+1+k) n)) into the first
     chunk adds x^((i+1+k) n) * chunk_k(x): the value of first + h^((i+1) n) * rest *)
  Lemma fold_chunks_eval : forall fuel n h i first rest x,
    0 < n -> pown x n = pown h n ->
    (length first = n \/ rest = []) -> length rest <= fuel ->
    eval (fold_chunks F fuel n h i first rest) x =
    add (eval first x) (mul (pown (pown h n) (S i)) (eval rest x)).
  Proof.
    induction fuel as [|fuel IH]; intros n h i first rest x Hn Hx Hinv Hfuel.
    - destruct rest; [cbn [fold_chunks Model.eval]; ring | simpl in Hfuel; lia].
    - destruct rest as [|c rest]; [cbn [fold_chunks Model.eval]; ring | ].
      destruct Hinv as [Hlen | Hnil]; [ | discriminate].
      cbn [fold_chunks].
      set (R := c :: rest) in *.
      rewrite IH; try assumption.
      + rewrite (eval_firstn_skipn n R x), Hx.
        assert (Hck : length (firstn n R) <= length first) by (rewrite firstn_length; lia).
        destruct (feqb F h one) eqn:Eh.
        * apply eqb_ok in Eh. subst h.
          rewrite (zip_add_eval F Fth) by exact Hck. rewrite !pown_one. ring.
        * rewrite (zip_addmul_eval F Fth) by exact Hck.
          replace ((i + 1) * n) with (n * S i) by lia. rewrite (pown_mul F Fth).
          rewrite (pown_S _ (S i)). ring.
      + left. destruct (feqb F h one); rewrite zip_into_length; exact Hlen.
      + rewrite skipn_length. lia.
  Qed.

  Lemma repeat_map_seq : forall (c : K) n s, repeat c n = map (fun _ => c) (seq s n).
  Proof.
    intros c. induction n as [|n IH]; intro s; [reflexivity | ].
    cbn [repeat seq map]. rewrite (IH (S s)). reflexivity.
  Qed.

  (* every element of the coset h<g> satisfies x^n = h^n *)
  Lemma coset_pown : forall n h g i, pown g n = one -> pown (mul h (pown g i)) n = pown h n.
  Proof.
    intros n h g i Hg. rewrite pown_mul_distr, pown_pown_comm, Hg, pown_one. ring.
  Qed.

  Theorem d_eval_over_domain_spec : forall p n h g,
    0 < n -> pown g n = one ->
    d_eval_over_domain F p n h g = map (fun i => eval p (mul h (pown g i))) (seq 0 n).
  Proof.
    intros p n h g Hn Hg. unfold d_eval_over_domain.
    destruct (d_is_zero F p) eqn:Hz.
    - rewrite (repeat_map_seq zero n 0). apply map_ext. intro i. symmetry.
      apply (d_is_zero_eval F Fth eqb_ok). exact Hz.
    - unfold dft_spec. rewrite elements_spec, map_map. apply map_ext. intro i.
      set (x := mul h (pown g i)).
      assert (Hx : pown x n = pown h n) by (apply coset_pown; exact Hg).
      rewrite (resize_eval F Fth) by (rewrite fold_chunks_length, firstn_length; lia).
      rewrite fold_chunks_eval; try assumption.
      + rewrite (eval_firstn_skipn n p x), Hx, pown_S, pown_0. ring.
      + destruct (Nat.le_gt_cases n (length p)) as [Hl | Hl].
        * left. apply firstn_length_le. exact Hl.
        * right. apply skipn_all2. lia.
      + rewrite skipn_length. lia.
  Qed.

  (* ---------------- 3. pointwise operators on evaluation vectors ---------------- *)

  Lemma zip_into_nth : forall (f : K -> K -> K), f zero zero = zero ->
    forall a b i, length a = length b ->
    nth i (zip_into f a b) zero = f (nth i a zero) (nth i b zero).
  Proof.
    intros f Hf. induction a as [|x a IH]; intros b i Hl.
    - destruct b; [ | discriminate]. destruct i; simpl; symmetry; exact Hf.
    - destruct b as [|y b]; [discriminate | ]. destruct i; simpl; [reflexivity | ].
      apply IH. simpl in Hl. lia.
  Qed.

  Theorem ev_add_nth : forall a b i, length a = length b ->
    nth i (ev_add F a b) zero = add (nth i a zero) (nth i b zero).
  Proof. intros a b i Hl. unfold ev_add. apply zip_into_nth; [ring | exact Hl]. Qed.
  Theorem ev_sub_nth : forall a b i, length a = length b ->
    nth i (ev_sub F a b) zero = sub (nth i a zero) (nth i b zero).
  Proof. intros a b i Hl. unfold ev_sub. apply zip_into_nth; [ring | exact Hl]. Qed.
  Theorem ev_mul_nth : forall a b i, length a = length b ->
    nth i (ev_mul F a b) zero = mul (nth i a zero) (nth i b zero).
  Proof. intros a b i Hl. unfold ev_mul. apply zip_into_nth; [ring | exact Hl]. Qed.
  (* division: a_i * inv b_i, where inv is the model's total inverse (inv 0 is whatever the
     dictionary says; the Rust batch inversion leaves zeros in place, i.e. inv 0 = 0) *)
  Theorem ev_div_nth : forall a b i, length a = length b ->
    nth i (ev_div F a b) zero = mul (nth i a zero) (inv (nth i b zero)).
  Proof.
    intros a b i Hl. unfold ev_div.
    apply (zip_into_nth (fun x y => mul x (inv y))); [ring | exact Hl].
  Qed.
  Theorem ev_scale_nth : forall a e i,
    nth i (ev_scale F a e) zero = mul (nth i a zero) e.
  Proof.
    intros a e. unfold ev_scale. induction a as [|x a IH]; intro i.
    - destruct i; simpl; ring.
    - destruct i; simpl; [reflexivity | apply IH].
  Qed.

  Theorem ev_add_length : forall a b, length (ev_add F a b) = length a.
  Proof. intros. apply zip_into_length. Qed.
  Theorem ev_sub_length : forall a b, length (ev_sub F a b) = length a.
  Proof. intros. apply zip_into_length. Qed.
  Theorem ev_mul_length : forall a b, length (ev_mul F a b) = length a.
  Proof. intros. apply zip_into_length. Qed.
  Theorem ev_div_length : forall a b, length (ev_div F a b) = length a.
  Proof. intros. apply zip_into_length. Qed.
  Theorem ev_scale_length : forall a e, length (ev_scale F a e) = length a.
  Proof. intros. apply map_length. Qed.

  (* ---------------- 3b. sparse evaluation over the domain ---------------- *)

  Lemma mapres_ok : forall (A B : Type) (f : A -> res B) (g : A -> B) (l : list A),
    (forall a, f a = ROk (g a)) -> mapres f l = ROk (map g l).
  Proof.
    intros A B f g l H. induction l as [|a l IH]; [reflexivity | ].
    cbn [mapres map]. rewrite H, IH. reflexivity.
  Qed.

  Theorem s_eval_over_domain_spec : forall s n h g, scanon F s ->
    s_eval_over_domain F s n h g = ROk (map (fun i => seval s (mul h (pown g i))) (seq 0 n)).
  Proof.
    intros s n h g Hs. unfold s_eval_over_domain.
    rewrite (mapres_ok _ _ _ (fun x => seval s x))
      by (intro x; apply (s_evaluate_spec F Fth eqb_ok); exact Hs).
    rewrite elements_spec, map_map. reflexivity.
  Qed.

  (* ---------------- finite sums ---------------- *)

  Fixpoint sumn (f : nat -> K) (n : nat) : K :=
    match n with O => zero | S n' => add (sumn f n') (f n') end.

  Lemma sumn_S : forall f n, sumn f (S n) = add (sumn f n) (f n).
  Proof. reflexivity. Qed.

  Lemma sumn_ext : forall n f g, (forall j, j < n -> f j = g j) -> sumn f n = sumn g n.
  Proof.
    induction n as [|n IH]; intros f g H; [reflexivity | ].
    rewrite !sumn_S. rewrite (IH f g) by (intros j Hj; apply H; lia).
    rewrite (H n) by lia. reflexivity.
  Qed.

  Lemma sumn_zero : forall n f, (forall j, j < n -> f j = zero) -> sumn f n = zero.
  Proof.
    induction n as [|n IH]; intros f H; [reflexivity | ].
    rewrite sumn_S, (IH f) by (intros j Hj; apply H; lia).
    rewrite (H n) by lia. ring.
  Qed.

  Lemma sumn_scale : forall c f n, sumn (fun j => mul c (f j)) n = mul c (sumn f n).
  Proof.
    intros c f. induction n as [|n IH]; [cbn [sumn]; ring | ].
    rewrite !sumn_S, IH. ring.
  Qed.

  Lemma sumn_scale_r : forall c f n, mul (sumn f n) c = sumn (fun j => mul c (f j)) n.
  Proof. intros c f n. rewrite sumn_scale. ring. Qed.

  Lemma sumn_add : forall f g n,
    sumn (fun j => add (f j) (g j)) n = add (sumn f n) (sumn g n).
  Proof.
    intros f g. induction n as [|n IH]; [cbn [sumn]; ring | ].
    rewrite !sumn_S, IH. ring.
  Qed.

  Lemma sumn_swap : forall (f : nat -> nat -> K) n m,
    sumn (fun i => sumn (fun j => f i j) m) n = sumn (fun j => sumn (fun i => f i j) n) m.
  Proof.
    intros f. induction n as [|n IH]; intro m.
    - cbn [sumn]. symmetry. apply sumn_zero. reflexivity.
    - rewrite sumn_S, IH.
      rewrite <- (sumn_add (fun j => sumn (fun i => f i j) n) (fun j => f n j) m).
      apply sumn_ext. intros j _. reflexivity.
  Qed.

  Lemma sumn_head : forall f n, sumn f (S n) = add (f 0) (sumn (fun j => f (S j)) n).
  Proof.
    intros f. induction n as [|n IH]; [cbn [sumn]; ring | ].
    rewrite (sumn_S f (S n)), IH, (sumn_S _ n). ring.
  Qed.

  Lemma sumn_single : forall n f k, k < n ->
    (forall i, i < n -> i <> k -> f i = zero) -> sumn f n = f k.
  Proof.
    induction n as [|n IH]; intros f k Hk H; [lia | ].
    rewrite sumn_S. destruct (Nat.eq_dec k n) as [-> | Hne].
    - rewrite sumn_zero; [ring | intros j Hj; apply H; lia].
    - rewrite (IH f k); [ | lia | intros i Hi Hik; apply H; lia].
      rewrite (H n) by lia. ring.
  Qed.

  (* a coefficient list of length <= n as a sum of n monomials *)
  Lemma eval_sum_n : forall n p x, length p <= n ->
    eval p x = sumn (fun m => mul (nth m p zero) (pown x m)) n.
  Proof.
    induction n as [|n IH]; intros p x Hl.
    - destruct p; [reflexivity | simpl in Hl; lia].
    - destruct p as [|c t].
      + symmetry. apply sumn_zero. intros j _. destruct j; cbn [nth]; ring.
      + rewrite sumn_head. cbn [Model.eval nth].
        rewrite (IH t x) by (simpl in Hl; lia).
        rewrite <- sumn_scale, pown_0.
        f_equal; [ring | ]. apply sumn_ext. intros j _. rewrite pown_S. ring.
  Qed.

  Lemma nth_map_seq : forall (f : nat -> K) n j d, j < n -> nth j (map f (seq 0 n)) d = f j.
  Proof.
    intros f n j d Hj.
    rewrite nth_indep with (d' := f 0) by (rewrite map_length, seq_length; exact Hj).
    rewrite map_nth, seq_nth by exact Hj. reflexivity.
  Qed.

  (* ---------------- roots of unity: orthogonality ---------------- *)

  Lemma geo_telescope : forall w n, mul (sub w one) (sumn (pown w) n) = sub (pown w n) one.
  Proof.
    intros w. induction n as [|n IH]; [cbn [sumn]; rewrite pown_0; ring | ].
    rewrite sumn_S, pown_S.
    transitivity (add (mul (sub w one) (sumn (pown w) n)) (mul (sub w one) (pown w n))); [ring | ].
    rewrite IH. ring.
  Qed.

  (* sum_{j<n} w^j = 0 for an n-th root of unity w <> 1 *)
  Lemma geo_zero : forall w n, pown w n = one -> w <> one -> sumn (pown w) n = zero.
  Proof.
    intros w n Hn Hw. pose proof (geo_telescope w n) as H. rewrite Hn in H.
    assert (H0 : mul (sub w one) (sumn (pown w) n) = zero) by (rewrite H; ring).
    destruct (mul_eq_zero F Fth eqb_ok _ _ H0) as [E | E]; [ | exact E].
    exfalso. apply Hw. transitivity (add (sub w one) one); [ring | rewrite E; ring].
  Qed.

  Lemma geo_one : forall n, sumn (pown one) n = of_nat F n.
  Proof.
    induction n as [|n IH]; [reflexivity | ].
    rewrite sumn_S, IH, pown_one. cbn [of_nat]. ring.
  Qed.

  Lemma root_neq_zero : forall g n, 0 < n -> pown g n = one -> g <> zero.
  Proof.
    intros g n Hn Hg E. subst g. destruct n as [|n]; [lia | ].
    rewrite pown_S in Hg. apply (one_neq_zero F Fth). rewrite <- Hg. ring.
  Qed.

  Lemma inv_root : forall g n, 0 < n -> pown g n = one -> pown (inv g) n = one.
  Proof.
    intros g n Hn Hg. pose proof (pown_inv_l g n (root_neq_zero g n Hn Hg)) as H.
    rewrite Hg in H. rewrite <- H. ring.
  Qed.

  Lemma orth_root : forall g n a b, 0 < n -> pown g n = one ->
    pown (mul (pown g a) (pown (inv g) b)) n = one.
  Proof.
    intros g n a b Hn Hg.
    rewrite pown_mul_distr, (pown_pown_comm g), (pown_pown_comm (inv g)), Hg.
    rewrite (inv_root g n Hn Hg), !pown_one. ring.
  Qed.

  Lemma orth_neq_one : forall g n a b, 0 < n -> pown g n = one ->
    (forall k, 0 < k < n -> pown g k <> one) -> a < n -> b < n -> a <> b ->
    mul (pown g a) (pown (inv g) b) <> one.
  Proof.
    intros g n a b Hn Hg Hprim Ha Hb Hab E.
    pose proof (root_neq_zero g n Hn Hg) as Hg0.
    pose proof (pown_inv_l g b Hg0) as Hc.
    assert (E2 : pown g a = pown g b).
    { transitivity (mul (pown g a) (mul (pown (inv g) b) (pown g b))); [rewrite Hc; ring | ].
      transitivity (mul (mul (pown g a) (pown (inv g) b)) (pown g b)); [ring | rewrite E; ring]. }
    destruct (Nat.lt_ge_cases a b) as [Hlt | Hge].
    - apply (Hprim (b - a)); [lia | ].
      apply (mul_cancel_l (pown g a)); [apply (pown_neq_zero F Fth eqb_ok); exact Hg0 | ].
      rewrite <- (pown_add F Fth). replace (a + (b - a)) with b by lia. rewrite <- E2. ring.
    - apply (Hprim (a - b)); [lia | ].
      apply (mul_cancel_l (pown g b)); [apply (pown_neq_zero F Fth eqb_ok); exact Hg0 | ].
      rewrite <- (pown_add F Fth). replace (b + (a - b)) with a by lia. rewrite E2. ring.
  Qed.

  (* sum_{t<n} (g^a g^-b)^t = n [a = b] *)
  Lemma orth_sum : forall g n a b, 0 < n -> pown g n = one ->
    (forall k, 0 < k < n -> pown g k <> one) -> a < n -> b < n ->
    sumn (pown (mul (pown g a) (pown (inv g) b))) n = if Nat.eqb a b then of_nat F n else zero.
  Proof.
    intros g n a b Hn Hg Hprim Ha Hb. destruct (Nat.eqb_spec a b) as [-> | Hne].
    - replace (mul (pown g b) (pown (inv g) b)) with one; [apply geo_one | ].
      symmetry. rewrite <- (pown_inv_l g b (root_neq_zero g n Hn Hg)). ring.
    - apply geo_zero; [apply orth_root; assumption | ].
      apply (orth_neq_one g n a b); assumption.
  Qed.

  (* ---------------- 4. interpolation ---------------- *)

  Lemma resize_same : forall (e : list K) n, length e = n -> resize F n e = e.
  Proof.
    intros e n <-. unfold resize. rewrite firstn_all, Nat.sub_diag. apply app_nil_r.
  Qed.

  (* the inverse-DFT formula takes the prescribed values on the coset *)
  Lemma idft_eval : forall e n h g k,
    length e = n -> 0 < n -> pown g n = one ->
    (forall k, 0 < k < n -> pown g k <> one) -> h <> zero -> of_nat F n <> zero -> k < n ->
    eval (idft_spec F n h g e) (mul h (pown g k)) = nth k e zero.
  Proof.
    intros e n h g k Hlen Hn Hg Hprim Hh Hnn Hk.
    unfold idft_spec.
    set (x := mul h (pown g k)).
    set (ni := inv (of_nat F n)).
    rewrite (eval_sum_n n) by (rewrite map_length, seq_length; lia).
    transitivity (sumn (fun j => mul ni (sumn (fun i =>
                    mul (nth i e zero) (pown (mul (pown g k) (pown (inv g) i)) j)) n)) n).
    { apply sumn_ext. intros j Hj. rewrite nth_map_seq by exact Hj.
      rewrite (eval_sum_n n e) by lia.
      set (S1 := sumn (fun m => mul (nth m e zero) (pown (pown (inv g) j) m)) n).
      assert (HS : sumn (fun i => mul (nth i e zero) (pown (mul (pown g k) (pown (inv g) i)) j)) n
                   = mul (pown (pown g k) j) S1).
      { unfold S1. rewrite <- sumn_scale. apply sumn_ext. intros i Hi.
        rewrite pown_mul_distr, (pown_pown_comm (inv g) i j). ring. }
      rewrite HS. unfold x. rewrite pown_mul_distr.
      pose proof (pown_inv_l h j Hh) as Hc.
      transitivity (mul (mul (mul ni (pown (pown g k) j)) S1) (mul (pown (inv h) j) (pown h j)));
        [ring | rewrite Hc; ring]. }
    rewrite sumn_scale, sumn_swap.
    transitivity (mul ni (sumn (fun i => mul (nth i e zero)
                    (sumn (pown (mul (pown g k) (pown (inv g) i))) n)) n)).
    { f_equal. apply sumn_ext. intros i Hi. rewrite <- sumn_scale. reflexivity. }
    rewrite (sumn_single n _ k Hk).
    - rewrite orth_sum by assumption. rewrite Nat.eqb_refl. unfold ni. field. exact Hnn.
    - intros i Hi Hne. rewrite orth_sum by assumption.
      destruct (Nat.eqb_spec k i); [lia | ring].
  Qed.

  Theorem interpolate_ok : forall e n h g,
    exists r, interpolate F e n h g = ROk r /\ canon F r /\ length r <= n.
  Proof.
    intros e n h g. unfold interpolate. rewrite (d_from_vec_ok F eqb_ok).
    eexists. split; [reflexivity | ]. split; [apply (trunc_canon F eqb_ok) | ].
    eapply Nat.le_trans; [apply trunc_length | ].
    unfold idft_spec. rewrite map_length, seq_length. lia.
  Qed.

  Theorem interpolate_spec : forall e n h g,
    length e = n -> 0 < n -> pown g n = one ->
    (forall k, 0 < k < n -> pown g k <> one) -> h <> zero -> of_nat F n <> zero ->
    exists r, interpolate F e n h g = ROk r /\ canon F r /\ length r <= n /\
      forall i, i < n -> eval r (mul h (pown g i)) = nth i e zero.
  Proof.
    intros e n h g Hlen Hn Hg Hprim Hh Hnn.
    destruct (interpolate_ok e n h g) as (r & Hr & Hc & Hl).
    exists r. split; [exact Hr | ]. split; [exact Hc | ]. split; [exact Hl | ].
    intros i Hi. unfold interpolate in Hr. rewrite (d_from_vec_ok F eqb_ok) in Hr.
    injection Hr as <-. rewrite (trunc_eval F Fth eqb_ok), (resize_same e n Hlen).
    apply idft_eval; assumption.
  Qed.

  (* ---------------- 5. round trip ---------------- *)

  Lemma trunc_app_zeros : forall p m, trunc (p ++ repeat zero m) = trunc p.
  Proof.
    induction p as [|c p IH]; intro m.
    - cbn [app]. induction m as [|m IHm]; [reflexivity | ].
      cbn [repeat Model.trunc]. rewrite IHm. cbn [Model.trunc].
      rewrite (is0_zero F eqb_ok). reflexivity.
    - cbn [app Model.trunc]. rewrite IH. reflexivity.
  Qed.

  Lemma nth_resize : forall n p j, length p <= n -> nth j (resize F n p) zero = nth j p zero.
  Proof.
    intros n p j Hl. unfold resize. rewrite firstn_all2 by lia.
    destruct (Nat.lt_ge_cases j (length p)) as [Hj | Hj].
    - apply app_nth1. exact Hj.
    - rewrite app_nth2 by lia. rewrite (nth_overflow p) by lia.
      apply nth_repeat_zero.
  Qed.

  (* inverse-DFT formula applied to the values of p on the coset: the coefficients of p *)
  Lemma idft_dft : forall p n h g,
    length p <= n -> 0 < n -> pown g n = one ->
    (forall k, 0 < k < n -> pown g k <> one) -> h <> zero -> of_nat F n <> zero ->
    idft_spec F n h g (map (fun i => eval p (mul h (pown g i))) (seq 0 n)) = resize F n p.
  Proof.
    intros p n h g Hl Hn Hg Hprim Hh Hnn.
    apply nth_ext with (d := zero) (d' := zero).
    { unfold idft_spec. rewrite map_length, seq_length, resize_length. reflexivity. }
    unfold idft_spec at 1. rewrite map_length, seq_length. intros j Hj.
    unfold idft_spec. rewrite nth_map_seq by exact Hj. rewrite nth_resize by exact Hl.
    set (ni := inv (of_nat F n)).
    set (e := map (fun i => eval p (mul h (pown g i))) (seq 0 n)).
    assert (He : eval e (pown (inv g) j) = mul (mul (nth j p zero) (pown h j)) (of_nat F n)).
    { rewrite (eval_sum_n n e) by (unfold e; rewrite map_length, seq_length; lia).
      transitivity (sumn (fun i => sumn (fun m =>
                      mul (mul (nth m p zero) (pown h m))
                          (pown (mul (pown g m) (pown (inv g) j)) i)) n) n).
      { apply sumn_ext. intros i Hi. unfold e. rewrite nth_map_seq by exact Hi.
        rewrite (eval_sum_n n p) by exact Hl.
        rewrite sumn_scale_r. apply sumn_ext. intros m Hm.
        rewrite !pown_mul_distr, (pown_pown_comm g i m). ring. }
      rewrite sumn_swap.
      transitivity (sumn (fun m => mul (mul (nth m p zero) (pown h m))
                      (sumn (pown (mul (pown g m) (pown (inv g) j))) n)) n).
      { apply sumn_ext. intros m Hm. rewrite <- sumn_scale. reflexivity. }
      rewrite (sumn_single n _ j Hj).
      - rewrite orth_sum by assumption. rewrite Nat.eqb_refl. reflexivity.
      - intros m Hm Hne. rewrite orth_sum by assumption.
        destruct (Nat.eqb_spec m j); [lia | ring]. }
    rewrite He. pose proof (pown_inv_l h j Hh) as Hc.
    transitivity (mul (mul (nth j p zero) (mul (of_nat F n) ni)) (mul (pown (inv h) j) (pown h j)));
      [ring | rewrite Hc; unfold ni; field; exact Hnn].
  Qed.

  Theorem roundtrip_spec : forall p n h g,
    canon F p -> length p <= n -> 0 < n -> pown g n = one ->
    (forall k, 0 < k < n -> pown g k <> one) -> h <> zero -> of_nat F n <> zero ->
    interpolate F (d_eval_over_domain F p n h g) n h g = ROk p.
  Proof.
    intros p n h g Hc Hl Hn Hg Hprim Hh Hnn.
    rewrite (d_eval_over_domain_spec p n h g Hn Hg).
    unfold interpolate. rewrite (d_from_vec_ok F eqb_ok). f_equal.
    rewrite resize_same by (rewrite map_length, seq_length; reflexivity).
    rewrite idft_dft by assumption.
    unfold resize. rewrite firstn_all2 by exact Hl.
    rewrite trunc_app_zeros. apply (trunc_id F eqb_ok). exact Hc.
  Qed.

End DomainProofs.

(* ---------------- concrete instance: F_97, n = 4, g = 22, h = 5 ---------------- *)

(* the number-theoretic premises are satisfiable: 22 is a primitive 4th root of unity
   modulo 97 (22^2 = 484 = -1), 5 <> 0, 4 <> 0 *)
Example c08_domain_hyps :
  pown (ZpOps 97) 22%Z 4 = f1 (ZpOps 97) /\
  pown (ZpOps 97) 22%Z 1 <> f1 (ZpOps 97) /\
  pown (ZpOps 97) 22%Z 2 <> f1 (ZpOps 97) /\
  pown (ZpOps 97) 22%Z 3 <> f1 (ZpOps 97) /\
  5%Z <> f0 (ZpOps 97) /\ of_nat (ZpOps 97) 4 <> f0 (ZpOps 97).
Proof. vm_compute. repeat split; intro H; discriminate H. Qed.

(* a polynomial longer than the domain: the folded transform gives its values on the coset *)
Example c08_domain_eval_long :
  d_eval_over_domain (ZpOps 97) [1; 2; 3; 4; 5; 6; 7; 8; 9; 10]%Z 4 5%Z 22%Z
  = map (fun i => eval (ZpOps 97) [1; 2; 3; 4; 5; 6; 7; 8; 9; 10]%Z
                    (fmul (ZpOps 97) 5%Z (pown (ZpOps 97) 22%Z i))) (seq 0 4).
Proof. vm_compute. reflexivity. Qed.

(* evaluate, then interpolate: round trip *)
Example c08_domain_roundtrip :
  interpolate (ZpOps 97) (d_eval_over_domain (ZpOps 97) [7; 0; 3]%Z 4 5%Z 22%Z) 4 5%Z 22%Z
  = ROk [7; 0; 3]%Z.
Proof. vm_compute. reflexivity. Qed.
