(* C08 proofs: dense (op) sparse -- Add / AddAssign / Sub / SubAssign<&SparsePolynomial>
   for DensePolynomial.  For all canonical operands: no panic, canonical result, and the
   result evaluates to the sum / difference everywhere. *)
From V Require Import Base.Field C08.Model C08.Common C08.SparseAdd.
Require Import Lia Field Ring.

Section MixedProofs.
  Context {K : Type} (F : Fops K).
  Local Notation zero := (f0 F).
  Local Notation one := (f1 F).
  Local Notation add := (fadd F).
  Local Notation sub := (fsub F).
  Local Notation mul := (fmul F).
  Local Notation neg := (fneg F).
  Local Notation inv := (finv F).
  Local Notation is0 := (is0 F).
  Local Notation eval := (eval F).
  Local Notation seval := (seval F).
  Local Notation pown := (pown F).
  Local Notation trunc := (trunc F).

  Hypothesis Fth : field_theory zero one add mul sub neg (fun a b => mul a (inv b)) inv eq.
  Hypothesis eqb_ok : forall a b, feqb F a b = true <-> a = b.
  Add Field KF : Fth.

  Local Open Scope nat_scope.

  (* ---------------- helpers ---------------- *)

  Lemma okd_ext : forall r (f g : K -> K), (forall x, f x = g x) -> okd F r f -> okd F r g.
  Proof.
    intros r f g Hfg (v & Hv & Hc & Hev). exists v. split; [exact Hv | ]. split; [exact Hc | ].
    intro x. rewrite Hev. apply Hfg.
  Qed.

  Lemma seval_map_id : forall s x, seval (map (fun t => (fst t, snd t)) s) x = seval s x.
  Proof. intros s x. rewrite map_fst_snd_id. reflexivity. Qed.

  Lemma seval_map_neg : forall s x,
    seval (map (fun t => (fst t, neg (snd t))) s) x = neg (seval s x).
  Proof.
    induction s as [|[i c] r IH]; intro x.
    - cbn. ring.
    - cbn [map fst snd Model.seval]. rewrite IH. ring.
  Qed.

  Lemma nth_nil_zero : forall i, nth i (@nil K) zero = zero.
  Proof. intros [|i]; reflexivity. Qed.

  (* canonical zero dense polynomial evaluates to zero *)
  Lemma canon_zero_eval : forall p, d_is_zero F p = true -> forall x, eval p x = zero.
  Proof. intros p Hz x. apply (d_is_zero_eval F Fth eqb_ok). exact Hz. Qed.

  (* degree() of a canonical sparse polynomial: Ok, and an upper bound of all degrees *)
  Lemma s_degree_bound : forall s, scanon F s ->
    exists ds, s_degree F s = ROk ds /\ forall i c, In (i, c) s -> i <= ds.
  Proof.
    intros s Hs. destruct s as [|t r].
    - exists 0. split; [reflexivity | ]. intros i c Hin. destruct Hin.
    - exists (fst (last (t :: r) (0, zero))). split.
      + apply (s_degree_nonzero F eqb_ok (t :: r) 0 Hs). discriminate.
      + intros i c Hin. exact (sorted_In_le_last F (t :: r) 0 i c Hs Hin).
  Qed.

  (* writing h(c) at the degrees of s into a fresh all-zero vector of length ds + 1 *)
  Lemma scatter_zero_base : forall (h : K -> K) s ds, scanon F s ->
    (forall i c, In (i, c) s -> i <= ds) ->
    exists r, scatter (fun _ _ c => h c) (resize F (ds + 1) []) s = ROk r /\
      forall x, eval r x = seval (map (fun t => (fst t, h (snd t))) s) x.
  Proof.
    intros h s ds Hs Hb.
    destruct (scatter_spec F Fth (fun _ _ c => h c) (fun _ c => h c) s 0
                (resize F (ds + 1) [])) as (v & Hv & _ & _ & Hev).
    - apply (sorted_ascending F). exact Hs.
    - intros i c Hin. rewrite resize_length. split; [specialize (Hb i c Hin); lia | ].
      unfold resize. rewrite firstn_nil. cbn [app]. rewrite (nth_repeat_zero F). ring.
    - exists v. split; [exact Hv | ]. intro x. rewrite Hev.
      rewrite (resize_eval F Fth) by (cbn [length]; lia). cbn [Model.eval]. ring.
  Qed.

  (* ---------------- &dense + &sparse ---------------- *)

  Lemma push_term_eval : forall r t x,
    eval (push_term F r t) x = add (eval r x) (mul (snd t) (pown x (fst t))).
  Proof.
    intros r [i c] x. unfold push_term. cbn [fst snd].
    destruct (Nat.ltb i (length r)) eqn:E.
    - apply Nat.ltb_lt in E. rewrite (upd_eval F Fth) by exact E. ring.
    - apply Nat.ltb_ge in E.
      assert (Hp : pown x i = mul (pown x (length r)) (pown x (i - length r))).
      { rewrite <- (pown_add F Fth). f_equal. lia. }
      rewrite !(eval_app F Fth), (eval_repeat_zero F Fth), repeat_length.
      cbn [Model.eval]. rewrite Hp. ring.
  Qed.

  (* the term loop, for ANY term list (no sortedness needed) *)
  Lemma push_fold_eval : forall s r x,
    eval (fold_left (push_term F) s r) x = add (eval r x) (seval s x).
  Proof.
    induction s as [|[i c] s IH]; intros r x.
    - cbn [fold_left Model.seval]. ring.
    - cbn [fold_left Model.seval]. rewrite IH, push_term_eval. cbn [fst snd]. ring.
  Qed.

  Theorem d_add_sparse_spec : forall p s, canon F p -> scanon F s ->
    okd F (d_add_sparse F p s) (fun x => add (eval p x) (seval s x)).
  Proof.
    intros p s Hp Hs. unfold d_add_sparse.
    destruct (d_is_zero F p) eqn:Hz.
    - apply (okd_ext _ (seval s)).
      + intro x. rewrite (canon_zero_eval p Hz). ring.
      + apply (s_to_dense_spec F Fth eqb_ok). exact Hs.
    - destruct (s_is_zero F s) eqn:Hsz.
      + apply okd_id; [exact Hp | ]. intro x.
        rewrite (s_is_zero_eval F Fth eqb_ok s Hsz). ring.
      + destruct (s_degree_ok F eqb_ok s Hs) as [ds Hds].
        destruct (d_degree_ok F eqb_ok p Hp) as [dp Hdp].
        rewrite Hds, Hdp. cbn [bind]. apply (okd_trunc F Fth eqb_ok).
        intro x. apply push_fold_eval.
  Qed.

  (* ---------------- dense += &sparse ---------------- *)

  Theorem d_add_assign_sparse_spec : forall p s, canon F p -> scanon F s ->
    okd F (d_add_assign_sparse F p s) (fun x => add (eval p x) (seval s x)).
  Proof.
    intros p s Hp Hs. unfold d_add_assign_sparse.
    destruct (s_is_zero F s) eqn:Hsz.
    - apply okd_id; [exact Hp | ]. intro x.
      rewrite (s_is_zero_eval F Fth eqb_ok s Hsz). ring.
    - destruct (s_degree_bound s Hs) as (ds & Hds & Hb). rewrite Hds.
      destruct (d_is_zero F p) eqn:Hz.
      + cbn [bind].
        destruct (scatter_zero_base (fun c => c) s ds Hs Hb) as (v & Hv & Hev).
        rewrite Hv. cbn [bind]. apply (okd_trunc F Fth eqb_ok).
        intro x. rewrite Hev, seval_map_id, (canon_zero_eval p Hz). ring.
      + rewrite (d_degree_nonzero F eqb_ok p Hp Hz). cbn [bind].
        assert (Hlen : length p <> 0).
        { destruct p; [discriminate | cbn [length]; lia]. }
        set (lhs := pred (length p)).
        assert (Hfirst : resize F (Nat.max lhs ds + 1) p =
                         p ++ repeat zero (Nat.max lhs ds + 1 - length p)).
        { unfold resize. rewrite firstn_all2 by (unfold lhs; lia). reflexivity. }
        destruct (scatter_spec F Fth
                    (fun pow a c => if Nat.leb pow lhs then add a c else c)
                    (fun _ c => c) s 0 (resize F (Nat.max lhs ds + 1) p))
          as (v & Hv & _ & _ & Hev).
        * apply (sorted_ascending F). exact Hs.
        * intros i c Hin. rewrite resize_length. specialize (Hb i c Hin).
          split; [lia | ].
          destruct (Nat.leb i lhs) eqn:E; [reflexivity | ].
          apply Nat.leb_gt in E. rewrite Hfirst.
          rewrite app_nth2 by (unfold lhs in E; lia).
          rewrite (nth_repeat_zero F). ring.
        * rewrite Hv. cbn [bind]. apply (okd_trunc F Fth eqb_ok).
          intro x. rewrite Hev, seval_map_id.
          rewrite (resize_eval F Fth) by (unfold lhs; lia). reflexivity.
  Qed.

  (* ---------------- &dense - &sparse, dense -= &sparse ---------------- *)

  (* the loop shared by both (non-zero operands) *)
  Lemma d_sub_sparse_loop_spec : forall p s, canon F p -> scanon F s ->
    d_is_zero F p = false ->
    okd F (d_sub_sparse_loop F p s) (fun x => sub (eval p x) (seval s x)).
  Proof.
    intros p s Hp Hs Hz. unfold d_sub_sparse_loop.
    rewrite (d_degree_nonzero F eqb_ok p Hp Hz). cbn [bind].
    destruct (s_degree_bound s Hs) as (ds & Hds & Hb). rewrite Hds. cbn [bind].
    assert (Hlen : length p <> 0).
    { destruct p; [discriminate | cbn [length]; lia]. }
    set (lhs := pred (length p)).
    set (upper := if Nat.ltb lhs ds then repeat zero (ds - lhs) else []).
    assert (Hul : ds < length p + length upper).
    { unfold upper. destruct (Nat.ltb lhs ds) eqn:E.
      - apply Nat.ltb_lt in E. rewrite repeat_length. unfold lhs in *. lia.
      - apply Nat.ltb_ge in E. cbn [length]. unfold lhs in *. lia. }
    assert (Hun : forall j, nth j upper zero = zero).
    { intro j. unfold upper. destruct (Nat.ltb lhs ds).
      - apply (nth_repeat_zero F).
      - apply nth_nil_zero. }
    assert (Hue : forall x, eval upper x = zero).
    { intro x. unfold upper. destruct (Nat.ltb lhs ds).
      - apply (eval_repeat_zero F Fth).
      - reflexivity. }
    destruct (scatter_spec F Fth
                (fun pow a c => if Nat.leb pow lhs then sub a c else neg c)
                (fun _ c => neg c) s 0 (p ++ upper))
      as (v & Hv & _ & _ & Hev).
    - apply (sorted_ascending F). exact Hs.
    - intros i c Hin. rewrite app_length. specialize (Hb i c Hin).
      split; [lia | ].
      destruct (Nat.leb i lhs) eqn:E; [ring | ].
      apply Nat.leb_gt in E.
      rewrite app_nth2 by (unfold lhs in E; lia). rewrite Hun. ring.
    - rewrite Hv. cbn [bind]. apply (okd_trunc F Fth eqb_ok).
      intro x. rewrite Hev, seval_map_neg, (eval_app F Fth), Hue. ring.
  Qed.

  Theorem d_sub_sparse_spec : forall p s, canon F p -> scanon F s ->
    okd F (d_sub_sparse F p s) (fun x => sub (eval p x) (seval s x)).
  Proof.
    intros p s Hp Hs. unfold d_sub_sparse.
    destruct (d_is_zero F p) eqn:Hz.
    - destruct (s_neg_spec F Fth s Hs) as [Hns Hne].
      apply (okd_ext _ (seval (s_neg F s))).
      + intro x. rewrite Hne, (canon_zero_eval p Hz). ring.
      + apply (s_to_dense_spec F Fth eqb_ok). exact Hns.
    - destruct (s_is_zero F s) eqn:Hsz.
      + apply okd_id; [exact Hp | ]. intro x.
        rewrite (s_is_zero_eval F Fth eqb_ok s Hsz). ring.
      + apply d_sub_sparse_loop_spec; assumption.
  Qed.

  Theorem d_sub_assign_sparse_spec : forall p s, canon F p -> scanon F s ->
    okd F (d_sub_assign_sparse F p s) (fun x => sub (eval p x) (seval s x)).
  Proof.
    intros p s Hp Hs. unfold d_sub_assign_sparse.
    destruct (d_is_zero F p) eqn:Hz.
    - destruct (s_degree_bound s Hs) as (ds & Hds & Hb). rewrite Hds. cbn [bind].
      destruct (scatter_zero_base (fun c => neg c) s ds Hs Hb) as (v & Hv & Hev).
      rewrite Hv. cbn [bind]. apply (okd_trunc F Fth eqb_ok).
      intro x. rewrite Hev, seval_map_neg, (canon_zero_eval p Hz). ring.
    - destruct (s_is_zero F s) eqn:Hsz.
      + apply okd_id; [exact Hp | ]. intro x.
        rewrite (s_is_zero_eval F Fth eqb_ok s Hsz). ring.
      + apply d_sub_sparse_loop_spec; assumption.
  Qed.

End MixedProofs.

(* ---------------- concrete runs over Z_7 ---------------- *)

(* the leading term cancels: (1 + 2x + 3x^2) - 3x^2 = 1 + 2x *)
Example ex_sub_sparse_cancel :
  d_sub_sparse (ZpOps 7) [1; 2; 3]%Z [(2%nat, 3%Z)] = ROk [1; 2]%Z.
Proof. vm_compute. reflexivity. Qed.

Example ex_sub_assign_sparse_cancel :
  d_sub_assign_sparse (ZpOps 7) [1; 2; 3]%Z [(2%nat, 3%Z)] = ROk [1; 2]%Z.
Proof. vm_compute. reflexivity. Qed.

(* (1 + 2x + 3x^2) + 4x^2 = 1 + 2x  (3 + 4 = 0 mod 7) *)
Example ex_add_sparse_cancel :
  d_add_sparse (ZpOps 7) [1; 2; 3]%Z [(2%nat, 4%Z)] = ROk [1; 2]%Z.
Proof. vm_compute. reflexivity. Qed.

Example ex_add_assign_sparse_cancel :
  d_add_assign_sparse (ZpOps 7) [1; 2; 3]%Z [(2%nat, 4%Z)] = ROk [1; 2]%Z.
Proof. vm_compute. reflexivity. Qed.

(* sparse operand of higher degree: (1 + 2x) - 5x^3 = 1 + 2x + 0x^2 + 2x^3 *)
Example ex_sub_sparse_upper :
  d_sub_sparse (ZpOps 7) [1; 2]%Z [(3%nat, 5%Z)] = ROk [1; 2; 0; 2]%Z.
Proof. vm_compute. reflexivity. Qed.

(* zero dense operand: 0 - 5x = 2x ;  0 -= 0 gives the canonical zero *)
Example ex_sub_assign_sparse_zero :
  d_sub_assign_sparse (ZpOps 7) [] [(1%nat, 5%Z)] = ROk [0; 2]%Z /\
  d_sub_assign_sparse (ZpOps 7) [] [] = ROk [].
Proof. vm_compute. split; reflexivity. Qed.
