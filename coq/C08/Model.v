(* C08 model: univariate polynomial arithmetic of ark-poly, dense and sparse, mirrored
   operator by operator from
     poly/src/polynomial/univariate/{dense.rs,sparse.rs,mod.rs}
     poly/src/evaluations/univariate/mod.rs
   Field-generic: everything takes a dictionary [F : Fops K] (coq/Base/Field.v); the proof
   files assume [field_theory] for the dictionary's operations.  No proofs in this file.

   dense polynomial  = list K            (coefficient of x^i at index i)
   sparse polynomial = list (nat * K)    ((degree, coefficient))
   Every Rust `degree()` call is mirrored by [d_degree]/[s_degree], which return [RPanic]
   exactly where the Rust `assert!` on the last coefficient fails. *)
From V Require Import Base.Field.
Require Import Lia.

(* outcome of an operation: value, Rust panic, or exhaustion of the model's fuel *)
Inductive res (A : Type) : Type := ROk (a : A) | RPanic | RFuel.
Arguments ROk {A} a. Arguments RPanic {A}. Arguments RFuel {A}.
Definition bind {A B : Type} (r : res A) (f : A -> res B) : res B :=
  match r with ROk a => f a | RPanic => RPanic | RFuel => RFuel end.
Notation "x <- r ;; k" := (bind r (fun x => k)) (at level 61, r at next level, right associativity).

(* DenseOrSparsePolynomial *)
Inductive dos (K : Type) : Type := DP (p : list K) | SP (s : list (nat * K)).
Arguments DP {K} p. Arguments SP {K} s.

Section Model.
  Context {K : Type} (F : Fops K).
  Local Notation zero := (f0 F).
  Local Notation one := (f1 F).
  Local Notation add := (fadd F).
  Local Notation sub := (fsub F).
  Local Notation mul := (fmul F).
  Local Notation neg := (fneg F).
  Local Notation inv := (finv F).

  Definition is0 (c : K) : bool := feqb F c zero.

  (* ---------------- specification-level notions ---------------- *)

  Fixpoint pown (x : K) (n : nat) : K :=
    match n with O => one | S n' => mul x (pown x n') end.

  (* value of a dense coefficient list at x (Horner form) *)
  Fixpoint eval (p : list K) (x : K) : K :=
    match p with [] => zero | c :: t => add c (mul x (eval t x)) end.

  (* value of a sparse term list at x *)
  Fixpoint seval (s : list (nat * K)) (x : K) : K :=
    match s with [] => zero | (i, c) :: t => add (mul c (pown x i)) (seval t x) end.

  (* ---------------- list helpers ---------------- *)

  (* a.iter_mut().zip(&b).for_each(|(a, b)| *a = f(a, b)) : result has the length of a *)
  Fixpoint zip_into (f : K -> K -> K) (a b : list K) : list K :=
    match a, b with
    | x :: a', y :: b' => f x y :: zip_into f a' b'
    | _, _ => a
    end.

  (* Vec::resize(n, zero): truncate or pad *)
  Definition resize (n : nat) (l : list K) : list K :=
    firstn n l ++ repeat zero (n - length l).

  (* l[i] = f(l[i]) for i < len (callers check the bound) *)
  Fixpoint upd (l : list K) (i : nat) (f : K -> K) : list K :=
    match l, i with
    | [], _ => []
    | h :: t, O => f h :: t
    | h :: t, S i' => h :: upd t i' f
    end.

  (* ---------------- dense: basics ---------------- *)

  (* Zero::is_zero *)
  Definition d_is_zero (p : list K) : bool := forallb is0 p.

  (* Polynomial::degree, with its assert *)
  Definition d_degree (p : list K) : res nat :=
    if d_is_zero p then ROk O
    else if is0 (last p zero) then RPanic else ROk (pred (length p)).

  (* truncate_leading_zeros: pop while the last coefficient is zero *)
  Fixpoint trunc (p : list K) : list K :=
    match p with
    | [] => []
    | c :: t => match trunc t with
                | [] => if is0 c then [] else [c]
                | t' => c :: t'
                end
    end.

  (* from_coefficients_vec / from_coefficients_slice (truncate, then assert) *)
  Definition d_from_vec (p : list K) : res (list K) :=
    let r := trunc p in
    match r with
    | [] => ROk r
    | _ => if is0 (last r zero) then RPanic else ROk r
    end.

  (* evaluate *)
  Definition horner (p : list K) (x : K) : K :=
    fold_right (fun c r => add (mul r x) c) zero p.
  Definition d_evaluate (p : list K) (x : K) : K :=
    if d_is_zero p then zero
    else if is0 x then nth 0 p zero
    else horner p x.

  (* ---------------- dense (op) dense ---------------- *)

  (* &a + &b *)
  Definition d_add (p q : list K) : res (list K) :=
    r <- (if d_is_zero p then ROk q
          else if d_is_zero q then ROk p
          else dp <- d_degree p ;; dq <- d_degree q ;;
               if Nat.leb dq dp then ROk (zip_into add p q) else ROk (zip_into add q p)) ;;
    ROk (trunc r).

  (* a += &b *)
  Definition d_add_assign (p q : list K) : res (list K) :=
    if d_is_zero q then ROk (trunc p)
    else if d_is_zero p then ROk (trunc q)
    else let p' := if Nat.ltb (length p) (length q) then resize (length q) p else p in
         ROk (trunc (zip_into add p' q)).

  (* a += (f, &b) *)
  Definition d_add_assign_scaled (p : list K) (f : K) (q : list K) : res (list K) :=
    if d_is_zero q then ROk p
    else if d_is_zero p then ROk (trunc (map (fun c => mul c f) q))
    else dp <- d_degree p ;; dq <- d_degree q ;;
         let p' := if Nat.ltb dp dq then resize (length q) p else p in
         ROk (trunc (zip_into (fun a b => add a (mul f b)) p' q)).

  (* -a *)
  Definition d_neg (p : list K) : list K := map neg p.

  (* &a - &b *)
  Definition d_sub (p q : list K) : res (list K) :=
    r <- (if d_is_zero p then ROk (map neg q)
          else if d_is_zero q then ROk p
          else dp <- d_degree p ;; dq <- d_degree q ;;
               if Nat.leb dq dp then ROk (zip_into sub p q)
               else ROk (zip_into sub (resize (length q) p) q)) ;;
    ROk (trunc r).

  (* a -= &b *)
  Definition d_sub_assign (p q : list K) : res (list K) :=
    if d_is_zero p then ROk (trunc (zip_into sub (resize (length q) p) q))
    else if d_is_zero q then ROk p
    else dp <- d_degree p ;; dq <- d_degree q ;;
         let p' := if Nat.leb dq dp then p else resize (length q) p in
         ROk (trunc (zip_into sub p' q)).

  (* &a * elem *)
  Definition d_scale (p : list K) (e : K) : list K :=
    if d_is_zero p || is0 e then [] else map (fun c => mul c e) p.

  (* result[i + j] += a_i * b_j, i outer, j inner *)
  Fixpoint add_at (acc : list K) (i : nat) (v : list K) : list K :=
    match i, acc with
    | O, _ => zip_into add acc v
    | S i', h :: t => h :: add_at t i' v
    | S _, [] => []
    end.
  Fixpoint naive_loop (p q : list K) (i : nat) (acc : list K) : list K :=
    match p with
    | [] => acc
    | a :: p' => naive_loop p' q (S i) (add_at acc i (map (mul a) q))
    end.

  (* naive_mul *)
  Definition d_naive_mul (p q : list K) : res (list K) :=
    if d_is_zero p || d_is_zero q then ROk []
    else dp <- d_degree p ;; dq <- d_degree q ;;
         d_from_vec (naive_loop p q O (repeat zero (dp + dq + 1))).

  (* &a * &b through evaluate_over_domain / pointwise product / interpolate on the domain of
     size >= len a + len b - 1.  The transform pair belongs to property C07; here the
     operator is specified by what that pipeline computes when the transforms are exact:
     the len a + len b - 1 product coefficients, then from_coefficients_vec. *)
  Definition d_mul (p q : list K) : res (list K) :=
    if d_is_zero p || d_is_zero q then ROk []
    else d_from_vec (naive_loop p q O (repeat zero (length p + length q - 1))).

  (* ---------------- sparse: basics ---------------- *)

  Definition s_is_zero (s : list (nat * K)) : bool := forallb (fun t => is0 (snd t)) s.

  Definition s_degree (s : list (nat * K)) : res nat :=
    if s_is_zero s then ROk O
    else if is0 (snd (last s (O, zero))) then RPanic else ROk (fst (last s (O, zero))).

  (* coeffs.retain(|(_, c)| !c.is_zero()): zero-coefficient terms are dropped wherever they are
     (the constructor used to pop them only at the end of the raw list: F28, fixed in /repo) *)
  Definition s_retain (s : list (nat * K)) : list (nat * K) :=
    filter (fun t => negb (is0 (snd t))) s.

  (* stable insertion sort by degree (slice::sort_by is stable: `fold_right` inserts from the back, an
     element goes in front of the first entry whose degree is >= its own) *)
  Fixpoint s_insert (t : nat * K) (s : list (nat * K)) : list (nat * K) :=
    match s with
    | [] => [t]
    | u :: r => if Nat.leb (fst t) (fst u) then t :: s else u :: s_insert t r
    end.
  Definition s_sort (s : list (nat * K)) : list (nat * K) := fold_right s_insert [] s.

  (* SparsePolynomial::from_coefficients_vec / _slice *)
  Definition s_from_vec (s : list (nat * K)) : res (list (nat * K)) :=
    let r := s_sort (s_retain s) in
    match r with
    | [] => ROk r
    | _ => if is0 (snd (last r (O, zero))) then RPanic else ROk r
    end.

  Definition s_neg (s : list (nat * K)) : list (nat * K) :=
    map (fun t => (fst t, neg (snd t))) s.

  (* &s * elem *)
  Definition s_scale (s : list (nat * K)) (e : K) : list (nat * K) :=
    if s_is_zero s || is0 e then [] else map (fun t => (fst t, mul (snd t) e)) s.

  (* append_coeffs, with its assert on self.degree() *)
  Definition s_append (acc app : list (nat * K)) : res (list (nat * K)) :=
    match app with
    | [] => ROk acc
    | t :: _ => d <- s_degree acc ;;
                if Nat.ltb d (fst t) then ROk (acc ++ app) else RPanic
    end.

  (* the merge loop of Add for &SparsePolynomial *)
  Fixpoint s_merge (a : list (nat * K)) : list (nat * K) -> list (nat * K) -> res (list (nat * K)) :=
    fix inner (b acc : list (nat * K)) {struct b} : res (list (nat * K)) :=
      match a, b with
      | [], [] => ROk acc
      | [], _ :: _ => s_append acc b
      | _ :: _, [] => s_append acc a
      | (i, x) :: a', (j, y) :: b' =>
          match Nat.compare i j with
          | Lt => s_merge a' b (acc ++ [(i, x)])
          | Eq => let s := add x y in
                  s_merge a' b' (if is0 s then acc else acc ++ [(i, s)])
          | Gt => inner b' (acc ++ [(j, y)])
          end
      end.

  (* &a + &b, a + b, a += &b *)
  Definition s_add (a b : list (nat * K)) : res (list (nat * K)) :=
    if s_is_zero a then ROk b
    else if s_is_zero b then ROk a
    else s_merge a b [].

  (* a += (f, &b) :  &a + &(b * f) *)
  Definition s_add_assign_scaled (a : list (nat * K)) (f : K) (b : list (nat * K)) :=
    s_add a (s_scale b f).

  (* a -= &b :  a + (-b) *)
  Definition s_sub_assign (a b : list (nat * K)) := s_add a (s_neg b).

  (* BTreeMap entry(k).and_modify(|c| *c += v).or_insert(v) on a sorted association list *)
  Fixpoint bt_add (m : list (nat * K)) (k : nat) (v : K) : list (nat * K) :=
    match m with
    | [] => [(k, v)]
    | (j, c) :: r =>
        match Nat.compare k j with
        | Lt => (k, v) :: m
        | Eq => (j, add c v) :: r
        | Gt => (j, c) :: bt_add r k v
        end
    end.

  Definition s_mul_loop (a b : list (nat * K)) : list (nat * K) :=
    fold_left (fun m ta =>
      fold_left (fun m' tb => bt_add m' (fst ta + fst tb)%nat (mul (snd ta) (snd tb))) b m) a [].

  (* SparsePolynomial::mul *)
  Definition s_mul (a b : list (nat * K)) : res (list (nat * K)) :=
    if s_is_zero a || s_is_zero b then ROk []
    else s_from_vec (filter (fun t => negb (is0 (snd t))) (s_mul_loop a b)).

  (* Field::pow_with_table: bits of the exponent, little endian, without trailing zeros *)
  Fixpoint pwt_pos (tbl : list K) (e : positive) (acc : K) : option K :=
    match e with
    | xH => match tbl with t :: _ => Some (mul acc t) | [] => None end
    | xO e' => pwt_pos (tl tbl) e' acc
    | xI e' => match tbl with t :: tbl' => pwt_pos tbl' e' (mul acc t) | [] => None end
    end.
  Definition pow_with_table (tbl : list K) (e : nat) : option K :=
    match N.of_nat e with N0 => Some one | Npos e' => pwt_pos tbl e' one end.

  (* p, p^2, p^4, ... (k entries) *)
  Fixpoint squarings (k : nat) (p : K) : list K :=
    match k with O => [] | S k' => p :: squarings k' (mul p p) end.

  (* number of significant bits of a usize *)
  Definition bitlen (d : nat) : nat := N.to_nat (N.size (N.of_nat d)).

  (* SparsePolynomial::evaluate *)
  Definition s_evaluate (s : list (nat * K)) (x : K) : res K :=
    if s_is_zero s then ROk zero
    else d <- s_degree s ;;
         let tbl := squarings (Nat.max 1 (bitlen d)) x in
         fold_left (fun acc t =>
                      a <- acc ;;
                      match pow_with_table tbl (fst t) with
                      | Some pw => ROk (add a (mul (snd t) pw))
                      | None => RPanic
                      end) s (ROk zero).

  (* ---------------- conversions ---------------- *)

  (* for (i, c) in s { base[i] = f(i, base[i], c) }  -- index out of bounds panics *)
  Fixpoint scatter (f : nat -> K -> K -> K) (base : list K) (s : list (nat * K)) : res (list K) :=
    match s with
    | [] => ROk base
    | (i, c) :: r =>
        if Nat.ltb i (length base) then scatter f (upd base i (fun a => f i a c)) r
        else RPanic
    end.

  (* From<SparsePolynomial> for DensePolynomial *)
  Definition s_to_dense (s : list (nat * K)) : res (list K) :=
    d <- s_degree s ;;
    r <- scatter (fun _ _ c => c) (repeat zero (d + 1)) s ;;
    d_from_vec r.

  Fixpoint enumerate_from (i : nat) (p : list K) : list (nat * K) :=
    match p with [] => [] | c :: t => (i, c) :: enumerate_from (S i) t end.

  (* From<DensePolynomial> for SparsePolynomial *)
  Definition d_to_sparse (p : list K) : res (list (nat * K)) :=
    s_from_vec (filter (fun t => negb (is0 (snd t))) (enumerate_from O p)).

  (* ---------------- dense (op) sparse ---------------- *)

  (* one step of the term loop of &Dense + &Sparse *)
  Definition push_term (r : list K) (t : nat * K) : list K :=
    if Nat.ltb (fst t) (length r) then upd r (fst t) (fun a => add a (snd t))
    else r ++ repeat zero (fst t - length r) ++ [snd t].

  (* &dense + &sparse *)
  Definition d_add_sparse (p : list K) (s : list (nat * K)) : res (list K) :=
    if d_is_zero p then s_to_dense s
    else if s_is_zero s then ROk p
    else _ds <- s_degree s ;; _dp <- d_degree p ;;
         ROk (trunc (fold_left push_term s p)).

  (* dense += &sparse *)
  Definition d_add_assign_sparse (p : list K) (s : list (nat * K)) : res (list K) :=
    if s_is_zero s then ROk p
    else if d_is_zero p then
      ds <- s_degree s ;;
      r <- scatter (fun _ _ c => c) (resize (ds + 1) []) s ;;
      ROk (trunc r)
    else
      lhs <- d_degree p ;; ds <- s_degree s ;;
      r <- scatter (fun pow a c => if Nat.leb pow lhs then add a c else c)
                   (resize (Nat.max lhs ds + 1) p) s ;;
      ROk (trunc r).

  (* the loop shared by &dense - &sparse and dense -= &sparse (non-zero operands).
     `upper_coeffs[pow - lhs_degree - 1]` is position `pow` of `coeffs ++ upper_coeffs`
     because degree() succeeded on a non-zero self, i.e. len(coeffs) = lhs_degree + 1. *)
  Definition d_sub_sparse_loop (p : list K) (s : list (nat * K)) : res (list K) :=
    lhs <- d_degree p ;; ds <- s_degree s ;;
    let upper := if Nat.ltb lhs ds then repeat zero (ds - lhs) else [] in
    r <- scatter (fun pow a c => if Nat.leb pow lhs then sub a c else neg c) (p ++ upper) s ;;
    ROk (trunc r).

  (* &dense - &sparse *)
  Definition d_sub_sparse (p : list K) (s : list (nat * K)) : res (list K) :=
    if d_is_zero p then s_to_dense (s_neg s)
    else if s_is_zero s then ROk p
    else d_sub_sparse_loop p s.

  (* dense -= &sparse *)
  Definition d_sub_assign_sparse (p : list K) (s : list (nat * K)) : res (list K) :=
    if d_is_zero p then
      ds <- s_degree s ;;
      r <- scatter (fun _ _ c => neg c) (resize (ds + 1) []) s ;;
      (* DEFECT-1 (see props/C08/NOTES.md): the Rust branch does not truncate, so
         0 -= &0 leaves coeffs = [0]; the model describes the canonical result *)
      ROk (trunc r)
    else if s_is_zero s then ROk p
    else d_sub_sparse_loop p s.

  (* ---------------- DenseOrSparsePolynomial: division ---------------- *)

  Definition dos_is_zero (a : dos K) : bool :=
    match a with DP p => d_is_zero p | SP s => s_is_zero s end.
  Definition dos_degree (a : dos K) : res nat :=
    match a with DP p => d_degree p | SP s => s_degree s end.
  Definition dos_leading (a : dos K) : K :=
    match a with DP p => last p zero | SP s => snd (last s (O, zero)) end.
  Definition dos_terms (a : dos K) : list (nat * K) :=
    match a with DP p => enumerate_from O p | SP s => s end.
  Definition dos_to_dense (a : dos K) : res (list K) :=
    match a with DP p => ROk p | SP s => s_to_dense s end.

  (* quotient[i] = v *)
  Definition set_at (l : list K) (i : nat) (v : K) : res (list K) :=
    if Nat.ltb i (length l) then ROk (upd l i (fun _ => v)) else RPanic.

  (* the `while` loop of divide_with_q_and_r *)
  Fixpoint div_loop (fuel : nat) (b : dos K) (linv : K) (q r : list K) : res (list K * list K) :=
    match fuel with
    | O => RFuel
    | S fuel' =>
        if d_is_zero r then ROk (q, r)
        else dr <- d_degree r ;; db <- dos_degree b ;;
             if Nat.ltb dr db then ROk (q, r)
             else let cq := mul (last r zero) linv in
                  let cur := (dr - db)%nat in
                  q' <- set_at q cur cq ;;
                  r' <- scatter (fun _ a c => sub a (mul cq c)) r
                          (map (fun t => ((cur + fst t)%nat, snd t)) (dos_terms b)) ;;
                  div_loop fuel' b linv q' (trunc r')
    end.

  (* divide_with_q_and_r *)
  Definition divide (a b : dos K) : res (list K * list K) :=
    if dos_is_zero a then ROk ([], [])
    else if dos_is_zero b then RPanic
    else da <- dos_degree a ;; db <- dos_degree b ;;
         if Nat.ltb da db then r <- dos_to_dense a ;; ROk ([], r)
         else r0 <- dos_to_dense a ;;
              let lead := dos_leading b in
              if is0 lead then RPanic
              else qr <- div_loop (S (length r0)) b (inv lead) (repeat zero (da - db + 1)) r0 ;;
                   q <- d_from_vec (fst qr) ;;
                   ROk (q, snd qr).

  (* ---------------- vanishing polynomial X^n - c, c = offset^n ---------------- *)

  (* mul_by_vanishing_poly *)
  Definition mul_by_vanishing (p : list K) (n : nat) (c : K) : res (list K) :=
    d_from_vec (zip_into (fun s x => sub s (mul c x)) (repeat zero n ++ p) p).

  Fixpoint dv_loop (k : nat) (i : nat) (n : nat) (c cur : K) (p quot : list K) : list K :=
    match k with
    | O => quot
    | S k' => let cur' := mul cur c in
              dv_loop k' (S i) n c cur' p
                (zip_into (fun s x => add s (mul cur' x)) quot (skipn (n * (i + 1)) p))
    end.

  (* divide_by_vanishing_poly *)
  Definition divide_by_vanishing (p : list K) (n : nat) (c : K) : res (list K * list K) :=
    if Nat.ltb (length p) n then ROk ([], p)
    else let quot := dv_loop (length p / n - 1) 1 n c one p (skipn n p) in
         let rem := zip_into (fun s x => add s (mul c x)) (firstn n p) quot in
         q <- d_from_vec quot ;; r <- d_from_vec rem ;; ROk (q, r).

  (* ---------------- evaluation over a (coset) domain ---------------- *)

  (* h, h g, h g^2, ... : Elements iterator *)
  Fixpoint elements (n : nat) (g cur : K) : list K :=
    match n with O => [] | S n' => cur :: elements n' g (mul cur g) end.

  (* fold the chunks after the first into the first one *)
  Fixpoint fold_chunks (fuel : nat) (n : nat) (h : K) (i : nat) (first rest : list K) : list K :=
    match fuel with
    | O => first
    | S fuel' =>
        match rest with
        | [] => first
        | _ => let chunk := firstn n rest in
               let first' :=
                 if feqb F h one then zip_into add first chunk
                 else let op := pown h ((i + 1) * n) in
                      zip_into (fun x y => add x (mul op y)) first chunk in
               fold_chunks fuel' n h (S i) first' (skipn n rest)
        end
    end.

  (* SPEC of the forward transform on a vector of n coefficients: values at h g^i (the
     transform algorithm itself is property C07) *)
  Definition dft_spec (n : nat) (h g : K) (c : list K) : list K :=
    map (fun x => eval c x) (elements n g h).

  (* eval_over_domain_helper, dense (Borrowed and Owned compute the same vector: Owned
     folds in place and fft_in_place's resize cuts the tail off) *)
  Definition d_eval_over_domain (p : list K) (n : nat) (h g : K) : list K :=
    if d_is_zero p then repeat zero n
    else let first := fold_chunks (length p) n h O (firstn n p) (skipn n p) in
         dft_spec n h g (resize n first).

  (* eval_over_domain_helper, sparse: evaluate at every element *)
  Fixpoint mapres {A B : Type} (f : A -> res B) (l : list A) : res (list B) :=
    match l with
    | [] => ROk []
    | a :: t => b <- f a ;; r <- mapres f t ;; ROk (b :: r)
    end.
  Definition s_eval_over_domain (s : list (nat * K)) (n : nat) (h g : K) : res (list K) :=
    mapres (s_evaluate s) (elements n g h).

  (* n as a field element *)
  Fixpoint of_nat (n : nat) : K := match n with O => zero | S n' => add one (of_nat n') end.

  (* SPEC of the inverse transform on the coset h<g>: coefficient j =
     n^-1 h^-j sum_i e_i g^(-i j) *)
  Definition idft_spec (n : nat) (h g : K) (e : list K) : list K :=
    map (fun j => mul (mul (eval e (pown (inv g) j)) (inv (of_nat n))) (pown (inv h) j)) (seq 0 n).

  (* Evaluations::interpolate / interpolate_by_ref *)
  Definition interpolate (e : list K) (n : nat) (h g : K) : res (list K) :=
    d_from_vec (idft_spec n h g (resize n e)).

  (* Evaluations: pointwise operators (same domain on both sides) *)
  Definition ev_add (a b : list K) : list K := zip_into add a b.
  Definition ev_sub (a b : list K) : list K := zip_into sub a b.
  Definition ev_mul (a b : list K) : list K := zip_into mul a b.
  Definition ev_scale (a : list K) (e : K) : list K := map (fun c => mul c e) a.
  (* batch_inversion leaves zeros in place: a / 0 = a * 0 = 0 *)
  Definition ev_div (a b : list K) : list K := zip_into (fun x y => mul x (inv y)) a b.

End Model.
