(* Uniform case interpreter for the C08 model: opcode -> argument lists -> result lists.
   Argument 0 is [modulus]; dense polynomials are coefficient lists, sparse polynomials are
   flat lists [d0; c0; d1; c1; ...]; a domain is [n; h; g] (size, coset offset, generator).
   First result list is the status: [0] ok, [2] panic, [7] model fuel exhausted,
   [9] unsupported.  Polynomial results are followed by [degree()] of the result, so a
   result on which `degree()` would panic shows up as status [2]. *)
From V Require Import Base.Field C08.Model.

Definition ok (r : list (list Z)) : list (list Z) := [0] :: r.
Definition panic : list (list Z) := [[2]].
Definition nofuel : list (list Z) := [[7]].
Definition unsupported : list (list Z) := [[9]].

Definition arg (n : nat) (a : list (list Z)) : list Z := nth n a [].
Definition arg0 (n : nat) (a : list (list Z)) : Z := hd 0 (arg n a).

Definition out (r : res (list (list Z))) : list (list Z) :=
  match r with ROk v => ok v | RPanic => panic | RFuel => nofuel end.

Fixpoint pairs (p : Z) (l : list Z) : list (nat * Z) :=
  match l with
  | d :: c :: t => (Z.to_nat d, c mod p) :: pairs p t
  | _ => []
  end.
Fixpoint unpairs (s : list (nat * Z)) : list Z :=
  match s with [] => [] | (d, c) :: t => Z.of_nat d :: c :: unpairs t end.

Section WithField.
  Variable p : Z.
  Let F := ZpOps p.

  Definition dn (l : list Z) : list Z := map (fun c => c mod p) l.

  (* dense result + its degree() *)
  Definition dres (r : res (list Z)) : res (list (list Z)) :=
    v <- r ;; d <- d_degree F v ;; ROk [v; [Z.of_nat d]].
  Definition sres (r : res (list (nat * Z))) : res (list (list Z)) :=
    v <- r ;; d <- s_degree F v ;; ROk [unpairs v; [Z.of_nat d]].
  Definition qrres (r : res (list Z * list Z)) : res (list (list Z)) :=
    v <- r ;; dq <- d_degree F (fst v) ;; dr <- d_degree F (snd v) ;;
    ROk [fst v; snd v; [Z.of_nat dq; Z.of_nat dr]].

  Definition run_p (op : Z) (a : list (list Z)) : list (list Z) :=
    let x := dn (arg 1 a) in
    let y := dn (arg 2 a) in
    let z := dn (arg 3 a) in
    (* thunks: extraction is strict, and [pairs] must only run on sparse arguments
       (its degrees become unary naturals) *)
    let sx_ (_ : unit) := pairs p (arg 1 a) in
    let sy_ (_ : unit) := pairs p (arg 2 a) in
    let sz_ (_ : unit) := pairs p (arg 3 a) in
    let s0 (l : list Z) := hd 0 l in
    (* a domain argument [n; h; g] *)
    let dom (l : list Z) := (Z.to_nat (nth 0 l 0), nth 1 l 1 mod p, nth 2 l 1 mod p) in
    match op with
    | 1 => out (dres (d_from_vec F x))
    | 2 => ok [[d_evaluate F x (s0 y)]]
    | 3 => out (dres (d_add F x y))
    | 4 => out (dres (d_add_assign F x y))
    | 5 => out (dres (d_add_assign_scaled F x (s0 y) z))
    | 6 => out (dres (ROk (d_neg F x)))
    | 7 => out (dres (d_sub F x y))
    | 8 => out (dres (d_sub_assign F x y))
    | 9 => out (dres (ROk (d_scale F x (s0 y))))
    | 10 => out (dres (d_naive_mul F x y))
    | 11 => out (dres (d_mul F x y))
    | 12 => out (dres (qr <- divide F (DP x) (DP y) ;; ROk (fst qr)))
    | 20 => out (sres (s_from_vec F (sx_ tt)))
    | 21 => out (v <- s_evaluate F (sx_ tt) (s0 y) ;; ROk [[v]])
    | 22 => out (sres (s_add F (sx_ tt) (sy_ tt)))
    | 23 => out (sres (s_add F (sx_ tt) (sy_ tt)))
    | 24 => out (sres (s_add_assign_scaled F (sx_ tt) (s0 y) (sz_ tt)))
    | 25 => out (sres (ROk (s_neg F (sx_ tt))))
    | 26 => out (sres (s_sub_assign F (sx_ tt) (sy_ tt)))
    | 27 => out (sres (ROk (s_scale F (sx_ tt) (s0 y))))
    | 28 => out (sres (s_mul F (sx_ tt) (sy_ tt)))
    | 29 => out (dres (s_to_dense F (sx_ tt)))
    | 30 => out (sres (d_to_sparse F x))
    | 31 => out (sres (s_add F (sx_ tt) (sy_ tt)))
    | 40 => out (dres (d_add_sparse F x (sy_ tt)))
    | 41 => out (dres (d_add_assign_sparse F x (sy_ tt)))
    | 42 => out (dres (d_sub_sparse F x (sy_ tt)))
    | 43 => out (dres (d_sub_assign_sparse F x (sy_ tt)))
    | 50 => out (qrres (divide F (DP x) (DP y)))
    | 51 => out (qrres (divide F (DP x) (SP (sy_ tt))))
    | 52 => out (qrres (divide F (SP (sx_ tt)) (DP y)))
    | 53 => out (qrres (divide F (SP (sx_ tt)) (SP (sy_ tt))))
    | 60 => let '(n, h, _) := dom (arg 2 a) in
            out (dres (mul_by_vanishing F x n (pown F h n)))
    | 61 => let '(n, h, _) := dom (arg 2 a) in
            out (qrres (divide_by_vanishing F x n (pown F h n)))
    | 70 | 71 => let '(n, h, g) := dom (arg 2 a) in ok [d_eval_over_domain F x n h g]
    | 72 => let '(n, h, g) := dom (arg 2 a) in
            out (v <- s_eval_over_domain F (sx_ tt) n h g ;; ROk [v])
    | 73 | 74 => let '(n, h, g) := dom (arg 2 a) in out (dres (interpolate F x n h g))
    | 75 => let '(n, h, g) := dom (arg 2 a) in
            out (dres (interpolate F (d_eval_over_domain F x n h g) n h g))
    | 80 => ok [ev_add F x y]
    | 81 => ok [ev_sub F x y]
    | 82 => ok [ev_mul F x y]
    | 83 => ok [ev_scale F x (s0 y)]
    | 84 => ok [ev_div F x y]
    | _ => unsupported
    end.
End WithField.

Definition run_C08 (op : Z) (a : list (list Z)) : list (list Z) :=
  let p := arg0 0 a in
  if p <=? 1 then unsupported else run_p p op a.
