(* C08 proofs: sparse polynomial negation, scaling, addition (the merge loop with its
   append_coeffs assertion), subtraction and scaled addition.  For all inputs. *)
From V Require Import Base.Field C08.Model C08.Common.
Require Import Lia Field Ring.

Section SparseAdd.
  Context {K : Type} (F : Fops K).
  Local Notation zero := (f0 F).
  Local Notation one := (f1 F).
  Local Notation add := (fadd F).
  Local Notation sub := (fsub F).
  Local Notation mul := (fmul F).
  Local Notation neg := (fneg F).
  Local Notation inv := (finv F).
  Local Notation is0 := (is0 F).
  Local Notation eval := (eval F).
  Local Notation seval := (seval F).
  Local Notation pown := (pown F).

  Hypothesis Fth : field_theory zero one add mul sub neg (fun a b => mul a (inv b)) inv eq.
  Hypothesis eqb_ok : forall a b, feqb F a b = true <-> a = b.
  Add Field KF : Fth.

  Local Open Scope nat_scope.

  (* ---------------- negation ---------------- *)

  Lemma s_neg_sorted : forall s lo, sorted_from F lo s -> sorted_from F lo (s_neg F s).
  Proof.
    induction s as [|t r IH]; intros lo Hs; [exact I | ].
    destruct Hs as (H1 & H2 & H3).
    change (s_neg F (t :: r)) with ((fst t, neg (snd t)) :: s_neg F r).
    cbn [sorted_from fst snd]. split; [exact H1 | ]. split.
    - apply (neg_neq_zero F Fth). exact H2.
    - apply IH. exact H3.
  Qed.

  Lemma s_neg_eval : forall s x, seval (s_neg F s) x = neg (seval s x).
  Proof.
    induction s as [|[i c] r IH]; intro x.
    - cbn. ring.
    - change (s_neg F ((i, c) :: r)) with ((i, neg c) :: s_neg F r).
      cbn [Model.seval]. rewrite IH. ring.
  Qed.

  Theorem s_neg_spec : forall s, scanon F s ->
    scanon F (s_neg F s) /\ forall x, seval (s_neg F s) x = neg (seval s x).
  Proof.
    intros s Hs. split; [apply s_neg_sorted; exact Hs | apply s_neg_eval].
  Qed.

  (* ---------------- scaling ---------------- *)

  Lemma s_scale_map_sorted : forall e, e <> zero -> forall s lo, sorted_from F lo s ->
    sorted_from F lo (map (fun t => (fst t, mul (snd t) e)) s).
  Proof.
    intros e He. induction s as [|t r IH]; intros lo Hs; [exact I | ].
    destruct Hs as (H1 & H2 & H3).
    cbn [map sorted_from fst snd]. split; [exact H1 | ]. split.
    - apply (mul_neq_zero F Fth eqb_ok); assumption.
    - apply IH. exact H3.
  Qed.

  Lemma s_scale_map_eval : forall e s x,
    seval (map (fun t => (fst t, mul (snd t) e)) s) x = mul (seval s x) e.
  Proof.
    intros e. induction s as [|[i c] r IH]; intro x.
    - cbn. ring.
    - cbn [map fst snd Model.seval]. rewrite IH. ring.
  Qed.

  Theorem s_scale_spec : forall s e, scanon F s ->
    scanon F (s_scale F s e) /\ forall x, seval (s_scale F s e) x = mul (seval s x) e.
  Proof.
    intros s e Hs. unfold s_scale.
    destruct (s_is_zero F s) eqn:Hz.
    - cbn [orb]. split; [exact I | ]. intro x.
      rewrite (s_is_zero_eval F Fth eqb_ok s Hz x). cbn. ring.
    - cbn [orb]. destruct (is0 e) eqn:He.
      + apply (is0_true F eqb_ok) in He. subst e. split; [exact I | ].
        intro x. cbn. ring.
      + apply (is0_false F eqb_ok) in He. split.
        * apply s_scale_map_sorted; assumption.
        * apply s_scale_map_eval.
  Qed.

  (* ---------------- list facts for the merge loop ---------------- *)

  Lemma app_sorted : forall acc lo0 lo rest,
    sorted_from F lo0 acc -> Forall (fun t : nat * K => fst t < lo) acc -> lo0 <= lo ->
    sorted_from F lo rest -> sorted_from F lo0 (acc ++ rest).
  Proof.
    induction acc as [|t r IH]; intros lo0 lo rest Hs Hall Hle Hrest.
    - cbn [List.app]. apply (sorted_weaken F rest lo lo0); assumption.
    - destruct Hs as (H1 & H2 & H3). inversion Hall as [|t' r' Ht Hr]; subst.
      cbn [List.app sorted_from]. split; [exact H1 | ]. split; [exact H2 | ].
      apply (IH (S (fst t)) lo rest); [exact H3 | exact Hr | lia | exact Hrest].
  Qed.

  Lemma snoc_sorted : forall acc lo0 i c,
    sorted_from F lo0 acc -> Forall (fun t : nat * K => fst t < i) acc -> lo0 <= i ->
    c <> zero -> sorted_from F lo0 (acc ++ [(i, c)]).
  Proof.
    intros acc lo0 i c Hs Hall Hle Hc.
    apply (app_sorted acc lo0 i); try assumption.
    cbn [sorted_from fst snd]. split; [lia | ]. split; [exact Hc | exact I].
  Qed.

  Lemma Forall_snoc_lt : forall (acc : list (nat * K)) lo lo' i c,
    Forall (fun t : nat * K => fst t < lo) acc -> lo <= lo' -> i < lo' ->
    Forall (fun t : nat * K => fst t < lo') (acc ++ [(i, c)]).
  Proof.
    intros acc lo lo' i c Hall Hle Hi. apply Forall_app. split.
    - apply (Forall_impl _ (P := fun t : nat * K => fst t < lo)); [ | exact Hall].
      intros t Ht. lia.
    - constructor; [exact Hi | constructor].
  Qed.

  Lemma Forall_lt_weaken : forall (acc : list (nat * K)) lo lo',
    Forall (fun t : nat * K => fst t < lo) acc -> lo <= lo' ->
    Forall (fun t : nat * K => fst t < lo') acc.
  Proof.
    intros acc lo lo' Hall Hle.
    apply (Forall_impl _ (P := fun t : nat * K => fst t < lo)); [ | exact Hall].
    intros t Ht. lia.
  Qed.

  Lemma Forall_last : forall (P : nat * K -> Prop) (s : list (nat * K)) d,
    s <> [] -> Forall P s -> P (last s d).
  Proof.
    induction s as [|t r IH]; intros d Hn Hall; [contradiction | ].
    inversion Hall as [|t' r' Ht Hr]; subst. destruct r as [|u r].
    - exact Ht.
    - change (last (t :: u :: r) d) with (last (u :: r) d). apply IH; [discriminate | exact Hr].
  Qed.

  (* append_coeffs never trips its assertion under the loop invariant *)
  Lemma s_append_ok : forall acc lo app,
    sorted_from F 0 acc -> Forall (fun t : nat * K => fst t < lo) acc ->
    sorted_from F lo app -> (acc = [] -> app <> [] -> 1 <= lo) ->
    s_append F acc app = ROk (acc ++ app).
  Proof.
    intros acc lo app Hs Hall Happ Hemp. destruct app as [|t r].
    - rewrite app_nil_r. reflexivity.
    - destruct Happ as (H1 & H2 & H3). unfold s_append. destruct acc as [|u acc'].
      + assert (Hlo : 1 <= lo) by (apply Hemp; [reflexivity | discriminate]).
        change (s_degree F (@nil (nat * K))) with (@ROk nat 0). cbn [bind].
        assert (Hlt : Nat.ltb 0 (fst t) = true) by (apply Nat.ltb_lt; lia).
        rewrite Hlt. reflexivity.
      + destruct (s_degree_nonzero F eqb_ok (u :: acc') 0 Hs) as [_ Hd]; [discriminate | ].
        rewrite Hd. cbn [bind].
        assert (Hl : fst (last (u :: acc') (0, zero)) < lo).
        { apply (Forall_last (fun t : nat * K => fst t < lo)); [discriminate | exact Hall]. }
        assert (Hlt : Nat.ltb (fst (last (u :: acc') (0, zero))) (fst t) = true)
          by (apply Nat.ltb_lt; lia).
        rewrite Hlt. reflexivity.
  Qed.

  (* ---------------- unfolding equations of the nested fixpoint ---------------- *)

  Lemma s_merge_nil_nil : forall acc, s_merge F [] [] acc = ROk acc.
  Proof. reflexivity. Qed.
  Lemma s_merge_nil_cons : forall u b' acc, s_merge F [] (u :: b') acc = s_append F acc (u :: b').
  Proof. reflexivity. Qed.
  Lemma s_merge_cons_nil : forall i x a' acc,
    s_merge F ((i, x) :: a') [] acc = s_append F acc ((i, x) :: a').
  Proof. reflexivity. Qed.
  Lemma s_merge_cons_cons : forall i x a' j y b' acc,
    s_merge F ((i, x) :: a') ((j, y) :: b') acc =
    match Nat.compare i j with
    | Lt => s_merge F a' ((j, y) :: b') (acc ++ [(i, x)])
    | Eq => s_merge F a' b' (if is0 (add x y) then acc else acc ++ [(i, add x y)])
    | Gt => s_merge F ((i, x) :: a') b' (acc ++ [(j, y)])
    end.
  Proof. reflexivity. Qed.

  (* ---------------- the merge loop ---------------- *)

  (* Invariant: acc canonical, all its degrees < lo, both remaining lists canonical from lo,
     and acc can only be empty at lo = 0 while both lists still have a term (so that
     append_coeffs onto an empty accumulator always sees a first degree >= 1). *)
  Lemma s_merge_ok : forall n a b acc lo,
    length a + length b <= n ->
    sorted_from F 0 acc -> Forall (fun t : nat * K => fst t < lo) acc ->
    sorted_from F lo a -> sorted_from F lo b ->
    (acc = [] -> lo = 0 -> a <> [] /\ b <> []) ->
    exists v, s_merge F a b acc = ROk v /\ scanon F v /\
      forall x, seval v x = add (seval acc x) (add (seval a x) (seval b x)).
  Proof.
    induction n as [|n IH]; intros a b acc lo Hlen Hacc Hall Ha Hb Hemp.
    - destruct a as [|t a']; [ | cbn [length] in Hlen; lia].
      destruct b as [|u b']; [ | cbn [length] in Hlen; lia].
      exists acc. rewrite s_merge_nil_nil. split; [reflexivity | ]. split; [exact Hacc | ].
      intro x. cbn [Model.seval]. ring.
    - destruct a as [|t a']; destruct b as [|u b'].
      + exists acc. rewrite s_merge_nil_nil. split; [reflexivity | ]. split; [exact Hacc | ].
        intro x. cbn [Model.seval]. ring.
      + exists (acc ++ u :: b'). rewrite s_merge_nil_cons. split.
        * apply (s_append_ok acc lo); try assumption.
          intros E _. destruct lo as [|lo']; [ | lia].
          destruct (Hemp E eq_refl) as [Hn _]. contradiction.
        * split.
          -- apply (app_sorted acc 0 lo); [assumption | assumption | lia | assumption].
          -- intro x. rewrite (seval_app F Fth). cbn [Model.seval]. ring.
      + destruct t as [i x]. exists (acc ++ (i, x) :: a'). rewrite s_merge_cons_nil. split.
        * apply (s_append_ok acc lo); try assumption.
          intros E _. destruct lo as [|lo']; [ | lia].
          destruct (Hemp E eq_refl) as [_ Hn]. contradiction.
        * split.
          -- apply (app_sorted acc 0 lo); [assumption | assumption | lia | assumption].
          -- intro z. rewrite (seval_app F Fth). cbn [Model.seval]. ring.
      + destruct t as [i x]. destruct u as [j y].
        destruct Ha as (Ha1 & Ha2 & Ha3). destruct Hb as (Hb1 & Hb2 & Hb3).
        cbn [fst snd] in Ha1, Ha2, Ha3, Hb1, Hb2, Hb3. cbn [length] in Hlen.
        rewrite s_merge_cons_cons.
        destruct (Nat.compare_spec i j) as [Heq | Hlt | Hgt].
        * (* equal degrees *)
          subst j. destruct (is0 (add x y)) eqn:Hs.
          -- apply (is0_true F eqb_ok) in Hs.
             destruct (IH a' b' acc (S i)) as (v & Hv & Hcan & Hev); try assumption.
             ++ lia.
             ++ apply (Forall_lt_weaken acc lo); [exact Hall | lia].
             ++ intros _ E. discriminate.
             ++ exists v. split; [exact Hv | ]. split; [exact Hcan | ].
                intro z. rewrite Hev. cbn [Model.seval].
                assert (E : add (mul x (pown z i)) (mul y (pown z i)) = zero).
                { transitivity (mul (add x y) (pown z i)); [ring | rewrite Hs; ring]. }
                transitivity (add (seval acc z)
                                (add (add (mul x (pown z i)) (mul y (pown z i)))
                                     (add (seval a' z) (seval b' z)))); [rewrite E; ring | ring].
          -- apply (is0_false F eqb_ok) in Hs.
             destruct (IH a' b' (acc ++ [(i, add x y)]) (S i)) as (v & Hv & Hcan & Hev);
               try assumption.
             ++ lia.
             ++ apply snoc_sorted; [exact Hacc | | lia | exact Hs].
                apply (Forall_lt_weaken acc lo); [exact Hall | lia].
             ++ apply (Forall_snoc_lt acc lo); [exact Hall | lia | lia].
             ++ intros _ E. discriminate.
             ++ exists v. split; [exact Hv | ]. split; [exact Hcan | ].
                intro z. rewrite Hev, (seval_app F Fth). cbn [Model.seval]. ring.
        * (* i < j : take the term of a *)
          destruct (IH a' ((j, y) :: b') (acc ++ [(i, x)]) (S i)) as (v & Hv & Hcan & Hev).
          ++ cbn [length]. lia.
          ++ apply snoc_sorted; [exact Hacc | | lia | exact Ha2].
             apply (Forall_lt_weaken acc lo); [exact Hall | lia].
          ++ apply (Forall_snoc_lt acc lo); [exact Hall | lia | lia].
          ++ exact Ha3.
          ++ cbn [sorted_from fst snd]. split; [lia | ]. split; [exact Hb2 | exact Hb3].
          ++ intros _ E. discriminate.
          ++ exists v. split; [exact Hv | ]. split; [exact Hcan | ].
             intro z. rewrite Hev, (seval_app F Fth). cbn [Model.seval]. ring.
        * (* j < i : take the term of b *)
          destruct (IH ((i, x) :: a') b' (acc ++ [(j, y)]) (S j)) as (v & Hv & Hcan & Hev).
          ++ cbn [length]. lia.
          ++ apply snoc_sorted; [exact Hacc | | lia | exact Hb2].
             apply (Forall_lt_weaken acc lo); [exact Hall | lia].
          ++ apply (Forall_snoc_lt acc lo); [exact Hall | lia | lia].
          ++ cbn [sorted_from fst snd]. split; [lia | ]. split; [exact Ha2 | exact Ha3].
          ++ exact Hb3.
          ++ intros _ E. discriminate.
          ++ exists v. split; [exact Hv | ]. split; [exact Hcan | ].
             intro z. rewrite Hev, (seval_app F Fth). cbn [Model.seval]. ring.
  Qed.

  (* ---------------- addition ---------------- *)

  Lemma oks_ext : forall r (f g : K -> K), (forall x, f x = g x) -> oks F r f -> oks F r g.
  Proof.
    intros r f g Hfg (v & Hv & Hcan & Hev). exists v. split; [exact Hv | ].
    split; [exact Hcan | ]. intro x. rewrite Hev. apply Hfg.
  Qed.

  Theorem s_add_spec : forall a b, scanon F a -> scanon F b ->
    oks F (s_add F a b) (fun x => add (seval a x) (seval b x)).
  Proof.
    intros a b Ha Hb. unfold s_add. destruct (s_is_zero F a) eqn:Hza.
    - exists b. split; [reflexivity | ]. split; [exact Hb | ].
      intro x. rewrite (s_is_zero_eval F Fth eqb_ok a Hza x). ring.
    - destruct (s_is_zero F b) eqn:Hzb.
      + exists a. split; [reflexivity | ]. split; [exact Ha | ].
        intro x. rewrite (s_is_zero_eval F Fth eqb_ok b Hzb x). ring.
      + destruct (s_merge_ok (length a + length b) a b [] 0) as (v & Hv & Hcan & Hev).
        * lia.
        * exact I.
        * constructor.
        * exact Ha.
        * exact Hb.
        * intros _ _. split; intro E; subst; discriminate.
        * exists v. split; [exact Hv | ]. split; [exact Hcan | ].
          intro x. rewrite Hev. cbn [Model.seval]. ring.
  Qed.

  Theorem s_sub_assign_spec : forall a b, scanon F a -> scanon F b ->
    oks F (s_sub_assign F a b) (fun x => sub (seval a x) (seval b x)).
  Proof.
    intros a b Ha Hb. unfold s_sub_assign.
    destruct (s_neg_spec b Hb) as [Hn Hne].
    apply (oks_ext _ (fun x => add (seval a x) (seval (s_neg F b) x))).
    - intro x. rewrite Hne. ring.
    - apply s_add_spec; assumption.
  Qed.

  Theorem s_add_assign_scaled_spec : forall a f b, scanon F a -> scanon F b ->
    oks F (s_add_assign_scaled F a f b) (fun x => add (seval a x) (mul f (seval b x))).
  Proof.
    intros a f b Ha Hb. unfold s_add_assign_scaled.
    destruct (s_scale_spec b f Hb) as [Hn Hne].
    apply (oks_ext _ (fun x => add (seval a x) (seval (s_scale F b f) x))).
    - intro x. rewrite Hne. ring.
    - apply s_add_spec; assumption.
  Qed.

  (* degree() never panics on the result of any operator satisfying [oks] *)
  Theorem s_degree_result_ok : forall r f, oks F r f ->
    exists v d, r = ROk v /\ s_degree F v = ROk d.
  Proof.
    intros r f (v & Hv & Hcan & _).
    destruct (s_degree_ok F eqb_ok v Hcan) as [d Hd].
    exists v, d. split; assumption.
  Qed.

End SparseAdd.
