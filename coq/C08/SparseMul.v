(* C08 proofs: sparse polynomials -- from_coefficients_vec on canonical input, Mul,
   From<DensePolynomial>, evaluate (powers-of-two table), and from_coefficients_vec on
   term lists with pairwise distinct degrees. *)
From V Require Import Base.Field C08.Model C08.Common.
Require Import Lia Field Ring.

Section SparseMul.
  Context {K : Type} (F : Fops K).
  Local Notation zero := (f0 F).
  Local Notation one := (f1 F).
  Local Notation add := (fadd F).
  Local Notation sub := (fsub F).
  Local Notation mul := (fmul F).
  Local Notation neg := (fneg F).
  Local Notation inv := (finv F).
  Local Notation is0 := (is0 F).
  Local Notation eval := (eval F).
  Local Notation seval := (seval F).
  Local Notation pown := (pown F).

  Hypothesis Fth : field_theory zero one add mul sub neg (fun a b => mul a (inv b)) inv eq.
  Hypothesis eqb_ok : forall a b, feqb F a b = true <-> a = b.
  Add Field KF : Fth.

  Local Notation nz := (fun t : nat * K => negb (is0 (snd t))).

  (* ================= 1. s_from_vec on canonical input ================= *)

  Lemma s_retain_all_nonzero : forall s : list (nat * K),
    (forall t, In t s -> snd t <> zero) -> s_retain F s = s.
  Proof.
    induction s as [|t r IH]; intro Hnz; [reflexivity | ].
    unfold s_retain in *. simpl.
    assert (Ht : is0 (snd t) = false).
    { apply (is0_false F eqb_ok). apply Hnz. left. reflexivity. }
    rewrite Ht. simpl. f_equal. apply IH. intros u Hu. apply Hnz. right. exact Hu.
  Qed.

  Lemma sorted_In_nonzero : forall s lo t, sorted_from F lo s -> In t s -> snd t <> zero.
  Proof.
    induction s as [|u r IH]; intros lo t Hs Hin; [destruct Hin | ].
    simpl in Hs. destruct Hs as (_ & H2 & H3).
    destruct Hin as [<- | Hin]; [exact H2 | exact (IH _ _ H3 Hin)].
  Qed.

  Lemma s_retain_sorted_id : forall s lo, sorted_from F lo s -> s_retain F s = s.
  Proof.
    intros s lo Hs. apply s_retain_all_nonzero. intros t Hin. exact (sorted_In_nonzero _ _ _ Hs Hin).
  Qed.

  Lemma s_sort_sorted_id : forall s lo, sorted_from F lo s -> s_sort s = s.
  Proof.
    induction s as [|t r IH]; intros lo Hs; [reflexivity | ].
    simpl in Hs. destruct Hs as (_ & _ & H3).
    unfold s_sort in *. simpl. rewrite (IH _ H3).
    destruct r as [|u r']; [reflexivity | ].
    simpl in H3. destruct H3 as (H3 & _).
    simpl. assert (E : Nat.leb (fst t) (fst u) = true) by (apply Nat.leb_le; lia).
    rewrite E. reflexivity.
  Qed.

  (* the final assert of from_coefficients_vec passes on a canonical list *)
  Lemma s_from_vec_tail_ok : forall r lo, sorted_from F lo r ->
    match r with
    | [] => ROk r
    | _ => if is0 (snd (last r (O, zero))) then RPanic else ROk r
    end = ROk r.
  Proof.
    intros r lo Hs. destruct r as [|t r']; [reflexivity | ].
    destruct (sorted_last F (t :: r') lo Hs) as (A & _ & _); [discriminate | ].
    apply (is0_false F eqb_ok) in A. rewrite A. reflexivity.
  Qed.

  Lemma s_from_vec_sorted_id : forall s lo, sorted_from F lo s -> s_from_vec F s = ROk s.
  Proof.
    intros s lo Hs. unfold s_from_vec.
    rewrite (s_retain_sorted_id _ _ Hs), (s_sort_sorted_id _ _ Hs).
    exact (s_from_vec_tail_ok _ _ Hs).
  Qed.

  Theorem s_from_vec_canon_id : forall s, scanon F s -> s_from_vec F s = ROk s.
  Proof. intros s Hs. exact (s_from_vec_sorted_id s O Hs). Qed.

  (* ================= filter of the non-zero terms ================= *)

  Lemma filter_nz_sorted : forall (s : list (nat * K)) lo,
    ascending lo s -> sorted_from F lo (filter nz s).
  Proof.
    induction s as [|t r IH]; intros lo Ha; [exact I | ].
    simpl in Ha. destruct Ha as [H1 H2]. simpl.
    destruct (is0 (snd t)) eqn:E; simpl.
    - apply (sorted_weaken F _ (S (fst t))); [lia | apply IH; exact H2].
    - split; [exact H1 | ]. split; [apply (is0_false F eqb_ok); exact E | apply IH; exact H2].
  Qed.

  Lemma filter_nz_seval : forall (s : list (nat * K)) x, seval (filter nz s) x = seval s x.
  Proof.
    induction s as [|[i c] r IH]; intro x; [reflexivity | ].
    simpl. destruct (is0 c) eqn:E; simpl.
    - apply (is0_true F eqb_ok) in E. subst c. rewrite IH. ring.
    - rewrite IH. reflexivity.
  Qed.

  (* filter + from_coefficients_vec of any list with strictly ascending degrees *)
  Lemma s_from_vec_filter_spec : forall (s : list (nat * K)) (f : K -> K),
    ascending O s -> (forall x, seval s x = f x) ->
    oks F (s_from_vec F (filter nz s)) f.
  Proof.
    intros s f Ha Hf. pose proof (filter_nz_sorted s O Ha) as Hs.
    exists (filter nz s). split; [apply s_from_vec_canon_id; exact Hs | ].
    split; [exact Hs | ]. intro x. rewrite filter_nz_seval. apply Hf.
  Qed.

  (* ================= 2. Mul ================= *)

  Lemma bt_add_ascending : forall (m : list (nat * K)) lo lo' k v,
    ascending lo m -> (lo' <= lo)%nat -> (lo' <= k)%nat -> ascending lo' (bt_add F m k v).
  Proof.
    induction m as [|[j c] r IH]; intros lo lo' k v Ha Hl Hk.
    - simpl. split; [exact Hk | exact I].
    - simpl in Ha. destruct Ha as [H1 H2]. simpl.
      destruct (Nat.compare k j) eqn:E.
      + apply Nat.compare_eq in E. subst j. simpl. split; [lia | exact H2].
      + apply Nat.compare_lt_iff in E. simpl. split; [exact Hk | ]. split; [lia | exact H2].
      + apply Nat.compare_gt_iff in E. simpl. split; [lia | ].
        apply (IH (S j)); [exact H2 | lia | lia].
  Qed.

  Lemma bt_add_seval : forall (m : list (nat * K)) k v x,
    seval (bt_add F m k v) x = add (seval m x) (mul v (pown x k)).
  Proof.
    induction m as [|[j c] r IH]; intros k v x.
    - simpl. ring.
    - simpl. destruct (Nat.compare k j) eqn:E.
      + apply Nat.compare_eq in E. subst j. simpl. ring.
      + simpl. ring.
      + simpl. rewrite IH. ring.
  Qed.

  Lemma mul_inner_spec : forall (ta : nat * K) (b m : list (nat * K)),
    ascending O m ->
    ascending O (fold_left (fun m' tb => bt_add F m' (fst ta + fst tb)%nat (mul (snd ta) (snd tb))) b m) /\
    forall x,
      seval (fold_left (fun m' tb => bt_add F m' (fst ta + fst tb)%nat (mul (snd ta) (snd tb))) b m) x
      = add (seval m x) (mul (mul (snd ta) (pown x (fst ta))) (seval b x)).
  Proof.
    intros ta. induction b as [|[j d] b IH]; intros m Ha.
    - simpl. split; [exact Ha | intro x; ring].
    - simpl.
      destruct (IH (bt_add F m (fst ta + j)%nat (mul (snd ta) d))) as [A B].
      { apply (bt_add_ascending m O O); [exact Ha | lia | lia]. }
      split; [exact A | ]. intro x. rewrite B, bt_add_seval, (pown_add F Fth). ring.
  Qed.

  Lemma mul_outer_spec : forall (b a m : list (nat * K)),
    ascending O m ->
    ascending O (fold_left (fun m0 ta =>
       fold_left (fun m' tb => bt_add F m' (fst ta + fst tb)%nat (mul (snd ta) (snd tb))) b m0) a m) /\
    forall x,
      seval (fold_left (fun m0 ta =>
       fold_left (fun m' tb => bt_add F m' (fst ta + fst tb)%nat (mul (snd ta) (snd tb))) b m0) a m) x
      = add (seval m x) (mul (seval a x) (seval b x)).
  Proof.
    intros b. induction a as [|ta a IH]; intros m Ha.
    - simpl. split; [exact Ha | intro x; ring].
    - simpl. destruct (mul_inner_spec ta b m Ha) as [A B].
      destruct (IH _ A) as [C D]. split; [exact C | ].
      intro x. rewrite D, B. destruct ta as [i c]. simpl. ring.
  Qed.

  Lemma s_mul_loop_spec : forall a b : list (nat * K),
    ascending O (s_mul_loop F a b) /\
    forall x, seval (s_mul_loop F a b) x = mul (seval a x) (seval b x).
  Proof.
    intros a b. unfold s_mul_loop.
    destruct (mul_outer_spec b a [] I) as [A B]. split; [exact A | ].
    intro x. rewrite B. simpl. ring.
  Qed.

  Theorem s_mul_spec : forall a b, scanon F a -> scanon F b ->
    oks F (s_mul F a b) (fun x => mul (seval a x) (seval b x)).
  Proof.
    intros a b Ha Hb. unfold s_mul.
    destruct (s_is_zero F a || s_is_zero F b) eqn:E.
    - exists []. split; [reflexivity | ]. split; [exact I | ].
      intro x. apply orb_prop in E. destruct E as [E | E].
      + rewrite (s_is_zero_eval F Fth eqb_ok a E x). simpl. ring.
      + rewrite (s_is_zero_eval F Fth eqb_ok b E x). simpl. ring.
    - destruct (s_mul_loop_spec a b) as [A B].
      apply s_from_vec_filter_spec; [exact A | exact B].
  Qed.

  (* ================= 3. From<DensePolynomial> for SparsePolynomial ================= *)

  Lemma enumerate_ascending : forall (p : list K) i, ascending i (enumerate_from i p).
  Proof.
    induction p as [|c p IH]; intro i; [exact I | ].
    simpl. split; [lia | apply IH].
  Qed.

  Lemma enumerate_seval : forall (p : list K) i x,
    seval (enumerate_from i p) x = mul (pown x i) (eval p x).
  Proof.
    induction p as [|c p IH]; intros i x.
    - simpl. ring.
    - simpl. rewrite IH. simpl. ring.
  Qed.

  (* holds for every coefficient list, canonical or not *)
  Theorem d_to_sparse_spec_any : forall p, oks F (d_to_sparse F p) (eval p).
  Proof.
    intro p. unfold d_to_sparse. apply s_from_vec_filter_spec.
    - apply enumerate_ascending.
    - intro x. rewrite enumerate_seval. simpl. ring.
  Qed.

  Theorem d_to_sparse_spec : forall p, canon F p -> oks F (d_to_sparse F p) (eval p).
  Proof. intros p _. apply d_to_sparse_spec_any. Qed.

  (* ================= 4. evaluate ================= *)

  Lemma pown_sq : forall y n, pown (mul y y) n = pown y (n + n).
  Proof.
    intros y. induction n as [|n IH]; [reflexivity | ].
    replace (S n + S n)%nat with (S (S (n + n))) by lia. simpl. rewrite IH. ring.
  Qed.

  Lemma pwt_pos_squarings : forall e k y acc, (Pos.size_nat e <= k)%nat ->
    pwt_pos F (squarings F k y) e acc = Some (mul acc (pown y (Pos.to_nat e))).
  Proof.
    induction e as [e IH | e IH | ]; intros k y acc Hk.
    - cbn [Pos.size_nat] in Hk. destruct k as [|k]; [lia | ]. cbn [pwt_pos squarings tl].
      rewrite IH by lia. f_equal. rewrite Pos2Nat.inj_xI, pown_sq.
      replace (S (2 * Pos.to_nat e)) with (S (Pos.to_nat e + Pos.to_nat e)) by lia.
      cbn [Model.pown]. ring.
    - cbn [Pos.size_nat] in Hk. destruct k as [|k]; [lia | ]. cbn [pwt_pos squarings tl].
      rewrite IH by lia. f_equal. rewrite Pos2Nat.inj_xO, pown_sq.
      replace (2 * Pos.to_nat e)%nat with (Pos.to_nat e + Pos.to_nat e)%nat by lia.
      reflexivity.
    - cbn [Pos.size_nat] in Hk. destruct k as [|k]; [lia | ]. cbn [pwt_pos squarings tl].
      f_equal. change (Pos.to_nat 1) with 1%nat. cbn [Model.pown]. ring.
  Qed.

  Lemma pos_size_size_nat : forall p, Pos.to_nat (Pos.size p) = Pos.size_nat p.
  Proof.
    induction p as [p IH | p IH | ]; simpl; [ | | reflexivity];
      rewrite Pos2Nat.inj_succ, IH; reflexivity.
  Qed.

  Lemma bitlen_pos : forall d p, N.of_nat d = Npos p -> bitlen d = Pos.size_nat p.
  Proof.
    intros d p H. unfold bitlen. rewrite H. simpl. apply pos_size_size_nat.
  Qed.

  Lemma size_nat_le : forall p q, (p <= q)%positive -> (Pos.size_nat p <= Pos.size_nat q)%nat.
  Proof.
    intros p q H. apply Pos.le_lteq in H. destruct H as [H | ->]; [ | lia].
    apply Pos.size_nat_monotone. exact H.
  Qed.

  (* the table built for degree d serves every exponent e <= d *)
  Lemma pow_with_table_ok : forall x d e, (e <= d)%nat ->
    pow_with_table F (squarings F (Nat.max 1 (bitlen d)) x) e = Some (pown x e).
  Proof.
    intros x d e Hle. unfold pow_with_table.
    destruct (N.of_nat e) as [|pe] eqn:Ee.
    - assert (e = O) by lia. subst e. reflexivity.
    - assert (Hpe : Pos.to_nat pe = e).
      { lia. }
      destruct (N.of_nat d) as [|pd] eqn:Ed; [lia | ].
      assert (Hpp : (pe <= pd)%positive) by lia.
      rewrite pwt_pos_squarings.
      + rewrite Hpe. f_equal. ring.
      + rewrite (bitlen_pos d pd Ed). pose proof (size_nat_le _ _ Hpp). lia.
  Qed.

  Lemma s_eval_fold : forall (tbl : list K) x (s : list (nat * K)) a,
    (forall t, In t s -> pow_with_table F tbl (fst t) = Some (pown x (fst t))) ->
    fold_left (fun acc t =>
                 a <- acc ;;
                 match pow_with_table F tbl (fst t) with
                 | Some pw => ROk (add a (mul (snd t) pw))
                 | None => RPanic
                 end) s (ROk a) = ROk (add a (seval s x)).
  Proof.
    intros tbl x. induction s as [|[i c] s IH]; intros a Hin.
    - simpl. f_equal. ring.
    - pose proof (Hin (i, c) (or_introl eq_refl)) as Hic. simpl in Hic.
      simpl. rewrite Hic. simpl.
      rewrite IH by (intros t Ht; apply Hin; right; exact Ht).
      f_equal. ring.
  Qed.

  Theorem s_evaluate_spec : forall s x, scanon F s -> s_evaluate F s x = ROk (seval s x).
  Proof.
    intros s x Hs. unfold s_evaluate. destruct s as [|t r]; [reflexivity | ].
    destruct (s_degree_nonzero F eqb_ok (t :: r) O Hs) as [Hz Hd]; [discriminate | ].
    rewrite Hz, Hd. cbn [bind].
    rewrite (s_eval_fold _ x).
    - f_equal. ring.
    - intros [i c] Hin. simpl fst. apply pow_with_table_ok.
      exact (sorted_In_le_last F _ _ _ _ Hs Hin).
  Qed.

  (* ================= 5. from_coefficients_vec: distinct degrees, non-zero ================= *)

  Lemma s_insert_In : forall (t u : nat * K) r, In u (s_insert t r) <-> u = t \/ In u r.
  Proof.
    intros t u. induction r as [|w r IH]; simpl.
    - intuition.
    - destruct (Nat.leb (fst t) (fst w)); simpl; [intuition | ].
      rewrite IH. intuition.
  Qed.

  Lemma s_sort_In : forall (u : nat * K) s, In u (s_sort s) <-> In u s.
  Proof.
    intros u. induction s as [|t s IH]; [reflexivity | ].
    unfold s_sort in *. simpl. rewrite s_insert_In, IH. intuition.
  Qed.

  Lemma s_insert_sorted : forall (t : nat * K) r lo lo',
    sorted_from F lo r -> (forall u, In u r -> fst u <> fst t) -> snd t <> zero ->
    (lo' <= lo)%nat -> (lo' <= fst t)%nat -> sorted_from F lo' (s_insert t r).
  Proof.
    intros t. induction r as [|w r IH]; intros lo lo' Hs Hd Hc Hl Ht.
    - simpl. auto.
    - simpl in Hs. destruct Hs as (H1 & H2 & H3). simpl.
      assert (Hne : fst w <> fst t) by (apply Hd; left; reflexivity).
      destruct (Nat.leb (fst t) (fst w)) eqn:E.
      + apply Nat.leb_le in E. simpl. repeat split; auto; lia.
      + apply Nat.leb_gt in E.
        simpl. split; [lia | ]. split; [exact H2 | ].
        apply (IH (S (fst w))); auto; try lia.
        intros u Hu. apply Hd. right. exact Hu.
  Qed.

  Lemma s_insert_seval : forall (t : nat * K) r x,
    seval (s_insert t r) x = add (mul (snd t) (pown x (fst t))) (seval r x).
  Proof.
    intros [i c]. induction r as [|[j d] r IH]; intro x.
    - reflexivity.
    - simpl. destruct (Nat.leb i j); simpl; [reflexivity | ].
      simpl in IH. rewrite IH. ring.
  Qed.

  Lemma s_sort_seval : forall (s : list (nat * K)) x, seval (s_sort s) x = seval s x.
  Proof.
    induction s as [|[i c] s IH]; intro x; [reflexivity | ].
    unfold s_sort in *. simpl. rewrite s_insert_seval, IH. reflexivity.
  Qed.

  Lemma s_sort_sorted : forall s : list (nat * K),
    NoDup (map fst s) -> (forall t, In t s -> snd t <> zero) -> sorted_from F O (s_sort s).
  Proof.
    induction s as [|t s IH]; intros Hnd Hnz; [exact I | ].
    simpl in Hnd. inversion Hnd as [|? ? Hnotin Hnd']; subst.
    change (s_sort (t :: s)) with (s_insert t (s_sort s)).
    apply (s_insert_sorted t _ O O); try lia.
    - apply IH; [exact Hnd' | ]. intros u Hu. apply Hnz. right. exact Hu.
    - intros u Hu Heq. apply (proj1 (s_sort_In u s)) in Hu. apply Hnotin. rewrite <- Heq.
      apply in_map. exact Hu.
    - apply Hnz. left. reflexivity.
  Qed.

  Lemma s_retain_nonzero : forall (s : list (nat * K)) t, In t (s_retain F s) -> snd t <> zero.
  Proof.
    intros s t Hin. unfold s_retain in Hin. apply filter_In in Hin. destruct Hin as [_ H].
    apply (is0_false F eqb_ok). destruct (is0 (snd t)); [discriminate | reflexivity].
  Qed.

  Lemma s_retain_NoDup : forall s : list (nat * K),
    NoDup (map fst s) -> NoDup (map fst (s_retain F s)).
  Proof.
    induction s as [|t r IH]; intro Hnd; [exact Hnd | ].
    simpl in Hnd. inversion Hnd as [|? ? Hnotin Hnd']; subst.
    unfold s_retain in *. simpl. destruct (is0 (snd t)); simpl; [exact (IH Hnd') | ].
    constructor; [ | exact (IH Hnd')].
    intro Hin. apply Hnotin. apply in_map_iff in Hin. destruct Hin as (u & Hu & Hin).
    apply filter_In in Hin. destruct Hin as [Hin _]. rewrite <- Hu. apply in_map. exact Hin.
  Qed.

  Lemma last_In_nonempty : forall (r : list (nat * K)) d, r <> [] -> In (last r d) r.
  Proof.
    induction r as [|t r IH]; intros d Hne; [congruence | ].
    destruct r as [|u r']; [left; reflexivity | ].
    right. change (last (t :: u :: r') d) with (last (u :: r') d). apply IH. discriminate.
  Qed.

  (* from_coefficients_vec never panics, on ANY raw term list (zero coefficients anywhere, repeated
     degrees): the result holds exactly the non-zero raw terms and denotes the sum of the raw terms *)
  Theorem s_from_vec_total : forall s : list (nat * K),
    exists r, s_from_vec F s = ROk r /\ (forall t, In t r <-> (In t s /\ snd t <> zero)) /\
              (forall x, seval r x = seval s x).
  Proof.
    intro s. exists (s_sort (s_retain F s)). split; [ | split].
    - unfold s_from_vec. cbv zeta.
      destruct (s_sort (s_retain F s)) as [|t r'] eqn:E; [reflexivity | ].
      assert (Hin : In (last (t :: r') (O, zero)) (s_sort (s_retain F s)))
        by (rewrite E; apply last_In_nonempty; discriminate).
      apply (proj1 (s_sort_In _ _)) in Hin.
      apply s_retain_nonzero in Hin. apply (is0_false F eqb_ok) in Hin. rewrite Hin. reflexivity.
    - intro t. rewrite s_sort_In. unfold s_retain. rewrite filter_In. split.
      + intros [A B]. split; [exact A | ]. apply (is0_false F eqb_ok).
        destruct (is0 (snd t)); [discriminate | reflexivity].
      + intros [A B]. split; [exact A | ]. apply (is0_false F eqb_ok) in B. rewrite B. reflexivity.
    - intro x. rewrite s_sort_seval. unfold s_retain. apply filter_nz_seval.
  Qed.

  (* pairwise distinct degrees (zero coefficients allowed, anywhere in the list): no panic, canonical
     result, same function.  (Repeated degrees survive the constructor as repeated entries: the result
     is then not canonical -- s_from_vec_total is all that holds there.) *)
  Theorem s_from_vec_spec : forall s : list (nat * K),
    NoDup (map fst s) -> oks F (s_from_vec F s) (seval s).
  Proof.
    intros s Hnd.
    pose proof (s_sort_sorted (s_retain F s) (s_retain_NoDup s Hnd) (s_retain_nonzero s)) as Hs.
    exists (s_sort (s_retain F s)). unfold s_from_vec. cbv zeta.
    split; [exact (s_from_vec_tail_ok _ _ Hs) | ]. split; [exact Hs | ].
    intro x. rewrite s_sort_seval. unfold s_retain. apply filter_nz_seval.
  Qed.

  (* the statement of the first session (before F28 was repaired), now a corollary *)
  Theorem s_from_vec_spec_partial : forall s : list (nat * K),
    NoDup (map fst s) -> (forall t, In t s -> snd t <> zero) ->
    oks F (s_from_vec F s) (seval s).
  Proof. intros s Hnd _. exact (s_from_vec_spec s Hnd). Qed.

End SparseMul.
