(* C08 proofs: multiplication and division by the vanishing polynomial X^n - c of a
   (coset) domain  (DensePolynomial::mul_by_vanishing_poly / divide_by_vanishing_poly). *)
From V Require Import Base.Field C08.Model C08.Common.
Require Import Lia Field Ring.

Section Vanishing.
  Context {K : Type} (F : Fops K).
  Local Notation zero := (f0 F).
  Local Notation one := (f1 F).
  Local Notation add := (fadd F).
  Local Notation sub := (fsub F).
  Local Notation mul := (fmul F).
  Local Notation neg := (fneg F).
  Local Notation inv := (finv F).
  Local Notation is0 := (is0 F).
  Local Notation eval := (eval F).
  Local Notation pown := (pown F).
  Local Notation trunc := (trunc F).

  Hypothesis Fth : field_theory zero one add mul sub neg (fun a b => mul a (inv b)) inv eq.
  Hypothesis eqb_ok : forall a b, feqb F a b = true <-> a = b.
  Add Field KF : Fth.

  (* ---------------- mul_by_vanishing_poly ---------------- *)

  Theorem mul_by_vanishing_spec : forall p n c,
    okd F (mul_by_vanishing F p n c) (fun x => mul (eval p x) (sub (pown x n) c)).
  Proof.
    intros p n c. unfold mul_by_vanishing.
    rewrite (d_from_vec_ok F eqb_ok). apply (okd_trunc F Fth eqb_ok).
    intro x. rewrite (zip_submul_eval F Fth).
    - rewrite (eval_app F Fth), (eval_repeat_zero F Fth), repeat_length. ring.
    - rewrite app_length, repeat_length. lia.
  Qed.

  (* ---------------- list helpers ---------------- *)

  Lemma zip_into_nil_r : forall (f : K -> K -> K) (a : list K), zip_into f a [] = a.
  Proof. intros f a. destruct a; reflexivity. Qed.

  (* zip_into only looks at the first [length a] entries of b *)
  Lemma zip_into_firstn : forall (f : K -> K -> K) (a b : list K),
    zip_into f a b = zip_into f a (firstn (length a) b).
  Proof.
    induction a as [|u a IH]; intro b; [reflexivity | ].
    destruct b as [|v b]; [reflexivity | ].
    simpl. rewrite <- IH. reflexivity.
  Qed.

  Lemma skipn_zip_into : forall (f : K -> K -> K) (m : nat) (a b : list K),
    skipn m (zip_into f a b) = zip_into f (skipn m a) (skipn m b).
  Proof.
    induction m as [|m IH]; intros a b; [reflexivity | ].
    destruct a as [|u a]; [reflexivity | ].
    destruct b as [|v b].
    - simpl. rewrite zip_into_nil_r. reflexivity.
    - simpl. apply IH.
  Qed.

  Lemma skipn_skipn_add : forall (a b : nat) (l : list K), skipn a (skipn b l) = skipn (b + a) l.
  Proof.
    intros a b. induction b as [|b IH]; intro l; [reflexivity | ].
    destruct l as [|h t]; [simpl; apply skipn_nil | ].
    simpl. apply IH.
  Qed.

  (* l = (first m coefficients) + x^m * (the rest), also when l is shorter than m *)
  Lemma eval_split : forall (m : nat) (l : list K) (x : K),
    eval l x = add (eval (firstn m l) x) (mul (pown x m) (eval (skipn m l) x)).
  Proof.
    induction m as [|m IH]; intros l x.
    - simpl. ring.
    - destruct l as [|h t]; simpl; [ring | ].
      pose proof (IH t x) as E. rewrite E at 1. ring.
  Qed.

  (* ---------------- the quotient loop ---------------- *)

  (* what k iterations of the loop, started at index i with cur_pow = cur, add to the
     quotient: sum_{j=1..k} cur c^j * (p shifted down by n (i + j)) *)
  Fixpoint dv_sum (k i n : nat) (c cur : K) (p : list K) (x : K) : K :=
    match k with
    | O => zero
    | S k' => add (mul (mul cur c) (eval (skipn (n * (i + 1)) p) x))
                  (dv_sum k' (S i) n c (mul cur c) p x)
    end.

  Lemma dv_loop_eval : forall k i n c cur p quot x,
    (length (skipn (n * (i + 1)) p) <= length quot)%nat ->
    eval (dv_loop F k i n c cur p quot) x = add (eval quot x) (dv_sum k i n c cur p x).
  Proof.
    induction k as [|k IH]; intros i n c cur p quot x Hl; cbn [dv_loop dv_sum].
    - ring.
    - rewrite IH.
      + rewrite (zip_addmul_eval F Fth) by exact Hl. ring.
      + rewrite zip_into_length. rewrite skipn_length in *. nia.
  Qed.

  (* the quotient vector shifted down by n is the same loop started one chunk later *)
  Lemma skipn_dv_loop : forall k i n c cur p quot,
    skipn n (dv_loop F k i n c cur p quot) = dv_loop F k (S i) n c cur p (skipn n quot).
  Proof.
    induction k as [|k IH]; intros i n c cur p quot; cbn [dv_loop]; [reflexivity | ].
    rewrite IH, skipn_zip_into, skipn_skipn_add.
    replace (n * (i + 1) + n)%nat with (n * (S i + 1))%nat by lia.
    reflexivity.
  Qed.

  (* when the chunk after the last visited one is empty, the sum started at i is
     c * (chunk i+1 + the sum started at i+1) *)
  Lemma dv_sum_shift : forall k i n c cur p x,
    skipn (n * (i + k + 1)) p = [] ->
    dv_sum k i n c cur p x =
      mul c (add (mul cur (eval (skipn (n * (i + 1)) p) x)) (dv_sum k (S i) n c cur p x)).
  Proof.
    induction k as [|k IH]; intros i n c cur p x H.
    - replace (i + 0 + 1)%nat with (i + 1)%nat in H by lia.
      cbn [dv_sum]. rewrite H. simpl. ring.
    - cbn [dv_sum]. rewrite (IH (S i) n c (mul cur c) p x).
      + ring.
      + replace (S i + k + 1)%nat with (i + S k + 1)%nat by lia. exact H.
  Qed.

  (* ---------------- divide_by_vanishing_poly ---------------- *)

  Theorem divide_by_vanishing_spec : forall p n c, (0 < n)%nat -> canon F p ->
    exists q r, divide_by_vanishing F p n c = ROk (q, r) /\ canon F q /\ canon F r /\
      (length r <= n)%nat /\
      forall x, eval p x = add (mul (eval q x) (sub (pown x n) c)) (eval r x).
  Proof.
    intros p n c Hn Hp. unfold divide_by_vanishing.
    destruct (Nat.ltb (length p) n) eqn:E.
    - apply Nat.ltb_lt in E. exists [], p.
      split; [reflexivity | ]. split; [apply canon_nil | ]. split; [exact Hp | ].
      split; [lia | ]. intro x. simpl. ring.
    - apply Nat.ltb_ge in E. cbv zeta.
      remember (length p / n - 1)%nat as k eqn:Ek.
      remember (dv_loop F k 1 n c one p (skipn n p)) as Q eqn:EQ.
      remember (zip_into (fun s x => add s (mul c x)) (firstn n p) Q) as R eqn:ER.
      rewrite !(d_from_vec_ok F eqb_ok). cbn [bind].
      exists (trunc Q), (trunc R).
      split; [reflexivity | ].
      split; [apply (trunc_canon F eqb_ok) | ].
      split; [apply (trunc_canon F eqb_ok) | ].
      assert (Hlo : length (firstn n p) = n) by (rewrite firstn_length; lia).
      split.
      { pose proof (trunc_length F R) as HT.
        rewrite ER in HT at 2. rewrite zip_into_length, Hlo in HT. exact HT. }
      intro x. rewrite !(trunc_eval F Fth eqb_ok).
      (* the chunk after the last visited one is empty *)
      assert (Hend : skipn (n * (1 + k + 1)) p = []).
      { apply skipn_all2.
        pose proof (Nat.div_mod (length p) n ltac:(lia)) as Hdm.
        pose proof (Nat.mod_upper_bound (length p) n ltac:(lia)) as Hmod.
        assert (Hm : (1 <= length p / n)%nat).
        { destruct (length p / n)%nat eqn:Ed; [ | lia]. rewrite Nat.mul_0_r in Hdm. lia. }
        replace (1 + k + 1)%nat with (length p / n + 1)%nat by lia. nia. }
      (* remainder: only the first n entries of Q are used *)
      assert (HR : eval R x = add (eval (firstn n p) x) (mul c (eval (firstn n Q) x))).
      { rewrite ER, zip_into_firstn, Hlo.
        apply (zip_addmul_eval F Fth). rewrite Hlo, firstn_length. lia. }
      pose proof (eval_split n Q x) as HQsplit.
      pose proof (eval_split n p x) as Hpsplit.
      assert (HQ : eval Q x = add (eval (skipn n p) x) (dv_sum k 1 n c one p x)).
      { rewrite EQ. apply dv_loop_eval. rewrite !skipn_length. nia. }
      assert (HQhi : eval (skipn n Q) x =
                     add (eval (skipn (n * (1 + 1)) p) x) (dv_sum k 2 n c one p x)).
      { rewrite EQ, skipn_dv_loop, skipn_skipn_add.
        replace (n + n)%nat with (n * (1 + 1))%nat by lia.
        apply dv_loop_eval. rewrite !skipn_length. nia. }
      pose proof (dv_sum_shift k 1 n c one p x Hend) as Hshift.
      rewrite HQhi in HQsplit.
      remember (eval (skipn n p) x) as S1.
      remember (add (eval (skipn (n * (1 + 1)) p) x) (dv_sum k 2 n c one p x)) as T eqn:ET.
      remember (eval (firstn n Q) x) as Qlo.
      remember (eval (firstn n p) x) as lo.
      remember (pown x n) as xn.
      assert (A1 : S1 = sub (eval Q x) (mul c T)).
      { rewrite HQ, Hshift, ET. ring. }
      assert (A2 : Qlo = sub (eval Q x) (mul xn T)).
      { rewrite HQsplit at 1. ring. }
      rewrite Hpsplit, HR, A1, A2. ring.
  Qed.

End Vanishing.

(* ---------------- concrete runs over Z_97, vanishing polynomial X^2 - 5 ---------------- *)

(* (1 + 2x + 3x^2 + 4x^3 + 5x^4 + 6x^5 + 7x^6) = (9 + 34x + 40x^2 + 6x^3 + 7x^4)(x^2 - 5) + (46 + 75x) *)
Example divide_by_vanishing_run :
  divide_by_vanishing (ZpOps 97) [1; 2; 3; 4; 5; 6; 7] 2 5 = ROk ([9; 34; 40; 6; 7], [46; 75]).
Proof. vm_compute. reflexivity. Qed.

(* and multiplying the quotient back and adding the remainder gives the input *)
Example divide_then_mul_run :
  (q <- mul_by_vanishing (ZpOps 97) [9; 34; 40; 6; 7] 2 5 ;; d_add (ZpOps 97) q [46; 75])
  = ROk [1; 2; 3; 4; 5; 6; 7].
Proof. vm_compute. reflexivity. Qed.

(* short input: quotient zero, the input is the remainder *)
Example divide_by_vanishing_short :
  divide_by_vanishing (ZpOps 97) [3; 4] 3 5 = ROk ([], [3; 4]).
Proof. vm_compute. reflexivity. Qed.

(* (1 + 2x + 3x^2)(x^2 - 5) = -5 - 10x - 14x^2 + 2x^3 + 3x^4 *)
Example mul_by_vanishing_run :
  mul_by_vanishing (ZpOps 97) [1; 2; 3] 2 5 = ROk [92; 87; 83; 2; 3].
Proof. vm_compute. reflexivity. Qed.
