(* C09 model, part 1: byte strings, readers, outcomes.  No proofs in this file.
   A byte is a Z in [0,256); a byte string is a `list Z`; a reader (`impl Read` over a
   slice) is the list of bytes not yet consumed. *)
Require Export ZArith List Bool.
Export ListNotations.
Open Scope Z_scope.

(* outcome of a (de)serialization call *)
Inductive res (A : Type) : Type :=
| Ok (a : A)
| Err (e : Z)        (* SerializationError, see the constants below *)
| Panic.             (* index out of bounds / debug assertion / unwrap on None *)
Arguments Ok {A}. Arguments Err {A}. Arguments Panic {A}.

Definition E_NotEnoughSpace : Z := 1.
Definition E_InvalidData : Z := 2.
Definition E_UnexpectedFlags : Z := 3.
Definition E_Io : Z := 4.            (* IoError(UnexpectedEof) of read_exact on a short slice *)

Definition bind {A B} (r : res A) (f : A -> res B) : res B :=
  match r with Ok a => f a | Err e => Err e | Panic => Panic end.

Definition is_byte (b : Z) : Prop := 0 <= b < 256.
Definition bytes_ok (l : list Z) : Prop := Forall is_byte l.

(* u64::to_le_bytes generalised: the n low bytes of v, little-endian *)
Fixpoint le_bytes (n : nat) (v : Z) : list Z :=
  match n with O => [] | S n' => v mod 256 :: le_bytes n' (v / 256) end.

(* u64::from_le_bytes generalised *)
Fixpoint le_val (bs : list Z) : Z :=
  match bs with [] => 0 | b :: t => b + 256 * le_val t end.

(* BigInt<N>.0 of a non-negative integer: N little-endian 64-bit limbs *)
Fixpoint limbs_of (n : nat) (v : Z) : list Z :=
  match n with O => [] | S n' => v mod 2^64 :: limbs_of n' (v / 2^64) end.

Fixpoint limbs_val (l : list Z) : Z :=
  match l with [] => 0 | x :: r => x + 2^64 * limbs_val r end.

(* split a list into chunks of 8 (the [[u8; 8]; N] view of the first 8N bytes) *)
Fixpoint chunks8 (n : nat) (l : list Z) : list (list Z) :=
  match n with O => [] | S n' => firstn 8 l :: chunks8 n' (skipn 8 l) end.

(* Read::read_exact on a slice reader: either n bytes and the advanced reader, or EOF *)
Definition read_exact (n : nat) (bs : list Z) : option (list Z * list Z) :=
  if (length bs <? n)%nat then None else Some (firstn n bs, skipn n bs).

(* buf[i] = x *)
Definition upd (i : nat) (x : Z) (l : list Z) : list Z :=
  firstn i l ++ x :: skipn (S i) l.

(* MODULUS_BIT_SIZE = const_num_bits of the modulus *)
Definition nbits (p : Z) : Z := if p <=? 0 then 0 else Z.log2 p + 1.

(* serialize::buffer_byte_size = div_ceil(8) *)
Definition buffer_byte_size (bits : Z) : Z := (bits + 7) / 8.
