(* C09 proofs, part 1: little-endian byte strings, limbs, list surgery, the bit facts
   behind "flags live in the top bits of the last byte", MODULUS_BIT_SIZE. *)
From V Require Import C09.Bytes.
Require Import Lia.
Local Open Scope Z_scope.

(* ---------- powers of 256 ---------- *)
Lemma pow256_0 : 256 ^ Z.of_nat 0 = 1.
Proof. reflexivity. Qed.

Lemma pow256_pos n : 0 < 256 ^ Z.of_nat n.
Proof. apply Z.pow_pos_nonneg; lia. Qed.

Lemma pow256_S n : 256 ^ Z.of_nat (S n) = 256 * 256 ^ Z.of_nat n.
Proof. rewrite Nat2Z.inj_succ, Z.pow_succ_r; lia. Qed.

Lemma pow256_add n m : 256 ^ Z.of_nat (n + m) = 256 ^ Z.of_nat n * 256 ^ Z.of_nat m.
Proof. rewrite Nat2Z.inj_add, Z.pow_add_r; lia. Qed.

Lemma pow256_two n : 256 ^ Z.of_nat n = 2 ^ (8 * Z.of_nat n).
Proof. rewrite Z.pow_mul_r by lia. reflexivity. Qed.

Lemma pow256_mono n m : (n <= m)%nat -> 256 ^ Z.of_nat n <= 256 ^ Z.of_nat m.
Proof. intros H. apply Z.pow_le_mono_r; lia. Qed.

(* ---------- list surgery ---------- *)
Lemma firstn_app_len {A} (a b : list A) k : length a = k -> firstn k (a ++ b) = a.
Proof.
  intros <-. induction a as [|x a IH]; cbn [length firstn app].
  - destruct b; reflexivity.
  - rewrite IH; reflexivity.
Qed.

Lemma skipn_app_len {A} (a b : list A) k : length a = k -> skipn k (a ++ b) = b.
Proof.
  intros <-. induction a as [|x a IH]; cbn [length skipn app]; auto.
Qed.

Lemma nth_app_len {A} (a b : list A) x d k : length a = k -> nth k (a ++ x :: b) d = x.
Proof.
  intros <-. induction a as [|y a IH]; cbn [length nth app]; auto.
Qed.

Lemma firstn_add {A} a b (l : list A) : firstn (a + b) l = firstn a l ++ firstn b (skipn a l).
Proof.
  revert l; induction a as [|a IH]; intros l.
  - reflexivity.
  - destruct l as [|x l].
    + cbn [Nat.add firstn skipn app]. rewrite firstn_nil. reflexivity.
    + cbn [Nat.add firstn skipn app]. rewrite IH. reflexivity.
Qed.

Lemma skipn_add {A} a b (l : list A) : skipn (a + b) l = skipn b (skipn a l).
Proof.
  revert l; induction a as [|a IH]; intros l.
  - reflexivity.
  - destruct l as [|x l].
    + cbn [Nat.add skipn]. rewrite skipn_nil. reflexivity.
    + cbn [Nat.add skipn]. apply IH.
Qed.

Lemma firstn_1_skipn {A} n (l : list A) d : (n < length l)%nat -> firstn 1 (skipn n l) = [nth n l d].
Proof.
  revert l; induction n as [|n IH]; intros l H; destruct l as [|x l]; cbn [length] in H; try lia.
  - reflexivity.
  - cbn [skipn nth]. apply IH. lia.
Qed.

Lemma skipn_repeat {A} (x : A) n m : skipn n (repeat x m) = repeat x (m - n).
Proof.
  revert m; induction n as [|n IH]; intros m.
  - rewrite Nat.sub_0_r. reflexivity.
  - destruct m as [|m]; cbn [repeat skipn Nat.sub]; auto.
Qed.

Lemma firstn_firstn_le {A} i n (l : list A) : (i <= n)%nat -> firstn i (firstn n l) = firstn i l.
Proof. intros H. rewrite firstn_firstn. f_equal. lia. Qed.

Lemma nth_firstn_lt {A} i n (l : list A) d : (i < n)%nat -> nth i (firstn n l) d = nth i l d.
Proof.
  revert n l; induction i as [|i IH]; intros n l H; destruct n as [|n]; try lia;
    destruct l as [|x l]; cbn [firstn nth]; auto.
  apply IH. lia.
Qed.

(* ---------- bytes_ok ---------- *)
Lemma bytes_ok_app a b : bytes_ok (a ++ b) <-> bytes_ok a /\ bytes_ok b.
Proof. unfold bytes_ok. apply Forall_app. Qed.

Lemma bytes_ok_firstn n l : bytes_ok l -> bytes_ok (firstn n l).
Proof.
  intros H. rewrite <- (firstn_skipn n l) in H. apply bytes_ok_app in H. tauto.
Qed.

Lemma bytes_ok_skipn n l : bytes_ok l -> bytes_ok (skipn n l).
Proof.
  intros H. rewrite <- (firstn_skipn n l) in H. apply bytes_ok_app in H. tauto.
Qed.

Lemma bytes_ok_repeat0 n : bytes_ok (repeat 0 n).
Proof. induction n; cbn [repeat]; constructor; auto. unfold is_byte; lia. Qed.

Lemma bytes_ok_nth l i : bytes_ok l -> is_byte (nth i l 0).
Proof.
  intros H. revert i; induction H as [|b t Hb Ht IH]; intros i; destruct i; cbn [nth]; auto;
    unfold is_byte; lia.
Qed.

(* ---------- le_bytes / le_val ---------- *)
Lemma le_bytes_length n v : length (le_bytes n v) = n.
Proof. revert v; induction n; intros; cbn [le_bytes length]; auto. Qed.

Lemma le_bytes_ok n v : bytes_ok (le_bytes n v).
Proof.
  revert v; induction n; intros; cbn [le_bytes]; constructor.
  - unfold is_byte. apply Z.mod_pos_bound; lia.
  - apply IHn.
Qed.

Lemma le_val_bound l : bytes_ok l -> 0 <= le_val l < 256 ^ Z.of_nat (length l).
Proof.
  induction 1 as [|b t Hb Ht IH]; cbn [le_val length].
  - rewrite pow256_0. lia.
  - rewrite pow256_S. unfold is_byte in Hb. lia.
Qed.

Lemma le_val_app a b : le_val (a ++ b) = le_val a + 256 ^ Z.of_nat (length a) * le_val b.
Proof.
  induction a as [|x a IH]; cbn [app le_val length].
  - rewrite pow256_0. lia.
  - rewrite pow256_S, IH. ring.
Qed.

Lemma le_val_repeat0 n : le_val (repeat 0 n) = 0.
Proof. induction n; cbn [repeat le_val]; lia. Qed.

Lemma le_bytes_le_val l : bytes_ok l -> le_bytes (length l) (le_val l) = l.
Proof.
  induction 1 as [|b t Hb Ht IH]; cbn [le_val length le_bytes]; auto.
  unfold is_byte in Hb.
  replace ((b + 256 * le_val t) mod 256) with b.
  replace ((b + 256 * le_val t) / 256) with (le_val t).
  - rewrite IH; auto.
  - apply Z.div_unique with b; lia.
  - apply Z.mod_unique with (le_val t); lia.
Qed.

Lemma le_val_le_bytes n v : le_val (le_bytes n v) = v mod 256 ^ Z.of_nat n.
Proof.
  revert v; induction n; intros; cbn [le_bytes le_val].
  - rewrite pow256_0, Z.mod_1_r; auto.
  - rewrite IHn, pow256_S. pose proof (pow256_pos n). rewrite Z.rem_mul_r; lia.
Qed.

Lemma le_bytes_mod n v : le_bytes n (v mod 256 ^ Z.of_nat n) = le_bytes n v.
Proof.
  pose proof (le_bytes_le_val (le_bytes n v) (le_bytes_ok n v)) as H.
  rewrite le_bytes_length, le_val_le_bytes in H. exact H.
Qed.

(* a well-formed byte string is determined by its length and its value *)
Lemma bytes_canon l n v : bytes_ok l -> length l = n -> le_val l = v -> l = le_bytes n v.
Proof. intros H <- <-. symmetry. apply le_bytes_le_val; auto. Qed.

Lemma le_bytes_app n m v : le_bytes (n + m) v = le_bytes n v ++ le_bytes m (v / 256 ^ Z.of_nat n).
Proof.
  revert v; induction n; intros v.
  - rewrite pow256_0, Z.div_1_r. reflexivity.
  - cbn [Nat.add le_bytes app]. rewrite IHn, pow256_S.
    pose proof (pow256_pos n). rewrite Z.div_div by lia. reflexivity.
Qed.

Lemma le_bytes_snoc m w : le_bytes (S m) w = le_bytes m w ++ [(w / 256 ^ Z.of_nat m) mod 256].
Proof. replace (S m) with (m + 1)%nat by lia. rewrite le_bytes_app. reflexivity. Qed.

Lemma firstn_le_bytes k n v : (k <= n)%nat -> firstn k (le_bytes n v) = le_bytes k v.
Proof.
  intros H. replace n with (k + (n - k))%nat by lia. rewrite le_bytes_app.
  apply firstn_app_len, le_bytes_length.
Qed.

Lemma nth_le_bytes i n v : (i < n)%nat -> nth i (le_bytes n v) 0 = (v / 256 ^ Z.of_nat i) mod 256.
Proof.
  intros H. replace n with (i + S (n - i - 1))%nat by lia. rewrite le_bytes_app.
  cbn [le_bytes]. apply nth_app_len, le_bytes_length.
Qed.

Lemma le_bytes_small_snoc n v : 0 <= v < 256 ^ Z.of_nat n -> le_bytes n v ++ [0] = le_bytes (S n) v.
Proof. intros H. rewrite le_bytes_snoc, Z.div_small by lia. reflexivity. Qed.

Lemma le_val_firstn k l : bytes_ok l -> le_val (firstn k l) = le_val l mod 256 ^ Z.of_nat k.
Proof.
  revert l; induction k as [|k IH]; intros l H.
  - cbn [firstn le_val]. rewrite pow256_0, Z.mod_1_r. reflexivity.
  - destruct l as [|b t]; cbn [firstn le_val].
    + rewrite Z.mod_0_l; auto. pose proof (pow256_pos (S k)); lia.
    + inversion H as [|? ? Hb Ht]; subst. unfold is_byte in Hb.
      rewrite IH by auto. rewrite pow256_S. pose proof (pow256_pos k).
      rewrite Z.rem_mul_r by lia.
      replace ((b + 256 * le_val t) mod 256) with b by (apply Z.mod_unique with (le_val t); lia).
      replace ((b + 256 * le_val t) / 256) with (le_val t) by (apply Z.div_unique with b; lia).
      reflexivity.
Qed.

(* ---------- limbs ---------- *)
Lemma limbs_of_length n v : length (limbs_of n v) = n.
Proof. revert v; induction n; intros; cbn [limbs_of length]; auto. Qed.

Lemma two64_256 : 2 ^ 64 = 256 ^ Z.of_nat 8.
Proof. reflexivity. Qed.

Lemma flat_map_limbs N v : flat_map (le_bytes 8) (limbs_of N v) = le_bytes (8 * N) v.
Proof.
  revert v; induction N as [|N IH]; intros v.
  - reflexivity.
  - cbn [limbs_of flat_map]. replace (8 * S N)%nat with (8 + 8 * N)%nat by lia.
    rewrite le_bytes_app, IH, two64_256, le_bytes_mod. reflexivity.
Qed.

Lemma limbs_val_chunks N l : (8 * N <= length l)%nat ->
  limbs_val (map le_val (chunks8 N l)) = le_val (firstn (8 * N) l).
Proof.
  revert l; induction N as [|N IH]; intros l H.
  - reflexivity.
  - cbn [chunks8 map limbs_val]. rewrite IH by (rewrite skipn_length; lia).
    replace (8 * S N)%nat with (8 + 8 * N)%nat by lia.
    rewrite firstn_add, le_val_app, firstn_length_le by lia. rewrite two64_256. reflexivity.
Qed.

(* ---------- bits: flags in the high bits, value in the low bits ---------- *)
Lemma low_high_land k low m : 0 <= k -> 0 <= low < 2 ^ k -> m mod 2 ^ k = 0 -> Z.land low m = 0.
Proof.
  intros Hk Hl Hm. apply Z.bits_inj'. intros j Hj. rewrite Z.land_spec, Z.bits_0.
  assert (Hp : 0 < 2 ^ k) by (apply Z.pow_pos_nonneg; lia).
  destruct (Z_lt_le_dec j k) as [Hjk|Hjk].
  - assert (Hm' : m = (m / 2 ^ k) * 2 ^ k) by (pose proof (Z.div_mod m (2 ^ k)); lia).
    rewrite Hm', Z.mul_pow2_bits_low by lia. apply andb_false_r.
  - rewrite <- (Z.mod_small low (2 ^ k)) by lia.
    rewrite Z.mod_pow2_bits_high by lia. reflexivity.
Qed.

Lemma lor_low_high k low m : 0 <= k -> 0 <= low < 2 ^ k -> m mod 2 ^ k = 0 ->
  Z.lor low m = low + m.
Proof.
  intros Hk Hl Hm. pose proof (low_high_land k low m Hk Hl Hm) as H0.
  rewrite <- Z.lxor_lor by exact H0. symmetry. apply Z.add_nocarry_lxor. exact H0.
Qed.

Lemma ldiff_low_high k low m : 0 <= k -> 0 <= low < 2 ^ k -> m mod 2 ^ k = 0 ->
  Z.ldiff (low + m) m = low.
Proof.
  intros Hk Hl Hm. pose proof (low_high_land k low m Hk Hl Hm) as H0.
  rewrite <- (lor_low_high k) by assumption.
  apply Z.bits_inj'. intros j Hj. rewrite Z.ldiff_spec, Z.lor_spec.
  pose proof (f_equal (fun x => Z.testbit x j) H0) as Hb. cbv beta in Hb.
  rewrite Z.land_spec, Z.bits_0 in Hb.
  destruct (Z.testbit low j), (Z.testbit m j); cbn in *; congruence.
Qed.

Lemma byte_split k b : 0 <= k -> 0 <= b ->
  b = b mod 2 ^ k + b / 2 ^ k * 2 ^ k /\ 0 <= b mod 2 ^ k < 2 ^ k /\ (b / 2 ^ k * 2 ^ k) mod 2 ^ k = 0.
Proof.
  intros Hk Hb. assert (Hp : 0 < 2 ^ k) by (apply Z.pow_pos_nonneg; lia).
  pose proof (Z.div_mod b (2 ^ k)). pose proof (Z.mod_pos_bound b (2 ^ k) Hp).
  rewrite Z.mod_mul by lia. lia.
Qed.

(* ---------- MODULUS_BIT_SIZE ---------- *)
Lemma nbits_spec p : 1 < p -> 2 <= nbits p /\ 2 ^ (nbits p - 1) <= p < 2 ^ nbits p.
Proof.
  intros Hp. unfold nbits. destruct (p <=? 0) eqn:E; [apply Z.leb_le in E; lia|].
  pose proof (Z.log2_spec p ltac:(lia)) as Hs. pose proof (Z.log2_pos p Hp).
  replace (Z.log2 p + 1 - 1) with (Z.log2 p) by lia.
  replace (Z.succ (Z.log2 p)) with (Z.log2 p + 1) in Hs by lia. lia.
Qed.
