(* C09: executable instances of the parameters of PointCodec.v (square root, order,
   subgroup test) over the Base.Field dictionaries.  These are specification-level
   stand-ins: which root `sqrt` returns is irrelevant to the codecs (both roots are
   sorted afterwards), only whether one exists; the real sqrt algorithms are property
   C11's, the real subgroup tests property C12's.  No proofs in this file. *)
From V Require Import Base.Field C09.Bytes.

(* Ord::cmp: Fp compares standard-form integers; extensions compare the LAST coordinate first *)
Definition quad_cmp {T} (cmpB : T -> T -> comparison) (a b : T * T) : comparison :=
  match cmpB (snd a) (snd b) with
  | Gt => Gt | Lt => Lt
  | Eq => cmpB (fst a) (fst b)
  end.
Definition cubic_cmp {T} (cmpB : T -> T -> comparison) (a b : T * T * T) : comparison :=
  match cmpB (snd a) (snd b) with
  | Eq => match cmpB (snd (fst a)) (snd (fst b)) with
          | Eq => cmpB (fst (fst a)) (fst (fst b))
          | c => c
          end
  | c => c
  end.

Section Exec.
  Context {T : Type} (F : Fops T).

  Definition forder : Z := fchar F ^ Z.of_nat (fdeg F).

  Fixpoint two_adic (fuel : nat) (t s : Z) : Z * Z :=
    match fuel with
    | O => (t, s)
    | S f => if Z.even t then two_adic f (t / 2) (s + 1) else (t, s)
    end.

  Definition cand (k : Z) : T := fof F (k :: 1 :: repeat 0 (fdeg F)).

  Fixpoint find_nonresidue (fuel : nat) (k : Z) : option T :=
    match fuel with
    | O => None
    | S f => let c := cand k in
             if fis0 F c || feqb F (fpow F c ((forder - 1) / 2)) (f1 F)
             then find_nonresidue f (k + 1) else Some c
    end.

  Fixpoint least_i (fuel : nat) (t : T) (i : Z) : Z :=
    match fuel with
    | O => i
    | S f => if feqb F t (f1 F) then i else least_i f (fmul F t t) (i + 1)
    end.

  Fixpoint ts_loop (fuel : nat) (m : Z) (c t r : T) : option T :=
    match fuel with
    | O => None
    | S f =>
      if feqb F t (f1 F) then Some r else
      let i := least_i (Z.to_nat m) t 0 in
      if i >=? m then None else
      let b := fpow F c (2 ^ (m - i - 1)) in
      let c' := fmul F b b in
      ts_loop f i c' (fmul F t c') (fmul F r b)
    end.

  (* Tonelli-Shanks with a given non-residue z *)
  Definition fsqrt (z : T) (a : T) : option T :=
    if fis0 F a then Some (f0 F) else
    let q := forder in
    if negb (feqb F (fpow F a ((q - 1) / 2)) (f1 F)) then None else
    let '(t, s) := two_adic 4000 (q - 1) 0 in
    ts_loop (S (Z.to_nat s)) s (fpow F z t) (fpow F a t) (fpow F a ((t + 1) / 2)).

  (* ---- affine group laws, for the subgroup test r * P = O ---- *)
  Definition sw_dbl (ca : T) (P : option (T * T)) : option (T * T) :=
    match P with
    | None => None
    | Some (x, y) =>
      if fis0 F y then None else
      let l := fdiv F (fadd F (fmul F (fofZ F 3) (fmul F x x)) ca) (fadd F y y) in
      let x3 := fsub F (fmul F l l) (fadd F x x) in
      Some (x3, fsub F (fmul F l (fsub F x x3)) y)
    end.
  Definition sw_add (ca : T) (P Q : option (T * T)) : option (T * T) :=
    match P, Q with
    | None, _ => Q
    | _, None => P
    | Some (x1, y1), Some (x2, y2) =>
      if feqb F x1 x2 then (if feqb F y1 y2 then sw_dbl ca P else None) else
      let l := fdiv F (fsub F y2 y1) (fsub F x2 x1) in
      let x3 := fsub F (fsub F (fmul F l l) x1) x2 in
      Some (x3, fsub F (fmul F l (fsub F x1 x3)) y1)
    end.
  Fixpoint sw_smul_pos (ca : T) (n : positive) (P : option (T * T)) : option (T * T) :=
    match n with
    | xH => P
    | xO n' => sw_dbl ca (sw_smul_pos ca n' P)
    | xI n' => sw_add ca (sw_dbl ca (sw_smul_pos ca n' P)) P
    end.
  Definition sw_order_divides (ca : T) (r : Z) (x y : T) : bool :=
    match r with
    | Zpos n => match sw_smul_pos ca n (Some (x, y)) with None => true | Some _ => false end
    | _ => false
    end.

  Definition te_add (a d : T) (P Q : T * T) : T * T :=
    let '(x1, y1) := P in let '(x2, y2) := Q in
    let k := fmul F d (fmul F (fmul F x1 x2) (fmul F y1 y2)) in
    (fdiv F (fadd F (fmul F x1 y2) (fmul F y1 x2)) (fadd F (f1 F) k),
     fdiv F (fsub F (fmul F y1 y2) (fmul F a (fmul F x1 x2))) (fsub F (f1 F) k)).
  Fixpoint te_smul_pos (a d : T) (n : positive) (P : T * T) : T * T :=
    match n with
    | xH => P
    | xO n' => let h := te_smul_pos a d n' P in te_add a d h h
    | xI n' => let h := te_smul_pos a d n' P in te_add a d (te_add a d h h) P
    end.
  Definition te_order_divides (a d : T) (r : Z) (x y : T) : bool :=
    match r with
    | Zpos n => let '(x', y') := te_smul_pos a d n (x, y) in feqb F x' (f0 F) && feqb F y' (f1 F)
    | _ => false
    end.
End Exec.
