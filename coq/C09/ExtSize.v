(* C09 proofs: the advertised size of an EXTENSION element serialized with flags equals the bytes written,
   for every modulus and every lawful flag type -- including base fields whose top byte cannot hold the
   flags (the flags of the last coefficient then take an extra byte, the other coefficients do not).
   QuadExtField / CubicExtField::serialized_size_with_flags = compressed_size of the leading coefficients +
   serialized_size_with_flags of the last one.  Everything follows from CodecOK of the tower. *)
From Coq Require Import ZArith List Lia.
From V Require Import C09.Bytes C09.FpCodec C09.Specs C09.BytesProofs C09.FpCodecProofs.
Import ListNotations.
Local Open Scope Z_scope.

Lemma ext_size_with_flags_quad : forall K (C : Codec K) valid, CodecOK C valid ->
  forall FT x f, FlagOK FT -> quad_valid valid x ->
  c_size (quad_codec C) FT = c_sizep C + c_size C FT /\
  exists bs, c_enc (quad_codec C) FT x f = Ok bs /\
    Z.of_nat (length bs) = c_sizep C + c_size C FT.
Proof.
  intros K C valid HC FT x f HF Hx. split; [reflexivity|].
  destruct (ok_enc _ _ (quad_codec_ok K C valid HC) FT x f HF Hx) as (bs & He & Hl & _).
  exists bs. split; [exact He|exact Hl].
Qed.

Lemma ext_size_with_flags_cubic : forall K (C : Codec K) valid, CodecOK C valid ->
  forall FT x f, FlagOK FT -> cubic_valid valid x ->
  c_size (cubic_codec C) FT = c_sizep C + c_sizep C + c_size C FT /\
  exists bs, c_enc (cubic_codec C) FT x f = Ok bs /\
    Z.of_nat (length bs) = c_sizep C + c_sizep C + c_size C FT.
Proof.
  intros K C valid HC FT x f HF Hx. split; [reflexivity|].
  destruct (ok_enc _ _ (cubic_codec_ok K C valid HC) FT x f HF Hx) as (bs & He & Hl & _).
  exists bs. split; [exact He|exact Hl].
Qed.

(* Fp2 / Fp3 over any prime field of N limbs: bytes written = advertised =
   (deg - 1) * ceil(bits / 8) + ceil((bits + BIT_SIZE) / 8) *)
Lemma fp2_size_with_flags : forall N p FT c0 c1 f, fp_cfg_ok N p -> FlagOK FT ->
  0 <= c0 < p -> 0 <= c1 < p ->
  c_size (quad_codec (fp_codec N p)) FT = fp_size p EmptyFlags + fp_size p FT /\
  exists bs, c_enc (quad_codec (fp_codec N p)) FT (c0, c1) f = Ok bs /\
    Z.of_nat (length bs) = fp_size p EmptyFlags + fp_size p FT.
Proof.
  intros N p FT c0 c1 f Hc HF H0 H1.
  exact (ext_size_with_flags_quad Z (fp_codec N p) _ (fp_codec_ok N p Hc) FT (c0, c1) f HF (conj H0 H1)).
Qed.

Lemma fp3_size_with_flags : forall N p FT c0 c1 c2 f, fp_cfg_ok N p -> FlagOK FT ->
  0 <= c0 < p -> 0 <= c1 < p -> 0 <= c2 < p ->
  c_size (cubic_codec (fp_codec N p)) FT = fp_size p EmptyFlags + fp_size p EmptyFlags + fp_size p FT /\
  exists bs, c_enc (cubic_codec (fp_codec N p)) FT (c0, c1, c2) f = Ok bs /\
    Z.of_nat (length bs) = fp_size p EmptyFlags + fp_size p EmptyFlags + fp_size p FT.
Proof.
  intros N p FT c0 c1 c2 f Hc HF H0 H1 H2.
  exact (ext_size_with_flags_cubic Z (fp_codec N p) _ (fp_codec_ok N p Hc) FT (c0, c1, c2) f HF
           (conj H0 (conj H1 H2))).
Qed.

(* a 2-level tower: Fp4 = Fp2[v]/(v^2 - u): 3 plain coefficients + the flagged one *)
Lemma fp4_size_with_flags : forall N p FT x f, fp_cfg_ok N p -> FlagOK FT ->
  quad_valid (quad_valid (fun v => 0 <= v < p)) x ->
  exists bs, c_enc (quad_codec (quad_codec (fp_codec N p))) FT x f = Ok bs /\
    Z.of_nat (length bs) = 3 * fp_size p EmptyFlags + fp_size p FT.
Proof.
  intros N p FT x f Hc HF Hx.
  destruct (ext_size_with_flags_quad _ _ _ (quad_codec_ok _ _ _ (fp_codec_ok N p Hc)) FT x f HF Hx)
    as (_ & bs & He & Hl).
  exists bs. split; [exact He|]. rewrite Hl. cbn [c_sizep c_size quad_codec fp_codec]. lia.
Qed.

(* the secp256k1 base field (256 bits, no spare bit): 65 = 32 + 33 with SWFlags / TEFlags, 64 without flags *)
Definition p_secp256k1 : Z := 2 ^ 256 - 2 ^ 32 - 977.
Example ex_ext_size_256 :
  fp_cfg_ok 4 p_secp256k1 /\
  fp_size p_secp256k1 EmptyFlags = 32 /\ fp_size p_secp256k1 SWFlags = 33 /\ fp_size p_secp256k1 TEFlags = 33 /\
  c_size (quad_codec (fp_codec 4 p_secp256k1)) SWFlags = 65 /\
  c_size (quad_codec (fp_codec 4 p_secp256k1)) TEFlags = 65 /\
  c_size (quad_codec (fp_codec 4 p_secp256k1)) EmptyFlags = 64 /\
  c_size (cubic_codec (fp_codec 4 p_secp256k1)) SWFlags = 97 /\
  (forall bs, c_enc (quad_codec (fp_codec 4 p_secp256k1)) SWFlags (p_secp256k1 - 1, 7) YIsNegative = Ok bs ->
     length bs = 65%nat /\ nth 64 bs 0 = 128 /\ nth 63 bs 0 = 0 /\ nth 31 bs 0 = 255).
Proof.
  split. { unfold fp_cfg_ok, p_secp256k1. vm_compute. repeat split; discriminate. }
  repeat (split; [vm_compute; reflexivity|]).
  intros bs H. vm_compute in H. injection H as <-. vm_compute. repeat split.
Qed.
