(* C09 model, part 2: flags, the SerBuffer, the prime-field codec, extension-field codecs.
   Mirrors ff/src/const_helpers.rs (SerBuffer), ff/src/fields/models/fp/mod.rs
   (serialize_with_flags / deserialize_with_flags), serialize/src/flags.rs,
   ec/.../serialization_flags.rs, quadratic_extension.rs / cubic_extension.rs.
   A prime-field element is its standard-form integer (what `into_bigint` returns; the
   Montgomery representation is property C01's business).  No proofs in this file. *)
From V Require Import C09.Bytes.

(* ---------- trait Flags ---------- *)
Record FlagTy : Type := mkFlagTy {
  ft_T : Type;
  ft_bits : Z;                       (* BIT_SIZE *)
  ft_mask : ft_T -> Z;               (* u8_bitmask *)
  ft_from_u8 : Z -> option ft_T      (* from_u8 *)
}.

(* from_u8_remove_flags: Some (flag, byte with the flag's mask bits cleared) *)
Definition from_u8_remove_flags (FT : FlagTy) (b : Z) : option (ft_T FT * Z) :=
  match ft_from_u8 FT b with
  | Some f => Some (f, Z.ldiff b (ft_mask FT f))          (* *value &= !f.u8_bitmask() *)
  | None => None
  end.

Definition EmptyFlags : FlagTy :=
  {| ft_T := unit; ft_bits := 0; ft_mask := fun _ => 0; ft_from_u8 := fun _ => Some tt |}.

Inductive swflag := YIsPositive | PointAtInfinity | YIsNegative.
Definition SWFlags : FlagTy :=
  {| ft_T := swflag; ft_bits := 2;
     ft_mask := fun f => match f with YIsPositive => 0 | PointAtInfinity => 64 | YIsNegative => 128 end;
     ft_from_u8 := fun v =>
       let is_negative := (v / 128) mod 2 =? 1 in         (* (value >> 7) & 1 == 1 *)
       let is_infinity := (v / 64) mod 2 =? 1 in          (* (value >> 6) & 1 == 1 *)
       match is_negative, is_infinity with
       | true, true => None
       | false, true => Some PointAtInfinity
       | true, false => Some YIsNegative
       | false, false => Some YIsPositive
       end |}.

Inductive teflag := XIsPositive | XIsNegative.
Definition TEFlags : FlagTy :=
  {| ft_T := teflag; ft_bits := 1;
     ft_mask := fun f => match f with XIsPositive => 0 | XIsNegative => 128 end;
     ft_from_u8 := fun v => if (v / 128) mod 2 =? 1 then Some XIsNegative else Some XIsPositive |}.

(* ---------- SerBuffer<N>: 8N+1 bytes, viewed flat (repr(C, align(1)): buffers then last) ---------- *)
Definition sb_zeroed (N : nat) : list Z := repeat 0 (8 * N + 1).

(* copy_from_u64_slice: limb i -> buffers[i] = to_le_bytes; `last` untouched *)
Definition sb_copy_from_u64_slice (ls : list Z) (buf : list Z) : list Z :=
  flat_map (le_bytes 8) ls ++ skipn (8 * length ls) buf.

(* to_bigint: limb i = from_le_bytes(buffers[i]); `last` is not part of the integer *)
Definition sb_to_bigint (N : nat) (buf : list Z) : list Z := map le_val (chunks8 N buf).

Definition sb_range_bad (N : nat) (num_bytes : Z) : bool :=
  (N =? 0)%nat || (num_bytes >? 8 * Z.of_nat N + 1) || (num_bytes <=? 8 * (Z.of_nat N - 1)).

(* write_up_to: N-1 full limbs, then min(8, remaining) bytes of the last limb, then `last`
   iff remaining > 8.  (writer = Vec: never fails) *)
Definition sb_write_up_to (N : nat) (buf : list Z) (num_bytes : Z) : res (list Z) :=
  if sb_range_bad N num_bytes then Panic else
  let head := firstn (8 * (N - 1)) buf in
  let remaining := num_bytes - 8 * (Z.of_nat N - 1) in
  let write_last := remaining >? 8 in
  let nl := Z.to_nat (Z.min 8 remaining) in
  let lastlimb := firstn nl (skipn (8 * (N - 1)) buf) in
  Ok (head ++ lastlimb ++ (if write_last then [nth (8 * N) buf 0] else [])).

(* read_exact_up_to: the mirror image.  The per-limb read_exact calls of the first N-1
   limbs are merged into one (they all succeed or the call returns Err). *)
Definition sb_read_exact_up_to (N : nat) (buf : list Z) (bs : list Z) (num_bytes : Z)
  : res (list Z * list Z) :=
  if sb_range_bad N num_bytes then Panic else
  let remaining := num_bytes - 8 * (Z.of_nat N - 1) in
  let write_last := remaining >? 8 in
  let nl := Z.to_nat (Z.min 8 remaining) in
  match read_exact (8 * (N - 1)) bs with
  | None => Err E_Io
  | Some (head, r1) =>
    match read_exact nl r1 with
    | None => Err E_Io
    | Some (ll, r2) =>
      let buf1 := head ++ ll ++ skipn (8 * (N - 1) + nl) buf in
      if write_last then
        match read_exact 1 r2 with
        | None => Err E_Io
        | Some (l1, r3) => Ok (upd (8 * N) (hd 0 l1) buf1, r3)
        end
      else Ok (buf1, r2)
    end
  end.

(* ---------- Fp<P, N> ---------- *)
Definition fp_size (p : Z) (FT : FlagTy) : Z := buffer_byte_size (nbits p + ft_bits FT).

Definition fp_enc (N : nat) (p : Z) (FT : FlagTy) (v : Z) (f : ft_T FT) : res (list Z) :=
  if ft_bits FT >? 8 then Err E_NotEnoughSpace else
  let size := fp_size p FT in
  let buf := sb_copy_from_u64_slice (limbs_of N v) (sb_zeroed N) in
  if (size <=? 0) || (size - 1 >? 8 * Z.of_nat N) then Panic else      (* bytes[size - 1] *)
  let i := Z.to_nat (size - 1) in
  let buf := upd i (Z.lor (nth i buf 0) (ft_mask FT f)) buf in
  sb_write_up_to N buf size.

Definition fp_dec (N : nat) (p : Z) (FT : FlagTy) (bs : list Z) : res (Z * ft_T FT * list Z) :=
  if ft_bits FT >? 8 then Err E_NotEnoughSpace else
  let size := fp_size p FT in
  bind (sb_read_exact_up_to N (sb_zeroed N) bs size) (fun br =>
  let buf := fst br in let rest := snd br in
  if (size <=? 0) || (size - 1 >? 8 * Z.of_nat N) then Panic else
  let i := Z.to_nat (size - 1) in
  match from_u8_remove_flags FT (nth i buf 0) with
  | None => Err E_UnexpectedFlags
  | Some (f, b') =>
    let buf' := upd i b' buf in
    (* the repaired check (F15): flags spilled into the extra byte, which must now be 0 *)
    if (size >? 8 * Z.of_nat N) && negb (nth i buf' 0 =? 0) then Err E_InvalidData else
    let v := limbs_val (sb_to_bigint N buf') in
    (* from_bigint: None iff the integer is >= MODULUS *)
    if v <? p then Ok (v, f, rest) else Err E_InvalidData
  end).

(* ---------- codecs: the (CanonicalSerializeWithFlags, CanonicalSerialize, ...) bundle ---------- *)
Record Codec (K : Type) : Type := mkCodec {
  c_enc : forall FT : FlagTy, K -> ft_T FT -> res (list Z);          (* serialize_with_flags *)
  c_dec : forall FT : FlagTy, list Z -> res (K * ft_T FT * list Z);  (* deserialize_with_flags *)
  c_size : FlagTy -> Z;                                              (* serialized_size_with_flags *)
  c_encp : K -> res (list Z);                 (* serialize_with_mode (mode is ignored by fields) *)
  c_decp : list Z -> res (K * list Z);        (* deserialize_with_mode *)
  c_sizep : Z                                 (* serialized_size *)
}.
Arguments c_enc {K}. Arguments c_dec {K}. Arguments c_size {K}.
Arguments c_encp {K}. Arguments c_decp {K}. Arguments c_sizep {K}.

Definition drop_flag {K F} (r : res (K * F * list Z)) : res (K * list Z) :=
  bind r (fun x => Ok (fst (fst x), snd x)).

Definition fp_codec (N : nat) (p : Z) : Codec Z :=
  {| c_enc := fun FT v f => fp_enc N p FT v f;
     c_dec := fun FT bs => fp_dec N p FT bs;
     c_size := fun FT => fp_size p FT;
     c_encp := fun v => fp_enc N p EmptyFlags v tt;
     c_decp := fun bs => drop_flag (fp_dec N p EmptyFlags bs);
     c_sizep := fp_size p EmptyFlags |}.

Section Ext.
  Context {K : Type} (C : Codec K).

  (* QuadExtField: c0.serialize_compressed, then c1.serialize_with_flags(flags) *)
  Definition quad_codec : Codec (K * K) :=
    let enc := fun FT (x : K * K) f =>
      bind (c_encp C (fst x)) (fun b0 =>
      bind (c_enc C FT (snd x) f) (fun b1 => Ok (b0 ++ b1))) in
    {| c_enc := enc;
       c_dec := fun FT bs =>
         bind (c_decp C bs) (fun r0 =>
         bind (c_dec C FT (snd r0)) (fun r1 =>
         Ok ((fst r0, fst (fst r1)), snd (fst r1), snd r1)));
       c_size := fun FT => c_sizep C + c_size C FT;
       c_encp := fun x => enc EmptyFlags x tt;
       c_decp := fun bs =>
         bind (c_decp C bs) (fun r0 =>
         bind (c_decp C (snd r0)) (fun r1 => Ok ((fst r0, fst r1), snd r1)));
       c_sizep := c_sizep C + c_size C EmptyFlags |}.

  (* CubicExtField: c0, c1 compressed, then c2 with the flags *)
  Definition cubic_codec : Codec (K * K * K) :=
    let enc := fun FT (x : K * K * K) f =>
      bind (c_encp C (fst (fst x))) (fun b0 =>
      bind (c_encp C (snd (fst x))) (fun b1 =>
      bind (c_enc C FT (snd x) f) (fun b2 => Ok (b0 ++ b1 ++ b2)))) in
    {| c_enc := enc;
       c_dec := fun FT bs =>
         bind (c_decp C bs) (fun r0 =>
         bind (c_decp C (snd r0)) (fun r1 =>
         bind (c_dec C FT (snd r1)) (fun r2 =>
         Ok ((fst r0, fst r1, fst (fst r2)), snd (fst r2), snd r2))));
       c_size := fun FT => c_sizep C + c_sizep C + c_size C FT;
       c_encp := fun x => enc EmptyFlags x tt;
       c_decp := fun bs =>
         bind (c_decp C bs) (fun r0 =>
         bind (c_decp C (snd r0)) (fun r1 =>
         bind (c_decp C (snd r1)) (fun r2 => Ok ((fst r0, fst r1, fst r2), snd r2))));
       c_sizep := c_sizep C + c_sizep C + c_size C EmptyFlags |}.
End Ext.
