From V Require Import C09.Bytes C09.FpCodec C09.Specs.
(* C09 proofs, part 2: the flag types obey the Flags contract; the SerBuffer piecewise
   read/write collapse to firstn/skipn; closed forms of fp_enc / fp_dec; size, round trip,
   exact consumption, uniqueness of encodings, short input, no panic; lifts to the quadratic
   and cubic extension codecs.  Byte-level lemmas are in BytesProofs.v. *)
From V Require Import C09.BytesProofs.
Require Import Lia.
Local Open Scope Z_scope.

Lemma EmptyFlags_ok : FlagOK EmptyFlags.
Proof.
  unfold FlagOK; cbn [EmptyFlags ft_bits ft_mask ft_from_u8 ft_T]. 
  change (2 ^ (8 - 0)) with 256.
  repeat split; try lia.
  - intros ? [] _. reflexivity.
  - intros b [] Hb _. rewrite Z.div_small by lia. reflexivity.
Qed.

Lemma SWFlags_ok : FlagOK SWFlags.
Proof.
  unfold FlagOK; cbn [SWFlags ft_bits ft_mask ft_from_u8 ft_T].
  change (2 ^ (8 - 2)) with 64.
  split; [lia|]. split; [|split].
  - intros []; split; try lia; reflexivity.
  - intros low f Hl.
    destruct f.
    + replace ((low + 0) / 128) with 0 by (apply Z.div_unique with low; lia).
      replace ((low + 0) / 64) with 0 by (apply Z.div_unique with low; lia). reflexivity.
    + replace ((low + 64) / 128) with 0 by (apply Z.div_unique with (low + 64); lia).
      replace ((low + 64) / 64) with 1 by (apply Z.div_unique with low; lia). reflexivity.
    + replace ((low + 128) / 128) with 1 by (apply Z.div_unique with low; lia).
      replace ((low + 128) / 64) with 2 by (apply Z.div_unique with low; lia). reflexivity.
  - intros b f Hb.
    destruct ((b / 128) mod 2 =? 1) eqn:E1; destruct ((b / 64) mod 2 =? 1) eqn:E2;
      intros Hf; inversion Hf; subst; clear Hf;
      [apply Z.eqb_eq in E1|apply Z.eqb_neq in E1..]; 
      [apply Z.eqb_neq in E2|apply Z.eqb_eq in E2|apply Z.eqb_neq in E2];
      Z.div_mod_to_equations; lia.
Qed.

Lemma TEFlags_ok : FlagOK TEFlags.
Proof.
  unfold FlagOK; cbn [TEFlags ft_bits ft_mask ft_from_u8 ft_T].
  change (2 ^ (8 - 1)) with 128.
  split; [lia|]. split; [|split].
  - intros []; split; try lia; reflexivity.
  - intros low f Hl.
    destruct f.
    + replace ((low + 0) / 128) with 0 by (apply Z.div_unique with low; lia). reflexivity.
    + replace ((low + 128) / 128) with 1 by (apply Z.div_unique with low; lia). reflexivity.
  - intros b f Hb.
    destruct ((b / 128) mod 2 =? 1) eqn:E1;
      intros Hf; inversion Hf; subst; clear Hf;
      [apply Z.eqb_eq in E1|apply Z.eqb_neq in E1]; 
      Z.div_mod_to_equations; lia.
Qed.

Lemma firstn_S_nth {A} i (l : list A) d : (i < length l)%nat -> firstn (S i) l = firstn i l ++ [nth i l d].
Proof.
  intros H. replace (S i) with (i + 1)%nat by lia. rewrite firstn_add, (firstn_1_skipn i l d H). reflexivity.
Qed.

Lemma upd_app a b x y i : length a = i -> upd i x (a ++ y :: b) = a ++ x :: b.
Proof.
  intros H. unfold upd. rewrite (firstn_app_len a _ i H).
  change (a ++ y :: b) with (a ++ [y] ++ b). rewrite app_assoc.
  rewrite skipn_app_len; auto. rewrite app_length; cbn [length]; lia.
Qed.

(* ---------- size arithmetic ---------- *)
Lemma size_facts N p FT : fp_cfg_ok N p -> FlagOK FT ->
  exists i : nat, fp_size p FT = Z.of_nat (S i) /\ (1 <= N)%nat /\ (8 * (N - 1) <= i <= 8 * N)%nat /\
    nbits p + ft_bits FT <= 8 * Z.of_nat (S i).
Proof.
  intros [Hp Hn] [Hb _]. pose proof (nbits_spec p Hp) as [Hn2 _].
  exists (Z.to_nat (fp_size p FT - 1)). unfold fp_size, buffer_byte_size in *.
  Z.div_mod_to_equations. lia.
Qed.

(* ---------- SerBuffer collapse ---------- *)
Lemma sb_write_closed N buf n : (1 <= N)%nat -> (8 * (N - 1) < n <= 8 * N + 1)%nat ->
  length buf = (8 * N + 1)%nat -> sb_write_up_to N buf (Z.of_nat n) = Ok (firstn n buf).
Proof.
  intros HN Hn Hl. unfold sb_write_up_to, sb_range_bad.
  destruct ((N =? 0)%nat || (Z.of_nat n >? 8 * Z.of_nat N + 1) || (Z.of_nat n <=? 8 * (Z.of_nat N - 1))) eqn:E.
  { rewrite !orb_true_iff in E. destruct E as [[E|E]|E];
      [apply Nat.eqb_eq in E|apply Z.gtb_lt in E|apply Z.leb_le in E]; lia. }
  clear E. f_equal.
  destruct (Z.of_nat n - 8 * (Z.of_nat N - 1) >? 8) eqn:E.
  - apply Z.gtb_lt in E. assert (n = (8 * (N - 1) + 8 + 1)%nat) by lia. subst n.
    replace (Z.to_nat (Z.min 8 _)) with 8%nat by lia.
    rewrite !firstn_add. rewrite <- app_assoc. do 2 f_equal.
    replace (8 * N)%nat with (8 * (N - 1) + 8)%nat by lia.
    symmetry. apply firstn_1_skipn. lia.
  - assert (~ 8 < Z.of_nat n - 8 * (Z.of_nat N - 1)) by (rewrite <- Z.gtb_lt; congruence).
    replace (Z.to_nat (Z.min 8 _)) with (n - 8 * (N - 1))%nat by lia.
    rewrite app_nil_r, <- firstn_add. f_equal. lia.
Qed.

Lemma sb_read_closed N buf bs n : (1 <= N)%nat -> (8 * (N - 1) < n <= 8 * N + 1)%nat ->
  length buf = (8 * N + 1)%nat ->
  sb_read_exact_up_to N buf bs (Z.of_nat n) =
    if (length bs <? n)%nat then Err E_Io else Ok (firstn n bs ++ skipn n buf, skipn n bs).
Proof.
  intros HN Hn Hl. unfold sb_read_exact_up_to, sb_range_bad.
  destruct ((N =? 0)%nat || (Z.of_nat n >? 8 * Z.of_nat N + 1) || (Z.of_nat n <=? 8 * (Z.of_nat N - 1))) eqn:E.
  { rewrite !orb_true_iff in E. destruct E as [[E|E]|E];
      [apply Nat.eqb_eq in E|apply Z.gtb_lt in E|apply Z.leb_le in E]; lia. }
  clear E. unfold read_exact.
  destruct (Z.of_nat n - 8 * (Z.of_nat N - 1) >? 8) eqn:E.
  - apply Z.gtb_lt in E. assert (n = (8 * (N - 1) + 8 + 1)%nat) by lia. subst n.
    replace (Z.to_nat (Z.min 8 _)) with 8%nat by lia.
    destruct (Nat.ltb_spec (length bs) (8 * (N - 1))) as [L1|L1];
      [destruct (Nat.ltb_spec (length bs) (8 * (N - 1) + 8 + 1)); [reflexivity|lia]|].
    rewrite skipn_length.
    destruct (Nat.ltb_spec (length bs - 8 * (N - 1)) 8) as [L2|L2];
      [destruct (Nat.ltb_spec (length bs) (8 * (N - 1) + 8 + 1)); [reflexivity|lia]|].
    rewrite !skipn_length.
    destruct (Nat.ltb_spec (length bs - 8 * (N - 1) - 8) 1) as [L3|L3];
      [destruct (Nat.ltb_spec (length bs) (8 * (N - 1) + 8 + 1)); [reflexivity|lia]|].
    destruct (Nat.ltb_spec (length bs) (8 * (N - 1) + 8 + 1)); [lia|].
    f_equal. f_equal.
    + replace (8 * N)%nat with (8 * (N - 1) + 8)%nat by lia.
      rewrite app_assoc, <- firstn_add.
      rewrite <- skipn_add.
      rewrite (firstn_1_skipn _ bs 0) by lia. cbn [hd].
      unfold upd. rewrite firstn_app_len by (rewrite firstn_length; lia).
      replace (S (8 * (N - 1) + 8)) with (8 * (N - 1) + 8 + 1)%nat by lia.
      rewrite (skipn_add (8 * (N - 1) + 8) 1 (_ ++ _)).
      rewrite skipn_app_len by (rewrite firstn_length; lia).
      rewrite <- skipn_add.
      rewrite (firstn_add (8 * (N - 1) + 8) 1 bs), (firstn_1_skipn _ bs 0) by lia.
      rewrite <- app_assoc. reflexivity.
    + rewrite <- !skipn_add. f_equal. lia.
  - assert (~ 8 < Z.of_nat n - 8 * (Z.of_nat N - 1)) by (rewrite <- Z.gtb_lt; congruence).
    replace (Z.to_nat (Z.min 8 _)) with (n - 8 * (N - 1))%nat by lia.
    destruct (Nat.ltb_spec (length bs) (8 * (N - 1))) as [L1|L1];
      [destruct (Nat.ltb_spec (length bs) n); [reflexivity|lia]|].
    rewrite skipn_length.
    destruct (Nat.ltb_spec (length bs - 8 * (N - 1)) (n - 8 * (N - 1))) as [L2|L2];
      [destruct (Nat.ltb_spec (length bs) n); [reflexivity|lia]|].
    destruct (Nat.ltb_spec (length bs) n); [lia|].
    rewrite app_assoc, <- firstn_add, <- skipn_add.
    replace (8 * (N - 1) + (n - 8 * (N - 1)))%nat with n by lia. reflexivity.
Qed.

(* ---------- closed forms of the encoder and the decoder ---------- *)
Lemma sb_zeroed_length N : length (sb_zeroed N) = (8 * N + 1)%nat.
Proof. unfold sb_zeroed. apply repeat_length. Qed.

Lemma enc_closed N p FT v f i : ft_bits FT <= 8 -> fp_size p FT = Z.of_nat (S i) ->
  (1 <= N)%nat -> (8 * (N - 1) <= i <= 8 * N)%nat -> 0 <= v < 256 ^ Z.of_nat (8 * N) ->
  fp_enc N p FT v f =
    Ok (le_bytes i v ++ [Z.lor ((v / 256 ^ Z.of_nat i) mod 256) (ft_mask FT f)]).
Proof.
  intros Hb Hs HN Hi Hv. unfold fp_enc. rewrite Hs.
  destruct (ft_bits FT >? 8) eqn:E; [apply Z.gtb_lt in E; lia|]. clear E.
  destruct ((Z.of_nat (S i) <=? 0) || (Z.of_nat (S i) - 1 >? 8 * Z.of_nat N)) eqn:E.
  { apply orb_true_iff in E. destruct E as [E|E]; [apply Z.leb_le in E|apply Z.gtb_lt in E]; lia. }
  clear E. replace (Z.to_nat (Z.of_nat (S i) - 1)) with i by lia.
  unfold sb_copy_from_u64_slice, sb_zeroed.
  rewrite flat_map_limbs, limbs_of_length, skipn_repeat.
  replace (8 * N + 1 - 8 * N)%nat with 1%nat by lia. cbn [repeat].
  rewrite le_bytes_small_snoc by assumption.
  rewrite nth_le_bytes by lia.
  set (x := Z.lor _ _).
  rewrite sb_write_closed; try lia.
  - f_equal. unfold upd. change (x :: ?r) with ([x] ++ r). rewrite app_assoc.
    rewrite firstn_app_len.
    + rewrite firstn_le_bytes by lia. reflexivity.
    + rewrite app_length, firstn_length, le_bytes_length. cbn [length]. lia.
  - unfold upd. rewrite app_length, firstn_length. cbn [length].
    rewrite skipn_length, le_bytes_length. lia.
Qed.

Lemma dec_closed N p FT bs i : ft_bits FT <= 8 -> fp_size p FT = Z.of_nat (S i) ->
  (1 <= N)%nat -> (8 * (N - 1) <= i <= 8 * N)%nat ->
  fp_dec N p FT bs =
    if (length bs <? S i)%nat then Err E_Io else
    match ft_from_u8 FT (nth i bs 0) with
    | None => Err E_UnexpectedFlags
    | Some f =>
      let b' := Z.ldiff (nth i bs 0) (ft_mask FT f) in
      if (Z.of_nat (S i) >? 8 * Z.of_nat N) && negb (b' =? 0) then Err E_InvalidData else
      let v := le_val (firstn (8 * N) (firstn i bs ++ b' :: repeat 0 (8 * N - i))) in
      if v <? p then Ok (v, f, skipn (S i) bs) else Err E_InvalidData
    end.
Proof.
  intros Hb Hs HN Hi. unfold fp_dec. rewrite Hs.
  destruct (ft_bits FT >? 8) eqn:E; [apply Z.gtb_lt in E; lia|]. clear E.
  rewrite sb_read_closed by (try apply sb_zeroed_length; lia).
  destruct (Nat.ltb_spec (length bs) (S i)) as [L|L]; [reflexivity|].
  cbn [bind fst snd].
  destruct ((Z.of_nat (S i) <=? 0) || (Z.of_nat (S i) - 1 >? 8 * Z.of_nat N)) eqn:E.
  { apply orb_true_iff in E. destruct E as [E|E]; [apply Z.leb_le in E|apply Z.gtb_lt in E]; lia. }
  clear E. replace (Z.to_nat (Z.of_nat (S i) - 1)) with i by lia.
  unfold sb_zeroed. rewrite skipn_repeat. replace (8 * N + 1 - S i)%nat with (8 * N - i)%nat by lia.
  rewrite (firstn_S_nth i bs 0) by lia. rewrite <- app_assoc. cbn [app].
  assert (Hl : length (firstn i bs) = i) by (rewrite firstn_length; lia).
  rewrite (nth_app_len _ _ _ _ i Hl).
  unfold from_u8_remove_flags.
  destruct (ft_from_u8 FT (nth i bs 0)) as [f|]; [|reflexivity].
  rewrite (upd_app _ _ _ _ i Hl). rewrite (nth_app_len _ _ _ _ i Hl).
  cbv zeta. unfold sb_to_bigint. rewrite limbs_val_chunks; [reflexivity|].
  rewrite app_length. cbn [length]. rewrite repeat_length. lia.
Qed.

(* ---------- arithmetic context ---------- *)
Lemma ctx_bounds N p FT i : fp_cfg_ok N p -> 0 <= ft_bits FT <= 8 ->
  nbits p + ft_bits FT <= 8 * Z.of_nat (S i) ->
  p <= 256 ^ Z.of_nat (8 * N) /\ p <= 256 ^ Z.of_nat i * 2 ^ (8 - ft_bits FT).
Proof.
  intros [Hp Hn] Hb Hs. pose proof (nbits_spec p Hp) as [Hn2 Hpp]. split.
  - rewrite pow256_two. replace (8 * Z.of_nat (8 * N)) with (64 * Z.of_nat N) by lia.
    pose proof (Z.pow_le_mono_r 2 (nbits p) (64 * Z.of_nat N)). lia.
  - rewrite pow256_two, <- Z.pow_add_r by lia.
    pose proof (Z.pow_le_mono_r 2 (nbits p) (8 * Z.of_nat i + (8 - ft_bits FT))). lia.
Qed.

Lemma mask_room k m low : 0 <= k <= 8 -> 0 <= m < 256 -> m mod 2 ^ k = 0 -> 0 <= low < 2 ^ k ->
  0 <= low + m < 256.
Proof.
  intros Hk Hm Hmod Hl.
  assert (Hp : 0 < 2 ^ k) by (apply Z.pow_pos_nonneg; lia).
  assert (H256 : 256 = 2 ^ k * 2 ^ (8 - k)) by (rewrite <- Z.pow_add_r by lia; replace (k + (8 - k)) with 8 by lia; reflexivity).
  pose proof (Z.div_mod m (2 ^ k) ltac:(lia)) as Hd. rewrite Hmod in Hd.
  assert (m / 2 ^ k < 2 ^ (8 - k)) by nia.
  nia.
Qed.

Lemma pow2k_le k : 0 <= k <= 8 -> 0 < 2 ^ k <= 256.
Proof.
  intros Hk. split; [apply Z.pow_pos_nonneg; lia|].
  change 256 with (2 ^ 8). apply Z.pow_le_mono_r; lia.
Qed.

Lemma enc_closed2 N p FT v f i : FlagOK FT -> fp_size p FT = Z.of_nat (S i) ->
  (1 <= N)%nat -> (8 * (N - 1) <= i <= 8 * N)%nat -> 0 <= v < 256 ^ Z.of_nat (8 * N) ->
  v / 256 ^ Z.of_nat i < 2 ^ (8 - ft_bits FT) ->
  fp_enc N p FT v f = Ok (le_bytes i v ++ [v / 256 ^ Z.of_nat i + ft_mask FT f]).
Proof.
  intros [Hb [Hm _]] Hs HN Hi Hv Hlow.
  rewrite (enc_closed N p FT v f i) by (assumption || lia).
  pose proof (pow256_pos i). pose proof (pow2k_le (8 - ft_bits FT) ltac:(lia)).
  assert (0 <= v / 256 ^ Z.of_nat i) by (apply Z.div_pos; lia).
  rewrite Z.mod_small by lia.
  destruct (Hm f) as [Hm1 Hm2].
  rewrite (lor_low_high (8 - ft_bits FT)) by (assumption || lia). reflexivity.
Qed.

Lemma val_closed N pre i b' : bytes_ok pre -> length pre = i -> (i <= 8 * N)%nat ->
  0 <= b' < 256 -> (i = (8 * N)%nat -> b' = 0) ->
  le_val (firstn (8 * N) (pre ++ b' :: repeat 0 (8 * N - i))) = le_val pre + 256 ^ Z.of_nat i * b'.
Proof.
  intros Hpre Hl Hi Hb H0.
  rewrite le_val_firstn.
  2:{ apply bytes_ok_app. split; [assumption|]. constructor; [exact Hb|apply bytes_ok_repeat0]. }
  rewrite le_val_app, Hl. cbn [le_val]. rewrite le_val_repeat0.
  pose proof (le_val_bound pre Hpre) as Hv. rewrite Hl in Hv.
  replace (b' + 256 * 0) with b' by lia.
  apply Z.mod_small.
  destruct (Nat.eq_dec i (8 * N)) as [e|ne].
  - rewrite (H0 e), Z.mul_0_r, Z.add_0_r. rewrite <- e. exact Hv.
  - pose proof (pow256_mono (S i) (8 * N) ltac:(lia)) as Hm. rewrite pow256_S in Hm. nia.
Qed.

(* ---------- the Fp theorems ---------- *)
Lemma fp_enc_size : forall N p FT v f, fp_cfg_ok N p -> FlagOK FT -> 0 <= v < p ->
  exists bs, fp_enc N p FT v f = Ok bs /\ Z.of_nat (length bs) = fp_size p FT /\ bytes_ok bs.
Proof.
  intros N p FT v f Hcfg HF Hv.
  destruct (size_facts N p FT Hcfg HF) as (i & Hs & HN & Hi & Hsz).
  pose proof HF as [Hb [Hm _]].
  destruct (ctx_bounds N p FT i Hcfg Hb Hsz) as [B1 B2].
  pose proof (pow256_pos i) as Hpi.
  assert (Hlow : v / 256 ^ Z.of_nat i < 2 ^ (8 - ft_bits FT)) by (apply Z.div_lt_upper_bound; lia).
  eexists. split; [apply (enc_closed2 N p FT v f i); assumption || lia|].
  split.
  - rewrite app_length, le_bytes_length, Hs. cbn [length]. lia.
  - apply bytes_ok_app. split; [apply le_bytes_ok|]. constructor; [|constructor].
    destruct (Hm f) as [Hm1 Hm2].
    apply (mask_room (8 - ft_bits FT)); try assumption; try lia.
    split; [apply Z.div_pos; lia|assumption].
Qed.

Lemma fp_roundtrip : forall N p FT v f bs rest, fp_cfg_ok N p -> FlagOK FT -> 0 <= v < p ->
  fp_enc N p FT v f = Ok bs -> fp_dec N p FT (bs ++ rest) = Ok (v, f, rest).
Proof.
  intros N p FT v f bs rest Hcfg HF Hv Henc.
  destruct (size_facts N p FT Hcfg HF) as (i & Hs & HN & Hi & Hsz).
  pose proof HF as [Hb [Hm [Hfrom _]]].
  destruct (ctx_bounds N p FT i Hcfg Hb Hsz) as [B1 B2].
  pose proof (pow256_pos i) as Hpi.
  assert (Hlow : v / 256 ^ Z.of_nat i < 2 ^ (8 - ft_bits FT)) by (apply Z.div_lt_upper_bound; lia).
  assert (Hlow0 : 0 <= v / 256 ^ Z.of_nat i) by (apply Z.div_pos; lia).
  rewrite (enc_closed2 N p FT v f i) in Henc by (assumption || lia).
  inversion Henc; subst bs; clear Henc.
  set (low := v / 256 ^ Z.of_nat i) in *.
  rewrite (dec_closed N p FT _ i) by (assumption || lia).
  rewrite <- app_assoc. cbn [app].
  destruct (Nat.ltb_spec (length (le_bytes i v ++ low + ft_mask FT f :: rest)) (S i)) as [L|L].
  { rewrite app_length, le_bytes_length in L. cbn [length] in L. lia. }
  rewrite (nth_app_len _ _ _ _ i (le_bytes_length i v)).
  rewrite (Hfrom low f) by lia. cbv zeta.
  destruct (Hm f) as [Hm1 Hm2].
  rewrite (ldiff_low_high (8 - ft_bits FT)) by (assumption || lia).
  assert (H8 : i = (8 * N)%nat -> low = 0).
  { intros ->. unfold low. apply Z.div_small. lia. }
  assert (Hc : (Z.of_nat (S i) >? 8 * Z.of_nat N) && negb (low =? 0) = false).
  { destruct (Z.of_nat (S i) >? 8 * Z.of_nat N) eqn:E; [|reflexivity].
    apply Z.gtb_lt in E. rewrite H8 by lia. reflexivity. }
  rewrite Hc.
  rewrite (firstn_app_len _ _ i (le_bytes_length i v)).
  pose proof (pow2k_le (8 - ft_bits FT) ltac:(lia)).
  rewrite (val_closed N (le_bytes i v) i low (le_bytes_ok i v) (le_bytes_length i v)) by (assumption || lia).
  rewrite le_val_le_bytes.
  replace (v mod 256 ^ Z.of_nat i + 256 ^ Z.of_nat i * low) with v
    by (unfold low; pose proof (Z.div_mod v (256 ^ Z.of_nat i)); lia).
  destruct (Z.ltb_spec v p); [|lia].
  change (le_bytes i v ++ low + ft_mask FT f :: rest) with (le_bytes i v ++ [low + ft_mask FT f] ++ rest).
  rewrite app_assoc, skipn_app_len; [reflexivity|].
  rewrite app_length, le_bytes_length. cbn [length]. lia.
Qed.

Lemma fp_consume : forall N p FT bs v f rest, fp_cfg_ok N p -> FlagOK FT ->
  fp_dec N p FT bs = Ok (v, f, rest) ->
  exists pre, bs = pre ++ rest /\ Z.of_nat (length pre) = fp_size p FT.
Proof.
  intros N p FT bs v f rest Hcfg HF Hdec.
  destruct (size_facts N p FT Hcfg HF) as (i & Hs & HN & Hi & Hsz).
  pose proof HF as [Hb _].
  rewrite (dec_closed N p FT _ i) in Hdec by (assumption || lia).
  destruct (Nat.ltb_spec (length bs) (S i)) as [L|L]; [discriminate|].
  destruct (ft_from_u8 FT (nth i bs 0)) as [f0|]; [|discriminate].
  cbv zeta in Hdec.
  destruct (_ && _); [discriminate|].
  destruct (_ <? p); [|discriminate].
  inversion Hdec; subst. exists (firstn (S i) bs). split.
  - symmetry. apply firstn_skipn.
  - rewrite firstn_length_le, Hs by lia. reflexivity.
Qed.

Lemma fp_short : forall N p FT bs, fp_cfg_ok N p -> FlagOK FT ->
  Z.of_nat (length bs) < fp_size p FT -> fp_dec N p FT bs = Err E_Io.
Proof.
  intros N p FT bs Hcfg HF Hlen.
  destruct (size_facts N p FT Hcfg HF) as (i & Hs & HN & Hi & Hsz).
  pose proof HF as [Hb _].
  rewrite (dec_closed N p FT _ i) by (assumption || lia).
  destruct (Nat.ltb_spec (length bs) (S i)) as [L|L]; [reflexivity|lia].
Qed.

Lemma fp_nopanic : forall N p FT bs, fp_cfg_ok N p -> FlagOK FT -> fp_dec N p FT bs <> Panic.
Proof.
  intros N p FT bs Hcfg HF.
  destruct (size_facts N p FT Hcfg HF) as (i & Hs & HN & Hi & Hsz).
  pose proof HF as [Hb _].
  rewrite (dec_closed N p FT _ i) by (assumption || lia).
  destruct (_ <? _)%nat; [discriminate|].
  destruct (ft_from_u8 FT (nth i bs 0)) as [f0|]; [|discriminate].
  cbv zeta.
  destruct (_ && _); [discriminate|].
  destruct (_ <? p); discriminate.
Qed.

Lemma fp_unique : forall N p FT bs v f rest, fp_cfg_ok N p -> FlagOK FT -> bytes_ok bs ->
  fp_dec N p FT bs = Ok (v, f, rest) ->
  0 <= v < p /\ exists pre, bs = pre ++ rest /\ fp_enc N p FT v f = Ok pre.
Proof.
  intros N p FT bs v f rest Hcfg HF Hbs Hdec.
  destruct (size_facts N p FT Hcfg HF) as (i & Hs & HN & Hi & Hsz).
  pose proof HF as [Hb [Hm [_ Hrec]]].
  destruct (ctx_bounds N p FT i Hcfg Hb Hsz) as [B1 B2].
  pose proof (pow256_pos i) as Hpi.
  pose proof (pow2k_le (8 - ft_bits FT) ltac:(lia)) as Hk.
  rewrite (dec_closed N p FT _ i) in Hdec by (assumption || lia).
  destruct (Nat.ltb_spec (length bs) (S i)) as [L|L]; [discriminate|].
  pose proof (bytes_ok_nth bs i Hbs) as Hbyte. unfold is_byte in Hbyte.
  set (b := nth i bs 0) in *.
  destruct (ft_from_u8 FT b) as [f0|] eqn:Ef; [|discriminate].
  cbv zeta in Hdec.
  pose proof (Hrec b f0 Hbyte Ef) as Hmask.
  destruct (byte_split (8 - ft_bits FT) b ltac:(lia) ltac:(lia)) as (Hsplit & Hlowb & Hmod).
  rewrite Hmask in Hsplit, Hmod.
  pose proof (ldiff_low_high (8 - ft_bits FT) (b mod 2 ^ (8 - ft_bits FT)) (ft_mask FT f0)
                ltac:(lia) Hlowb Hmod) as Hld.
  rewrite <- Hsplit in Hld. rewrite Hld in Hdec. clear Hld.
  set (b' := b mod 2 ^ (8 - ft_bits FT)) in *.
  destruct ((Z.of_nat (S i) >? 8 * Z.of_nat N) && negb (b' =? 0)) eqn:Ec; [discriminate|].
  assert (H8 : i = (8 * N)%nat -> b' = 0).
  { intros e. apply andb_false_iff in Ec. destruct Ec as [Ec|Ec].
    - assert (~ 8 * Z.of_nat N < Z.of_nat (S i)) by (rewrite <- Z.gtb_lt; congruence). lia.
    - apply negb_false_iff, Z.eqb_eq in Ec. exact Ec. }
  assert (Hpre : bytes_ok (firstn i bs)) by (apply bytes_ok_firstn; assumption).
  assert (Hlen : length (firstn i bs) = i) by (rewrite firstn_length; lia).
  rewrite (val_closed N (firstn i bs) i b' Hpre Hlen) in Hdec by (assumption || lia).
  pose proof (le_val_bound _ Hpre) as Hvb. rewrite Hlen in Hvb.
  set (w := le_val (firstn i bs)) in *.
  destruct (Z.ltb_spec (w + 256 ^ Z.of_nat i * b') p) as [Hlt|]; [|discriminate].
  inversion Hdec; subst v f0 rest; clear Hdec.
  split; [nia|].
  exists (firstn (S i) bs). split; [symmetry; apply firstn_skipn|].
  assert (Hdiv : (w + 256 ^ Z.of_nat i * b') / 256 ^ Z.of_nat i = b')
    by (symmetry; apply Z.div_unique with w; lia).
  assert (Hmodw : (w + 256 ^ Z.of_nat i * b') mod 256 ^ Z.of_nat i = w)
    by (symmetry; apply Z.mod_unique with b'; lia).
  assert (Hv1 : 0 <= w + 256 ^ Z.of_nat i * b' < 256 ^ Z.of_nat (8 * N)) by nia.
  assert (Hv2 : (w + 256 ^ Z.of_nat i * b') / 256 ^ Z.of_nat i < 2 ^ (8 - ft_bits FT))
    by (rewrite Hdiv; lia).
  rewrite (enc_closed2 N p FT _ f i) by (assumption || lia).
  rewrite Hdiv. rewrite <- le_bytes_mod, Hmodw. unfold w.
  rewrite <- Hlen at 1. rewrite le_bytes_le_val by assumption.
  rewrite (firstn_S_nth i bs 0) by lia. fold b. rewrite <- Hsplit. reflexivity.
Qed.

Lemma fp_codec_ok : forall N p, fp_cfg_ok N p -> CodecOK (fp_codec N p) (fun v => 0 <= v < p).
Proof.
  intros N p Hcfg. constructor; cbn [fp_codec c_enc c_dec c_size c_encp c_decp c_sizep].
  - intros FT v f HF Hv. apply fp_enc_size; assumption.
  - intros FT v f bs rest HF Hv. apply fp_roundtrip; assumption.
  - intros FT bs v f rest HF. apply fp_consume; assumption.
  - intros FT bs v f rest HF Hbs. apply fp_unique; assumption.
  - intros FT bs HF Hl. exists E_Io. apply fp_short; assumption.
  - intros FT bs HF. apply fp_nopanic; assumption.
  - reflexivity.
  - reflexivity.
  - reflexivity.
Qed.

(* ---------- extension lifts ---------- *)
Section Lift.
  Context {K : Type} (C : Codec K) (valid : K -> Prop) (HC : CodecOK C valid).

  Lemma plain_enc v : valid v ->
    exists bs, c_encp C v = Ok bs /\ Z.of_nat (length bs) = c_sizep C /\ bytes_ok bs.
  Proof.
    intros Hv. rewrite (ok_encp _ _ HC), (ok_sizep _ _ HC).
    apply (ok_enc _ _ HC); auto using EmptyFlags_ok.
  Qed.

  Lemma plain_roundtrip v bs rest : valid v -> c_encp C v = Ok bs ->
    c_decp C (bs ++ rest) = Ok (v, rest).
  Proof.
    intros Hv He. rewrite (ok_encp _ _ HC) in He. rewrite (ok_decp _ _ HC).
    rewrite (ok_roundtrip _ _ HC EmptyFlags v tt bs rest EmptyFlags_ok Hv He). reflexivity.
  Qed.

  Lemma plain_dec_inv bs v rest : c_decp C bs = Ok (v, rest) ->
    c_dec C EmptyFlags bs = Ok (v, tt, rest).
  Proof.
    rewrite (ok_decp _ _ HC). unfold drop_flag.
    destruct (c_dec C EmptyFlags bs) as [[[v' u] r]| |]; cbn [bind fst snd]; intros H;
      inversion H; subst. destruct u. reflexivity.
  Qed.

  Lemma plain_consume bs v rest : c_decp C bs = Ok (v, rest) ->
    exists pre, bs = pre ++ rest /\ Z.of_nat (length pre) = c_sizep C.
  Proof.
    intros H. apply plain_dec_inv in H. rewrite (ok_sizep _ _ HC).
    apply (ok_consume _ _ HC EmptyFlags bs v tt rest EmptyFlags_ok H).
  Qed.

  Lemma plain_unique bs v rest : bytes_ok bs -> c_decp C bs = Ok (v, rest) ->
    valid v /\ exists pre, bs = pre ++ rest /\ c_encp C v = Ok pre.
  Proof.
    intros Hb H. apply plain_dec_inv in H. rewrite (ok_encp _ _ HC).
    apply (ok_unique _ _ HC EmptyFlags bs v tt rest EmptyFlags_ok Hb H).
  Qed.

  Lemma plain_short bs : Z.of_nat (length bs) < c_sizep C -> exists e, c_decp C bs = Err e.
  Proof.
    intros H. rewrite (ok_sizep _ _ HC) in H.
    destruct (ok_short _ _ HC EmptyFlags bs EmptyFlags_ok H) as [e He].
    exists e. rewrite (ok_decp _ _ HC), He. reflexivity.
  Qed.

  Lemma plain_nopanic bs : c_decp C bs <> Panic.
  Proof.
    rewrite (ok_decp _ _ HC). pose proof (ok_nopanic _ _ HC EmptyFlags bs EmptyFlags_ok) as H.
    unfold drop_flag. destruct (c_dec C EmptyFlags bs); cbn [bind]; congruence.
  Qed.

  (* every decode result is Ok or Err *)
  Lemma plain_cases bs : (exists v rest, c_decp C bs = Ok (v, rest)) \/ (exists e, c_decp C bs = Err e).
  Proof.
    pose proof (plain_nopanic bs) as H.
    destruct (c_decp C bs) as [[v r]|e|]; [left; eauto|right; eauto|congruence].
  Qed.

  Lemma flag_cases FT bs : FlagOK FT ->
    (exists v f rest, c_dec C FT bs = Ok (v, f, rest)) \/ (exists e, c_dec C FT bs = Err e).
  Proof.
    intros HF. pose proof (ok_nopanic _ _ HC FT bs HF) as H.
    destruct (c_dec C FT bs) as [[[v f] r]|e|]; [left; eauto|right; eauto|congruence].
  Qed.

  Lemma quad_codec_ok_sec : CodecOK (quad_codec C) (fun x => valid (fst x) /\ valid (snd x)).
  Proof.
    constructor; unfold quad_codec; cbn [c_enc c_dec c_size c_encp c_decp c_sizep].
    - intros FT [x0 x1] f HF [Hv0 Hv1]. cbn [fst snd] in *.
      destruct (plain_enc x0 Hv0) as (b0 & E0 & L0 & B0).
      destruct (ok_enc _ _ HC FT x1 f HF Hv1) as (b1 & E1 & L1 & B1).
      exists (b0 ++ b1). rewrite E0; cbn [bind]; rewrite E1; cbn [bind].
      split; [reflexivity|]. split; [rewrite app_length; lia|apply bytes_ok_app; auto].
    - intros FT [x0 x1] f bs rest HF [Hv0 Hv1] He. cbn [fst snd] in *.
      destruct (plain_enc x0 Hv0) as (b0 & E0 & L0 & B0).
      destruct (ok_enc _ _ HC FT x1 f HF Hv1) as (b1 & E1 & L1 & B1).
      rewrite E0 in He; cbn [bind] in He; rewrite E1 in He; cbn [bind] in He.
      inversion He; subst bs; clear He. rewrite <- app_assoc.
      rewrite (plain_roundtrip x0 b0 _ Hv0 E0). cbn [bind fst snd].
      rewrite (ok_roundtrip _ _ HC FT x1 f b1 rest HF Hv1 E1). reflexivity.
    - intros FT bs [x0 x1] f rest HF Hd.
      destruct (c_decp C bs) as [[y0 r0]| |] eqn:D0; cbn [bind fst snd] in Hd; try discriminate.
      destruct (c_dec C FT r0) as [[[y1 g] r1]| |] eqn:D1; cbn [bind fst snd] in Hd; try discriminate.
      inversion Hd; subst; clear Hd.
      destruct (plain_consume _ _ _ D0) as (p0 & -> & L0).
      destruct (ok_consume _ _ HC FT _ _ _ _ HF D1) as (p1 & -> & L1).
      exists (p0 ++ p1). rewrite app_assoc, app_length. split; [reflexivity|lia].
    - intros FT bs [x0 x1] f rest HF Hb Hd.
      destruct (c_decp C bs) as [[y0 r0]| |] eqn:D0; cbn [bind fst snd] in Hd; try discriminate.
      destruct (c_dec C FT r0) as [[[y1 g] r1]| |] eqn:D1; cbn [bind fst snd] in Hd; try discriminate.
      inversion Hd; subst; clear Hd.
      destruct (plain_unique _ _ _ Hb D0) as (V0 & p0 & -> & E0).
      apply bytes_ok_app in Hb. destruct Hb as [Hb0 Hb].
      destruct (ok_unique _ _ HC FT _ _ _ _ HF Hb D1) as (V1 & p1 & -> & E1).
      cbn [fst snd]. split; [auto|]. exists (p0 ++ p1). rewrite app_assoc. split; [reflexivity|].
      rewrite E0; cbn [bind]; rewrite E1; reflexivity.
    - intros FT bs HF Hl.
      destruct (plain_cases bs) as [(y0 & r0 & D0)|(e & D0)]; rewrite D0; cbn [bind fst snd]; [|eauto].
      destruct (plain_consume _ _ _ D0) as (p0 & -> & L0).
      rewrite app_length in Hl.
      destruct (ok_short _ _ HC FT r0 HF ltac:(lia)) as [e He]. rewrite He. cbn [bind]. eauto.
    - intros FT bs HF.
      destruct (plain_cases bs) as [(y0 & r0 & D0)|(e & D0)]; rewrite D0; cbn [bind fst snd]; [|discriminate].
      destruct (flag_cases FT r0 HF) as [(y1 & g & r1 & D1)|(e & D1)]; rewrite D1; cbn [bind]; discriminate.
    - reflexivity.
    - intros bs. unfold drop_flag.
      destruct (c_decp C bs) as [[y0 r0]| |]; cbn [bind fst snd]; try reflexivity.
      rewrite (ok_decp _ _ HC r0). unfold drop_flag.
      destruct (c_dec C EmptyFlags r0) as [[[y1 g] r1]| |]; cbn [bind fst snd]; reflexivity.
    - reflexivity.
  Qed.

  Lemma cubic_codec_ok_sec :
    CodecOK (cubic_codec C) (fun x => valid (fst (fst x)) /\ valid (snd (fst x)) /\ valid (snd x)).
  Proof.
    constructor; unfold cubic_codec; cbn [c_enc c_dec c_size c_encp c_decp c_sizep].
    - intros FT [[x0 x1] x2] f HF (Hv0 & Hv1 & Hv2). cbn [fst snd] in *.
      destruct (plain_enc x0 Hv0) as (b0 & E0 & L0 & B0).
      destruct (plain_enc x1 Hv1) as (b1 & E1 & L1 & B1).
      destruct (ok_enc _ _ HC FT x2 f HF Hv2) as (b2 & E2 & L2 & B2).
      exists (b0 ++ b1 ++ b2). rewrite E0; cbn [bind]; rewrite E1; cbn [bind]; rewrite E2; cbn [bind].
      split; [reflexivity|]. split; [rewrite !app_length; lia|rewrite !bytes_ok_app; auto].
    - intros FT [[x0 x1] x2] f bs rest HF (Hv0 & Hv1 & Hv2) He. cbn [fst snd] in *.
      destruct (plain_enc x0 Hv0) as (b0 & E0 & L0 & B0).
      destruct (plain_enc x1 Hv1) as (b1 & E1 & L1 & B1).
      destruct (ok_enc _ _ HC FT x2 f HF Hv2) as (b2 & E2 & L2 & B2).
      rewrite E0 in He; cbn [bind] in He; rewrite E1 in He; cbn [bind] in He;
        rewrite E2 in He; cbn [bind] in He.
      inversion He; subst bs; clear He. rewrite <- !app_assoc.
      rewrite (plain_roundtrip x0 b0 _ Hv0 E0). cbn [bind fst snd].
      rewrite (plain_roundtrip x1 b1 _ Hv1 E1). cbn [bind fst snd].
      rewrite (ok_roundtrip _ _ HC FT x2 f b2 rest HF Hv2 E2). reflexivity.
    - intros FT bs [[x0 x1] x2] f rest HF Hd.
      destruct (c_decp C bs) as [[y0 r0]| |] eqn:D0; cbn [bind fst snd] in Hd; try discriminate.
      destruct (c_decp C r0) as [[y1 r1]| |] eqn:D1; cbn [bind fst snd] in Hd; try discriminate.
      destruct (c_dec C FT r1) as [[[y2 g] r2]| |] eqn:D2; cbn [bind fst snd] in Hd; try discriminate.
      inversion Hd; subst; clear Hd.
      destruct (plain_consume _ _ _ D0) as (p0 & -> & L0).
      destruct (plain_consume _ _ _ D1) as (p1 & -> & L1).
      destruct (ok_consume _ _ HC FT _ _ _ _ HF D2) as (p2 & -> & L2).
      exists (p0 ++ p1 ++ p2). rewrite <- !app_assoc, !app_length. split; [reflexivity|lia].
    - intros FT bs [[x0 x1] x2] f rest HF Hb Hd.
      destruct (c_decp C bs) as [[y0 r0]| |] eqn:D0; cbn [bind fst snd] in Hd; try discriminate.
      destruct (c_decp C r0) as [[y1 r1]| |] eqn:D1; cbn [bind fst snd] in Hd; try discriminate.
      destruct (c_dec C FT r1) as [[[y2 g] r2]| |] eqn:D2; cbn [bind fst snd] in Hd; try discriminate.
      inversion Hd; subst; clear Hd.
      destruct (plain_unique _ _ _ Hb D0) as (V0 & p0 & -> & E0).
      apply bytes_ok_app in Hb. destruct Hb as [Hb0 Hb].
      destruct (plain_unique _ _ _ Hb D1) as (V1 & p1 & -> & E1).
      apply bytes_ok_app in Hb. destruct Hb as [Hb1 Hb].
      destruct (ok_unique _ _ HC FT _ _ _ _ HF Hb D2) as (V2 & p2 & -> & E2).
      cbn [fst snd]. split; [auto|]. exists (p0 ++ p1 ++ p2). rewrite <- !app_assoc. split; [reflexivity|].
      rewrite E0; cbn [bind]; rewrite E1; cbn [bind]; rewrite E2; reflexivity.
    - intros FT bs HF Hl.
      destruct (plain_cases bs) as [(y0 & r0 & D0)|(e & D0)]; rewrite D0; cbn [bind fst snd]; [|eauto].
      destruct (plain_consume _ _ _ D0) as (p0 & -> & L0).
      rewrite app_length in Hl.
      destruct (plain_cases r0) as [(y1 & r1 & D1)|(e & D1)]; rewrite D1; cbn [bind fst snd]; [|eauto].
      destruct (plain_consume _ _ _ D1) as (p1 & -> & L1).
      rewrite app_length in Hl.
      destruct (ok_short _ _ HC FT r1 HF ltac:(lia)) as [e He]. rewrite He. cbn [bind]. eauto.
    - intros FT bs HF.
      destruct (plain_cases bs) as [(y0 & r0 & D0)|(e & D0)]; rewrite D0; cbn [bind fst snd]; [|discriminate].
      destruct (plain_cases r0) as [(y1 & r1 & D1)|(e & D1)]; rewrite D1; cbn [bind fst snd]; [|discriminate].
      destruct (flag_cases FT r1 HF) as [(y2 & g & r2 & D2)|(e & D2)]; rewrite D2; cbn [bind]; discriminate.
    - reflexivity.
    - intros bs. unfold drop_flag.
      destruct (c_decp C bs) as [[y0 r0]| |]; cbn [bind fst snd]; try reflexivity.
      destruct (c_decp C r0) as [[y1 r1]| |]; cbn [bind fst snd]; try reflexivity.
      rewrite (ok_decp _ _ HC r1). unfold drop_flag.
      destruct (c_dec C EmptyFlags r1) as [[[y2 g] r2]| |]; cbn [bind fst snd]; reflexivity.
    - reflexivity.
  Qed.
End Lift.

Lemma quad_codec_ok : forall K (C : Codec K) valid, CodecOK C valid ->
  CodecOK (quad_codec C) (fun x => valid (fst x) /\ valid (snd x)).
Proof. intros K C valid HC. exact (quad_codec_ok_sec C valid HC). Qed.

Lemma cubic_codec_ok : forall K (C : Codec K) valid, CodecOK C valid ->
  CodecOK (cubic_codec C) (fun x => valid (fst (fst x)) /\ valid (snd (fst x)) /\ valid (snd x)).
Proof. intros K C valid HC. exact (cubic_codec_ok_sec C valid HC). Qed.

(* ---------- concrete instances of the hypotheses (non-vacuity) ---------- *)
(* one limb, modulus with no spare bit: SW flags spill into the 9th byte (size = 8N + 1) *)
Example ex_cfg_spill : fp_cfg_ok 1 (2 ^ 64 - 59) /\ fp_size (2 ^ 64 - 59) SWFlags = 9.
Proof. unfold fp_cfg_ok. vm_compute. intuition congruence. Qed.

Example ex_enc_spill :
  fp_enc 1 (2 ^ 64 - 59) SWFlags 258 YIsNegative = Ok [2; 1; 0; 0; 0; 0; 0; 0; 128].
Proof. vm_compute. reflexivity. Qed.

Example ex_dec_spill :
  fp_dec 1 (2 ^ 64 - 59) SWFlags [2; 1; 0; 0; 0; 0; 0; 0; 128; 7] = Ok (258, YIsNegative, [7]).
Proof. vm_compute. reflexivity. Qed.

(* stray low bits in the spilled flag byte are rejected (the F15 repair) *)
Example ex_dec_spill_stray :
  fp_dec 1 (2 ^ 64 - 59) SWFlags [2; 1; 0; 0; 0; 0; 0; 0; 129] = Err E_InvalidData.
Proof. vm_compute. reflexivity. Qed.

(* flags share the top byte of the last limb (size = 8N) *)
Example ex_cfg_share : fp_cfg_ok 1 (2 ^ 61 - 1) /\ fp_size (2 ^ 61 - 1) SWFlags = 8.
Proof. unfold fp_cfg_ok. vm_compute. intuition congruence. Qed.

Example ex_roundtrip_share :
  fp_enc 1 (2 ^ 61 - 1) SWFlags (2 ^ 61 - 2) PointAtInfinity = Ok [254; 255; 255; 255; 255; 255; 255; 95] /\
  fp_dec 1 (2 ^ 61 - 1) SWFlags [254; 255; 255; 255; 255; 255; 255; 95] = Ok (2 ^ 61 - 2, PointAtInfinity, []).
Proof. vm_compute. split; reflexivity. Qed.

