(* C09: the hypotheses of the point theorems (Specs.point_hyps) are satisfiable -- a concrete
   instance: the prime field F_7 as a subset type of Z (Leibniz equality, no axiom), with the
   transported Fp codec, a search square root and the integer order. *)
From Coq Require Import Field_theory Ring_theory Eqdep_dec Lia.
From V Require Import Base.Field C09.Bytes C09.FpCodec C09.Specs C09.BytesProofs C09.FpCodecProofs.
From V Require Import C09.PointCodec C09.PointCodecProofs C09.Exec.

Definition inb (z : Z) : bool := (0 <=? z) && (z <? 7).
Definition Z7 : Type := {z : Z | inb z = true}.
Definition v7 (a : Z7) : Z := proj1_sig a.

Lemma Z7_eq (a b : Z7) : v7 a = v7 b -> a = b.
Proof.
  destruct a as [x Hx], b as [y Hy]. unfold v7; cbn [proj1_sig]. intros ->.
  f_equal. apply UIP_dec. apply bool_dec.
Qed.
Lemma v7_range (a : Z7) : 0 <= v7 a < 7.
Proof. destruct a as [x Hx]. unfold v7, inb in *; cbn [proj1_sig]. lia. Qed.

Lemma inb_mod z : inb (z mod 7) = true.
Proof. unfold inb. pose proof (Z.mod_pos_bound z 7). lia. Qed.
Definition mk7 (z : Z) : Z7 := exist _ (z mod 7) (inb_mod z).
Lemma v7_mk z : v7 (mk7 z) = z mod 7. Proof. reflexivity. Qed.
Lemma mk7_v7 a : mk7 (v7 a) = a.
Proof. apply Z7_eq. rewrite v7_mk. pose proof (v7_range a). apply Z.mod_small. lia. Qed.

Lemma Z7_cases (a : Z7) :
  a = mk7 0 \/ a = mk7 1 \/ a = mk7 2 \/ a = mk7 3 \/ a = mk7 4 \/ a = mk7 5 \/ a = mk7 6.
Proof.
  pose proof (v7_range a) as H.
  assert (E : v7 a = 0 \/ v7 a = 1 \/ v7 a = 2 \/ v7 a = 3 \/ v7 a = 4 \/ v7 a = 5 \/ v7 a = 6) by lia.
  destruct E as [E|[E|[E|[E|[E|[E|E]]]]]];
    [ left | right; left | do 2 right; left | do 3 right; left | do 4 right; left
    | do 5 right; left | do 6 right ];
    apply Z7_eq; rewrite E; reflexivity.
Qed.

Definition F7 : Fops Z7 :=
  let B := ZpOps 7 in
  {| f0 := mk7 0; f1 := mk7 1;
     fadd := fun a b => mk7 (fadd B (v7 a) (v7 b)); fsub := fun a b => mk7 (fsub B (v7 a) (v7 b));
     fmul := fun a b => mk7 (fmul B (v7 a) (v7 b)); fneg := fun a => mk7 (fneg B (v7 a));
     finv := fun a => mk7 (finv B (v7 a));
     feqb := fun a b => v7 a =? v7 b;
     fcoords := fun a => [v7 a]; fof := fun l => mk7 (hd 0 l); fdeg := 1%nat; fchar := 7 |}.

Ltac enum a := let E := fresh "E" in
  destruct (Z7_cases a) as [E|[E|[E|[E|[E|[E|E]]]]]]; rewrite E; clear E.
Ltac fin := apply Z7_eq; vm_compute; reflexivity.

Lemma F7_field : field_theory (f0 F7) (f1 F7) (fadd F7) (fmul F7) (fsub F7) (fneg F7)
                              (fun a b => fmul F7 a (finv F7 b)) (finv F7) eq.
Proof.
  constructor.
  - constructor.
    + intros a; enum a; fin.
    + intros a b; enum a; enum b; fin.
    + intros a b c; enum a; enum b; enum c; fin.
    + intros a; enum a; fin.
    + intros a b; enum a; enum b; fin.
    + intros a b c; enum a; enum b; enum c; fin.
    + intros a b c; enum a; enum b; enum c; fin.
    + intros a b; enum a; enum b; fin.
    + intros a; enum a; fin.
  - intros H. apply (f_equal v7) in H. vm_compute in H. discriminate.
  - intros a b. reflexivity.
  - intros a; enum a; intros H; try fin. exfalso. apply H. fin.
Qed.

Lemma F7_feqb a b : feqb F7 a b = true <-> a = b.
Proof.
  cbn [feqb F7]. rewrite Z.eqb_eq. split; [apply Z7_eq | now intros ->].
Qed.

Definition all7 : list Z7 := map mk7 [0; 1; 2; 3; 4; 5; 6].
Lemma all7_in a : In a all7.
Proof. enum a; cbn; tauto. Qed.

Definition sqrt7 (a : Z7) : option Z7 := find (fun r => feqb F7 (fmul F7 r r) a) all7.
Lemma sqrt7_some a r : sqrt7 a = Some r -> fmul F7 r r = a.
Proof. intros H. apply find_some in H as [_ H]. now apply F7_feqb. Qed.
Lemma sqrt7_none a : sqrt7 a = None -> forall y, fmul F7 y y <> a.
Proof.
  intros H y E. pose proof (find_none _ _ H y (all7_in y)) as Hn. cbn beta in Hn.
  apply F7_feqb in E. congruence.
Qed.

Definition cmp7 (a b : Z7) : comparison := Z.compare (v7 a) (v7 b).
Lemma cmp7_eq a b : cmp7 a b = Eq <-> a = b.
Proof. unfold cmp7. rewrite Z.compare_eq_iff. split; [apply Z7_eq | now intros ->]. Qed.
Lemma cmp7_antisym a b : cmp7 a b = CompOpp (cmp7 b a).
Proof. unfold cmp7. apply Z.compare_antisym. Qed.

(* the Fp<_, 1> codec for p = 7, on the subset type *)
Definition lift7 {FT : Type} (r : res (Z * FT * list Z)) : res (Z7 * FT * list Z) :=
  bind r (fun x => Ok (mk7 (fst (fst x)), snd (fst x), snd x)).
Definition C7 : Codec Z7 :=
  {| c_enc := fun FT x f => fp_enc 1 7 FT (v7 x) f;
     c_dec := fun FT bs => lift7 (fp_dec 1 7 FT bs);
     c_size := fun FT => fp_size 7 FT;
     c_encp := fun x => fp_enc 1 7 EmptyFlags (v7 x) tt;
     c_decp := fun bs => drop_flag (lift7 (fp_dec 1 7 EmptyFlags bs));
     c_sizep := fp_size 7 EmptyFlags |}.

Lemma cfg7 : fp_cfg_ok 1 7.
Proof. unfold fp_cfg_ok. vm_compute. intuition congruence. Qed.

Lemma lift7_ok FT (r : res (Z * FT * list Z)) v f rest :
  lift7 r = Ok (v, f, rest) -> exists z, r = Ok (z, f, rest) /\ v = mk7 z.
Proof.
  destruct r as [[[z f'] rest'] | e | ]; cbn; try discriminate.
  intros H. injection H as <- <- <-. eauto.
Qed.

Lemma C7_ok : CodecOK C7 (fun _ => True).
Proof.
  pose proof cfg7 as Hc.
  constructor; cbn [c_enc c_dec c_size c_encp c_decp c_sizep C7].
  - intros FT v f HF _. apply fp_enc_size; auto. pose proof (v7_range v). lia.
  - intros FT v f bs rest HF _ He.
    rewrite (fp_roundtrip 1 7 FT (v7 v) f bs rest Hc HF); auto.
    + cbn. now rewrite mk7_v7.
    + pose proof (v7_range v). lia.
  - intros FT bs v f rest HF H. apply lift7_ok in H as (z & H & _).
    eapply fp_consume; eauto.
  - intros FT bs v f rest HF Hb H. apply lift7_ok in H as (z & H & ->).
    split; auto. destruct (fp_unique 1 7 FT bs z f rest Hc HF Hb H) as (Hz & pre & Hp & He).
    exists pre. split; auto. rewrite v7_mk, Z.mod_small by lia. exact He.
  - intros FT bs HF Hl. exists E_Io. rewrite (fp_short 1 7 FT bs Hc HF Hl). reflexivity.
  - intros FT bs HF H. pose proof (fp_nopanic 1 7 FT bs Hc HF) as Hn.
    destruct (fp_dec 1 7 FT bs) as [[[z f] r] | e | ]; cbn in H; congruence.
  - reflexivity.
  - reflexivity.
  - reflexivity.
Qed.

Lemma point_hyps_F7 : point_hyps F7 C7 sqrt7 cmp7.
Proof.
  unfold point_hyps.
  split; [exact F7_field|]. split; [exact F7_feqb|]. split; [exact sqrt7_some|].
  split; [exact sqrt7_none|]. split; [exact cmp7_eq|]. split; [exact cmp7_antisym|].
  exact C7_ok.
Qed.

(* concrete premises / executions used as Examples in Props/C09.v *)
Lemma ex_sw_premises :
  sw_valid_pt F7 (mk7 0) (mk7 3) (mkSW (mk7 1) (mk7 2) false) /\
  sw_valid_pt F7 (mk7 0) (mk7 3) (sw_identity F7).
Proof. split; [right; split; vm_compute; reflexivity | left; reflexivity]. Qed.
Lemma ex_te_premises :
  te_on_curve F7 (mk7 6) (mk7 3) (mkTE (mk7 2) (mk7 5)) = true /\ mk7 6 <> mk7 3.
Proof. split; [vm_compute; reflexivity | intros H; apply (f_equal v7) in H; vm_compute in H; discriminate]. Qed.
Lemma ex_sw_point :
  let F := ZpOps 13 in let C := fp_codec 1 13 in let sq := fsqrt F 2 in
  let sub := fun P : swaff => sw_order_divides F 0 7 (sx P) (sy P) in
  sw_enc F C Z.compare (mkSW 7 8 false) true = Ok [135] /\
  sw_dec F C sq Z.compare 0 7 sub [135; 99] true true = Ok (mkSW 7 8 false, [99]) /\
  sw_dec F C sq Z.compare 0 7 sub [64] true true = Ok (sw_identity F, []) /\
  sw_dec F C sq Z.compare 0 7 sub [7; 8] false true = Ok (mkSW 7 8 false, []).
Proof. vm_compute. repeat split; reflexivity. Qed.
Lemma ex_te_point :
  let F := ZpOps 13 in let C := fp_codec 1 13 in let sq := fsqrt F 2 in
  te_on_curve F 12 2 (mkTE 0 12) = true /\
  te_dec F C sq Z.compare 12 2 (fun _ => true) (match te_enc F C Z.compare (mkTE 0 12) true with Ok b => b | _ => [] end) true true
    = Ok (mkTE 0 12, []).
Proof. vm_compute. repeat split; reflexivity. Qed.
