(* C09 model, part 3: curve-point codecs.
   Mirrors ec/src/models/short_weierstrass/{mod.rs (SWCurveConfig::serialize_with_mode,
   deserialize_with_mode, serialized_size), affine.rs (to_flags, get_ys_from_x_unchecked,
   is_on_curve, check, From<Projective>), group.rs (Projective wrappers)} and the
   twisted_edwards counterparts.  Field-generic: the base field is a dictionary `Fops K`
   with its codec; `sqrt` (Field::sqrt), `cmp` (Ord::cmp) and the subgroup test
   (is_in_correct_subgroup_assuming_on_curve, property C12) are parameters.
   No proofs in this file. *)
From V Require Import Base.Field C09.Bytes C09.FpCodec.

Section Points.
  Context {K : Type} (F : Fops K) (C : Codec K).
  Variable sqrt : K -> option K.
  Variable cmp : K -> K -> comparison.

  Definition fle (a b : K) : bool := match cmp a b with Gt => false | _ => true end.   (* a <= b *)
  Definition flt (a b : K) : bool := match cmp a b with Lt => true | _ => false end.   (* a < b *)

  (* ================= short Weierstrass ================= *)
  Record swaff : Type := mkSW { sx : K; sy : K; sinf : bool }.
  Record swproj : Type := mkSWJ { jx : K; jy : K; jz : K }.

  Variables (ca cb : K).                     (* COEFF_A, COEFF_B *)
  Variable sw_in_subgroup : swaff -> bool.

  Definition sw_identity : swaff := mkSW (f0 F) (f0 F) true.

  (* x^3 + a x + b as the code computes it: add_b(x.square() * x), then += mul_by_a(x)
     unless COEFF_A is zero *)
  Definition sw_rhs (x : K) : K :=
    let t := fadd F (fmul F (fmul F x x) x) cb in
    if feqb F ca (f0 F) then t else fadd F t (fmul F ca x).

  Definition sw_on_curve (P : swaff) : bool :=
    if sinf P then true else feqb F (fmul F (sy P) (sy P)) (sw_rhs (sx P)).

  Definition sw_to_flags (P : swaff) : swflag :=
    if sinf P then PointAtInfinity
    else if fle (sy P) (fneg F (sy P)) then YIsPositive else YIsNegative.

  (* get_ys_from_x_unchecked: (smaller, larger) *)
  Definition sw_get_ys (x : K) : option (K * K) :=
    match sqrt (sw_rhs x) with
    | None => None
    | Some y => let ny := fneg F y in
                if flt y ny then Some (y, ny) else Some (ny, y)
    end.

  (* Valid::check *)
  Definition sw_check (P : swaff) : res unit :=
    if sw_on_curve P && sw_in_subgroup P then Ok tt else Err E_InvalidData.

  Definition sw_enc (P : swaff) (compress : bool) : res (list Z) :=
    let '(x, y, flags) :=
      if sinf P then (f0 F, f0 F, PointAtInfinity) else (sx P, sy P, sw_to_flags P) in
    if compress then c_enc C SWFlags x flags
    else bind (c_encp C x) (fun bx =>
         bind (c_enc C SWFlags y flags) (fun by_ => Ok (bx ++ by_))).

  Definition sw_dec (bs : list Z) (compress validate : bool) : res (swaff * list Z) :=
    bind
      (if compress then
         bind (c_dec C SWFlags bs) (fun r =>
         let x := fst (fst r) in let flags := snd (fst r) in let rest := snd r in
         match flags with
         | PointAtInfinity => Ok (f0 F, f0 F, flags, rest)
         | _ =>
           match sw_get_ys x with
           | None => Err E_InvalidData
           | Some (y, neg_y) =>
             match flags with
             | YIsPositive => Ok (x, y, flags, rest)
             | _ => Ok (x, neg_y, flags, rest)
             end
           end
         end)
       else
         bind (c_decp C bs) (fun r0 =>
         bind (c_dec C SWFlags (snd r0)) (fun r1 =>
         Ok (fst r0, fst (fst r1), snd (fst r1), snd r1))))
      (fun q =>
       let '(x, y, flags, rest) := q in
       match flags with
       | PointAtInfinity => Ok (sw_identity, rest)
       | _ => let point := mkSW x y false in
              if validate then bind (sw_check point) (fun _ => Ok (point, rest))
              else Ok (point, rest)
       end).

  Definition sw_size (compress : bool) : Z :=
    if compress then c_size C SWFlags else c_sizep C + c_size C SWFlags.

  (* From<Projective> for Affine (Jacobian) *)
  Definition sw_to_affine (P : swproj) : swaff :=
    if feqb F (jz P) (f0 F) then sw_identity
    else if feqb F (jz P) (f1 F) then mkSW (jx P) (jy P) false
    else let zinv := finv F (jz P) in
         let zinv2 := fmul F zinv zinv in
         mkSW (fmul F (jx P) zinv2) (fmul F (jy P) (fmul F zinv2 zinv)) false.
  (* From<Affine> for Projective *)
  Definition sw_of_affine (P : swaff) : swproj :=
    if sinf P then mkSWJ (f1 F) (f1 F) (f0 F) else mkSWJ (sx P) (sy P) (f1 F).

  Definition swj_enc (P : swproj) (compress : bool) : res (list Z) := sw_enc (sw_to_affine P) compress.
  Definition swj_dec (bs : list Z) (compress validate : bool) : res (swproj * list Z) :=
    bind (sw_dec bs compress validate) (fun r => Ok (sw_of_affine (fst r), snd r)).

  (* ================= twisted Edwards ================= *)
  Record teaff : Type := mkTE { tx : K; ty : K }.
  Record teproj : Type := mkTEP { ex : K; ey : K; et : K; ez : K }.

  Variables (ta td : K).                     (* COEFF_A, COEFF_D *)
  Variable te_in_subgroup : teaff -> bool.

  Definition te_on_curve (P : teaff) : bool :=
    let x2 := fmul F (tx P) (tx P) in
    let y2 := fmul F (ty P) (ty P) in
    feqb F (fadd F y2 (fmul F ta x2)) (fadd F (f1 F) (fmul F td (fmul F x2 y2))).

  Definition te_from_x (x : K) : teflag :=
    if fle x (fneg F x) then XIsPositive else XIsNegative.

  (* get_xs_from_y_unchecked: x^2 = (1 - y^2) / (a - d y^2); (smaller, larger) *)
  Definition te_get_xs (y : K) : option (K * K) :=
    let y2 := fmul F y y in
    let numerator := fsub F (f1 F) y2 in
    let denominator := fsub F ta (fmul F y2 td) in
    if feqb F denominator (f0 F) then None            (* inverse() = None *)
    else match sqrt (fmul F (finv F denominator) numerator) with
         | None => None
         | Some x => let nx := fneg F x in
                     if fle x nx then Some (x, nx) else Some (nx, x)
         end.

  Definition te_check (P : teaff) : res unit :=
    if te_on_curve P && te_in_subgroup P then Ok tt else Err E_InvalidData.

  Definition te_enc (P : teaff) (compress : bool) : res (list Z) :=
    let flags := te_from_x (tx P) in
    if compress then c_enc C TEFlags (ty P) flags
    else bind (c_encp C (tx P)) (fun bx =>
         bind (c_encp C (ty P)) (fun by_ => Ok (bx ++ by_))).

  Definition te_dec (bs : list Z) (compress validate : bool) : res (teaff * list Z) :=
    bind
      (if compress then
         bind (c_dec C TEFlags bs) (fun r =>
         let y := fst (fst r) in let flags := snd (fst r) in let rest := snd r in
         match te_get_xs y with
         | None => Err E_InvalidData
         | Some (x, neg_x) =>
           match flags with
           | XIsNegative => Ok (neg_x, y, rest)
           | XIsPositive => Ok (x, y, rest)
           end
         end)
       else
         bind (c_decp C bs) (fun r0 =>
         bind (c_decp C (snd r0)) (fun r1 => Ok (fst r0, fst r1, snd r1))))
      (fun q =>
       let '(x, y, rest) := q in
       let point := mkTE x y in
       if validate then bind (te_check point) (fun _ => Ok (point, rest))
       else Ok (point, rest)).

  Definition te_size (compress : bool) : Z :=
    if compress then c_size C TEFlags else c_sizep C + c_sizep C.

  (* Projective (extended coordinates) *)
  Definition te_proj_is_zero (P : teproj) : bool :=
    feqb F (ex P) (f0 F) && feqb F (ey P) (ez P) && negb (feqb F (ey P) (f0 F)) && feqb F (et P) (f0 F).
  Definition te_to_affine (P : teproj) : teaff :=
    if te_proj_is_zero P then mkTE (f0 F) (f1 F)
    else if feqb F (ez P) (f1 F) then mkTE (ex P) (ey P)
    else let zinv := finv F (ez P) in mkTE (fmul F (ex P) zinv) (fmul F (ey P) zinv).
  Definition te_of_affine (P : teaff) : teproj :=
    mkTEP (tx P) (ty P) (fmul F (tx P) (ty P)) (f1 F).

  Definition tep_enc (P : teproj) (compress : bool) : res (list Z) := te_enc (te_to_affine P) compress.
  Definition tep_dec (bs : list Z) (compress validate : bool) : res (teproj * list Z) :=
    bind (te_dec bs compress validate) (fun r => Ok (te_of_affine (fst r), snd r)).
End Points.
