(* C09 proofs, part 3: curve-point codecs round-trip at the advertised size.
   Section hypotheses (mathematics, not code): the base field is a field; `sqrt` meets the
   square-root specification; `cmp` is an order compatible with equality; for twisted
   Edwards curves a <> d. *)
From Coq Require Import Field Lia.
From V Require Import Base.Field C09.Bytes C09.FpCodec C09.Specs C09.BytesProofs C09.FpCodecProofs C09.PointCodec.

Section PointProofs.
  Context {K : Type} (F : Fops K) (C : Codec K).
  Variable sqrt : K -> option K.
  Variable cmp : K -> K -> comparison.

  Hypothesis Fth : field_theory (f0 F) (f1 F) (fadd F) (fmul F) (fsub F) (fneg F)
                                (fun a b => fmul F a (finv F b)) (finv F) eq.
  Hypothesis feqb_spec : forall a b, feqb F a b = true <-> a = b.
  Hypothesis sqrt_some : forall a r, sqrt a = Some r -> fmul F r r = a.
  Hypothesis sqrt_none : forall a, sqrt a = None -> forall y, fmul F y y <> a.
  Hypothesis cmp_eq : forall a b, cmp a b = Eq <-> a = b.
  Hypothesis cmp_antisym : forall a b, cmp a b = CompOpp (cmp b a).
  Hypothesis COK : CodecOK C (fun _ => True).

  Add Field Kfield : Fth.

  Local Notation "0" := (f0 F). Local Notation "1" := (f1 F).
  Local Infix "+" := (fadd F). Local Infix "*" := (fmul F). Local Infix "-" := (fsub F).
  Local Notation "- x" := (fneg F x).

  Lemma feqb_false a b : feqb F a b = false <-> a <> b.
  Proof.
    split.
    - intros H E. apply feqb_spec in E. congruence.
    - intros H. destruct (feqb F a b) eqn:E; auto. apply feqb_spec in E. contradiction.
  Qed.

  Lemma mul_zero a b : a * b = 0 -> a = 0 \/ b = 0.
  Proof.
    intros H. destruct (feqb F a 0) eqn:E.
    - left. now apply feqb_spec.
    - right. apply feqb_false in E.
      assert (Hb : b = finv F a * (a * b)) by (field; exact E).
      rewrite Hb, H. ring.
  Qed.

  Lemma sqr_roots x y : x * x = y * y -> x = y \/ x = - y.
  Proof.
    intros H. assert (H0 : (x - y) * (x + y) = 0).
    { transitivity (x * x - y * y); [ring | rewrite H; ring]. }
    apply mul_zero in H0 as [H0 | H0].
    - left. transitivity ((x - y) + y); [ring | rewrite H0; ring].
    - right. transitivity ((x + y) - y); [ring | rewrite H0; ring].
  Qed.

  Lemma neg_neg x : - (- x) = x. Proof. ring. Qed.

  Lemma cmp_refl x : cmp x x = Eq. Proof. now apply cmp_eq. Qed.

  (* the sign rule: whichever root `sqrt` returns, sorting the pair and selecting by the
     flag recovers the coordinate that was encoded (ties v = -v included) *)
  Lemma sort_le_pos v r : (r = v \/ r = - v) -> fle cmp v (- v) = true ->
    (if flt cmp r (- r) then r else - r) = v.
  Proof.
    unfold fle, flt. intros [-> | ->] Hle.
    - destruct (cmp v (- v)) eqn:E; try discriminate; auto.
      apply cmp_eq in E. auto.
    - rewrite neg_neg. rewrite (cmp_antisym (- v) v).
      destruct (cmp v (- v)) eqn:E; try discriminate; cbn [CompOpp]; auto.
  Qed.
  Lemma sort_le_neg v r : (r = v \/ r = - v) -> fle cmp v (- v) = false ->
    (if flt cmp r (- r) then - r else r) = v.
  Proof.
    unfold fle, flt. intros [-> | ->] Hle.
    - destruct (cmp v (- v)) eqn:E; try discriminate; auto.
    - rewrite neg_neg. rewrite (cmp_antisym (- v) v).
      destruct (cmp v (- v)) eqn:E; try discriminate; cbn [CompOpp]; auto.
  Qed.
  (* the twisted-Edwards variant sorts with <= *)
  Lemma sort2_le_pos v r : (r = v \/ r = - v) -> fle cmp v (- v) = true ->
    (if fle cmp r (- r) then r else - r) = v.
  Proof.
    unfold fle. intros [-> | ->] Hle.
    - now rewrite Hle.
    - rewrite neg_neg. rewrite (cmp_antisym (- v) v).
      destruct (cmp v (- v)) eqn:E; try discriminate; cbn [CompOpp]; auto.
      apply cmp_eq in E. auto.
  Qed.
  Lemma sort2_le_neg v r : (r = v \/ r = - v) -> fle cmp v (- v) = false ->
    (if fle cmp r (- r) then - r else r) = v.
  Proof.
    unfold fle. intros [-> | ->] Hle.
    - now rewrite Hle.
    - rewrite neg_neg. rewrite (cmp_antisym (- v) v).
      destruct (cmp v (- v)) eqn:E; try discriminate; cbn [CompOpp]; auto.
  Qed.

  Let HSW := SWFlags_ok.
  Let HTE := TEFlags_ok.

  (* ---------------- short Weierstrass ---------------- *)
  Variables (ca cb : K).
  Variable sw_in_subgroup : @swaff K -> bool.

  Definition sw_valid_pt (P : @swaff K) : Prop :=
    P = sw_identity F \/ (sinf P = false /\ sw_on_curve F ca cb P = true).

  Lemma sw_get_ys_on_curve x y : fmul F y y = sw_rhs F ca cb x ->
    exists r, sqrt (sw_rhs F ca cb x) = Some r /\ (r = y \/ r = - y).
  Proof.
    intros Hy. destruct (sqrt (sw_rhs F ca cb x)) as [r|] eqn:E.
    - exists r. split; auto. apply sqr_roots. rewrite Hy. now apply sqrt_some.
    - exfalso. exact (sqrt_none _ E y Hy).
  Qed.

  Theorem sw_size_thm : forall P compress bs,
    sw_enc F C cmp P compress = Ok bs -> Z.of_nat (length bs) = sw_size C compress.
  Proof.
    intros P compress bs. unfold sw_enc, sw_size.
    set (q := if sinf P then _ else _). destruct q as [[x y] fl].
    destruct compress.
    - intros He. destruct (ok_enc _ _ COK SWFlags x fl HSW I) as (b & Hb & Hl & _). congruence.
    - destruct (plain_enc C _ COK x I) as (b0 & Hb0 & Hl0 & _).
      destruct (ok_enc _ _ COK SWFlags y fl HSW I) as (b1 & Hb1 & Hl1 & _).
      rewrite Hb0, Hb1. cbn [bind]. intros He. injection He as <-.
      rewrite app_length, Nat2Z.inj_add. lia.
  Qed.

  Theorem sw_roundtrip : forall P compress validate rest,
    sw_valid_pt P ->
    (validate = true -> sinf P = false -> sw_in_subgroup P = true) ->
    exists bs, sw_enc F C cmp P compress = Ok bs /\
      sw_dec F C sqrt cmp ca cb sw_in_subgroup (bs ++ rest) compress validate = Ok (P, rest).
  Proof.
    intros P compress validate rest HP Hsub.
    destruct HP as [-> | [Hinf Hoc]].
    - (* identity *)
      unfold sw_enc, sw_dec. cbn [sinf sw_identity].
      destruct compress.
      + destruct (ok_enc _ _ COK SWFlags 0 PointAtInfinity HSW I) as (b & Hb & _).
        exists b. split; auto.
        rewrite (ok_roundtrip _ _ COK SWFlags 0 PointAtInfinity b rest HSW I Hb). reflexivity.
      + destruct (plain_enc C _ COK 0 I) as (b0 & Hb0 & _).
        destruct (ok_enc _ _ COK SWFlags 0 PointAtInfinity HSW I) as (b1 & Hb1 & _).
        exists (b0 ++ b1). rewrite Hb0, Hb1. split; [reflexivity|].
        rewrite <- app_assoc, (plain_roundtrip C _ COK 0 b0 (b1 ++ rest) I Hb0). cbn [bind fst snd].
        rewrite (ok_roundtrip _ _ COK SWFlags 0 PointAtInfinity b1 rest HSW I Hb1). reflexivity.
    - (* a finite point on the curve *)
      destruct P as [x y inf]. cbn [sinf] in Hinf. subst inf.
      unfold sw_on_curve in Hoc. cbn [sinf sx sy] in Hoc. apply feqb_spec in Hoc.
      assert (Hchk : validate = true -> sw_check F ca cb sw_in_subgroup (mkSW x y false) = Ok tt).
      { intros Hv. unfold sw_check, sw_on_curve. cbn [sinf sx sy].
        rewrite (proj2 (feqb_spec _ _) Hoc), (Hsub Hv eq_refl). reflexivity. }
      unfold sw_enc, sw_dec, sw_to_flags. cbn [sinf sx sy].
      set (fl := if fle cmp y (- y) then YIsPositive else YIsNegative).
      destruct compress.
      + destruct (ok_enc _ _ COK SWFlags x fl HSW I) as (b & Hb & _).
        exists b. split; auto.
        rewrite (ok_roundtrip _ _ COK SWFlags x fl b rest HSW I Hb). cbn [bind fst snd].
        destruct (sw_get_ys_on_curve x y Hoc) as (r & Hr & Hry).
        unfold sw_get_ys. rewrite Hr.
        subst fl. destruct (fle cmp y (- y)) eqn:Hle.
        * pose proof (sort_le_pos y r Hry Hle) as Hs.
          destruct (flt cmp r (- r)); cbn [bind]; rewrite Hs;
            (destruct validate; [rewrite (Hchk eq_refl)|]; reflexivity).
        * pose proof (sort_le_neg y r Hry Hle) as Hs.
          destruct (flt cmp r (- r)); cbn [bind]; rewrite Hs;
            (destruct validate; [rewrite (Hchk eq_refl)|]; reflexivity).
      + destruct (plain_enc C _ COK x I) as (b0 & Hb0 & _).
        destruct (ok_enc _ _ COK SWFlags y fl HSW I) as (b1 & Hb1 & _).
        exists (b0 ++ b1). rewrite Hb0, Hb1. split; [reflexivity|].
        rewrite <- app_assoc, (plain_roundtrip C _ COK x b0 (b1 ++ rest) I Hb0). cbn [bind fst snd].
        rewrite (ok_roundtrip _ _ COK SWFlags y fl b1 rest HSW I Hb1). cbn [bind fst snd].
        subst fl. destruct (fle cmp y (- y));
          (destruct validate; [rewrite (Hchk eq_refl)|]; reflexivity).
  Qed.

  (* projective wrapper: any representative is encoded as its normalisation, and decoding
     returns the canonical representative of the decoded affine point *)
  Theorem swj_roundtrip : forall P compress validate rest,
    sw_valid_pt (sw_to_affine F P) ->
    (validate = true -> sinf (sw_to_affine F P) = false -> sw_in_subgroup (sw_to_affine F P) = true) ->
    exists bs, swj_enc F C cmp P compress = Ok bs /\
      Z.of_nat (length bs) = sw_size C compress /\
      swj_dec F C sqrt cmp ca cb sw_in_subgroup (bs ++ rest) compress validate
        = Ok (sw_of_affine F (sw_to_affine F P), rest).
  Proof.
    intros P compress validate rest HP Hsub.
    destruct (sw_roundtrip _ compress validate rest HP Hsub) as (bs & He & Hd).
    exists bs. unfold swj_enc, swj_dec. rewrite Hd. repeat split; auto.
    eapply sw_size_thm; eauto.
  Qed.

  (* ---------------- twisted Edwards ---------------- *)
  Variables (ta td : K).
  Variable te_in_subgroup : @teaff K -> bool.
  Hypothesis te_a_neq_d : ta <> td.

  Theorem te_size_thm : forall P compress bs,
    te_enc F C cmp P compress = Ok bs -> Z.of_nat (length bs) = te_size C compress.
  Proof.
    intros P compress bs. unfold te_enc, te_size. destruct compress.
    - intros He. destruct (ok_enc _ _ COK TEFlags (ty P) (te_from_x F cmp (tx P)) HTE I) as (b & Hb & Hl & _).
      congruence.
    - destruct (plain_enc C _ COK (tx P) I) as (b0 & Hb0 & Hl0 & _).
      destruct (plain_enc C _ COK (ty P) I) as (b1 & Hb1 & Hl1 & _).
      rewrite Hb0, Hb1. cbn [bind]. intros He. injection He as <-.
      rewrite app_length, Nat2Z.inj_add. lia.
  Qed.

  Lemma te_get_xs_on_curve x y : te_on_curve F ta td (mkTE x y) = true ->
    let den := ta - (y * y) * td in
    feqb F den 0 = false /\
    exists r, sqrt (finv F den * (1 - y * y)) = Some r /\ (r = x \/ r = - x).
  Proof.
    unfold te_on_curve. cbn [tx ty]. intros Hoc. apply feqb_spec in Hoc. cbn zeta.
    assert (Hx : (x * x) * (ta - (y * y) * td) = 1 - y * y).
    { transitivity ((y * y + ta * (x * x)) - y * y - td * ((x * x) * (y * y))); [ring|].
      rewrite Hoc. ring. }
    assert (Hden : ta - (y * y) * td <> 0).
    { intros Hd. rewrite Hd in Hx.
      assert (Hy : y * y = 1).
      { transitivity (1 - (1 - y * y)); [ring|]. rewrite <- Hx. ring. }
      rewrite Hy in Hd. apply te_a_neq_d.
      transitivity ((ta - 1 * td) + td); [ring | rewrite Hd; ring]. }
    split; [now apply feqb_false|].
    assert (Hq : finv F (ta - (y * y) * td) * (1 - y * y) = x * x).
    { rewrite <- Hx. field. exact Hden. }
    rewrite Hq.
    destruct (sqrt (x * x)) as [r|] eqn:E.
    - exists r. split; auto. apply sqr_roots. now apply sqrt_some.
    - exfalso. exact (sqrt_none _ E x eq_refl).
  Qed.

  Theorem te_roundtrip : forall P compress validate rest,
    te_on_curve F ta td P = true ->
    (validate = true -> te_in_subgroup P = true) ->
    exists bs, te_enc F C cmp P compress = Ok bs /\
      te_dec F C sqrt cmp ta td te_in_subgroup (bs ++ rest) compress validate = Ok (P, rest).
  Proof.
    intros [x y] compress validate rest Hoc Hsub.
    assert (Hchk : validate = true -> te_check F ta td te_in_subgroup (mkTE x y) = Ok tt).
    { intros Hv. unfold te_check. rewrite Hoc, (Hsub Hv). reflexivity. }
    unfold te_enc, te_dec, te_from_x. cbn [tx ty].
    destruct compress.
    - set (fl := if fle cmp x (- x) then XIsPositive else XIsNegative).
      destruct (ok_enc _ _ COK TEFlags y fl HTE I) as (b & Hb & _).
      exists b. split; auto.
      rewrite (ok_roundtrip _ _ COK TEFlags y fl b rest HTE I Hb). cbn [bind fst snd].
      destruct (te_get_xs_on_curve x y Hoc) as (Hden & r & Hr & Hrx).
      unfold te_get_xs. rewrite Hden, Hr.
      subst fl. destruct (fle cmp x (- x)) eqn:Hle.
      + pose proof (sort2_le_pos x r Hrx Hle) as Hs.
        destruct (fle cmp r (- r)); cbn [bind]; rewrite Hs;
          (destruct validate; [rewrite (Hchk eq_refl)|]; reflexivity).
      + pose proof (sort2_le_neg x r Hrx Hle) as Hs.
        destruct (fle cmp r (- r)); cbn [bind]; rewrite Hs;
          (destruct validate; [rewrite (Hchk eq_refl)|]; reflexivity).
    - destruct (plain_enc C _ COK x I) as (b0 & Hb0 & _).
      destruct (plain_enc C _ COK y I) as (b1 & Hb1 & _).
      exists (b0 ++ b1). rewrite Hb0, Hb1. split; [reflexivity|].
      rewrite <- app_assoc, (plain_roundtrip C _ COK x b0 (b1 ++ rest) I Hb0). cbn [bind fst snd].
      rewrite (plain_roundtrip C _ COK y b1 rest I Hb1). cbn [bind fst snd].
      destruct validate; [rewrite (Hchk eq_refl)|]; reflexivity.
  Qed.

  Theorem tep_roundtrip : forall P compress validate rest,
    te_on_curve F ta td (te_to_affine F P) = true ->
    (validate = true -> te_in_subgroup (te_to_affine F P) = true) ->
    exists bs, tep_enc F C cmp P compress = Ok bs /\
      Z.of_nat (length bs) = te_size C compress /\
      tep_dec F C sqrt cmp ta td te_in_subgroup (bs ++ rest) compress validate
        = Ok (te_of_affine F (te_to_affine F P), rest).
  Proof.
    intros P compress validate rest HP Hsub.
    destruct (te_roundtrip _ compress validate rest HP Hsub) as (bs & He & Hd).
    exists bs. unfold tep_enc, tep_dec. rewrite Hd. repeat split; auto.
    eapply te_size_thm; eauto.
  Qed.
End PointProofs.

(* the same theorems with the section hypotheses bundled (Specs.point_hyps) *)
Section Bundled.
  Context {K : Type} (F : Fops K) (C : Codec K) (sqrt : K -> option K) (cmp : K -> K -> comparison).
  Hypothesis H : point_hyps F C sqrt cmp.

  Lemma sw_roundtrip_b : forall (ca cb : K) (sw_in_subgroup : swaff -> bool) P compress validate rest,
    sw_valid_pt F ca cb P ->
    (validate = true -> sinf P = false -> sw_in_subgroup P = true) ->
    exists bs, sw_enc F C cmp P compress = Ok bs /\
      Z.of_nat (length bs) = sw_size C compress /\
      sw_dec F C sqrt cmp ca cb sw_in_subgroup (bs ++ rest) compress validate = Ok (P, rest).
  Proof.
    destruct H as (H1 & H2 & H3 & H4 & H5 & H6 & H7). intros ca cb sub P c v rest HP Hs.
    destruct (sw_roundtrip F C sqrt cmp H1 H2 H3 H4 H5 H6 H7 ca cb sub P c v rest HP Hs) as (bs & He & Hd).
    exists bs. repeat split; auto. eapply sw_size_thm; eauto.
  Qed.
  Lemma swj_roundtrip_b : forall (ca cb : K) (sw_in_subgroup : swaff -> bool) P compress validate rest,
    sw_valid_pt F ca cb (sw_to_affine F P) ->
    (validate = true -> sinf (sw_to_affine F P) = false -> sw_in_subgroup (sw_to_affine F P) = true) ->
    exists bs, swj_enc F C cmp P compress = Ok bs /\
      Z.of_nat (length bs) = sw_size C compress /\
      swj_dec F C sqrt cmp ca cb sw_in_subgroup (bs ++ rest) compress validate
        = Ok (sw_of_affine F (sw_to_affine F P), rest).
  Proof.
    destruct H as (H1 & H2 & H3 & H4 & H5 & H6 & H7).
    exact (swj_roundtrip F C sqrt cmp H1 H2 H3 H4 H5 H6 H7).
  Qed.
  Lemma te_roundtrip_b : forall (ta td : K) (te_in_subgroup : teaff -> bool), ta <> td ->
    forall P compress validate rest,
    te_on_curve F ta td P = true ->
    (validate = true -> te_in_subgroup P = true) ->
    exists bs, te_enc F C cmp P compress = Ok bs /\
      Z.of_nat (length bs) = te_size C compress /\
      te_dec F C sqrt cmp ta td te_in_subgroup (bs ++ rest) compress validate = Ok (P, rest).
  Proof.
    destruct H as (H1 & H2 & H3 & H4 & H5 & H6 & H7). intros ta td sub Had P c v rest HP Hs.
    destruct (te_roundtrip F C sqrt cmp H1 H2 H3 H4 H5 H6 H7 ta td sub Had P c v rest HP Hs) as (bs & He & Hd).
    exists bs. repeat split; auto. eapply te_size_thm; eauto.
  Qed.
  Lemma tep_roundtrip_b : forall (ta td : K) (te_in_subgroup : teaff -> bool), ta <> td ->
    forall P compress validate rest,
    te_on_curve F ta td (te_to_affine F P) = true ->
    (validate = true -> te_in_subgroup (te_to_affine F P) = true) ->
    exists bs, tep_enc F C cmp P compress = Ok bs /\
      Z.of_nat (length bs) = te_size C compress /\
      tep_dec F C sqrt cmp ta td te_in_subgroup (bs ++ rest) compress validate
        = Ok (te_of_affine F (te_to_affine F P), rest).
  Proof.
    destruct H as (H1 & H2 & H3 & H4 & H5 & H6 & H7).
    exact (tep_roundtrip F C sqrt cmp H1 H2 H3 H4 H5 H6 H7).
  Qed.
End Bundled.
