(* Uniform case interpreter for C09.
   Field cases (ops 1-4):
     a[0] = [cfg_id; N; flag_type; flag_code | compress; validate]
     a[1] = [p]            prime modulus
     a[2] = [tower]        1 = Fp, 2 = Fp2 (quadratic), 3 = Fp3 (cubic), 6 = Fp6 = cubic over Fp2,
                           12 = Fp12 = quadratic over Fp6, 4 = Fp4 = quadratic over Fp2,
                           32 = Fp6 = quadratic over Fp3
     a[3] = base-prime-field coordinates of the element  |  the bytes to decode
   Point cases (ops 5-8):
     a[0] = [curve_id; N; compress; validate; projective]
     a[1] = [p; deg]   a[2] = [nr] (deg 2: Fp[u]/(u^2 - nr))   a[3] = COEFF_A   a[4] = COEFF_B | COEFF_D
     a[5] = [r]        order of the prime-order subgroup
     a[6..] operands.
   flag_type 0 = EmptyFlags, 1 = SWFlags (0 positive, 1 infinity, 2 negative), 2 = TEFlags (0, 1).
   Ordering cases (op 9, f_cmp): a[0..2] as for field cases, a[3] = x, a[4] = y; result
     [Ord::cmp x y]; [PartialOrd::partial_cmp x y]; [x < y; x <= y; x > y; x >= y]   (0 Less, 1 Equal, 2 Greater)
     all derived from the one comparison the codecs take as parameter (Exec.quad_cmp / cubic_cmp).
   Point cases: deg = 3 is Fp[u]/(u^3 - nr).
   Every op that serialises returns the bytes AND the advertised size (c_size / c_sizep / sw_size / te_size);
   the decode ops 3, 4 return [value; (flag;) consumed; re-encoding] from run_field (format shared with C10) and
   run_C09 appends [advertised size] (run_field_sz).
   Errors: [1; kind] with kind as in Bytes.v. *)
From V Require Import Base.Field C09.Bytes C09.FpCodec C09.PointCodec C09.Exec.

Definition ok (r : list (list Z)) : list (list Z) := [0] :: r.
Definition err (k : Z) : list (list Z) := [[1; k]].
Definition panic : list (list Z) := [[2]].
Definition unsupported : list (list Z) := [[9]].
Definition arg (n : nat) (a : list (list Z)) : list Z := nth n a [].
Definition argz (n k : nat) (a : list (list Z)) : Z := nth k (arg n a) 0.
Definition zlen {A} (l : list A) : Z := Z.of_nat (length l).

(* a field type together with its codec and its coordinate view *)
Record Tower : Type := mkTower {
  tw_T : Type;
  tw_codec : Codec tw_T;
  tw_of : list Z -> tw_T;
  tw_to : tw_T -> list Z;
  tw_deg : nat;
  tw_cmp : tw_T -> tw_T -> comparison
}.
Definition tower_fp (N : nat) (p : Z) : Tower :=
  mkTower Z (fp_codec N p) (fun l => hd 0 l) (fun v => [v]) 1 Z.compare.
Definition tower_quad (B : Tower) : Tower :=
  mkTower (tw_T B * tw_T B) (quad_codec (tw_codec B))
          (fun l => (tw_of B l, tw_of B (skipn (tw_deg B) l)))
          (fun x => tw_to B (fst x) ++ tw_to B (snd x)) (2 * tw_deg B) (quad_cmp (tw_cmp B)).
Definition tower_cubic (B : Tower) : Tower :=
  mkTower (tw_T B * tw_T B * tw_T B) (cubic_codec (tw_codec B))
          (fun l => (tw_of B l, tw_of B (skipn (tw_deg B) l), tw_of B (skipn (2 * tw_deg B) l)))
          (fun x => tw_to B (fst (fst x)) ++ tw_to B (snd (fst x)) ++ tw_to B (snd x)) (3 * tw_deg B)
          (cubic_cmp (tw_cmp B)).

Definition sw_code (f : swflag) : Z := match f with YIsPositive => 0 | PointAtInfinity => 1 | YIsNegative => 2 end.
Definition sw_of_code (c : Z) : swflag := match c with 1 => PointAtInfinity | 2 => YIsNegative | _ => YIsPositive end.
Definition te_code (f : teflag) : Z := match f with XIsPositive => 0 | XIsNegative => 1 end.
Definition te_of_code (c : Z) : teflag := match c with 1 => XIsNegative | _ => XIsPositive end.

Definition out_res {A} (r : res A) (f : A -> list (list Z)) : list (list Z) :=
  match r with Ok a => ok (f a) | Err e => err e | Panic => panic end.
Definition bytes_of {A} (r : res A) (f : A -> list Z) : list Z :=
  match r with Ok a => f a | _ => [] end.

Section RunField.
  Variable W : Tower.
  Let C := tw_codec W.

  Definition ser_flags (FT : FlagTy) (f : ft_T FT) (x : tw_T W) : list (list Z) :=
    out_res (c_enc C FT x f) (fun bs => [bs; [c_size C FT]]).
  Definition de_flags (FT : FlagTy) (code : ft_T FT -> Z) (bs : list Z) : list (list Z) :=
    out_res (c_dec C FT bs) (fun r =>
      let x := fst (fst r) in let f := snd (fst r) in
      [tw_to W x; [code f]; [zlen bs - zlen (snd r)]; bytes_of (c_enc C FT x f) (fun b => b)]).

  Definition run_field (op : Z) (a : list (list Z)) : list (list Z) :=
    let ft := argz 0 2 a in
    let fc := argz 0 3 a in
    let payload := arg 3 a in
    match op with
    | 1 => match ft with
           | 0 => ser_flags EmptyFlags tt (tw_of W payload)
           | 1 => ser_flags SWFlags (sw_of_code fc) (tw_of W payload)
           | 2 => ser_flags TEFlags (te_of_code fc) (tw_of W payload)
           | _ => unsupported
           end
    | 2 => out_res (c_encp C (tw_of W payload)) (fun bs => [bs; [c_sizep C]])
    | 3 => match ft with
           | 0 => de_flags EmptyFlags (fun _ => 0) payload
           | 1 => de_flags SWFlags sw_code payload
           | 2 => de_flags TEFlags te_code payload
           | _ => unsupported
           end
    | 4 => out_res (c_decp C payload) (fun r =>
             [tw_to W (fst r); [zlen payload - zlen (snd r)]; bytes_of (c_encp C (fst r)) (fun b => b)])
    | 9 => let c := tw_cmp W (tw_of W payload) (tw_of W (arg 4 a)) in
           let code := match c with Lt => 0 | Eq => 1 | Gt => 2 end in
           let lt := match c with Lt => 1 | _ => 0 end in
           let le := match c with Gt => 0 | _ => 1 end in
           ok [[code]; [code]; [lt; le; 1 - le; 1 - lt]]
    | _ => unsupported
    end.

  (* run_field plus, for the decode ops 3 / 4 (which re-serialise the decoded value), the size advertised for it
     by serialized_size_with_flags / serialized_size, appended to a successful result.  Kept out of run_field:
     package C10 reuses run_field's op 4 output format verbatim. *)
  Definition run_field_sz (op : Z) (a : list (list Z)) : list (list Z) :=
    let r := run_field op a in
    match r with
    | [0] :: _ =>
      match op with
      | 3 => match argz 0 2 a with
             | 0 => r ++ [[c_size C EmptyFlags]]
             | 1 => r ++ [[c_size C SWFlags]]
             | 2 => r ++ [[c_size C TEFlags]]
             | _ => r
             end
      | 4 => r ++ [[c_sizep C]]
      | _ => r
      end
    | _ => r
    end.
End RunField.

Definition tower_of (N : nat) (p : Z) (t : Z) : option Tower :=
  let fp := tower_fp N p in
  match t with
  | 1 => Some fp
  | 2 => Some (tower_quad fp)
  | 3 => Some (tower_cubic fp)
  | 4 => Some (tower_quad (tower_quad fp))
  | 6 => Some (tower_cubic (tower_quad fp))
  | 12 => Some (tower_quad (tower_cubic (tower_quad fp)))
  | 32 => Some (tower_quad (tower_cubic fp))
  | _ => None
  end.

Section RunPoint.
  Context {T : Type} (F : Fops T) (W : Tower) (inj : T -> tw_T W) (prj : tw_T W -> T).
  Variable cmp : T -> T -> comparison.
  (* the codec of the base field, transported to the arithmetic carrier *)
  Definition codecT : Codec T :=
    let C := tw_codec W in
    {| c_enc := fun FT x f => c_enc C FT (inj x) f;
       c_dec := fun FT bs => bind (c_dec C FT bs) (fun r => Ok (prj (fst (fst r)), snd (fst r), snd r));
       c_size := c_size C;
       c_encp := fun x => c_encp C (inj x);
       c_decp := fun bs => bind (c_decp C bs) (fun r => Ok (prj (fst r), snd r));
       c_sizep := c_sizep C |}.

  Definition el (l : list Z) : T := fof F (l ++ repeat 0 (fdeg F)).

  Definition run_point (op : Z) (a : list (list Z)) : list (list Z) :=
    let compress := negb (argz 0 2 a =? 0) in
    let validate := negb (argz 0 3 a =? 0) in
    let proj := negb (argz 0 4 a =? 0) in
    let ca := el (arg 3 a) in
    let cb := el (arg 4 a) in
    let r := argz 5 0 a in
    match find_nonresidue F 400 1 with
    | None => panic
    | Some z =>
      let sqrt := fsqrt F z in
      let C := codecT in
      let sw_sub := fun P : swaff => sw_order_divides F ca r (sx P) (sy P) in
      let te_sub := fun P : teaff => te_order_divides F ca cb r (tx P) (ty P) in
      let co := fcoords F in
      match op with
      | 5 => if proj
             then out_res (swj_enc F C cmp (mkSWJ (el (arg 6 a)) (el (arg 7 a)) (el (arg 8 a))) compress)
                          (fun bs => [bs; [sw_size C compress]])
             else out_res (sw_enc F C cmp (mkSW (el (arg 6 a)) (el (arg 7 a)) (negb (argz 8 0 a =? 0))) compress)
                          (fun bs => [bs; [sw_size C compress]])
      | 6 => let bs := arg 6 a in
             if proj
             then out_res (swj_dec F C sqrt cmp ca cb sw_sub bs compress validate)
                    (fun q => let P := fst q in [co (jx P); co (jy P); co (jz P); [zlen bs - zlen (snd q)]])
             else out_res (sw_dec F C sqrt cmp ca cb sw_sub bs compress validate)
                    (fun q => let P := fst q in [co (sx P); co (sy P); [Z.b2z (sinf P)]; [zlen bs - zlen (snd q)]])
      | 7 => if proj
             then out_res (tep_enc F C cmp (mkTEP (el (arg 6 a)) (el (arg 7 a)) (el (arg 8 a)) (el (arg 9 a))) compress)
                          (fun bs => [bs; [te_size C compress]])
             else out_res (te_enc F C cmp (mkTE (el (arg 6 a)) (el (arg 7 a))) compress)
                          (fun bs => [bs; [te_size C compress]])
      | 8 => let bs := arg 6 a in
             if proj
             then out_res (tep_dec F C sqrt cmp ca cb te_sub bs compress validate)
                    (fun q => let P := fst q in [co (ex P); co (ey P); co (et P); co (ez P); [zlen bs - zlen (snd q)]])
             else out_res (te_dec F C sqrt cmp ca cb te_sub bs compress validate)
                    (fun q => let P := fst q in [co (tx P); co (ty P); [zlen bs - zlen (snd q)]])
      | _ => unsupported
      end
    end.
End RunPoint.

Definition run_C09 (op : Z) (a : list (list Z)) : list (list Z) :=
  let N := Z.to_nat (argz 0 1 a) in
  let p := argz 1 0 a in
  if (op <=? 4) || (op =? 9) then
    match tower_of N p (argz 2 0 a) with
    | Some W => run_field_sz W op a
    | None => unsupported
    end
  else
    match argz 1 1 a with
    | 1 => run_point (ZpOps p) (tower_fp N p) (fun x => x) (fun x => x) Z.compare op a
    | 2 => run_point (QuadOps (ZpOps p) (argz 2 0 a mod p)) (tower_quad (tower_fp N p))
                     (fun x => x) (fun x => x) (quad_cmp Z.compare) op a
    | 3 => run_point (CubicOps (ZpOps p) (argz 2 0 a mod p)) (tower_cubic (tower_fp N p))
                     (fun x => x) (fun x => x) (cubic_cmp Z.compare) op a
    | _ => unsupported
    end.
