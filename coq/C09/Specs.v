(* C09: specification-side definitions shared by the proof files (definitions only). *)
From V Require Import C09.Bytes C09.FpCodec.

(* The contract of `trait Flags` (serialize/src/flags.rs doc comments): the mask only has
   bits among the BIT_SIZE most significant ones of the byte; from_u8 looks only at those
   bits and recognises exactly the masks. *)
Definition FlagOK (FT : FlagTy) : Prop :=
  0 <= ft_bits FT <= 8 /\
  (forall f, 0 <= ft_mask FT f < 256 /\ ft_mask FT f mod 2 ^ (8 - ft_bits FT) = 0) /\
  (forall low f, 0 <= low < 2 ^ (8 - ft_bits FT) -> ft_from_u8 FT (low + ft_mask FT f) = Some f) /\
  (forall b f, 0 <= b < 256 -> ft_from_u8 FT b = Some f ->
     b / 2 ^ (8 - ft_bits FT) * 2 ^ (8 - ft_bits FT) = ft_mask FT f).

(* Fp<P, N>: N is the limb count of the modulus (what the MontConfig derive picks) *)
Definition fp_cfg_ok (N : nat) (p : Z) : Prop :=
  1 < p /\ 64 * (Z.of_nat N - 1) < nbits p <= 64 * Z.of_nat N.

(* What C09 claims of a field codec; `valid` = the representation invariant of the type *)
Record CodecOK {K : Type} (C : Codec K) (valid : K -> Prop) : Prop := mkCodecOK {
  (* size: the encoder succeeds and writes exactly the advertised number of bytes *)
  ok_enc : forall FT v f, FlagOK FT -> valid v ->
    exists bs, c_enc C FT v f = Ok bs /\ Z.of_nat (length bs) = c_size C FT /\ bytes_ok bs;
  (* round trip, with the reader left exactly after the encoding *)
  ok_roundtrip : forall FT v f bs rest, FlagOK FT -> valid v ->
    c_enc C FT v f = Ok bs -> c_dec C FT (bs ++ rest) = Ok (v, f, rest);
  (* no over-read: success consumes exactly the advertised size *)
  ok_consume : forall FT bs v f rest, FlagOK FT -> c_dec C FT bs = Ok (v, f, rest) ->
    exists pre, bs = pre ++ rest /\ Z.of_nat (length pre) = c_size C FT;
  (* uniqueness: whatever decodes re-encodes to the very bytes that were consumed *)
  ok_unique : forall FT bs v f rest, FlagOK FT -> bytes_ok bs -> c_dec C FT bs = Ok (v, f, rest) ->
    valid v /\ exists pre, bs = pre ++ rest /\ c_enc C FT v f = Ok pre;
  (* short input is an error, never a value, never a panic *)
  ok_short : forall FT bs, FlagOK FT -> Z.of_nat (length bs) < c_size C FT ->
    exists e, c_dec C FT bs = Err e;
  ok_nopanic : forall FT bs, FlagOK FT -> c_dec C FT bs <> Panic;
  (* the flag-less entry points are the EmptyFlags ones *)
  ok_encp : forall v, c_encp C v = c_enc C EmptyFlags v tt;
  ok_decp : forall bs, c_decp C bs = drop_flag (c_dec C EmptyFlags bs);
  ok_sizep : c_sizep C = c_size C EmptyFlags
}.

Definition quad_valid {K} (valid : K -> Prop) : K * K -> Prop :=
  fun x => valid (fst x) /\ valid (snd x).
Definition cubic_valid {K} (valid : K -> Prop) : K * K * K -> Prop :=
  fun x => valid (fst (fst x)) /\ valid (snd (fst x)) /\ valid (snd x).

(* What the point theorems assume of the base field (mathematics, not code): it is a field
   with Leibniz equality decided by `feqb`; `sqrt` returns a square root whenever one exists;
   `cmp` is compatible with equality and antisymmetric; every element of the carrier is a
   legal value of the codec. *)
From Coq Require Import Field_theory.
From V Require Import Base.Field.
Definition point_hyps {K : Type} (F : Fops K) (C : Codec K)
           (sqrt : K -> option K) (cmp : K -> K -> comparison) : Prop :=
  field_theory (f0 F) (f1 F) (fadd F) (fmul F) (fsub F) (fneg F)
               (fun a b => fmul F a (finv F b)) (finv F) eq /\
  (forall a b, feqb F a b = true <-> a = b) /\
  (forall a r, sqrt a = Some r -> fmul F r r = a) /\
  (forall a, sqrt a = None -> forall y, fmul F y y <> a) /\
  (forall a b, cmp a b = Eq <-> a = b) /\
  (forall a b, cmp a b = CompOpp (cmp b a)) /\
  CodecOK C (fun _ => True).
