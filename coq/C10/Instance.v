(* C10: concrete executions used as Examples in Props/C10.v (toy curves; kernel computation).
   SW100: y^2 = x^3 + x + 17 over F_59 (58 points, r = 29, cofactor 2), G = (46, 7).
   ZCash-shaped toy: y^2 = x^3 + 7 over F_13 (7 points), one byte per coordinate. *)
From V Require Import Base.Field C09.Bytes C09.FpCodec C09.PointCodec C09.Specs C09.Exec C10.Model C10.Proofs.

Definition F59 := ZpOps 59.
Definition C59 := fp_codec 1 59.
Definition sq59 := fsqrt F59 2.
Definition dec59 := sw_dec10 F59 C59 sq59 Z.compare 1 17 [2] 29.

Lemma ex_cfg59 : fp_cfg_ok 1 59 /\ [2] <> @nil Z.
Proof. split; [unfold fp_cfg_ok; vm_compute; intuition congruence | congruence]. Qed.

Lemma ex_sw_modes :
  (* valid encoding of G, compressed and uncompressed, checked; trailing byte left unread *)
  dec59 [46; 99] true true = Ok (mkSW 46 7 false, [99]) /\
  dec59 [46; 7; 99] false true = Ok (mkSW 46 7 false, [99]) /\
  (* identity *)
  dec59 [64] true true = Ok (sw_identity F59, []) /\
  (* on the curve, outside the subgroup: rejected iff validating *)
  dec59 [2; 26] false true = Err E_InvalidData /\
  dec59 [2; 26] false false = Ok (mkSW 2 26 false, []) /\
  sw_on_curve F59 1 17 (mkSW 2 26 false) = true /\
  sw_subgroup10 F59 1 [2] 29 (mkSW 2 26 false) = Ok false /\
  (* off the curve *)
  dec59 [46; 8] false true = Err E_InvalidData /\
  sw_on_curve F59 1 17 (mkSW 46 8 false) = false /\
  (* x = 3 has no root *)
  dec59 [3] true false = Err E_InvalidData /\ sq59 (sw_rhs F59 1 17 3) = None /\
  (* both flags; integer >= p; truncation *)
  dec59 [46 + 192] true true = Err E_UnexpectedFlags /\
  dec59 [59] true true = Err E_InvalidData /\
  dec59 [] true true = Err E_Io /\ dec59 [46] false true = Err E_Io.
Proof. vm_compute. repeat split; reflexivity. Qed.

Lemma ex_stage1 :
  sw_stage1 F59 C59 sq59 Z.compare 1 17 [2; 26] false = Ok (2, 26, YIsPositive, []) /\
  sw_stage1 F59 C59 sq59 Z.compare 1 17 [46; 8] false = Ok (46, 8, YIsPositive, []) /\
  c_dec C59 SWFlags [3] = Ok (3, YIsPositive, []).
Proof. vm_compute. repeat split; reflexivity. Qed.

(* twisted Edwards toy: x^2 + y^2 = 1 + 10 x^2 y^2 over F_127, r = 31, cofactor 4, G = (65, 90) *)
Definition F127 := ZpOps 127.
Definition C127 := fp_codec 1 127.
Definition sq127 := fsqrt F127 3.
Definition tdec127 := te_dec10 F127 C127 sq127 Z.compare 31 1 10.
Lemma ex_te_modes :
  tdec127 [65; 90] false true = Ok (mkTE 65 90, []) /\
  tdec127 [90 + 128; 5] true true = Ok (mkTE 65 90, [5]) /\
  (* the point of order 2 is on the curve and outside the subgroup *)
  tdec127 [0; 126] false true = Err E_InvalidData /\
  tdec127 [0; 126] false false = Ok (mkTE 0 126, []) /\
  te_stage1 F127 C127 sq127 Z.compare 1 10 [0; 126] false = Ok (0, 126, []) /\
  te_on_curve F127 1 10 (mkTE 0 126) && te_subgroup10 F127 31 1 10 (mkTE 0 126) = false /\
  tdec127 [65] false true = Err E_Io.
Proof. vm_compute. repeat split; reflexivity. Qed.

(* PairingOutput shape on a toy field: F_59^*, r = 29 *)
Lemma ex_po :
  po_dec F59 C59 29 [3; 9] true = Ok (3, [9]) /\ fpow F59 3 29 = 1 /\
  po_dec F59 C59 29 [2] true = Err E_InvalidData /\ po_dec F59 C59 29 [2] false = Ok (2, []) /\
  c_decp C59 [2] = Ok (2, []) /\ feqb F59 (fpow F59 2 29) (f1 F59) = false /\
  po_dec F59 C59 29 [] true = Err E_Io.
Proof. vm_compute. repeat split; reflexivity. Qed.

(* ZCash-shaped toy instance *)
Definition F13 := ZpOps 13.
Definition zdec13 := zc_dec F13 (fsqrt F13 2) Z.compare 7 13 1 1 7.
Lemma ex_zc :
  zdec13 [128 + 32 + 7; 200] true true = Ok (mkSW 7 8 false, [200]) /\
  zdec13 [7; 8] false true = Ok (mkSW 7 8 false, []) /\
  zdec13 [128 + 64] true true = Ok (sw_identity F13, []) /\
  zdec13 [128 + 64 + 1] true true = Err E_InvalidData /\           (* infinity must be all-zero *)
  zdec13 [7] true true = Err E_UnexpectedFlags /\                  (* compression flag missing *)
  zdec13 [32 + 7; 8] false true = Err E_InvalidData /\             (* sort flag without compression *)
  zdec13 [128 + 13] true true = Err E_InvalidData /\               (* integer >= p *)
  zdec13 [] true true = Err E_InvalidData /\ zdec13 [7] false true = Err E_InvalidData.
Proof. vm_compute. repeat split; reflexivity. Qed.

(* the shape of DEFECT-1: (s^2 x, s^3 y) for s = 2 and (x, y) = (7, 8) passes the subgroup test
   but is not on the curve; the corrected decoder rejects it, the unchecked one returns it *)
Lemma ex_zc_defect1_shape :
  zc_subgroup F13 7 (mkSW 2 12 false) = true /\
  sw_on_curve F13 0 7 (mkSW 2 12 false) = false /\
  zc_read_uncompressed F13 13 1 1 [2; 12] = Ok (mkSW 2 12 false, []) /\
  zdec13 [2; 12] false true = Err E_InvalidData /\
  zdec13 [2; 12] false false = Ok (mkSW 2 12 false, []).
Proof. vm_compute. repeat split; reflexivity. Qed.

Lemma ex_batch :
  let ck := sw_check10 F59 1 17 [2] 29 in
  batch_check ck [mkSW 46 7 false; sw_identity F59; mkSW 46 52 false] = Ok tt /\
  batch_check ck [mkSW 46 7 false; mkSW 2 26 false; mkSW 46 8 false] = Err E_InvalidData /\
  cofactor_is_one [] = Panic /\ cofactor_is_one [1; 0] = Ok true /\ cofactor_is_one [2] = Ok false.
Proof. vm_compute. repeat split; reflexivity. Qed.

(* toy target field of the shape of CP6-782 / BW6 / MNT6:  F_7^6 = F_343[v]/(v^2 - u),  F_343 = F_7[u]/(u^3 - 3);
   r = 43 = 7^2 - 7 + 1;  g of order 43;  x of order 19 in the subfield F_343 (19 | 7^3 - 1) *)
Definition F7c := CubicOps (ZpOps 7) 3.
Definition F7s : Fops (Z * Z * Z * (Z * Z * Z)) := QuadOps F7c (0, 1, 0).
Definition C7s := quad_codec (cubic_codec (fp_codec 1 7)).
Lemma ex_po_2over3 :
  let g := ((6, 3, 6), (5, 6, 0)) in let x := ((1, 3, 1), (0, 0, 0)) in
  po_check F7s 43 g = Ok tt /\ fpow F7s g 43 = f1 F7s /\
  po_check F7s 43 x = Err E_InvalidData /\ fpow F7s x 19 = f1 F7s /\ fpow F7s x 43 = ((1, 6, 6), (0, 0, 0)) /\
  po_check F7s 43 (fmul F7s g x) = Err E_InvalidData /\
  po_check F7s 43 (f1 F7s) = Ok tt /\ po_check F7s 43 (fneg F7s (f1 F7s)) = Err E_InvalidData /\
  po_check F7s 43 (f0 F7s) = Err E_InvalidData /\
  po_dec F7s C7s 43 [6; 3; 6; 5; 6; 0; 77] true = Ok (g, [77]) /\
  po_dec F7s C7s 43 [1; 3; 1; 0; 0; 0] true = Err E_InvalidData /\
  po_dec F7s C7s 43 [1; 3; 1; 0; 0; 0] false = Ok (x, []) /\
  po_dec F7s C7s 43 [6; 4; 0; 2; 0; 2] true = Err E_InvalidData /\
  po_dec F7s C7s 43 [6; 3; 6; 5; 6] true = Err E_Io.
Proof. vm_compute. repeat split; reflexivity. Qed.
