(* C10 model: checked deserialization.  Builds on the codecs of package C09 (imported,
   not modified): C09.FpCodec (Fp / extension codecs), C09.PointCodec (sw_dec / te_dec:
   the checked/unchecked x compressed/uncompressed matrix of deserialize_with_mode,
   is_on_curve, Valid::check).  This file adds what C10 speaks about:
     - the places where the Rust code can panic, as explicit `Panic` results
       (`flags.is_positive().unwrap()`, `COFACTOR[0]`, `bytes[0]`, slice ranges);
     - the default subgroup test (cofactor-one shortcut, r * P = O by double-and-add);
     - Valid::check / batch_check for affine and projective points;
     - PairingOutput deserialization (x^r = 1);
     - the ZCash-style override of curves/bls12_381 (util.rs, g1.rs, g2.rs).
   No proofs in this file. *)
From V Require Import Base.Field C09.Bytes C09.FpCodec C09.PointCodec.

(* ---------- scalar multiplication: double-and-add over any binary law ---------- *)
Section Smul.
  Context {G : Type} (add : G -> G -> G).
  Fixpoint gmul_pos (n : positive) (P : G) : G :=
    match n with
    | xH => P
    | xO n' => let h := gmul_pos n' P in add h h
    | xI n' => let h := gmul_pos n' P in add (add h h) P
    end.
  Definition gmul (zero : G) (n : Z) (P : G) : G :=
    match n with Zpos n' => gmul_pos n' P | _ => zero end.
End Smul.

(* ---------- the affine laws (specification level; formulas are property C03's) ---------- *)
Section Laws.
  Context {T : Type} (F : Fops T).
  (* short Weierstrass, a point is None (infinity) or Some (x, y) *)
  Definition swa_add (ca : T) (P Q : option (T * T)) : option (T * T) :=
    match P, Q with
    | None, _ => Q
    | _, None => P
    | Some (x1, y1), Some (x2, y2) =>
      if feqb F x1 x2 then
        if feqb F y1 y2 && negb (fis0 F y1) then
          let l := fdiv F (fadd F (fmul F (fofZ F 3) (fmul F x1 x1)) ca) (fadd F y1 y1) in
          let x3 := fsub F (fmul F l l) (fadd F x1 x1) in
          Some (x3, fsub F (fmul F l (fsub F x1 x3)) y1)
        else None
      else
        let l := fdiv F (fsub F y2 y1) (fsub F x2 x1) in
        let x3 := fsub F (fsub F (fmul F l l) x1) x2 in
        Some (x3, fsub F (fmul F l (fsub F x1 x3)) y1)
    end.
  Definition tea_add (a d : T) (P Q : T * T) : T * T :=
    let '(x1, y1) := P in let '(x2, y2) := Q in
    let k := fmul F d (fmul F (fmul F x1 x2) (fmul F y1 y2)) in
    (fdiv F (fadd F (fmul F x1 y2) (fmul F y1 x2)) (fadd F (f1 F) k),
     fdiv F (fsub F (fmul F y1 y2) (fmul F a (fmul F x1 x2))) (fsub F (f1 F) k)).

  (* r * P = O *)
  Definition sw_rP_is_O (ca : T) (r : Z) (x y : T) : bool :=
    match gmul (swa_add ca) None r (Some (x, y)) with None => true | Some _ => false end.
  Definition te_rP_is_O (a d : T) (r : Z) (x y : T) : bool :=
    let '(x', y') := gmul (tea_add a d) (f0 F, f1 F) r (x, y) in
    feqb F x' (f0 F) && feqb F y' (f1 F).
End Laws.

(* ---------- flags ---------- *)
(* SWFlags::is_positive : Option<bool>;  is_infinity *)
Definition sw_is_positive (f : swflag) : option bool :=
  match f with PointAtInfinity => None | YIsPositive => Some true | YIsNegative => Some false end.
Definition sw_is_infinity (f : swflag) : bool :=
  match f with PointAtInfinity => true | _ => false end.
Definition te_is_negative (f : teflag) : bool :=
  match f with XIsNegative => true | XIsPositive => false end.

(* CurveConfig::cofactor_is_one: COFACTOR[0] == 1 && COFACTOR.iter().skip(1).all(is_zero);
   indexing an empty slice panics *)
Definition cofactor_is_one (cof : list Z) : res bool :=
  match cof with
  | [] => Panic
  | c0 :: t => Ok ((c0 =? 1) && forallb (fun c => c =? 0) t)
  end.

Section Checked.
  Context {K : Type} (F : Fops K) (C : Codec K).
  Variable sqrt : K -> option K.
  Variable cmp : K -> K -> comparison.

  (* ================= short Weierstrass ================= *)
  Variables (ca cb : K).
  Variable cof : list Z.          (* COFACTOR limbs *)
  Variable r : Z.                 (* ScalarField::characteristic() *)

  (* SWCurveConfig::is_in_correct_subgroup_assuming_on_curve, default body *)
  Definition sw_subgroup10 (P : @swaff K) : res bool :=
    bind (cofactor_is_one cof) (fun one =>
    if one then Ok true
    else Ok (if sinf P then true else sw_rP_is_O F ca r (sx P) (sy P))).

  (* Valid::check: `is_on_curve() && is_in_correct_subgroup_assuming_on_curve()` (short-circuit) *)
  Definition sw_check10 (P : @swaff K) : res unit :=
    if sw_on_curve F ca cb P then
      bind (sw_subgroup10 P) (fun ok => if ok then Ok tt else Err E_InvalidData)
    else Err E_InvalidData.

  (* SWCurveConfig::deserialize_with_mode *)
  Definition sw_dec10 (bs : list Z) (compress validate : bool) : res (@swaff K * list Z) :=
    bind
      (if compress then
         bind (c_dec C SWFlags bs) (fun q =>
         let x := fst (fst q) in let flags := snd (fst q) in let rest := snd q in
         match flags with
         | PointAtInfinity => Ok (f0 F, f0 F, flags, rest)
         | _ =>
           match sw_is_positive flags with
           | None => Panic                                   (* flags.is_positive().unwrap() *)
           | Some is_positive =>
             match sw_get_ys F sqrt cmp ca cb x with
             | None => Err E_InvalidData
             | Some (y, neg_y) =>
               if is_positive then Ok (x, y, flags, rest) else Ok (x, neg_y, flags, rest)
             end
           end
         end)
       else
         bind (c_decp C bs) (fun r0 =>
         bind (c_dec C SWFlags (snd r0)) (fun r1 =>
         Ok (fst r0, fst (fst r1), snd (fst r1), snd r1))))
      (fun q =>
       let '(x, y, flags, rest) := q in
       if sw_is_infinity flags then Ok (sw_identity F, rest)
       else let point := mkSW x y false in
            if validate then bind (sw_check10 point) (fun _ => Ok (point, rest))
            else Ok (point, rest)).

  (* Projective: through affine, then From<Affine> *)
  Definition swj_dec10 (bs : list Z) (compress validate : bool) : res (@swproj K * list Z) :=
    bind (sw_dec10 bs compress validate) (fun q => Ok (sw_of_affine F (fst q), snd q)).

  (* Valid for Projective: self.into_affine().check() *)
  Definition swj_check10 (P : @swproj K) : res unit := sw_check10 (sw_to_affine F P).

  (* ================= twisted Edwards ================= *)
  Variables (ta td : K).

  (* TECurveConfig::is_in_correct_subgroup_assuming_on_curve (no cofactor shortcut) *)
  Definition te_subgroup10 (P : @teaff K) : bool := te_rP_is_O F ta td r (tx P) (ty P).
  Definition te_check10 (P : @teaff K) : res unit :=
    if te_on_curve F ta td P && te_subgroup10 P then Ok tt else Err E_InvalidData.
  (* deserialize_with_mode: C09's te_dec has no partial operation in it (is_negative is total) *)
  Definition te_dec10 (bs : list Z) (compress validate : bool) : res (@teaff K * list Z) :=
    te_dec F C sqrt cmp ta td te_subgroup10 bs compress validate.
  Definition tep_dec10 (bs : list Z) (compress validate : bool) : res (@teproj K * list Z) :=
    bind (te_dec10 bs compress validate) (fun q => Ok (te_of_affine F (fst q), snd q)).
  Definition tep_check10 (P : @teproj K) : res unit := te_check10 (te_to_affine F P).
End Checked.

(* Valid::batch_check, default body (sequential): the first failing check is returned *)
Fixpoint batch_check {A : Type} (check : A -> res unit) (l : list A) : res unit :=
  match l with
  | [] => Ok tt
  | x :: t => bind (check x) (fun _ => batch_check check t)
  end.
(* Projective::batch_check: normalize_batch (pointwise the affine conversion; the shared
   inversion is an optimisation), then Affine::batch_check *)
Definition batch_check_proj {A B : Type} (to_affine : B -> A) (check : A -> res unit) (l : list B) : res unit :=
  batch_check check (map to_affine l).

(* ================= PairingOutput ================= *)
Section PairingOutput.
  Context {K : Type} (F : Fops K) (C : Codec K).
  Variable r : Z.
  (* Valid::check: self.0.pow(r).is_one() *)
  Definition po_check (x : K) : res unit :=
    if feqb F (fpow F x r) (f1 F) then Ok tt else Err E_InvalidData.
  (* deserialize_with_mode: the target field element, then check() iff validating *)
  Definition po_dec (bs : list Z) (validate : bool) : res (K * list Z) :=
    bind (c_decp C bs) (fun q =>
    if validate then bind (po_check (fst q)) (fun _ => Ok q) else Ok q).
End PairingOutput.

(* ================= curves/bls12_381: ZCash-style encoding ================= *)
(* big-endian integer of a byte string (deserialize_fq assembles the limbs from_be_bytes) *)
Definition be_val (bs : list Z) : Z := le_val (rev bs).

Section ZCash.
  Context {K : Type} (F : Fops K).
  Variable sqrt : K -> option K.
  Variable cmp : K -> K -> comparison.
  Variable cb : K.                (* COEFF_B; COEFF_A = 0 *)
  Variable p : Z.                 (* base prime *)
  Variable nb : nat.              (* G1_SERIALIZED_SIZE = 48: bytes of one Fq *)
  Variable d : nat.               (* coordinates per field element: 1 (G1), 2 (G2) *)
  Variable r : Z.

  (* EncodingFlags::get_flags: (is_compressed, is_infinity, is_lexographically_largest) *)
  Definition zc_get_flags (bytes : list Z) : res (bool * bool * bool) :=
    match bytes with
    | [] => Panic                                                   (* bytes[0] *)
    | b0 :: _ =>
      let c := (b0 / 128) mod 2 =? 1 in
      let i := (b0 / 64) mod 2 =? 1 in
      let s := (b0 / 32) mod 2 =? 1 in
      if s && (negb c || i) then Err E_InvalidData else Ok (c, i, s)
    end.

  (* read_bytes_with_offset: bytes[offset*48 .. 48*(offset+1)], optionally remove_flags *)
  Definition zc_read_off (bytes : list Z) (offset : nat) (mask : bool) : res (list Z) :=
    if (length bytes <? nb * (offset + 1))%nat then Panic else       (* slice range *)
    let tmp := firstn nb (skipn (offset * nb) bytes) in
    if mask then
      match tmp with
      | [] => Panic                                                  (* bytes[0] &= 0x1f *)
      | b :: t => Ok (b mod 32 :: t)
      end
    else Ok tmp.

  (* deserialize_fq: big-endian, from_bigint = None iff >= p *)
  Definition zc_fq (bytes : list Z) : option Z :=
    let v := be_val bytes in if v <? p then Some v else None.

  Fixpoint zc_chunks (bytes : list Z) (k : nat) (n : nat) : res (list (list Z)) :=
    match n with
    | O => Ok []
    | S n' => bind (zc_read_off bytes k (Nat.eqb k 0)) (fun c =>
              bind (zc_chunks bytes (S k) n') (fun t => Ok (c :: t)))
    end.
  Definition all_zero (l : list Z) : bool := forallb (fun b => b =? 0) l.
  Fixpoint zc_fqs (cs : list (list Z)) : option (list Z) :=
    match cs with
    | [] => Some []
    | c :: t => match zc_fq c with
                | None => None
                | Some v => match zc_fqs t with None => None | Some vs => Some (v :: vs) end
                end
    end.
  (* coordinates arrive most significant first (c1 then c0) *)
  Definition zc_el (vs : list Z) : K := fof F (rev vs ++ repeat 0 (fdeg F)).

  (* read_g1_compressed / read_g2_compressed *)
  Definition zc_read_compressed (bs : list Z) : res (@swaff K * list Z) :=
    match read_exact (nb * d) bs with
    | None => Err E_InvalidData                                     (* read_exact error is mapped *)
    | Some (bytes, rest) =>
      bind (zc_get_flags bytes) (fun fl =>
      let '(c, i, s) := fl in
      if negb c then Err E_UnexpectedFlags else
      bind (zc_chunks bytes 0 d) (fun cs =>
      if i then (if forallb all_zero cs then Ok (sw_identity F, rest) else Err E_InvalidData) else
      match zc_fqs cs with
      | None => Err E_InvalidData
      | Some vs =>
        let x := zc_el vs in
        (* get_point_from_x_unchecked(x, greatest) *)
        match sw_get_ys F sqrt cmp (f0 F) cb x with
        | None => Err E_InvalidData
        | Some (smaller, larger) => Ok (mkSW x (if s then larger else smaller) false, rest)
        end
      end))
    end.

  (* read_g1_uncompressed / read_g2_uncompressed: no curve-equation test here *)
  Definition zc_read_uncompressed (bs : list Z) : res (@swaff K * list Z) :=
    match read_exact (nb * (2 * d)) bs with
    | None => Err E_InvalidData
    | Some (bytes, rest) =>
      bind (zc_get_flags bytes) (fun fl =>
      let '(c, i, s) := fl in
      if c then Err E_UnexpectedFlags else
      bind (zc_chunks bytes 0 (2 * d)) (fun cs =>
      if i then (if forallb all_zero cs then Ok (sw_identity F, rest) else Err E_InvalidData) else
      match zc_fqs cs with
      | None => Err E_InvalidData
      | Some vs => Ok (mkSW (zc_el (firstn d vs)) (zc_el (skipn d vs)) false, rest)
      end))
    end.

  (* the subgroup test, specification level: r * P = O with the a = 0 affine law (the shipped
     endomorphism tests are property C12's) *)
  Definition zc_subgroup (P : @swaff K) : bool :=
    if sinf P then true else sw_rP_is_O F (f0 F) r (sx P) (sy P).

  (* g1::Config / g2::Config :: deserialize_with_mode.
     DEFECT-1 (props/C10/NOTES.md): the Rust code runs only the subgroup test here
     (`validate == Yes && !p.is_in_correct_subgroup_assuming_on_curve()`), although the
     uncompressed reader never tested the curve equation; pairs (s^2 x, s^3 y) with (x, y) in the
     subgroup and s in F_p^* pass it without being on the curve.  The model describes the
     correct behaviour, Valid::check = is_on_curve && subgroup test. *)
  Definition zc_dec (bs : list Z) (compress validate : bool) : res (@swaff K * list Z) :=
    bind (if compress then zc_read_compressed bs else zc_read_uncompressed bs) (fun q =>
    if validate && negb (sw_on_curve F (f0 F) cb (fst q) && zc_subgroup (fst q))
    then Err E_InvalidData else Ok q).
  Definition zcj_dec (bs : list Z) (compress validate : bool) : res (@swproj K * list Z) :=
    bind (zc_dec bs compress validate) (fun q => Ok (sw_of_affine F (fst q), snd q)).
  Definition zc_size (compress : bool) : Z :=
    Z.of_nat (if compress then nb * d else nb * (2 * d)).
End ZCash.
