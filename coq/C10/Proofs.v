(* C10 proofs, part 1 (generic encodings): the model with explicit panics never panics and
   equals the panic-free C09 codec; no over-read; what validation guarantees; rejection of
   x without a root, off-curve and out-of-subgroup points; batch_check; PairingOutput.
   Hypotheses: CodecOK of the base-field codec (proved in C09 for Fp and every tower);
   for the curve-equation statements, field_theory / feqb / sqrt specification. *)
From Coq Require Import Field Lia.
From V Require Import Base.Field C09.Bytes C09.FpCodec C09.Specs C09.BytesProofs C09.FpCodecProofs
                      C09.PointCodec C10.Model.

Lemma cofactor_is_one_ok cof : cof <> [] -> exists b, cofactor_is_one cof = Ok b.
Proof. destruct cof; [congruence|]. intros _. eexists. reflexivity. Qed.

(* what a decoder is allowed to do with its input: an error, or a value and the unread rest,
   having consumed exactly `size` bytes; never a panic *)
Definition dec_ok {A} (size : Z) (bs : list Z) (o : res (A * list Z)) : Prop :=
  match o with
  | Ok (_, rest) => exists pre, bs = pre ++ rest /\ Z.of_nat (length pre) = size
  | Err _ => True
  | Panic => False
  end.

Lemma dec_ok_map {A B} size bs (o : res (A * list Z)) (f : A -> B) :
  dec_ok size bs o -> dec_ok size bs (bind o (fun q => Ok (f (fst q), snd q))).
Proof. destruct o as [[a rest]| |]; cbn [bind dec_ok fst snd]; auto. Qed.

Section Structural.
  Context {K : Type} (F : Fops K) (C : Codec K) (valid : K -> Prop).
  Variable sqrt : K -> option K.
  Variable cmp : K -> K -> comparison.
  Hypothesis COK : CodecOK C valid.
  Variables (ca cb : K) (cof : list Z) (r : Z).

  Let HSW := SWFlags_ok.
  Let HTE := TEFlags_ok.

  (* ---------------- short Weierstrass ---------------- *)
  (* the default subgroup test as a plain boolean (for a non-empty COFACTOR slice) *)
  Definition sw_in_subgroup10 (P : @swaff K) : bool :=
    match cof with
    | [] => false
    | c0 :: t => if (c0 =? 1) && forallb (fun c => c =? 0) t then true
                 else if sinf P then true else sw_rP_is_O F ca r (sx P) (sy P)
    end.

  Lemma sw_check10_eq P : cof <> [] ->
    sw_check10 F ca cb cof r P = sw_check F ca cb sw_in_subgroup10 P.
  Proof.
    intros Hc. unfold sw_check10, sw_check, sw_subgroup10, sw_in_subgroup10, cofactor_is_one.
    destruct cof as [|c0 t]; [congruence|].
    destruct (sw_on_curve F ca cb P); cbn [bind andb]; [|reflexivity].
    destruct ((c0 =? 1) && forallb (fun c => c =? 0) t); cbn [bind]; [reflexivity|].
    destruct (sinf P); [reflexivity|]. destruct (sw_rP_is_O F ca r (sx P) (sy P)); reflexivity.
  Qed.

  Lemma sw_check10_nopanic P : cof <> [] -> sw_check10 F ca cb cof r P <> Panic.
  Proof.
    intros Hc. rewrite sw_check10_eq by assumption. unfold sw_check.
    destruct (_ && _); congruence.
  Qed.

  (* the unwrap is unreachable: the model with the Panic constructor is the C09 codec *)
  Lemma sw_dec10_eq bs c v : cof <> [] ->
    sw_dec10 F C sqrt cmp ca cb cof r bs c v = sw_dec F C sqrt cmp ca cb sw_in_subgroup10 bs c v.
  Proof.
    intros Hc. unfold sw_dec10, sw_dec. destruct c.
    - destruct (c_dec C SWFlags bs) as [[[x fl] rest]| e |]; cbn [bind fst snd]; try reflexivity.
      destruct fl; cbn [sw_is_positive sw_is_infinity bind]; try reflexivity.
      + destruct (sw_get_ys F sqrt cmp ca cb x) as [[y ny]|]; cbn [bind sw_is_infinity]; try reflexivity.
        destruct v; [rewrite sw_check10_eq by assumption|]; reflexivity.
      + destruct (sw_get_ys F sqrt cmp ca cb x) as [[y ny]|]; cbn [bind sw_is_infinity]; try reflexivity.
        destruct v; [rewrite sw_check10_eq by assumption|]; reflexivity.
    - destruct (c_decp C bs) as [[x r1]| e |]; cbn [bind fst snd]; try reflexivity.
      destruct (c_dec C SWFlags r1) as [[[y fl] rest]| e |]; cbn [bind fst snd]; try reflexivity.
      destruct fl; cbn [sw_is_infinity]; try reflexivity;
        (destruct v; [rewrite sw_check10_eq by assumption|]; reflexivity).
  Qed.

  (* the coordinates + flags stage *)
  Definition sw_stage1 (bs : list Z) (c : bool) : res (K * K * swflag * list Z) :=
    if c then
      bind (c_dec C SWFlags bs) (fun q =>
      let x := fst (fst q) in let flags := snd (fst q) in let rest := snd q in
      match flags with
      | PointAtInfinity => Ok (f0 F, f0 F, flags, rest)
      | _ => match sw_get_ys F sqrt cmp ca cb x with
             | None => Err E_InvalidData
             | Some (y, neg_y) => match flags with
                                  | YIsPositive => Ok (x, y, flags, rest)
                                  | _ => Ok (x, neg_y, flags, rest)
                                  end
             end
      end)
    else
      bind (c_decp C bs) (fun r0 =>
      bind (c_dec C SWFlags (snd r0)) (fun r1 => Ok (fst r0, fst (fst r1), snd (fst r1), snd r1))).

  Lemma sw_stage1_ok bs c :
    match sw_stage1 bs c with
    | Ok (_, _, _, rest) => exists pre, bs = pre ++ rest /\ Z.of_nat (length pre) = sw_size C c
    | Err _ => True
    | Panic => False
    end.
  Proof.
    unfold sw_stage1, sw_size. destruct c.
    - pose proof (ok_nopanic _ _ COK SWFlags bs HSW) as Hnp.
      destruct (c_dec C SWFlags bs) as [[[x fl] rest]| e |] eqn:E; cbn [bind fst snd]; auto.
      pose proof (ok_consume _ _ COK SWFlags bs x fl rest HSW E) as Hc.
      destruct fl; auto; destruct (sw_get_ys F sqrt cmp ca cb x) as [[y ny]|]; auto.
    - pose proof (plain_nopanic C valid COK bs) as Hnp.
      destruct (c_decp C bs) as [[x r1]| e |] eqn:E; cbn [bind fst snd]; auto.
      destruct (plain_consume C valid COK bs x r1 E) as (pre1 & -> & Hl1).
      pose proof (ok_nopanic _ _ COK SWFlags r1 HSW) as Hnp2.
      destruct (c_dec C SWFlags r1) as [[[y fl] rest]| e |] eqn:E2; cbn [bind fst snd]; auto.
      destruct (ok_consume _ _ COK SWFlags r1 y fl rest HSW E2) as (pre2 & -> & Hl2).
      exists (pre1 ++ pre2). rewrite app_assoc. split; auto.
      rewrite app_length, Nat2Z.inj_add. lia.
  Qed.

  Lemma sw_dec_stage bs c v sub :
    sw_dec F C sqrt cmp ca cb sub bs c v =
    bind (sw_stage1 bs c) (fun q =>
       let '(x, y, flags, rest) := q in
       match flags with
       | PointAtInfinity => Ok (sw_identity F, rest)
       | _ => let point := mkSW x y false in
              if v then bind (sw_check F ca cb sub point) (fun _ => Ok (point, rest))
              else Ok (point, rest)
       end).
  Proof. unfold sw_dec, sw_stage1. destruct c; reflexivity. Qed.

  (* dec_total for SW: Ok or Err, never Panic; success consumes exactly serialized_size *)
  Theorem sw_dec10_total bs c v : cof <> [] ->
    dec_ok (sw_size C c) bs (sw_dec10 F C sqrt cmp ca cb cof r bs c v).
  Proof.
    intros Hc. rewrite sw_dec10_eq by assumption. rewrite sw_dec_stage.
    pose proof (sw_stage1_ok bs c) as H1.
    destruct (sw_stage1 bs c) as [[[[x y] fl] rest]| e |]; cbn [bind dec_ok]; auto.
    unfold sw_check.
    destruct fl; cbn [dec_ok]; auto;
      destruct v; cbn [dec_ok]; auto;
      destruct (_ && _); cbn [bind dec_ok]; auto.
  Qed.

  Theorem swj_dec10_total bs c v : cof <> [] ->
    dec_ok (sw_size C c) bs (swj_dec10 F C sqrt cmp ca cb cof r bs c v).
  Proof. intros Hc. unfold swj_dec10. apply dec_ok_map, sw_dec10_total, Hc. Qed.

  (* truncation: fewer bytes than serialized_size is an error in every mode *)
  Theorem sw_dec10_short bs c v : cof <> [] -> Z.of_nat (length bs) < sw_size C c ->
    exists e, sw_dec10 F C sqrt cmp ca cb cof r bs c v = Err e.
  Proof.
    intros Hc Hl. rewrite sw_dec10_eq by assumption. unfold sw_dec, sw_size in *. destruct c.
    - destruct (ok_short _ _ COK SWFlags bs HSW Hl) as [e ->]. exists e. reflexivity.
    - pose proof (plain_nopanic C valid COK bs) as Hnp.
      destruct (c_decp C bs) as [[x r1]| e |] eqn:E; cbn [bind fst snd]; [|eauto|congruence].
      destruct (plain_consume C valid COK bs x r1 E) as (pre1 & -> & Hl1).
      rewrite app_length, Nat2Z.inj_add in Hl.
      assert (Hl2 : Z.of_nat (length r1) < c_size C SWFlags) by lia.
      destruct (ok_short _ _ COK SWFlags r1 HSW Hl2) as [e ->]. exists e. reflexivity.
  Qed.

  (* checked_sw_valid: with validation on, a returned point is the identity or passed
     Valid::check, i.e. the curve-equation test and the subgroup test both returned true *)
  Theorem sw_dec10_checked bs c P rest : cof <> [] ->
    sw_dec10 F C sqrt cmp ca cb cof r bs c true = Ok (P, rest) ->
    P = sw_identity F \/
    (sinf P = false /\ sw_on_curve F ca cb P = true /\ sw_subgroup10 F ca cof r P = Ok true).
  Proof.
    intros Hc. rewrite sw_dec10_eq by assumption. rewrite sw_dec_stage.
    destruct (sw_stage1 bs c) as [[[[x y] fl] rest']| e |]; cbn [bind]; try congruence.
    assert (Hgen : bind (sw_check F ca cb sw_in_subgroup10 (mkSW x y false))
                     (fun _ => Ok (mkSW x y false, rest')) = Ok (P, rest) ->
            P = sw_identity F \/
            (sinf P = false /\ sw_on_curve F ca cb P = true /\ sw_subgroup10 F ca cof r P = Ok true)).
    { unfold sw_check. destruct (sw_on_curve F ca cb (mkSW x y false)) eqn:Eoc; cbn [andb bind]; try congruence.
      destruct (sw_in_subgroup10 (mkSW x y false)) eqn:Esub; cbn [bind]; try congruence.
      intros H. injection H as <- <-. right. split; [reflexivity|]. split; [exact Eoc|].
      unfold sw_in_subgroup10 in Esub. unfold sw_subgroup10, cofactor_is_one.
      destruct cof as [|c0 t]; [congruence|]. cbn [bind].
      destruct ((c0 =? 1) && forallb (fun c => c =? 0) t); [reflexivity|]. rewrite Esub. reflexivity. }
    destruct fl; auto. intros H. injection H as <- <-. left. reflexivity.
  Qed.

  (* what the subgroup test's `true` means *)
  Lemma sw_subgroup10_true P : sw_subgroup10 F ca cof r P = Ok true ->
    cofactor_is_one cof = Ok true \/ sinf P = true \/
    gmul (swa_add F ca) None r (Some (sx P, sy P)) = None.
  Proof.
    unfold sw_subgroup10. destruct (cofactor_is_one cof) as [[|]| |]; cbn [bind]; try congruence; auto.
    destruct (sinf P); auto. unfold sw_rP_is_O.
    destruct (gmul _ _ _ _); [congruence|auto].
  Qed.

  (* rejection theorems *)
  Theorem sw_compressed_no_root_rejected bs x fl rest v : cof <> [] ->
    c_dec C SWFlags bs = Ok (x, fl, rest) -> fl <> PointAtInfinity ->
    sqrt (sw_rhs F ca cb x) = None ->
    sw_dec10 F C sqrt cmp ca cb cof r bs true v = Err E_InvalidData.
  Proof.
    intros Hc Hd Hfl Hs. unfold sw_dec10. rewrite Hd. cbn [bind fst snd].
    unfold sw_get_ys. rewrite Hs. destruct fl; try congruence; reflexivity.
  Qed.

  Theorem sw_offcurve_rejected bs x y fl rest c : cof <> [] ->
    sw_stage1 bs c = Ok (x, y, fl, rest) -> fl <> PointAtInfinity ->
    sw_on_curve F ca cb (mkSW x y false) = false ->
    sw_dec10 F C sqrt cmp ca cb cof r bs c true = Err E_InvalidData.
  Proof.
    intros Hc H1 Hfl Hoc. rewrite sw_dec10_eq by assumption. rewrite sw_dec_stage, H1.
    cbn [bind]. unfold sw_check. rewrite Hoc. destruct fl; try congruence; reflexivity.
  Qed.

  Theorem sw_outside_subgroup_rejected bs x y fl rest c : cof <> [] ->
    sw_stage1 bs c = Ok (x, y, fl, rest) -> fl <> PointAtInfinity ->
    sw_subgroup10 F ca cof r (mkSW x y false) = Ok false ->
    sw_dec10 F C sqrt cmp ca cb cof r bs c true = Err E_InvalidData.
  Proof.
    intros Hc H1 Hfl Hs. rewrite sw_dec10_eq by assumption. rewrite sw_dec_stage, H1.
    cbn [bind]. unfold sw_check.
    assert (Hsub : sw_in_subgroup10 (mkSW x y false) = false).
    { unfold sw_subgroup10, cofactor_is_one in Hs. unfold sw_in_subgroup10.
      destruct cof as [|c0 t]; [congruence|]. cbn [bind] in Hs.
      destruct ((c0 =? 1) && forallb (fun c => c =? 0) t); [congruence|].
      cbn [sinf sx sy] in *. destruct (sw_rP_is_O F ca r x y); congruence. }
    rewrite Hsub, andb_false_r. destruct fl; try congruence; reflexivity.
  Qed.

  (* unchecked mode returns whatever stage 1 produced *)
  Theorem sw_dec10_unchecked bs x y fl rest c : cof <> [] ->
    sw_stage1 bs c = Ok (x, y, fl, rest) -> fl <> PointAtInfinity ->
    sw_dec10 F C sqrt cmp ca cb cof r bs c false = Ok (mkSW x y false, rest).
  Proof.
    intros Hc H1 Hfl. rewrite sw_dec10_eq by assumption. rewrite sw_dec_stage, H1.
    cbn [bind]. destruct fl; try congruence; reflexivity.
  Qed.

  (* ---------------- twisted Edwards ---------------- *)
  Variables (ta td : K).

  Definition te_stage1 (bs : list Z) (c : bool) : res (K * K * list Z) :=
    if c then
      bind (c_dec C TEFlags bs) (fun q =>
      let y := fst (fst q) in let flags := snd (fst q) in let rest := snd q in
      match te_get_xs F sqrt cmp ta td y with
      | None => Err E_InvalidData
      | Some (x, neg_x) =>
        match flags with
        | XIsNegative => Ok (neg_x, y, rest)
        | XIsPositive => Ok (x, y, rest)
        end
      end)
    else
      bind (c_decp C bs) (fun r0 =>
      bind (c_decp C (snd r0)) (fun r1 => Ok (fst r0, fst r1, snd r1))).

  Lemma te_dec10_stage bs c v :
    te_dec10 F C sqrt cmp r ta td bs c v =
    bind (te_stage1 bs c) (fun q =>
       let '(x, y, rest) := q in
       let point := mkTE x y in
       if v then bind (te_check10 F r ta td point) (fun _ => Ok (point, rest))
       else Ok (point, rest)).
  Proof. unfold te_dec10, te_dec, te_stage1, te_check10, te_check. destruct c; reflexivity. Qed.

  Lemma te_stage1_ok bs c :
    match te_stage1 bs c with
    | Ok (_, _, rest) => exists pre, bs = pre ++ rest /\ Z.of_nat (length pre) = te_size C c
    | Err _ => True
    | Panic => False
    end.
  Proof.
    unfold te_stage1, te_size. destruct c.
    - pose proof (ok_nopanic _ _ COK TEFlags bs HTE) as Hnp.
      destruct (c_dec C TEFlags bs) as [[[y fl] rest]| e |] eqn:E; cbn [bind fst snd]; auto.
      pose proof (ok_consume _ _ COK TEFlags bs y fl rest HTE E) as Hc.
      destruct (te_get_xs F sqrt cmp ta td y) as [[x nx]|]; auto. destruct fl; auto.
    - pose proof (plain_nopanic C valid COK bs) as Hnp.
      destruct (c_decp C bs) as [[x r1]| e |] eqn:E; cbn [bind fst snd]; auto.
      destruct (plain_consume C valid COK bs x r1 E) as (pre1 & -> & Hl1).
      pose proof (plain_nopanic C valid COK r1) as Hnp2.
      destruct (c_decp C r1) as [[y rest]| e |] eqn:E2; cbn [bind fst snd]; auto.
      destruct (plain_consume C valid COK r1 y rest E2) as (pre2 & -> & Hl2).
      exists (pre1 ++ pre2). rewrite app_assoc. split; auto.
      rewrite app_length, Nat2Z.inj_add. lia.
  Qed.

  Theorem te_dec10_total bs c v : dec_ok (te_size C c) bs (te_dec10 F C sqrt cmp r ta td bs c v).
  Proof.
    rewrite te_dec10_stage. pose proof (te_stage1_ok bs c) as H1.
    destruct (te_stage1 bs c) as [[[x y] rest]| e |]; cbn [bind dec_ok]; auto.
    unfold te_check10. destruct v; cbn [dec_ok]; auto. destruct (_ && _); cbn [bind dec_ok]; auto.
  Qed.

  Theorem tep_dec10_total bs c v : dec_ok (te_size C c) bs (tep_dec10 F C sqrt cmp r ta td bs c v).
  Proof. unfold tep_dec10. apply dec_ok_map, te_dec10_total. Qed.

  Theorem te_dec10_short bs c v : Z.of_nat (length bs) < te_size C c ->
    exists e, te_dec10 F C sqrt cmp r ta td bs c v = Err e.
  Proof.
    intros Hl. rewrite te_dec10_stage. unfold te_stage1, te_size in *. destruct c.
    - destruct (ok_short _ _ COK TEFlags bs HTE Hl) as [e ->]. exists e. reflexivity.
    - pose proof (plain_nopanic C valid COK bs) as Hnp.
      destruct (c_decp C bs) as [[x r1]| e |] eqn:E; cbn [bind fst snd]; [|eauto|congruence].
      destruct (plain_consume C valid COK bs x r1 E) as (pre1 & -> & Hl1).
      rewrite app_length, Nat2Z.inj_add in Hl.
      assert (Hl2 : Z.of_nat (length r1) < c_sizep C) by lia.
      destruct (plain_short C valid COK r1 Hl2) as [e ->]. exists e. reflexivity.
  Qed.

  Theorem te_dec10_checked bs c P rest :
    te_dec10 F C sqrt cmp r ta td bs c true = Ok (P, rest) ->
    te_on_curve F ta td P = true /\
    (let '(x', y') := gmul (tea_add F ta td) (f0 F, f1 F) r (tx P, ty P) in
     feqb F x' (f0 F) && feqb F y' (f1 F)) = true.
  Proof.
    rewrite te_dec10_stage.
    destruct (te_stage1 bs c) as [[[x y] rest']| e |]; cbn [bind]; try congruence.
    unfold te_check10. destruct (te_on_curve F ta td (mkTE x y)) eqn:Eoc; cbn [andb bind]; try congruence.
    destruct (te_subgroup10 F r ta td (mkTE x y)) eqn:Es; cbn [bind]; try congruence.
    intros H. injection H as <- <-. split; [exact Eoc|]. exact Es.
  Qed.

  Theorem te_compressed_no_root_rejected bs y fl rest v :
    c_dec C TEFlags bs = Ok (y, fl, rest) -> te_get_xs F sqrt cmp ta td y = None ->
    te_dec10 F C sqrt cmp r ta td bs true v = Err E_InvalidData.
  Proof.
    intros Hd Hs. rewrite te_dec10_stage. unfold te_stage1. rewrite Hd. cbn [bind fst snd].
    rewrite Hs. reflexivity.
  Qed.

  Theorem te_invalid_rejected bs x y rest c :
    te_stage1 bs c = Ok (x, y, rest) ->
    te_on_curve F ta td (mkTE x y) && te_subgroup10 F r ta td (mkTE x y) = false ->
    te_dec10 F C sqrt cmp r ta td bs c true = Err E_InvalidData.
  Proof.
    intros H1 Hb. rewrite te_dec10_stage, H1. cbn [bind]. unfold te_check10. rewrite Hb. reflexivity.
  Qed.

  (* ---------------- PairingOutput ---------------- *)
  Theorem po_dec_total bs v : dec_ok (c_sizep C) bs (po_dec F C r bs v).
  Proof.
    unfold po_dec. pose proof (plain_nopanic C valid COK bs) as Hnp.
    destruct (c_decp C bs) as [[x rest]| e |] eqn:E; cbn [bind dec_ok fst]; auto.
    pose proof (plain_consume C valid COK bs x rest E) as Hc.
    destruct v; cbn [dec_ok]; auto. unfold po_check.
    destruct (feqb F (fpow F x r) (f1 F)); cbn [bind dec_ok]; auto.
  Qed.

  Theorem po_dec_short bs v : Z.of_nat (length bs) < c_sizep C -> exists e, po_dec F C r bs v = Err e.
  Proof.
    intros Hl. unfold po_dec. destruct (plain_short C valid COK bs Hl) as [e ->]. exists e. reflexivity.
  Qed.

  Theorem po_dec_checked bs x rest : po_dec F C r bs true = Ok (x, rest) ->
    feqb F (fpow F x r) (f1 F) = true.
  Proof.
    unfold po_dec. destruct (c_decp C bs) as [[x' rest']| e |]; cbn [bind fst]; try congruence.
    unfold po_check. destruct (feqb F (fpow F x' r) (f1 F)) eqn:E; cbn [bind]; congruence.
  Qed.

  Theorem po_dec_rejects bs x rest : c_decp C bs = Ok (x, rest) ->
    feqb F (fpow F x r) (f1 F) = false -> po_dec F C r bs true = Err E_InvalidData.
  Proof. intros H E. unfold po_dec. rewrite H. cbn [bind fst]. unfold po_check. rewrite E. reflexivity. Qed.
End Structural.

(* ---------------- Valid::batch_check ---------------- *)
Lemma batch_check_ok {A} (check : A -> res unit) l :
  batch_check check l = Ok tt <-> Forall (fun x => check x = Ok tt) l.
Proof.
  induction l as [|x t IH]; cbn [batch_check].
  - split; auto.
  - destruct (check x) as [[]| e |] eqn:E; cbn [bind].
    + rewrite IH. split; [intros H; constructor; auto | intros H; inversion H; auto].
    + split; [congruence | intros H; inversion H; congruence].
    + split; [congruence | intros H; inversion H; congruence].
Qed.

Lemma batch_check_nopanic {A} (check : A -> res unit) l :
  (forall x, check x <> Panic) -> batch_check check l <> Panic.
Proof.
  intros Hc. induction l as [|x t IH]; cbn [batch_check]; [congruence|].
  specialize (Hc x). destruct (check x) as [[]| e |]; cbn [bind]; congruence.
Qed.

(* the first failing element decides the error *)
Lemma batch_check_first_err {A} (check : A -> res unit) l1 x l2 e :
  Forall (fun y => check y = Ok tt) l1 -> check x = Err e ->
  batch_check check (l1 ++ x :: l2) = Err e.
Proof.
  intros H1 Hx. induction H1 as [|y t Hy _ IH]; cbn [app batch_check].
  - rewrite Hx. reflexivity.
  - rewrite Hy. cbn [bind]. exact IH.
Qed.

(* ---------------- the curve equation behind is_on_curve ---------------- *)
Section Equation.
  Context {K : Type} (F : Fops K).
  Hypothesis Fth : field_theory (f0 F) (f1 F) (fadd F) (fmul F) (fsub F) (fneg F)
                                (fun a b => fmul F a (finv F b)) (finv F) eq.
  Hypothesis feqb_spec : forall a b, feqb F a b = true <-> a = b.
  Add Field Kfield10 : Fth.
  Local Infix "+" := (fadd F). Local Infix "*" := (fmul F).

  Lemma sw_on_curve_eqn ca cb x y : sw_on_curve F ca cb (mkSW x y false) = true <->
    y * y = x * x * x + ca * x + cb.
  Proof.
    unfold sw_on_curve, sw_rhs. cbn [sinf sx sy]. rewrite feqb_spec.
    destruct (feqb F ca (f0 F)) eqn:E.
    - apply feqb_spec in E. subst ca. split; intros ->; ring.
    - split; intros ->; ring.
  Qed.

  Lemma te_on_curve_eqn ta td x y : te_on_curve F ta td (mkTE x y) = true <->
    ta * (x * x) + y * y = f1 F + td * (x * x) * (y * y).
  Proof.
    unfold te_on_curve. cbn [tx ty]. rewrite feqb_spec. split; intros H.
    - transitivity (y * y + ta * (x * x)); [ring|]. rewrite H. ring.
    - transitivity (ta * (x * x) + y * y); [ring|]. rewrite H. ring.
  Qed.

  (* compressed decoding can only produce points of the curve (whatever `validate`) *)
  Variable sqrt : K -> option K.
  Variable cmp : K -> K -> comparison.
  Hypothesis sqrt_some : forall a r, sqrt a = Some r -> fmul F r r = a.
  Hypothesis sqrt_none : forall a, sqrt a = None -> forall y, fmul F y y <> a.

  Lemma sw_get_ys_sound ca cb x y1 y2 : sw_get_ys F sqrt cmp ca cb x = Some (y1, y2) ->
    y1 * y1 = sw_rhs F ca cb x /\ y2 * y2 = sw_rhs F ca cb x.
  Proof.
    unfold sw_get_ys. destruct (sqrt (sw_rhs F ca cb x)) as [y|] eqn:E; [|congruence].
    apply sqrt_some in E. destruct (flt cmp y (fneg F y)); intros H; injection H as <- <-;
      split; auto; rewrite <- E; ring.
  Qed.

  (* g(x) not a square  =>  no root is found *)
  Lemma sw_no_root ca cb x : (forall y, y * y <> sw_rhs F ca cb x) -> sqrt (sw_rhs F ca cb x) = None.
  Proof.
    intros H. destruct (sqrt (sw_rhs F ca cb x)) as [y|] eqn:E; auto.
    exfalso. exact (H y (sqrt_some _ _ E)).
  Qed.
End Equation.

(* ---------------- double-and-add is the r-fold sum ---------------- *)
Section SmulSpec.
  Context {G : Type} (add : G -> G -> G).
  Hypothesis add_assoc : forall a b c, add a (add b c) = add (add a b) c.

  (* (n+1) * P as a left-nested sum  ((P + P) + P) + ... *)
  Fixpoint nsum1 (n : nat) (P : G) : G :=
    match n with O => P | S n' => add (nsum1 n' P) P end.

  Lemma nsum1_add n m P : nsum1 (S (n + m)) P = add (nsum1 n P) (nsum1 m P).
  Proof.
    induction m as [|m IH].
    - rewrite Nat.add_0_r. reflexivity.
    - rewrite Nat.add_succ_r. cbn [nsum1] in *. rewrite IH. symmetry. apply add_assoc.
  Qed.

  Theorem gmul_pos_spec n P : gmul_pos add n P = nsum1 (Pos.to_nat n - 1) P.
  Proof.
    induction n as [n IH|n IH|]; cbn [gmul_pos].
    - rewrite IH. pose proof (Pos2Nat.is_pos n) as Hp.
      rewrite <- nsum1_add.
      replace (Pos.to_nat n~1 - 1)%nat with (S (S (Pos.to_nat n - 1 + (Pos.to_nat n - 1)))) by (rewrite Pos2Nat.inj_xI; lia).
      reflexivity.
    - rewrite IH. pose proof (Pos2Nat.is_pos n) as Hp.
      rewrite <- nsum1_add.
      replace (Pos.to_nat n~0 - 1)%nat with (S (Pos.to_nat n - 1 + (Pos.to_nat n - 1))) by (rewrite Pos2Nat.inj_xO; lia).
      reflexivity.
    - reflexivity.
  Qed.
End SmulSpec.

(* ---------------- field elements ---------------- *)
(* dec_total for any field codec meeting CodecOK (Fp: C09 fp_codec_ok; towers: quad/cubic lifts) *)
Lemma field_dec_total {K} (C : Codec K) valid : CodecOK C valid ->
  forall bs, dec_ok (c_sizep C) bs (c_decp C bs).
Proof.
  intros COK bs. pose proof (plain_nopanic C valid COK bs) as Hnp.
  destruct (c_decp C bs) as [[x rest]| e |] eqn:E; cbn [dec_ok]; auto.
  exact (plain_consume C valid COK bs x rest E).
Qed.

(* checked_fp_reduced: a decoded prime-field element is a reduced residue *)
Lemma fp_dec_reduced N p FT bs v f rest : fp_cfg_ok N p -> FlagOK FT -> bytes_ok bs ->
  fp_dec N p FT bs = Ok (v, f, rest) -> 0 <= v < p.
Proof. intros Hc HF Hb H. exact (proj1 (fp_unique N p FT bs v f rest Hc HF Hb H)). Qed.

(* ... and so is every coordinate of a decoded tower element *)
Lemma field_dec_valid {K} (C : Codec K) valid : CodecOK C valid ->
  forall bs x rest, bytes_ok bs -> c_decp C bs = Ok (x, rest) -> valid x.
Proof. intros COK bs x rest Hb H. exact (proj1 (plain_unique C valid COK bs x rest Hb H)). Qed.

(* ---------------- PairingOutput: Valid::check accepts exactly x^r = 1 ---------------- *)
Section PoCheck.
  Context {K : Type} (F : Fops K) (C : Codec K).
  Variable r : Z.

  Theorem po_check_iff x : po_check F r x = Ok tt <-> feqb F (fpow F x r) (f1 F) = true.
  Proof. unfold po_check. destruct (feqb F (fpow F x r) (f1 F)); split; congruence. Qed.

  Theorem po_check_reject_iff x : po_check F r x = Err E_InvalidData <-> feqb F (fpow F x r) (f1 F) = false.
  Proof. unfold po_check. destruct (feqb F (fpow F x r) (f1 F)); split; congruence. Qed.

  Theorem po_check_nopanic x : po_check F r x <> Panic.
  Proof. unfold po_check. destruct (feqb F (fpow F x r) (f1 F)); congruence. Qed.

  Theorem po_dec_accepts_iff bs x rest :
    po_dec F C r bs true = Ok (x, rest) <->
    c_decp C bs = Ok (x, rest) /\ feqb F (fpow F x r) (f1 F) = true.
  Proof.
    unfold po_dec. destruct (c_decp C bs) as [[x' rest']| e |]; cbn [bind fst].
    - unfold po_check. destruct (feqb F (fpow F x' r) (f1 F)) eqn:E; cbn [bind].
      + split; [intros H; inversion H; subst; auto | intros [H _]; exact H].
      + split; [congruence | intros [H E']; inversion H; subst; congruence].
    - split; [congruence | intros [H _]; congruence].
    - split; [congruence | intros [H _]; congruence].
  Qed.

  (* without validation nothing is tested *)
  Theorem po_dec_unchecked bs : po_dec F C r bs false = c_decp C bs.
  Proof. unfold po_dec. destruct (c_decp C bs) as [[x' rest']| e |]; reflexivity. Qed.
End PoCheck.

(* x^r of the model is the r-fold product x * x * ... * x (for an associative multiplication) *)
Lemma fpow_pos_gmul {K} (F : Fops K) a e : fpow_pos F a e = gmul_pos (fmul F) e a.
Proof. induction e as [e IH|e IH|]; cbn [fpow_pos gmul_pos]; rewrite ?IH; reflexivity. Qed.

Theorem po_check_iff_product {K} (F : Fops K) :
  (forall a b c, fmul F a (fmul F b c) = fmul F (fmul F a b) c) ->
  (forall a b, feqb F a b = true <-> a = b) ->
  forall r x, 0 < r ->
  (po_check F r x = Ok tt <-> nsum1 (fmul F) (Z.to_nat r - 1) x = f1 F).
Proof.
  intros Ha He r x Hr. rewrite po_check_iff, He.
  destruct r as [|r'|r']; try lia. cbn [fpow].
  rewrite fpow_pos_gmul, (gmul_pos_spec (fmul F) Ha). rewrite Z2Nat.inj_pos. reflexivity.
Qed.
