(* Uniform case interpreter for C10.
   Field cases (op 1 f_de) -- exactly the C09 format (run_field op 4):
     a[0] = [cfg_id; N; _; compress; validate]  a[1] = [p]  a[2] = [tower]  a[3] = bytes
   PairingOutput (op 5 po_de):
     a[0] = [cfg_id; N; compress; validate]  a[1] = [p]  a[2] = [tower: 4 | 12]
     a[3] = [nr2; nr6_c0; nr6_c1]   (Fp2 = Fp[u]/(u^2 - nr2); Fp6 = Fp2[v]/(v^3 - (c0 + c1 u));
                                     Fp12 = Fp6[w]/(w^2 - v);  Fp4 = Fp2[v]/(v^2 - u))
     a[4] = [r]   a[5] = bytes
     tower = 32 ("2 over 3", the numbering of C09.Run.tower_of): a[3] = [nr3]
                                    (Fp3 = Fp[u]/(u^3 - nr3);  Fp6 = Fp3[v]/(v^2 - u): CP6-782, BW6-767, BW6-761, MNT6-298)
   Point cases (ops 2 sw_de, 3 te_de, 4 zc_de, 6 sw_check, 7 te_check, 8 sw_revalid, 9 te_revalid):
     a[0] = [curve_id; N; compress; validate; projective]
     a[1] = [p; deg]   a[2] = [nr] (deg 2: Fp[u]/(u^2 - nr); deg 3: Fp[u]/(u^3 - nr))   a[3] = COEFF_A   a[4] = COEFF_B | COEFF_D
     a[5] = [r]   a[6] = COFACTOR limbs
     de ops:      a[7] = bytes
     check ops:   a[7] = [batch]   a[8..] = points: affine x ++ y ++ [infinity] (TE: x ++ y),
                  projective X ++ Y ++ Z (TE: X ++ Y ++ T ++ Z)
     revalid ops: a[7] = one affine point.  Model-only (prop.py `extra`): the independent
                  validity oracle applied to what the Rust code returned.
   Errors: [1; kind] with kind as in C09.Bytes. *)
From V Require Import Base.Field C09.Bytes C09.FpCodec C09.PointCodec C09.Exec C09.Run C10.Model.

Definition out_unit (r : res unit) : list (list Z) := out_res r (fun _ => []).

Section RunPoint10.
  Context {T : Type} (F : Fops T) (W : Tower) (inj : T -> tw_T W) (prj : tw_T W -> T).
  Variable cmp : T -> T -> comparison.

  Definition deg : nat := fdeg F.
  Definition coord (k : nat) (l : list Z) : T := el F (firstn deg (skipn (k * deg) l)).
  Definition sw_pt (l : list Z) : @swaff T := mkSW (coord 0 l) (coord 1 l) (negb (nth (2 * deg) l 0 =? 0)).
  Definition swj_pt (l : list Z) : @swproj T := mkSWJ (coord 0 l) (coord 1 l) (coord 2 l).
  Definition te_pt (l : list Z) : @teaff T := mkTE (coord 0 l) (coord 1 l).
  Definition tep_pt (l : list Z) : @teproj T := mkTEP (coord 0 l) (coord 1 l) (coord 2 l) (coord 3 l).

  Definition run_point10 (op : Z) (a : list (list Z)) : list (list Z) :=
    let compress := negb (argz 0 2 a =? 0) in
    let validate := negb (argz 0 3 a =? 0) in
    let proj := negb (argz 0 4 a =? 0) in
    let p := argz 1 0 a in
    let ca := el F (arg 3 a) in
    let cb := el F (arg 4 a) in
    let r := argz 5 0 a in
    let cof := arg 6 a in
    match find_nonresidue F 400 1 with
    | None => panic
    | Some z =>
      let sqrt := fsqrt F z in
      let C := codecT W inj prj in
      let co := fcoords F in
      let bs := arg 7 a in
      let pts := skipn 8 a in
      match op with
      | 2 => if proj
             then out_res (swj_dec10 F C sqrt cmp ca cb cof r bs compress validate)
                    (fun q => let P := fst q in [co (jx P); co (jy P); co (jz P); [zlen bs - zlen (snd q)]])
             else out_res (sw_dec10 F C sqrt cmp ca cb cof r bs compress validate)
                    (fun q => let P := fst q in [co (sx P); co (sy P); [Z.b2z (sinf P)]; [zlen bs - zlen (snd q)]])
      | 3 => if proj
             then out_res (tep_dec10 F C sqrt cmp r ca cb bs compress validate)
                    (fun q => let P := fst q in [co (ex P); co (ey P); co (et P); co (ez P); [zlen bs - zlen (snd q)]])
             else out_res (te_dec10 F C sqrt cmp r ca cb bs compress validate)
                    (fun q => let P := fst q in [co (tx P); co (ty P); [zlen bs - zlen (snd q)]])
      | 4 => let nb := Z.to_nat (buffer_byte_size (nbits p)) in
             if proj
             then out_res (zcj_dec F sqrt cmp cb p nb deg r bs compress validate)
                    (fun q => let P := fst q in [co (jx P); co (jy P); co (jz P); [zlen bs - zlen (snd q)]])
             else out_res (zc_dec F sqrt cmp cb p nb deg r bs compress validate)
                    (fun q => let P := fst q in [co (sx P); co (sy P); [Z.b2z (sinf P)]; [zlen bs - zlen (snd q)]])
      | 6 => let batch := negb (argz 7 0 a =? 0) in
             if proj then
               (if batch then out_unit (batch_check_proj (sw_to_affine F) (sw_check10 F ca cb cof r) (map swj_pt pts))
                else out_unit (swj_check10 F ca cb cof r (swj_pt (hd [] pts))))
             else
               (if batch then out_unit (batch_check (sw_check10 F ca cb cof r) (map sw_pt pts))
                else out_unit (sw_check10 F ca cb cof r (sw_pt (hd [] pts))))
      | 7 => let batch := negb (argz 7 0 a =? 0) in
             if proj then
               (if batch then out_unit (batch_check_proj (te_to_affine F) (te_check10 F r ca cb) (map tep_pt pts))
                else out_unit (tep_check10 F r ca cb (tep_pt (hd [] pts))))
             else
               (if batch then out_unit (batch_check (te_check10 F r ca cb) (map te_pt pts))
                else out_unit (te_check10 F r ca cb (te_pt (hd [] pts))))
      | 8 => let P := sw_pt bs in
             ok [[Z.b2z (sw_on_curve F ca cb P)];
                 [Z.b2z (if sinf P then true else sw_rP_is_O F ca r (sx P) (sy P))]]
      | 9 => let P := te_pt bs in
             ok [[Z.b2z (te_on_curve F ca cb P)]; [Z.b2z (te_rP_is_O F ca cb r (tx P) (ty P))]]
      | _ => unsupported
      end
    end.
End RunPoint10.

Section RunPO.
  Context {T : Type} (F : Fops T) (W : Tower) (inj : T -> tw_T W) (prj : tw_T W -> T).
  Definition run_po (a : list (list Z)) : list (list Z) :=
    let validate := negb (argz 0 3 a =? 0) in
    let r := argz 4 0 a in
    let bs := arg 5 a in
    out_res (po_dec F (codecT W inj prj) r bs validate)
            (fun q => [fcoords F (fst q); [zlen bs - zlen (snd q)]]).
End RunPO.

Definition run_C10 (op : Z) (a : list (list Z)) : list (list Z) :=
  let N := Z.to_nat (argz 0 1 a) in
  let p := argz 1 0 a in
  if op =? 1 then
    match tower_of N p (argz 2 0 a) with
    | Some W => run_field W 4 a
    | None => unsupported
    end
  else if op =? 5 then
    let fp := tower_fp N p in
    let F2 := QuadOps (ZpOps p) (argz 3 0 a mod p) in
    match argz 2 0 a with
    | 4 => run_po (QuadOps F2 (0, 1 mod p)) (tower_quad (tower_quad fp)) (fun x => x) (fun x => x) a
    | 12 => let F6 := CubicOps F2 (argz 3 1 a mod p, argz 3 2 a mod p) in
            run_po (QuadOps F6 ((0, 0), (1 mod p, 0), (0, 0)))
                   (tower_quad (tower_cubic (tower_quad fp))) (fun x => x) (fun x => x) a
    | 32 => let F3 := CubicOps (ZpOps p) (argz 3 0 a mod p) in
            run_po (QuadOps F3 (0, 1 mod p, 0)) (tower_quad (tower_cubic fp)) (fun x => x) (fun x => x) a
    | _ => unsupported
    end
  else
    match argz 1 1 a with
    | 1 => run_point10 (ZpOps p) (tower_fp N p) (fun x => x) (fun x => x) Z.compare op a
    | 2 => run_point10 (QuadOps (ZpOps p) (argz 2 0 a mod p)) (tower_quad (tower_fp N p))
                       (fun x => x) (fun x => x) (quad_cmp Z.compare) op a
    | 3 => run_point10 (CubicOps (ZpOps p) (argz 2 0 a mod p)) (tower_cubic (tower_fp N p))
                       (fun x => x) (fun x => x) (cubic_cmp Z.compare) op a
    | _ => unsupported
    end.
