(* C10 proofs, part 2: the ZCash-style override of curves/bls12_381.  Every indexing /
   slicing operation of util.rs is in range (no Panic), a decoder reads exactly
   G1/G2_SERIALIZED_SIZE (x2) bytes or fails, with validation a returned point passed the
   subgroup test, compressed decoding only returns points of the curve.  What does NOT follow
   from the code structure -- the curve equation for the uncompressed + validated path -- is
   stated as `zc_uncompressed_checked_partial`. *)
From Coq Require Import Field Lia.
From V Require Import Base.Field C09.Bytes C09.FpCodec C09.PointCodec C09.BytesProofs C10.Model C10.Proofs.

Section Zc.
  Context {K : Type} (F : Fops K).
  Variable sqrt : K -> option K.
  Variable cmp : K -> K -> comparison.
  Variable cb : K.
  Variable p : Z.
  Variables (nb d : nat).
  Variable r : Z.
  Hypothesis nb_pos : (1 <= nb)%nat.        (* G1_SERIALIZED_SIZE = 48 *)
  Hypothesis d_pos : (1 <= d)%nat.          (* 1 or 2 coordinates *)

  Lemma zc_read_off_ok bytes k mask : (nb * (k + 1) <= length bytes)%nat ->
    exists c, zc_read_off nb bytes k mask = Ok c.
  Proof.
    intros Hl. unfold zc_read_off.
    destruct (Nat.ltb_spec (length bytes) (nb * (k + 1))) as [Hlt|_]; [lia|].
    destruct mask; [|eauto].
    destruct (firstn nb (skipn (k * nb) bytes)) as [|b t] eqn:E; [|eauto].
    exfalso. apply (f_equal (@length Z)) in E. rewrite firstn_length, skipn_length in E. cbn in E. nia.
  Qed.

  Lemma zc_chunks_ok bytes n : forall k, (nb * (k + n) <= length bytes)%nat ->
    exists cs, zc_chunks nb bytes k n = Ok cs.
  Proof.
    induction n as [|n IH]; intros k Hl; cbn [zc_chunks]; [eauto|].
    destruct (zc_read_off_ok bytes k (Nat.eqb k 0)) as [c ->]; [nia|]. cbn [bind].
    destruct (IH (S k)) as [cs ->]; [nia|]. cbn [bind]. eauto.
  Qed.

  Lemma zc_get_flags_nopanic bytes : bytes <> [] -> zc_get_flags bytes <> Panic.
  Proof.
    destruct bytes as [|b0 t]; [congruence|]. intros _. unfold zc_get_flags.
    destruct (_ && _); congruence.
  Qed.

  Lemma read_exact_some n bs bytes rest : read_exact n bs = Some (bytes, rest) ->
    bs = bytes ++ rest /\ length bytes = n.
  Proof.
    unfold read_exact. destruct (Nat.ltb_spec (length bs) n) as [|Hge]; [congruence|].
    intros H. injection H as <- <-. split; [symmetry; apply firstn_skipn|].
    rewrite firstn_length. lia.
  Qed.

  Lemma zc_read_compressed_ok bs : dec_ok (Z.of_nat (nb * d)) bs (zc_read_compressed F sqrt cmp cb p nb d bs).
  Proof.
    unfold zc_read_compressed. destruct (read_exact (nb * d) bs) as [[bytes rest]|] eqn:E; [|exact I].
    apply read_exact_some in E as [-> Hlen].
    assert (Hne : bytes <> []) by (intros ->; cbn in Hlen; nia).
    pose proof (zc_get_flags_nopanic bytes Hne) as Hf.
    destruct (zc_get_flags bytes) as [[[c i] s]| e |]; cbn [bind dec_ok]; auto.
    destruct c; cbn [negb dec_ok]; auto.
    destruct (zc_chunks_ok bytes d 0) as [cs ->]; [cbn; lia|]. cbn [bind].
    assert (Hex : exists pre, bytes ++ rest = pre ++ rest /\ Z.of_nat (length pre) = Z.of_nat (nb * d))
      by (exists bytes; split; [reflexivity|congruence]).
    destruct i.
    - destruct (forallb _ cs); cbn [dec_ok]; auto.
    - destruct (zc_fqs p cs); cbn [dec_ok]; auto.
      destruct (sw_get_ys F sqrt cmp (f0 F) cb _) as [[sm lg]|]; cbn [dec_ok]; auto.
  Qed.

  Lemma zc_read_uncompressed_ok bs :
    dec_ok (Z.of_nat (nb * (2 * d))) bs (zc_read_uncompressed F p nb d bs).
  Proof.
    unfold zc_read_uncompressed. destruct (read_exact (nb * (2 * d)) bs) as [[bytes rest]|] eqn:E; [|exact I].
    apply read_exact_some in E as [-> Hlen].
    assert (Hne : bytes <> []) by (intros ->; cbn in Hlen; nia).
    pose proof (zc_get_flags_nopanic bytes Hne) as Hf.
    destruct (zc_get_flags bytes) as [[[c i] s]| e |]; cbn [bind dec_ok]; auto.
    destruct c; cbn [dec_ok]; auto.
    destruct (zc_chunks_ok bytes (2 * d) 0) as [cs ->]; [cbn [Nat.add]; lia|]. cbn [bind].
    assert (Hex : exists pre, bytes ++ rest = pre ++ rest /\ Z.of_nat (length pre) = Z.of_nat (nb * (2 * d)))
      by (exists bytes; split; [reflexivity|congruence]).
    destruct i.
    - destruct (forallb _ cs); cbn [dec_ok]; auto.
    - destruct (zc_fqs p cs); cbn [dec_ok]; auto.
  Qed.

  (* dec_total for the override: Ok or Err, never Panic; exactly `size` bytes consumed *)
  Theorem zc_dec_total bs c v :
    dec_ok (zc_size nb d c) bs (zc_dec F sqrt cmp cb p nb d r bs c v).
  Proof.
    unfold zc_dec, zc_size.
    assert (H : dec_ok (Z.of_nat (if c then nb * d else nb * (2 * d))) bs
                  (if c then zc_read_compressed F sqrt cmp cb p nb d bs else zc_read_uncompressed F p nb d bs)).
    { destruct c; [apply zc_read_compressed_ok | apply zc_read_uncompressed_ok]. }
    destruct (if c then zc_read_compressed F sqrt cmp cb p nb d bs else zc_read_uncompressed F p nb d bs)
      as [[P rest]| e |]; cbn [bind dec_ok fst] in *; auto.
    destruct (v && negb (sw_on_curve F (f0 F) cb P && zc_subgroup F r P)); cbn [dec_ok]; auto.
  Qed.

  Theorem zcj_dec_total bs c v :
    dec_ok (zc_size nb d c) bs (zcj_dec F sqrt cmp cb p nb d r bs c v).
  Proof. unfold zcj_dec. apply dec_ok_map, zc_dec_total. Qed.

  (* truncation: the read_exact error is mapped to InvalidData *)
  Theorem zc_dec_short bs c v : Z.of_nat (length bs) < zc_size nb d c ->
    zc_dec F sqrt cmp cb p nb d r bs c v = Err E_InvalidData.
  Proof.
    unfold zc_size, zc_dec, zc_read_compressed, zc_read_uncompressed, read_exact. intros Hl.
    destruct c.
    - destruct (Nat.ltb_spec (length bs) (nb * d)); [reflexivity|lia].
    - destruct (Nat.ltb_spec (length bs) (nb * (2 * d))); [reflexivity|lia].
  Qed.

  (* with validation on, whatever is returned passed the curve-equation test and the subgroup
     test (true of the model = the corrected behaviour; see DEFECT-1 for the Rust code) *)
  Theorem zc_dec_checked bs c P rest :
    zc_dec F sqrt cmp cb p nb d r bs c true = Ok (P, rest) ->
    sw_on_curve F (f0 F) cb P = true /\ zc_subgroup F r P = true.
  Proof.
    unfold zc_dec. destruct (if c then _ else _) as [[P' rest']| e |]; cbn [bind fst andb]; try congruence.
    destruct (sw_on_curve F (f0 F) cb P') eqn:E1; destruct (zc_subgroup F r P') eqn:E2;
      cbn [negb andb]; try congruence.
    intros H. injection H as <- <-. auto.
  Qed.

  (* off-curve and out-of-subgroup pairs are rejected when validating, in both encodings *)
  Theorem zc_invalid_rejected bs (c : bool) P rest :
    (if c then zc_read_compressed F sqrt cmp cb p nb d bs else zc_read_uncompressed F p nb d bs) = Ok (P, rest) ->
    sw_on_curve F (f0 F) cb P && zc_subgroup F r P = false ->
    zc_dec F sqrt cmp cb p nb d r bs c true = Err E_InvalidData.
  Proof. intros H E. unfold zc_dec. rewrite H. cbn [bind fst andb]. rewrite E. reflexivity. Qed.

  Lemma zc_subgroup_true P : zc_subgroup F r P = true ->
    sinf P = true \/ gmul (swa_add F (f0 F)) None r (Some (sx P, sy P)) = None.
  Proof.
    unfold zc_subgroup, sw_rP_is_O. destruct (sinf P); auto.
    destruct (gmul _ _ _ _); [congruence|auto].
  Qed.

  (* infinity must be all-zero: any other bit pattern under the infinity flag is rejected *)
  Theorem zc_infinity_canonical bs bytes rest c s cs v :
    read_exact (nb * d) bs = Some (bytes, rest) ->
    zc_get_flags bytes = Ok (c, true, s) -> zc_chunks nb bytes 0 d = Ok cs ->
    forallb all_zero cs = false ->
    zc_dec F sqrt cmp cb p nb d r bs true v = Err E_InvalidData \/
    zc_dec F sqrt cmp cb p nb d r bs true v = Err E_UnexpectedFlags.
  Proof.
    intros Hr Hf Hc Hz. unfold zc_dec, zc_read_compressed. rewrite Hr, Hf. cbn [bind].
    destruct c; cbn [negb]; [|right; reflexivity].
    rewrite Hc. cbn [bind]. rewrite Hz. left. reflexivity.
  Qed.

  (* ---- the curve equation ---- *)
  Hypothesis Fth : field_theory (f0 F) (f1 F) (fadd F) (fmul F) (fsub F) (fneg F)
                                (fun a b => fmul F a (finv F b)) (finv F) eq.
  Hypothesis feqb_spec : forall a b, feqb F a b = true <-> a = b.
  Hypothesis sqrt_some : forall a y, sqrt a = Some y -> fmul F y y = a.
  Add Field Kfield10z : Fth.

  (* compressed: the point comes out of get_point_from_x_unchecked, hence satisfies the equation *)
  Theorem zc_compressed_on_curve bs v P rest :
    zc_dec F sqrt cmp cb p nb d r bs true v = Ok (P, rest) ->
    sw_on_curve F (f0 F) cb P = true.
  Proof.
    unfold zc_dec. destruct (zc_read_compressed F sqrt cmp cb p nb d bs) as [[P' rest']| e |] eqn:E;
      cbn [bind fst]; try congruence.
    destruct (v && negb (sw_on_curve F (f0 F) cb P' && zc_subgroup F r P')); try congruence. intros H. injection H as <- <-.
    revert E. unfold zc_read_compressed.
    destruct (read_exact (nb * d) bs) as [[bytes rest0]|]; try congruence.
    destruct (zc_get_flags bytes) as [[[c i] s]| e |]; cbn [bind]; try congruence.
    destruct c; cbn [negb]; try congruence.
    destruct (zc_chunks nb bytes 0 d) as [cs| e |]; cbn [bind]; try congruence.
    destruct i.
    - destruct (forallb all_zero cs); try congruence. intros H. injection H as <- _. reflexivity.
    - destruct (zc_fqs p cs) as [vs|]; try congruence.
      destruct (sw_get_ys F sqrt cmp (f0 F) cb (zc_el F vs)) as [[sm lg]|] eqn:Eys; try congruence.
      intros H. injection H as <- _.
      unfold sw_get_ys in Eys. destruct (sqrt (sw_rhs F (f0 F) cb (zc_el F vs))) as [y|] eqn:Es; try congruence.
      apply sqrt_some in Es.
      assert (Hn : fmul F (fneg F y) (fneg F y) = sw_rhs F (f0 F) cb (zc_el F vs)).
      { rewrite <- Es. ring. }
      unfold sw_on_curve. cbn [sinf sx sy]. apply feqb_spec.
      destruct (flt cmp y (fneg F y)); injection Eys as <- <-; destruct s; auto.
  Qed.
End Zc.
