(* C11 -- limb-level model of the square-root constants that the Rust code computes, at compile
   time, from the limbs of MODULUS.  A BigInt<N> is a little-endian list of N limbs; the carry
   chains / shifts are the ones of the C15 model (coq/C15/BigIntModel.v).  No proofs in this file.

   Anchors:
     ff/src/fields/models/fp/montgomery_backend.rs   MontConfig::MODULUS_PLUS_ONE_DIV_FOUR, sqrt_precomputation,
                                                     MontBackend::TWO_ADICITY
     ff/src/fields/models/fp/mod.rs                  MODULUS_MINUS_ONE_DIV_TWO, TRACE, TRACE_MINUS_ONE_DIV_TWO,
                                                     MODULUS_BIT_SIZE
     ff/src/biginteger/mod.rs                        const_add_with_carry, divide_by_2_round_down, const_shr,
                                                     mod_4, two_adic_valuation, two_adic_coefficient *)
From V Require Import Base.Word C15.BigIntModel.

(* BigInt::one() : [1, 0, .., 0] *)
Definition big_one (N : nat) : list Z := from_u64 N 1.

(* BigInt::const_add_with_carry : for i in 0..N { self.0[i] = adc!(self.0[i], other.0[i], &mut carry) };
   (self, carry != 0).  The adc! macro is the 128-bit add-with-carry of `add_chain`. *)
Definition const_add_with_carry (a b : list Z) : list Z * bool := add_with_carry a b.

(* result.0[N - 1] |= (carry as u64) << 63 *)
Definition or_top_bit (carry : bool) (a : list Z) : list Z := if carry then set_top_bit a else a.

(* MontConfig::MODULUS_PLUS_ONE_DIV_FOUR :
     match MODULUS.mod_4() == 3 {
       true => { let (modulus_plus_one, carry) = MODULUS.const_add_with_carry(&BigInt::one());
                 let mut result = modulus_plus_one.divide_by_2_round_down();
                 result.0[N - 1] |= (carry as u64) << 63;
                 Some(result.divide_by_2_round_down()) },
       false => None } *)
Definition modulus_plus_one_div_four (p : list Z) : option (list Z) :=
  if mod_4 p =? 3 then
    let '(modulus_plus_one, carry) := const_add_with_carry p (big_one (length p)) in
    let result := divide_by_2_round_down modulus_plus_one in
    Some (divide_by_2_round_down (or_top_bit carry result))
  else None.

(* TWO_ADICITY = MODULUS.two_adic_valuation(), TRACE = MODULUS.two_adic_coefficient() *)
Definition two_adicity (p : list Z) : option Z := option_map fst (two_adic p).
Definition trace (p : list Z) : option (list Z) := option_map snd (two_adic p).
(* TRACE_MINUS_ONE_DIV_TWO = TRACE.divide_by_2_round_down() *)
Definition trace_minus_one_div_two (p : list Z) : option (list Z) := option_map divide_by_2_round_down (trace p).
(* MODULUS_MINUS_ONE_DIV_TWO = MODULUS.divide_by_2_round_down() *)
Definition modulus_minus_one_div_two (p : list Z) : list Z := divide_by_2_round_down p.

(* number of limbs of a modulus: the least N >= 1 with modulus < 2^(64 N)  (the derive macro takes the least N with
   modulus <= 2^(64 N); the two agree except at modulus = 2^(64 k), which is not a prime) *)
Definition num_limbs (p : Z) : nat := Z.to_nat (Z.log2 p / 64 + 1).
Definition modulus_limbs (p : Z) : list Z := limbs_of (num_limbs p) p.

(* What a MontBackend prime field holds, computed from the modulus (integer p) and the configured
   GENERATOR g (`powm` = modular exponentiation, passed in by Run.v):
     sqrt_precomputation():  match MODULUS.mod_4() { 3 => Case3Mod4 { MODULUS_PLUS_ONE_DIV_FOUR },
                                                     _ => TonelliShanks { TWO_ADICITY, TWO_ADIC_ROOT_OF_UNITY,
                                                                          TRACE_MINUS_ONE_DIV_TWO } }
   encoded like the `params` dump: [1; e] | [2; s; z; tm1d2];  TWO_ADIC_ROOT_OF_UNITY = GENERATOR^TRACE
   (ff-macros/src/montgomery/mod.rs: generator.modpow(&trace, &modulus)).
   None = one of the const fns would have failed its assertion (even modulus). *)
Definition sqrt_precomp_of_modulus (powm : Z -> Z -> Z) (p g : Z) : option (list Z) :=
  let pl := modulus_limbs p in
  match two_adic pl with
  | None => None
  | Some (s, t) =>
    if mod_4 pl =? 3 then
      match modulus_plus_one_div_four pl with
      | Some e => Some [1; val e]
      | None => Some [0]
      end
    else Some [2; s; powm g (val t); val (divide_by_2_round_down t)]
  end.

(* [TWO_ADICITY; TRACE; TRACE_MINUS_ONE_DIV_TWO; MODULUS_MINUS_ONE_DIV_TWO; MODULUS_BIT_SIZE] *)
Definition prime_consts_of_modulus (p : Z) : option (list Z) :=
  let pl := modulus_limbs p in
  match two_adic pl with
  | None => None
  | Some (s, t) =>
    Some [s; val t; val (divide_by_2_round_down t); val (modulus_minus_one_div_two pl); const_num_bits pl]
  end.
