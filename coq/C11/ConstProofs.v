(* C11 -- the limb-level computation of the square-root constants equals the integer definitions,
   for EVERY limb count and limb pattern (list induction lives in the C15 specs that are reused). *)
From V Require Import Base.Word C15.GenArith C15.LeafSpecs C15.BigIntModel C15.BigIntProofs C15.ShiftProofs
  C15.ConstProofs C15.RecodeProofs C15.DecimalProofs C11.ConstModel.

Lemma big_one_spec : forall N, (0 < N)%nat ->
  wf (big_one N) /\ length (big_one N) = N /\ val (big_one N) = 1.
Proof.
  intros [|n] HN; [lia|]. unfold big_one, from_u64, zeros. cbn [val length].
  rewrite val_repeat0, repeat_length. repeat split; try lia.
  apply wf_cons. split; [unfold u64, W64; lia | apply wf_repeat0].
Qed.

Lemma Wn_S_div4 n : Wn (S n) = 4 * (4611686018427387904 * Wn n).
Proof. rewrite Wn_S. unfold W64. ring. Qed.

(* (MODULUS + 1) / 4 : the carry-out of MODULUS + 1 (MODULUS = 2^(64N) - 1) is re-inserted as the top bit *)
Theorem modulus_plus_one_div_four_spec : forall p, wf p -> val p mod 4 = 3 ->
  exists r, modulus_plus_one_div_four p = Some r /\ wf r /\ length r = length p /\
            val r = (val p + 1) / 4 /\ 4 * val r - 1 = val p.
Proof.
  intros p Hp H3.
  assert (Hne : (0 < length p)%nat).
  { destruct p; [cbn in H3; discriminate | cbn [length]; lia]. }
  assert (Hfin : forall v, v = (val p + 1) / 4 -> v = (val p + 1) / 4 /\ 4 * v - 1 = val p).
  { intros v ->. split; [reflexivity|].
    pose proof (Z.div_mod (val p) 4 ltac:(lia)) as Hdm. rewrite H3 in Hdm.
    replace (val p + 1) with (0 + (val p / 4 + 1) * 4) by lia. rewrite Z.div_add by lia. rewrite Z.div_0_l by lia. lia. }
  unfold modulus_plus_one_div_four. rewrite mod_4_spec by exact Hp. rewrite H3. cbn [Z.eqb Pos.eqb].
  destruct (big_one_spec (length p) Hne) as (Hw1 & Hl1 & Hv1).
  unfold const_add_with_carry.
  pose proof (add_with_carry_spec p (big_one (length p)) Hp Hw1 (eq_sym Hl1)) as Hadd.
  destruct (add_with_carry p (big_one (length p))) as [m c]. destruct Hadd as (Hwm & Hlm & Hvm).
  rewrite Hv1 in Hvm.
  destruct (divide_by_2_round_down_spec m Hwm) as (Hwr & Hlr & Hvr).
  pose proof (val_bound p Hp) as Hbp. pose proof (val_bound m Hwm) as Hbm. rewrite Hlm in Hbm.
  destruct c; cbn [Z.b2z or_top_bit] in *.
  - (* MODULUS + 1 = 2^(64N): the sum wrapped to 0 *)
    assert (Hm0 : val m = 0) by lia.
    assert (HpW : val p + 1 = Wn (length p)) by lia.
    assert (Hr0 : val (divide_by_2_round_down m) = 0) by (rewrite Hvr, Hm0; reflexivity).
    assert (Hrne : divide_by_2_round_down m <> []).
    { intros E. rewrite E in Hlr. cbn [length] in Hlr. lia. }
    pose proof (Wn_pos (length p)) as HWp.
    destruct (set_top_bit_spec _ Hwr Hrne ltac:(rewrite Hr0, Hlr, Hlm; lia)) as (Hws & Hls & Hvs).
    destruct (divide_by_2_round_down_spec _ Hws) as (Hwf & Hlf & Hvf).
    eexists. split; [reflexivity|]. split; [exact Hwf|]. split; [lia|].
    apply Hfin. rewrite Hvf. rewrite Hr0, Hlr, Hlm in Hvs. rewrite HpW.
    destruct (length p) as [|n]; [lia|]. rewrite Wn_S_div4 in *.
    replace (val (set_top_bit (divide_by_2_round_down m))) with (2 * (4611686018427387904 * Wn n)) by lia.
    rewrite Z.mul_comm, Z.div_mul by lia.
    rewrite (Z.mul_comm 4), Z.div_mul by lia. ring.
  - destruct (divide_by_2_round_down_spec _ Hwr) as (Hwf & Hlf & Hvf).
    eexists. split; [reflexivity|]. split; [exact Hwf|]. split; [lia|].
    apply Hfin. rewrite Hvf, Hvr. replace (val m) with (val p + 1) by lia.
    rewrite Z.div_div by lia. reflexivity.
Qed.

Theorem modulus_plus_one_div_four_none : forall p, wf p -> val p mod 4 <> 3 ->
  modulus_plus_one_div_four p = None.
Proof.
  intros p Hp H3. unfold modulus_plus_one_div_four. rewrite mod_4_spec by exact Hp.
  destruct (Z.eqb_spec (val p mod 4) 3); [contradiction | reflexivity].
Qed.

(* TWO_ADICITY, TRACE, TRACE_MINUS_ONE_DIV_TWO, MODULUS_MINUS_ONE_DIV_TWO of an odd modulus > 1 *)
Theorem two_adic_constants_spec : forall p, wf p -> val p mod 2 = 1 -> 1 < val p ->
  exists s t tm, two_adicity p = Some s /\ trace p = Some t /\ trace_minus_one_div_two p = Some tm /\
    wf t /\ wf tm /\ 1 <= s /\ val t mod 2 = 1 /\ val t = 2 * val tm + 1 /\ 0 <= val tm /\
    val p - 1 = 2 ^ s * (2 * val tm + 1) /\
    val (modulus_minus_one_div_two p) = (val p - 1) / 2 /\
    val (modulus_minus_one_div_two p) = 2 ^ (s - 1) * (2 * val tm + 1).
Proof.
  intros p Hp Hodd Hgt.
  destruct (two_adic_spec p Hp Hodd Hgt) as (s & t & Hta & Hwt & Hlt & Hs & Hval & Hto).
  destruct (divide_by_2_round_down_spec t Hwt) as (Hwm & Hlm & Hvm).
  destruct (divide_by_2_round_down_spec p Hp) as (Hwh & Hlh & Hvh).
  exists s, t, (divide_by_2_round_down t).
  unfold two_adicity, trace, trace_minus_one_div_two, trace, modulus_minus_one_div_two. rewrite Hta. cbn [option_map fst snd].
  pose proof (Z.div_mod (val t) 2 ltac:(lia)) as Hdm. rewrite Hto in Hdm.
  pose proof (val_bound t Hwt) as Hbt.
  assert (Hs1 : 1 <= s).
  { destruct (Z.eq_dec s 0) as [-> | ]; [|lia]. change (2 ^ 0) with 1 in Hval.
    pose proof (Z.div_mod (val p) 2 ltac:(lia)) as Hdp. lia. }
  assert (Htt : val t = 2 * val (divide_by_2_round_down t) + 1) by lia.
  assert (Hhalf : (val p - 1) / 2 = 2 ^ (s - 1) * val t).
  { rewrite Hval. replace s with (1 + (s - 1)) at 1 by ring. rewrite Z.pow_add_r by lia.
    change (2 ^ 1) with 2. rewrite <- Z.mul_assoc, Z.mul_comm, Z.div_mul by lia. reflexivity. }
  assert (Hph : val p / 2 = (val p - 1) / 2).
  { pose proof (Z.div_mod (val p) 2 ltac:(lia)) as Hdp. rewrite Hodd in Hdp.
    replace (val p - 1) with (0 + (val p / 2) * 2) by lia. rewrite Z.div_add by lia. reflexivity. }
  rewrite Htt in Hval, Hhalf.
  repeat split; auto; lia.
Qed.

(* the limbs the model derives from an integer modulus represent that modulus *)
Lemma modulus_limbs_spec : forall p, 1 <= p ->
  wf (modulus_limbs p) /\ val (modulus_limbs p) = p /\ (0 < length (modulus_limbs p))%nat.
Proof.
  intros p Hp. unfold modulus_limbs.
  destruct (limbs_of_spec (num_limbs p) p ltac:(lia)) as (Hw & Hl & Hv).
  split; [exact Hw|]. rewrite Hl, Hv. unfold num_limbs.
  pose proof (Z.log2_nonneg p) as Hlg.
  pose proof (Z.div_pos (Z.log2 p) 64 Hlg ltac:(lia)) as Hq.
  split; [|lia].
  apply Z.mod_small. split; [lia|].
  rewrite Wn_pow2, Z2Nat.id by lia.
  pose proof (Z.log2_spec p ltac:(lia)) as Hs.
  assert (Hle : 2 ^ Z.succ (Z.log2 p) <= 2 ^ (64 * (Z.log2 p / 64 + 1))).
  { apply Z.pow_le_mono_r; [lia|].
    pose proof (Z.div_mod (Z.log2 p) 64 ltac:(lia)) as Hdm.
    pose proof (Z.mod_pos_bound (Z.log2 p) 64 ltac:(lia)). lia. }
  lia.
Qed.

(* what the model hands to the correspondence check for a modulus p = 3 mod 4: exactly [1; (p+1)/4] *)
Theorem sqrt_precomp_of_modulus_3mod4 : forall powm p g, 1 < p -> p mod 4 = 3 ->
  sqrt_precomp_of_modulus powm p g = Some [1; (p + 1) / 4].
Proof.
  intros powm p g Hp H3. unfold sqrt_precomp_of_modulus.
  destruct (modulus_limbs_spec p ltac:(lia)) as (Hw & Hv & _).
  assert (Hodd : val (modulus_limbs p) mod 2 = 1).
  { rewrite Hv. pose proof (Z.div_mod p 4 ltac:(lia)) as Hdm. rewrite H3 in Hdm.
    replace p with (1 + (2 * (p / 4) + 1) * 2) by lia. rewrite Z.mod_add by lia. reflexivity. }
  destruct (two_adic_spec _ Hw Hodd ltac:(lia)) as (s & t & Hta & _).
  rewrite Hta, mod_4_spec, Hv, H3 by exact Hw. cbn [Z.eqb Pos.eqb].
  destruct (modulus_plus_one_div_four_spec _ Hw ltac:(rewrite Hv; exact H3)) as (r & Hr & _ & _ & Hvr & _).
  rewrite Hr, Hvr, Hv. reflexivity.
Qed.

(* ... and for p = 1 mod 4: [2; s; g^t; tm] with p - 1 = 2^s (2 tm + 1), t = 2 tm + 1 *)
Theorem sqrt_precomp_of_modulus_1mod4 : forall powm p g, 1 < p -> p mod 4 = 1 ->
  exists s tm, sqrt_precomp_of_modulus powm p g = Some [2; s; powm g (2 * tm + 1); tm] /\
               1 <= s /\ 0 <= tm /\ p - 1 = 2 ^ s * (2 * tm + 1).
Proof.
  intros powm p g Hp H1. unfold sqrt_precomp_of_modulus.
  destruct (modulus_limbs_spec p ltac:(lia)) as (Hw & Hv & _).
  assert (Hodd : val (modulus_limbs p) mod 2 = 1).
  { rewrite Hv. pose proof (Z.div_mod p 4 ltac:(lia)) as Hdm. rewrite H1 in Hdm.
    replace p with (1 + (2 * (p / 4)) * 2) by lia. rewrite Z.mod_add by lia. reflexivity. }
  destruct (two_adic_constants_spec _ Hw Hodd ltac:(lia)) as
    (s & t & tm & Hs & Ht & Htm & _ & _ & Hs1 & _ & Htt & Htm0 & Hdec & _).
  unfold two_adicity, trace, trace_minus_one_div_two, trace in Hs, Ht, Htm.
  destruct (two_adic (modulus_limbs p)) as [[s' t']|]; [|discriminate].
  cbn [option_map fst snd] in Hs, Ht, Htm. injection Hs as ->. injection Ht as ->. injection Htm as Htm.
  rewrite mod_4_spec, Hv, H1 by exact Hw. cbn [Z.eqb Pos.eqb].
  exists s, (val tm). rewrite Htm, <- Htt. rewrite Hv in Hdec. repeat split; auto.
  rewrite Htt. exact Hdec.
Qed.
