(* C11 extension -- CubicExtField::legendre = self.norm().legendre()
   (ff/src/fields/models/cubic_extension.rs).  The model is SqrtModel.cubic_legendre:
   cu_norm a = self^q * (self^(q^2) * self) through the two table-driven Frobenius maps, with
   None = the `assert!(c1.is_zero() && c2.is_zero())` of `norm` fires.

   Proved here, over every commutative ring B (zero, one, add, sub, mul) with a reflexive boolean equality:
   if the table entries used by cu_frob 1 / cu_frob 2 (index `power mod 3`, i.e. entries 1 and 2)
   are  C1[1] = w, C1[2] = w^2, C2[1] = w^2, C2[2] = w  with  w^2 + w + 1 = 0, then for EVERY a
     cu_norm a = Some (cub_N a),   cub_N a = c0^3 + nr c1^3 + nr^2 c2^3 - 3 nr c0 c1 c2
   (the assertion is dead code, legendre never panics), cub_N is multiplicative, and therefore a
   square of the extension is never reported as a non-residue; zero is reported as Zero. *)
From Coq Require Import ZArith List Bool Ring Field Field_theory Lia.
From V Require Import Base.Field C11.SqrtModel C11.SqrtProofs C11.SmallFields C11.Run.
Import ListNotations.
Open Scope Z_scope.

Section CubicLegendre.
  Context {B : Type}.
  Variables (zero one : B) (add sub mul : B -> B -> B) (neg : B -> B) (eqb : B -> B -> bool).
  Hypothesis RT : ring_theory zero one add mul sub neg eq.
  Hypothesis eqb_refl : forall a, eqb a a = true.
  Add Ring BR3 : RT.

  Local Notation "0" := zero. Local Notation "1" := one.
  Local Infix "+" := add. Local Infix "*" := mul. Local Infix "-" := sub.
  Local Notation sqB := (is_sq mul).

  Variable nr : B.
  Variables frob_c1 frob_c2 : list B.
  Variable bleg : B -> Z.
  Variable w : B.

  (* the four table entries the two Frobenius maps of `norm` read *)
  Hypothesis c1_1 : nth 1 frob_c1 0 = w.
  Hypothesis c1_2 : nth 2 frob_c1 0 = w * w.
  Hypothesis c2_1 : nth 1 frob_c2 0 = w * w.
  Hypothesis c2_2 : nth 2 frob_c2 0 = w.
  Hypothesis w_root : w * w + w + 1 = 0.

  Local Notation cmul := (cu_mul add mul nr).
  Local Notation cfrob := (cu_frob zero mul frob_c1 frob_c2).
  Local Notation cnorm := (cu_norm zero add mul eqb nr frob_c1 frob_c2).
  Local Notation cleg := (cubic_legendre zero add mul eqb nr frob_c1 frob_c2 bleg).

  (* the norm form of B[X]/(X^3 - nr) *)
  Definition cub_N (a : B * B * B) : B :=
    let '(a0, a1, a2) := a in
    (a0 * a0 * a0 + nr * (a1 * a1 * a1)) + nr * nr * (a2 * a2 * a2) - (1 + 1 + 1) * nr * (a0 * a1 * a2).

  Lemma cub_w_sq : w * w = 0 - w - 1.
  Proof.
    transitivity ((w * w + w + 1) - w - 1); [timeout 60 ring|].
    rewrite w_root. reflexivity.
  Qed.

  Lemma cu_frob_1 : forall a0 a1 a2, cfrob 1%nat (a0, a1, a2) = (a0, a1 * w, a2 * (w * w)).
  Proof. intros. unfold cu_frob. change (1 mod 3)%nat with 1%nat. rewrite c1_1, c2_1. reflexivity. Qed.
  Lemma cu_frob_2 : forall a0 a1 a2, cfrob 2%nat (a0, a1, a2) = (a0, a1 * (w * w), a2 * w).
  Proof. intros. unfold cu_frob. change (2 mod 3)%nat with 2%nat. rewrite c1_2, c2_2. reflexivity. Qed.

  (* self^q * (self^(q^2) * self) = (N self, 0, 0) *)
  Lemma cubic_norm_product : forall a,
    cmul (cfrob 1%nat a) (cmul (cfrob 2%nat a) a) = (cub_N a, 0, 0).
  Proof.
    intros [[a0 a1] a2]. rewrite cu_frob_1, cu_frob_2. unfold cu_mul, cub_N.
    pose proof cub_w_sq as Hw.
    f_equal; [f_equal|]; timeout 120 ring [Hw].
  Qed.

  (* (1) the assertion of `norm` never fires; closed form *)
  Theorem cubic_norm_total : forall a, cnorm a = Some (cub_N a).
  Proof.
    intros a. unfold cu_norm. rewrite cubic_norm_product, !eqb_refl. reflexivity.
  Qed.

  Theorem cubic_legendre_total : forall a, cleg a = Some (bleg (cub_N a)).
  Proof. intros a. unfold cubic_legendre. rewrite cubic_norm_total. reflexivity. Qed.

  (* the norm form is multiplicative (no hypothesis on the tables) *)
  Theorem cub_N_mul : forall x y, cub_N (cmul x y) = cub_N x * cub_N y.
  Proof.
    intros [[x0 x1] x2] [[y0 y1] y2]. unfold cub_N, cu_mul. timeout 120 ring.
  Qed.

  Lemma cub_N_zero : cub_N (0, 0, 0) = 0.
  Proof. unfold cub_N. timeout 60 ring. Qed.
  Lemma cub_N_one : cub_N (1, 0, 0) = 1.
  Proof. unfold cub_N. timeout 60 ring. Qed.
  Lemma cub_N_base : forall x, cub_N (x, 0, 0) = x * x * x.
  Proof. intros x. unfold cub_N. timeout 60 ring. Qed.

  (* what the base field's legendre satisfies (same shape as QuadProofs.bleg_spec) *)
  Hypothesis bleg_spec : forall a,
    (a = 0 /\ bleg a = 0%Z) \/ (a <> 0 /\ sqB a /\ bleg a = 1%Z) \/ (~ sqB a /\ bleg a = (-1)%Z).

  (* (2) a square of the extension is never reported as a non-residue *)
  Theorem cubic_legendre_square : forall x,
    exists s, cleg (cmul x x) = Some s /\ s <> (-1)%Z /\ s = bleg (cub_N x * cub_N x).
  Proof.
    intros x. exists (bleg (cub_N x * cub_N x)). rewrite cubic_legendre_total, cub_N_mul.
    split; [reflexivity | split; [|reflexivity]].
    destruct (bleg_spec (cub_N x * cub_N x)) as [[_ Hb]|[[_ [_ Hb]]|[Hn _]]]; try (rewrite Hb; discriminate).
    exfalso. apply Hn. exists (cub_N x). reflexivity.
  Qed.

  (* more precisely: the symbol of x^2 is 0 when N x = 0 and 1 otherwise *)
  Theorem cubic_legendre_square_value : forall x,
    (cub_N x * cub_N x = 0 /\ cleg (cmul x x) = Some 0%Z) \/
    (cub_N x * cub_N x <> 0 /\ cleg (cmul x x) = Some 1%Z).
  Proof.
    intros x. rewrite cubic_legendre_total, cub_N_mul.
    destruct (bleg_spec (cub_N x * cub_N x)) as [[H0 Hb]|[[Hn0 [_ Hb]]|[Hn _]]].
    - left. rewrite Hb. split; [exact H0 | reflexivity].
    - right. rewrite Hb. split; [exact Hn0 | reflexivity].
    - exfalso. apply Hn. exists (cub_N x). reflexivity.
  Qed.

  Theorem cubic_legendre_zero : cleg (0, 0, 0) = Some 0%Z.
  Proof.
    rewrite cubic_legendre_total, cub_N_zero.
    destruct (bleg_spec 0) as [[_ Hb]|[[Hn _]|[Hn _]]].
    - rewrite Hb. reflexivity.
    - exfalso. apply Hn. reflexivity.
    - exfalso. apply Hn. exists 0. timeout 60 ring.
  Qed.

  (* symbol -1 is only ever reported on non-squares of the extension (contrapositive of (2)) *)
  Theorem cubic_legendre_minus_one_nonsquare : forall a,
    cleg a = Some (-1)%Z -> ~ exists x, cmul x x = a.
  Proof.
    intros a Ha [x Hx]. destruct (cubic_legendre_square x) as [s [Hs [Hne _]]].
    rewrite Hx, Ha in Hs. injection Hs as <-. apply Hne. reflexivity.
  Qed.

  (* elements of the base field: the symbol is that of x^3, hence of x when B is a field;
     here: a base-field square is reported 0 or 1 *)
  Theorem cubic_legendre_base_square : forall r,
    cleg (r * r, 0, 0) = Some (bleg ((r * r * r) * (r * r * r))) /\ bleg ((r * r * r) * (r * r * r)) <> (-1)%Z.
  Proof.
    intros r. rewrite cubic_legendre_total, cub_N_base.
    replace (r * r * (r * r) * (r * r)) with ((r * r * r) * (r * r * r)) by (timeout 60 ring).
    split; [reflexivity|].
    destruct (bleg_spec ((r * r * r) * (r * r * r))) as [[_ Hb]|[[_ [_ Hb]]|[Hn _]]]; try (rewrite Hb; discriminate).
    exfalso. apply Hn. exists (r * r * r). reflexivity.
  Qed.
End CubicLegendre.

(* whole-table form of the premises: FROBENIUS_COEFF_FP3_C1 = [1; w; w^2], _C2 = [1; w^2; w] *)
Section TableForm.
  Context {B : Type}.
  Variables (zero one : B) (add sub mul : B -> B -> B) (neg : B -> B) (eqb : B -> B -> bool).
  Hypothesis RT : ring_theory zero one add mul sub neg eq.
  Hypothesis eqb_refl : forall a, eqb a a = true.
  Variable nr : B.
  Variable bleg : B -> Z.
  Variable w : B.
  Hypothesis w_root : add (add (mul w w) w) one = zero.
  Let t1 := [one; w; mul w w].
  Let t2 := [one; mul w w; w].

  Theorem cubic_legendre_total_tables : forall a,
    cu_norm zero add mul eqb nr t1 t2 a = Some (cub_N one add sub mul nr a) /\
    cubic_legendre zero add mul eqb nr t1 t2 bleg a = Some (bleg (cub_N one add sub mul nr a)).
  Proof.
    intros a. split.
    - apply (cubic_norm_total zero one add sub mul neg eqb RT eqb_refl nr t1 t2 w); try reflexivity; exact w_root.
    - apply (cubic_legendre_total zero one add sub mul neg eqb RT eqb_refl nr t1 t2 bleg w); try reflexivity; exact w_root.
  Qed.

  Hypothesis bleg_spec : forall a,
    (a = zero /\ bleg a = 0%Z) \/ (a <> zero /\ is_sq mul a /\ bleg a = 1%Z) \/ (~ is_sq mul a /\ bleg a = (-1)%Z).

  Theorem cubic_legendre_square_tables : forall x,
    exists s, cubic_legendre zero add mul eqb nr t1 t2 bleg (cu_mul add mul nr x x) = Some s /\ s <> (-1)%Z.
  Proof.
    intros x.
    destruct (cubic_legendre_square zero one add sub mul neg eqb RT eqb_refl nr t1 t2 bleg w
                eq_refl eq_refl eq_refl eq_refl w_root bleg_spec x) as [s [Hs [Hne _]]].
    exists s. split; assumption.
  Qed.

  Theorem cubic_legendre_zero_tables :
    cubic_legendre zero add mul eqb nr t1 t2 bleg (zero, zero, zero) = Some 0%Z.
  Proof.
    exact (cubic_legendre_zero zero one add sub mul neg eqb RT eqb_refl nr t1 t2 bleg w
             eq_refl eq_refl eq_refl eq_refl w_root bleg_spec).
  Qed.
End TableForm.

(* ---------------- the toy Fp3 = F_7[v]/(v^3 - 3) of the correspondence harness ---------------- *)
(* tables [1;2;4] / [1;4;2] (w = 3^((7-1)/3) = 2), base legendre = Fp::legendre = x^((7-1)/2) classified *)
Definition F7_ring : ring_theory F7_0 F7_1 F7_add F7_mul F7_sub F7_neg eq := F_R F7_field.
Definition F7_leg (x : F7) : Z := legendre_pow F7_0 F7_1 F7_mul F7_eqb 3 x.
Definition toy7_c1 : list F7 := [F7_1; F7_2; F7_4].
Definition toy7_c2 : list F7 := [F7_1; F7_4; F7_2].
Definition toy7_cleg := cubic_legendre F7_0 F7_add F7_mul F7_eqb F7_3 toy7_c1 toy7_c2 F7_leg.
Definition toy7_cmul := cu_mul F7_add F7_mul F7_3.

Lemma F7_eqb_refl : forall a, F7_eqb a a = true.
Proof. intros a; destruct a; reflexivity. Qed.
Lemma toy7_w_root : F7_add (F7_add (F7_mul F7_2 F7_2) F7_2) F7_1 = F7_0.
Proof. vm_compute. reflexivity. Qed.
Lemma toy7_tables : toy7_c1 = [F7_1; F7_2; F7_mul F7_2 F7_2] /\ toy7_c2 = [F7_1; F7_mul F7_2 F7_2; F7_2].
Proof. vm_compute. split; reflexivity. Qed.
Lemma F7_leg_spec : forall a,
  (a = F7_0 /\ F7_leg a = 0%Z) \/ (a <> F7_0 /\ is_sq F7_mul a /\ F7_leg a = 1%Z) \/
  (~ is_sq F7_mul a /\ F7_leg a = (-1)%Z).
Proof.
  intros a; destruct a.
  - left; split; reflexivity.
  - right; left; split; [discriminate | split; [exists F7_1; reflexivity | reflexivity]].
  - right; left; split; [discriminate | split; [exists F7_3; reflexivity | reflexivity]].
  - right; right; split; [intros [r H]; destruct r; discriminate H | reflexivity].
  - right; left; split; [discriminate | split; [exists F7_2; reflexivity | reflexivity]].
  - right; right; split; [intros [r H]; destruct r; discriminate H | reflexivity].
  - right; right; split; [intros [r H]; destruct r; discriminate H | reflexivity].
Qed.

Theorem toy7_cubic_legendre_total : forall a,
  toy7_cleg a = Some (F7_leg (cub_N F7_1 F7_add F7_sub F7_mul F7_3 a)).
Proof.
  intros a.
  exact (proj2 (cubic_legendre_total_tables F7_0 F7_1 F7_add F7_sub F7_mul F7_neg F7_eqb F7_ring F7_eqb_refl
                  F7_3 F7_leg F7_2 toy7_w_root a)).
Qed.
Theorem toy7_cubic_legendre_square : forall x, exists s, toy7_cleg (toy7_cmul x x) = Some s /\ s <> (-1)%Z.
Proof.
  exact (cubic_legendre_square_tables F7_0 F7_1 F7_add F7_sub F7_mul F7_neg F7_eqb F7_ring F7_eqb_refl
           F7_3 F7_leg F7_2 toy7_w_root F7_leg_spec).
Qed.
Theorem toy7_cubic_legendre_zero : toy7_cleg (F7_0, F7_0, F7_0) = Some 0%Z.
Proof.
  exact (cubic_legendre_zero_tables F7_0 F7_1 F7_add F7_sub F7_mul F7_neg F7_eqb F7_ring F7_eqb_refl
           F7_3 F7_leg F7_2 toy7_w_root F7_leg_spec).
Qed.

(* exhaustive: on all 343 elements the symbol is Some s, s = 1 exactly on the non-zero squares
   (squares enumerated by squaring all 343 elements), s = 0 exactly at zero, s = -1 elsewhere *)
Definition F7_all : list F7 := [F7_0; F7_1; F7_2; F7_3; F7_4; F7_5; F7_6].
Definition toy7_all : list (F7 * F7 * F7) :=
  flat_map (fun x0 => flat_map (fun x1 => map (fun x2 => (x0, x1, x2)) F7_all) F7_all) F7_all.
Definition toy7_eqb (a b : F7 * F7 * F7) : bool :=
  let '(a0, a1, a2) := a in let '(b0, b1, b2) := b in F7_eqb a0 b0 && F7_eqb a1 b1 && F7_eqb a2 b2.
Definition toy7_squares : list (F7 * F7 * F7) := map (fun x => toy7_cmul x x) toy7_all.
Definition toy7_is_square (a : F7 * F7 * F7) : bool := existsb (toy7_eqb a) toy7_squares.
Definition toy7_exact_check : bool :=
  forallb (fun a =>
    match toy7_cleg a with
    | Some s =>
      if toy7_eqb a (F7_0, F7_0, F7_0) then s =? 0
      else if toy7_is_square a then s =? 1 else s =? -1
    | None => false
    end) toy7_all.
Lemma toy7_exact_ok : toy7_exact_check = true /\ length toy7_all = 343%nat.
Proof. vm_compute. split; reflexivity. Qed.
(* 171 non-zero squares, 171 non-squares *)
Lemma toy7_counts :
  length (filter (fun a => match toy7_cleg a with Some 1 => true | _ => false end) toy7_all) = 171%nat /\
  length (filter (fun a => match toy7_cleg a with Some (-1) => true | _ => false end) toy7_all) = 171%nat.
Proof. vm_compute. split; reflexivity. Qed.

(* the same configuration on the plain-integer dictionary ZpOps 7 with Run.fp_leg, i.e. exactly what
   Run.SF3 executes for the toy Fp3 of the correspondence harness *)
Definition range7z : list Z := [0; 1; 2; 3; 4; 5; 6].
Definition toy7z_all : list (Z * Z * Z) :=
  flat_map (fun x0 => flat_map (fun x1 => map (fun x2 => (x0, x1, x2)) range7z) range7z) range7z.
Definition toy7z_leg :=
  let F := ZpOps 7 in cubic_legendre (f0 F) (fadd F) (fmul F) (feqb F) 3 [1; 2; 4] [1; 4; 2] (fp_leg 7).
Definition toy7z_mul := let F := ZpOps 7 in cu_mul (fadd F) (fmul F) 3.
Definition toy7z_eqb (a b : Z * Z * Z) : bool :=
  let '(a0, a1, a2) := a in let '(b0, b1, b2) := b in (a0 =? b0) && (a1 =? b1) && (a2 =? b2).
Definition toy7z_exact_check : bool :=
  forallb (fun a =>
    match toy7z_leg a with
    | Some s =>
      if toy7z_eqb a (0, 0, 0) then s =? 0
      else if existsb (toy7z_eqb a) (map (fun x => toy7z_mul x x) toy7z_all) then s =? 1 else s =? -1
    | None => false
    end) toy7z_all.
Lemma toy7z_exact_ok : toy7z_exact_check = true /\ length toy7z_all = 343%nat.
Proof. vm_compute. split; reflexivity. Qed.

(* ======================================================================================================
   (3) Euler form and exactness.  Vocabulary of Base.Field (B : Fops T, E = CubicOps B nr) so that the
   NumTh development applies: the table-driven Frobenius with entries w = nr^((q-1)/3), w^2 is the q-th
   power map of E (NumTh/Frob.v, needs characteristic p, q = p^k = 3m+1 and x^q = x on B), hence
   (N a, 0, 0) = a^q * (a^(q^2) * a) = a^(q^2+q+1) and, q = 2h+1,
       a^((q^3-1)/2) = ((N a)^((q-1)/2), 0, 0)   computed in E,
   i.e. CubicExtField::legendre (base symbol of the norm) = the Euler symbol of a in the extension.
   With the Tonelli-Shanks premises for K := E (field, Fermat, a 2^s-th root of unity of exact order) the
   classification is exact in both directions (SqrtProofs.legendre_euler applied to E).
   ====================================================================================================== *)
From Coq Require Import Znumtheory.
From V Require Import Base.ZpField Base.ZpTransfer6 C02.Cubic C02.CubicProofs C02.CycProofs C02.FrobProofs
  NumTh.Binom NumTh.Fermat NumTh.Frob NumTh.ExtFermat NumTh.Euler.
(* ---------------- (3) Euler form ---------------- *)
Section CubicEuler.
  Context {T : Type} (B : Fops T).
  Hypothesis Rth : ring_theory (f0 B) (f1 B) (fadd B) (fmul B) (fsub B) (fneg B) eq.
  Hypothesis eqb_refl : forall a, feqb B a a = true.
  Add Ring BRE : Rth.
  Variable nr : T.
  Local Notation E := (CubicOps B nr).
  Let EthC := Eth3 B Rth nr.
  Add Ring ERE : (Eth3 B Rth nr).
  Local Notation zero := (f0 B). Local Notation one := (f1 B).
  Local Notation "a * b" := (fmul B a b).

  Variable p : Z.
  Variables k m h : nat.
  Local Notation N := (Z.to_nat p ^ k)%nat.
  Hypothesis Hp : prime p.
  Hypothesis Hchar : nmul B (Z.to_nat p) one = zero.       (* characteristic p *)
  Hypothesis H3 : (N = 3 * m + 1)%nat.                      (* 3 | q - 1 *)
  Hypothesis H2 : (N = 2 * h + 1)%nat.                      (* q odd *)
  Hypothesis HN : forall x : T, npow B x N = x.             (* B has q = p^k elements: x^q = x *)
  Let w := npow B nr m.                                     (* nr^((q-1)/3) *)
  Hypothesis w_root : fadd B (fadd B (w * w) w) one = zero.
  Variable bleg : T -> Z.

  Let t1 := [one; w; w * w].
  Let t2 := [one; w * w; w].
  Local Notation cfrob := (cu_frob zero (fmul B) t1 t2).
  Local Notation N3 := (cub_N one (fadd B) (fsub B) (fmul B) nr).

  Lemma cu_mul_cmul : forall x y, cu_mul (fadd B) (fmul B) nr x y = fmul E x y.
  Proof. intros [[x0 x1] x2] [[y0 y1] y2]. reflexivity. Qed.

  Lemma w_sq' : w * w = fsub B (fsub B zero w) one.
  Proof. exact (cub_w_sq zero one (fadd B) (fsub B) (fmul B) (fneg B) Rth w w_root). Qed.

  Lemma frob1_pow : forall a, cfrob 1%nat a = npow E a N.
  Proof.
    intros [[a0 a1] a2].
    rewrite <- (cubic_frobenius_is_npow B Rth nr p k m (fun y => y) (fun y => y * w) (fun y => y * (w * w)));
      try assumption; try reflexivity.
    intros y. symmetry. apply HN.
  Qed.

  Lemma frob2_pow : forall a, cfrob 2%nat a = npow E (npow E a N) N.
  Proof.
    intros [[a0 a1] a2]. rewrite <- !frob1_pow.
    unfold cu_frob. change (2 mod 3)%nat with 2%nat. change (1 mod 3)%nat with 1%nat. cbn [nth t1 t2].
    pose proof w_sq' as Hw.
    f_equal; [f_equal|]; timeout 60 ring [Hw].
  Qed.

  (* (N a, 0, 0) = a^(q + q^2 + 1) *)
  Lemma norm_is_pow : forall a, (N3 a, zero, zero) = npow E a (N + (N * N + 1)).
  Proof.
    intros a.
    rewrite <- (cubic_norm_product zero one (fadd B) (fsub B) (fmul B) (fneg B) Rth nr t1 t2 w
                  eq_refl eq_refl eq_refl eq_refl w_root a).
    rewrite !cu_mul_cmul, frob1_pow, frob2_pow.
    rewrite !(npow_add E EthC), (npow_mul_exp E EthC). cbn [npow].
    generalize (npow E a N); intros u. generalize (npow E u N); intros v.
    timeout 60 ring.
  Qed.

  (* Euler form, iterated-product exponents: a^((q^2+q+1) * (q-1)/2) = (N a)^((q-1)/2) embedded *)
  Theorem cubic_euler_npow : forall a,
    npow E a ((N + (N * N + 1)) * h) = (npow B (N3 a) h, zero, zero).
  Proof.
    intros a. rewrite (npow_mul_exp E EthC), <- norm_is_pow. apply (npow_embed3 B Rth nr).
  Qed.

  Let q := p ^ Z.of_nat k.
  Lemma q_of_nat : Z.of_nat N = q.
  Proof.
    assert (Hp1 : 1 < p) by (destruct Hp; assumption).
    unfold q. rewrite Nat2Z.inj_pow, Z2Nat.id by lia. reflexivity.
  Qed.
  Lemma half_q : (q - 1) / 2 = Z.of_nat h.
  Proof.
    rewrite <- q_of_nat, H2. replace (Z.of_nat (2 * h + 1) - 1) with (Z.of_nat h * 2)%Z by lia.
    apply Z.div_mul. lia.
  Qed.
  Lemma half_q3 : (q ^ 3 - 1) / 2 = Z.of_nat ((N + (N * N + 1)) * h).
  Proof.
    replace (q ^ 3) with (q * q * q)%Z by ring. rewrite <- q_of_nat.
    replace (Z.of_nat N * Z.of_nat N * Z.of_nat N - 1)%Z with (Z.of_nat ((N + (N * N + 1)) * h) * 2)%Z.
    - apply Z.div_mul. lia.
    - rewrite !Nat2Z.inj_mul, !Nat2Z.inj_add, !Nat2Z.inj_mul.
      assert (E2 : Z.of_nat N = (2 * Z.of_nat h + 1)%Z) by lia.
      rewrite E2. change (Z.of_nat 1) with 1. ring.
  Qed.

  (* Euler form with the specification-level power of Base.Field *)
  Theorem cubic_euler_fpow : forall a,
    fpow E a ((q ^ 3 - 1) / 2) = (fpow B (N3 a) ((q - 1) / 2), zero, zero).
  Proof.
    intros a. rewrite half_q3, half_q.
    rewrite (fpow_npow E EthC), (fpow_npow B Rth) by lia. rewrite !Nat2Z.id. apply cubic_euler_npow.
  Qed.

  (* CubicExtField::legendre = the Euler symbol of a^((q^3-1)/2) computed in the extension
     (same classification: 0 -> 0, 1 -> 1, anything else -> -1) *)
  Theorem cubic_legendre_euler : forall a,
    cubic_legendre zero (fadd B) (fmul B) (feqb B) nr t1 t2
      (legendre_pow zero one (fmul B) (feqb B) ((q - 1) / 2)) a =
    Some (legendre_pow (f0 E) (f1 E) (fmul E) (feqb E) ((q ^ 3 - 1) / 2) a).
  Proof.
    intros a.
    rewrite (proj2 (cubic_legendre_total_tables zero one (fadd B) (fsub B) (fmul B) (fneg B) (feqb B) Rth eqb_refl
                      nr _ w w_root a)).
    f_equal. unfold legendre_pow.
    rewrite !pow_fpow by (first [rewrite half_q | rewrite half_q3]; lia).
    rewrite cubic_euler_fpow.
    unfold is_zero, is_one. cbn [feqb f0 f1 CubicOps]. unfold ceqb, c0, c1, c2. cbn [fst snd].
    rewrite !eqb_refl, !andb_true_r. reflexivity.
  Qed.

  (* ---- exactness (both directions), when the extension is a field with Fermat's little theorem and a
          2^s-th root of unity of exact order (the Tonelli-Shanks premises of Props/C11.v for K := Fp3) ---- *)
  Section Exact.
    Hypothesis Eth : field_theory (f0 E) (f1 E) (fadd E) (fmul E) (fsub E) (fneg E) (fdiv E) (finv E) eq.
    Hypothesis Eeqb_spec : forall a b, feqb E a b = true <-> a = b.
    Variables (s : nat) (tm : Z) (z : T * T * T).
    Hypothesis s_pos : (1 <= s)%nat.
    Hypothesis tm_nonneg : 0 <= tm.
    Hypothesis q3_dec : (q ^ 3 - 1 = 2 ^ Z.of_nat s * (2 * tm + 1))%Z.            (* q^3 - 1 = 2^s * odd *)
    Hypothesis fermatE : forall x, x <> f0 E -> pow (f1 E) (fmul E) x (2 ^ Z.of_nat s * (2 * tm + 1))%Z = f1 E.
    Hypothesis z_order : sqn (fmul E) (s - 1) z = fneg E (f1 E).

    Lemma half_is_half : half s tm = (q ^ 3 - 1) / 2.
    Proof.
      unfold half. rewrite q3_dec.
      replace s with (S (s - 1)) at 2 by lia. rewrite Nat2Z.inj_succ, Z.pow_succ_r by lia.
      replace (2 * 2 ^ Z.of_nat (s - 1) * (2 * tm + 1))%Z with (2 ^ Z.of_nat (s - 1) * (2 * tm + 1) * 2)%Z by ring.
      symmetry. apply Z.div_mul. lia.
    Qed.

    Theorem cubic_legendre_exact : forall a,
      let cleg := cubic_legendre zero (fadd B) (fmul B) (feqb B) nr t1 t2
                    (legendre_pow zero one (fmul B) (feqb B) ((q - 1) / 2)) in
      (a = f0 E /\ cleg a = Some 0%Z) \/
      (a <> f0 E /\ is_sq (fmul E) a /\ cleg a = Some 1%Z) \/
      (~ is_sq (fmul E) a /\ cleg a = Some (-1)%Z).
    Proof.
      intros a cleg. unfold cleg. rewrite cubic_legendre_euler, <- half_is_half.
      destruct (legendre_euler (f0 E) (f1 E) (fadd E) (fsub E) (fmul E) (fneg E) (finv E) (fdiv E) (feqb E)
                  Eth Eeqb_spec s tm z s_pos tm_nonneg fermatE z_order a) as [[H0 Hb]|[[Hn0 [Hsq Hb]]|[Hnsq Hb]]].
      - left. rewrite Hb. split; [exact H0 | reflexivity].
      - right. left. rewrite Hb. split; [exact Hn0 | split; [exact Hsq | reflexivity]].
      - right. right. rewrite Hb. split; [exact Hnsq | reflexivity].
    Qed.
  End Exact.
End CubicEuler.

(* ---------------- instance: Fp3 = Fp[v]/(v^3 - nr) over the real prime field (FpOps p, k = 1) ---------------- *)
Section Fp3Euler.
  Variable p : Z.
  Hypothesis Hp : prime p.
  Hypothesis Hp2 : 2 < p.
  Hypothesis Hp3 : p mod 3 = 1.
  Local Notation F := (FpOps p).
  Variable nr : Fp p.
  Let w := fpow F nr ((p - 1) / 3).
  Hypothesis w_root : fadd F (fadd F (fmul F w w) w) (f1 F) = f0 F.

  Let m := Z.to_nat ((p - 1) / 3).
  Let h := Z.to_nat ((p - 1) / 2).
  Lemma fp3_m : (Z.to_nat p ^ 1 = 3 * m + 1)%nat.
  Proof.
    rewrite Nat.pow_1_r. unfold m. pose proof (Z.div_mod p 3 ltac:(lia)) as Hd. rewrite Hp3 in Hd.
    assert (E : (p - 1) / 3 = p / 3).
    { replace (p - 1) with (p / 3 * 3) by lia. apply Z.div_mul. lia. }
    rewrite E. assert (0 <= p / 3) by (apply Z.div_pos; lia). lia.
  Qed.
  Lemma fp3_h : (Z.to_nat p ^ 1 = 2 * h + 1)%nat.
  Proof.
    rewrite Nat.pow_1_r. unfold h. pose proof (prime_gt2_odd p Hp Hp2) as Ho.
    pose proof (Z.div_mod p 2 ltac:(lia)) as Hd. rewrite Ho in Hd.
    assert (E : (p - 1) / 2 = p / 2).
    { replace (p - 1) with (p / 2 * 2) by lia. apply Z.div_mul. lia. }
    rewrite E. assert (0 <= p / 2) by (apply Z.div_pos; lia). lia.
  Qed.
  Lemma fp3_w : w = npow F nr m.
  Proof.
    unfold w, m. apply (fpow_npow F (FpOps_ring p)). apply Z.div_pos; lia.
  Qed.

  Theorem fp3_cubic_legendre_euler : forall a : Fp p * Fp p * Fp p,
    cubic_legendre (f0 F) (fadd F) (fmul F) (feqb F) nr [f1 F; w; fmul F w w] [f1 F; fmul F w w; w]
      (legendre_pow (f0 F) (f1 F) (fmul F) (feqb F) ((p - 1) / 2)) a =
    Some (legendre_pow (f0 (CubicOps F nr)) (f1 (CubicOps F nr)) (fmul (CubicOps F nr)) (feqb (CubicOps F nr))
            ((p ^ 3 - 1) / 2) a).
  Proof.
    intros a. pose proof fp3_w as Hw. pose proof w_root as Hr. rewrite Hw in Hr |- *.
    pose proof (cubic_legendre_euler F (FpOps_ring p) (fun x => proj2 (FpOps_eqb p x x) eq_refl) nr p 1 m h
                  Hp (Fp_char p Hp) fp3_m fp3_h (fun x => fermat_xpk p Hp x 1) Hr a) as H.
    change (Z.of_nat 1) with 1 in H. rewrite Z.pow_1_r in H. exact H.
  Qed.

  (* exactness over the real Fp3: nr a non-cube; p^3 - 1 = 2^s (2 tm + 1); z of exact order 2^s *)
  Section Fp3Exact.
    Hypothesis Hnc : forall c : Fp p, fmul F (fmul F c c) c <> nr.
    Local Notation E3 := (CubicOps F nr).
    Variables (s : nat) (tm : Z) (z : Fp p * Fp p * Fp p).
    Hypothesis s_pos : (1 <= s)%nat.
    Hypothesis tm_nonneg : 0 <= tm.
    Hypothesis p3_dec : p ^ 3 - 1 = 2 ^ Z.of_nat s * (2 * tm + 1).
    Hypothesis z_order : sqn (fmul E3) (s - 1) z = fneg E3 (f1 E3).

    Theorem fp3_cubic_legendre_exact : forall a : Fp p * Fp p * Fp p,
      let cleg := cubic_legendre (f0 F) (fadd F) (fmul F) (feqb F) nr [f1 F; w; fmul F w w] [f1 F; fmul F w w; w]
                    (legendre_pow (f0 F) (f1 F) (fmul F) (feqb F) ((p - 1) / 2)) in
      (a = f0 E3 /\ cleg a = Some 0) \/
      (a <> f0 E3 /\ is_sq (fmul E3) a /\ cleg a = Some 1) \/
      (~ is_sq (fmul E3) a /\ cleg a = Some (-1)).
    Proof.
      intros a. pose proof fp3_w as Hw. pose proof w_root as Hr. rewrite Hw in Hr |- *.
      assert (Hdec : (p ^ Z.of_nat 1) ^ 3 - 1 = 2 ^ Z.of_nat s * (2 * tm + 1)).
      { change (Z.of_nat 1) with 1. rewrite Z.pow_1_r. exact p3_dec. }
      assert (Hfer : forall x, x <> f0 E3 -> pow (f1 E3) (fmul E3) x (2 ^ Z.of_nat s * (2 * tm + 1)) = f1 E3).
      { intros x Hx. rewrite pow_fpow.
        - rewrite <- p3_dec. apply (fp3_fermat p Hp nr Hp3 Hnc x Hx).
        - apply Z.mul_nonneg_nonneg; [apply Z.pow_nonneg|]; lia. }
      pose proof (cubic_legendre_exact F (FpOps_ring p) (fun x => proj2 (FpOps_eqb p x x) eq_refl) nr p 1 m h
                    Hp (Fp_char p Hp) fp3_m fp3_h (fun x => fermat_xpk p Hp x 1) Hr
                    (Fp3_th p Hp nr Hnc) (Fp3_eqb p nr) s tm z s_pos tm_nonneg Hdec Hfer z_order a) as H.
      change (Z.of_nat 1) with 1 in H. rewrite Z.pow_1_r in H. exact H.
    Qed.
  End Fp3Exact.
End Fp3Euler.

(* toy: p = 7, nr = 3, w = 3^2 = 2 *)
Lemma toy7_fp_w_root :
  let F := FpOps 7 in let w := fpow F (fp_of 7 3) ((7 - 1) / 3) in
  fadd F (fadd F (fmul F w w) w) (f1 F) = f0 F.
Proof. apply fp_eq. vm_compute. reflexivity. Qed.
Theorem toy7_fp3_legendre_euler : forall a : Fp 7 * Fp 7 * Fp 7,
  let F := FpOps 7 in let w := fpow F (fp_of 7 3) ((7 - 1) / 3) in
  cubic_legendre (f0 F) (fadd F) (fmul F) (feqb F) (fp_of 7 3) [f1 F; w; fmul F w w] [f1 F; fmul F w w; w]
    (legendre_pow (f0 F) (f1 F) (fmul F) (feqb F) ((7 - 1) / 2)) a =
  Some (legendre_pow (f0 (CubicOps F (fp_of 7 3))) (f1 (CubicOps F (fp_of 7 3))) (fmul (CubicOps F (fp_of 7 3)))
          (feqb (CubicOps F (fp_of 7 3))) ((7 ^ 3 - 1) / 2) a).
Proof.
  exact (fp3_cubic_legendre_euler 7 prime_7 ltac:(lia) eq_refl (fp_of 7 3) toy7_fp_w_root).
Qed.
Lemma toy7_fp_noncube : forall c : Fp 7, fmul (FpOps 7) (fmul (FpOps 7) c c) c <> fp_of 7 3.
Proof.
  apply (noncube_of_symbol 7 prime_7 ltac:(lia) (fp_of 7 3) eq_refl).
  - intros H. apply (f_equal (@fpv 7)) in H. vm_compute in H. discriminate H.
  - intros H. apply (f_equal (@fpv 7)) in H. vm_compute in H. discriminate H.
Qed.
(* 7^3 - 1 = 342 = 2 * 171: s = 1, tm = 85, z = -1 *)
Theorem toy7_fp3_legendre_exact : forall a : Fp 7 * Fp 7 * Fp 7,
  let F := FpOps 7 in let w := fpow F (fp_of 7 3) ((7 - 1) / 3) in
  let E3 := CubicOps F (fp_of 7 3) in
  let cleg := cubic_legendre (f0 F) (fadd F) (fmul F) (feqb F) (fp_of 7 3) [f1 F; w; fmul F w w] [f1 F; fmul F w w; w]
                (legendre_pow (f0 F) (f1 F) (fmul F) (feqb F) ((7 - 1) / 2)) in
  (a = f0 E3 /\ cleg a = Some 0) \/
  (a <> f0 E3 /\ is_sq (fmul E3) a /\ cleg a = Some 1) \/
  (~ is_sq (fmul E3) a /\ cleg a = Some (-1)).
Proof.
  exact (fp3_cubic_legendre_exact 7 prime_7 ltac:(lia) eq_refl (fp_of 7 3) toy7_fp_w_root toy7_fp_noncube
           1%nat 85 (fneg (CubicOps (FpOps 7) (fp_of 7 3)) (f1 (CubicOps (FpOps 7) (fp_of 7 3))))
           (le_n 1) ltac:(lia) eq_refl eq_refl).
Qed.
