(* C11 -- proofs about QuadExtField::sqrt / legendre and the curve-coordinate helpers.
   The base field is abstract; what is assumed of its `sqrt` / `legendre` (section
   variables bsqrt / bleg) is exactly what SqrtProofs.v proves of the Tonelli-Shanks /
   Case3Mod4 / Fp::legendre models (see BaseTS at the end: the premises are discharged). *)
From Coq Require Import ZArith List Bool Field Ring Lia.
From V Require Import C11.SqrtModel C11.SqrtProofs.
Open Scope Z_scope.

Section QuadFacts.
  Context {B : Type}.
  Variables (zero one : B) (add sub mul : B -> B -> B) (neg inv : B -> B) (div : B -> B -> B)
            (eqb : B -> B -> bool).
  Hypothesis FT : field_theory zero one add mul sub neg div inv eq.
  Hypothesis eqb_spec : forall a b, eqb a b = true <-> a = b.
  Add Field BF : FT.

  Local Notation "0" := zero. Local Notation "1" := one.
  Local Infix "+" := add. Local Infix "*" := mul. Local Infix "-" := sub.
  Local Notation "- x" := (neg x).
  Local Notation sqB := (is_sq mul).

  Local Notation L_mul_eq0 := (mul_eq0 zero one add sub mul neg inv div eqb FT eqb_spec).
  Local Notation L_mul_neq0 := (mul_neq0 zero one add sub mul neg inv div eqb FT eqb_spec).
  Local Notation L_eq_dec := (eq_dec eqb eqb_spec).
  Local Notation L_eqb_false := (eqb_false eqb eqb_spec).
  Local Notation L_one_neq_zero := (one_neq_zero zero one add sub mul neg inv div FT).
  Local Notation L_inv_neq0 := (inv_neq0 zero one add sub mul neg inv div FT).

  Variable nr : B.
  Variable two_inv : B.
  Variable bsqrt : B -> sqrt_res B.
  Variable bleg : B -> Z.

  (* what the base field's sqrt / legendre satisfy *)
  Hypothesis bsqrt_sound : forall a y, bsqrt a = SqSome y -> y * y = a.
  Hypothesis bsqrt_complete : forall a, sqB a -> exists y, bsqrt a = SqSome y.
  Hypothesis bsqrt_total : forall a, (exists y, bsqrt a = SqSome y) \/ bsqrt a = SqNone.
  Hypothesis bleg_spec : forall a,
    (a = 0 /\ bleg a = 0%Z) \/ (a <> 0 /\ sqB a /\ bleg a = 1%Z) \/ (~ sqB a /\ bleg a = (-1)%Z).
  (* mathematics of the tower *)
  Hypothesis nr_nonsquare : ~ sqB nr.
  Hypothesis nonsq_mul : forall a b, ~ sqB a -> ~ sqB b -> sqB (a * b).
  Hypothesis two_inv_spec : (1 + 1) * two_inv = 1.

  Local Notation qmul := (q_mul add mul nr).
  Local Notation qnorm := (q_norm sub mul nr).
  Local Notation qsqrt := (quad_sqrt zero add sub mul inv eqb nr two_inv bsqrt bleg).
  Definition is_sq2 (a : B * B) : Prop := exists w, qmul w w = a.

  Lemma nr_neq0 : nr <> 0.
  Proof. intros H. apply nr_nonsquare. exists 0. rewrite H. ring. Qed.

  Lemma two_neq0 : 1 + 1 <> 0.
  Proof. intros H. apply L_one_neq_zero. rewrite <- two_inv_spec, H. ring. Qed.

  Lemma two_inv_eq : two_inv = inv (1 + 1).
  Proof.
    transitivity (inv (1 + 1) * ((1 + 1) * two_inv)); [field; exact two_neq0 | rewrite two_inv_spec; ring].
  Qed.

  Lemma two_inv_neq0 : two_inv <> 0.
  Proof. intros H. apply L_one_neq_zero. rewrite <- two_inv_spec, H. ring. Qed.

  Lemma eqb_refl_true : forall a, eqb a a = true.
  Proof. intros a. apply eqb_spec. reflexivity. Qed.

  Lemma sq_zero : sqB 0.
  Proof. exists 0. ring. Qed.

  (* nr * u^2 is a non-residue for u <> 0 *)
  Lemma nr_usq_nonsquare : forall u, u <> 0 -> ~ sqB (nr * (u * u)).
  Proof.
    intros u Hu [r Hr]. apply nr_nonsquare. exists (r * inv u).
    transitivity ((r * r) * (inv u * inv u)); [ring|]. rewrite Hr. field. exact Hu.
  Qed.

  Lemma inv_nonsquare : forall a, ~ sqB a -> ~ sqB (inv a).
  Proof.
    intros a Ha [r Hr]. assert (Ha0 : a <> 0) by (intros H; apply Ha; rewrite H; apply sq_zero).
    assert (Hr0 : r <> 0).
    { intros H. apply (L_inv_neq0 a Ha0). rewrite <- Hr, H. ring. }
    apply Ha. exists (inv r).
    assert (H1 : a * (r * r) = 1) by (rewrite Hr; field; exact Ha0).
    transitivity ((a * (r * r)) * (inv r * inv r)); [rewrite H1; ring | field; exact Hr0].
  Qed.

  (* ---------------- soundness ---------------- *)
  Theorem quad_sqrt_sound : forall a y, qsqrt a = SqSome y -> qmul y y = a.
  Proof.
    intros [c0 c1] y. unfold quad_sqrt. cbn [fst snd]. destruct (eqb c1 0) eqn:E1.
    - apply eqb_spec in E1. subst c1. destruct (bleg c0 =? 1)%Z.
      + destruct (bsqrt c0) as [r| | |] eqn:Er; cbn [sq_map]; try discriminate.
        intros H. injection H as <-. apply bsqrt_sound in Er. unfold q_mul. cbn [fst snd].
        f_equal; [rewrite <- Er|]; ring.
      + destruct (bsqrt (c0 * inv nr)) as [r| | |] eqn:Er; cbn [sq_map]; try discriminate.
        intros H. injection H as <-. apply bsqrt_sound in Er. unfold q_mul. cbn [fst snd].
        f_equal; [|ring].
        transitivity (nr * (r * r)); [ring|]. rewrite Er. field. exact nr_neq0.
    - destruct (bsqrt (qnorm (c0, c1))) as [al| | |]; try discriminate.
      match goal with |- context [bsqrt ?d] => destruct (bsqrt d) as [r0| | |] end; try discriminate.
      destruct (eqb r0 0); [discriminate|].
      match goal with |- context [q_eqb eqb ?c ?a] => destruct (q_eqb eqb c a) eqn:Eq end.
      + intros H. injection H as <-. unfold q_eqb in Eq. apply andb_true_iff in Eq. destruct Eq as [Ea Eb].
        apply eqb_spec in Ea. apply eqb_spec in Eb. cbn [fst snd] in Ea, Eb.
        rewrite (surjective_pairing (qmul _ _)). f_equal; assumption.
      + destruct (quad_legendre sub mul nr bleg (c0, c1) =? -1)%Z; discriminate.
  Qed.

  (* ---------------- the c1 = 0 branch always finds a root ---------------- *)
  Lemma quad_sqrt_c1_zero : forall c0, exists y, qsqrt (c0, 0) = SqSome y.
  Proof.
    intros c0. unfold quad_sqrt. cbn [fst snd]. rewrite eqb_refl_true.
    destruct (bleg_spec c0) as [[H0 Hb]|[[Hn0 [Hsq Hb]]|[Hnsq Hb]]]; rewrite Hb; cbn [Z.eqb Pos.eqb].
    - (* c0 = 0 *)
      destruct (bsqrt_complete (c0 * inv nr)) as [r Hr]; [rewrite H0; exists 0; ring|].
      rewrite Hr. cbn [sq_map]. eexists. reflexivity.
    - destruct (bsqrt_complete c0 Hsq) as [r Hr]. rewrite Hr. cbn [sq_map]. eexists. reflexivity.
    - destruct (bsqrt_complete (c0 * inv nr)) as [r Hr].
      { apply nonsq_mul; [exact Hnsq | apply inv_nonsquare; exact nr_nonsquare]. }
      rewrite Hr. cbn [sq_map]. eexists. reflexivity.
  Qed.

  (* ---------------- the complex method ---------------- *)
  Lemma complex_tail : forall c0 c1 D, c1 <> 0 -> D <> 0 -> sqB D ->
    D * (c0 - D) = nr * ((c1 * two_inv) * (c1 * two_inv)) ->
    exists y,
      match bsqrt D with
      | SqSome r0 =>
        if eqb r0 0 then SqPanic
        else if q_eqb eqb (qmul (r0, (c1 * two_inv) * inv r0) (r0, (c1 * two_inv) * inv r0)) (c0, c1)
             then SqSome (r0, (c1 * two_inv) * inv r0)
             else if (quad_legendre sub mul nr bleg (c0, c1) =? -1)%Z then SqNone else SqPanic
      | SqNone => SqPanic
      | SqPanic => SqPanic
      | SqFuel => SqFuel
      end = SqSome y.
  Proof.
    intros c0 c1 D Hc1 HD HsqD HP.
    destruct (bsqrt_complete D HsqD) as [r0 Hr]. rewrite Hr. apply bsqrt_sound in Hr.
    assert (Hr0 : r0 <> 0) by (intros H; apply HD; rewrite <- Hr, H; ring).
    replace (eqb r0 0) with false by (symmetry; apply L_eqb_false; exact Hr0).
    set (u := c1 * two_inv) in *.
    assert (E0 : r0 * r0 + nr * ((u * inv r0) * (u * inv r0)) = c0).
    { transitivity (r0 * r0 + (nr * (u * u)) * (inv r0 * inv r0)); [ring|].
      rewrite <- HP, <- Hr. field. exact Hr0. }
    assert (E1 : r0 * (u * inv r0) + (u * inv r0) * r0 = c1).
    { unfold u. rewrite two_inv_eq. field. split; first [exact two_neq0 | exact Hr0]. }
    unfold q_eqb, q_mul. cbn [fst snd]. rewrite E0, E1, !eqb_refl_true. cbn [andb]. eexists. reflexivity.
  Qed.

  Lemma quad_sqrt_complex : forall c0 c1 al, c1 <> 0 -> bsqrt (qnorm (c0, c1)) = SqSome al ->
    exists y, qsqrt (c0, c1) = SqSome y.
  Proof.
    intros c0 c1 al Hc1 Hal. unfold quad_sqrt. cbn [fst snd].
    replace (eqb c1 0) with false by (symmetry; apply L_eqb_false; exact Hc1).
    rewrite Hal. apply bsqrt_sound in Hal. unfold q_norm in Hal. cbn [fst snd] in Hal.
    set (delta := (al + c0) * two_inv).
    set (u := c1 * two_inv).
    assert (Hu : u <> 0) by (apply L_mul_neq0; [exact Hc1 | exact two_inv_neq0]).
    assert (HP : delta * (delta - al) = nr * (u * u)).
    { transitivity ((c0 * c0 - al * al) * (two_inv * two_inv)).
      - unfold delta. rewrite two_inv_eq. field. exact two_neq0.
      - rewrite Hal. unfold u. ring. }
    assert (Hsum : c0 - delta = delta - al).
    { unfold delta. rewrite two_inv_eq. field. exact two_neq0. }
    assert (Hsum2 : c0 - (delta - al) = delta).
    { unfold delta. rewrite two_inv_eq. field. exact two_neq0. }
    pose proof (nr_usq_nonsquare u Hu) as HN.
    assert (HPn0 : nr * (u * u) <> 0) by (intros H; apply HN; rewrite H; apply sq_zero).
    assert (Hd1 : delta <> 0) by (intros H; apply HPn0; rewrite <- HP, H; ring).
    assert (Hd2 : delta - al <> 0) by (intros H; apply HPn0; rewrite <- HP, H; ring).
    destruct (bleg_spec delta) as [[H0 Hb]|[[Hn0 [Hsq Hb]]|[Hnsq Hb]]]; rewrite Hb; cbn [Z.eqb Pos.eqb].
    - contradiction.
    - apply (complex_tail c0 c1 delta Hc1 Hd1 Hsq). fold u. rewrite Hsum. exact HP.
    - assert (Hsq2 : sqB (delta - al)).
      { destruct (bleg_spec (delta - al)) as [[H0 _]|[[_ [Hsq _]]|[Hnsq2 _]]]; [contradiction | exact Hsq |].
        exfalso. apply HN. rewrite <- HP. apply nonsq_mul; assumption. }
      apply (complex_tail c0 c1 (delta - al) Hc1 Hd2 Hsq2). fold u. rewrite Hsum2.
      rewrite <- HP. ring.
  Qed.

  Lemma norm_of_square : forall w, qnorm (qmul w w) = qnorm w * qnorm w.
  Proof. intros [w0 w1]. unfold q_norm, q_mul. cbn [fst snd]. ring. Qed.

  (* ---------------- completeness: every square of the extension gets a root ---------------- *)
  Theorem quad_sqrt_complete : forall a, is_sq2 a -> exists y, qsqrt a = SqSome y /\ qmul y y = a.
  Proof.
    intros [c0 c1] [w Hw].
    assert (H : exists y, qsqrt (c0, c1) = SqSome y).
    { destruct (L_eq_dec c1 0) as [Hc1|Hc1].
      - rewrite Hc1. apply quad_sqrt_c1_zero.
      - destruct (bsqrt_complete (qnorm (c0, c1))) as [al Hal].
        { exists (qnorm w). rewrite <- Hw. symmetry. apply norm_of_square. }
        apply (quad_sqrt_complex c0 c1 al Hc1 Hal). }
    destruct H as [y Hy]. exists y. split; [exact Hy | apply quad_sqrt_sound; exact Hy].
  Qed.

  (* ---------------- totality: never a panic, never out of fuel; None only on non-squares ---------------- *)
  Theorem quad_sqrt_total : forall a,
    (exists y, qsqrt a = SqSome y /\ qmul y y = a) \/ (qsqrt a = SqNone /\ ~ is_sq2 a).
  Proof.
    intros [c0 c1].
    assert (H : (exists y, qsqrt (c0, c1) = SqSome y) \/ qsqrt (c0, c1) = SqNone).
    { destruct (L_eq_dec c1 0) as [Hc1|Hc1].
      - left. rewrite Hc1. apply quad_sqrt_c1_zero.
      - destruct (bsqrt_total (qnorm (c0, c1))) as [[al Hal]|Hn].
        + left. apply (quad_sqrt_complex c0 c1 al Hc1 Hal).
        + right. unfold quad_sqrt. cbn [fst snd].
          replace (eqb c1 0) with false by (symmetry; apply L_eqb_false; exact Hc1).
          rewrite Hn. reflexivity. }
    destruct H as [[y Hy]|Hn].
    - left. exists y. split; [exact Hy | apply quad_sqrt_sound; exact Hy].
    - right. split; [exact Hn|]. intros Hs. destruct (quad_sqrt_complete _ Hs) as [y [Hy _]]. congruence.
  Qed.

  Theorem quad_sqrt_zero : exists y, qsqrt (0, 0) = SqSome y /\ y = (0, 0).
  Proof.
    destruct (quad_sqrt_c1_zero 0) as [y Hy]. exists y. split; [exact Hy|].
    pose proof (quad_sqrt_sound _ _ Hy) as Hs. destruct y as [y0 y1].
    unfold quad_sqrt in Hy. cbn [fst snd] in Hy. rewrite eqb_refl_true in Hy.
    destruct (bleg zero =? 1)%Z.
    - destruct (bsqrt 0) as [r| | |] eqn:Er; cbn [sq_map] in Hy; try discriminate.
      injection Hy as <- <-. apply bsqrt_sound in Er.
      destruct (L_mul_eq0 _ _ Er) as [H|H]; rewrite H; reflexivity.
    - destruct (bsqrt (0 * inv nr)) as [r| | |] eqn:Er; cbn [sq_map] in Hy; try discriminate.
      injection Hy as <- <-. apply bsqrt_sound in Er.
      assert (Er' : r * r = 0) by (rewrite Er; ring).
      destruct (L_mul_eq0 _ _ Er') as [H|H]; rewrite H; reflexivity.
  Qed.

  (* QuadExtField::legendre = base legendre of the norm; the norm is multiplicative, and the
     Legendre symbol of a square of the extension is never -1 *)
  Theorem quad_legendre_square : forall w, quad_legendre sub mul nr bleg (qmul w w) <> (-1)%Z.
  Proof.
    intros w. unfold quad_legendre. rewrite norm_of_square.
    destruct (bleg_spec (qnorm w * qnorm w)) as [[_ Hb]|[[_ [_ Hb]]|[Hn _]]]; try (rewrite Hb; discriminate).
    exfalso. apply Hn. exists (qnorm w). reflexivity.
  Qed.
  (* QuadExtField::legendre is exact: the norm is a square of the base field iff the element is a
     square of the extension, and vanishes only at zero *)
  Theorem quad_legendre_exact : forall a,
    (a = (0, 0) /\ quad_legendre sub mul nr bleg a = 0%Z) \/
    (a <> (0, 0) /\ is_sq2 a /\ quad_legendre sub mul nr bleg a = 1%Z) \/
    (~ is_sq2 a /\ quad_legendre sub mul nr bleg a = (-1)%Z).
  Proof.
    intros [c0 c1]. unfold quad_legendre.
    destruct (bleg_spec (qnorm (c0, c1))) as [[H0 Hb]|[[Hn0 [Hsq Hb]]|[Hnsq Hb]]].
    - left. split; [|exact Hb]. unfold q_norm in H0. cbn [fst snd] in H0.
      assert (E : c0 * c0 = nr * (c1 * c1)).
      { transitivity ((c0 * c0 - nr * (c1 * c1)) + nr * (c1 * c1)); [ring | rewrite H0; ring]. }
      destruct (L_eq_dec c1 0) as [Hc|Hc].
      + rewrite Hc in *. assert (E' : c0 * c0 = 0) by (rewrite E; ring).
        destruct (L_mul_eq0 _ _ E') as [H|H]; rewrite H; reflexivity.
      + exfalso. apply nr_nonsquare. exists (c0 * inv c1).
        transitivity ((c0 * c0) * (inv c1 * inv c1)); [ring|]. rewrite E. field. exact Hc.
    - right. left. split; [|split; [|exact Hb]].
      + intros E. injection E as E0 E1. apply Hn0. rewrite E0, E1. unfold q_norm. cbn [fst snd]. ring.
      + assert (H : exists y, qsqrt (c0, c1) = SqSome y).
        { destruct (L_eq_dec c1 0) as [Hc|Hc].
          - rewrite Hc. apply quad_sqrt_c1_zero.
          - destruct (bsqrt_complete _ Hsq) as [al Hal]. apply (quad_sqrt_complex c0 c1 al Hc Hal). }
        destruct H as [y Hy]. exists y. apply quad_sqrt_sound. exact Hy.
    - right. right. split; [|exact Hb]. intros [w Hw]. apply Hnsq. exists (qnorm w).
      rewrite <- Hw. symmetry. apply norm_of_square.
  Qed.
End QuadFacts.

(* ---------------- curve-coordinate recovery ---------------- *)
Section CurveFacts.
  Context {K : Type}.
  Variables (zero one : K) (add sub mul : K -> K -> K) (neg inv : K -> K) (div : K -> K -> K)
            (eqb ltb : K -> K -> bool).
  Hypothesis FT : field_theory zero one add mul sub neg div inv eq.
  Hypothesis eqb_spec : forall a b, eqb a b = true <-> a = b.
  Hypothesis ltb_asym : forall a b, ltb a b = true -> ltb b a = false.
  Add Field KF2 : FT.
  Local Notation "0" := zero. Local Notation "1" := one.
  Local Infix "+" := add. Local Infix "*" := mul. Local Infix "-" := sub.
  Local Notation "- x" := (neg x).

  Variable ksqrt : K -> sqrt_res K.
  Hypothesis ksqrt_sound : forall a y, ksqrt a = SqSome y -> y * y = a.
  Hypothesis ksqrt_total : forall a, (exists y, ksqrt a = SqSome y) \/ (ksqrt a = SqNone /\ ~ is_sq mul a).

  Local Notation ys := (ys_from_x zero add mul neg eqb ltb ksqrt).
  Local Notation xs := (xs_from_y zero one sub mul neg inv eqb ltb ksqrt).

  Lemma sw_rhs_spec : forall a b x, sw_rhs zero add mul eqb a b x = x * x * x + a * x + b.
  Proof.
    intros a b x. unfold sw_rhs. destruct (eqb a 0) eqn:E.
    - apply eqb_spec in E. rewrite E. ring.
    - ring.
  Qed.

  (* both solutions, smaller first; None exactly when x^3 + a x + b is not a square *)
  Theorem ys_from_x_spec : forall a b x,
    (exists y1 y2, ys a b x = SqSome (y1, y2) /\
        y1 * y1 = x * x * x + a * x + b /\ y2 = - y1 /\ ltb y2 y1 = false /\
        (forall y, y * y = x * x * x + a * x + b -> y = y1 \/ y = y2)) \/
    (ys a b x = SqNone /\ forall y, y * y <> x * x * x + a * x + b).
  Proof.
    intros a b x. unfold ys_from_x. rewrite sw_rhs_spec. set (rhs := x * x * x + a * x + b).
    destruct (ksqrt_total rhs) as [[y Hy]|[Hn Hns]].
    - left. rewrite Hy. cbn [sq_map]. apply ksqrt_sound in Hy.
      assert (Hroots : forall y', y' * y' = rhs -> y' = y \/ y' = - y).
      { intros y' Hy'. apply (sq_eq zero one add sub mul neg inv div eqb FT eqb_spec). rewrite Hy', Hy. reflexivity. }
      destruct (ltb y (- y)) eqn:El.
      + exists y, (- y). repeat split; auto.
      + exists (- y), y. repeat split; auto.
        * rewrite <- Hy. ring.
        * ring.
        * intros y' Hy'. destruct (Hroots y' Hy'); auto.
    - right. rewrite Hn. split; [reflexivity|]. intros y Hy. apply Hns. exists y. exact Hy.
  Qed.

  (* twisted Edwards: None when the denominator a - d y^2 vanishes or (1-y^2)/(a-d y^2) is not a square;
     otherwise both x with a x^2 + y^2 = 1 + d x^2 y^2, smaller first *)
  Theorem xs_from_y_spec : forall a d y,
    (exists x1 x2, xs a d y = SqSome (x1, x2) /\ a - y * y * d <> 0 /\
        a * (x1 * x1) + y * y = 1 + d * (x1 * x1) * (y * y) /\ x2 = - x1 /\ ltb x2 x1 = false /\
        (forall x, a * (x * x) + y * y = 1 + d * (x * x) * (y * y) -> x = x1 \/ x = x2)) \/
    (xs a d y = SqNone /\
       (a - y * y * d = 0 \/ forall x, a * (x * x) + y * y <> 1 + d * (x * x) * (y * y))).
  Proof.
    intros a d y. unfold xs_from_y. set (den := a - y * y * d). set (num := 1 - y * y).
    destruct (eqb den 0) eqn:Ed.
    - right. apply eqb_spec in Ed. split; [reflexivity | left; exact Ed].
    - assert (Hden : den <> 0) by (apply (eqb_false eqb eqb_spec); exact Ed).
      assert (Hcurve : forall x, a * (x * x) + y * y = 1 + d * (x * x) * (y * y) <-> x * x = inv den * num).
      { intros x. unfold den, num. split; intros H.
        - assert (E : (x * x) * (a - y * y * d) = 1 - y * y).
          { transitivity (a * (x * x) + y * y - (d * (x * x) * (y * y)) - y * y); [ring | rewrite H; ring]. }
          transitivity (inv (a - y * y * d) * ((x * x) * (a - y * y * d))); [field; exact Hden | rewrite E; reflexivity].
        - transitivity ((x * x) * (a - y * y * d) + y * y + d * (x * x) * (y * y)); [ring|].
          rewrite H. field. exact Hden. }
      destruct (ksqrt_total (inv den * num)) as [[x Hx]|[Hn Hns]].
      + left. rewrite Hx. cbn [sq_map]. apply ksqrt_sound in Hx.
        assert (Hroots : forall x', x' * x' = inv den * num -> x' = x \/ x' = - x).
        { intros x' Hx'. apply (sq_eq zero one add sub mul neg inv div eqb FT eqb_spec). rewrite Hx', Hx. reflexivity. }
        destruct (ltb (- x) x) eqn:El.
        * exists (- x), x. repeat split; auto.
          -- apply Hcurve. rewrite <- Hx. ring.
          -- ring.
          -- intros x' Hx'. apply Hcurve in Hx'. destruct (Hroots x' Hx'); auto.
        * exists x, (- x). repeat split; auto.
          -- apply Hcurve. exact Hx.
          -- intros x' Hx'. apply Hcurve in Hx'. exact (Hroots x' Hx').
      + right. rewrite Hn. split; [reflexivity|]. right. intros x Hx. apply Hns. exists x. apply Hcurve. exact Hx.
  Qed.
End CurveFacts.
