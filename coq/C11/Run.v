(* Uniform case interpreter for the C11 model.
   Case layout (all ops):
     a0 = [cfg_id]                      (selects the Rust type in the harness; ignored here)
     a1 = [deg; p] or [deg; p; nr]      field: Fp, Fp2 = Fp[X]/(X^2-nr), Fp3 = Fp[X]/(X^3-nr)
     a2 = prime-field SQRT_PRECOMP      [0] none | [1; (p+1)/4] Case3Mod4 | [2; s; z; tm1d2] TonelliShanks
     a3 = Fp3 data                      [s; tm1d2; z0; z1; z2; C1_0; C1_1; C1_2; C2_0; C2_1; C2_2]
          prime fields: [GENERATOR];  Fp2: empty
     a4.. operands (coordinate lists)
   Status: [0] ok, [2] panic, [1;7] model fuel exhausted, [1;8] legendre <> Euler criterion, [9] unsupported. *)
From V Require Import Base.Word Base.Field C15.BigIntModel C11.SqrtModel C11.ConstModel.

Definition ok (r : list (list Z)) : list (list Z) := [0] :: r.
Definition err (k : Z) : list (list Z) := [[1; k]].
Definition panic : list (list Z) := [[2]].
Definition unsupported : list (list Z) := [[9]].
Definition arg (n : nat) (a : list (list Z)) : list Z := nth n a [].
Definition argn (n i : nat) (a : list (list Z)) : Z := nth i (arg n a) 0.

(* a field together with its sqrt / legendre / Ord, as the Rust `Field` impl provides them *)
Record SF (T : Type) := mkSF {
  sf_ops : Fops T;
  sf_sqrt : T -> sqrt_res T;
  sf_leg : T -> option Z;            (* None = panic *)
  sf_ltb : T -> T -> bool
}.
Arguments sf_ops {T}. Arguments sf_sqrt {T}. Arguments sf_leg {T}. Arguments sf_ltb {T}.

(* Ord: Fp by integer value; extensions lexicographic from the highest coefficient *)
Fixpoint lex_lt (a b : list Z) : bool :=
  match a, b with
  | x :: a', y :: b' => if x <? y then true else if y <? x then false else lex_lt a' b'
  | _, _ => false
  end.
Definition coords_ltb {T} (F : Fops T) (a b : T) : bool := lex_lt (rev (fcoords F a)) (rev (fcoords F b)).

Definition fp_precomp (p : Z) (l : list Z) : precomp Z :=
  match l with
  | [1; e] => Pre3Mod4 e
  | [2; s; z; tm] => PreTS (Z.to_nat s) (z mod p) tm
  | _ => PreNone
  end.

Definition fp_leg (p : Z) (x : Z) : Z :=
  let F := ZpOps p in legendre_pow (f0 F) (f1 F) (fmul F) (feqb F) ((p - 1) / 2) x.
Definition fp_sqrt (p : Z) (pc : precomp Z) (x : Z) : sqrt_res Z :=
  let F := ZpOps p in field_sqrt (f0 F) (f1 F) (fmul F) (feqb F) pc (fp_leg p) x.

Definition SF1 (p : Z) (pc : precomp Z) : SF Z :=
  mkSF Z (ZpOps p) (fp_sqrt p pc) (fun x => Some (fp_leg p x)) (coords_ltb (ZpOps p)).

Definition SF2 (p nr : Z) (pc : precomp Z) : SF (Z * Z) :=
  let B := ZpOps p in
  let Q := QuadOps B nr in
  let two_inv := ((p + 1) / 2) mod p in
  mkSF (Z * Z) Q
    (quad_sqrt (f0 B) (fadd B) (fsub B) (fmul B) (finv B) (feqb B) nr two_inv (fp_sqrt p pc) (fp_leg p))
    (fun x => Some (quad_legendre (fsub B) (fmul B) nr (fp_leg p) x))
    (coords_ltb Q).

Definition SF3 (p nr : Z) (d : list Z) : SF (Z * Z * Z) :=
  let B := ZpOps p in
  let C := CubicOps B nr in
  let s := Z.to_nat (nth 0 d 0) in
  let tm := nth 1 d 0 in
  let z := fof C (skipn 2 d) in
  let fc1 := map (fun x => x mod p) (firstn 3 (skipn 5 d)) in
  let fc2 := map (fun x => x mod p) (firstn 3 (skipn 8 d)) in
  let leg := cubic_legendre (f0 B) (fadd B) (fmul B) (feqb B) nr fc1 fc2 (fp_leg p) in
  let leg1 := fun x => match leg x with Some l => l | None => 1 end in   (* a panicking legendre inside debug_assert = panic *)
  mkSF (Z * Z * Z) C
    (sqrt_ts (f0 C) (f1 C) (fmul C) (feqb C) s z tm leg1)
    leg
    (coords_ltb C).

Definition out_sqrt {T} (F : Fops T) (r : sqrt_res T) : list (list Z) :=
  match r with
  | SqSome y => ok [[1]; fcoords F y]
  | SqNone => ok [[0]]
  | SqPanic => panic
  | SqFuel => err 7
  end.
Definition out_pair {T} (F : Fops T) (r : sqrt_res (T * T)) : list (list Z) :=
  match r with
  | SqSome (y1, y2) => ok [[1]; fcoords F y1; fcoords F y2]
  | SqNone => ok [[0]]
  | SqPanic => panic
  | SqFuel => err 7
  end.

(* `legendre` on an extension: besides mirroring the code (legendre of the norm) the model re-computes
   Euler's criterion x^((q-1)/2) in the extension and reports [1;8] if the two ever differ, so the
   correspondence run also tests `legendre = Euler` on every generated extension element *)
Definition euler_leg {T} (F : Fops T) (q : Z) (x : T) : Z :=
  legendre_pow (f0 F) (f1 F) (fmul F) (feqb F) ((q - 1) / 2) x.

Definition run_ops {T} (S : SF T) (q : Z) (op : Z) (a : list (list Z)) : list (list Z) :=
  let F := sf_ops S in
  let x4 := fof F (arg 4 a) in
  let x5 := fof F (arg 5 a) in
  let x6 := fof F (arg 6 a) in
  match op with
  | 1 | 3 => out_sqrt F (sf_sqrt S x4)
  | 2 => match sf_leg S x4 with
         | Some l => if l =? euler_leg F q x4
                     (* the symbol and the three LegendreSymbol predicates is_zero / is_qr / is_qnr: a partition *)
                     then ok [[l; Z.b2z (l =? 0); Z.b2z (l =? 1); Z.b2z (l =? -1)]] else err 8
         | None => panic
         end
  | 4 => out_pair F (ys_from_x (f0 F) (fadd F) (fmul F) (fneg F) (feqb F) (sf_ltb S) (sf_sqrt S) x4 x5 x6)
  | 5 => out_pair F (xs_from_y (f0 F) (f1 F) (fsub F) (fmul F) (fneg F) (finv F) (feqb F) (sf_ltb S) (sf_sqrt S) x4 x5 x6)
  | _ => unsupported
  end.

(* op 7 `precomp_ok`: do the constants the Rust configuration holds satisfy the premises of the
   C11 theorems?  (p = 3 mod 4 and e = (p+1)/4;  q - 1 = 2^s (2 tm + 1) and z^(2^(s-1)) = -1;
   the tower non-residue is a quadratic non-residue;  Fp3: Frobenius coefficients nr^((p^i-1)/3)
   and their squares, nr not a cube.)  The harness answers the constant 1 for every compiled
   configuration, so a wrong constant in /repo is a disagreement. *)
Definition pc_ok_fp (p : Z) (l : list Z) : bool :=
  let F := ZpOps p in
  match l with
  | [1; e] => (p mod 4 =? 3) && (4 * e =? p + 1)
  | [2; s; z; tm] => (0 <? s) && (0 <=? tm) && (p - 1 =? 2 ^ s * (2 * tm + 1)) &&
                     (0 <=? z) && (z <? p) && (sqn (fmul F) (Z.to_nat (s - 1)) z =? p - 1)
  | _ => false
  end.
Definition pc_ok_fp3 (p nr : Z) (d : list Z) : bool :=
  let B := ZpOps p in
  let C := CubicOps B nr in
  let s := nth 0 d 0 in
  let tm := nth 1 d 0 in
  let z := fof C (skipn 2 d) in
  let c1 := firstn 3 (skipn 5 d) in
  let c2 := firstn 3 (skipn 8 d) in
  let e1 := map (fun i => pow_mod nr ((p ^ i - 1) / 3) p) [0; 1; 2] in
  (0 <? s) && (0 <=? tm) && (p * p * p - 1 =? 2 ^ s * (2 * tm + 1)) &&
  feqb C (sqn (fmul C) (Z.to_nat (s - 1)) z) (fneg C (f1 C)) &&
  (p mod 3 =? 1) && negb (nth 1 e1 1 =? 1) &&
  forallb (fun xy => fst xy =? snd xy) (combine c1 e1) &&
  forallb (fun xy => fst xy =? snd xy) (combine c2 (map (fun x => (x * x) mod p) e1)) &&
  (length c1 =? 3)%nat && (length c2 =? 3)%nat.
Definition precomp_ok (deg p nr : Z) (a : list (list Z)) : bool :=
  match deg with
  | 1 => pc_ok_fp p (arg 2 a)
  | 2 => pc_ok_fp p (arg 2 a) && (fp_leg p nr =? -1)
  | 3 => pc_ok_fp p (arg 2 a) && pc_ok_fp3 p nr (arg 3 a)
  | _ => false
  end.

(* op 7 on a prime field additionally answers with the constants themselves, COMPUTED BY THE MODEL FROM THE
   MODULUS (limb-level, C11/ConstModel.v: const_add_with_carry / divide_by_2_round_down / top-bit fix-up for
   (p+1)/4; two_adic_valuation / two_adic_coefficient for TWO_ADICITY / TRACE) and the configured GENERATOR g:
     [SQRT_PRECOMP as [1; (p+1)/4] | [2; s; g^t; (t-1)/2]];
     [TWO_ADICITY; TRACE; TRACE_MINUS_ONE_DIV_TWO; MODULUS_MINUS_ONE_DIV_TWO; MODULUS_BIT_SIZE];
     [GENERATOR; TWO_ADIC_ROOT_OF_UNITY = g^TRACE]
   the harness prints what the compiled configuration holds, so a wrong constant is a disagreement even when
   no generated sqrt input happens to expose it.  [1;6] = the const fns would fail (even modulus). *)
Definition consts_out (p g : Z) : option (list (list Z)) :=
  match sqrt_precomp_of_modulus (fun b e => pow_mod b e p) p g, prime_consts_of_modulus p with
  | Some pc, Some cs => Some [pc; cs; [g mod p; pow_mod g (nth 1 cs 0) p]]
  | _, _ => None
  end.

Definition run_C11 (op : Z) (a : list (list Z)) : list (list Z) :=
  let deg := argn 1 0 a in
  let p := argn 1 1 a in
  let nr := (argn 1 2 a) mod p in
  let pc := fp_precomp p (arg 2 a) in
  if p <=? 2 then unsupported else
  if op =? 7 then
    (if deg =? 1 then
       match consts_out p (argn 3 0 a) with
       | Some cs => ok ([Z.b2z (precomp_ok deg p nr a)] :: cs)
       | None => err 6
       end
     else ok [[Z.b2z (precomp_ok deg p nr a)]]) else
  match deg with
  | 1 => run_ops (SF1 p pc) p op a
  | 2 => run_ops (SF2 p nr pc) (p * p) op a
  | 3 => run_ops (SF3 p nr (arg 3 a)) (p * p * p) op a
  | _ => unsupported
  end.
