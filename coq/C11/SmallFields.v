(* C11 -- concrete small fields for the non-vacuity Examples of Props/C11.v: every section
   hypothesis used by the C11 theorems (field laws, Fermat, the 2^s-th root of unity, the
   non-residue of the tower) is *proved* here for GF(13) (two-adicity 2, Tonelli-Shanks) and
   GF(7) (3 mod 4), by exhaustive computation.  Generated text, hand-checked; no axioms. *)
From Coq Require Import ZArith List Bool Field Lia.
From V Require Import C11.SqrtModel C11.SqrtProofs.
Open Scope Z_scope.

(* ---------------- GF(13) as a 13-constructor inductive type (Leibniz equality, closed proofs) ---------------- *)
Inductive F13 : Set := F13_0 | F13_1 | F13_2 | F13_3 | F13_4 | F13_5 | F13_6 | F13_7 | F13_8 | F13_9 | F13_10 | F13_11 | F13_12.
Definition F13_toZ (a : F13) : Z := match a with | F13_0 => 0 | F13_1 => 1 | F13_2 => 2 | F13_3 => 3 | F13_4 => 4 | F13_5 => 5 | F13_6 => 6 | F13_7 => 7 | F13_8 => 8 | F13_9 => 9 | F13_10 => 10 | F13_11 => 11 | F13_12 => 12 end.
Definition F13_ofZ (z : Z) : F13 := match z mod 13 with | 1 => F13_1 | 2 => F13_2 | 3 => F13_3 | 4 => F13_4 | 5 => F13_5 | 6 => F13_6 | 7 => F13_7 | 8 => F13_8 | 9 => F13_9 | 10 => F13_10 | 11 => F13_11 | 12 => F13_12 | _ => F13_0 end.
Definition F13_add (a b : F13) := F13_ofZ (F13_toZ a + F13_toZ b).
Definition F13_sub (a b : F13) := F13_ofZ (F13_toZ a - F13_toZ b).
Definition F13_mul (a b : F13) := F13_ofZ (F13_toZ a * F13_toZ b).
Definition F13_neg (a : F13) := F13_ofZ (- F13_toZ a).
Definition F13_inv (a : F13) := F13_ofZ (F13_toZ a ^ 11).
Definition F13_div (a b : F13) := F13_mul a (F13_inv b).
Definition F13_eqb (a b : F13) := F13_toZ a =? F13_toZ b.
Definition F13_ltb (a b : F13) := F13_toZ a <? F13_toZ b.

Lemma F13_field : field_theory F13_0 F13_1 F13_add F13_mul F13_sub F13_neg F13_div F13_inv eq.
Proof.
  constructor; [constructor| | |].
  - intros a; destruct a; reflexivity.
  - intros a b; destruct a, b; reflexivity.
  - intros a b c; destruct a, b, c; reflexivity.
  - intros a; destruct a; reflexivity.
  - intros a b; destruct a, b; reflexivity.
  - intros a b c; destruct a, b, c; reflexivity.
  - intros a b c; destruct a, b, c; reflexivity.
  - intros a b; destruct a, b; reflexivity.
  - intros a; destruct a; reflexivity.
  - discriminate.
  - intros a b; reflexivity.
  - intros a H; destruct a; try reflexivity; contradiction H; reflexivity.
Qed.
Lemma F13_eqb_spec : forall a b, F13_eqb a b = true <-> a = b.
Proof. intros a b; destruct a, b; split; intros H; first [reflexivity | discriminate H]. Qed.
Lemma F13_ltb_asym : forall a b, F13_ltb a b = true -> F13_ltb b a = false.
Proof. intros a b; destruct a, b; intros H; first [reflexivity | discriminate H]. Qed.

(* ---------------- GF(7) as a 7-constructor inductive type (Leibniz equality, closed proofs) ---------------- *)
Inductive F7 : Set := F7_0 | F7_1 | F7_2 | F7_3 | F7_4 | F7_5 | F7_6.
Definition F7_toZ (a : F7) : Z := match a with | F7_0 => 0 | F7_1 => 1 | F7_2 => 2 | F7_3 => 3 | F7_4 => 4 | F7_5 => 5 | F7_6 => 6 end.
Definition F7_ofZ (z : Z) : F7 := match z mod 7 with | 1 => F7_1 | 2 => F7_2 | 3 => F7_3 | 4 => F7_4 | 5 => F7_5 | 6 => F7_6 | _ => F7_0 end.
Definition F7_add (a b : F7) := F7_ofZ (F7_toZ a + F7_toZ b).
Definition F7_sub (a b : F7) := F7_ofZ (F7_toZ a - F7_toZ b).
Definition F7_mul (a b : F7) := F7_ofZ (F7_toZ a * F7_toZ b).
Definition F7_neg (a : F7) := F7_ofZ (- F7_toZ a).
Definition F7_inv (a : F7) := F7_ofZ (F7_toZ a ^ 5).
Definition F7_div (a b : F7) := F7_mul a (F7_inv b).
Definition F7_eqb (a b : F7) := F7_toZ a =? F7_toZ b.
Definition F7_ltb (a b : F7) := F7_toZ a <? F7_toZ b.

Lemma F7_field : field_theory F7_0 F7_1 F7_add F7_mul F7_sub F7_neg F7_div F7_inv eq.
Proof.
  constructor; [constructor| | |].
  - intros a; destruct a; reflexivity.
  - intros a b; destruct a, b; reflexivity.
  - intros a b c; destruct a, b, c; reflexivity.
  - intros a; destruct a; reflexivity.
  - intros a b; destruct a, b; reflexivity.
  - intros a b c; destruct a, b, c; reflexivity.
  - intros a b c; destruct a, b, c; reflexivity.
  - intros a b; destruct a, b; reflexivity.
  - intros a; destruct a; reflexivity.
  - discriminate.
  - intros a b; reflexivity.
  - intros a H; destruct a; try reflexivity; contradiction H; reflexivity.
Qed.
Lemma F7_eqb_spec : forall a b, F7_eqb a b = true <-> a = b.
Proof. intros a b; destruct a, b; split; intros H; first [reflexivity | discriminate H]. Qed.
Lemma F7_ltb_asym : forall a b, F7_ltb a b = true -> F7_ltb b a = false.
Proof. intros a b; destruct a, b; intros H; first [reflexivity | discriminate H]. Qed.

(* ---- GF(13): q - 1 = 12 = 2^2 * 3, generator 2, z = 2^3 = 8 ---- *)
Lemma F13_fermat : forall x, x <> F13_0 -> pow F13_1 F13_mul x (2 ^ Z.of_nat 2 * (2 * 1 + 1)) = F13_1.
Proof. intros x H; destruct x; try reflexivity; contradiction H; reflexivity. Qed.
Lemma F13_z_order : sqn F13_mul (2 - 1) F13_8 = F13_neg F13_1.
Proof. reflexivity. Qed.
Lemma F13_two_nonsquare : ~ is_sq F13_mul F13_2.
Proof. intros [r H]; destruct r; discriminate H. Qed.
Lemma F13_two_inv : F13_mul (F13_add F13_1 F13_1) F13_7 = F13_1.
Proof. reflexivity. Qed.

(* ---- GF(7): q = 4*2 - 1 ---- *)
Lemma F7_fermat3 : forall x, x <> F7_0 -> pow F7_1 F7_mul x (4 * 2 - 2) = F7_1.
Proof. intros x H; destruct x; try reflexivity; contradiction H; reflexivity. Qed.
Lemma F7_minus_one_nonsquare : ~ is_sq F7_mul F7_6.
Proof. intros [r H]; destruct r; discriminate H. Qed.
Lemma F7_two_inv : F7_mul (F7_add F7_1 F7_1) F7_4 = F7_1.
Proof. reflexivity. Qed.
