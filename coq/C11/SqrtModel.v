(* C11 -- executable models of the square-root / quadratic-residue code of arkworks-rs/algebra.
   Field-generic: every definition takes the field operations as explicit arguments
   (section variables), so the same definitions run on the `Base.Field` dictionaries
   (Run.v) and are reasoned about over an abstract field (SqrtProofs.v, QuadProofs.v).
   No proofs in this file.

   Anchors:
     ff/src/fields/sqrt.rs                          SqrtPrecomputation::{TonelliShanks, Case3Mod4}::sqrt
     ff/src/fields/models/fp/mod.rs                 Fp::legendre
     ff/src/fields/models/quadratic_extension.rs    QuadExtField::{norm, legendre, sqrt}
     ff/src/fields/models/cubic_extension.rs        CubicExtField::{norm, legendre}, sqrt via SQRT_PRECOMP
     ec/src/models/short_weierstrass/affine.rs      get_ys_from_x_unchecked
     ec/src/models/twisted_edwards/affine.rs        get_xs_from_y_unchecked *)
Require Import ZArith List Bool.
Import ListNotations.
Open Scope Z_scope.

(* Result of a square-root computation.
   SqSome y / SqNone : the Option returned by the Rust code;
   SqPanic           : an `expect`, a `debug_assert!`, an `assert!` or a usize underflow
                       (the harness is built with debug assertions and overflow checks);
   SqFuel            : the model's loop fuel ran out (the Rust loop would not have
                       terminated within `two_adicity` rounds) -- excluded by theorems. *)
Inductive sqrt_res (K : Type) : Type :=
| SqSome (y : K) | SqNone | SqPanic | SqFuel.
Arguments SqSome {K}. Arguments SqNone {K}. Arguments SqPanic {K}. Arguments SqFuel {K}.

Definition sq_map {A B : Type} (f : A -> B) (r : sqrt_res A) : sqrt_res B :=
  match r with SqSome y => SqSome (f y) | SqNone => SqNone | SqPanic => SqPanic | SqFuel => SqFuel end.

(* LegendreSymbol as an integer: Zero = 0, QuadraticResidue = 1, QuadraticNonResidue = -1 *)

Section Generic.
  Context {K : Type}.
  Variables (zero one : K) (mul : K -> K -> K) (eqb : K -> K -> bool).

  Definition sqr (a : K) : K := mul a a.
  Definition is_zero (a : K) : bool := eqb a zero.
  Definition is_one (a : K) : bool := eqb a one.

  (* Field::pow : MSB-first square-and-multiply (the recursion on `positive` unfolds to
     exactly the sequence "square, then multiply when the bit is set") *)
  Fixpoint pow_pos (a : K) (e : positive) : K :=
    match e with
    | xH => a
    | xO e' => sqr (pow_pos a e')
    | xI e' => mul (sqr (pow_pos a e')) a
    end.
  Definition pow (a : K) (e : Z) : K :=
    match e with Zpos e' => pow_pos a e' | _ => one end.

  (* n squarings *)
  Fixpoint sqn (n : nat) (a : K) : K :=
    match n with O => a | S n' => sqn n' (sqr a) end.

  (* Fp::legendre : s = x^((p-1)/2) classified.  `half` = MODULUS_MINUS_ONE_DIV_TWO *)
  Definition legendre_pow (half : Z) (x : K) : Z :=
    let s := pow x half in
    if is_zero s then 0 else if is_one s then 1 else -1.

  (* SqrtPrecomputation::Case3Mod4 : `e` = MODULUS_PLUS_ONE_DIV_FOUR *)
  Definition sqrt_case3mod4 (e : Z) (x : K) : sqrt_res K :=
    let r := pow x e in
    if eqb (sqr r) x then SqSome r else SqNone.

  (* inner loop of Tonelli-Shanks:
        let mut k = 0; let mut b2k = b;
        while !b2k.is_one() { b2k.square_in_place(); k += 1; }
     with fuel = number of squarings allowed; None = fuel exhausted *)
  Fixpoint ts_find_k (fuel : nat) (b2k : K) (k : nat) : option nat :=
    if is_one b2k then Some k
    else match fuel with
         | O => None
         | S f => ts_find_k f (sqr b2k) (S k)
         end.

  (* outer loop `while !b.is_one() { ... }`; s = two_adicity; `leg` is the field's
     `legendre` (only used by the final debug assertion) *)
  Fixpoint ts_loop (fuel : nat) (s : nat) (leg : K -> Z) (elem : K) (z x b : K) (v : nat) : sqrt_res K :=
    if is_one b then
      (if eqb (sqr x) elem then SqSome x
       else if leg elem =? 1 then SqPanic      (* debug_assert!(!matches!(elem.legendre(), QuadraticResidue)) *)
       else SqNone)
    else match fuel with
         | O => SqFuel
         | S f =>
           match ts_find_k s b O with
           | None => SqFuel
           | Some k =>
             if Nat.eqb k s then SqNone                       (* early exit: no square root exists *)
             else if Nat.ltb v k then SqPanic                 (* `v - k` underflows (overflow checks on) *)
             else
               let j := (v - k)%nat in
               let w := sqn (j - 1) z in                      (* for _ in 1..j { w.square_in_place() } *)
               let z' := sqr w in
               ts_loop f s leg elem z' (mul x w) (mul b z') k
           end
         end.

  (* SqrtPrecomputation::TonelliShanks { two_adicity = s, quadratic_nonresidue_to_trace = z,
                                          trace_of_modulus_minus_one_div_two = tm1d2 } *)
  Definition sqrt_ts (s : nat) (z : K) (tm1d2 : Z) (leg : K -> Z) (elem : K) : sqrt_res K :=
    if is_zero elem then SqSome zero
    else
      let w := pow elem tm1d2 in
      let x := mul w elem in
      let b := mul x w in
      ts_loop s s leg elem z x b s.
End Generic.

(* Sqrt precomputation of a field, as data: what `Field::SQRT_PRECOMP` holds *)
Inductive precomp (K : Type) : Type :=
| PreNone                                         (* SQRT_PRECOMP = None : Field::sqrt returns None *)
| Pre3Mod4 (e : Z)
| PreTS (s : nat) (z : K) (tm1d2 : Z).
Arguments PreNone {K}. Arguments Pre3Mod4 {K}. Arguments PreTS {K}.

Section FieldSqrt.
  Context {K : Type}.
  Variables (zero one : K) (mul : K -> K -> K) (eqb : K -> K -> bool).
  (* Field::sqrt default: dispatch on SQRT_PRECOMP *)
  Definition field_sqrt (pc : precomp K) (leg : K -> Z) (x : K) : sqrt_res K :=
    match pc with
    | PreNone => SqNone
    | Pre3Mod4 e => sqrt_case3mod4 one mul eqb e x
    | PreTS s z tm1d2 => sqrt_ts zero one mul eqb s z tm1d2 leg x
    end.
End FieldSqrt.

(* ---------------- quadratic extension B[X]/(X^2 - nr) ---------------- *)
Section Quad.
  Context {B : Type}.
  Variables (zero one : B) (add sub mul : B -> B -> B) (neg inv : B -> B) (eqb : B -> B -> bool).
  Variable nr : B.                 (* P::NONRESIDUE *)
  Variable two_inv : B.            (* (p+1)/2 embedded in the base field *)
  Variable bsqrt : B -> sqrt_res B.   (* BaseField::sqrt *)
  Variable bleg : B -> Z.             (* BaseField::legendre *)

  Definition q_norm (a : B * B) : B := sub (mul (fst a) (fst a)) (mul nr (mul (snd a) (snd a))).
  Definition q_mul (a b : B * B) : B * B :=
    (add (mul (fst a) (fst b)) (mul nr (mul (snd a) (snd b))),
     add (mul (fst a) (snd b)) (mul (snd a) (fst b))).
  Definition q_eqb (a b : B * B) : bool := eqb (fst a) (fst b) && eqb (snd a) (snd b).

  (* QuadExtField::legendre = self.norm().legendre() *)
  Definition quad_legendre (a : B * B) : Z := bleg (q_norm a).

  Definition quad_sqrt (a : B * B) : sqrt_res (B * B) :=
    let c0 := fst a in let c1 := snd a in
    if eqb c1 zero then
      (if bleg c0 =? 1 then sq_map (fun r => (r, zero)) (bsqrt c0)
       else sq_map (fun r => (zero, r)) (bsqrt (mul c0 (inv nr))))
    else
      let alpha := q_norm a in
      match bsqrt alpha with
      | SqSome al =>
        let delta := mul (add al c0) two_inv in
        let delta' := if bleg delta =? -1 then sub delta al else delta in
        match bsqrt delta' with
        | SqSome r0 =>
          if eqb r0 zero then SqPanic                          (* expect("c0 must have an inverse") *)
          else
            let cand := (r0, mul (mul c1 two_inv) (inv r0)) in
            if q_eqb (q_mul cand cand) a then SqSome cand
            else if quad_legendre a =? -1 then SqNone
            else SqPanic                                       (* debug: "has a square root per its legendre symbol" *)
        | SqNone => SqPanic                                    (* expect("Delta must have a square root") *)
        | SqPanic => SqPanic
        | SqFuel => SqFuel
        end
      | SqNone => SqNone
      | SqPanic => SqPanic
      | SqFuel => SqFuel
      end.
End Quad.

(* ---------------- cubic extension B[X]/(X^3 - nr), B the prime field ---------------- *)
Section Cubic.
  Context {B : Type}.
  Variables (zero one : B) (add sub mul : B -> B -> B) (eqb : B -> B -> bool).
  Variable nr : B.
  Variables frob_c1 frob_c2 : list B.   (* FROBENIUS_COEFF_FP3_C1 / _C2 *)
  Variable bleg : B -> Z.

  Definition cu_mul (a b : B * B * B) : B * B * B :=
    let '(a0, a1, a2) := a in let '(b0, b1, b2) := b in
    (add (mul a0 b0) (mul nr (add (mul a1 b2) (mul a2 b1))),
     add (add (mul a0 b1) (mul a1 b0)) (mul nr (mul a2 b2)),
     add (add (mul a0 b2) (mul a1 b1)) (mul a2 b0)).
  (* frobenius_map_in_place(power) for a base field whose own Frobenius is the identity (Fp) *)
  Definition cu_frob (power : nat) (a : B * B * B) : B * B * B :=
    let '(a0, a1, a2) := a in
    (a0, mul a1 (nth (power mod 3) frob_c1 zero), mul a2 (nth (power mod 3) frob_c2 zero)).
  (* CubicExtField::norm : None = the `assert!(c1 == 0 && c2 == 0)` fails *)
  Definition cu_norm (a : B * B * B) : option B :=
    let '(n0, n1, n2) := cu_mul (cu_frob 1 a) (cu_mul (cu_frob 2 a) a) in
    if eqb n1 zero && eqb n2 zero then Some n0 else None.
  (* CubicExtField::legendre ; None = panic *)
  Definition cubic_legendre (a : B * B * B) : option Z :=
    match cu_norm a with Some n => Some (bleg n) | None => None end.
End Cubic.

(* ---------------- curve coordinate recovery ---------------- *)
Section Curve.
  Context {K : Type}.
  Variables (zero one : K) (add sub mul : K -> K -> K) (neg inv : K -> K) (eqb ltb : K -> K -> bool).
  Variable ksqrt : K -> sqrt_res K.

  (* short Weierstrass: y^2 = x^3 + a x + b ; `(smaller, larger)` *)
  Definition sw_rhs (a b x : K) : K :=
    let x3b := add (mul (mul x x) x) b in
    if eqb a zero then x3b else add x3b (mul a x).
  Definition ys_from_x (a b x : K) : sqrt_res (K * K) :=
    sq_map (fun y => let ny := neg y in if ltb y ny then (y, ny) else (ny, y)) (ksqrt (sw_rhs a b x)).

  (* twisted Edwards: a x^2 + y^2 = 1 + d x^2 y^2 ; x^2 = (1 - y^2) / (a - d y^2) *)
  Definition xs_from_y (a d y : K) : sqrt_res (K * K) :=
    let y2 := mul y y in
    let num := sub one y2 in
    let den := sub a (mul y2 d) in
    if eqb den zero then SqNone                               (* denominator.inverse() = None *)
    else sq_map (fun x => let nx := neg x in if ltb nx x then (nx, x) else (x, nx))   (* x <= -x *)
                (ksqrt (mul (inv den) num)).
End Curve.
