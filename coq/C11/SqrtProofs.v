(* C11 -- proofs about the prime-field / generic square-root models over an abstract field:
   pow and iterated-squaring algebra, integral-domain facts, Tonelli-Shanks, Case3Mod4, Legendre. *)
From Coq Require Import ZArith List Bool Field Ring Lia.
From V Require Import C11.SqrtModel.
Open Scope Z_scope.

Fixpoint p2 (n : nat) : positive := match n with O => xH | S n' => xO (p2 n') end.
Lemma p2_spec : forall n, Zpos (p2 n) = 2 ^ Z.of_nat n.
Proof.
  induction n as [|n IH]; [reflexivity|].
  rewrite Nat2Z.inj_succ, Z.pow_succ_r by lia. rewrite <- IH. reflexivity.
Qed.

Section Facts.
  Context {K : Type}.
  Variables (zero one : K) (add sub mul : K -> K -> K) (neg inv : K -> K) (div : K -> K -> K)
            (eqb : K -> K -> bool).
  Hypothesis FT : field_theory zero one add mul sub neg div inv eq.
  Hypothesis eqb_spec : forall a b, eqb a b = true <-> a = b.
  Add Field KF : FT.

  Local Notation "0" := zero. Local Notation "1" := one.
  Local Infix "+" := add. Local Infix "*" := mul. Local Infix "-" := sub.
  Local Notation "- x" := (neg x).
  Local Notation pw := (pow one mul).
  Local Notation pp := (pow_pos mul).
  Local Notation sq := (sqr mul).
  Local Notation sn := (sqn mul).

  Lemma one_neq_zero : 1 <> 0.
  Proof. exact (F_1_neq_0 FT). Qed.

  Lemma eqb_false : forall a b, eqb a b = false <-> a <> b.
  Proof.
    intros a b. split.
    - intros H E. apply eqb_spec in E. congruence.
    - intros H. destruct (eqb a b) eqn:E; [|reflexivity]. apply eqb_spec in E. contradiction.
  Qed.

  Lemma eq_dec : forall a b : K, a = b \/ a <> b.
  Proof.
    intros a b. destruct (eqb a b) eqn:E; [left; apply eqb_spec; exact E | right; apply eqb_false; exact E].
  Qed.

  Lemma mul_eq0 : forall a b, a * b = 0 -> a = 0 \/ b = 0.
  Proof.
    intros a b H. destruct (eq_dec a 0) as [Ha|Ha]; [left; exact Ha|right].
    assert (E : b = inv a * (a * b)) by (field; exact Ha).
    rewrite E, H. ring.
  Qed.

  Lemma mul_neq0 : forall a b, a <> 0 -> b <> 0 -> a * b <> 0.
  Proof. intros a b Ha Hb H. destruct (mul_eq0 _ _ H); contradiction. Qed.

  Lemma sq_eq : forall a b, a * a = b * b -> a = b \/ a = - b.
  Proof.
    intros a b H.
    assert (E : (a - b) * (a + b) = 0) by (transitivity (a * a - b * b); [ring | rewrite H; ring]).
    destruct (mul_eq0 _ _ E) as [E1|E1]; [left|right].
    - transitivity ((a - b) + b); [ring | rewrite E1; ring].
    - transitivity ((a + b) - b); [ring | rewrite E1; ring].
  Qed.

  Lemma sq_eq_1 : forall y, y * y = 1 -> y = 1 \/ y = - (1).
  Proof. intros y H. apply sq_eq. rewrite H. ring. Qed.

  Lemma inv_neq0 : forall a, a <> 0 -> inv a <> 0.
  Proof.
    intros a Ha H. apply one_neq_zero.
    transitivity (a * inv a); [field; exact Ha | rewrite H; ring].
  Qed.

  (* ---- pow_pos ---- *)
  Lemma pp_succ : forall a e, pp a (Pos.succ e) = a * pp a e.
  Proof.
    intros a e. induction e as [e IH|e IH|]; cbn [Pos.succ pow_pos]; unfold sqr.
    - rewrite IH. ring.
    - ring.
    - reflexivity.
  Qed.

  Lemma pp_add : forall a i j, pp a (i + j) = pp a i * pp a j.
  Proof.
    intros a i j. revert j. induction i as [|i IH] using Pos.peano_ind; intros j.
    - rewrite Pos.add_1_l, pp_succ. reflexivity.
    - rewrite Pos.add_succ_l, !pp_succ, IH. ring.
  Qed.

  Lemma pp_mul_distr : forall a b e, pp (a * b) e = pp a e * pp b e.
  Proof.
    intros a b e. induction e as [e IH|e IH|]; cbn [pow_pos]; unfold sqr; try rewrite IH; ring.
  Qed.

  Lemma pp_mul : forall a i j, pp a (i * j) = pp (pp a i) j.
  Proof.
    intros a i j. induction j as [|j IH] using Pos.peano_ind.
    - rewrite Pos.mul_1_r. reflexivity.
    - rewrite Pos.mul_succ_r, pp_add, IH, pp_succ. reflexivity.
  Qed.

  Lemma pp_one : forall e, pp 1 e = 1.
  Proof. intros e. induction e as [e IH|e IH|]; cbn [pow_pos]; unfold sqr; try rewrite IH; ring. Qed.

  Lemma pp_zero : forall e, pp 0 e = 0.
  Proof. intros e. induction e as [e IH|e IH|]; cbn [pow_pos]; unfold sqr; try rewrite IH; ring. Qed.

  Lemma pp_neq0 : forall a e, a <> 0 -> pp a e <> 0.
  Proof.
    intros a e Ha. induction e as [e IH|e IH|]; cbn [pow_pos]; unfold sqr; auto using mul_neq0.
  Qed.

  (* ---- pow on Z exponents ---- *)
  Lemma pw_add : forall a i j, 0 < i -> 0 < j -> pw a (i + j) = pw a i * pw a j.
  Proof.
    intros a [|i|i] [|j|j] Hi Hj; try lia. cbn [Z.add pow]. apply pp_add.
  Qed.

  Lemma pw_mul : forall a i j, 0 < i -> 0 < j -> pw a (i * j) = pw (pw a i) j.
  Proof.
    intros a [|i|i] [|j|j] Hi Hj; try lia. cbn [Z.mul pow]. apply pp_mul.
  Qed.

  Lemma pw_mul_distr : forall a b e, pw (a * b) e = pw a e * pw b e.
  Proof.
    intros a b [|e|e]; cbn [pow]; [ring | apply pp_mul_distr | ring].
  Qed.

  Lemma pw_1 : forall a, pw a 1 = a.
  Proof. reflexivity. Qed.

  Lemma pw_2 : forall a, pw a 2 = a * a.
  Proof. reflexivity. Qed.

  Lemma pw_zero : forall e, 0 < e -> pw 0 e = 0.
  Proof. intros [|e|e] He; try lia. apply pp_zero. Qed.

  Lemma pw_neq0 : forall a e, a <> 0 -> pw a e <> 0.
  Proof.
    intros a [|e|e] Ha; cbn [pow]; [apply one_neq_zero | apply pp_neq0; exact Ha | apply one_neq_zero].
  Qed.

  (* t = 2 * h + 1 : the Tonelli-Shanks start values *)
  Lemma pw_odd : forall a h, 0 <= h -> pw a (2 * h + 1) = (pw a h * pw a h) * a.
  Proof.
    intros a [|h|h] Hh; try lia; cbn [Z.mul Z.add pow pow_pos]; unfold sqr; [ring | reflexivity].
  Qed.

  (* ---- iterated squaring ---- *)
  Lemma sn_add : forall n m a, sn (n + m) a = sn m (sn n a).
  Proof.
    induction n as [|n IH]; intros m a; cbn [Nat.add sqn]; [reflexivity | apply IH].
  Qed.

  Lemma sn_S : forall n a, sn (S n) a = sq (sn n a).
  Proof.
    intros n a. replace (S n) with (n + 1)%nat by lia. rewrite sn_add. reflexivity.
  Qed.

  Lemma sn_mul : forall n a b, sn n (a * b) = sn n a * sn n b.
  Proof.
    induction n as [|n IH]; intros a b; cbn [sqn]; [reflexivity|].
    rewrite <- IH. f_equal. unfold sqr. ring.
  Qed.

  Lemma sn_one : forall n, sn n 1 = 1.
  Proof.
    induction n as [|n IH]; cbn [sqn]; [reflexivity|].
    replace (sq 1) with 1 by (unfold sqr; ring). exact IH.
  Qed.

  Lemma sn_zero : forall n, sn n 0 = 0.
  Proof.
    induction n as [|n IH]; cbn [sqn]; [reflexivity|].
    replace (sq 0) with 0 by (unfold sqr; ring). exact IH.
  Qed.

  Lemma sn_pp : forall n a, sn n a = pp a (p2 n).
  Proof.
    induction n as [|n IH]; intros a; cbn [sqn p2 pow_pos]; [reflexivity|].
    rewrite IH. unfold sqr. apply pp_mul_distr.
  Qed.

  Lemma sn_pw : forall n a, sn n a = pw a (2 ^ Z.of_nat n).
  Proof. intros n a. rewrite <- p2_spec. apply sn_pp. Qed.

  (* a^(2^n * t) = (a^t)^(2^n) *)
  Lemma pw_2n_t : forall n t a, 0 < t -> pw a (2 ^ Z.of_nat n * t) = sn n (pw a t).
  Proof.
    intros n t a Ht. rewrite sn_pw, Z.mul_comm. apply pw_mul; [exact Ht | apply Z.pow_pos_nonneg; lia].
  Qed.

  Lemma sn_le_one : forall n m a, (n <= m)%nat -> sn n a = 1 -> sn m a = 1.
  Proof.
    intros n m a Hnm H. replace m with (n + (m - n))%nat by lia. rewrite sn_add, H. apply sn_one.
  Qed.

  Lemma neg_one_sq : (- (1)) * (- (1)) = 1.
  Proof. ring. Qed.
  Definition is_sq (a : K) : Prop := exists r, r * r = a.

  Lemma is_sq_zero : is_sq 0.
  Proof. exists 0. ring. Qed.

  (* ================= soundness: structural, no number theory ================= *)
  Lemma case3mod4_sound : forall e x y, sqrt_case3mod4 one mul eqb e x = SqSome y -> y * y = x.
  Proof.
    intros e x y. unfold sqrt_case3mod4.
    destruct (eqb (sq (pw x e)) x) eqn:E; [|discriminate].
    intros H. injection H as <-. apply eqb_spec in E. exact E.
  Qed.

  Lemma ts_loop_sound : forall fuel s leg elem z x b v y,
    ts_loop one mul eqb fuel s leg elem z x b v = SqSome y -> y * y = elem.
  Proof.
    induction fuel as [|f IH]; intros s leg elem z x b v y; cbn [ts_loop].
    - destruct (is_one one eqb b).
      + destruct (eqb (sq x) elem) eqn:E.
        * intros H. injection H as <-. apply eqb_spec in E. exact E.
        * destruct (leg elem =? 1)%Z; discriminate.
      + discriminate.
    - destruct (is_one one eqb b).
      + destruct (eqb (sq x) elem) eqn:E.
        * intros H. injection H as <-. apply eqb_spec in E. exact E.
        * destruct (leg elem =? 1)%Z; discriminate.
      + destruct (ts_find_k one mul eqb s b 0) as [k|]; [|discriminate].
        destruct (Nat.eqb k s); [discriminate|].
        destruct (Nat.ltb v k); [discriminate|]. apply IH.
  Qed.

  Lemma ts_sound : forall s z tm leg x y, sqrt_ts zero one mul eqb s z tm leg x = SqSome y -> y * y = x.
  Proof.
    intros s z tm leg x y. unfold sqrt_ts. destruct (is_zero zero eqb x) eqn:E.
    - intros H. injection H as <-. apply eqb_spec in E. rewrite E. ring.
    - apply ts_loop_sound.
  Qed.

  Lemma ts_zero : forall s z tm leg, sqrt_ts zero one mul eqb s z tm leg 0 = SqSome 0.
  Proof.
    intros. unfold sqrt_ts, is_zero. replace (eqb 0 0) with true; [reflexivity|].
    symmetry. apply eqb_spec. reflexivity.
  Qed.

  Lemma case3mod4_zero : forall e, 0 < e -> sqrt_case3mod4 one mul eqb e 0 = SqSome 0.
  Proof.
    intros e He. unfold sqrt_case3mod4. rewrite pw_zero by exact He.
    replace (eqb (sq 0) 0) with true; [reflexivity|]. symmetry. apply eqb_spec. unfold sqr. ring.
  Qed.

  (* ================= the inner search loop ================= *)
  Lemma find_k_spec : forall fuel b k0,
    (exists m, (m <= fuel)%nat /\ sn m b = 1) ->
    exists k, ts_find_k one mul eqb fuel b k0 = Some (k0 + k)%nat /\ (k <= fuel)%nat /\ sn k b = 1 /\
              (forall i, (i < k)%nat -> sn i b <> 1).
  Proof.
    induction fuel as [|f IH]; intros b k0 [m [Hm Hb]]; cbn [ts_find_k]; unfold is_one;
      destruct (eqb b 1) eqn:E.
    - exists 0%nat. rewrite Nat.add_0_r. apply eqb_spec in E. repeat split; auto; intros i Hi; lia.
    - apply eqb_false in E. replace m with 0%nat in Hb by lia. cbn [sqn] in Hb. contradiction.
    - exists 0%nat. rewrite Nat.add_0_r. apply eqb_spec in E. repeat split; auto; try lia; intros i Hi; lia.
    - apply eqb_false in E. destruct m as [|m']; [cbn [sqn] in Hb; contradiction|].
      cbn [sqn] in Hb.
      destruct (IH (sq b) (S k0)) as [k [Hk [Hkf [Hk1 Hmin]]]]; [exists m'; split; [lia|exact Hb]|].
      exists (S k). rewrite Hk. split; [f_equal; lia|]. split; [lia|]. split; [exact Hk1|].
      intros [|i] Hi; cbn [sqn]; [exact E | apply Hmin; lia].
  Qed.

  (* ================= Tonelli-Shanks: the field has 2^s * t + 1 elements ================= *)
  Section TS.
    Variables (s : nat) (tm : Z) (z : K).
    Let t := (2 * tm + 1)%Z.
    Hypothesis s_pos : (1 <= s)%nat.
    Hypothesis tm_nonneg : 0 <= tm.
    (* Fermat's little theorem for the field: q - 1 = 2^s * t *)
    Hypothesis fermat : forall x, x <> 0 -> pw x (2 ^ Z.of_nat s * t)%Z = 1.
    (* z = g^t for a non-residue g: z has exact order 2^s *)
    Hypothesis z_order : sn (s - 1) z = - (1).

    (* Euler's criterion as a predicate: x^((q-1)/2) = 1 *)
    Definition euler1 (x : K) : Prop := sn (s - 1) (pw x t) = 1.

    Lemma t_pos : 0 < t.
    Proof. unfold t. lia. Qed.

    Lemma fermat_sn : forall x, x <> 0 -> sn s (pw x t) = 1.
    Proof. intros x Hx. rewrite <- pw_2n_t by exact t_pos. apply fermat. exact Hx. Qed.

    Lemma ts_start : forall a, let w := pw a tm in (w * a) * w = pw a t /\ (w * a) * (w * a) = a * pw a t.
    Proof.
      intros a w. unfold t. rewrite pw_odd by exact tm_nonneg. fold w. split; ring.
    Qed.

    Lemma ts_loop_complete : forall fuel leg a zc x b v,
      (v <= fuel)%nat -> (1 <= v <= s)%nat ->
      x * x = a * b -> sn (v - 1) zc = - (1) -> sn (v - 1) b = 1 ->
      exists y, ts_loop one mul eqb fuel s leg a zc x b v = SqSome y /\ y * y = a.
    Proof.
      induction fuel as [|f IH]; intros leg a zc x b v Hvf Hv Hx Hz Hb; [lia|].
      cbn [ts_loop]. unfold is_one. destruct (eqb b 1) eqn:E.
      - apply eqb_spec in E. exists x.
        assert (Hxa : x * x = a) by (rewrite Hx, E; ring).
        replace (eqb (sq x) a) with true; [split; [reflexivity|exact Hxa]|].
        symmetry. apply eqb_spec. exact Hxa.
      - apply eqb_false in E.
        destruct (find_k_spec s b 0) as [k [Hk [Hks [Hk1 Hmin]]]]; [exists (v - 1)%nat; split; [lia|exact Hb]|].
        rewrite Hk. cbn [Nat.add].
        assert (Hk0 : (1 <= k)%nat).
        { destruct k; [cbn [sqn] in Hk1; contradiction|lia]. }
        assert (Hkv : (k <= v - 1)%nat).
        { destruct (le_lt_dec k (v - 1)) as [H|H]; [exact H|]. exfalso. exact (Hmin _ H Hb). }
        replace (Nat.eqb k s) with false by (symmetry; apply Nat.eqb_neq; lia).
        replace (Nat.ltb v k) with false by (symmetry; apply Nat.ltb_ge; lia).
        set (j := (v - k)%nat). set (w := sn (j - 1) zc).
        assert (Hzw : sq w = sn j zc).
        { unfold w. rewrite <- sn_S. f_equal. unfold j. lia. }
        assert (Hbk : sn (k - 1) b = - (1)).
        { destruct (sq_eq_1 (sn (k - 1) b)) as [H|H].
          - change (sq (sn (k - 1) b) = 1). rewrite <- sn_S. replace (S (k - 1)) with k by lia. exact Hk1.
          - exfalso. apply (Hmin (k - 1)%nat); [lia|exact H].
          - exact H. }
        apply IH; try lia.
        + rewrite Hzw. transitivity ((x * x) * (w * w)); [ring|]. rewrite Hx.
          change (w * w) with (sq w). rewrite Hzw. ring.
        + rewrite Hzw, <- sn_add. replace (j + (k - 1))%nat with (v - 1)%nat by (unfold j; lia). exact Hz.
        + rewrite sn_mul, Hbk, Hzw, <- sn_add.
          replace (j + (k - 1))%nat with (v - 1)%nat by (unfold j; lia). rewrite Hz. ring.
    Qed.

    (* completeness in its strongest form: Euler's criterion holds => a root is returned *)
    Lemma ts_complete_euler : forall leg a, a <> 0 -> euler1 a ->
      exists y, sqrt_ts zero one mul eqb s z tm leg a = SqSome y /\ y * y = a.
    Proof.
      intros leg a Ha He. unfold sqrt_ts, is_zero.
      replace (eqb a 0) with false by (symmetry; apply eqb_false; exact Ha).
      destruct (ts_start a) as [Hb Hx]. cbv zeta in Hb, Hx.
      apply ts_loop_complete; try lia.
      - rewrite Hb. exact Hx.
      - exact z_order.
      - rewrite Hb. exact He.
    Qed.

    Lemma sq_euler1 : forall r, r <> 0 -> euler1 (r * r).
    Proof.
      intros r Hr. unfold euler1. rewrite pw_mul_distr.
      change (pw r t * pw r t) with (sq (pw r t)).
      replace (sn (s - 1) (sq (pw r t))) with (sn (S (s - 1)) (pw r t)) by reflexivity.
      replace (S (s - 1)) with s by lia. apply fermat_sn. exact Hr.
    Qed.

    Theorem ts_complete : forall leg a, is_sq a ->
      exists y, sqrt_ts zero one mul eqb s z tm leg a = SqSome y /\ y * y = a.
    Proof.
      intros leg a [r Hr]. destruct (eq_dec a 0) as [Ha|Ha].
      - subst a. rewrite Ha. exists 0. split; [apply ts_zero | ring].
      - apply ts_complete_euler; [exact Ha|]. rewrite <- Hr. apply sq_euler1.
        intros H. apply Ha. rewrite <- Hr, H. ring.
    Qed.

    Lemma euler1_is_sq : forall a, a <> 0 -> euler1 a -> is_sq a.
    Proof.
      intros a Ha He. destruct (ts_complete_euler (fun _ => 0%Z) a Ha He) as [y [_ Hy]]. exists y. exact Hy.
    Qed.

    Lemma not_sq_not_euler1 : forall a, ~ is_sq a -> a <> 0 /\ ~ euler1 a.
    Proof.
      intros a Hn. assert (Ha : a <> 0) by (intros H; apply Hn; rewrite H; apply is_sq_zero).
      split; [exact Ha|]. intros He. apply Hn. apply euler1_is_sq; assumption.
    Qed.

    (* non-residues: the first round finds k = two_adicity and returns None *)
    Lemma ts_none_not_euler : forall leg a, a <> 0 -> ~ euler1 a ->
      sqrt_ts zero one mul eqb s z tm leg a = SqNone.
    Proof.
      intros leg a Ha Hne. unfold sqrt_ts, is_zero.
      replace (eqb a 0) with false by (symmetry; apply eqb_false; exact Ha).
      destruct (ts_start a) as [Hb _]. cbv zeta in Hb. rewrite Hb.
      destruct s as [|s'] eqn:Es; [lia|]. rewrite <- Es in *. rewrite Es at 1. cbn [ts_loop]. unfold is_one.
      destruct (eqb (pw a t) 1) eqn:E.
      - exfalso. apply eqb_spec in E. apply Hne. unfold euler1. rewrite E. apply sn_one.
      - destruct (find_k_spec s (pw a t) 0) as [k [Hk [Hks [Hk1 Hmin]]]].
        { exists s. split; [lia|]. apply fermat_sn. exact Ha. }
        rewrite Hk. cbn [Nat.add].
        assert (k = s).
        { destruct (le_lt_dec s k) as [H|H]; [lia|]. exfalso. apply Hne. unfold euler1.
          apply sn_le_one with (n := k); [lia|exact Hk1]. }
        subst k. rewrite Nat.eqb_refl. reflexivity.
    Qed.

    Theorem ts_nonresidue_none : forall leg a, ~ is_sq a -> sqrt_ts zero one mul eqb s z tm leg a = SqNone.
    Proof.
      intros leg a Hn. destruct (not_sq_not_euler1 a Hn) as [Ha He]. apply ts_none_not_euler; assumption.
    Qed.

    (* every input terminates within the fuel and never panics: Some (a root) or None (a non-residue) *)
    Theorem ts_total : forall leg a,
      (exists y, sqrt_ts zero one mul eqb s z tm leg a = SqSome y /\ y * y = a) \/
      (sqrt_ts zero one mul eqb s z tm leg a = SqNone /\ ~ is_sq a).
    Proof.
      intros leg a. destruct (eq_dec a 0) as [Ha|Ha].
      - left. apply ts_complete. rewrite Ha. apply is_sq_zero.
      - destruct (eq_dec (sn (s - 1) (pw a t)) 1) as [He|He].
        + left. apply ts_complete_euler; assumption.
        + right. split; [apply ts_none_not_euler; assumption|].
          intros [r Hr]. apply He. rewrite <- Hr. apply sq_euler1. intros H. apply Ha. rewrite <- Hr, H. ring.
    Qed.

    Lemma is_sq_dec : forall a, is_sq a \/ ~ is_sq a.
    Proof.
      intros a. destruct (ts_total (fun _ => 0%Z) a) as [[y [_ Hy]]|[_ Hn]]; [left; exists y; exact Hy | right; exact Hn].
    Qed.

    (* x^((q-1)/2) for x <> 0 is 1 or -1 *)
    Lemma euler_pm1 : forall x, x <> 0 -> sn (s - 1) (pw x t) = 1 \/ sn (s - 1) (pw x t) = - (1).
    Proof.
      intros x Hx. apply sq_eq_1. change (sq (sn (s - 1) (pw x t)) = 1). rewrite <- sn_S.
      replace (S (s - 1)) with s by lia. apply fermat_sn. exact Hx.
    Qed.

    (* the product of two non-residues is a residue *)
    Lemma nonsq_mul : forall a b, ~ is_sq a -> ~ is_sq b -> is_sq (a * b).
    Proof.
      intros a b Ha Hb. destruct (not_sq_not_euler1 a Ha) as [Ha0 Hea]. destruct (not_sq_not_euler1 b Hb) as [Hb0 Heb].
      apply euler1_is_sq; [apply mul_neq0; assumption|]. unfold euler1 in *.
      rewrite pw_mul_distr, sn_mul.
      destruct (euler_pm1 a Ha0) as [H|H]; [contradiction|]. rewrite H.
      destruct (euler_pm1 b Hb0) as [H'|H']; [contradiction|]. rewrite H'. ring.
    Qed.

    (* Fp::legendre with MODULUS_MINUS_ONE_DIV_TWO = 2^(s-1) * t: Euler's criterion classification *)
    Definition half := (2 ^ Z.of_nat (s - 1) * t)%Z.

    Lemma half_pos : 0 < half.
    Proof. unfold half. apply Z.mul_pos_pos; [apply Z.pow_pos_nonneg; lia | exact t_pos]. Qed.

    Theorem legendre_euler : forall x,
      (x = 0 /\ legendre_pow zero one mul eqb half x = 0%Z) \/
      (x <> 0 /\ is_sq x /\ legendre_pow zero one mul eqb half x = 1%Z) \/
      (~ is_sq x /\ legendre_pow zero one mul eqb half x = (-1)%Z).
    Proof.
      intros x. unfold legendre_pow, is_zero, is_one. destruct (eq_dec x 0) as [Hx|Hx].
      - left. split; [exact Hx|]. rewrite Hx, pw_zero by exact half_pos.
        replace (eqb 0 0) with true by (symmetry; apply eqb_spec; reflexivity). reflexivity.
      - right. unfold half. rewrite pw_2n_t by exact t_pos.
        assert (Hnz : sn (s - 1) (pw x t) <> 0).
        { destruct (euler_pm1 x Hx) as [H|H]; rewrite H; [exact one_neq_zero|].
          intros H0. apply one_neq_zero. rewrite <- neg_one_sq, H0. ring. }
        replace (eqb (sn (s - 1) (pw x t)) 0) with false by (symmetry; apply eqb_false; exact Hnz).
        destruct (eqb (sn (s - 1) (pw x t)) 1) eqn:E.
        + left. apply eqb_spec in E. split; [exact Hx|]. split; [apply euler1_is_sq; assumption | reflexivity].
        + right. apply eqb_false in E. split; [|reflexivity].
          intros [r Hr]. apply E. rewrite <- Hr. apply sq_euler1. intros H. apply Hx. rewrite <- Hr, H. ring.
    Qed.
  End TS.

  (* ================= Case3Mod4: the field has 4m - 1 elements, e = (q+1)/4 = m ================= *)
  Section C3M4.
    Variable m : Z.
    Hypothesis m_pos : 0 < m.
    Hypothesis fermat3 : forall x, x <> 0 -> pw x (4 * m - 2)%Z = 1.

    Theorem case3mod4_complete : forall a, is_sq a ->
      exists y, sqrt_case3mod4 one mul eqb m a = SqSome y /\ y * y = a.
    Proof.
      intros a [r Hr]. unfold sqrt_case3mod4. set (y := pw a m).
      assert (Hy : y * y = a).
      { destruct (eq_dec r 0) as [H0|H0].
        - unfold y. rewrite <- Hr, H0. replace (0 * 0) with 0 by ring. rewrite pw_zero by exact m_pos. ring.
        - unfold y. rewrite <- Hr. rewrite pw_mul_distr.
          transitivity (pw r (4 * m - 2)%Z * (r * r)); [|rewrite fermat3 by exact H0; ring].
          rewrite <- (pw_2 r), <- !pw_add by lia. f_equal. lia. }
      exists y. split; [|exact Hy].
      replace (eqb (sq y) a) with true; [reflexivity|]. symmetry. apply eqb_spec. exact Hy.
    Qed.

    Theorem case3mod4_total : forall a,
      (exists y, sqrt_case3mod4 one mul eqb m a = SqSome y /\ y * y = a) \/
      (sqrt_case3mod4 one mul eqb m a = SqNone /\ ~ is_sq a).
    Proof.
      intros a. destruct (sqrt_case3mod4 one mul eqb m a) as [y| | |] eqn:E.
      - left. exists y. split; [reflexivity|]. apply (case3mod4_sound m). exact E.
      - right. split; [reflexivity|]. intros Hs. destruct (case3mod4_complete a Hs) as [y [H _]]. congruence.
      - exfalso. unfold sqrt_case3mod4 in E. destruct (eqb (sq (pw a m)) a); discriminate.
      - exfalso. unfold sqrt_case3mod4 in E. destruct (eqb (sq (pw a m)) a); discriminate.
    Qed.
  End C3M4.
End Facts.
