(* C11 -- QuadExtField::sqrt over a prime field whose own sqrt is the Tonelli-Shanks or the
   Case3Mod4 model and whose legendre is Fp::legendre: the abstract premises of QuadProofs.v
   are discharged by SqrtProofs.v; what remains are mathematical facts about the field
   (Fermat's little theorem, a 2^s-th root of unity of exact order, nr a non-residue). *)
From Coq Require Import ZArith List Bool Field Ring Lia.
From V Require Import C11.SqrtModel C11.SqrtProofs C11.QuadProofs.
Open Scope Z_scope.

Section Tower.
  Context {B : Type}.
  Variables (zero one : B) (add sub mul : B -> B -> B) (neg inv : B -> B) (div : B -> B -> B)
            (eqb : B -> B -> bool).
  Hypothesis FT : field_theory zero one add mul sub neg div inv eq.
  Hypothesis eqb_spec : forall a b, eqb a b = true <-> a = b.
  Variables (nr two_inv : B).
  Hypothesis nr_nonsquare : ~ is_sq mul nr.
  Hypothesis two_inv_spec : mul (add one one) two_inv = one.

  (* ---- base field with Tonelli-Shanks: q - 1 = 2^s * (2 tm + 1) ---- *)
  Section OverTS.
    Variables (s : nat) (tm : Z) (z : B).
    Hypothesis s_pos : (1 <= s)%nat.
    Hypothesis tm_nonneg : 0 <= tm.
    Hypothesis fermat : forall x, x <> zero -> pow one mul x (2 ^ Z.of_nat s * (2 * tm + 1)) = one.
    Hypothesis z_order : sqn mul (s - 1) z = neg one.

    Let bleg := legendre_pow zero one mul eqb (half s tm).
    Let bsqrt := sqrt_ts zero one mul eqb s z tm bleg.

    Theorem quad_over_ts_total : forall a,
      (exists y, quad_sqrt zero add sub mul inv eqb nr two_inv bsqrt bleg a = SqSome y /\ q_mul add mul nr y y = a) \/
      (quad_sqrt zero add sub mul inv eqb nr two_inv bsqrt bleg a = SqNone /\ ~ is_sq2 add mul nr a).
    Proof.
      apply (quad_sqrt_total zero one add sub mul neg inv div eqb FT eqb_spec nr two_inv bsqrt bleg).
      - intros a y H. exact (ts_sound zero one add sub mul neg inv div eqb FT eqb_spec s z tm bleg a y H).
      - intros a Ha.
        destruct (ts_complete zero one add sub mul neg inv div eqb FT eqb_spec s tm z s_pos tm_nonneg fermat z_order bleg a Ha)
          as [y [Hy _]]. exists y. exact Hy.
      - intros a.
        destruct (ts_total zero one add sub mul neg inv div eqb FT eqb_spec s tm z s_pos tm_nonneg fermat z_order bleg a)
          as [[y [Hy _]]|[Hn _]]; [left; exists y; exact Hy | right; exact Hn].
      - exact (legendre_euler zero one add sub mul neg inv div eqb FT eqb_spec s tm z s_pos tm_nonneg fermat z_order).
      - exact nr_nonsquare.
      - exact (nonsq_mul zero one add sub mul neg inv div eqb FT eqb_spec s tm z s_pos tm_nonneg fermat z_order).
      - exact two_inv_spec.
    Qed.

    Theorem quad_legendre_over_ts : forall a,
      (a = (zero, zero) /\ quad_legendre sub mul nr bleg a = 0) \/
      (a <> (zero, zero) /\ is_sq2 add mul nr a /\ quad_legendre sub mul nr bleg a = 1) \/
      (~ is_sq2 add mul nr a /\ quad_legendre sub mul nr bleg a = -1).
    Proof.
      apply (quad_legendre_exact zero one add sub mul neg inv div eqb FT eqb_spec nr two_inv bsqrt bleg).
      - intros a y H. exact (ts_sound zero one add sub mul neg inv div eqb FT eqb_spec s z tm bleg a y H).
      - intros a Ha.
        destruct (ts_complete zero one add sub mul neg inv div eqb FT eqb_spec s tm z s_pos tm_nonneg fermat z_order bleg a Ha)
          as [y [Hy _]]. exists y. exact Hy.
      - exact (legendre_euler zero one add sub mul neg inv div eqb FT eqb_spec s tm z s_pos tm_nonneg fermat z_order).
      - exact nr_nonsquare.
      - exact (nonsq_mul zero one add sub mul neg inv div eqb FT eqb_spec s tm z s_pos tm_nonneg fermat z_order).
      - exact two_inv_spec.
    Qed.
  End OverTS.

  (* ---- base field with q = 4m - 1 elements (bls12_381 / bn254 Fq): Case3Mod4, legendre exponent 2m - 1 ---- *)
  Section Over3Mod4.
    Variable m : Z.
    Hypothesis m_pos : 0 < m.
    Hypothesis fermat3 : forall x, x <> zero -> pow one mul x (4 * m - 2) = one.

    Let bleg := legendre_pow zero one mul eqb (2 * m - 1).
    Let bsqrt := sqrt_case3mod4 one mul eqb m.

    Lemma fermat_as_ts : forall x, x <> zero -> pow one mul x (2 ^ Z.of_nat 1 * (2 * (m - 1) + 1)) = one.
    Proof.
      intros x Hx. replace (2 ^ Z.of_nat 1 * (2 * (m - 1) + 1)) with (4 * m - 2) by (cbn [Z.of_nat Pos.of_succ_nat Z.pow Z.pow_pos Pos.iter]; lia).
      apply fermat3. exact Hx.
    Qed.

    Lemma half_3mod4 : half 1 (m - 1) = 2 * m - 1.
    Proof. unfold half. cbn [Nat.sub Z.of_nat Z.pow]. lia. Qed.

    Theorem quad_over_3mod4_total : forall a,
      (exists y, quad_sqrt zero add sub mul inv eqb nr two_inv bsqrt bleg a = SqSome y /\ q_mul add mul nr y y = a) \/
      (quad_sqrt zero add sub mul inv eqb nr two_inv bsqrt bleg a = SqNone /\ ~ is_sq2 add mul nr a).
    Proof.
      assert (Hm1 : 0 <= m - 1) by lia.
      assert (Hz : sqn mul (1 - 1) (neg one) = neg one) by reflexivity.
      apply (quad_sqrt_total zero one add sub mul neg inv div eqb FT eqb_spec nr two_inv bsqrt bleg).
      - intros a y H. exact (case3mod4_sound one mul eqb eqb_spec m a y H).
      - intros a Ha.
        destruct (case3mod4_complete zero one add sub mul neg inv div eqb FT eqb_spec m m_pos fermat3 a Ha) as [y [Hy _]].
        exists y. exact Hy.
      - intros a.
        destruct (case3mod4_total zero one add sub mul neg inv div eqb FT eqb_spec m m_pos fermat3 a)
          as [[y [Hy _]]|[Hn _]]; [left; exists y; exact Hy | right; exact Hn].
      - unfold bleg. rewrite <- half_3mod4.
        exact (legendre_euler zero one add sub mul neg inv div eqb FT eqb_spec 1 (m - 1) (neg one) (le_n 1) Hm1 fermat_as_ts Hz).
      - exact nr_nonsquare.
      - exact (nonsq_mul zero one add sub mul neg inv div eqb FT eqb_spec 1 (m - 1) (neg one) (le_n 1) Hm1 fermat_as_ts Hz).
      - exact two_inv_spec.
    Qed.

    Theorem quad_legendre_over_3mod4 : forall a,
      (a = (zero, zero) /\ quad_legendre sub mul nr bleg a = 0) \/
      (a <> (zero, zero) /\ is_sq2 add mul nr a /\ quad_legendre sub mul nr bleg a = 1) \/
      (~ is_sq2 add mul nr a /\ quad_legendre sub mul nr bleg a = -1).
    Proof.
      assert (Hm1 : 0 <= m - 1) by lia.
      assert (Hz : sqn mul (1 - 1) (neg one) = neg one) by reflexivity.
      apply (quad_legendre_exact zero one add sub mul neg inv div eqb FT eqb_spec nr two_inv bsqrt bleg).
      - intros a y H. exact (case3mod4_sound one mul eqb eqb_spec m a y H).
      - intros a Ha.
        destruct (case3mod4_complete zero one add sub mul neg inv div eqb FT eqb_spec m m_pos fermat3 a Ha) as [y [Hy _]].
        exists y. exact Hy.
      - unfold bleg. rewrite <- half_3mod4.
        exact (legendre_euler zero one add sub mul neg inv div eqb FT eqb_spec 1 (m - 1) (neg one) (le_n 1) Hm1 fermat_as_ts Hz).
      - exact nr_nonsquare.
      - exact (nonsq_mul zero one add sub mul neg inv div eqb FT eqb_spec 1 (m - 1) (neg one) (le_n 1) Hm1 fermat_as_ts Hz).
      - exact two_inv_spec.
    Qed.
  End Over3Mod4.
End Tower.
