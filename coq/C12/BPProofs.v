(* C12 -- Budroni-Pintore clearing on G2 of the BLS12 curves: the coded sequence of
   projective / mixed operations equals, for EVERY curve point P (not only subgroup points),
        psi2(2P) + [x]([x]P + psi(P)) - [x]P - psi(P) - P
   in the affine group, i.e. [x^2 - x - 1]P + [x - 1]psi(P) + psi^2(2P) as the comment in the
   Rust code says ([x] = the signed parameter).  What is NOT proved: that this endomorphism
   acts on E'(F_q^2) as multiplication by h_eff = 3 (x^2 - 1) h2 (needs psi^2 - t psi + q = 0 and
   the group structure; eprint 2017/419) -- carried by the correspondence check against
   [h_eff]P on points outside the subgroup. *)
From V Require Import Base.Field C03.CurveExec C03.SWProofs C03.FieldHyp
  C12.SubgroupModel C12.GroupProofs C12.SWSubgroupProofs.
Require Import Lia Coq.setoid_ring.Field Coq.setoid_ring.Ring.

Section BP.
  Context {T : Type} (F : Fops T) (b : T).
  Hypothesis GF : good_field F.
  Local Notation a := (f0 F).                       (* the BLS12 twists have a = 0 *)
  Hypothesis Hassoc : sw_law_assoc F a b.
  Let Fth := gf_th F GF.
  Let Feq := gf_eqb F GF.
  Let Ftwo := gf_two F GF.
  Add Field KfBP : Fth.
  Local Notation on := (aff_on F a b).
  Local Notation jon := (jac_on F a b).
  Local Notation gadd := (aff_add_sw F a).
  Local Notation gneg := (aff_neg_sw F).
  Local Notation "n ** P" := (sw_nsmul F a n P) (at level 40).

  (* the affine map computed by double_p_power_endomorphism on Jacobian coordinates *)
  Definition psi2_aff (c : T) (A : @sw_aff T) : @sw_aff T :=
    match A with None => None | Some (x, y) => Some (fmul F x c, fneg F y) end.
  Definition psi2_jac (c : T) (P : @sw_jac T) : @sw_jac T :=
    let '(x, y, z) := P in (fmul F x c, fneg F y, z).

  Lemma psi2_jac_affine : forall c P, sw_to_affine F (psi2_jac c P) = psi2_aff c (sw_to_affine F P).
  Proof.
    intros c [[x y] z]. unfold psi2_jac. rewrite !(sw_to_affine_gen F Fth Feq).
    destruct (feqb F z (f0 F)) eqn:Ez; [reflexivity|].
    assert (Hz : z <> f0 F) by (intro H; apply Feq in H; congruence).
    cbn [psi2_aff]. f_equal. f_equal; unfold fdiv; field; exact Hz.
  Qed.
  Lemma psi2_aff_on : forall c A, fmul F (fmul F c c) c = f1 F -> on A -> on (psi2_aff c A).
  Proof.
    intros c [[x y]|] Hc HA; cbn [psi2_aff aff_on] in *; [|exact I].
    transitivity (fmul F y y); [ring|]. rewrite HA.
    transitivity (fadd F (fadd F (fmul F (fmul F (fmul F x x) x) (fmul F (fmul F c c) c)) (fmul F (f0 F) (fmul F x c))) b);
      [rewrite Hc; ring | ring].
  Qed.

  Lemma neg_jon : forall Q, jon Q -> jon (sw_neg F Q).
  Proof. intros Q H. unfold jac_on. rewrite (sw_neg_correct F Fth Feq). apply (aff_neg_on F a b Fth); exact H. Qed.
  Lemma sgn_ok : forall (xneg : bool) Q, jon Q ->
    jon (if xneg then sw_neg F Q else Q) /\
    sw_to_affine F (if xneg then sw_neg F Q else Q) = sgn_aff F xneg (sw_to_affine F Q).
  Proof.
    intros [|] Q H; unfold sgn_aff; split; auto using neg_jon. apply (sw_neg_correct F Fth Feq).
  Qed.
  Lemma sub_ok : forall P Q, jon P -> jon Q -> jon (sw_sub F a P Q) /\
    sw_to_affine F (sw_sub F a P Q) = gadd (sw_to_affine F P) (gneg (sw_to_affine F Q)).
  Proof.
    intros P Q HP HQ. split.
    - unfold sw_sub. apply (sw_add_on_curve F a b Fth Feq Ftwo); auto using neg_jon.
    - apply (sw_sub_correct F a b Fth Feq Ftwo); assumption.
  Qed.

  Theorem bp_clear_formula : forall psi c xabs xneg P,
    fmul F (fmul F c c) c = f1 F -> on P -> on (psi P) ->
    let XP := sgn_aff F xneg (Z.to_nat xabs ** P) in
    bp_clear F a psi c xabs xneg P =
      gadd (gadd (gadd (gadd (psi2_aff c (gadd P P))
                             (sgn_aff F xneg (Z.to_nat xabs ** gadd XP (psi P))))
                       (gneg XP))
                 (gneg (psi P)))
           (gneg P)
    /\ on (bp_clear F a psi c xabs xneg P).
  Proof.
    intros psi c xabs xneg P Hc HP Hpsi XP. unfold bp_clear.
    assert (Hpp : jon (sw_of_affine F P) /\ sw_to_affine F (sw_of_affine F P) = P).
    { pose proof (sw_roundtrip_affine F Fth Feq P) as R. split; [unfold jac_on; rewrite R; exact HP | exact R]. }
    destruct Hpp as [Jpp Epp].
    destruct (sw_mul_affine_correct F a b GF Hassoc P xabs HP) as [Jm Em].
    destruct (sgn_ok xneg _ Jm) as [Jxp Exp]. rewrite Em in Exp. fold XP in Exp.
    set (x_p := if xneg then sw_neg F (sw_mul_affine F a P xabs) else sw_mul_affine F a P xabs) in *.
    (* psi2(2P) *)
    pose proof (sw_double_on_curve F a b Fth Feq Ftwo _ Jpp) as Jd.
    pose proof (sw_double_correct F a Fth Feq Ftwo (sw_of_affine F P)) as Ed. rewrite Epp in Ed.
    pose proof (psi2_jac_affine c (sw_double F a (sw_of_affine F P))) as E2. rewrite Ed in E2.
    assert (J2 : jon (psi2_jac c (sw_double F a (sw_of_affine F P)))).
    { unfold jac_on. rewrite E2. apply psi2_aff_on; [exact Hc|].
      apply (aff_add_sw_on F a b Fth Feq Ftwo); exact HP. }
    change (let '(x, y, z) := sw_double F a (sw_of_affine F P) in (fmul F x c, fneg F y, z))
      with (psi2_jac c (sw_double F a (sw_of_affine F P))).
    set (p2 := psi2_jac c (sw_double F a (sw_of_affine F P))) in *.
    (* tmp, tmp2 *)
    pose proof (sw_madd_on_curve F a b Fth Feq Ftwo _ _ Jxp Hpsi) as Jt.
    pose proof (sw_madd_correct F a b Fth Feq Ftwo _ _ Jxp Hpsi) as Et. rewrite Exp in Et.
    destruct (sw_mul_projective_correct F a b GF Hassoc _ xabs Jt) as [Jt2 Et2]. rewrite Et in Et2.
    destruct (sgn_ok xneg _ Jt2) as [Js Es]. rewrite Et2 in Es.
    set (tmp2 := if xneg then sw_neg F (sw_mul_projective F a (sw_madd F a x_p (psi P)) xabs)
                 else sw_mul_projective F a (sw_madd F a x_p (psi P)) xabs) in *.
    (* the sum *)
    pose proof (sw_add_on_curve F a b Fth Feq Ftwo _ _ J2 Js) as J3.
    pose proof (sw_add_correct F a b Fth Feq Ftwo _ _ J2 Js) as E3. rewrite E2, Es in E3.
    destruct (sub_ok _ _ J3 Jxp) as [J4 E4]. rewrite E3, Exp in E4.
    assert (Hnpsi : on (sw_aff_neg F (psi P))) by (apply (aff_neg_on F a b Fth); exact Hpsi).
    pose proof (sw_madd_on_curve F a b Fth Feq Ftwo _ _ J4 Hnpsi) as J5.
    pose proof (sw_madd_correct F a b Fth Feq Ftwo _ _ J4 Hnpsi) as E5. rewrite E4 in E5.
    destruct (sub_ok _ _ J5 Jpp) as [J6 E6]. rewrite E5, Epp in E6.
    split; [exact E6 | exact J6].
  Qed.
End BP.
