(* C12 -- double-and-add over an abstract group presented through representatives.
   [G] is the group (elements satisfying [inG]), [nsmul n x] is the n-fold sum (the
   definition of n * x).  [R] are the representatives the algorithm computes with
   (Jacobian / extended coordinates), [A] the type of the base operand (affine or
   projective), [val]/[aval] the maps to the group, [okR]/[okA] the invariants (on the
   curve, valid representative).  [da_correct]: the bit loop computes n * base. *)
From V Require Import Base.Field C12.SubgroupModel.
Require Import Lia.

Section AbstractGroup.
  Context {G : Type} (inG : G -> Prop) (gop : G -> G -> G) (gid : G).
  Hypothesis gid_in : inG gid.
  Hypothesis gop_in : forall x y, inG x -> inG y -> inG (gop x y).
  Hypothesis gop_assoc : forall x y z, inG x -> inG y -> inG z -> gop x (gop y z) = gop (gop x y) z.
  Hypothesis gop_id_l : forall x, inG x -> gop gid x = x.
  Hypothesis gop_id_r : forall x, inG x -> gop x gid = x.

  Fixpoint nsmul (n : nat) (x : G) : G :=
    match n with O => gid | S k => gop x (nsmul k x) end.

  Lemma nsmul_in : forall n x, inG x -> inG (nsmul n x).
  Proof. induction n as [|n IH]; intros x Hx; cbn [nsmul]; auto. Qed.

  Lemma nsmul_add : forall n m x, inG x -> nsmul (n + m) x = gop (nsmul n x) (nsmul m x).
  Proof.
    induction n as [|n IH]; intros m x Hx; cbn [nsmul plus].
    - symmetry. apply gop_id_l. apply nsmul_in; exact Hx.
    - rewrite IH by exact Hx. apply gop_assoc; auto using nsmul_in.
  Qed.

  Lemma nsmul_1 : forall x, inG x -> nsmul 1 x = x.
  Proof. intros x Hx. cbn [nsmul]. apply gop_id_r; exact Hx. Qed.

  Lemma nsmul_succ_r : forall n x, inG x -> nsmul (S n) x = gop (nsmul n x) x.
  Proof.
    intros n x Hx. replace (S n) with (n + 1)%nat by lia.
    rewrite nsmul_add by exact Hx. rewrite nsmul_1 by exact Hx. reflexivity.
  Qed.

  Lemma nsmul_gid : forall n, nsmul n gid = gid.
  Proof. induction n as [|n IH]; cbn [nsmul]; auto. rewrite IH. apply gop_id_l; exact gid_in. Qed.

  Lemma nsmul_mul : forall n m x, inG x -> nsmul (n * m) x = nsmul n (nsmul m x).
  Proof.
    induction n as [|n IH]; intros m x Hx; cbn [nsmul Nat.mul]; auto.
    rewrite nsmul_add by exact Hx. rewrite IH by exact Hx. reflexivity.
  Qed.

  (* an element killed by r is fixed by every n = 1 (mod r) *)
  Lemma nsmul_one_mod : forall r k x, inG x -> nsmul r x = gid -> nsmul (1 + k * r) x = x.
  Proof.
    intros r k x Hx Hr. rewrite nsmul_add by exact Hx. rewrite nsmul_1 by exact Hx.
    rewrite nsmul_mul by exact Hx. rewrite Hr, nsmul_gid. apply gop_id_r; exact Hx.
  Qed.

  Section Representatives.
    Context {R A : Type} (val : R -> G) (okR : R -> Prop) (aval : A -> G) (okA : A -> Prop).
    Context (zero : R) (dbl : R -> R) (add : R -> A -> R).
    Hypothesis okR_in : forall r, okR r -> inG (val r).
    Hypothesis okA_in : forall a, okA a -> inG (aval a).
    Hypothesis zero_ok : okR zero /\ val zero = gid.
    Hypothesis dbl_ok : forall r, okR r -> okR (dbl r) /\ val (dbl r) = gop (val r) (val r).
    Hypothesis add_ok : forall r a, okR r -> okA a -> okR (add r a) /\ val (add r a) = gop (val r) (aval a).

    Lemma da_pos_correct : forall a p, okA a ->
      okR (da_pos zero dbl add a p) /\ val (da_pos zero dbl add a p) = nsmul (Pos.to_nat p) (aval a).
    Proof.
      intros a p Ha. pose proof (okA_in a Ha) as Hin.
      induction p as [p IH | p IH |]; cbn [da_pos].
      - destruct IH as [IHo IHv].
        destruct (dbl_ok _ IHo) as [Do Dv].
        destruct (add_ok _ a Do Ha) as [Ao Av].
        split; [exact Ao|]. rewrite Av, Dv, IHv.
        rewrite Pos2Nat.inj_xI. replace (S (2 * Pos.to_nat p)) with (S (Pos.to_nat p + Pos.to_nat p)) by lia.
        rewrite nsmul_succ_r by exact Hin. rewrite nsmul_add by exact Hin. reflexivity.
      - destruct IH as [IHo IHv].
        destruct (dbl_ok _ IHo) as [Do Dv].
        split; [exact Do|]. rewrite Dv, IHv.
        rewrite Pos2Nat.inj_xO. replace (2 * Pos.to_nat p)%nat with (Pos.to_nat p + Pos.to_nat p)%nat by lia.
        rewrite nsmul_add by exact Hin. reflexivity.
      - destruct zero_ok as [Zo Zv].
        destruct (dbl_ok _ Zo) as [Do Dv].
        destruct (add_ok _ a Do Ha) as [Ao Av].
        split; [exact Ao|]. rewrite Av, Dv, Zv.
        rewrite (gop_id_l gid gid_in). rewrite (gop_id_l _ Hin).
        change (Pos.to_nat 1) with 1%nat. symmetry. apply nsmul_1; exact Hin.
    Qed.

    Theorem da_correct : forall a n, okA a ->
      okR (da zero dbl add a n) /\ val (da zero dbl add a n) = nsmul (Z.to_nat n) (aval a).
    Proof.
      intros a n Ha. destruct n as [|p|p]; cbn [da].
      - exact zero_ok.
      - rewrite Z2Nat.inj_pos. apply da_pos_correct; exact Ha.
      - exact zero_ok.
    Qed.
  End Representatives.
End AbstractGroup.
