(* Uniform case interpreter for C12.  Argument layout of every case:
     a[0] = [cfg_id]                 (used by the Rust harness only)
     a[1] = [p; deg; nr]             base field (as in C03)
     a[2] = coefficient a            a[3] = coefficient b (SW) / d (TE)
     a[4] = [r; COFACTOR_INV; h_eff] r = scalar-field characteristic; h_eff = the fixed
                                     integer the clearing map must multiply by
     a[5] = COFACTOR limbs (little-endian u64)
     a[6] = [kind; ints...]          which override the curve crate installs (see below)
     a[7] = field constants of the override (base-prime-field coordinates, flattened)
     a[8..] operands: SW affine point x ++ y ++ [infinity], TE affine point x ++ y.
   ops: 1/11 membership test (as coded, by definition, as coded with plain mul_projective);
        2/12 clear_cofactor (as coded, [h_eff]P, r * cleared = O, mul_by_cofactor, ..._to_group);
        3/13 mul_by_cofactor_inv after mul_by_cofactor; 4/14 point from x / y then cofactor
        multiplication; 5/15 configuration constants; 6/16 is_on_curve and r * P = O (used on
        the outputs of the Rust `rand` by prop.py `extra`).
   kinds: 0 defaults; 1 curves/bls12_381 G1 [1; |x|; x<0; n11; n12; n21; n22; nbits] beta ++ endo;
          2 bls12_377 G1 [2; |x|; x<0]; 3 test-curves bls12_381 G1 [3; h_eff literal];
          4 bls12_381 G2 (both crates) [4; |x|; x<0] frob_c1, k, COEFF_1, PSI2;
          5 bls12_377 G2 [5; |x|; x<0] frob_c1, COEFF_0, COEFF_1, PSI2;
          6 bn254 G1 [6]; 7 bn254 G2 [7; 6x^2] frob_c1, COEFF_0, COEFF_1. *)
From V Require Import Base.Field C03.CurveExec C12.SubgroupModel.

Definition ok (r : list (list Z)) : list (list Z) := [0] :: r.
Definition panic : list (list Z) := [[2]].
Definition unsupported : list (list Z) := [[9]].
Definition bad_hint : list (list Z) := [[1; 1]].
Definition b2l (b : bool) : list Z := [Z.b2z b].
Definition arg (n : nat) (a : list (list Z)) : list Z := nth n a [].
Definition ai (n i : nat) (a : list (list Z)) : Z := nth i (arg n a) 0.

Section RunSW.
  Context {T : Type} (F : Fops T).
  (* the curve's membership test (as installed), the same with the plain double-and-add
     as mul_projective, and the curve's clear_cofactor *)
  Variables (test test_plain : @sw_aff T -> bool) (clear : @sw_aff T -> @sw_aff T).

  Definition run_sw_with (op : Z) (args : list (list Z)) : list (list Z) :=
    let a := el F (arg 2 args) 0 in
    let b := el F (arg 3 args) 0 in
    let r := ai 4 0 args in
    let cinv := ai 4 1 args in
    let heff := ai 4 2 args in
    let hl := arg 5 args in
    let P := sw_aff_of_list F (arg 8 args) in
    let out A := sw_aff_to_list F A in
    let in_r A := sw_is_zero F (sw_mul_affine F a A r) in      (* the definition: r * A = O *)
    match op with
    | 1 => ok [b2l (test P); b2l (in_r P); b2l (test_plain P)]
    | 2 => let C := clear P in
           ok [out C; out (sw_to_affine F (sw_mul_affine F a P heff)); b2l (in_r C);
               out (sw_mul_by_cofactor F a hl P);
               out (sw_to_affine F (sw_mul_by_cofactor_to_group F a hl P))]
    | 3 => let R := sw_mul_by_cofactor_inv F a cinv (sw_mul_by_cofactor F a hl P) in
           ok [out R; b2l (sw_eqb F (sw_of_affine F R) (sw_of_affine F P));
               out (if in_r P then P else R)]
    | 4 => let x := el F (arg 8 args) 0 in
           let greatest := negb (ai 9 0 args =? 0) in
           let hint := el F (arg 10 args) 0 in
           match sw_get_point_from_x F a b x greatest hint with
           | None => bad_hint
           | Some None => ok [[0]]
           | Some (Some Q) =>
               let S' := sw_mul_by_cofactor F a hl Q in
               ok [[1]; out Q; out S'; out (sw_to_affine F (sw_mul_by_cofactor_to_group F a hl Q));
                   b2l (in_r S'); b2l (sw_aff_on_curve F a b Q)]
           end
    | 5 => ok [[fchar F; Z.of_nat (fdeg F)]; fcoords F a; fcoords F b; [r; cinv]; hl;
               b2l (cofactor_is_one hl)]
    | 6 => ok [b2l (sw_aff_on_curve F a b P); b2l (in_r P)]
    | _ => unsupported
    end.
End RunSW.

Section KindsGeneric.
  Context {T : Type} (F : Fops T).
  Definition run_sw_generic (op : Z) (args : list (list Z)) : list (list Z) :=
    let a := el F (arg 2 args) 0 in
    let r := ai 4 0 args in
    let hl := arg 5 args in
    let kind := ai 6 0 args in
    let xabs := ai 6 1 args in
    let xs := if ai 6 2 args =? 0 then xabs else - xabs in
    let dflt := sw_in_subgroup_default F a hl r in
    let dclear := sw_clear_cofactor_default F a hl in
    match kind with
    | 0 => run_sw_with F dflt dflt dclear op args
    | 1 => let beta := el F (arg 7 args) 0 in
           let endo := el F (arg 7 args) 1 in
           let glv := glv_mul_projective F a r (ai 6 3 args) (ai 6 4 args) (ai 6 5 args) (ai 6 6 args)
                        (Z.to_nat (ai 6 7 args)) endo in
           run_sw_with F (bls_g1_test F a glv xabs beta) (bls_g1_test F a (sw_mul_projective F a) xabs beta)
                       (sw_clear_heff F a ((1 - xs) mod r)) op args
    | 2 => run_sw_with F dflt dflt (sw_clear_heff F a ((xs - 1) mod r)) op args
    | 3 => run_sw_with F dflt dflt (sw_clear_heff F a (ai 6 1 args)) op args
    | 6 => run_sw_with F (fun _ => true) (fun _ => true) dclear op args
    | _ => unsupported
    end.
End KindsGeneric.

Section KindsQuad.
  Context {T : Type} (B : Fops T) (nr : T).
  Local Notation Fq2 := (F2 B nr).
  Definition run_sw_quad (op : Z) (args : list (list Z)) : list (list Z) :=
    let a := el Fq2 (arg 2 args) 0 in
    let r := ai 4 0 args in
    let hl := arg 5 args in
    let kind := ai 6 0 args in
    let xabs := ai 6 1 args in
    let xneg := negb (ai 6 2 args =? 0) in
    let c := arg 7 args in
    let fc := el B c 0 in
    let dflt := sw_in_subgroup_default Fq2 a hl r in
    let dclear := sw_clear_cofactor_default Fq2 a hl in
    match kind with
    | 4 => let psi := psi_bls381 B nr fc (el B c 1) (el Fq2 (skipn 2 c) 0) in
           let t := psi_test Fq2 a psi xabs xneg in
           run_sw_with Fq2 t t (bp_clear Fq2 a psi (el Fq2 (skipn 4 c) 0) xabs xneg) op args
    | 5 => let psi := psi_generic B nr fc (el Fq2 (skipn 1 c) 0) (el Fq2 (skipn 3 c) 0) in
           run_sw_with Fq2 dflt dflt (bp_clear Fq2 a psi (el Fq2 (skipn 5 c) 0) xabs xneg) op args
    | 7 => let psi := psi_generic B nr fc (el Fq2 (skipn 1 c) 0) (el Fq2 (skipn 3 c) 0) in
           let t := psi_test Fq2 a psi xabs false in
           run_sw_with Fq2 t t dclear op args
    | _ => run_sw_generic Fq2 op args
    end.
End KindsQuad.

Section RunTE.
  Context {T : Type} (F : Fops T).
  Definition te_o (o : option (@te_aff T)) : option (list Z) :=
    match o with Some A => Some (te_aff_to_list F A) | None => None end.
  (* any None = the Rust conversion panics *)
  Fixpoint te_all (l : list (option (list Z))) : option (list (list Z)) :=
    match l with
    | [] => Some []
    | None :: _ => None
    | Some x :: t => match te_all t with Some r => Some (x :: r) | None => None end
    end.
  Definition te_res (l : list (option (list Z))) : list (list Z) :=
    match te_all l with Some r => ok r | None => panic end.

  Definition run_te (op : Z) (args : list (list Z)) : list (list Z) :=
    let a := el F (arg 2 args) 0 in
    let d := el F (arg 3 args) 0 in
    let r := ai 4 0 args in
    let cinv := ai 4 1 args in
    let heff := ai 4 2 args in
    let hl := arg 5 args in
    let P := te_aff_of_list F (arg 8 args) in
    let in_r A := te_in_subgroup_default F a d r A in
    let lb (x : bool) := Some (b2l x) in
    match op with
    | 11 => ok [b2l (in_r P); b2l (in_r P); b2l (in_r P)]
    | 12 => let C := te_clear_cofactor_default F a d hl P in
            te_res [te_o C; te_o (te_to_affine_opt F (te_mul_affine F a d P heff));
                    match C with Some C' => lb (in_r C') | None => None end;
                    te_o (te_mul_by_cofactor F a d hl P);
                    te_o (te_to_affine_opt F (te_mul_by_cofactor_to_group F a d hl P))]
    | 13 => match te_mul_by_cofactor F a d hl P with
            | None => panic
            | Some Q =>
                match te_mul_by_cofactor_inv F a d cinv Q with
                | None => panic
                | Some R => ok [te_aff_to_list F R; b2l (te_eqb F (te_of_affine F R) (te_of_affine F P));
                                te_aff_to_list F (if in_r P then P else R)]
                end
            end
    | 14 => let y := el F (arg 8 args) 0 in
            let greatest := negb (ai 9 0 args =? 0) in
            let hint := el F (arg 10 args) 0 in
            match te_get_point_from_y F a d y greatest hint with
            | None => bad_hint
            | Some None => ok [[0]]
            | Some (Some Q) =>
                match te_mul_by_cofactor F a d hl Q with
                | None => panic
                | Some S' =>
                    ok [[1]; te_aff_to_list F Q; te_aff_to_list F S'; te_aff_to_list F S';
                        b2l (in_r S'); b2l (te_aff_on_curve F a d Q)]
                end
            end
    | 15 => ok [[fchar F; Z.of_nat (fdeg F)]; fcoords F a; fcoords F d; [r; cinv]; hl;
                b2l (cofactor_is_one hl)]
    | 16 => ok [b2l (te_aff_on_curve F a d P); b2l (in_r P)]
    | _ => unsupported
    end.
End RunTE.

Definition run_C12 (op : Z) (a : list (list Z)) : list (list Z) :=
  let p := nth 0 (arg 1 a) 0 in
  let deg := nth 1 (arg 1 a) 1 in
  let nr := nth 2 (arg 1 a) 0 in
  if op <? 10 then
    match deg with
    | 1 => run_sw_generic (ZpOps p) op a
    | 2 => run_sw_quad (ZpOps p) (nr mod p) op a
    | 3 => run_sw_generic (CubicOps (ZpOps p) (nr mod p)) op a
    | _ => unsupported
    end
  else
    match deg with
    | 1 => run_te (ZpOps p) op a
    | 2 => run_te (QuadOps (ZpOps p) (nr mod p)) op a
    | _ => unsupported
    end.
