(* C12 -- short Weierstrass: the default membership test, cofactor multiplication, its
   inverse, cofactor clearing, sampling and the endomorphism-based tests, related to the
   n-fold sum [nsmul] of the affine chord-and-tangent law (the specification of C03).
   Section hypotheses: [good_field F]; associativity of the affine law on curve points
   (classical; not formalised in this development). *)
From V Require Import Base.Field C03.CurveExec C03.SWProofs C03.FieldHyp C12.SubgroupModel C12.GroupProofs.
Require Import Lia Coq.setoid_ring.Field Coq.setoid_ring.Ring.

Lemma limbs_zero : forall t, forallb (fun y => y =? 0) t = true -> limbs_val t = 0.
Proof.
  induction t as [|x t IH]; cbn [forallb limbs_val fold_right]; intros H; [reflexivity|].
  apply andb_true_iff in H. destruct H as [Hx Ht]. apply Z.eqb_eq in Hx.
  unfold limbs_val in IH. rewrite (IH Ht), Hx. reflexivity.
Qed.
Lemma cofactor_is_one_val : forall hl, cofactor_is_one hl = true -> limbs_val hl = 1.
Proof.
  intros [|x t] H; cbn [cofactor_is_one] in H; [discriminate|].
  apply andb_true_iff in H. destruct H as [Hx Ht]. apply Z.eqb_eq in Hx.
  pose proof (limbs_zero t Ht) as Hz. unfold limbs_val in *. cbn [fold_right]. rewrite Hz, Hx. reflexivity.
Qed.

Section SWSub.
  Context {T : Type} (F : Fops T) (a b : T).
  Hypothesis GF : good_field F.
  Hypothesis affine_law_assoc : forall A B C, aff_on F a b A -> aff_on F a b B -> aff_on F a b C ->
    aff_add_sw F a A (aff_add_sw F a B C) = aff_add_sw F a (aff_add_sw F a A B) C.

  Let Fth := gf_th F GF.
  Let Feq := gf_eqb F GF.
  Let Ftwo := gf_two F GF.
  Add Field Kf12 : Fth.

  Local Notation on := (aff_on F a b).
  Local Notation jon := (jac_on F a b).
  Local Notation gadd := (aff_add_sw F a).
  (* n * P in the affine group *)
  Definition sw_nsmul (n : nat) (P : @sw_aff T) : @sw_aff T := nsmul gadd None n P.
  Local Notation "n ** P" := (sw_nsmul n P) (at level 40).

  Lemma on_none : on None. Proof. exact I. Qed.
  Lemma gadd_in : forall x y, on x -> on y -> on (gadd x y).
  Proof. exact (aff_add_sw_on F a b Fth Feq Ftwo). Qed.
  Lemma gadd_id_l : forall x, on x -> gadd None x = x.
  Proof. reflexivity. Qed.
  Lemma gadd_id_r : forall x, on x -> gadd x None = x.
  Proof. intros [[x y]|] _; reflexivity. Qed.

  Lemma nsmul_on : forall n P, on P -> on (n ** P).
  Proof. intros. apply (nsmul_in on gadd None on_none gadd_in); assumption. Qed.

  Lemma zero_ok : jon (sw_zero F) /\ sw_to_affine F (sw_zero F) = None.
  Proof.
    assert (E : sw_to_affine F (sw_zero F) = None).
    { unfold sw_zero, sw_to_affine. replace (feqb F (f0 F) (f0 F)) with true; [reflexivity|].
      symmetry. apply Feq. reflexivity. }
    split; [unfold jac_on; rewrite E; exact I | exact E].
  Qed.
  Lemma dbl_ok : forall P, jon P -> jon (sw_double F a P) /\
    sw_to_affine F (sw_double F a P) = gadd (sw_to_affine F P) (sw_to_affine F P).
  Proof.
    intros P HP. split.
    - apply (sw_double_on_curve F a b Fth Feq Ftwo); exact HP.
    - apply (sw_double_correct F a Fth Feq Ftwo).
  Qed.
  Lemma madd_ok : forall P A, jon P -> on A -> jon (sw_madd F a P A) /\
    sw_to_affine F (sw_madd F a P A) = gadd (sw_to_affine F P) A.
  Proof.
    intros P A HP HA. split.
    - apply (sw_madd_on_curve F a b Fth Feq Ftwo); assumption.
    - apply (sw_madd_correct F a b Fth Feq Ftwo); assumption.
  Qed.
  Lemma add_ok : forall P Q, jon P -> jon Q -> jon (sw_add F a P Q) /\
    sw_to_affine F (sw_add F a P Q) = gadd (sw_to_affine F P) (sw_to_affine F Q).
  Proof.
    intros P Q HP HQ. split.
    - apply (sw_add_on_curve F a b Fth Feq Ftwo); assumption.
    - apply (sw_add_correct F a b Fth Feq Ftwo); assumption.
  Qed.

  (* ---- double-and-add computes n * P ---- *)
  Theorem sw_mul_affine_correct : forall P n, on P ->
    jon (sw_mul_affine F a P n) /\ sw_to_affine F (sw_mul_affine F a P n) = Z.to_nat n ** P.
  Proof.
    intros P n HP. unfold sw_mul_affine, sw_nsmul.
    apply (da_correct on gadd None on_none gadd_in affine_law_assoc gadd_id_l gadd_id_r
             (sw_to_affine F) jon (fun A => A) on (sw_zero F) (sw_double F a) (sw_madd F a)).
    - intros x H; exact H.
    - exact zero_ok.
    - exact dbl_ok.
    - exact madd_ok.
    - exact HP.
  Qed.
  Theorem sw_mul_projective_correct : forall P n, jon P ->
    jon (sw_mul_projective F a P n) /\
    sw_to_affine F (sw_mul_projective F a P n) = Z.to_nat n ** sw_to_affine F P.
  Proof.
    intros P n HP. unfold sw_mul_projective, sw_nsmul.
    apply (da_correct on gadd None on_none gadd_in affine_law_assoc gadd_id_l gadd_id_r
             (sw_to_affine F) jon (sw_to_affine F) jon (sw_zero F) (sw_double F a) (sw_add F a)).
    - intros x H; exact H.
    - exact zero_ok.
    - exact dbl_ok.
    - exact add_ok.
    - exact HP.
  Qed.

  Lemma is_zero_iff : forall Q, sw_is_zero F Q = true <-> sw_to_affine F Q = None.
  Proof.
    intros [[x y] z]. unfold sw_is_zero, sw_to_affine.
    destruct (feqb F z (f0 F)); [tauto|].
    destruct (feqb F z (f1 F)); split; intro H; discriminate H.
  Qed.

  (* ---- the default test ---- *)
  Theorem default_test_iff_rP_zero : forall hl r P, cofactor_is_one hl = false -> on P ->
    (sw_in_subgroup_default F a hl r P = true <-> Z.to_nat r ** P = None).
  Proof.
    intros hl r P Hc HP. unfold sw_in_subgroup_default. rewrite Hc.
    rewrite is_zero_iff. destruct (sw_mul_affine_correct P r HP) as [_ E]. rewrite E. tauto.
  Qed.

  Lemma nsmul_mul_Z : forall m r P, 0 <= m -> 0 <= r -> on P ->
    Z.to_nat r ** (Z.to_nat m ** P) = Z.to_nat (m * r) ** P.
  Proof.
    intros m r P Hm Hr HP. unfold sw_nsmul.
    rewrite <- (nsmul_mul on gadd None on_none gadd_in affine_law_assoc gadd_id_l) by exact HP.
    f_equal. rewrite Z2Nat.inj_mul by assumption. lia.
  Qed.

  (* with the group order: #E = h r makes (h r) P = O for every curve point (Lagrange);
     the counting itself (Hasse / Schoof) is not formalised: premise *)
  Theorem default_test_all : forall hl r P, 0 <= r ->
    (forall Q, on Q -> Z.to_nat (limbs_val hl * r) ** Q = None) -> on P ->
    (sw_in_subgroup_default F a hl r P = true <-> Z.to_nat r ** P = None).
  Proof.
    intros hl r P Hr Hord HP. destruct (cofactor_is_one hl) eqn:Hc.
    - unfold sw_in_subgroup_default. rewrite Hc.
      pose proof (Hord P HP) as H. rewrite (cofactor_is_one_val hl Hc), Z.mul_1_l in H. tauto.
    - apply default_test_iff_rP_zero; assumption.
  Qed.

  (* ---- multiplication by a fixed integer m (cofactor, effective cofactor) ---- *)
  Theorem clear_heff_is_mul : forall m P, on P ->
    on (sw_clear_heff F a m P) /\ sw_clear_heff F a m P = Z.to_nat m ** P.
  Proof.
    intros m P HP. unfold sw_clear_heff. destruct (sw_mul_affine_correct P m HP) as [Ho E].
    split; [exact Ho | exact E].
  Qed.
  Theorem clear_in_subgroup : forall m r P, 0 <= m -> 0 <= r ->
    (forall Q, on Q -> Z.to_nat (m * r) ** Q = None) -> on P ->
    Z.to_nat r ** sw_clear_heff F a m P = None.
  Proof.
    intros m r P Hm Hr Hord HP. destruct (clear_heff_is_mul m P HP) as [_ E]. rewrite E.
    rewrite nsmul_mul_Z by assumption. apply Hord; exact HP.
  Qed.
  Theorem clear_cofactor_default_in_subgroup : forall hl r P, 0 <= limbs_val hl -> 0 <= r ->
    (forall Q, on Q -> Z.to_nat (limbs_val hl * r) ** Q = None) -> on P ->
    on (sw_clear_cofactor_default F a hl P) /\
    sw_clear_cofactor_default F a hl P = Z.to_nat (limbs_val hl) ** P /\
    Z.to_nat r ** sw_clear_cofactor_default F a hl P = None.
  Proof.
    intros hl r P Hh Hr Hord HP.
    change (sw_clear_cofactor_default F a hl P) with (sw_clear_heff F a (limbs_val hl) P).
    destruct (clear_heff_is_mul (limbs_val hl) P HP) as [Ho E].
    repeat split; [exact Ho | exact E | apply clear_in_subgroup; assumption].
  Qed.

  (* ---- cofactor and its inverse modulo r ---- *)
  Theorem cofactor_inv_composes : forall hl cinv r P, 0 <= limbs_val hl -> 0 <= cinv -> 0 < r ->
    (limbs_val hl * cinv) mod r = 1 -> on P -> Z.to_nat r ** P = None ->
    sw_mul_by_cofactor_inv F a cinv (sw_mul_by_cofactor F a hl P) = P.
  Proof.
    intros hl cinv r P Hh Hc Hr Hmod HP HrP.
    unfold sw_mul_by_cofactor_inv, sw_mul_by_cofactor, sw_mul_by_cofactor_to_group.
    destruct (sw_mul_affine_correct P (limbs_val hl) HP) as [Ho E].
    destruct (sw_mul_affine_correct (sw_to_affine F (sw_mul_affine F a P (limbs_val hl))) cinv Ho) as [_ E2].
    rewrite E2, E. rewrite nsmul_mul_Z by (assumption || lia).
    set (k := (limbs_val hl * cinv) / r).
    assert (Hk : limbs_val hl * cinv = 1 + k * r).
    { pose proof (Z.div_mod (limbs_val hl * cinv) r ltac:(lia)) as D. rewrite Hmod in D. unfold k. lia. }
    assert (Hk0 : 0 <= k) by (unfold k; apply Z.div_pos; nia).
    rewrite Hk. replace (Z.to_nat (1 + k * r)) with (1 + Z.to_nat k * Z.to_nat r)%nat
      by (rewrite Z2Nat.inj_add, Z2Nat.inj_mul by nia; reflexivity).
    unfold sw_nsmul.
    apply (nsmul_one_mod on gadd None on_none gadd_in affine_law_assoc gadd_id_l gadd_id_r); assumption.
  Qed.

  (* ---- sampling ---- *)
  Lemma rhs_spec : forall x, sw_rhs F a b x = fadd F (fadd F (fmul F (fmul F x x) x) (fmul F a x)) b.
  Proof.
    intros x. unfold sw_rhs, sw_add_b, sw_mul_by_a, sq.
    destruct (feqb F b (f0 F)) eqn:Eb; destruct (feqb F a (f0 F)) eqn:Ea; cbn [negb];
      try (apply Feq in Eb; rewrite Eb); try (apply Feq in Ea; rewrite Ea); ring.
  Qed.
  Theorem point_from_x_on_curve : forall x g hint Q,
    sw_get_point_from_x F a b x g hint = Some (Some Q) -> on Q /\ exists y, Q = Some (x, y).
  Proof.
    intros x g hint Q. unfold sw_get_point_from_x.
    destruct (f_is_square F (sw_rhs F a b x)); [|discriminate].
    destruct (feqb F (sq F hint) (sw_rhs F a b x)) eqn:E; [|discriminate].
    apply Feq in E. rewrite rhs_spec in E. unfold sq in E.
    assert (E' : fmul F (fneg F hint) (fneg F hint) =
                 fadd F (fadd F (fmul F (fmul F x x) x) (fmul F a x)) b) by (rewrite <- E; ring).
    destruct (f_lt F hint (fneg F hint)); destruct g; intros H; inversion H; subst Q; cbn [aff_on];
      (split; [assumption | eexists; reflexivity]).
  Qed.
  Theorem sample_in_subgroup : forall hl r x g hint S, 0 <= limbs_val hl -> 0 <= r ->
    (forall Q, on Q -> Z.to_nat (limbs_val hl * r) ** Q = None) ->
    sw_sample_from_x F a b hl x g hint = Some (Some S) -> on S /\ Z.to_nat r ** S = None.
  Proof.
    intros hl r x g hint S Hh Hr Hord. unfold sw_sample_from_x.
    destruct (sw_get_point_from_x F a b x g hint) as [[Q|]|] eqn:E; try discriminate.
    intros H. inversion H; subst S. destruct (point_from_x_on_curve _ _ _ _ E) as [HQ _].
    destruct (clear_cofactor_default_in_subgroup hl r Q Hh Hr Hord HQ) as [Ho [_ Hz]].
    split; [exact Ho | exact Hz].
  Qed.

  (* ---- endomorphism-based tests ---- *)
  Lemma eq_proj_aff_iff : forall P A, sw_eq_proj_aff F P A = true <-> sw_to_affine F P = A.
  Proof.
    intros P A. unfold sw_eq_proj_aff. rewrite (sw_eqb_spec F Fth Feq).
    rewrite (sw_roundtrip_affine F Fth Feq). tauto.
  Qed.
  Definition sgn_aff (neg : bool) (A : @sw_aff T) : @sw_aff T := if neg then aff_neg_sw F A else A.

  (* [s]P == psi(P): the test answers yes exactly when psi(P) = (+-s) P *)
  Theorem psi_test_iff : forall psi s sneg P, on P ->
    (psi_test F a psi s sneg P = true <-> psi P = sgn_aff sneg (Z.to_nat s ** P)).
  Proof.
    intros psi s sneg P HP. unfold psi_test. rewrite eq_proj_aff_iff.
    destruct (sw_mul_affine_correct P s HP) as [_ E]. unfold sgn_aff.
    destruct sneg; [rewrite (sw_neg_correct F Fth Feq)|]; rewrite E; split; intro H; symmetry; exact H.
  Qed.

  (* sigma test of bls12_381 G1 with the plain double-and-add as mul_projective *)
  Theorem bls_g1_test_iff : forall xabs beta P, on P ->
    (bls_g1_test F a (sw_mul_projective F a) xabs beta P = true <->
     ~ (Z.to_nat xabs ** P = P /\ P <> None) /\
     endo_aff F beta P = aff_neg_sw F (Z.to_nat xabs ** (Z.to_nat xabs ** P))).
  Proof.
    intros xabs beta P HP. unfold bls_g1_test.
    destruct (sw_mul_affine_correct P xabs HP) as [Ho E].
    destruct (sw_mul_projective_correct _ xabs Ho) as [_ E2].
    assert (Hinf : sw_aff_is_inf P = true <-> P = None).
    { destruct P; cbn [sw_aff_is_inf]; split; intro H; congruence. }
    destruct (sw_eq_proj_aff F (sw_mul_affine F a P xabs) P && negb (sw_aff_is_inf P)) eqn:B.
    - apply andb_true_iff in B. destruct B as [B1 B2]. apply eq_proj_aff_iff in B1. rewrite E in B1.
      apply negb_true_iff in B2. split; [discriminate|]. intros [Hn _]. exfalso. apply Hn.
      split; [exact B1|]. intro HN. apply Hinf in HN. congruence.
    - rewrite eq_proj_aff_iff, (sw_neg_correct F Fth Feq), E2, E.
      apply andb_false_iff in B. split.
      + intros H. split; [|symmetry; exact H]. intros [H1 H2]. destruct B as [B|B].
        * rewrite <- E in H1. apply eq_proj_aff_iff in H1. congruence.
        * apply negb_false_iff in B. apply Hinf in B. contradiction.
      + intros [_ H]. symmetry. exact H.
  Qed.
End SWSub.

(* premises of the property theorems, named *)
(* the chord-and-tangent law is associative on the points of the curve *)
Definition sw_law_assoc {T : Type} (F : Fops T) (a b : T) : Prop :=
  forall A B C, aff_on F a b A -> aff_on F a b B -> aff_on F a b C ->
    aff_add_sw F a A (aff_add_sw F a B C) = aff_add_sw F a (aff_add_sw F a A B) C.
(* every point of the curve is killed by m r (m = cofactor: #E = h r and Lagrange; m = h_eff:
   the exponent of the group divides h_eff r) *)
Definition sw_killed_by {T : Type} (F : Fops T) (a b : T) (n : Z) : Prop :=
  forall Q, aff_on F a b Q -> sw_nsmul F a (Z.to_nat n) Q = None.
