(* C12 -- subgroup membership tests and cofactor clearing: executable model of
     ec/src/models/mod.rs                     (CurveConfig::cofactor_is_one)
     ec/src/models/short_weierstrass/mod.rs   (is_in_correct_subgroup_assuming_on_curve,
                                               clear_cofactor, mul_affine, mul_projective)
     ec/src/models/short_weierstrass/affine.rs(get_ys_from_x_unchecked, get_point_from_x_unchecked,
                                               mul_by_cofactor_to_group, sampling)
     ec/src/models/twisted_edwards/{mod,affine}.rs (same for twisted Edwards)
     ec/src/lib.rs                            (AffineRepr::mul_by_cofactor, mul_by_cofactor_inv)
     ec/src/scalar_mul/{mod,glv}.rs           (double-and-add, GLV multiplication)
   and of the overrides in the curve crates
     curves/bls12_381/src/curves/g1.rs   sigma-endomorphism test with early-out, h_eff = 1 - x
     test-curves/src/bls12_381/g1.rs     h_eff literal
     curves/bls12_377/src/curves/g1.rs   h_eff = x - 1
     {curves,test-curves}/bls12_381 g2.rs  psi test, Budroni-Pintore clearing
     curves/bls12_377/src/curves/g2.rs   Budroni-Pintore clearing
     curves/bn254/src/curves/g1.rs       `true`
     curves/bn254/src/curves/g2.rs       psi test with 6x^2
   over the C03 curve model (coq/C03/CurveExec.v).  Scalars are non-negative integers
   (the value of the little-endian u64 limb slice); the bit loop
   `for b in BitIteratorBE::without_leading_zeros(scalar) { res.double_in_place(); if b { res += base } }`
   is the structural recursion [da_pos] on the binary representation: the most
   significant bit is the innermost call, so the sequence of group operations is the
   same as in the Rust loop.  No proofs in this file. *)
From V Require Import Base.Field C03.CurveExec.

(* ---------------- scalars ---------------- *)
Definition limbs_val (l : list Z) : Z := fold_right (fun x acc => x + 2 ^ 64 * acc) 0 l.

(* CurveConfig::cofactor_is_one: COFACTOR[0] == 1 && all other limbs zero *)
Definition cofactor_is_one (h : list Z) : bool :=
  match h with
  | [] => false                      (* Rust would panic on the index; never shipped *)
  | x :: t => (x =? 1) && forallb (fun y => y =? 0) t
  end.

Section DoubleAndAdd.
  Context {R A : Type} (zero : R) (dbl : R -> R) (add : R -> A -> R).
  Fixpoint da_pos (base : A) (n : positive) : R :=
    match n with
    | xH => add (dbl zero) base
    | xO n' => dbl (da_pos base n')
    | xI n' => add (dbl (da_pos base n')) base
    end.
  (* no bits at all for 0 (and nothing is ever negative: limbs are unsigned) *)
  Definition da (base : A) (n : Z) : R :=
    match n with Zpos p => da_pos base p | _ => zero end.
End DoubleAndAdd.

(* lexicographic "<" of field elements as Rust's Ord: most significant coordinate last
   in [fcoords] (c1 before c0 for Fp2, c2, c1, c0 for Fp3) *)
Fixpoint lex_lt (l1 l2 : list Z) : bool :=
  match l1, l2 with
  | x :: t1, y :: t2 => if x <? y then true else if y <? x then false else lex_lt t1 t2
  | _, _ => false
  end.

Section Generic.
  Context {T : Type} (F : Fops T).
  Definition f_lt (x y : T) : bool := lex_lt (rev (fcoords F x)) (rev (fcoords F y)).
  (* |F| = p^deg *)
  Definition f_order : Z := fchar F ^ Z.of_nat (fdeg F).
  (* Euler criterion; stands for `sqrt().is_some()` (LegendreSymbol / sqrt are C11's subject) *)
  Definition f_is_square (x : T) : bool :=
    feqb F x (f0 F) || feqb F (fpow F x ((f_order - 1) / 2)) (f1 F).
End Generic.

(* scalar_mul/glv.rs: scalar_decomposition (integers) *)
(* div_rem of num-bigint truncates; "if 2 rem > r then div + 1" *)
Definition round_div (n r : Z) : Z :=
  let d := Z.quot n r in let m := Z.rem n r in if r <? m + m then d + 1 else d.
Definition glv_decomp (r n11 n12 n21 n22 k : Z) : Z * Z :=
  let beta1 := round_div (k * n22) r in
  let beta2 := round_div (k * (- n12)) r in
  let b1 := beta1 * n11 + beta2 * n21 in
  let b2 := beta1 * n12 + beta2 * n22 in
  (k - b1, - b2).

(* ======================= short Weierstrass ======================= *)
Section SW.
  Context {T : Type} (F : Fops T) (a b : T).
  Local Infix "+" := (fadd F).
  Local Infix "*" := (fmul F).
  Local Infix "==" := (feqb F) (at level 70).
  Local Notation aff := (@sw_aff T).
  Local Notation jac := (@sw_jac T).

  (* SWCurveConfig::mul_affine = sw_double_and_add_affine;  mul_projective default *)
  Definition sw_mul_affine (P : aff) (n : Z) : jac := da (sw_zero F) (sw_double F a) (sw_madd F a) P n.
  Definition sw_mul_projective (P : jac) (n : Z) : jac := da (sw_zero F) (sw_double F a) (sw_add F a) P n.

  (* default is_in_correct_subgroup_assuming_on_curve *)
  Definition sw_in_subgroup_default (hl : list Z) (r : Z) (P : aff) : bool :=
    if cofactor_is_one hl then true else sw_is_zero F (sw_mul_affine P r).

  (* AffineRepr::mul_by_cofactor_to_group / mul_by_cofactor / clear_cofactor (default) /
     mul_by_cofactor_inv (cinv = COFACTOR_INV.into_bigint()) *)
  Definition sw_mul_by_cofactor_to_group (hl : list Z) (P : aff) : jac := sw_mul_affine P (limbs_val hl).
  Definition sw_mul_by_cofactor (hl : list Z) (P : aff) : aff := sw_to_affine F (sw_mul_by_cofactor_to_group hl P).
  Definition sw_clear_cofactor_default (hl : list Z) (P : aff) : aff := sw_mul_by_cofactor hl P.
  Definition sw_mul_by_cofactor_inv (cinv : Z) (P : aff) : aff := sw_to_affine F (sw_mul_affine P cinv).

  (* clear_cofactor overrides of the G1 curves: Config::mul_affine(p, h_eff).into() *)
  Definition sw_clear_heff (heff : Z) (P : aff) : aff := sw_to_affine F (sw_mul_affine P heff).

  (* Affine::get_ys_from_x_unchecked / get_point_from_x_unchecked.  The square root itself
     is not modelled here: [hint] is any root supplied by the caller and is checked;
     [None] = the hint is not a root although the value is a square (never produced for
     generated cases), [Some None] = not a square (Rust: None). *)
  Definition sw_rhs (x : T) : T :=
    let t := sw_add_b F b (sq F x * x) in
    if negb (a == f0 F) then t + sw_mul_by_a F a x else t.
  Definition sw_get_point_from_x (x : T) (greatest : bool) (hint : T) : option (option aff) :=
    let v := sw_rhs x in
    if f_is_square F v then
      if sq F hint == v then
        let y := hint in
        let neg_y := fneg F y in
        let '(smaller, larger) := if f_lt F y neg_y then (y, neg_y) else (neg_y, y) in
        Some (Some (Some (x, if greatest then larger else smaller)))
      else None
    else Some None.
  (* Distribution<Affine>::sample after the rejection loop: p.mul_by_cofactor() *)
  Definition sw_sample_from_x (hl : list Z) (x : T) (greatest : bool) (hint : T) : option (option aff) :=
    match sw_get_point_from_x x greatest hint with
    | Some (Some P) => Some (Some (sw_mul_by_cofactor hl P))
    | Some None => Some None
    | None => None
    end.

  (* Projective == Affine : *self == other.into_group() *)
  Definition sw_eq_proj_aff (P : jac) (A : aff) : bool := sw_eqb F P (sw_of_affine F A).
  Definition sw_aff_is_inf (A : aff) : bool := match A with None => true | Some _ => false end.

  (* x-coordinate scaling endomorphisms (the identity keeps its flag) *)
  Definition endo_aff (beta : T) (A : aff) : aff :=
    match A with None => None | Some (x, y) => Some (x * beta, y) end.
  Definition endo_jac (beta : T) (P : jac) : jac := let '(x, y, z) := P in (x * beta, y, z).

  (* ---------- scalar_mul/glv.rs ---------- *)
  (* the joint loop over BitIteratorBE::new of both (nbits = 64 * limbs) *)
  Fixpoint glv_loop (n : nat) (k1 k2 : Z) (b1 b2 b12 : jac) (res : jac) (skip : bool) : jac :=
    match n with
    | O => res
    | S i =>
        let p1 := Z.testbit k1 (Z.of_nat i) in
        let p2 := Z.testbit k2 (Z.of_nat i) in
        if skip && negb p1 && negb p2 then glv_loop i k1 k2 b1 b2 b12 res false
        else
          let res := sw_double F a res in
          let res := match p1, p2 with
                     | true, false => sw_add F a res b1
                     | false, true => sw_add F a res b2
                     | true, true => sw_add F a res b12
                     | false, false => res
                     end in
          glv_loop i k1 k2 b1 b2 b12 res skip
    end.
  (* mul_projective override: from_sign_and_limbs(true, scalar) then glv_mul_projective *)
  Definition glv_mul_projective (r n11 n12 n21 n22 : Z) (nbits : nat) (endo : T) (P : jac) (n : Z) : jac :=
    let k := n mod r in
    let '(k1, k2) := glv_decomp r n11 n12 n21 n22 k in
    let b1 := if 0 <? k1 then P else sw_neg F P in
    let b2 := let e := endo_jac endo P in if 0 <? k2 then e else sw_neg F e in
    let b12 := sw_add F a b1 b2 in
    glv_loop nbits (Z.abs k1 mod r) (Z.abs k2 mod r) b1 b2 b12 (sw_zero F) true.

  (* ---------- curves/bls12_381/src/curves/g1.rs ---------- *)
  (* [mulp] is the curve's mul_projective (GLV in the crate) *)
  Definition bls_g1_test (mulp : jac -> Z -> jac) (xabs : Z) (beta : T) (P : aff) : bool :=
    let x_times_p := sw_mul_affine P xabs in
    if sw_eq_proj_aff x_times_p P && negb (sw_aff_is_inf P) then false
    else
      let minus_x_squared_times_p := sw_neg F (mulp x_times_p xabs) in
      sw_eq_proj_aff minus_x_squared_times_p (endo_aff beta P).

  (* ---------- Budroni-Pintore clearing, G2 of the BLS12 curves ---------- *)
  (* psi : affine -> affine, psi2c : the coefficient of double_p_power_endomorphism,
     xneg: the two `.neg()` of the bls12_381 variants *)
  Definition bp_clear (psi : aff -> aff) (psi2c : T) (xabs : Z) (xneg : bool) (P : aff) : aff :=
    let sgn (Q : jac) := if xneg then sw_neg F Q else Q in
    let p_projective := sw_of_affine F P in
    let x_p := sgn (sw_mul_affine P xabs) in
    let psi_p := psi P in
    let psi2_p2 := let '(x, y, z) := sw_double F a p_projective in (x * psi2c, fneg F y, z) in
    let tmp := sw_madd F a x_p psi_p in
    let tmp2 := sgn (sw_mul_projective tmp xabs) in
    let acc := sw_add F a psi2_p2 tmp2 in
    let acc := sw_sub F a acc x_p in
    let acc := sw_madd F a acc (sw_aff_neg F psi_p) in
    sw_to_affine F (sw_sub F a acc p_projective).

  (* psi-based membership tests: [s]P == psi(P) (bls12_381 G2: s = |x|, negated when x < 0;
     bn254 G2: s = 6x^2) *)
  Definition psi_test (psi : aff -> aff) (s : Z) (sneg : bool) (P : aff) : bool :=
    let sp := sw_mul_affine P s in
    let sp := if sneg then sw_neg F sp else sp in
    sw_eq_proj_aff sp (psi P).
End SW.

(* psi on E'(F_q^2): Frobenius (c1 *= FROBENIUS_COEFF_FP2_C1[1]) then coefficient products *)
Section Psi.
  Context {T : Type} (B : Fops T) (nr : T).
  Definition F2 : Fops (T * T) := QuadOps B nr.
  Definition fp2_frob (fc : T) (x : T * T) : T * T := (fst x, fmul B (snd x) fc).
  (* bls12_377 G2, bn254 G2: res.x *= COEFF_0; res.y *= COEFF_1 *)
  Definition psi_generic (fc : T) (c0 c1 : T * T) (A : @sw_aff (T * T)) : @sw_aff (T * T) :=
    match A with
    | None => None
    | Some (x, y) => Some (fmul F2 (fp2_frob fc x) c0, fmul F2 (fp2_frob fc y) c1)
    end.
  (* bls12_381 G2: x.c0 = -k * x.c1 ; x.c1 = k * x.c0 with k = COEFF_0.c1 ; y *= COEFF_1 *)
  Definition psi_bls381 (fc : T) (k : T) (c1 : T * T) (A : @sw_aff (T * T)) : @sw_aff (T * T) :=
    match A with
    | None => None
    | Some (x, y) =>
        let tx := fp2_frob fc x in
        Some ((fmul B (fneg B k) (snd tx), fmul B k (fst tx)), fmul F2 (fp2_frob fc y) c1)
    end.
End Psi.

(* ======================= twisted Edwards ======================= *)
Section TE.
  Context {T : Type} (F : Fops T) (a d : T).
  Local Notation aff := (@te_aff T).
  Local Notation ext := (@te_ext T).
  Local Infix "*" := (fmul F).
  Local Infix "-" := (fsub F).

  Definition te_mul_affine (P : aff) (n : Z) : ext := da (te_zero F) (te_double F a) (te_madd F a d) P n.
  Definition te_mul_projective (P : ext) (n : Z) : ext := da (te_zero F) (te_double F a) (te_add F a d) P n.
  (* no cofactor-one shortcut in the twisted Edwards default *)
  Definition te_in_subgroup_default (r : Z) (P : aff) : bool := te_is_zero F (te_mul_affine P r).
  Definition te_mul_by_cofactor_to_group (hl : list Z) (P : aff) : ext := te_mul_affine P (limbs_val hl).
  (* `.into()` panics on a non-identity Z = 0 representative: option *)
  Definition te_mul_by_cofactor (hl : list Z) (P : aff) : option aff :=
    te_to_affine_opt F (te_mul_by_cofactor_to_group hl P).
  Definition te_clear_cofactor_default (hl : list Z) (P : aff) : option aff := te_mul_by_cofactor hl P.
  Definition te_mul_by_cofactor_inv (cinv : Z) (P : aff) : option aff := te_to_affine_opt F (te_mul_affine P cinv).

  (* Affine::get_xs_from_y_unchecked / get_point_from_y_unchecked; [hint] as for SW *)
  Definition te_get_point_from_y (y : T) (greatest : bool) (hint : T) : option (option aff) :=
    let y2 := sq F y in
    let numerator := f1 F - y2 in
    let denominator := a - y2 * d in
    if feqb F denominator (f0 F) then Some None
    else
      let x2 := finv F denominator * numerator in
      if f_is_square F x2 then
        if feqb F (sq F hint) x2 then
          let x := hint in
          let neg_x := fneg F x in
          let '(lo, hi) := if f_lt F neg_x x then (neg_x, x) else (x, neg_x) in
          Some (Some (if greatest then hi else lo, y))
        else None
      else Some None.
End TE.
