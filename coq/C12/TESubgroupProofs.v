(* C12 -- twisted Edwards: default membership test, cofactor multiplication and its inverse,
   clearing; for curves whose addition law is complete on the curve points ([te_law_complete]:
   the two denominators never vanish; C03_te_complete proves it for a square, d non-square).
   Section hypotheses: good_field F; completeness; associativity of the Edwards law. *)
From V Require Import Base.Field C03.CurveExec C03.TEProofs C03.FieldHyp Props.C03
  C12.SubgroupModel C12.GroupProofs.
Require Import Lia Coq.setoid_ring.Field Coq.setoid_ring.Ring.

Definition te_law_complete {T : Type} (F : Fops T) (a d : T) : Prop :=
  forall A B, te_aff_on F a d A -> te_aff_on F a d B -> te_dens_ok F d A B.
Definition te_law_assoc {T : Type} (F : Fops T) (a d : T) : Prop :=
  forall A B C, te_aff_on F a d A -> te_aff_on F a d B -> te_aff_on F a d C ->
    aff_add_te F a d A (aff_add_te F a d B C) = aff_add_te F a d (aff_add_te F a d A B) C.

Section TESub.
  Context {T : Type} (F : Fops T) (a d : T).
  Hypothesis GF : good_field F.
  Hypothesis Hcomplete : te_law_complete F a d.
  Hypothesis Hassoc : te_law_assoc F a d.
  Let Fth := gf_th F GF.
  Let Feq := gf_eqb F GF.
  Add Field Kf12te : Fth.

  Local Notation on := (te_aff_on F a d).
  Local Notation gadd := (aff_add_te F a d).
  Local Notation gid := (te_aff_zero F).
  Definition okR (P : @te_ext T) : Prop := te_valid F P /\ on (te_to_affine F P).
  Definition te_nsmul (n : nat) (P : @te_aff T) : @te_aff T := nsmul gadd gid n P.
  Local Notation "n ** P" := (te_nsmul n P) (at level 40).

  Lemma one_nz : f1 F <> f0 F.
  Proof. exact (F_1_neq_0 Fth). Qed.
  Lemma gid_on : on gid.
  Proof. unfold te_aff_zero, te_aff_on. cbv beta iota. ring. Qed.
  Lemma gadd_in : forall x y, on x -> on y -> on (gadd x y).
  Proof. intros x y Hx Hy. apply (C03_te_law_closed T F a d GF); auto. Qed.
  Lemma gadd_id_l : forall x, on x -> gadd gid x = x.
  Proof.
    intros [x y] _. unfold aff_add_te, te_aff_zero, fdiv. cbv beta iota. pose proof one_nz as N.
    f_equal; field; exact N.
  Qed.
  Lemma gadd_id_r : forall x, on x -> gadd x gid = x.
  Proof.
    intros [x y] _. unfold aff_add_te, te_aff_zero, fdiv. cbv beta iota. pose proof one_nz as N.
    f_equal; field; exact N.
  Qed.

  Lemma zero_ok : okR (te_zero F) /\ te_to_affine F (te_zero F) = gid.
  Proof.
    assert (V : te_valid F (te_zero F)).
    { unfold te_zero, te_valid. cbv beta iota. split; [exact one_nz | ring]. }
    assert (E : te_to_affine F (te_zero F) = gid).
    { apply (C03_te_is_zero T F GF _ V). unfold te_zero, te_is_zero.
      rewrite !andb_true_iff, negb_true_iff. repeat split; try (apply Feq; reflexivity).
      destruct (feqb F (f1 F) (f0 F)) eqn:E1; [|reflexivity]. apply Feq in E1. destruct (one_nz E1). }
    split; [split; [exact V | rewrite E; exact gid_on] | exact E].
  Qed.
  Lemma dbl_ok : forall P, okR P -> okR (te_double F a P) /\
    te_to_affine F (te_double F a P) = gadd (te_to_affine F P) (te_to_affine F P).
  Proof.
    intros P [V O].
    destruct (C03_te_double T F a d GF P V O (Hcomplete _ _ O O)) as [V' E].
    split; [split; [exact V' | rewrite E; apply gadd_in; exact O] | exact E].
  Qed.
  Lemma madd_ok : forall P A, okR P -> on A -> okR (te_madd F a d P A) /\
    te_to_affine F (te_madd F a d P A) = gadd (te_to_affine F P) A.
  Proof.
    intros P A [V O] HA.
    destruct (C03_te_madd T F a d GF P A V (Hcomplete _ _ O HA)) as [V' E].
    split; [split; [exact V' | rewrite E; apply gadd_in; assumption] | exact E].
  Qed.

  Theorem te_mul_affine_correct : forall P n, on P ->
    okR (te_mul_affine F a d P n) /\ te_to_affine F (te_mul_affine F a d P n) = Z.to_nat n ** P.
  Proof.
    intros P n HP. unfold te_mul_affine, te_nsmul.
    apply (da_correct on gadd gid gid_on gadd_in Hassoc gadd_id_l gadd_id_r
             (te_to_affine F) okR (fun A => A) on (te_zero F) (te_double F a) (te_madd F a d)).
    - intros x H; exact H.
    - exact zero_ok.
    - exact dbl_ok.
    - exact madd_ok.
    - exact HP.
  Qed.

  Theorem te_default_test_iff_rP_zero : forall r P, on P ->
    (te_in_subgroup_default F a d r P = true <-> Z.to_nat r ** P = gid).
  Proof.
    intros r P HP. unfold te_in_subgroup_default.
    destruct (te_mul_affine_correct P r HP) as [[V _] E].
    rewrite (C03_te_is_zero T F GF _ V), E. tauto.
  Qed.

  Lemma te_opt_some : forall Q, okR Q -> te_to_affine_opt F Q = Some (te_to_affine F Q).
  Proof.
    intros [[[x y] t] z] [[Hz _] _]. unfold te_to_affine_opt, te_to_affine.
    destruct (te_is_zero F (x, y, t, z)); [reflexivity|].
    destruct (feqb F z (f0 F)) eqn:E; [apply Feq in E; contradiction | reflexivity].
  Qed.

  Lemma nsmul_mul_Z : forall m r P, 0 <= m -> 0 <= r -> on P ->
    Z.to_nat r ** (Z.to_nat m ** P) = Z.to_nat (m * r) ** P.
  Proof.
    intros m r P Hm Hr HP. unfold te_nsmul.
    rewrite <- (nsmul_mul on gadd gid gid_on gadd_in Hassoc gadd_id_l) by exact HP.
    f_equal. rewrite Z2Nat.inj_mul by assumption. lia.
  Qed.

  (* clear_cofactor = mul_by_cofactor: never panics, equals h * P, lands in the r-torsion *)
  Theorem te_clear_cofactor_in_subgroup : forall hl r P, 0 <= limbs_val hl -> 0 <= r ->
    (forall Q, on Q -> Z.to_nat (limbs_val hl * r) ** Q = gid) -> on P ->
    exists C, te_clear_cofactor_default F a d hl P = Some C /\ on C /\
              C = Z.to_nat (limbs_val hl) ** P /\ Z.to_nat r ** C = gid.
  Proof.
    intros hl r P Hh Hr Hord HP.
    unfold te_clear_cofactor_default, te_mul_by_cofactor, te_mul_by_cofactor_to_group.
    destruct (te_mul_affine_correct P (limbs_val hl) HP) as [Ho E].
    exists (te_to_affine F (te_mul_affine F a d P (limbs_val hl))).
    split; [apply te_opt_some; exact Ho|]. split; [exact (proj2 Ho)|]. split; [exact E|].
    rewrite E, nsmul_mul_Z by assumption. apply Hord; exact HP.
  Qed.

  Theorem te_cofactor_inv_composes : forall hl cinv r P, 0 <= limbs_val hl -> 0 <= cinv -> 0 < r ->
    (limbs_val hl * cinv) mod r = 1 -> on P -> Z.to_nat r ** P = gid ->
    exists Q, te_mul_by_cofactor F a d hl P = Some Q /\ te_mul_by_cofactor_inv F a d cinv Q = Some P.
  Proof.
    intros hl cinv r P Hh Hc Hr Hmod HP HrP.
    unfold te_mul_by_cofactor_inv, te_mul_by_cofactor, te_mul_by_cofactor_to_group.
    destruct (te_mul_affine_correct P (limbs_val hl) HP) as [Ho E].
    exists (te_to_affine F (te_mul_affine F a d P (limbs_val hl))).
    split; [apply te_opt_some; exact Ho|].
    destruct (te_mul_affine_correct (te_to_affine F (te_mul_affine F a d P (limbs_val hl))) cinv (proj2 Ho)) as [Ho2 E2].
    rewrite (te_opt_some _ Ho2). f_equal.
    rewrite E2, E. rewrite nsmul_mul_Z by (assumption || lia).
    set (k := (limbs_val hl * cinv) / r).
    assert (Hk : limbs_val hl * cinv = 1 + k * r).
    { pose proof (Z.div_mod (limbs_val hl * cinv) r ltac:(lia)) as D. rewrite Hmod in D. unfold k. lia. }
    assert (Hk0 : 0 <= k) by (unfold k; apply Z.div_pos; nia).
    rewrite Hk. replace (Z.to_nat (1 + k * r)) with (1 + Z.to_nat k * Z.to_nat r)%nat
      by (rewrite Z2Nat.inj_add, Z2Nat.inj_mul by nia; reflexivity).
    unfold te_nsmul.
    apply (nsmul_one_mod on gadd gid gid_on gadd_in Hassoc gadd_id_l gadd_id_r); assumption.
  Qed.
End TESub.
