(* C13 -- the hypotheses of the map theorems are satisfiable: GF(13) (C11/SmallFields.v), the curve
   y^2 = x^3 + x + 1 with Z = 5 (a non-square with g(B/(Z A)) = g(8) = 1 a square), a table-driven
   Legendre test and square root.  Everything is proved by exhaustive case analysis. *)
From Coq Require Import ZArith List Bool Field.
From V Require Import C11.SmallFields C13.Maps C13.MapProofs.
Import ListNotations.

Definition F13_all : list F13 :=
  [F13_0; F13_1; F13_2; F13_3; F13_4; F13_5; F13_6; F13_7; F13_8; F13_9; F13_10; F13_11; F13_12].
Definition F13_sqrt (x : F13) : option F13 := find (fun r => F13_eqb (F13_mul r r) x) F13_all.
Definition F13_is_qr (x : F13) : bool :=
  negb (F13_eqb x F13_0) && match F13_sqrt x with Some _ => true | None => false end.
Definition F13_parity (x : F13) : bool := Z.odd (F13_toZ x).

Lemma F13_sqrt_ok : forall x, F13_is_qr x = true -> exists r, F13_sqrt x = Some r /\ F13_mul r r = x.
Proof. intros x; destruct x; vm_compute; intros H; try discriminate; eexists; split; reflexivity. Qed.
Lemma F13_sqrt_zero : F13_sqrt F13_0 = Some F13_0.
Proof. reflexivity. Qed.
Lemma F13_nonsquare_mul_5 : forall x, x <> F13_0 -> F13_is_qr x = false -> F13_is_qr (F13_mul F13_5 x) = true.
Proof. intros x; destruct x; vm_compute; intros H1 H2; try reflexivity; try discriminate; exfalso; apply H1; reflexivity. Qed.
Lemma F13_parity_neg : forall z, z <> F13_0 -> F13_parity (F13_neg z) = negb (F13_parity z).
Proof. intros z; destruct z; vm_compute; intros H; try reflexivity; exfalso; apply H; reflexivity. Qed.
Lemma F13_neq : forall a b, F13_eqb a b = false -> a <> b.
Proof. intros a b H E. apply F13_eqb_spec in E. congruence. Qed.

Definition F13_swu := swu_coded F13_0 F13_1 F13_add F13_mul F13_neg F13_inv F13_eqb F13_is_qr F13_sqrt F13_parity
                                F13_1 F13_1 F13_5.

Lemma F13_swu_correct : forall u, exists x y,
  F13_swu u = MOk (x, y) /\
  F13_mul y y = F13_add (F13_add (F13_mul (F13_mul x x) x) (F13_mul F13_1 x)) F13_1 /\
  (y <> F13_0 -> F13_parity y = F13_parity u).
Proof.
  intros u.
  destruct (swu_correct F13_0 F13_1 F13_add F13_sub F13_mul F13_neg F13_inv F13_div F13_eqb
              F13_field F13_eqb_spec F13_is_qr F13_sqrt F13_parity F13_1 F13_1 F13_5
              (F13_neq F13_1 F13_0 eq_refl) (F13_neq F13_5 F13_0 eq_refl)
              F13_sqrt_ok F13_sqrt_zero F13_nonsquare_mul_5 eq_refl u) as [x [y [H1 [H2 H3]]]].
  exists x, y. repeat split; [exact H1 | exact H2 | exact (H3 F13_parity_neg)].
Qed.

(* Elligator 2 on GF(13): Montgomery J = 3, K = 1 (so J/K = 3, 1/K^2 = 1, a = 5, d = 1), Z = 2 *)
Lemma F13_nonsquare_mul_2 : forall x, x <> F13_0 -> F13_is_qr x = false -> F13_is_qr (F13_mul F13_2 x) = true.
Proof. intros x; destruct x; vm_compute; intros H1 H2; try reflexivity; try discriminate; exfalso; apply H1; reflexivity. Qed.
Lemma F13_qr_sq_mul : forall c x, c <> F13_0 -> F13_is_qr (F13_mul (F13_mul c c) x) = F13_is_qr x.
Proof. intros c x; destruct c; destruct x; vm_compute; intros H; try reflexivity; exfalso; apply H; reflexivity. Qed.

Definition F13_ell2 := ell2_coded F13_0 F13_1 F13_add F13_sub F13_mul F13_neg F13_inv F13_eqb F13_is_qr F13_sqrt F13_parity
                                  F13_1 F13_3 F13_1 F13_2 F13_5 F13_1.

Lemma F13_ell2_correct : forall u, exists v w,
  F13_ell2 u = MOk (v, w) /\
  F13_add (F13_mul F13_5 (F13_mul v v)) (F13_mul w w) =
  F13_add F13_1 (F13_mul F13_1 (F13_mul (F13_mul v v) (F13_mul w w))).
Proof.
  exact (ell2_correct F13_0 F13_1 F13_add F13_sub F13_mul F13_neg F13_inv F13_div F13_eqb
           F13_field F13_eqb_spec F13_is_qr F13_sqrt F13_parity F13_1 F13_3 F13_3 F13_1 F13_2 F13_5 F13_1
           (F13_neq F13_1 F13_0 eq_refl) eq_refl eq_refl eq_refl eq_refl
           F13_sqrt_ok F13_sqrt_zero F13_nonsquare_mul_2 F13_qr_sq_mul).
Qed.

(* ---------------------------------------------------------------- GF(7): a field with p = 3 (mod 4) *)
(* There -1 = 6 is a non-square, so for Z = 6 the exceptional denominator 1 + Z u^2 of Elligator 2 vanishes at
   u = 1 and u = 6: the branch `den_1 == 0` of the code (RFC 9380 6.7.1 step 2) is LIVE, unlike over GF(13).
   Montgomery J = 3, K = 1 (J/K = 3, 1/K^2 = 1, a = 5, d = 1); x^2 + 3 x + 1 has no root in GF(7), so gx1 <> 0 for
   every u and the coded map equals the RFC map everywhere. *)
Definition F7_all : list F7 := [F7_0; F7_1; F7_2; F7_3; F7_4; F7_5; F7_6].
Definition F7_sqrt (x : F7) : option F7 := find (fun r => F7_eqb (F7_mul r r) x) F7_all.
Definition F7_is_qr (x : F7) : bool :=
  negb (F7_eqb x F7_0) && match F7_sqrt x with Some _ => true | None => false end.
Definition F7_parity (x : F7) : bool := Z.odd (F7_toZ x).

Lemma F7_sqrt_ok : forall x, F7_is_qr x = true -> exists r, F7_sqrt x = Some r /\ F7_mul r r = x.
Proof. intros x; destruct x; vm_compute; intros H; try discriminate; eexists; split; reflexivity. Qed.
Lemma F7_sqrt_zero : F7_sqrt F7_0 = Some F7_0.
Proof. reflexivity. Qed.
Lemma F7_nonsquare_mul_6 : forall x, x <> F7_0 -> F7_is_qr x = false -> F7_is_qr (F7_mul F7_6 x) = true.
Proof. intros x; destruct x; vm_compute; intros H1 H2; try reflexivity; try discriminate; exfalso; apply H1; reflexivity. Qed.
Lemma F7_qr_sq_mul : forall c x, c <> F7_0 -> F7_is_qr (F7_mul (F7_mul c c) x) = F7_is_qr x.
Proof. intros c x; destruct c; destruct x; vm_compute; intros H; try reflexivity; exfalso; apply H; reflexivity. Qed.
Lemma F7_neq : forall a b, F7_eqb a b = false -> a <> b.
Proof. intros a b H E. apply F7_eqb_spec in E. congruence. Qed.

Definition F7_ell2 := ell2_coded F7_0 F7_1 F7_add F7_sub F7_mul F7_neg F7_inv F7_eqb F7_is_qr F7_sqrt F7_parity
                                 F7_1 F7_3 F7_1 F7_6 F7_5 F7_1.
Definition F7_ell2_rfc := ell2_rfc_mont F7_0 F7_1 F7_add F7_sub F7_mul F7_neg F7_inv F7_eqb F7_is_qr F7_sqrt F7_parity
                                        F7_1 F7_3 F7_6.
Definition F7_mont_to_te := mont_to_te F7_0 F7_1 F7_add F7_sub F7_mul F7_inv F7_eqb.

Lemma F7_gx1_nonzero : forall u,
  let x1 := ell2_rfc_x1 F7_0 F7_1 F7_add F7_mul F7_neg F7_inv F7_eqb F7_3 F7_6 u in
  F7_add (F7_add (F7_mul (F7_mul x1 x1) x1) (F7_mul F7_3 (F7_mul x1 x1))) (F7_mul x1 F7_1) <> F7_0.
Proof. intros u; destruct u; vm_compute; discriminate. Qed.

Lemma F7_ell2_is_rfc : forall u, exists Q, F7_ell2_rfc u = Some Q /\ F7_ell2 u = MOk (F7_mont_to_te Q).
Proof.
  intros u.
  exact (ell2_coded_equals_rfc F7_0 F7_1 F7_add F7_sub F7_mul F7_neg F7_inv F7_div F7_eqb
           F7_field F7_eqb_spec F7_is_qr F7_sqrt F7_parity F7_1 F7_3 F7_3 F7_1 F7_6 F7_5 F7_1
           (F7_neq F7_1 F7_0 eq_refl) eq_refl eq_refl eq_refl eq_refl
           F7_sqrt_ok F7_sqrt_zero F7_nonsquare_mul_6 F7_qr_sq_mul u (F7_gx1_nonzero u)).
Qed.
(* the exceptional input u = 1 (1 + Z u^2 = 0): x1 = -(J/K) = 4, g(4) = 4 is a square, Montgomery point (4, 5) (sgn0 = 1),
   twisted Edwards point (5, 2) *)
Lemma F7_ell2_exceptional :
  F7_add F7_1 (F7_mul F7_6 (F7_mul F7_1 F7_1)) = F7_0 /\
  F7_ell2_rfc F7_1 = Some (F7_4, F7_5) /\ F7_ell2 F7_1 = MOk (F7_5, F7_2) /\ F7_ell2 F7_6 = MOk (F7_5, F7_2).
Proof. vm_compute. repeat split; reflexivity. Qed.
