(* C13 -- the hypotheses of the map theorems are satisfiable: GF(13) (C11/SmallFields.v), the curve
   y^2 = x^3 + x + 1 with Z = 5 (a non-square with g(B/(Z A)) = g(8) = 1 a square), a table-driven
   Legendre test and square root.  Everything is proved by exhaustive case analysis. *)
From Coq Require Import ZArith List Bool Field.
From V Require Import C11.SmallFields C13.Maps C13.MapProofs.
Import ListNotations.

Definition F13_all : list F13 :=
  [F13_0; F13_1; F13_2; F13_3; F13_4; F13_5; F13_6; F13_7; F13_8; F13_9; F13_10; F13_11; F13_12].
Definition F13_sqrt (x : F13) : option F13 := find (fun r => F13_eqb (F13_mul r r) x) F13_all.
Definition F13_is_qr (x : F13) : bool :=
  negb (F13_eqb x F13_0) && match F13_sqrt x with Some _ => true | None => false end.
Definition F13_parity (x : F13) : bool := Z.odd (F13_toZ x).

Lemma F13_sqrt_ok : forall x, F13_is_qr x = true -> exists r, F13_sqrt x = Some r /\ F13_mul r r = x.
Proof. intros x; destruct x; vm_compute; intros H; try discriminate; eexists; split; reflexivity. Qed.
Lemma F13_sqrt_zero : F13_sqrt F13_0 = Some F13_0.
Proof. reflexivity. Qed.
Lemma F13_nonsquare_mul_5 : forall x, x <> F13_0 -> F13_is_qr x = false -> F13_is_qr (F13_mul F13_5 x) = true.
Proof. intros x; destruct x; vm_compute; intros H1 H2; try reflexivity; try discriminate; exfalso; apply H1; reflexivity. Qed.
Lemma F13_parity_neg : forall z, z <> F13_0 -> F13_parity (F13_neg z) = negb (F13_parity z).
Proof. intros z; destruct z; vm_compute; intros H; try reflexivity; exfalso; apply H; reflexivity. Qed.
Lemma F13_neq : forall a b, F13_eqb a b = false -> a <> b.
Proof. intros a b H E. apply F13_eqb_spec in E. congruence. Qed.

Definition F13_swu := swu_coded F13_0 F13_1 F13_add F13_mul F13_neg F13_inv F13_eqb F13_is_qr F13_sqrt F13_parity
                                F13_1 F13_1 F13_5.

Lemma F13_swu_correct : forall u, exists x y,
  F13_swu u = MOk (x, y) /\
  F13_mul y y = F13_add (F13_add (F13_mul (F13_mul x x) x) (F13_mul F13_1 x)) F13_1 /\
  (y <> F13_0 -> F13_parity y = F13_parity u).
Proof.
  intros u.
  destruct (swu_correct F13_0 F13_1 F13_add F13_sub F13_mul F13_neg F13_inv F13_div F13_eqb
              F13_field F13_eqb_spec F13_is_qr F13_sqrt F13_parity F13_1 F13_1 F13_5
              (F13_neq F13_1 F13_0 eq_refl) (F13_neq F13_5 F13_0 eq_refl)
              F13_sqrt_ok F13_sqrt_zero F13_nonsquare_mul_5 eq_refl u) as [x [y [H1 [H2 H3]]]].
  exists x, y. repeat split; [exact H1 | exact H2 | exact (H3 F13_parity_neg)].
Qed.

(* Elligator 2 on GF(13): Montgomery J = 3, K = 1 (so J/K = 3, 1/K^2 = 1, a = 5, d = 1), Z = 2 *)
Lemma F13_nonsquare_mul_2 : forall x, x <> F13_0 -> F13_is_qr x = false -> F13_is_qr (F13_mul F13_2 x) = true.
Proof. intros x; destruct x; vm_compute; intros H1 H2; try reflexivity; try discriminate; exfalso; apply H1; reflexivity. Qed.
Lemma F13_qr_sq_mul : forall c x, c <> F13_0 -> F13_is_qr (F13_mul (F13_mul c c) x) = F13_is_qr x.
Proof. intros c x; destruct c; destruct x; vm_compute; intros H; try reflexivity; exfalso; apply H; reflexivity. Qed.

Definition F13_ell2 := ell2_coded F13_0 F13_1 F13_add F13_sub F13_mul F13_neg F13_inv F13_eqb F13_is_qr F13_sqrt F13_parity
                                  F13_1 F13_3 F13_1 F13_2 F13_5 F13_1.

Lemma F13_ell2_correct : forall u, exists v w,
  F13_ell2 u = MOk (v, w) /\
  F13_add (F13_mul F13_5 (F13_mul v v)) (F13_mul w w) =
  F13_add F13_1 (F13_mul F13_1 (F13_mul (F13_mul v v) (F13_mul w w))).
Proof.
  exact (ell2_correct F13_0 F13_1 F13_add F13_sub F13_mul F13_neg F13_inv F13_div F13_eqb
           F13_field F13_eqb_spec F13_is_qr F13_sqrt F13_parity F13_1 F13_3 F13_3 F13_1 F13_2 F13_5 F13_1
           (F13_neq F13_1 F13_0 eq_refl) eq_refl eq_refl eq_refl eq_refl
           F13_sqrt_ok F13_sqrt_zero F13_nonsquare_mul_2 F13_qr_sq_mul).
Qed.
