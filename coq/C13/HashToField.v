(* C13 -- DefaultFieldHasher::hash_to_field of ff/src/fields/field_hashers/mod.rs.
   L = get_len_per_elem = ceil((MODULUS_BIT_SIZE + SEC_PARAM) / 8); the expander is built with
   block_size = L (observation O2 of DESIGN: the RFC wants the hash's input block size, they coincide
   for the shipped 381/377-bit suites with k = 128: L = 64); N * m * L bytes are requested, cut
   into L-byte strings, each reduced big-endian modulo p; coordinate j of element i is taken at
   offset L * (j + i * m).  No proofs in this file. *)
Require Import ZArith List Bool.
From V Require Import C13.Xmd.
Import ListNotations.
Open Scope Z_scope.

Definition os2ip (l : list Z) : Z := fold_left (fun acc b => acc * 256 + b) l 0.

(* MODULUS_BIT_SIZE of a prime field with modulus p *)
Definition modulus_bits (p : Z) : Z := Z.log2 p + 1.
Definition len_per_elem (bits sec : Z) : Z := div_ceil (bits + sec) 8.

Inductive h2f_res : Type := HOk (elems : list (list Z)) | HPanic.

Section H2F.
  Variable expand : Z -> list Z -> list Z -> Z -> xres.   (* block_size msg dst n *)

  Definition substr (l : list Z) (off len : Z) : list Z := firstn (Z.to_nat len) (skipn (Z.to_nat off) l).

  (* p : base prime modulus, m : extension degree, count : N *)
  Definition hash_to_field (p m sec count : Z) (dst msg : list Z) : h2f_res :=
    let L := len_per_elem (modulus_bits p) sec in
    match expand L msg dst (count * m * L) with
    | XPanic => HPanic
    | XOk bytes =>
      HOk (map (fun i => map (fun j => os2ip (substr bytes (L * (Z.of_nat j + Z.of_nat i * m)) L) mod p)
                             (seq 0 (Z.to_nat m)))
               (seq 0 (Z.to_nat count)))
    end.
End H2F.
