(* C13 -- MapToCurveBasedHasher::hash (ec/src/hashing/map_to_curve_hasher.rs):
     u = hash_to_field(msg, 2); Q0 = map(u[0]); Q1 = map(u[1]); R = (Q0 + Q1).into(); P = clear_cofactor(R)
   The point addition is C03's model of `Affine + Affine` followed by the affine conversion.
   clear_cofactor is modelled at specification level as multiplication by the effective cofactor
   h_eff (RFC 9380 section 7; the endomorphism-based implementations in the curve crates are the
   subject of C12), by plain double-and-add on C03's Jacobian / extended formulas.
   No proofs in this file. *)
From V Require Import Base.Field C03.CurveExec C13.Maps.

Section Hasher.
  Context {T : Type} (F : Fops T).

  Fixpoint sw_mul_pos (a : T) (P : sw_jac (T := T)) (n : positive) : sw_jac (T := T) :=
    match n with
    | xH => P
    | xO n' => sw_double F a (sw_mul_pos a P n')
    | xI n' => sw_add F a (sw_double F a (sw_mul_pos a P n')) P
    end.
  Definition sw_mul (a : T) (P : sw_jac (T := T)) (n : Z) : sw_jac (T := T) :=
    match n with
    | Z0 => sw_zero F
    | Zpos n' => sw_mul_pos a P n'
    | Zneg n' => sw_neg F (sw_mul_pos a P n')
    end.

  Fixpoint te_mul_pos (a d : T) (P : te_ext (T := T)) (n : positive) : te_ext (T := T) :=
    match n with
    | xH => P
    | xO n' => te_double F a (te_mul_pos a d P n')
    | xI n' => te_add F a d (te_double F a (te_mul_pos a d P n')) P
    end.
  Definition te_mul (a d : T) (P : te_ext (T := T)) (n : Z) : te_ext (T := T) :=
    match n with
    | Z0 => te_zero F
    | Zpos n' => te_mul_pos a d P n'
    | Zneg n' => te_neg F (te_mul_pos a d P n')
    end.

  (* (Q0 + Q1).into().clear_cofactor() *)
  Definition sw_finish (a : T) (h_eff : Z) (Q0 Q1 : sw_aff (T := T)) : sw_aff (T := T) :=
    let R := sw_to_affine F (sw_aff_add_aff F a Q0 Q1) in
    sw_to_affine F (sw_mul a (sw_of_affine F R) h_eff).
  Definition te_finish (a d : T) (h_eff : Z) (Q0 Q1 : te_aff (T := T)) : te_aff (T := T) :=
    let R := te_to_affine F (te_aff_add_aff F a d Q0 Q1) in
    te_to_affine F (te_mul a d (te_of_affine F R) h_eff).

  (* the hasher, generic in the point type *)
  Definition hash_compose {Pt : Type} (us : option (T * T)) (map : T -> mres Pt) (finish : Pt -> Pt -> Pt) : mres Pt :=
    match us with
    | None => MPanic
    | Some (u0, u1) =>
      match map u0 with
      | MPanic => MPanic
      | MOk Q0 => match map u1 with
                  | MPanic => MPanic
                  | MOk Q1 => MOk (finish Q0 Q1)
                  end
      end
    end.
End Hasher.
