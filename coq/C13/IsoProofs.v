(* C13 -- the isogeny of the Wahby-Boneh map sends E' into E, from the coefficient-wise polynomial
   identity checked by `iso_identity` (a closed computation on the shipped coefficient lists). *)
From Coq Require Import ZArith List Bool Field Ring Lia.
From V Require Import C13.Maps C13.Poly.
Import ListNotations.

Section IsoFacts.
  Context {K : Type}.
  Variables (zero one : K) (add sub mul : K -> K -> K) (neg inv : K -> K) (div : K -> K -> K)
            (eqb : K -> K -> bool).
  Hypothesis FT : field_theory zero one add mul sub neg div inv eq.
  Hypothesis eqb_spec : forall a b, eqb a b = true <-> a = b.
  Add Field KF13i : FT.

  Local Notation "0" := zero. Local Notation "1" := one.
  Local Infix "+" := add. Local Infix "*" := mul. Local Infix "-" := sub.
  Local Notation "- x" := (neg x).
  Local Notation pe := (peval zero add mul).
  Local Notation pa := (padd add).
  Local Notation ps := (pscale mul).
  Local Notation pm := (pmul zero add mul).
  Local Notation is0 := (Maps.is0 zero eqb).

  Lemma pe_add : forall p q x, pe (pa p q) x = pe p x + pe q x.
  Proof.
    induction p as [|a p IH]; intros q x; cbn [padd peval].
    - ring.
    - destruct q as [|b q]; cbn [peval]; [ring|]. rewrite IH. ring.
  Qed.
  Lemma pe_scale : forall c p x, pe (ps c p) x = c * pe p x.
  Proof.
    intros c p x. induction p as [|a p IH]; cbn [pscale map peval]; [ring|].
    unfold pscale in IH. rewrite IH. ring.
  Qed.
  Lemma pe_mul : forall p q x, pe (pm p q) x = pe p x * pe q x.
  Proof.
    induction p as [|a p IH]; intros q x; cbn [pmul peval]; [ring|].
    rewrite pe_add, pe_scale. cbn [peval]. rewrite IH. ring.
  Qed.
  Lemma pzero_pe : forall p x, pzero zero eqb p = true -> pe p x = 0.
  Proof.
    induction p as [|a p IH]; intros x H; cbn [pzero peval] in *; [reflexivity|].
    apply andb_prop in H. destruct H as [Ha Hp]. apply eqb_spec in Ha. rewrite Ha, (IH x Hp). ring.
  Qed.
  Lemma peqb_pe : forall p q x, peqb zero eqb p q = true -> pe p x = pe q x.
  Proof.
    induction p as [|a p IH]; intros q x H.
    - cbn [peqb] in H. cbn [peval]. symmetry. now apply pzero_pe.
    - destruct q as [|b q]; cbn [peqb] in H.
      + rewrite (pzero_pe (a :: p) x H). reflexivity.
      + apply andb_prop in H. destruct H as [Hab Hpq]. apply eqb_spec in Hab. cbn [peval].
        rewrite Hab, (IH q x Hpq). reflexivity.
  Qed.

  Lemma mul_eq0 : forall a b, a * b = 0 -> a = 0 \/ b = 0.
  Proof.
    intros a b H. destruct (eqb a 0) eqn:E; [left; apply eqb_spec; exact E|right].
    assert (Ha : a <> 0) by (intros E'; apply eqb_spec in E'; congruence).
    assert (E2 : b = inv a * (a * b)) by (field; exact Ha).
    rewrite E2, H. ring.
  Qed.
  Lemma mul_cancel : forall c a b, c <> 0 -> c * a = c * b -> a = b.
  Proof.
    intros c a b Hc H. assert (E : c * (a - b) = 0) by (transitivity (c * a - c * b); [ring | rewrite H; ring]).
    destruct (mul_eq0 _ _ E) as [E1|E1]; [contradiction|].
    transitivity ((a - b) + b); [ring | rewrite E1; ring].
  Qed.

  Section Iso.
    Variables a' b' A B : K.
    Variables xn xd yn yd : list K.
    Hypothesis identity : iso_identity zero one add mul eqb a' b' A B xn xd yn yd = true.

    (* the polynomial identity, evaluated *)
    Lemma identity_at : forall x,
      pe yn x * pe yn x * ((x * x * x + a' * x + b') * (pe xd x * (pe xd x * pe xd x))) =
      (pe xn x * (pe xn x * pe xn x) + (A * (pe xn x * (pe xd x * pe xd x)) + B * (pe xd x * (pe xd x * pe xd x))))
      * (pe yd x * pe yd x).
    Proof.
      intros x. unfold iso_identity in identity. apply (peqb_pe _ _ x) in identity.
      unfold iso_lhs, iso_rhs in identity.
      repeat (rewrite ?pe_mul, ?pe_add, ?pe_scale in identity). cbn [peval] in identity.
      rewrite <- identity. ring.
    Qed.

    (* every point of E' outside the kernel is sent to a point of E; kernel points (a vanishing
       denominator) and the identity are sent to the identity *)
    Theorem iso_maps_curve_to_curve : forall x y,
      y * y = x * x * x + a' * x + b' ->
      (pe xd x <> 0 -> pe yd x <> 0 ->
       exists X Y, iso_apply zero add mul inv eqb xn xd yn yd (Some (x, y)) = Some (X, Y) /\
                   iso_apply_as_coded zero add mul inv eqb xn xd yn yd (Some (x, y)) = Some (X, Y) /\
                   Y * Y = X * X * X + A * X + B) /\
      ((pe xd x = 0 \/ pe yd x = 0) -> iso_apply zero add mul inv eqb xn xd yn yd (Some (x, y)) = None).
    Proof.
      intros x y Hy. split.
      - intros Hd HD. unfold iso_apply, iso_apply_as_coded, batch_inv2.
        assert (E1 : is0 (pe xd x) = false).
        { unfold Maps.is0. destruct (eqb (pe xd x) 0) eqn:E; [apply eqb_spec in E; contradiction | reflexivity]. }
        assert (E2 : is0 (pe yd x) = false).
        { unfold Maps.is0. destruct (eqb (pe yd x) 0) eqn:E; [apply eqb_spec in E; contradiction | reflexivity]. }
        rewrite E1, E2. cbn [orb].
        eexists. eexists. split; [reflexivity|]. split; [reflexivity|].
        pose proof (identity_at x) as I.
        set (n := pe xn x) in *. set (d := pe xd x) in *. set (N := pe yn x) in *. set (D := pe yd x) in *.
        apply (mul_cancel (d * (d * d) * (D * D))).
        + intros E. destruct (mul_eq0 _ _ E) as [E'|E'].
          * destruct (mul_eq0 _ _ E') as [E''|E'']; [contradiction|]. destruct (mul_eq0 _ _ E''); contradiction.
          * destruct (mul_eq0 _ _ E'); contradiction.
        + transitivity (N * N * ((y * y) * (d * (d * d)))); [field; split; assumption|].
          rewrite Hy. rewrite I. field. split; assumption.
      - intros H0. unfold iso_apply.
        destruct H0 as [H0|H0]; rewrite H0; unfold Maps.is0.
        + assert (E : eqb 0 0 = true) by now apply eqb_spec. rewrite E. reflexivity.
        + assert (E : eqb 0 0 = true) by now apply eqb_spec. rewrite E. now rewrite orb_true_r.
    Qed.
  End Iso.
End IsoFacts.
