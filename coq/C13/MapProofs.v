(* C13 -- proofs about the map-to-curve models over an abstract field. *)
From Coq Require Import ZArith List Bool Field Ring Lia.
From V Require Import C13.Maps.
Import ListNotations.

Section MapFacts.
  Context {K : Type}.
  Variables (zero one : K) (add sub mul : K -> K -> K) (neg inv : K -> K) (div : K -> K -> K)
            (eqb : K -> K -> bool).
  Hypothesis FT : field_theory zero one add mul sub neg div inv eq.
  Hypothesis eqb_spec : forall a b, eqb a b = true <-> a = b.
  Add Field KF13 : FT.
  Variable is_qr : K -> bool.
  Variable sqrt : K -> option K.
  Variable parity : K -> bool.

  Local Notation "0" := zero. Local Notation "1" := one.
  Local Infix "+" := add. Local Infix "*" := mul. Local Infix "-" := sub.
  Local Notation "- x" := (neg x).
  Local Notation sq := (Maps.sq mul).
  Local Notation is0 := (Maps.is0 zero eqb).
  Local Notation g := (sw_g add mul).

  Lemma eqb_false : forall a b, eqb a b = false <-> a <> b.
  Proof.
    intros a b. split.
    - intros H E. apply eqb_spec in E. congruence.
    - intros H. destruct (eqb a b) eqn:E; [|reflexivity]. apply eqb_spec in E. contradiction.
  Qed.
  Lemma eqb_refl : forall a, eqb a a = true.
  Proof. intros a. now apply eqb_spec. Qed.
  Lemma is0_true : forall a, is0 a = true <-> a = 0.
  Proof. intros a. apply eqb_spec. Qed.
  Lemma is0_false : forall a, is0 a = false <-> a <> 0.
  Proof. intros a. apply eqb_false. Qed.
  Lemma eq_dec : forall a b : K, a = b \/ a <> b.
  Proof.
    intros a b. destruct (eqb a b) eqn:E; [left; apply eqb_spec; exact E | right; apply eqb_false; exact E].
  Qed.
  Lemma mul_eq0 : forall a b, a * b = 0 -> a = 0 \/ b = 0.
  Proof.
    intros a b H. destruct (eq_dec a 0) as [Ha|Ha]; [left; exact Ha|right].
    assert (E : b = inv a * (a * b)) by (field; exact Ha).
    rewrite E, H. ring.
  Qed.
  Lemma mul_neq0 : forall a b, a <> 0 -> b <> 0 -> a * b <> 0.
  Proof. intros a b Ha Hb H. destruct (mul_eq0 _ _ H); contradiction. Qed.
  Lemma neg_neq0 : forall a, a <> 0 -> - a <> 0.
  Proof. intros a Ha H. apply Ha. transitivity (- - a); [ring | rewrite H; ring]. Qed.
  Lemma sq_eq : forall a b, a * a = b * b -> a = b \/ a = - b.
  Proof.
    intros a b H.
    assert (E : (a - b) * (a + b) = 0) by (transitivity (a * a - b * b); [ring | rewrite H; ring]).
    destruct (mul_eq0 _ _ E) as [E1|E1]; [left|right].
    - transitivity ((a - b) + b); [ring | rewrite E1; ring].
    - transitivity ((a + b) - b); [ring | rewrite E1; ring].
  Qed.

  (* ================================================================== simplified SWU *)
  Section Swu.
    Variables a b zeta : K.
    Hypothesis a_nz : a <> 0.
    (* b <> 0 (required by the RFC for the map to be well distributed) is not needed for these statements *)
    Hypothesis zeta_nz : zeta <> 0.
    (* the square-root oracle is sound on what the Legendre test accepts *)
    Hypothesis sqrt_ok : forall x, is_qr x = true -> exists r, sqrt x = Some r /\ r * r = x.
    Hypothesis sqrt_zero : sqrt 0 = Some 0.
    (* ZETA is a non-square of a finite field: non-squares form the non-trivial coset of the squares *)
    Hypothesis nonsquare_mul : forall x, x <> 0 -> is_qr x = false -> is_qr (zeta * x) = true.
    (* RFC 9380 appendix H.2, criterion 4 for Z: g(B / (Z * A)) is square *)
    Hypothesis exceptional_ok : is_qr (g a b (b * inv (zeta * a))) = true.

    Local Notation swu := (swu_coded 0 1 add mul neg inv eqb is_qr sqrt parity a b zeta).

    (* gx1 as computed (numerator / denominator^3) is g at x1 = num_x1 / div *)
    Lemma gx1_is_g : forall n d, d <> 0 ->
      ((sq n + a * sq d) * n + b * (sq d * d)) * inv (sq d * d) = g a b (n * inv d).
    Proof. intros n d Hd. unfold Maps.sq, sw_g, Maps.sq. field. exact Hd. Qed.

    (* g(Z u^2 x1) = (Z u^2)^3 g(x1) for x1 = B (ta + 1) / (- A ta), ta = t^2 + t, t = Z u^2 *)
    Lemma gx2_is_t3_gx1 : forall t, sq t + t <> 0 ->
      g a b ((t * (b * (sq t + t + 1))) * inv (a * - (sq t + t))) =
      t * t * t * g a b ((b * (sq t + t + 1)) * inv (a * - (sq t + t))).
    Proof.
      intros t Ht. unfold sw_g, Maps.sq in Ht |- *. field.
      repeat split; try assumption; try (apply neg_neq0; assumption).
    Qed.

    (* for EVERY u (u = 0 and the roots of Z^2 u^4 + Z u^2 included, gx1 = 0 included): no panic, the
       result is on the curve, and its sign is the sign of u (unless y = 0, which has no sign) *)
    Theorem swu_correct : forall u, exists x y,
      swu u = MOk (x, y) /\ y * y = x * x * x + a * x + b /\
      ((forall z, z <> 0 -> parity (- z) = negb (parity z)) -> y <> 0 -> parity y = parity u).
    Proof.
      intros u. unfold swu_coded.
      set (t := zeta * sq u).
      set (ta := sq t + t).
      set (n1 := b * (ta + 1)).
      set (d := a * (if is0 ta then zeta else - ta)).
      assert (Hd : d <> 0).
      { unfold d. apply mul_neq0; [exact a_nz|].
        destruct (is0 ta) eqn:E; [exact zeta_nz | apply neg_neq0; apply is0_false; exact E]. }
      assert (Hd3 : sq d * d <> 0) by (unfold Maps.sq; apply mul_neq0; [apply mul_neq0|]; exact Hd).
      apply is0_false in Hd3. rewrite Hd3.
      rewrite (gx1_is_g n1 d Hd).
      set (x1 := n1 * inv d).
      (* generic closing step: a root y of g x yields the result with either sign *)
      assert (finish : forall x y, y * y = g a b x ->
                exists x' y', (if sw_on add mul eqb a b (x, if Bool.eqb (parity y) (parity u) then y else - y)
                               then MOk (x, if Bool.eqb (parity y) (parity u) then y else - y) else MPanic) = MOk (x', y')
                              /\ y' * y' = x' * x' * x' + a * x' + b /\
                ((forall z, z <> 0 -> parity (- z) = negb (parity z)) -> y' <> 0 -> parity y' = parity u)).
      { intros x y Hy.
        set (y' := if Bool.eqb (parity y) (parity u) then y else - y).
        assert (Hy' : y' * y' = g a b x).
        { unfold y'. destruct (Bool.eqb _ _); [exact Hy | rewrite <- Hy; ring]. }
        exists x, y'.
        assert (Hon : sw_on add mul eqb a b (x, y') = true).
        { unfold sw_on. cbn [fst snd]. apply eqb_spec. unfold Maps.sq at 1. exact Hy'. }
        rewrite Hon. split; [reflexivity|]. split; [rewrite Hy'; unfold sw_g, Maps.sq; ring|].
        intros Hpn Hnz. unfold y' in *. destruct (Bool.eqb (parity y) (parity u)) eqn:Ep.
        - apply Bool.eqb_prop in Ep. exact Ep.
        - assert (Hy0 : y <> 0) by (intros E0; apply Hnz; rewrite E0; ring).
          rewrite (Hpn y Hy0). destruct (parity y), (parity u); cbn in *; congruence. }
      destruct (is_qr (g a b x1)) eqn:Eqr.
      - destruct (sqrt_ok _ Eqr) as [y1 [Hs Hy1]]. rewrite Hs.
        apply finish. exact Hy1.
      - (* gx1 is not a non-zero square *)
        assert (Hta : ta <> 0).
        { intros E. assert (Ex : x1 = b * inv (zeta * a)).
          { unfold x1, n1, d. apply is0_true in E as E'. rewrite E'. rewrite E. field. split; assumption. }
          rewrite Ex in Eqr. rewrite exceptional_ok in Eqr. discriminate. }
        assert (Hy1 : exists y1, sqrt (zeta * g a b x1) = Some y1 /\ y1 * y1 = zeta * g a b x1).
        { destruct (eq_dec (g a b x1) 0) as [E0|E0].
          - rewrite E0. replace (zeta * 0) with 0 by ring. exists 0. split; [exact sqrt_zero | ring].
          - apply sqrt_ok. apply nonsquare_mul; assumption. }
        destruct Hy1 as [y1 [Hs Hy1]]. rewrite Hs.
        apply finish.
        assert (Ed : d = a * - ta).
        { unfold d. apply is0_false in Hta. now rewrite Hta. }
        assert (E2 : t * n1 * inv d = (t * (b * (sq t + t + 1))) * inv (a * - (sq t + t))).
        { rewrite Ed. reflexivity. }
        rewrite E2. rewrite gx2_is_t3_gx1 by exact Hta.
        assert (E1 : x1 = (b * (sq t + t + 1)) * inv (a * - (sq t + t))).
        { unfold x1. rewrite Ed. reflexivity. }
        rewrite <- E1.
        assert (Et : zeta * (u * u) = t) by reflexivity.
        transitivity (t * t * (u * u) * (y1 * y1)); [ring|]. rewrite Hy1.
        transitivity (t * t * (zeta * (u * u)) * g a b x1); [ring|]. rewrite Et. ring.
    Qed.

    Corollary swu_on_curve : forall u, exists x y,
      swu u = MOk (x, y) /\ y * y = x * x * x + a * x + b.
    Proof. intros u. destruct (swu_correct u) as [x [y [H1 [H2 _]]]]. exists x, y. now split. Qed.
  End Swu.

  (* ================================================================== Elligator 2 *)
  (* Montgomery K t^2 = s^3 + J s^2 + s  |->  twisted Edwards a v^2 + w^2 = 1 + d v^2 w^2 with
     a = (J + 2) / K, d = (J - 2) / K, v = s / t, w = (s - 1) / (s + 1)   (RFC 9380 appendix D.1) *)
  Lemma mont_to_te_on : forall k j s t ta td,
    k <> 0 -> t <> 0 -> s <> 0 -> s + 1 <> 0 ->
    k * (t * t) = s * s * s + j * (s * s) + s ->
    ta * k = j + (1 + 1) -> td * k = j - (1 + 1) ->
    let i := inv ((s + 1) * t) in
    let v := i * (s + 1) * s in
    let w := i * t * (s - 1) in
    ta * (v * v) + w * w = 1 + td * ((v * v) * (w * w)).
  Proof.
    intros k j s t ta td Hk Ht Hs Hs1 Hm Ha Hd.
    assert (Ej : j = (k * (t * t) - s * s * s - s) * inv (s * s)).
    { rewrite Hm. field. exact Hs. }
    assert (Ea : ta = (j + (1 + 1)) * inv k) by (rewrite <- Ha; field; exact Hk).
    assert (Ed : td = (j - (1 + 1)) * inv k) by (rewrite <- Hd; field; exact Hk).
    subst ta td. subst j. cbv zeta. field. repeat split; assumption.
  Qed.

  Section Ell2.
    (* k = Montgomery B, j = Montgomery A, jk = COEFF_A_OVER_COEFF_B, ki = ONE_OVER_COEFF_B_SQUARE,
       (ta, td) = twisted Edwards coefficients *)
    Variables k j jk ki z ta td : K.
    Hypothesis k_nz : k <> 0.
    Hypothesis jk_def : jk * k = j.
    Hypothesis ki_def : ki * (k * k) = 1.
    Hypothesis ta_def : ta * k = j + (1 + 1).
    Hypothesis td_def : td * k = j - (1 + 1).
    Hypothesis sqrt_ok : forall x, is_qr x = true -> exists r, sqrt x = Some r /\ r * r = x.
    Hypothesis sqrt_zero : sqrt 0 = Some 0.
    (* Z is a non-square of a finite field; is_qr is invariant under multiplication by non-zero squares *)
    Hypothesis nonsquare_mul : forall x, x <> 0 -> is_qr x = false -> is_qr (z * x) = true.
    Hypothesis qr_sq_mul : forall c x, c <> 0 -> is_qr (c * c * x) = is_qr x.

    Local Notation ell2 := (ell2_coded 0 1 add sub mul neg inv eqb is_qr sqrt parity k jk ki z ta td).
    Local Notation gm x := (sq x * x + jk * sq x + x * ki).

    Lemma gx2_is_t_gx1 : forall t, 1 + t <> 0 ->
      let x1 := - jk * inv (1 + t) in
      let x2 := - x1 - jk in
      gm x2 = t * gm x1.
    Proof. intros t Ht. cbv zeta. unfold Maps.sq. field. exact Ht. Qed.

    (* for EVERY u (u = 0, 1 + Z u^2 = 0, gx1 = 0, t (s + 1) = 0 included): no panic and the result
       is on the twisted Edwards curve *)
    Theorem ell2_correct : forall u, exists v w,
      ell2 u = MOk (v, w) /\ ta * (v * v) + w * w = 1 + td * ((v * v) * (w * w)).
    Proof.
      intros u. unfold ell2_coded.
      set (den := 1 + z * sq u).
      set (dd := if is0 den then 1 else den).
      set (x1 := - jk * inv dd).
      set (x2 := - x1 - jk).
      assert (finish : forall x y0 (q : bool), y0 * y0 = gm x ->
        exists v w,
         (let y := if negb (Bool.eqb (parity y0) q) then - y0 else y0 in
          let s := x * k in let t := y * k in let tv1 := s + 1 in let tv2 := tv1 * t in
          let vw := if is0 tv2 then (0, 1) else let tv2_inv := inv tv2 in (tv2_inv * tv1 * s, tv2_inv * t * (s - 1)) in
          if te_on 1 add mul eqb ta td vw then MOk vw else MPanic) = MOk (v, w)
         /\ ta * (v * v) + w * w = 1 + td * ((v * v) * (w * w))).
      { intros x y0 q Hy0. cbv zeta.
        set (y := if negb (Bool.eqb (parity y0) q) then - y0 else y0).
        assert (Hy : y * y = gm x).
        { unfold y. destruct (negb _); [rewrite <- Hy0; ring | exact Hy0]. }
        set (s := x * k). set (t := y * k).
        assert (Hm : k * (t * t) = s * s * s + j * (s * s) + s).
        { unfold s, t. transitivity (k * k * k * (y * y)); [ring|]. rewrite Hy. rewrite <- jk_def.
          unfold Maps.sq.
          transitivity (x * k * (x * k) * (x * k) + jk * k * (x * k * (x * k)) + x * k * (ki * (k * k))); [ring|].
          rewrite ki_def. ring. }
        destruct (is0 ((s + 1) * t)) eqn:E0.
        - exists 0, 1.
          assert (Hon : te_on 1 add mul eqb ta td (0, 1) = true).
          { unfold te_on. cbn [fst snd]. apply eqb_spec. unfold Maps.sq. ring. }
          rewrite Hon. split; [reflexivity | ring].
        - apply is0_false in E0.
          assert (Hs1 : s + 1 <> 0) by (intros E; apply E0; rewrite E; ring).
          assert (Ht : t <> 0) by (intros E; apply E0; rewrite E; ring).
          assert (Hs : s <> 0).
          { intros E. apply Ht. rewrite E in Hm.
            assert (Ekt : k * (t * t) = 0) by (rewrite Hm; ring).
            destruct (mul_eq0 _ _ Ekt) as [E1|E1]; [contradiction|].
            destruct (mul_eq0 _ _ E1); assumption. }
          pose proof (mont_to_te_on k j s t ta td k_nz Ht Hs Hs1 Hm ta_def td_def) as Hte. cbv zeta in Hte.
          eexists. eexists.
          assert (Hon : te_on 1 add mul eqb ta td
                          (inv ((s + 1) * t) * (s + 1) * s, inv ((s + 1) * t) * t * (s - 1)) = true).
          { unfold te_on. cbn [fst snd]. apply eqb_spec. unfold Maps.sq. exact Hte. }
          rewrite Hon. split; [reflexivity | exact Hte]. }
      destruct (is_qr (gm x1)) eqn:Eqr.
      - destruct (sqrt_ok _ Eqr) as [y0 [Hs Hy0]]. rewrite Hs. apply (finish x1 y0 true Hy0).
      - assert (Hy : exists y0, sqrt (gm x2) = Some y0 /\ y0 * y0 = gm x2).
        { assert (Hzero : gm x2 = 0 -> exists y0, sqrt (gm x2) = Some y0 /\ y0 * y0 = gm x2).
          { intros E. rewrite E. exists 0. split; [exact sqrt_zero | ring]. }
          destruct (is0 den) eqn:Eden.
          - apply Hzero. assert (Ex2 : x2 = 0).
            { unfold x2, x1, dd. try rewrite Eden. field. exact (F_1_neq_0 FT). }
            rewrite Ex2. unfold Maps.sq. ring.
          - apply is0_false in Eden.
            assert (Eg : gm x2 = (z * sq u) * gm x1).
            { unfold x2, x1, dd. apply is0_false in Eden as Eden'. try rewrite Eden'.
              exact (gx2_is_t_gx1 (z * sq u) Eden). }
            destruct (eq_dec (u * u * gm x1) 0) as [E0|E0].
            + apply Hzero. rewrite Eg. unfold Maps.sq at 1. transitivity (z * (u * u * gm x1)); [ring|].
              rewrite E0. ring.
            + apply sqrt_ok. rewrite Eg. unfold Maps.sq at 1.
              replace (z * (u * u) * gm x1) with (z * (u * u * gm x1)) by ring.
              apply nonsquare_mul; [exact E0|].
              rewrite qr_sq_mul; [exact Eqr|].
              intros Eu. apply E0. rewrite Eu. ring. }
        destruct Hy as [y0 [Hs Hy0]]. rewrite Hs. apply (finish x2 y0 false Hy0).
    Qed.

    (* ---------------------------------------------------------------- the coded map is the RFC map *)
    (* RFC 9380 section 6.7.1 (`ell2_rfc_mont`: steps 1-10, step 2 "if x1 == 0, set x1 = -(J/K)" included) followed by
       the rational map of appendix D.1 (`mont_to_te`).  No premise on the shape of the field: over p = 3 (mod 4) the
       exceptional denominator 1 + Z u^2 has the roots u = +-sqrt(-1/Z) and the statements below cover them. *)
    Local Notation inv0 := (Maps.inv0 0 inv eqb).
    Local Notation rfc_x1 := (ell2_rfc_x1 0 1 add mul neg inv eqb jk z).
    Local Notation rfc_mont := (ell2_rfc_mont 0 1 add sub mul neg inv eqb is_qr sqrt parity k j z).
    Local Notation to_te := (mont_to_te 0 1 add sub mul inv eqb).

    Lemma inv_neq0 : forall a, a <> 0 -> inv a <> 0.
    Proof.
      intros a Ha E. apply (F_1_neq_0 FT). transitivity (a * inv a); [field; exact Ha | rewrite E; ring].
    Qed.

    (* steps 1-2 of the RFC = the coded `-(J/K) / (if den_1 == 0 then 1 else den_1)`   (J = 0 included) *)
    Lemma ell2_x1_is_rfc : forall u,
      - jk * inv (if is0 (1 + z * sq u) then 1 else 1 + z * sq u) = rfc_x1 u.
    Proof.
      intros u. unfold ell2_rfc_x1, Maps.inv0. set (den := 1 + z * sq u).
      destruct (is0 den) eqn:Eden.
      - assert (E0 : - jk * 0 = 0) by ring. rewrite E0.
        assert (Ez : is0 0 = true) by (apply is0_true; reflexivity). rewrite Ez.
        field. exact (F_1_neq_0 FT).
      - apply is0_false in Eden.
        destruct (is0 (- jk * inv den)) eqn:Et; [|reflexivity].
        apply is0_true in Et. rewrite Et.
        destruct (mul_eq0 _ _ Et) as [E|E].
        + symmetry. exact E.
        + exfalso. exact (inv_neq0 den Eden E).
    Qed.

    Lemma ell2_x1_exceptional : forall u, 1 + z * sq u = 0 -> rfc_x1 u = - jk.
    Proof.
      intros u Hu. rewrite <- ell2_x1_is_rfc. apply is0_true in Hu. rewrite Hu. field. exact (F_1_neq_0 FT).
    Qed.

    (* the tail of the coded map (Montgomery -> twisted Edwards with the tv2 == 0 case) is `mont_to_te` *)
    Lemma ell2_tail_is_mont_to_te : forall s t,
      (if is0 ((s + 1) * t) then (0, 1)
       else (inv ((s + 1) * t) * (s + 1) * s, inv ((s + 1) * t) * t * (s - 1))) = to_te (s, t).
    Proof.
      intros s t. unfold mont_to_te, Maps.inv0. destruct (is0 ((s + 1) * t)) eqn:E; [|reflexivity].
      f_equal. ring.
    Qed.

    Definition ell2_sign (q : bool) (y0 : K) : K :=
      if q then (if parity y0 then y0 else - y0) else (if parity y0 then - y0 else y0).
    Lemma ell2_sign_coded : forall q y0,
      (if negb (Bool.eqb (parity y0) q) then - y0 else y0) = ell2_sign q y0.
    Proof. intros q y0. unfold ell2_sign. destruct q, (parity y0); reflexivity. Qed.

    (* for EVERY u whose gx1 is not 0 (see O-a in NOTES.md: at gx1 = 0 the code takes x2 where the RFC takes x1), the
       exceptional inputs u = 0 and 1 + Z u^2 = 0 included: the coded map returns exactly the RFC point *)
    Theorem ell2_coded_equals_rfc : forall u,
      gm (rfc_x1 u) <> 0 ->
      exists Q, rfc_mont u = Some Q /\ ell2 u = MOk (to_te Q).
    Proof.
      intros u Hg.
      destruct (ell2_correct u) as [v [w [Hc _]]].
      assert (Ejk : j * inv k = jk) by (rewrite <- jk_def; field; exact k_nz).
      assert (Eki : inv (sq k) = ki).
      { unfold Maps.sq. transitivity (ki * (k * k) * inv (k * k)); [rewrite ki_def; ring | field; exact k_nz]. }
      unfold ell2_rfc_mont. rewrite Ejk, Eki.
      revert Hc. unfold ell2_coded. rewrite (ell2_x1_is_rfc u).
      set (x1 := rfc_x1 u) in *.
      set (x2 := - x1 - jk).
      assert (Esq : is_square_rfc 0 eqb is_qr (gm x1) = is_qr (gm x1)).
      { unfold is_square_rfc. apply is0_false in Hg. rewrite Hg. reflexivity. }
      cbv zeta. rewrite Esq.
      destruct (if is_qr (gm x1) then sqrt (gm x1) else sqrt (gm x2)) as [y0|]; [|discriminate].
      rewrite ell2_sign_coded. rewrite ell2_tail_is_mont_to_te.
      destruct (te_on 1 add mul eqb ta td _); [|discriminate].
      intros _. eexists. split; [reflexivity|].
      unfold ell2_sign. destruct (is_qr (gm x1)); reflexivity.
    Qed.

    (* the exceptional inputs 1 + Z u^2 = 0 (they exist exactly when -1/Z is a square, e.g. p = 3 (mod 4)):
       J <> 0 (a precondition of Elligator 2) makes gx1 = g(-J/K) = -(J/K)/K^2 non-zero there *)
    Corollary ell2_exceptional_is_rfc : forall u,
      jk <> 0 -> 1 + z * sq u = 0 ->
      exists Q, rfc_mont u = Some Q /\ ell2 u = MOk (to_te Q).
    Proof.
      intros u Hj Hu. apply ell2_coded_equals_rfc. rewrite (ell2_x1_exceptional u Hu).
      assert (E : gm (- jk) = - (jk * ki)) by (unfold Maps.sq; ring). rewrite E.
      apply neg_neq0. apply mul_neq0; [exact Hj|].
      intros Ek. apply (F_1_neq_0 FT). rewrite <- ki_def, Ek. ring.
    Qed.

    (* ... and their value, spelled out: x1 = -(J/K) (RFC step 2); if g(-J/K) is a square the point is
       (s, t) = (-J, K * y) with sgn0(y) = 1, y^2 = g(-J/K) = -(J/K)/K^2; otherwise x2 = 0 and the point is (0, 0) -> identity (0, 1) *)
    Theorem ell2_exceptional_value : forall u,
      1 + z * sq u = 0 ->
      (is_qr (- (jk * ki)) = true ->
         exists y0, sqrt (- (jk * ki)) = Some y0 /\ y0 * y0 = - (jk * ki) /\
           ell2 u = MOk (to_te (- jk * k, (if parity y0 then y0 else - y0) * k))) /\
      (is_qr (- (jk * ki)) = false -> ell2 u = MOk (0, 1)).
    Proof.
      intros u Hu.
      destruct (ell2_correct u) as [v [w [Hc _]]].
      assert (E : gm (- jk) = - (jk * ki)) by (unfold Maps.sq; ring).
      split; intros Hq; revert Hc; unfold ell2_coded;
        rewrite (ell2_x1_is_rfc u), (ell2_x1_exceptional u Hu); cbv zeta; rewrite E, Hq.
      - destruct (sqrt_ok _ Hq) as [y0 [Hs Hy]]. rewrite Hs.
        rewrite ell2_sign_coded, ell2_tail_is_mont_to_te.
        destruct (te_on 1 add mul eqb ta td _); [|discriminate].
        intros _. exists y0. split; [reflexivity|]. split; [exact Hy|]. reflexivity.
      - assert (Ex2 : - - jk - jk = 0) by ring. rewrite Ex2.
        assert (Eg : gm 0 = 0) by (unfold Maps.sq; ring). rewrite Eg, sqrt_zero.
        rewrite ell2_sign_coded, ell2_tail_is_mont_to_te.
        assert (Ey : ell2_sign false 0 = 0) by (unfold ell2_sign; destruct (parity 0); ring).
        rewrite Ey. unfold mont_to_te, Maps.inv0.
        assert (Et : (0 * k + 1) * (0 * k) = 0) by ring. rewrite Et.
        assert (Ez : is0 0 = true) by (apply is0_true; reflexivity). rewrite Ez.
        assert (Ev : 0 * (0 * k + 1) * (0 * k) = 0) by ring. rewrite Ev.
        destruct (te_on 1 add mul eqb ta td (0, 1)); [|discriminate]. reflexivity.
    Qed.
  End Ell2.
End MapFacts.
