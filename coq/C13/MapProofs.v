(* C13 -- proofs about the map-to-curve models over an abstract field. *)
From Coq Require Import ZArith List Bool Field Ring Lia.
From V Require Import C13.Maps.
Import ListNotations.

Section MapFacts.
  Context {K : Type}.
  Variables (zero one : K) (add sub mul : K -> K -> K) (neg inv : K -> K) (div : K -> K -> K)
            (eqb : K -> K -> bool).
  Hypothesis FT : field_theory zero one add mul sub neg div inv eq.
  Hypothesis eqb_spec : forall a b, eqb a b = true <-> a = b.
  Add Field KF13 : FT.
  Variable is_qr : K -> bool.
  Variable sqrt : K -> option K.
  Variable parity : K -> bool.

  Local Notation "0" := zero. Local Notation "1" := one.
  Local Infix "+" := add. Local Infix "*" := mul. Local Infix "-" := sub.
  Local Notation "- x" := (neg x).
  Local Notation sq := (Maps.sq mul).
  Local Notation is0 := (Maps.is0 zero eqb).
  Local Notation g := (sw_g add mul).

  Lemma eqb_false : forall a b, eqb a b = false <-> a <> b.
  Proof.
    intros a b. split.
    - intros H E. apply eqb_spec in E. congruence.
    - intros H. destruct (eqb a b) eqn:E; [|reflexivity]. apply eqb_spec in E. contradiction.
  Qed.
  Lemma eqb_refl : forall a, eqb a a = true.
  Proof. intros a. now apply eqb_spec. Qed.
  Lemma is0_true : forall a, is0 a = true <-> a = 0.
  Proof. intros a. apply eqb_spec. Qed.
  Lemma is0_false : forall a, is0 a = false <-> a <> 0.
  Proof. intros a. apply eqb_false. Qed.
  Lemma eq_dec : forall a b : K, a = b \/ a <> b.
  Proof.
    intros a b. destruct (eqb a b) eqn:E; [left; apply eqb_spec; exact E | right; apply eqb_false; exact E].
  Qed.
  Lemma mul_eq0 : forall a b, a * b = 0 -> a = 0 \/ b = 0.
  Proof.
    intros a b H. destruct (eq_dec a 0) as [Ha|Ha]; [left; exact Ha|right].
    assert (E : b = inv a * (a * b)) by (field; exact Ha).
    rewrite E, H. ring.
  Qed.
  Lemma mul_neq0 : forall a b, a <> 0 -> b <> 0 -> a * b <> 0.
  Proof. intros a b Ha Hb H. destruct (mul_eq0 _ _ H); contradiction. Qed.
  Lemma neg_neq0 : forall a, a <> 0 -> - a <> 0.
  Proof. intros a Ha H. apply Ha. transitivity (- - a); [ring | rewrite H; ring]. Qed.
  Lemma sq_eq : forall a b, a * a = b * b -> a = b \/ a = - b.
  Proof.
    intros a b H.
    assert (E : (a - b) * (a + b) = 0) by (transitivity (a * a - b * b); [ring | rewrite H; ring]).
    destruct (mul_eq0 _ _ E) as [E1|E1]; [left|right].
    - transitivity ((a - b) + b); [ring | rewrite E1; ring].
    - transitivity ((a + b) - b); [ring | rewrite E1; ring].
  Qed.

  (* ================================================================== simplified SWU *)
  Section Swu.
    Variables a b zeta : K.
    Hypothesis a_nz : a <> 0.
    (* b <> 0 (required by the RFC for the map to be well distributed) is not needed for these statements *)
    Hypothesis zeta_nz : zeta <> 0.
    (* the square-root oracle is sound on what the Legendre test accepts *)
    Hypothesis sqrt_ok : forall x, is_qr x = true -> exists r, sqrt x = Some r /\ r * r = x.
    Hypothesis sqrt_zero : sqrt 0 = Some 0.
    (* ZETA is a non-square of a finite field: non-squares form the non-trivial coset of the squares *)
    Hypothesis nonsquare_mul : forall x, x <> 0 -> is_qr x = false -> is_qr (zeta * x) = true.
    (* RFC 9380 appendix H.2, criterion 4 for Z: g(B / (Z * A)) is square *)
    Hypothesis exceptional_ok : is_qr (g a b (b * inv (zeta * a))) = true.

    Local Notation swu := (swu_coded 0 1 add mul neg inv eqb is_qr sqrt parity a b zeta).

    (* gx1 as computed (numerator / denominator^3) is g at x1 = num_x1 / div *)
    Lemma gx1_is_g : forall n d, d <> 0 ->
      ((sq n + a * sq d) * n + b * (sq d * d)) * inv (sq d * d) = g a b (n * inv d).
    Proof. intros n d Hd. unfold Maps.sq, sw_g, Maps.sq. field. exact Hd. Qed.

    (* g(Z u^2 x1) = (Z u^2)^3 g(x1) for x1 = B (ta + 1) / (- A ta), ta = t^2 + t, t = Z u^2 *)
    Lemma gx2_is_t3_gx1 : forall t, sq t + t <> 0 ->
      g a b ((t * (b * (sq t + t + 1))) * inv (a * - (sq t + t))) =
      t * t * t * g a b ((b * (sq t + t + 1)) * inv (a * - (sq t + t))).
    Proof.
      intros t Ht. unfold sw_g, Maps.sq in Ht |- *. field.
      repeat split; try assumption; try (apply neg_neq0; assumption).
    Qed.

    (* for EVERY u (u = 0 and the roots of Z^2 u^4 + Z u^2 included, gx1 = 0 included): no panic, the
       result is on the curve, and its sign is the sign of u (unless y = 0, which has no sign) *)
    Theorem swu_correct : forall u, exists x y,
      swu u = MOk (x, y) /\ y * y = x * x * x + a * x + b /\
      ((forall z, z <> 0 -> parity (- z) = negb (parity z)) -> y <> 0 -> parity y = parity u).
    Proof.
      intros u. unfold swu_coded.
      set (t := zeta * sq u).
      set (ta := sq t + t).
      set (n1 := b * (ta + 1)).
      set (d := a * (if is0 ta then zeta else - ta)).
      assert (Hd : d <> 0).
      { unfold d. apply mul_neq0; [exact a_nz|].
        destruct (is0 ta) eqn:E; [exact zeta_nz | apply neg_neq0; apply is0_false; exact E]. }
      assert (Hd3 : sq d * d <> 0) by (unfold Maps.sq; apply mul_neq0; [apply mul_neq0|]; exact Hd).
      apply is0_false in Hd3. rewrite Hd3.
      rewrite (gx1_is_g n1 d Hd).
      set (x1 := n1 * inv d).
      (* generic closing step: a root y of g x yields the result with either sign *)
      assert (finish : forall x y, y * y = g a b x ->
                exists x' y', (if sw_on add mul eqb a b (x, if Bool.eqb (parity y) (parity u) then y else - y)
                               then MOk (x, if Bool.eqb (parity y) (parity u) then y else - y) else MPanic) = MOk (x', y')
                              /\ y' * y' = x' * x' * x' + a * x' + b /\
                ((forall z, z <> 0 -> parity (- z) = negb (parity z)) -> y' <> 0 -> parity y' = parity u)).
      { intros x y Hy.
        set (y' := if Bool.eqb (parity y) (parity u) then y else - y).
        assert (Hy' : y' * y' = g a b x).
        { unfold y'. destruct (Bool.eqb _ _); [exact Hy | rewrite <- Hy; ring]. }
        exists x, y'.
        assert (Hon : sw_on add mul eqb a b (x, y') = true).
        { unfold sw_on. cbn [fst snd]. apply eqb_spec. unfold Maps.sq at 1. exact Hy'. }
        rewrite Hon. split; [reflexivity|]. split; [rewrite Hy'; unfold sw_g, Maps.sq; ring|].
        intros Hpn Hnz. unfold y' in *. destruct (Bool.eqb (parity y) (parity u)) eqn:Ep.
        - apply Bool.eqb_prop in Ep. exact Ep.
        - assert (Hy0 : y <> 0) by (intros E0; apply Hnz; rewrite E0; ring).
          rewrite (Hpn y Hy0). destruct (parity y), (parity u); cbn in *; congruence. }
      destruct (is_qr (g a b x1)) eqn:Eqr.
      - destruct (sqrt_ok _ Eqr) as [y1 [Hs Hy1]]. rewrite Hs.
        apply finish. exact Hy1.
      - (* gx1 is not a non-zero square *)
        assert (Hta : ta <> 0).
        { intros E. assert (Ex : x1 = b * inv (zeta * a)).
          { unfold x1, n1, d. apply is0_true in E as E'. rewrite E'. rewrite E. field. split; assumption. }
          rewrite Ex in Eqr. rewrite exceptional_ok in Eqr. discriminate. }
        assert (Hy1 : exists y1, sqrt (zeta * g a b x1) = Some y1 /\ y1 * y1 = zeta * g a b x1).
        { destruct (eq_dec (g a b x1) 0) as [E0|E0].
          - rewrite E0. replace (zeta * 0) with 0 by ring. exists 0. split; [exact sqrt_zero | ring].
          - apply sqrt_ok. apply nonsquare_mul; assumption. }
        destruct Hy1 as [y1 [Hs Hy1]]. rewrite Hs.
        apply finish.
        assert (Ed : d = a * - ta).
        { unfold d. apply is0_false in Hta. now rewrite Hta. }
        assert (E2 : t * n1 * inv d = (t * (b * (sq t + t + 1))) * inv (a * - (sq t + t))).
        { rewrite Ed. reflexivity. }
        rewrite E2. rewrite gx2_is_t3_gx1 by exact Hta.
        assert (E1 : x1 = (b * (sq t + t + 1)) * inv (a * - (sq t + t))).
        { unfold x1. rewrite Ed. reflexivity. }
        rewrite <- E1.
        assert (Et : zeta * (u * u) = t) by reflexivity.
        transitivity (t * t * (u * u) * (y1 * y1)); [ring|]. rewrite Hy1.
        transitivity (t * t * (zeta * (u * u)) * g a b x1); [ring|]. rewrite Et. ring.
    Qed.

    Corollary swu_on_curve : forall u, exists x y,
      swu u = MOk (x, y) /\ y * y = x * x * x + a * x + b.
    Proof. intros u. destruct (swu_correct u) as [x [y [H1 [H2 _]]]]. exists x, y. now split. Qed.
  End Swu.
End MapFacts.
