(* C13 -- the map-to-curve functions of ec/src/hashing/curve_maps/{mod,swu,wb,elligator2}.rs and
   MapToCurveBasedHasher::hash, field-generic: every definition takes the field operations as
   explicit arguments (section variables), so the same definitions run on the Base.Field
   dictionaries (Run.v) and are reasoned about over an abstract field (MapProofs.v).
   `is_qr x`  models `x.legendre().is_qr()` (true exactly for LegendreSymbol::QuadraticResidue),
   `sqrt x`   models `x.sqrt()` (Option), `parity` models curve_maps::parity.
   Every `expect`, `unwrap`, `debug_assert!` of the Rust code is a MPanic branch (the harness is
   built with debug assertions on).  No proofs in this file. *)
Require Import ZArith List Bool.
Import ListNotations.
Open Scope Z_scope.

Inductive mres (A : Type) : Type := MOk (a : A) | MPanic.
Arguments MOk {A}. Arguments MPanic {A}.

(* curve_maps::parity : first non-zero base-prime-field coordinate is odd *)
Fixpoint parity_coords (l : list Z) : bool :=
  match l with
  | [] => false
  | c :: r => if c =? 0 then parity_coords r else Z.odd c
  end.

Section Maps.
  Context {K : Type}.
  Variables (zero one : K) (add sub mul : K -> K -> K) (neg inv : K -> K) (eqb : K -> K -> bool).
  Variable is_qr : K -> bool.
  Variable sqrt : K -> option K.
  Variable parity : K -> bool.

  Local Notation "a + b" := (add a b). Local Notation "a - b" := (sub a b).
  Local Notation "a * b" := (mul a b).
  Definition sq (a : K) : K := a * a.
  Definition is0 (a : K) : bool := eqb a zero.
  (* Field `/` : self * other.inverse().unwrap() *)
  Definition fdivp (a b : K) : mres K := if is0 b then MPanic else MOk (a * inv b).

  Definition sw_g (a b x : K) : K := sq x * x + a * x + b.
  Definition sw_on (a b : K) (P : K * K) : bool :=
    eqb (sq (snd P)) (sw_g a b (fst P)).

  (* ------------------------------------------------------------------ SWU, as coded (swu.rs) *)
  Definition swu_coded (a b zeta u : K) : mres (K * K) :=
    let zeta_u2 := zeta * sq u in
    let ta := sq zeta_u2 + zeta_u2 in
    let num_x1 := b * (ta + one) in
    let div := a * (if is0 ta then zeta else neg ta) in
    let num2_x1 := sq num_x1 in
    let div2 := sq div in
    let div3 := div2 * div in
    let num_gx1 := (num2_x1 + a * div2) * num_x1 + b * div3 in
    let num_x2 := zeta_u2 * num_x1 in
    if is0 div3 then MPanic else                        (* debug_assert!(!div3.is_zero()) *)
    let gx1 := num_gx1 * inv div3 in
    let gx1_square := is_qr gx1 in
    match (if gx1_square then sqrt gx1 else sqrt (zeta * gx1)) with
    | None => MPanic                                    (* .expect(..) *)
    | Some y1 =>
      let y2 := zeta_u2 * u * y1 in
      let num_x := if gx1_square then num_x1 else num_x2 in
      let y := if gx1_square then y1 else y2 in
      let x_affine := num_x * inv div in
      let y_affine := if Bool.eqb (parity y) (parity u) then y else neg y in
      if sw_on a b (x_affine, y_affine) then MOk (x_affine, y_affine)
      else MPanic                                       (* debug_assert!(point_on_curve.is_on_curve()) *)
    end.

  (* ------------------------------------------------------------------ SWU, RFC 9380 section 6.6.2 *)
  Definition inv0 (x : K) : K := if is0 x then zero else inv x.
  (* is_square of the RFC: true for 0 as well *)
  Definition is_square_rfc (x : K) : bool := is0 x || is_qr x.
  Definition swu_rfc (a b zeta u : K) : option (K * K) :=
    let tv1 := inv0 (sq zeta * sq (sq u) + zeta * sq u) in
    let x1 := if is0 tv1 then b * inv (zeta * a) else (neg b * inv a) * (one + tv1) in
    let gx1 := sw_g a b x1 in
    let x2 := zeta * sq u * x1 in
    let gx2 := sw_g a b x2 in
    let xy := if is_square_rfc gx1 then (x1, sqrt gx1) else (x2, sqrt gx2) in
    match snd xy with
    | None => None
    | Some y => Some (fst xy, if Bool.eqb (parity u) (parity y) then y else neg y)
    end.

  (* ------------------------------------------------------------------ isogeny (wb.rs) *)
  (* DensePolynomial::evaluate: Horner over the coefficient list, lowest degree first.
     (from_coefficients_slice strips trailing zeros; evaluation is unaffected) *)
  Fixpoint peval (p : list K) (x : K) : K :=
    match p with
    | [] => zero
    | c :: r => c + x * peval r x
    end.
  (* batch_inversion on two elements: serial_batch_inversion_and_mul skips zeros *)
  Definition batch_inv2 (v0 v1 : K) : K * K :=
    if is0 v0 then (if is0 v1 then (v0, v1) else (v0, inv v1))
    else if is0 v1 then (inv v0, v1)
    else let t := inv (v0 * v1) in (t * v1, t * v0).
  (* IsogenyMap::apply.  The identity is mapped to the identity.  On a finite point the code evaluates
     the four polynomials and inverts the two denominators with one batched inversion.
     CORRECT behaviour modelled here (RFC 9380 section 6.6.3 / appendix E: the exceptional points of
     iso_map, i.e. the kernel of the isogeny = the roots of the denominators, map to the identity):
     a vanishing denominator yields the identity.  The code as shipped skips the zero inside
     batch_inversion and returns (0, 0), which is not on the curve -- DEFECT-1 in props/C13/NOTES.md;
     `iso_apply_as_coded` keeps the literal behaviour for the record. *)
  Definition iso_apply_as_coded (xn xd yn yd : list K) (P : option (K * K)) : option (K * K) :=
    match P with
    | None => None
    | Some (x, y) =>
      let '(i0, i1) := batch_inv2 (peval xd x) (peval yd x) in
      Some (peval xn x * i0, (peval yn x * y) * i1)
    end.
  Definition iso_apply (xn xd yn yd : list K) (P : option (K * K)) : option (K * K) :=
    match P with
    | None => None
    | Some (x, y) =>
      if is0 (peval xd x) || is0 (peval yd x) then None
      else iso_apply_as_coded xn xd yn yd P
    end.
  (* WBMap::map_to_curve : SWUMap::map_to_curve(element).unwrap() then the isogeny *)
  Definition wb_coded (a' b' zeta : K) (xn xd yn yd : list K) (u : K) : mres (option (K * K)) :=
    match swu_coded a' b' zeta u with
    | MPanic => MPanic
    | MOk P => MOk (iso_apply xn xd yn yd (Some P))
    end.

  (* ------------------------------------------------------------------ Elligator 2 (elligator2.rs) *)
  Definition te_on (a d : K) (P : K * K) : bool :=
    let x2 := sq (fst P) in let y2 := sq (snd P) in
    eqb (a * x2 + y2) (one + d * (x2 * y2)).
  (* k = MontCurveConfig::COEFF_B, j_on_k = COEFF_A_OVER_COEFF_B, ksq_inv = ONE_OVER_COEFF_B_SQUARE,
     (ta, td) the twisted Edwards coefficients used by the final debug assertion *)
  Definition ell2_coded (k j_on_k ksq_inv z ta td u : K) : mres (K * K) :=
    let den_1 := one + z * sq u in
    let x1 := neg j_on_k * inv (if is0 den_1 then one else den_1) in
    let x1sq := sq x1 in
    let x1cb := x1sq * x1 in
    let gx1 := x1cb + j_on_k * x1sq + x1 * ksq_inv in
    let x2 := neg x1 - j_on_k in
    let x2sq := sq x2 in
    let x2cb := x2sq * x2 in
    let gx2 := x2cb + j_on_k * x2sq + x2 * ksq_inv in
    let qr := is_qr gx1 in
    match (if qr then sqrt gx1 else sqrt gx2) with
    | None => MPanic
    | Some y0 =>
      let x := if qr then x1 else x2 in
      let y := if negb (Bool.eqb (parity y0) qr) then neg y0 else y0 in
      let s := x * k in
      let t := y * k in
      let tv1 := s + one in
      let tv2 := tv1 * t in
      let vw := if is0 tv2 then (zero, one)
                else let tv2_inv := inv tv2 in
                     (tv2_inv * tv1 * s, tv2_inv * t * (s - one)) in
      if te_on ta td vw then MOk vw else MPanic
    end.

  (* RFC 9380 section 6.7.1 (Montgomery point (s, t)), then Appendix D.1 rational map *)
  (* steps 1-2: x1 = -(J/K) * inv0(1 + Z u^2); if x1 == 0, set x1 = -(J/K) *)
  Definition ell2_rfc_x1 (jk z u : K) : K :=
    let t := neg jk * inv0 (one + z * sq u) in if is0 t then neg jk else t.
  Definition ell2_rfc_mont (k j : K) (z u : K) : option (K * K) :=
    let jk := j * inv k in
    let x1 := ell2_rfc_x1 jk z u in
    let gx1 := sq x1 * x1 + jk * sq x1 + x1 * inv (sq k) in
    let x2 := neg x1 - jk in
    let gx2 := sq x2 * x2 + jk * sq x2 + x2 * inv (sq k) in
    let sq1 := is_square_rfc gx1 in
    match (if sq1 then sqrt gx1 else sqrt gx2) with
    | None => None
    | Some y0 =>
      let y := if sq1 then (if parity y0 then y0 else neg y0) else (if parity y0 then neg y0 else y0) in
      Some ((if sq1 then x1 else x2) * k, y * k)
    end.
  Definition mont_to_te (P : K * K) : K * K :=
    let '(s, t) := P in
    let tv1 := s + one in
    let tv2 := tv1 * t in
    let tv2i := inv0 tv2 in
    let v := tv2i * tv1 * s in
    let w := tv2i * t * (s - one) in
    (v, if is0 tv2 then one else w).
End Maps.
