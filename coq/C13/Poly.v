(* C13 -- coefficient-list polynomial arithmetic (lowest degree first) used to check, as a closed
   computation, that a shipped isogeny map sends the curve E' into the curve E:
       yn^2 * (x^3 + a' x + b') * xd^3  =  (xn^3 + A xn xd^2 + B xd^3) * yd^2      in K[x].
   No proofs in this file. *)
Require Import ZArith List Bool.
Import ListNotations.
Open Scope Z_scope.

Section Poly.
  Context {K : Type}.
  Variables (zero one : K) (add mul : K -> K -> K) (eqb : K -> K -> bool).

  Fixpoint padd (p q : list K) : list K :=
    match p, q with
    | [], _ => q
    | _, [] => p
    | a :: p', b :: q' => add a b :: padd p' q'
    end.
  Definition pscale (c : K) (p : list K) : list K := map (mul c) p.
  Fixpoint pmul (p q : list K) : list K :=
    match p with
    | [] => []
    | a :: p' => padd (pscale a q) (zero :: pmul p' q)
    end.
  (* equality up to trailing zeros *)
  Fixpoint pzero (p : list K) : bool :=
    match p with [] => true | a :: r => eqb a zero && pzero r end.
  Fixpoint peqb (p q : list K) : bool :=
    match p, q with
    | [], _ => pzero q
    | _, [] => pzero p
    | a :: p', b :: q' => eqb a b && peqb p' q'
    end.

  Definition iso_lhs (a' b' : K) (xd yn : list K) : list K :=
    let xd3 := pmul xd (pmul xd xd) in
    pmul (pmul yn yn) (pmul [b'; a'; zero; one] xd3).
  Definition iso_rhs (A B : K) (xn xd yd : list K) : list K :=
    let xd2 := pmul xd xd in
    let xd3 := pmul xd xd2 in
    let xn3 := pmul xn (pmul xn xn) in
    pmul (padd xn3 (padd (pscale A (pmul xn xd2)) (pscale B xd3))) (pmul yd yd).
  Definition iso_identity (a' b' A B : K) (xn xd yn yd : list K) : bool :=
    peqb (iso_lhs a' b' xd yn) (iso_rhs A B xn xd yd).
End Poly.
