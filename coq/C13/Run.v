(* Uniform case interpreter for the C13 model.
   Status: [0] ok, [1;k] error, [2] panic, [9] unsupported.
     op 1 h2f       a0 = [cfg; N; SEC_PARAM]  a1 = msg  a2 = dst  a3 = [deg; p; nr]
     op 2 parity    a0 = [cfg]  a1 = element  a3 = [deg; p; nr]
   curve ops: a0 = [cfg; kind]  (kind 1 = SWU only, 2 = SWU + isogeny (WB), 3 = Elligator 2)
              a1 = u (coordinates) or msg, a2 = dst, a3 = [deg; p; nr], a4 = prime-field SQRT_PRECOMP
              a5 = map constants: [a'; b'; ZETA] (SW)  |  [J; K; J/K; 1/K^2; Z; a; d] (Elligator 2)
              a6 = [A; B] of the target curve (kinds 1, 2), a7 = [h_eff; r]
              a8..a11 = x_num, x_den, y_num, y_den of the isogeny (kind 2)
     op 3 swu  op 4 wb  op 5 ell2  op 6 hash  op 7 config_ok
     op 8 xmd  (model only, for the RFC expander vectors: a0 = [len; s_len], a1 = msg, a2 = dst;
                answers [bytes of xmd_coded; bytes of xmd_rfc]) -- the harness cannot reach the
                private expander, prop.py compares this op with the RFC vectors shipped in /repo. *)
From V Require Import Base.Field C03.CurveExec C11.SqrtModel C11.Run
                      C13.Sha256 C13.Xmd C13.HashToField C13.Maps C13.Poly C13.Hasher.

Definition expander : Z -> list Z -> list Z -> Z -> xres := xmd_coded sha256 32.
Definition h2f (p m sec count : Z) (dst msg : list Z) : h2f_res :=
  hash_to_field expander p m sec count dst msg.

Section OverField.
  Context {T : Type} (SFd : SF T).
  Let F := sf_ops SFd.
  Definition s_isqr (x : T) : bool := match sf_leg SFd x with Some 1 => true | _ => false end.
  Definition s_sqrt (x : T) : option T := match sf_sqrt SFd x with SqSome y => Some y | _ => None end.
  Definition s_parity (x : T) : bool := parity_coords (fcoords F x).

  Definition m_swu (a b z u : T) : mres (T * T) :=
    swu_coded (f0 F) (f1 F) (fadd F) (fmul F) (fneg F) (finv F) (feqb F) s_isqr s_sqrt s_parity a b z u.
  Definition m_wb (a b z : T) (xn xd yn yd : list T) (u : T) : mres (option (T * T)) :=
    wb_coded (f0 F) (f1 F) (fadd F) (fmul F) (fneg F) (finv F) (feqb F) s_isqr s_sqrt s_parity
             a b z xn xd yn yd u.
  Definition m_ell2 (k jk ki z ta td u : T) : mres (T * T) :=
    ell2_coded (f0 F) (f1 F) (fadd F) (fsub F) (fmul F) (fneg F) (finv F) (feqb F) s_isqr s_sqrt s_parity
               k jk ki z ta td u.

  (* flat coordinate list -> list of field elements *)
  Fixpoint elems (n : nat) (l : list Z) : list T :=
    match n with
    | O => []
    | S n' => fof F l :: elems n' (skipn (fdeg F) l)
    end.
  Definition elist (l : list Z) : list T := elems (length l / fdeg F) l.
  Definition e (l : list Z) (i : nat) : T := el F l i.

  (* result point followed by the predicate flags the harness prints:
     [is_on_curve] for a single map, [is_on_curve; is_in_correct_subgroup] for the full hash
     (r = 0 : no subgroup flag).  Subgroup membership is [r]P = O at specification level. *)
  Definition sw_flags (a b : T) (r : Z) (A : option (T * T)) : list Z :=
    Z.b2z (sw_aff_on_curve F a b A) ::
    (if r =? 0 then [] else [Z.b2z (sw_is_zero F (sw_mul F a (sw_of_affine F A) r))]).
  Definition te_flags (a d : T) (r : Z) (A : T * T) : list Z :=
    Z.b2z (te_aff_on_curve F a d A) ::
    (if r =? 0 then [] else [Z.b2z (te_is_zero F (te_mul F a d (te_of_affine F A) r))]).
  Definition out_sw (a b : T) (r : Z) (res : mres (option (T * T))) : list (list Z) :=
    match res with
    | MPanic => panic
    | MOk None => ok [fcoords F (f0 F); fcoords F (f0 F); [1]; sw_flags a b r None]
    | MOk (Some (x, y)) => ok [fcoords F x; fcoords F y; [0]; sw_flags a b r (Some (x, y))]
    end.
  Definition out_te (a d : T) (r : Z) (res : mres (T * T)) : list (list Z) :=
    match res with
    | MPanic => panic
    | MOk (x, y) => ok [fcoords F x; fcoords F y; te_flags a d r (x, y)]
    end.
  Definition lift (r : mres (T * T)) : mres (option (T * T)) :=
    match r with MPanic => MPanic | MOk P => MOk (Some P) end.

  Definition two_elems (p : Z) (dst msg : list Z) : option (T * T) :=
    match h2f p (Z.of_nat (fdeg F)) 128 2 dst msg with
    | HOk [c0; c1] => Some (fof F c0, fof F c1)
    | _ => None
    end.

  (* premises of the map theorems, evaluated on the constants of a configuration *)
  Definition swu_params_ok (a b z : T) : bool :=
    negb (feqb F a (f0 F)) && negb (feqb F b (f0 F)) && negb (feqb F z (f0 F)) && negb (s_isqr z) &&
    s_isqr (sw_g (fadd F) (fmul F) a b (fmul F b (finv F (fmul F z a)))).
  Definition ell2_params_ok (j k jk ki z ta td : T) : bool :=
    let two := fadd F (f1 F) (f1 F) in
    negb (feqb F k (f0 F)) && negb (feqb F z (f0 F)) && negb (s_isqr z) &&
    feqb F (fmul F jk k) j && feqb F (fmul F ki (fmul F k k)) (f1 F) &&
    feqb F (fmul F ta k) (fadd F j two) && feqb F (fmul F td k) (fsub F j two).

  Definition run_curve (p : Z) (op kind : Z) (a : list (list Z)) : list (list Z) :=
    let c := arg 5 a in
    let tgt := arg 6 a in
    let h_eff := argn 7 0 a in
    let r := argn 7 1 a in
    let u := fof F (arg 1 a) in
    let xn := elist (arg 8 a) in let xd := elist (arg 9 a) in
    let yn := elist (arg 10 a) in let yd := elist (arg 11 a) in
    let msg := arg 1 a in let dst := arg 2 a in
    match op, kind with
    | 3, (1 | 2) => out_sw (e c 0) (e c 1) 0 (lift (m_swu (e c 0) (e c 1) (e c 2) u))
    | 4, 2 => out_sw (e tgt 0) (e tgt 1) 0 (m_wb (e c 0) (e c 1) (e c 2) xn xd yn yd u)
    | 5, 3 => out_te (e c 5) (e c 6) 0 (m_ell2 (e c 1) (e c 2) (e c 3) (e c 4) (e c 5) (e c 6) u)
    | 6, 1 => out_sw (e tgt 0) (e tgt 1) r (hash_compose (two_elems p dst msg)
                        (fun u => lift (m_swu (e c 0) (e c 1) (e c 2) u))
                        (sw_finish F (e tgt 0) h_eff))
    | 6, 2 => out_sw (e tgt 0) (e tgt 1) r (hash_compose (two_elems p dst msg)
                        (m_wb (e c 0) (e c 1) (e c 2) xn xd yn yd)
                        (sw_finish F (e tgt 0) h_eff))
    | 6, 3 => out_te (e c 5) (e c 6) r (hash_compose (two_elems p dst msg)
                        (m_ell2 (e c 1) (e c 2) (e c 3) (e c 4) (e c 5) (e c 6))
                        (te_finish F (e c 5) (e c 6) h_eff))
    | 7, 1 => ok [[Z.b2z (swu_params_ok (e c 0) (e c 1) (e c 2))]]
    | 7, 2 => ok [[Z.b2z (swu_params_ok (e c 0) (e c 1) (e c 2) &&
                          iso_identity (f0 F) (f1 F) (fadd F) (fmul F) (feqb F)
                                       (e c 0) (e c 1) (e tgt 0) (e tgt 1) xn xd yn yd)]]
    | 7, 3 => ok [[Z.b2z (ell2_params_ok (e c 0) (e c 1) (e c 2) (e c 3) (e c 4) (e c 5) (e c 6))]]
    | _, _ => unsupported
    end.
End OverField.

Definition out_h2f (r : h2f_res) : list (list Z) :=
  match r with HPanic => panic | HOk l => ok l end.
Definition xbytes (r : xres) : list Z := match r with XOk b => b | XPanic => [-1] end.

Definition run_C13 (op : Z) (a : list (list Z)) : list (list Z) :=
  let deg := argn 3 0 a in
  let p := argn 3 1 a in
  let nr := (argn 3 2 a) mod p in
  let pc := fp_precomp p (arg 4 a) in
  match op with
  | 8 => ok [xbytes (xmd_coded sha256 32 (argn 0 1 a) (arg 1 a) (arg 2 a) (argn 0 0 a));
             xbytes (xmd_rfc sha256 32 (argn 0 1 a) (arg 1 a) (arg 2 a) (argn 0 0 a))]
  | _ =>
  if p <=? 2 then unsupported else
  match op with
  | 1 => if (deg =? 1) || (deg =? 2) then out_h2f (h2f p deg (argn 0 2 a) (argn 0 1 a) (arg 2 a) (arg 1 a))
         else unsupported
  | 2 => match deg with
         | 1 => ok [[Z.b2z (parity_coords (fcoords (ZpOps p) (fof (ZpOps p) (arg 1 a))))]]
         | 2 => let Q := QuadOps (ZpOps p) nr in ok [[Z.b2z (parity_coords (fcoords Q (fof Q (arg 1 a))))]]
         | _ => unsupported
         end
  | _ => match deg with
         | 1 => run_curve (SF1 p pc) p op (argn 0 1 a) a
         | 2 => run_curve (SF2 p nr pc) p op (argn 0 1 a) a
         | _ => unsupported
         end
  end
  end.
