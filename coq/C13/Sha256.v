(* C13 -- executable SHA-256 (FIPS 180-4) on byte lists.
   Bytes are Z in [0,256); 32-bit words are Z with every wrap-around written `mod 2^32`.
   This is the *specification* hash used by both the RFC 9380 expander and the model of
   the coded expander (the Rust code calls the sha2 crate, which is outside /repo).
   No proofs in this file. *)
Require Import ZArith List.
Import ListNotations.
Open Scope Z_scope.

Definition w32 (x : Z) : Z := x mod 4294967296.
Definition rotr (n x : Z) : Z := Z.lor (Z.shiftr x n) (w32 (Z.shiftl x (32 - n))).
Definition shr32 (n x : Z) : Z := Z.shiftr x n.
Definition not32 (x : Z) : Z := 4294967295 - x.

Definition Ch (x y z : Z) : Z := Z.lxor (Z.land x y) (Z.land (not32 x) z).
Definition Maj (x y z : Z) : Z := Z.lxor (Z.lxor (Z.land x y) (Z.land x z)) (Z.land y z).
Definition bsig0 (x : Z) : Z := Z.lxor (Z.lxor (rotr 2 x) (rotr 13 x)) (rotr 22 x).
Definition bsig1 (x : Z) : Z := Z.lxor (Z.lxor (rotr 6 x) (rotr 11 x)) (rotr 25 x).
Definition ssig0 (x : Z) : Z := Z.lxor (Z.lxor (rotr 7 x) (rotr 18 x)) (shr32 3 x).
Definition ssig1 (x : Z) : Z := Z.lxor (Z.lxor (rotr 17 x) (rotr 19 x)) (shr32 10 x).

Definition K256 : list Z :=
 [0x428a2f98; 0x71374491; 0xb5c0fbcf; 0xe9b5dba5; 0x3956c25b; 0x59f111f1; 0x923f82a4; 0xab1c5ed5;
  0xd807aa98; 0x12835b01; 0x243185be; 0x550c7dc3; 0x72be5d74; 0x80deb1fe; 0x9bdc06a7; 0xc19bf174;
  0xe49b69c1; 0xefbe4786; 0x0fc19dc6; 0x240ca1cc; 0x2de92c6f; 0x4a7484aa; 0x5cb0a9dc; 0x76f988da;
  0x983e5152; 0xa831c66d; 0xb00327c8; 0xbf597fc7; 0xc6e00bf3; 0xd5a79147; 0x06ca6351; 0x14292967;
  0x27b70a85; 0x2e1b2138; 0x4d2c6dfc; 0x53380d13; 0x650a7354; 0x766a0abb; 0x81c2c92e; 0x92722c85;
  0xa2bfe8a1; 0xa81a664b; 0xc24b8b70; 0xc76c51a3; 0xd192e819; 0xd6990624; 0xf40e3585; 0x106aa070;
  0x19a4c116; 0x1e376c08; 0x2748774c; 0x34b0bcb5; 0x391c0cb3; 0x4ed8aa4a; 0x5b9cca4f; 0x682e6ff3;
  0x748f82ee; 0x78a5636f; 0x84c87814; 0x8cc70208; 0x90befffa; 0xa4506ceb; 0xbef9a3f7; 0xc67178f2].

Definition state := (Z * Z * Z * Z * Z * Z * Z * Z)%type.
Definition H0_256 : state :=
  (0x6a09e667, 0xbb67ae85, 0x3c6ef372, 0xa54ff53a, 0x510e527f, 0x9b05688c, 0x1f83d9ab, 0x5be0cd19).

(* big-endian 32-bit word from 4 bytes / to 4 bytes *)
Definition word_of_bytes (b0 b1 b2 b3 : Z) : Z := ((b0 * 256 + b1) * 256 + b2) * 256 + b3.
Definition bytes_of_word (w : Z) : list Z :=
  [(w / 16777216) mod 256; (w / 65536) mod 256; (w / 256) mod 256; w mod 256].

Fixpoint words_of_bytes (l : list Z) : list Z :=
  match l with
  | b0 :: b1 :: b2 :: b3 :: r => word_of_bytes b0 b1 b2 b3 :: words_of_bytes r
  | _ => []
  end.

(* message schedule: window = the last 16 words W[t-16..t-1]; emits W[t], t = 16.. *)
Fixpoint schedule (k : nat) (win : list Z) : list Z :=
  match k with
  | O => []
  | S k' =>
    let w := w32 (ssig1 (nth 14 win 0) + nth 9 win 0 + ssig0 (nth 1 win 0) + nth 0 win 0) in
    w :: schedule k' (tl win ++ [w])
  end.

Definition round (s : state) (kw : Z * Z) : state :=
  let '(a, b, c, d, e, f, g, h) := s in
  let t1 := w32 (h + bsig1 e + Ch e f g + fst kw + snd kw) in
  let t2 := w32 (bsig0 a + Maj a b c) in
  (w32 (t1 + t2), a, b, c, w32 (d + t1), e, f, g).

Definition add_state (s t : state) : state :=
  let '(a, b, c, d, e, f, g, h) := s in
  let '(a', b', c', d', e', f', g', h') := t in
  (w32 (a + a'), w32 (b + b'), w32 (c + c'), w32 (d + d'),
   w32 (e + e'), w32 (f + f'), w32 (g + g'), w32 (h + h')).

(* one 64-byte block *)
Definition compress (s : state) (block : list Z) : state :=
  let w16 := words_of_bytes block in
  let w := w16 ++ schedule 48 w16 in
  add_state s (fold_left round (combine K256 w) s).

(* the message is consumed 64 bytes at a time; `fuel` = number of blocks *)
Fixpoint blocks (fuel : nat) (s : state) (l : list Z) : state :=
  match fuel with
  | O => s
  | S f => blocks f (compress s (firstn 64 l)) (skipn 64 l)
  end.

(* padding: 0x80, zeros up to 56 mod 64, 64-bit big-endian bit length *)
Definition be_bytes (n : nat) (v : Z) : list Z :=
  map (fun i => (v / 256 ^ Z.of_nat (n - 1 - i)) mod 256) (seq 0 n).
Definition pad (msg : list Z) : list Z :=
  let len := Z.of_nat (length msg) in
  let k := (55 - len) mod 64 in
  msg ++ [128] ++ repeat 0 (Z.to_nat k) ++ be_bytes 8 (8 * len).

Definition state_bytes (s : state) : list Z :=
  let '(a, b, c, d, e, f, g, h) := s in
  bytes_of_word a ++ bytes_of_word b ++ bytes_of_word c ++ bytes_of_word d ++
  bytes_of_word e ++ bytes_of_word f ++ bytes_of_word g ++ bytes_of_word h.

Definition sha256 (msg : list Z) : list Z :=
  let m := pad msg in
  state_bytes (blocks (length m / 64) H0_256 m).

(* hex rendering of a digest, for the test vectors *)
Definition bytes_to_Z (l : list Z) : Z := fold_left (fun acc b => acc * 256 + b) l 0.
