(* C13, extension 3 -- the coded simplified SWU map (swu.rs, inversion-free) EQUALS the map of RFC 9380 section 6.6.2
   (`swu_rfc` of Maps.v: steps 1-10 as written, inv0, is_square(0) = true, sign fix sgn0(u) = sgn0(y)), the same affine
   point, sign included, for every u with g(x1) <> 0 -- u = 0 and the roots of Z^2 u^4 + Z u^2 included.
   Both sides consult the same square-root oracle; in the non-square branch they consult it on DIFFERENT arguments
   (code: sqrt(Z gx1), then y2 = Z u^3 y1; RFC: sqrt(gx2)), so the two candidate roots may be opposite: the field is an
   integral domain (y^2 = s^2 -> y = s \/ y = -s) and the sign fix sends both to the same value.
   At g(x1) = 0 (observation O-a of NOTES.md) the two maps differ; `swu_gx1_zero_value` spells both values out. *)
From Coq Require Import ZArith List Bool Field Ring Lia.
From V Require Import C11.SmallFields C13.Maps C13.MapProofs C13.Examples.
Import ListNotations.

Section SwuX1.
  Context {K : Type}.
  Variables (zero one : K) (add mul : K -> K -> K) (neg inv : K -> K) (eqb : K -> K -> bool).
  (* RFC 9380 6.6.2 steps 1-3: tv1 = inv0(Z^2 u^4 + Z u^2); x1 = (-B / A) (1 + tv1); if tv1 == 0, x1 = B / (Z A).
     This is, verbatim, the sub-term `x1` of Maps.swu_rfc (lemma `swu_rfc_unfold` below is proved by reflexivity). *)
  Definition swu_rfc_x1 (a b zeta u : K) : K :=
    let tv1 := inv0 zero inv eqb (add (mul (Maps.sq mul zeta) (Maps.sq mul (Maps.sq mul u))) (mul zeta (Maps.sq mul u))) in
    if is0 zero eqb tv1 then mul b (inv (mul zeta a)) else mul (mul (neg b) (inv a)) (add one tv1).
End SwuX1.

Section SwuRfc.
  Context {K : Type}.
  Variables (zero one : K) (add sub mul : K -> K -> K) (neg inv : K -> K) (div : K -> K -> K)
            (eqb : K -> K -> bool).
  Hypothesis FT : field_theory zero one add mul sub neg div inv eq.
  Hypothesis eqb_spec : forall a b, eqb a b = true <-> a = b.
  Add Field KF13swu : FT.
  Variable is_qr : K -> bool.
  Variable sqrt : K -> option K.
  Variable parity : K -> bool.

  Local Notation "0" := zero. Local Notation "1" := one.
  Local Infix "+" := add. Local Infix "*" := mul. Local Infix "-" := sub.
  Local Notation "- x" := (neg x).
  Local Notation sq := (Maps.sq mul).
  Local Notation is0 := (Maps.is0 zero eqb).
  Local Notation g := (sw_g add mul).

  Variables a b zeta : K.
  Hypothesis a_nz : a <> 0.
  Hypothesis zeta_nz : zeta <> 0.
  (* exactly the section hypotheses of MapProofs.swu_correct ... *)
  Hypothesis sqrt_ok : forall x, is_qr x = true -> exists r, sqrt x = Some r /\ r * r = x.
  Hypothesis sqrt_zero : sqrt 0 = Some 0.
  Hypothesis nonsquare_mul : forall x, x <> 0 -> is_qr x = false -> is_qr (zeta * x) = true.
  Hypothesis exceptional_ok : is_qr (g a b (b * inv (zeta * a))) = true.
  Hypothesis parity_neg : forall z, z <> 0 -> parity (- z) = negb (parity z).
  (* ... plus one: the oracle finds a root of every non-zero square (`Field::sqrt` is complete; with sqrt_ok this follows
     from "the Legendre test accepts every non-zero square").  The RFC takes sqrt(gx2) where the code takes sqrt(Z gx1):
     without this premise nothing says that the oracle answers on gx2. *)
  Hypothesis sqrt_complete : forall x r, r <> 0 -> r * r = x -> exists s, sqrt x = Some s /\ s * s = x.

  (* (sqrt_complete is implied by sqrt_ok as soon as the Legendre test accepts every non-zero square) *)
  Lemma sqrt_complete_of_legendre_complete :
    (forall r, r <> 0 -> is_qr (r * r) = true) ->
    forall x r, r <> 0 -> r * r = x -> exists s, sqrt x = Some s /\ s * s = x.
  Proof. intros Hq x r Hr E. apply sqrt_ok. rewrite <- E. apply Hq. exact Hr. Qed.

  Local Notation swu := (swu_coded 0 1 add mul neg inv eqb is_qr sqrt parity a b zeta).
  Local Notation rfc := (swu_rfc 0 1 add mul neg inv eqb is_qr sqrt parity a b zeta).
  Local Notation rfc_x1 := (swu_rfc_x1 0 1 add mul neg inv eqb a b zeta).

  (* ---------------------------------------------------------------- small field facts (integral domain) *)
  Lemma x_eqb_false : forall p q, eqb p q = false <-> p <> q.
  Proof.
    intros p q. split.
    - intros H E. apply eqb_spec in E. congruence.
    - intros H. destruct (eqb p q) eqn:E; [|reflexivity]. apply eqb_spec in E. contradiction.
  Qed.
  Lemma x_is0_true : forall p, is0 p = true <-> p = 0.
  Proof. intros p. apply eqb_spec. Qed.
  Lemma x_is0_false : forall p, is0 p = false <-> p <> 0.
  Proof. intros p. apply x_eqb_false. Qed.
  Lemma x_eq_dec : forall p q : K, p = q \/ p <> q.
  Proof.
    intros p q. destruct (eqb p q) eqn:E; [left; apply eqb_spec; exact E | right; apply x_eqb_false; exact E].
  Qed.
  Lemma x_mul_eq0 : forall p q, p * q = 0 -> p = 0 \/ q = 0.
  Proof.
    intros p q H. destruct (x_eq_dec p 0) as [Hp|Hp]; [left; exact Hp|right].
    assert (E : q = inv p * (p * q)) by (timeout 20 field; exact Hp).
    rewrite E, H. timeout 20 ring.
  Qed.
  Lemma x_mul_neq0 : forall p q, p <> 0 -> q <> 0 -> p * q <> 0.
  Proof. intros p q Hp Hq H. destruct (x_mul_eq0 _ _ H); contradiction. Qed.
  Lemma x_neg_neq0 : forall p, p <> 0 -> - p <> 0.
  Proof. intros p Hp H. apply Hp. transitivity (- - p); [timeout 20 ring | rewrite H; timeout 20 ring]. Qed.
  Lemma x_inv_neq0 : forall p, p <> 0 -> inv p <> 0.
  Proof.
    intros p Hp E. apply (F_1_neq_0 FT). transitivity (p * inv p); [timeout 20 field; exact Hp | rewrite E; timeout 20 ring].
  Qed.
  (* y^2 = s^2 has exactly the two solutions y = +-s *)
  Lemma x_sq_eq : forall p q, p * p = q * q -> p = q \/ p = - q.
  Proof.
    intros p q H.
    assert (E : (p - q) * (p + q) = 0) by (transitivity (p * p - q * q); [timeout 20 ring | rewrite H; timeout 20 ring]).
    destruct (x_mul_eq0 _ _ E) as [E1|E1]; [left|right].
    - transitivity ((p - q) + q); [timeout 20 ring | rewrite E1; timeout 20 ring].
    - transitivity ((p + q) - q); [timeout 20 ring | rewrite E1; timeout 20 ring].
  Qed.

  (* ---------------------------------------------------------------- the sign fix forgets which root was chosen *)
  (* RFC step 9 / swu.rs: keep y if sgn0(y) = sgn0(u), else negate *)
  Definition swu_sign (u y : K) : K := if Bool.eqb (parity y) (parity u) then y else - y.
  Lemma swu_sign_rfc : forall u y, (if Bool.eqb (parity u) (parity y) then y else - y) = swu_sign u y.
  Proof. intros u y. unfold swu_sign. destruct (parity u), (parity y); reflexivity. Qed.
  Lemma swu_sign_root_indep : forall u y s, y <> 0 -> y * y = s * s -> swu_sign u y = swu_sign u s.
  Proof.
    intros u y s Hy H. destruct (x_sq_eq _ _ H) as [E|E]; [rewrite E; reflexivity|].
    assert (Hs : s <> 0) by (intros E0; apply Hy; rewrite E, E0; timeout 20 ring).
    rewrite E. unfold swu_sign. rewrite (parity_neg s Hs).
    destruct (parity s), (parity u); cbn [negb Bool.eqb]; try reflexivity; timeout 20 ring.
  Qed.

  (* ---------------------------------------------------------------- algebra of the inversion-free form *)
  Lemma x_gx1_is_g : forall n d, d <> 0 ->
    ((sq n + a * sq d) * n + b * (sq d * d)) * inv (sq d * d) = g a b (n * inv d).
  Proof. intros n d Hd. unfold Maps.sq, sw_g, Maps.sq. timeout 60 field. exact Hd. Qed.

  (* g(t x1) = t^3 g(x1) for x1 = B (ta + 1) / (- A ta), ta = t^2 + t *)
  Lemma x_gx2_is_t3_gx1 : forall t, sq t + t <> 0 ->
    g a b (t * ((b * (sq t + t + 1)) * inv (a * - (sq t + t)))) =
    t * t * t * g a b ((b * (sq t + t + 1)) * inv (a * - (sq t + t))).
  Proof.
    intros t Ht. unfold sw_g, Maps.sq in Ht |- *. timeout 60 field.
    repeat split; try assumption; try (apply x_neg_neq0; assumption).
  Qed.

  (* the coded x1 = num_x1 / div (with `ta == 0` routed through ZETA) is x1 of RFC steps 1-3, for EVERY u *)
  Lemma swu_x1_is_rfc : forall u,
    (b * (sq (zeta * sq u) + zeta * sq u + 1)) *
      inv (a * (if is0 (sq (zeta * sq u) + zeta * sq u) then zeta else - (sq (zeta * sq u) + zeta * sq u))) = rfc_x1 u.
  Proof.
    intros u. unfold swu_rfc_x1, Maps.inv0.
    assert (E : sq zeta * sq (sq u) + zeta * sq u = sq (zeta * sq u) + zeta * sq u) by (unfold Maps.sq; timeout 20 ring).
    rewrite E. set (ta := sq (zeta * sq u) + zeta * sq u).
    destruct (is0 ta) eqn:Eta.
    - assert (Ez : is0 0 = true) by (apply x_is0_true; reflexivity). rewrite Ez.
      apply x_is0_true in Eta. rewrite Eta. timeout 20 field. split; assumption.
    - apply x_is0_false in Eta.
      assert (Ei : is0 (inv ta) = false) by (apply x_is0_false; apply x_inv_neq0; exact Eta). rewrite Ei.
      timeout 20 field. repeat split; try assumption; apply x_neg_neq0; exact Eta.
  Qed.

  Lemma swu_rfc_unfold : forall u,
    rfc u =
    (let x1 := rfc_x1 u in
     let x2 := zeta * sq u * x1 in
     let xy := if is_square_rfc 0 eqb is_qr (g a b x1) then (x1, sqrt (g a b x1)) else (x2, sqrt (g a b x2)) in
     match snd xy with
     | None => None
     | Some y => Some (fst xy, if Bool.eqb (parity u) (parity y) then y else - y)
     end).
  Proof. intros u. reflexivity. Qed.

  (* if g(x1) is not a non-zero square then u is not exceptional (Z^2 u^4 + Z u^2 <> 0) *)
  Lemma swu_nonsquare_not_exceptional : forall u,
    is_qr (g a b (rfc_x1 u)) = false -> sq (zeta * sq u) + zeta * sq u <> 0.
  Proof.
    intros u Eqr E. rewrite <- swu_x1_is_rfc in Eqr. apply x_is0_true in E as E'. rewrite E' in Eqr. rewrite E in Eqr.
    assert (Ex : b * (0 + 1) * inv (a * zeta) = b * inv (zeta * a)) by (timeout 20 field; split; assumption).
    rewrite Ex, exceptional_ok in Eqr. discriminate.
  Qed.

  (* ================================================================ the coded map IS the RFC map *)
  Theorem swu_coded_equals_rfc : forall u,
    g a b (rfc_x1 u) <> 0 ->
    exists x y, swu u = MOk (x, y) /\ rfc u = Some (x, y).
  Proof.
    intros u Hg.
    destruct (@swu_correct K 0 1 add sub mul neg inv div eqb FT eqb_spec is_qr sqrt parity a b zeta
                a_nz zeta_nz sqrt_ok sqrt_zero nonsquare_mul exceptional_ok u) as [xc [yc [Hc _]]].
    rewrite swu_rfc_unfold. revert Hc. unfold swu_coded.
    pose proof (swu_nonsquare_not_exceptional u) as Hexc.
    revert Hg Hexc. rewrite <- (swu_x1_is_rfc u).
    set (t := zeta * sq u).
    set (ta := sq t + t).
    set (n1 := b * (ta + 1)).
    set (d := a * (if is0 ta then zeta else - ta)).
    intros Hg Hexc.
    assert (Hd : d <> 0).
    { unfold d. apply x_mul_neq0; [exact a_nz|].
      destruct (is0 ta) eqn:E; [exact zeta_nz | apply x_neg_neq0; apply x_is0_false; exact E]. }
    assert (Hd3 : sq d * d <> 0) by (unfold Maps.sq; apply x_mul_neq0; [apply x_mul_neq0|]; exact Hd).
    apply x_is0_false in Hd3. rewrite Hd3.
    rewrite (x_gx1_is_g n1 d Hd).
    set (x1 := n1 * inv d) in *.
    assert (Esq : is_square_rfc 0 eqb is_qr (g a b x1) = is_qr (g a b x1)).
    { unfold is_square_rfc. apply x_is0_false in Hg. rewrite Hg. reflexivity. }
    cbv zeta. rewrite Esq.
    destruct (is_qr (g a b x1)) eqn:Eqr.
    - (* gx1 a non-zero square: both sides call the oracle on the same argument *)
      destruct (sqrt_ok _ Eqr) as [y1 [Hs _]]. rewrite Hs. cbn [fst snd].
      rewrite swu_sign_rfc. fold (swu_sign u y1).
      match goal with |- (if ?c then _ else _) = _ -> _ => destruct c; [|discriminate] end.
      intros _. exists x1, (swu_sign u y1). split; reflexivity.
    - (* gx1 a non-square: code y = Z u^3 sqrt(Z gx1), RFC y = sqrt(gx2), gx2 = (Z u^2)^3 gx1 *)
      specialize (Hexc eq_refl).
      assert (Ht : t <> 0).
      { intros E. apply Hexc. unfold ta. rewrite E. unfold Maps.sq. timeout 20 ring. }
      assert (Hu : u <> 0).
      { intros E. apply Ht. unfold t. rewrite E. unfold Maps.sq. timeout 20 ring. }
      destruct (sqrt_ok _ (nonsquare_mul _ Hg Eqr)) as [y1 [Hs Hy1]]. rewrite Hs.
      fold (swu_sign u (t * u * y1)).
      match goal with |- (if ?c then _ else _) = _ -> _ => destruct c; [|discriminate] end.
      intros _.
      assert (Ed : d = a * - ta).
      { unfold d. apply x_is0_false in Hexc. now rewrite Hexc. }
      assert (Eg2 : g a b (t * x1) = t * t * t * g a b x1).
      { unfold x1, n1. rewrite Ed. exact (x_gx2_is_t3_gx1 t Hexc). }
      assert (Hy1nz : y1 <> 0).
      { intros E. rewrite E in Hy1.
        assert (E0 : zeta * g a b x1 = 0) by (rewrite <- Hy1; timeout 20 ring).
        destruct (x_mul_eq0 _ _ E0); contradiction. }
      set (y2 := t * u * y1).
      assert (Hy2nz : y2 <> 0) by (unfold y2; apply x_mul_neq0; [apply x_mul_neq0|]; assumption).
      assert (Hy2 : y2 * y2 = g a b (t * x1)).
      { rewrite Eg2. unfold y2. transitivity (t * t * (u * u) * (y1 * y1)); [timeout 20 ring|]. rewrite Hy1.
        unfold t, Maps.sq. timeout 20 ring. }
      destruct (sqrt_complete _ y2 Hy2nz Hy2) as [s [Hss Hs2]].
      cbn [fst snd]. rewrite Hss. rewrite swu_sign_rfc.
      exists (t * n1 * inv d), (swu_sign u y2). split; [reflexivity|].
      f_equal. f_equal.
      + unfold x1. timeout 20 ring.
      + symmetry. apply swu_sign_root_indep; [exact Hy2nz|]. rewrite Hy2, Hs2. reflexivity.
  Qed.

  (* ... and (MapProofs.swu_correct) that common point is on the curve with sgn0(y) = sgn0(u) *)
  Corollary swu_coded_equals_rfc_on_curve : forall u,
    g a b (rfc_x1 u) <> 0 ->
    exists x y, swu u = MOk (x, y) /\ rfc u = Some (x, y) /\
                y * y = x * x * x + a * x + b /\ (y <> 0 -> parity y = parity u).
  Proof.
    intros u Hg. destruct (swu_coded_equals_rfc u Hg) as [x [y [H1 H2]]].
    destruct (@swu_correct K 0 1 add sub mul neg inv div eqb FT eqb_spec is_qr sqrt parity a b zeta
                a_nz zeta_nz sqrt_ok sqrt_zero nonsquare_mul exceptional_ok u) as [x' [y' [H1' [H3 H4]]]].
    rewrite H1 in H1'. injection H1' as Ex Ey. subst x' y'.
    exists x, y. repeat split; [exact H1 | exact H2 | exact H3 | exact (H4 parity_neg)].
  Qed.

  (* ================================================================ the excluded inputs: g(x1) = 0 (observation O-a) *)
  (* The Legendre symbol of 0 is Zero, not QuadraticResidue (`is_qr 0 = false`), while the RFC's is_square(0) is true.
     There the code returns (x2, 0) = (Z u^2 x1, 0), the RFC (x1, 0): both 2-torsion points of the curve (g(x2) = (Z u^2)^3 g(x1) = 0). *)
  Theorem swu_gx1_zero_value : is_qr 0 = false -> forall u,
    g a b (rfc_x1 u) = 0 ->
    swu u = MOk (zeta * sq u * rfc_x1 u, 0) /\ rfc u = Some (rfc_x1 u, 0) /\ g a b (zeta * sq u * rfc_x1 u) = 0.
  Proof.
    intros Hq0 u Hg.
    assert (Eneg0 : - 0 = 0) by (timeout 20 ring).
    split; [|split].
    - destruct (@swu_correct K 0 1 add sub mul neg inv div eqb FT eqb_spec is_qr sqrt parity a b zeta
                  a_nz zeta_nz sqrt_ok sqrt_zero nonsquare_mul exceptional_ok u) as [xc [yc [Hc _]]].
      revert Hc. unfold swu_coded.
      revert Hg. rewrite <- (swu_x1_is_rfc u).
      set (t := zeta * sq u).
      set (ta := sq t + t).
      set (n1 := b * (ta + 1)).
      set (d := a * (if is0 ta then zeta else - ta)).
      intros Hg.
      assert (Hd : d <> 0).
      { unfold d. apply x_mul_neq0; [exact a_nz|].
        destruct (is0 ta) eqn:E; [exact zeta_nz | apply x_neg_neq0; apply x_is0_false; exact E]. }
      assert (Hd3 : sq d * d <> 0) by (unfold Maps.sq; apply x_mul_neq0; [apply x_mul_neq0|]; exact Hd).
      apply x_is0_false in Hd3. rewrite Hd3.
      rewrite (x_gx1_is_g n1 d Hd). rewrite Hg, Hq0.
      assert (Ez : zeta * 0 = 0) by (timeout 20 ring). rewrite Ez, sqrt_zero.
      assert (Ey : t * u * 0 = 0) by (timeout 20 ring). rewrite Ey.
      assert (Es : (if Bool.eqb (parity 0) (parity u) then 0 else - 0) = 0).
      { rewrite Eneg0. destruct (Bool.eqb _ _); reflexivity. }
      rewrite Es.
      assert (Ex : t * n1 * inv d = t * (n1 * inv d)) by (timeout 20 ring). rewrite Ex.
      match goal with |- (if ?c then _ else _) = _ -> _ => destruct c; [|discriminate] end.
      intros _. reflexivity.
    - rewrite swu_rfc_unfold. cbv zeta. rewrite Hg.
      assert (Esq : is_square_rfc 0 eqb is_qr 0 = true).
      { unfold is_square_rfc. assert (Ez : is0 0 = true) by (apply x_is0_true; reflexivity). rewrite Ez. reflexivity. }
      rewrite Esq. cbn [fst snd]. rewrite sqrt_zero.
      rewrite Eneg0. destruct (Bool.eqb _ _); reflexivity.
    - assert (Eqr : is_qr (g a b (rfc_x1 u)) = false) by (rewrite Hg; exact Hq0).
      pose proof (swu_nonsquare_not_exceptional u Eqr) as Hexc.
      revert Hg. rewrite <- (swu_x1_is_rfc u).
      set (t := zeta * sq u) in *.
      set (ta := sq t + t) in *.
      apply x_is0_false in Hexc as Hexc'. rewrite Hexc'.
      intros Hg. unfold ta in *.
      rewrite (x_gx2_is_t3_gx1 t Hexc). rewrite Hg. timeout 20 ring.
  Qed.
End SwuRfc.

(* ==================================================================== the premises are satisfiable: GF(13) *)
(* (1) y^2 = x^3 + x + 1, Z = 5 -- the instance of Examples.F13_swu / C13_ex_swu_gf13.  g has the single root x = 7 and no
   u reaches it (x1 = 7 needs t^2 + t = 8, discriminant 7 is a non-square), so g(x1) <> 0 for all 13 values of u and the
   coded map equals the RFC map on the whole field. *)
Lemma F13_sqrt_complete : forall x r, r <> F13_0 -> F13_mul r r = x -> exists s, F13_sqrt x = Some s /\ F13_mul s s = x.
Proof.
  intros x r Hr E. subst x. destruct r; try (exfalso; apply Hr; reflexivity); vm_compute; eexists; split; reflexivity.
Qed.
Definition F13_swu_rfc := swu_rfc F13_0 F13_1 F13_add F13_mul F13_neg F13_inv F13_eqb F13_is_qr F13_sqrt F13_parity
                                  F13_1 F13_1 F13_5.
Definition F13_swu_x1 := swu_rfc_x1 F13_0 F13_1 F13_add F13_mul F13_neg F13_inv F13_eqb F13_1 F13_1 F13_5.
Lemma F13_swu_gx1_nonzero : forall u, sw_g F13_add F13_mul F13_1 F13_1 (F13_swu_x1 u) <> F13_0.
Proof. intros u; destruct u; vm_compute; discriminate. Qed.
Lemma F13_swu_is_rfc : forall u, exists x y, F13_swu u = MOk (x, y) /\ F13_swu_rfc u = Some (x, y).
Proof.
  intros u.
  exact (swu_coded_equals_rfc F13_0 F13_1 F13_add F13_sub F13_mul F13_neg F13_inv F13_div F13_eqb
           F13_field F13_eqb_spec F13_is_qr F13_sqrt F13_parity F13_1 F13_1 F13_5
           (F13_neq F13_1 F13_0 eq_refl) (F13_neq F13_5 F13_0 eq_refl)
           F13_sqrt_ok F13_sqrt_zero F13_nonsquare_mul_5 eq_refl F13_parity_neg F13_sqrt_complete
           u (F13_swu_gx1_nonzero u)).
Qed.
(* value tables for closed kernel computations (Props/C13Swu.v); u = 0 is the only exceptional input here: GF(13) has
   p = 1 (mod 4), so -1/Z is a non-square and Z u^2 = -1 has no solution -- see instance (3) for that branch *)
Definition F13_pt (P : F13 * F13) : Z * Z := (F13_toZ (fst P), F13_toZ (snd P)).
Definition F13_coded_tbl (f : F13 -> mres (F13 * F13)) : list (option (Z * Z)) :=
  map (fun u => match f u with MOk P => Some (F13_pt P) | MPanic => None end) F13_all.
Definition F13_rfc_tbl (f : F13 -> option (F13 * F13)) : list (option (Z * Z)) :=
  map (fun u => option_map F13_pt (f u)) F13_all.

(* (2) y^2 = x^3 + 4 x + 2, Z = 5 (g(B/(Z A)) = g(4) = 4 is a square): g has the roots 8, 9 and x1 hits them at
   u = 3, 6, 7, 10, where (observation O-a) the code returns (x2, 0) and the RFC (x1, 0); elsewhere the maps agree *)
Definition F13b_swu := swu_coded F13_0 F13_1 F13_add F13_mul F13_neg F13_inv F13_eqb F13_is_qr F13_sqrt F13_parity
                                 F13_4 F13_2 F13_5.
Definition F13b_swu_rfc := swu_rfc F13_0 F13_1 F13_add F13_mul F13_neg F13_inv F13_eqb F13_is_qr F13_sqrt F13_parity
                                   F13_4 F13_2 F13_5.
Definition F13b_swu_x1 := swu_rfc_x1 F13_0 F13_1 F13_add F13_mul F13_neg F13_inv F13_eqb F13_4 F13_2 F13_5.
Definition F13b_gx1_zero (u : F13) : bool := F13_eqb (sw_g F13_add F13_mul F13_4 F13_2 (F13b_swu_x1 u)) F13_0.
Lemma F13b_swu_is_rfc : forall u, F13b_gx1_zero u = false ->
  exists x y, F13b_swu u = MOk (x, y) /\ F13b_swu_rfc u = Some (x, y).
Proof.
  intros u Hu.
  exact (swu_coded_equals_rfc F13_0 F13_1 F13_add F13_sub F13_mul F13_neg F13_inv F13_div F13_eqb
           F13_field F13_eqb_spec F13_is_qr F13_sqrt F13_parity F13_4 F13_2 F13_5
           (F13_neq F13_4 F13_0 eq_refl) (F13_neq F13_5 F13_0 eq_refl)
           F13_sqrt_ok F13_sqrt_zero F13_nonsquare_mul_5 eq_refl F13_parity_neg F13_sqrt_complete
           u (F13_neq _ _ Hu)).
Qed.
Lemma F13b_swu_gx1_zero : forall u, F13b_gx1_zero u = true ->
  F13b_swu u = MOk (F13_mul (F13_mul F13_5 (F13_mul u u)) (F13b_swu_x1 u), F13_0) /\
  F13b_swu_rfc u = Some (F13b_swu_x1 u, F13_0).
Proof.
  intros u Hu. apply F13_eqb_spec in Hu.
  destruct (swu_gx1_zero_value F13_0 F13_1 F13_add F13_sub F13_mul F13_neg F13_inv F13_div F13_eqb
              F13_field F13_eqb_spec F13_is_qr F13_sqrt F13_parity F13_4 F13_2 F13_5
              (F13_neq F13_4 F13_0 eq_refl) (F13_neq F13_5 F13_0 eq_refl)
              F13_sqrt_ok F13_sqrt_zero F13_nonsquare_mul_5 eq_refl eq_refl u Hu) as [H1 [H2 _]].
  split; [exact H1 | exact H2].
Qed.

(* (3) GF(7), p = 3 (mod 4): y^2 = x^3 + x + 6, Z = 6 = -1 (g(B/(Z A)) = g(1) = 1 is a square; g has no root).  Here the second
   kind of exceptional input is LIVE: Z u^2 = -1 at u = 1, 6 (and u = 0), x1 = B/(Z A) = 1 there; all premises hold and the
   coded map equals the RFC map for all 7 values of u *)
Lemma F7_parity_neg : forall z, z <> F7_0 -> F7_parity (F7_neg z) = negb (F7_parity z).
Proof. intros z; destruct z; vm_compute; intros H; try reflexivity; exfalso; apply H; reflexivity. Qed.
Lemma F7_sqrt_complete : forall x r, r <> F7_0 -> F7_mul r r = x -> exists s, F7_sqrt x = Some s /\ F7_mul s s = x.
Proof.
  intros x r Hr E. subst x. destruct r; try (exfalso; apply Hr; reflexivity); vm_compute; eexists; split; reflexivity.
Qed.
Definition F7_swu := swu_coded F7_0 F7_1 F7_add F7_mul F7_neg F7_inv F7_eqb F7_is_qr F7_sqrt F7_parity F7_1 F7_6 F7_6.
Definition F7_swu_rfc := swu_rfc F7_0 F7_1 F7_add F7_mul F7_neg F7_inv F7_eqb F7_is_qr F7_sqrt F7_parity F7_1 F7_6 F7_6.
Definition F7_swu_x1 := swu_rfc_x1 F7_0 F7_1 F7_add F7_mul F7_neg F7_inv F7_eqb F7_1 F7_6 F7_6.
Lemma F7_swu_gx1_nonzero : forall u, sw_g F7_add F7_mul F7_1 F7_6 (F7_swu_x1 u) <> F7_0.
Proof. intros u; destruct u; vm_compute; discriminate. Qed.
Lemma F7_swu_is_rfc : forall u, exists x y, F7_swu u = MOk (x, y) /\ F7_swu_rfc u = Some (x, y).
Proof.
  intros u.
  exact (swu_coded_equals_rfc F7_0 F7_1 F7_add F7_sub F7_mul F7_neg F7_inv F7_div F7_eqb
           F7_field F7_eqb_spec F7_is_qr F7_sqrt F7_parity F7_1 F7_6 F7_6
           (F7_neq F7_1 F7_0 eq_refl) (F7_neq F7_6 F7_0 eq_refl)
           F7_sqrt_ok F7_sqrt_zero F7_nonsquare_mul_6 eq_refl F7_parity_neg F7_sqrt_complete
           u (F7_swu_gx1_nonzero u)).
Qed.
Definition F7_pt (P : F7 * F7) : Z * Z := (F7_toZ (fst P), F7_toZ (snd P)).
Definition F7_coded_tbl (f : F7 -> mres (F7 * F7)) : list (option (Z * Z)) :=
  map (fun u => match f u with MOk P => Some (F7_pt P) | MPanic => None end) F7_all.
Definition F7_rfc_tbl (f : F7 -> option (F7 * F7)) : list (option (Z * Z)) :=
  map (fun u => option_map F7_pt (f u)) F7_all.
