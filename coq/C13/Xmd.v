(* C13 -- expand_message_xmd.
   `xmd_rfc`   : RFC 9380 section 5.3.1 as written (with the 5.3.3 rule for tags > 255 bytes);
   `xmd_coded` : ExpanderXmd::expand of ff/src/fields/field_hashers/expander/mod.rs as coded
                 (Z_pad of the struct's `block_size` bytes, DST::new_xmd, the two `assert!`s as
                 Panic, `i as u8` / `n as u16` casts written as mod, b_1 always appended and the
                 result truncated).
   Both are parameterised by the hash H, its output size b_len (bytes) and (RFC only) its input
   block size s_len.  No proofs in this file. *)
Require Import ZArith List Bool.
Import ListNotations.
Open Scope Z_scope.

Inductive xres : Type := XOk (bytes : list Z) | XPanic.

Definition strxor (a b : list Z) : list Z := map (fun p => Z.lxor (fst p) (snd p)) (combine a b).
Definition div_ceil (n d : Z) : Z := (n + d - 1) / d.

(* "H2C-OVERSIZE-DST-" *)
Definition long_dst_prefix : list Z := [72; 50; 67; 45; 79; 86; 69; 82; 83; 73; 90; 69; 45; 68; 83; 84; 45].

Section Xmd.
  Variable H : list Z -> list Z.
  Variable b_len : Z.     (* output size of H in bytes *)

  (* ---------- RFC 9380 ---------- *)
  (* 5.3.3: DST = H("H2C-OVERSIZE-DST-" || a_very_long_DST) when len(DST) > 255 *)
  Definition dst_rfc (dst : list Z) : list Z :=
    if Z.of_nat (length dst) >? 255 then H (long_dst_prefix ++ dst) else dst.

  (* b_i, ..., for k more blocks, given b_(i-1) *)
  Fixpoint rfc_blocks (b0 dst_prime : list Z) (k : nat) (i : Z) (prev : list Z) : list (list Z) :=
    match k with
    | O => []
    | S k' => let bi := H (strxor b0 prev ++ [i] ++ dst_prime) in
              bi :: rfc_blocks b0 dst_prime k' (i + 1) bi
    end.

  Definition xmd_rfc (s_len : Z) (msg dst0 : list Z) (len : Z) : xres :=
    let dst := dst_rfc dst0 in
    let ell := div_ceil len b_len in
    if (ell >? 255) || (len >? 65535) || (Z.of_nat (length dst) >? 255) then XPanic else
    let dst_prime := dst ++ [Z.of_nat (length dst)] in
    let z_pad := repeat 0 (Z.to_nat s_len) in
    let l_i_b_str := [len / 256; len mod 256] in
    let msg_prime := z_pad ++ msg ++ l_i_b_str ++ [0] ++ dst_prime in
    let b0 := H msg_prime in
    let uniform :=
      match Z.to_nat ell with
      | O => []
      | S k => let b1 := H (b0 ++ [1] ++ dst_prime) in
               b1 ++ concat (rfc_blocks b0 dst_prime k 2 b1)
      end in
    XOk (firstn (Z.to_nat len) uniform).

  (* ---------- as coded ---------- *)
  (* DST::new_xmd : the ArrayVec holds at most 255 bytes; try_from(..).unwrap() panics otherwise
     (only possible if the hash output were longer than 255 bytes) *)
  Definition dst_coded (dst : list Z) : option (list Z) :=
    let d := if Z.of_nat (length dst) >? 255 then H (long_dst_prefix ++ dst) else dst in
    if Z.of_nat (length d) >? 255 then None else Some d.
  (* DST::update : bytes, then `len as u8` *)
  Definition dst_update (d : list Z) : list Z := d ++ [Z.of_nat (length d) mod 256].

  (* for i in 2..=ell : k iterations left, loop variable i, current b_i, accumulated output *)
  Fixpoint coded_loop (b0 dstp : list Z) (k : nat) (i : Z) (bi acc : list Z) : list Z :=
    match k with
    | O => acc
    | S k' => let bi' := H (strxor b0 bi ++ [i mod 256] ++ dstp) in
              coded_loop b0 dstp k' (i + 1) bi' (acc ++ bi')
    end.

  Definition xmd_coded (block_size : Z) (msg dst : list Z) (n : Z) : xres :=
    let ell := div_ceil n b_len in
    if ell >? 255 then XPanic else                     (* assert!(ell <= 255) *)
    match dst_coded dst with
    | None => XPanic
    | Some d =>
      if n >=? 65536 then XPanic else                  (* assert!(n < (1 << 16)) *)
      if block_size >? 256 then XPanic else            (* &Z_PAD[0..block_size] on a 256-byte array *)
      let n16 := n mod 65536 in
      let lib_str := [n16 / 256; n16 mod 256] in
      let dstp := dst_update d in
      let b0 := H (repeat 0 (Z.to_nat block_size) ++ msg ++ lib_str ++ [0] ++ dstp) in
      let b1 := H (b0 ++ [1] ++ dstp) in
      let uniform := coded_loop b0 dstp (Z.to_nat ell - 1) 2 b1 b1 in
      XOk (firstn (Z.to_nat n) uniform)                (* truncate(n) *)
    end.
End Xmd.
