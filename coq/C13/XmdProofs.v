(* C13 -- proofs about the expander and hash_to_field models. *)
Require Import ZArith List Bool Lia.
From V Require Import C13.Sha256 C13.Xmd C13.HashToField.
Import ListNotations.
Open Scope Z_scope.

Lemma sha256_length : forall m, length (sha256 m) = 32%nat.
Proof.
  intros m. unfold sha256.
  destruct (blocks _ _ _) as [[[[[[[a b] c] d] e] f] g] h].
  reflexivity.
Qed.

Section XmdFacts.
  Variable H : list Z -> list Z.
  Variable b_len : Z.
  Hypothesis b_len_pos : 0 < b_len.
  Hypothesis H_len : forall x, Z.of_nat (length (H x)) = b_len.

  Lemma coded_loop_spec : forall k b0 dstp i bi acc,
    0 <= i -> i + Z.of_nat k <= 256 ->
    coded_loop H b0 dstp k i bi acc = acc ++ concat (rfc_blocks H b0 dstp k i bi).
  Proof.
    induction k as [|k IH]; intros b0 dstp i bi acc Hi Hk; cbn [coded_loop rfc_blocks concat].
    - now rewrite app_nil_r.
    - rewrite Z.mod_small by lia.
      rewrite IH by lia. now rewrite <- app_assoc.
  Qed.

  Lemma rfc_blocks_length : forall k b0 dstp i bi,
    Z.of_nat (length (concat (rfc_blocks H b0 dstp k i bi))) = Z.of_nat k * b_len.
  Proof.
    induction k as [|k IH]; intros; cbn [rfc_blocks concat].
    - reflexivity.
    - rewrite app_length, Nat2Z.inj_add, H_len, IH. lia.
  Qed.

  Lemma div_ceil_zero : forall n, 0 <= n -> div_ceil n b_len = 0 -> n = 0.
  Proof.
    intros n Hn Hd. unfold div_ceil in Hd.
    destruct (Z.eq_dec n 0) as [|Hne]; [assumption|exfalso].
    assert (1 <= (n + b_len - 1) / b_len).
    { apply Z.div_le_lower_bound; lia. }
    lia.
  Qed.

  Lemma div_ceil_bound : forall n, 0 <= n -> n <= div_ceil n b_len * b_len.
  Proof.
    intros n Hn. unfold div_ceil.
    pose proof (Z.mod_pos_bound (n + b_len - 1) b_len b_len_pos).
    pose proof (Z.div_mod (n + b_len - 1) b_len). nia.
  Qed.

  (* the coded expander equals RFC 9380's expand_message_xmd whenever the struct's block_size is the
     hash's input block size (and fits the 256-byte Z_PAD array) *)
  Theorem xmd_coded_equals_rfc : forall s_len msg dst n,
    0 <= n -> 0 <= s_len <= 256 -> b_len <= 255 ->
    xmd_coded H b_len s_len msg dst n = xmd_rfc H b_len s_len msg dst n.
  Proof.
    intros s_len msg dst n Hn Hs Hb.
    unfold xmd_coded, xmd_rfc, dst_coded, dst_rfc, dst_update.
    set (ell := div_ceil n b_len).
    set (d := if Z.of_nat (length dst) >? 255 then H (long_dst_prefix ++ dst) else dst).
    assert (Hd : Z.of_nat (length d) <= 255).
    { unfold d. destruct (Z.of_nat (length dst) >? 255) eqn:E; [rewrite H_len; lia | lia]. }
    destruct (ell >? 255) eqn:Eell; cbn [orb]; [reflexivity|].
    assert (Hdl : (Z.of_nat (length d) >? 255) = false) by lia.
    rewrite Hdl. rewrite orb_false_r.
    destruct (n >=? 65536) eqn:En.
    { assert (E2 : (n >? 65535) = true) by lia. now rewrite E2. }
    assert (E2 : (n >? 65535) = false) by lia. rewrite E2.
    assert (E3 : (s_len >? 256) = false) by lia. rewrite E3.
    rewrite (Z.mod_small n 65536) by lia.
    rewrite (Z.mod_small (Z.of_nat (length d)) 256) by lia.
    f_equal.
    destruct (Z.to_nat ell) as [|k] eqn:Ek.
    - assert (ell = 0).
      { assert (0 <= ell) by (unfold ell, div_ceil; apply Z.div_pos; lia). lia. }
      assert (n = 0) by (apply div_ceil_zero; assumption).
      subst n. reflexivity.
    - replace (S k - 1)%nat with k by lia.
      rewrite coded_loop_spec by lia. reflexivity.
  Qed.

  (* the output has exactly the requested length *)
  Theorem xmd_coded_length : forall bs msg dst n bytes,
    0 <= n -> xmd_coded H b_len bs msg dst n = XOk bytes -> Z.of_nat (length bytes) = n.
  Proof.
    intros bs msg dst n bytes Hn.
    unfold xmd_coded.
    set (ell := div_ceil n b_len).
    destruct (ell >? 255) eqn:Eell; [discriminate|].
    destruct (dst_coded H dst) as [d|]; [|discriminate].
    destruct (n >=? 65536); [discriminate|].
    destruct (bs >? 256); [discriminate|].
    intros E. injection E as <-.
    assert (0 <= ell) by (unfold ell, div_ceil; apply Z.div_pos; lia).
    rewrite coded_loop_spec by lia.
    rewrite firstn_length_le; [lia|].
    apply Nat2Z.inj_le.
    rewrite app_length, Nat2Z.inj_add, H_len, rfc_blocks_length.
    pose proof (div_ceil_bound n Hn). fold ell in H1.
    rewrite Z2Nat.id by lia.
    destruct (Z.eq_dec ell 0) as [E0|E0].
    + rewrite E0 in *. cbn. lia.
    + rewrite Nat2Z.inj_sub by lia. rewrite Z2Nat.id by lia. nia.
  Qed.

  Theorem xmd_rfc_length : forall s_len msg dst n bytes,
    0 <= n -> 0 <= s_len <= 256 -> b_len <= 255 ->
    xmd_rfc H b_len s_len msg dst n = XOk bytes -> Z.of_nat (length bytes) = n.
  Proof.
    intros s_len msg dst n bytes Hn Hs Hb E.
    rewrite <- xmd_coded_equals_rfc in E by assumption.
    eapply xmd_coded_length; eassumption.
  Qed.

  (* which requests are rejected: exactly those with more than 255 blocks (the 2^16 bound is implied
     for hashes of at most 255 output bytes ... only when b_len <= 257; stated with both) *)
  Theorem xmd_coded_panics_iff : forall bs msg dst n,
    0 <= n -> 0 <= bs <= 256 -> b_len <= 255 ->
    (xmd_coded H b_len bs msg dst n = XPanic <-> (div_ceil n b_len > 255 \/ n >= 65536)).
  Proof.
    intros bs msg dst n Hn Hs Hb. unfold xmd_coded, dst_coded.
    set (d := if Z.of_nat (length dst) >? 255 then H (long_dst_prefix ++ dst) else dst).
    assert (Hd : (Z.of_nat (length d) >? 255) = false).
    { unfold d. destruct (Z.of_nat (length dst) >? 255) eqn:E; [rewrite H_len; lia | lia]. }
    rewrite Hd.
    destruct (div_ceil n b_len >? 255) eqn:E1; [split; [lia|reflexivity]|].
    destruct (n >=? 65536) eqn:E2; [split; [lia|reflexivity]|].
    assert (E3 : (bs >? 256) = false) by lia. rewrite E3.
    split; [discriminate|lia].
  Qed.
End XmdFacts.

(* ---------------- hash_to_field ---------------- *)
Lemma len_per_elem_ceil : forall bits sec, 0 <= bits + sec ->
  8 * (len_per_elem bits sec - 1) < bits + sec <= 8 * len_per_elem bits sec.
Proof.
  intros bits sec Hs. unfold len_per_elem, div_ceil.
  pose proof (Z.div_mod (bits + sec + 8 - 1) 8). pose proof (Z.mod_pos_bound (bits + sec + 8 - 1) 8). lia.
Qed.

Theorem hash_to_field_shape : forall expand p m sec count dst msg elems,
  0 < p -> 0 <= m -> 0 <= count ->
  hash_to_field expand p m sec count dst msg = HOk elems ->
  length elems = Z.to_nat count /\
  Forall (fun e => length e = Z.to_nat m /\ Forall (fun c => 0 <= c < p) e) elems.
Proof.
  intros expand p m sec count dst msg elems Hp Hm Hc. unfold hash_to_field.
  destruct (expand _ _ _ _) as [bytes|]; [|discriminate].
  intros E. injection E as <-. split.
  - now rewrite map_length, seq_length.
  - apply Forall_forall. intros e He. apply in_map_iff in He. destruct He as [i [<- _]]. split.
    + now rewrite map_length, seq_length.
    + apply Forall_forall. intros c Hc'. apply in_map_iff in Hc'. destruct Hc' as [j [<- _]].
      apply Z.mod_pos_bound. lia.
Qed.

(* RFC 9380 section 5.2, steps 5-8: e_j = OS2IP(substr(uniform_bytes, L * (j + i * m), L)) mod p *)
Theorem hash_to_field_is_rfc : forall expand p m sec count dst msg elems bytes i j,
  hash_to_field expand p m sec count dst msg = HOk elems ->
  expand (len_per_elem (modulus_bits p) sec) msg dst (count * m * len_per_elem (modulus_bits p) sec) = XOk bytes ->
  (i < Z.to_nat count)%nat -> (j < Z.to_nat m)%nat ->
  nth j (nth i elems []) 0 =
  os2ip (substr bytes (len_per_elem (modulus_bits p) sec * (Z.of_nat j + Z.of_nat i * m))
                (len_per_elem (modulus_bits p) sec)) mod p.
Proof.
  intros expand p m sec count dst msg elems bytes i j. unfold hash_to_field.
  intros E Ex Hi Hj. rewrite Ex in E. injection E as <-.
  set (f := fun i0 : nat => map _ (seq 0 (Z.to_nat m))).
  rewrite (nth_indep _ [] (f 0%nat)) by (now rewrite map_length, seq_length).
  rewrite map_nth. unfold f.
  rewrite seq_nth by assumption. cbn [plus].
  set (g := fun j0 : nat => _ mod p).
  rewrite (nth_indep _ 0 (g 0%nat)) by (now rewrite map_length, seq_length).
  rewrite map_nth. unfold g. rewrite seq_nth by assumption. reflexivity.
Qed.

(* the SHA-256 instance with the RFC's parameters (b_in_bytes = 32, s_in_bytes = 64) *)
Theorem xmd_sha256_coded_equals_rfc :
  forall msg dst n, 0 <= n -> xmd_coded sha256 32 64 msg dst n = xmd_rfc sha256 32 64 msg dst n.
Proof.
  intros msg dst n Hn. apply xmd_coded_equals_rfc; try lia.
  intros x. rewrite sha256_length. reflexivity.
Qed.
Theorem xmd_sha256_length :
  forall bs msg dst n bytes, 0 <= n -> xmd_coded sha256 32 bs msg dst n = XOk bytes -> Z.of_nat (length bytes) = n.
Proof.
  intros bs msg dst n bytes Hn. apply xmd_coded_length; try lia.
  intros x. rewrite sha256_length. reflexivity.
Qed.
