(* C14 model, part 2: the group / pairing operations with a parallel code path, at the
   level of their SERIAL SPECIFICATION (their parallel structure is a plain map over
   independent items -- windows of an MSM, scalars of a batch multiplication, points of a
   batch normalisation / validity check, chunks of 4 pairs of a multi-Miller loop whose
   partial products are multiplied in a commutative group -- so the value must be the
   serial one whatever the number of threads).
     ec/src/scalar_mul/variable_base/mod.rs  msm            = sum_i k_i * P_i
     ec/src/scalar_mul/mod.rs                batch_mul      = [k_i * G]
     ec/src/models/short_weierstrass/group.rs normalize_batch (uses ff batch_inversion, whose
                                             parallel chunking IS modelled: Par.v)
     serialize/src/lib.rs                    Valid::batch_check (par_bridge().try_for_each)
     ec/src/models/bls12/mod.rs              multi_miller_loop / multi_pairing
   Curve arithmetic: the Jacobian model of C03 (SWModel.v).  No proofs in this file. *)
From V Require Import Base.Field C03.SWModel C14.Par.

Section Ec.
  Context {T : Type} (F : Fops T) (a b : T).
  Local Notation jac := (@sw_jac T).
  Local Notation aff := (@sw_aff T).

  (* k * P by double-and-add on the Jacobian model (specification of scalar multiplication) *)
  Fixpoint smul_pos (P : jac) (k : positive) : jac :=
    match k with
    | xH => P
    | xO k' => sw_double F a (smul_pos P k')
    | xI k' => sw_add F a (sw_double F a (smul_pos P k')) P
    end.
  Definition smul (k : Z) (P : jac) : jac :=
    match k with Zpos k' => smul_pos P k' | _ => sw_zero F end.

  (* VariableBaseMSM::msm: Err(min len) when the lengths differ, else sum_i (k_i mod r) * P_i *)
  Definition msm_spec (r : Z) (bases : list aff) (scalars : list Z) : aff :=
    sw_to_affine F
      (fold_left (fun acc pk => sw_add F a acc (smul (snd pk mod r) (sw_of_affine F (fst pk))))
                 (combine bases scalars) (sw_zero F)).

  (* BatchMulPreprocessing::batch_mul / ScalarMul::batch_mul: [ (k_i mod r) * G ] in affine form *)
  Definition batch_mul_spec (r : Z) (g : aff) (scalars : list Z) : list aff :=
    map (fun k => sw_to_affine F (smul (k mod r) (sw_of_affine F g))) scalars.

  (* CurveGroup::normalize_batch in the parallel build: batch_inversion is the chunked one *)
  Definition par_normalize_batch (nt : Z) (v : list jac) : list aff :=
    let z_s := par_batch_inversion_and_mul F nt (map (fun g : jac => snd g) v) (f1 F) in
    map (fun gz : jac * T =>
           let '(g, z) := gz in
           let '(gx, gy, _) := g in
           if sw_is_zero F g then None
           else let z2 := sq F z in Some (fmul F gx z2, fmul F (fmul F gy z2) z))
        (combine v z_s).

  (* Valid::check for an affine point: on the curve and in the order-r subgroup.
     batch_check = every element passes (try_for_each: any failure => Err(InvalidData)) *)
  Definition point_valid (r : Z) (P : aff) : bool :=
    sw_aff_on_curve F a b P && sw_is_zero F (smul r (sw_of_affine F P)).
  Definition batch_check_spec (r : Z) (v : list aff) : bool := forallb (point_valid r) v.
End Ec.

(* multi_pairing / final_exponentiation(multi_miller_loop) of pairs (a_i * G1, b_i * G2):
   by bilinearity and non-degeneracy of the pairing on the order-r groups the value is
   e(G1, G2)^(sum a_i b_i), which is the identity of GT iff sum a_i b_i = 0 (mod r).
   Pairs with an identity component are filtered out by the code (they contribute 0). *)
Definition pairing_exponent (r : Z) (xs ys : list Z) : Z :=
  fold_left (fun acc xy =>
               let x := fst xy mod r in
               let y := snd xy mod r in
               if (x =? 0) || (y =? 0) then acc else (acc + x * y) mod r)
            (combine xs ys) 0.
Definition pairing_is_identity (r : Z) (xs ys : list Z) : bool := pairing_exponent r xs ys =? 0.
