(* C14 proofs, part 3: the mixed-radix transforms of the parallel build equal the serial ones,
   unconditionally: C07/MixedSpec.v proves that serial_mixed_radix_fft computes the DFT, which
   discharges the premise `mixed_serial_is_dft` of ParFftProofs.v. *)
From V Require Import Base.Field C07.Dft C07.Radix2 C07.MixedRadix C07.DftProofs C07.Radix2Proofs
  C07.DomainProofs C07.KAdicity C07.MixedSpec C14.Par C14.ParProofs C14.ParFftProofs.
Require Import Lia Field Ring Arith.
Local Open Scope nat_scope.

Section MF.
  Context {T : Type} (F : Fops T).
  Hypothesis Fth : field_theory (f0 F) (f1 F) (fadd F) (fmul F) (fsub F) (fneg F) (fdiv F) (finv F) eq.
  Add Field Ffm : Fth.
  Local Notation zero := (f0 F).
  Local Notation one := (f1 F).
  Local Notation mul := (fmul F).
  Local Notation neg := (fneg F).
  Local Notation pw := (pown F).

  Lemma resize_length : forall n (l : list T), length (resize F n l) = n.
  Proof. intros. unfold resize. rewrite app_length, firstn_length, repeat_length. lia. Qed.

  (* best_fft over the serial mixed-radix transform returns the serial result, for every
     thread count nt: both the whole array and the coset-sized arrays are DFTs *)
  Theorem best_fft_mixed : forall (nt : Z) (q s t : nat) omega (a : list T),
    3 <= q -> Z.odd (Z.of_nat q) = true -> length a = 2 ^ s * q ^ t ->
    pw omega (2 ^ s * q ^ t) = one ->
    (1 <= s -> pw omega (2 ^ (s - 1) * q ^ t) = neg one) ->
    best_fft F nt (serial_mixed_radix_fft F (Z.of_nat q)) a omega (Z.of_nat s)
    = serial_mixed_radix_fft F (Z.of_nat q) a omega (Z.of_nat s).
  Proof.
    intros nt q s t omega a Hq Hodd Hl Hw1 Hw2.
    destruct (Z.of_nat s <=? log2_floor nt)%Z eqn:E.
    { unfold best_fft. now rewrite E. }
    apply Z.leb_gt in E.
    assert (H0 : (0 <= log2_floor nt)%Z).
    { unfold log2_floor. destruct (nt =? 0)%Z; [lia | apply Z.log2_nonneg]. }
    set (c := Z.to_nat (log2_floor nt)).
    assert (Hc : c < s) by lia.
    assert (Hntn : Z.to_nat (2 ^ log2_floor nt) = 2 ^ c).
    { unfold c. rewrite <- (Z2Nat.id (log2_floor nt)) at 1 by exact H0.
      change 2%Z with (Z.of_nat 2). rewrite <- Nat2Z.inj_pow, Nat2Z.id. reflexivity. }
    set (csn := 2 ^ (s - c) * q ^ t).
    assert (Hqt : 1 <= q ^ t) by (pose proof (Nat.pow_nonzero q t ltac:(lia)); lia).
    assert (H2 : forall e, 1 <= 2 ^ e) by (intros e; pose proof (Nat.pow_nonzero 2 e ltac:(lia)); lia).
    assert (Hsplit : 2 ^ c * csn = 2 ^ s * q ^ t).
    { unfold csn. rewrite Nat.mul_assoc, <- Nat.pow_add_r. repeat f_equal. lia. }
    apply (best_fft_equals_serial F Fth _ nt csn); cbv zeta; rewrite ?Hntn.
    - unfold csn. specialize (H2 (s - c)). nia.
    - now rewrite Hsplit.
    - now rewrite Hsplit.
    - rewrite Hsplit. now apply (serial_mixed_radix_fft_spec F Fth).
    - intros x Hx.
      assert (Hk : k_adicity 2 (Z.of_nat csn) = Z.of_nat (s - c)).
      { unfold csn. rewrite Nat2Z.inj_mul, !Nat2Z.inj_pow. change (Z.of_nat 2) with 2%Z.
        apply (k_adicity_two_part (Z.of_nat q)); [exact Hodd | lia | lia | lia]. }
      rewrite Hk. unfold csn in *. apply (serial_mixed_radix_fft_spec F Fth); try assumption.
      + rewrite <- (pown_mul F Fth). now rewrite Hsplit.
      + intros Hs. rewrite <- (pown_mul F Fth), Nat.mul_assoc, <- Nat.pow_add_r.
        replace (c + (s - c - 1)) with (s - 1) by lia. apply Hw2. lia.
  Qed.

  (* a root premise transfers to the inverse generator *)
  Lemma inv_root_one : forall g gi k, mul g gi = one -> pw g k = one -> pw gi k = one.
  Proof.
    intros g gi k Hg Hk. transitivity (mul (pw g k) (pw gi k)); [rewrite Hk; ring|].
    rewrite <- (pown_mulbase F Fth), Hg. apply (pown_one F Fth).
  Qed.
  Lemma inv_root_neg : forall g gi k, mul g gi = one -> pw g k = neg one -> pw gi k = neg one.
  Proof.
    intros g gi k Hg Hk.
    assert (H1 : mul (pw g k) (pw gi k) = one) by (rewrite <- (pown_mulbase F Fth), Hg; apply (pown_one F Fth)).
    rewrite Hk in H1. transitivity (neg (mul (neg one) (pw gi k))); [ring | rewrite H1; reflexivity].
  Qed.

  (* MixedRadixEvaluationDomain::fft_in_place, parallel = serial, unconditionally *)
  Theorem par_mixed_fft_equals_serial_full : forall (nt : Z) (q s t : nat) d coeffs,
    3 <= q -> Z.odd (Z.of_nat q) = true ->
    d_size d = Z.of_nat (2 ^ s * q ^ t) -> d_log d = Z.of_nat s ->
    pw (d_gen d) (2 ^ s * q ^ t) = one ->
    (1 <= s -> pw (d_gen d) (2 ^ (s - 1) * q ^ t) = neg one) ->
    par_mixed_fft F nt (Z.of_nat q) d coeffs = mixed_fft F (Z.of_nat q) d coeffs.
  Proof.
    intros nt q s t d coeffs Hq Hodd Hsz Hlg Hw1 Hw2.
    unfold par_mixed_fft, mixed_fft, par_distribute_powers.
    rewrite (distribute_powers_par_equals_serial F Fth).
    fold (distribute_powers F coeffs (d_offset d)).
    rewrite Hsz, Hlg, Nat2Z.id. apply best_fft_mixed with (t := t); try assumption.
    apply resize_length.
  Qed.

  Theorem par_mixed_ifft_equals_serial_full : forall (nt : Z) (q s t : nat) d evals,
    3 <= q -> Z.odd (Z.of_nat q) = true ->
    d_size d = Z.of_nat (2 ^ s * q ^ t) -> d_log d = Z.of_nat s ->
    mul (d_gen d) (d_gen_inv d) = one ->
    pw (d_gen d) (2 ^ s * q ^ t) = one ->
    (1 <= s -> pw (d_gen d) (2 ^ (s - 1) * q ^ t) = neg one) ->
    par_mixed_ifft F nt (Z.of_nat q) d evals = mixed_ifft F (Z.of_nat q) d evals.
  Proof.
    intros nt q s t d evals Hq Hodd Hsz Hlg Hgi Hw1 Hw2.
    unfold par_mixed_ifft, mixed_ifft.
    rewrite Hsz, Hlg, Nat2Z.id.
    rewrite (best_fft_mixed nt q s t) ; try assumption.
    - destruct (serial_mixed_radix_fft F (Z.of_nat q) _ _ _); [|reflexivity].
      now rewrite (distribute_powers_par_equals_serial F Fth).
    - apply resize_length.
    - now apply (inv_root_one (d_gen d)).
    - intros Hs. apply (inv_root_neg (d_gen d)); auto.
  Qed.
End MF.
