(* C14 model, part 1: the chunk arithmetic of the `parallel` code paths, with the number of
   rayon threads [nt] (= rayon::current_num_threads()) as an explicit parameter.

     poly/src/domain/mod.rs      distribute_powers_and_mul_by_const   (cfg(feature = "parallel"))
     poly/src/polynomial/univariate/dense.rs   internal_evaluate      (parallel Horner), evaluate
     ff/src/fields/mod.rs        batch_inversion_and_mul              (parallel)
     poly/src/domain/radix2/fft.rs   roots_of_unity / roots_of_unity_recursive (parallel)
     poly/src/domain/utils.rs    best_fft / parallel_fft, log2_floor

   What is NOT modelled is rayon's scheduling: every parallel iterator below is a map over
   disjoint chunks (par_chunks_mut / par_iter_mut / par_chunks + sum / join), whose closures
   are pure functions of their chunk and its index; the model evaluates them in index order.
   Field-generic over a dictionary [F : Fops T]; no proofs in this file. *)
From V Require Import Base.Field C07.Dft C07.Radix2 C07.MixedRadix C01.Batch.

Section Par.
  Context {T : Type} (F : Fops T).
  Local Notation zero := (f0 F).
  Local Notation one := (f1 F).
  Local Notation add := (fadd F).
  Local Notation sub := (fsub F).
  Local Notation mul := (fmul F).

  (* max(len / num_cpus_available, min_chunk)   (usize arithmetic; nt >= 1) *)
  Definition elems_per_thread (len : nat) (nt minsz : Z) : Z :=
    Z.max (Z.of_nat len / nt) minsz.

  (* ---------- distribute_powers_and_mul_by_const, parallel ----------
     cfg_chunks_mut!(coeffs, num_elem_per_thread).enumerate().for_each(|(i, chunk)| {
        let offset = c * g.pow([(i * num_elem_per_thread) as u64]);
        let mut pow = offset;  chunk.iter_mut().for_each(|coeff| { *coeff *= pow; pow *= &g }) }) *)
  Fixpoint par_dist_chunks (chs : list (list T)) (i sz : Z) (g c : T) : list T :=
    match chs with
    | [] => []
    | ch :: rest =>
        let offset := mul c (fpow F g (i * sz)) in
        zipw mul ch (powers F (length ch) g offset) ++ par_dist_chunks rest (i + 1) sz g c
    end.
  Definition par_distribute_powers_and_mul_by_const (nt : Z) (coeffs : list T) (g c : T) : list T :=
    let sz := elems_per_thread (length coeffs) nt 1024 in
    par_dist_chunks (chunks (Z.to_nat sz) coeffs) 0 sz g c.
  Definition par_distribute_powers (nt : Z) (coeffs : list T) (g : T) : list T :=
    par_distribute_powers_and_mul_by_const nt coeffs g one.

  (* ---------- DensePolynomial::evaluate, parallel ----------
     horner_evaluate: coeffs.iter().rfold(zero, |result, coeff| result * point + coeff) *)
  Definition horner (c : list T) (x : T) : T :=
    fold_right (fun coeff result => add (mul result x) coeff) zero c.

  (* .par_chunks(n).enumerate().map(|(i, chunk)| horner(chunk) * point.pow([(i * n)])) *)
  Fixpoint par_horner_chunks (chs : list (list T)) (i sz : Z) (x : T) : list T :=
    match chs with
    | [] => []
    | ch :: rest => mul (horner ch x) (fpow F x (i * sz)) :: par_horner_chunks rest (i + 1) sz x
    end.
  (* .sum(): Sum for a field folds from zero; the association order chosen by rayon is
     irrelevant in a commutative group (stated in NOTES.md, `schedules` quantifier) *)
  Definition par_internal_evaluate (nt : Z) (coeffs : list T) (x : T) : T :=
    let sz := elems_per_thread (length coeffs) nt 16 in
    fold_left add (par_horner_chunks (chunks (Z.to_nat sz) coeffs) 0 sz x) zero.

  (* Polynomial::evaluate: is_zero -> 0; point.is_zero -> coeffs[0]; else internal_evaluate *)
  Definition poly_is_zero (coeffs : list T) : bool := forallb (fis0 F) coeffs.
  Definition par_evaluate (nt : Z) (coeffs : list T) (x : T) : T :=
    if poly_is_zero coeffs then zero
    else if fis0 F x then hd zero coeffs
    else par_internal_evaluate nt coeffs x.
  Definition serial_evaluate (coeffs : list T) (x : T) : T :=
    if poly_is_zero coeffs then zero
    else if fis0 F x then hd zero coeffs
    else horner coeffs x.

  (* ---------- batch_inversion_and_mul, parallel ----------
     v.par_chunks_mut(max(len / nt, 1)).for_each(|chunk| serial_batch_inversion_and_mul(chunk, coeff)) *)
  Definition serial_batch_inversion_and_mul (v : list T) (coeff : T) : list T :=
    batch_inversion_and_mul one mul (finv F) (fis0 F) v coeff.
  Definition par_batch_inversion_and_mul (nt : Z) (v : list T) (coeff : T) : list T :=
    let sz := elems_per_thread (length v) nt 1 in
    flat_map (fun ch => serial_batch_inversion_and_mul ch coeff) (chunks (Z.to_nat sz) v).

  (* ---------- roots_of_unity, parallel ---------- *)
  (* w, w^2, w^4, ... (n entries): temp.square_in_place() *)
  Fixpoint log_powers (n : nat) (t : T) : list T :=
    match n with O => [] | S n' => t :: log_powers n' (mul t t) end.

  Definition LOG_ROOTS_OF_UNITY_PARALLEL_SIZE : nat := 7.

  (* roots_of_unity_recursive(out, log_powers), out.len() = 2^log_powers.len().
     base case: out[0] = 1; out[idx] = out[idx-1] * log_powers[0]
     recursive: split at ceil(len/2); compute both halves (rayon::join);
                out.par_chunks_mut(lo.len()).zip(&hi): out_chunk[j][i] = hi[j] * lo[i].
     [fuel] bounds the recursion depth (each half is strictly shorter); exhaustion gives the
     empty table, which no real table equals (a table has at least one entry). *)
  Fixpoint roots_rec (fuel : nat) (lp : list T) : list T :=
    if Nat.leb (length lp) LOG_ROOTS_OF_UNITY_PARALLEL_SIZE
    then powers F (Nat.pow 2 (length lp)) (hd one lp) one
    else match fuel with
         | O => []
         | S f =>
             let k := Nat.div (length lp + 1) 2 in          (* div_ceil(2) *)
             let lo := roots_rec f (firstn k lp) in
             let hi := roots_rec f (skipn k lp) in
             flat_map (fun h => map (fun l => mul h l) lo) hi
         end.

  (* roots_of_unity(&self, root): first size/2 powers of root (size = 2^log_size) *)
  Definition par_roots_of_unity (log_size : nat) (root : T) : list T :=
    if Nat.leb log_size LOG_ROOTS_OF_UNITY_PARALLEL_SIZE
    then powers F (Nat.div (Nat.pow 2 log_size) 2) root one
    else let lp := log_powers (log_size - 1) root in roots_rec (length lp) lp.

  (* Radix-2 butterflies reading the top-level twiddles from the (parallel) roots table.
     In io_helper the first level (gap = n/2, num_chunks = 1, step = 1) reads roots[j];
     in oi_helper the last level (gap = n/2) does.  Lower levels use strided / compacted
     views of the same table, which C07 abstracts to root^2 recursion; the parallel
     butterfly loops (cfg_chunks_mut over chunks, cfg_iter_mut over a chunk's pairs) are
     element-wise maps over disjoint pairs and coincide with the serial loops. *)
  Definition par_io (k : nat) (w : T) (x : list T) : list T :=
    match k with
    | O => x
    | S k' =>
        let g := Nat.pow 2 k' in
        let lo := firstn g x in
        let hi := skipn g x in
        let tw := par_roots_of_unity k w in
        let w2 := mul w w in
        io_aux F k' w2 (bfly_io_lo F lo hi) ++ io_aux F k' w2 (bfly_io_hi F lo hi tw)
    end.
  Definition par_oi (k s : nat) (w : T) (x : list T) : list T :=
    match k with
    | O => x
    | S k' =>
        if Nat.leb k s then x else
        let g := Nat.pow 2 k' in
        let w2 := mul w w in
        let lo := oi_aux F k' s w2 (firstn g x) in
        let hi := oi_aux F k' s w2 (skipn g x) in
        let t := zipw mul hi (par_roots_of_unity k w) in
        zipw add lo t ++ zipw sub lo t
    end.

  (* ---------- best_fft / parallel_fft (used by the mixed-radix domain) ---------- *)
  (* log2_floor(num) = if num == 0 { 0 } else { 63 - num.leading_zeros() } *)
  Definition log2_floor (n : Z) : Z := if n =? 0 then 0 else Z.log2 n.

  (* the double loop building kth_poly_coeffs.  [col] is (a[i + c*coset_size])_{c}:
        for c in 0..num_threads { t = a[idx] * elt; coeff += t; elt *= omega_step }  *)
  Fixpoint pf_inner (col : list T) (omega_step elt acc : T) : T * T :=
    match col with
    | [] => (acc, elt)
    | x :: col' => pf_inner col' omega_step (mul elt omega_step) (add acc (mul x elt))
    end.
  (* [rows] = the num_threads consecutive blocks of a, each of coset_size elements, with the
     first i entries already consumed: a[i + c*coset_size] is the head of row c.
        for i in 0..coset_size { inner loop; elt *= omega_k }  *)
  Fixpoint pf_outer (cnt : nat) (rows : list (list T)) (omega_step omega_k elt : T) : list T :=
    match cnt with
    | O => []
    | S n =>
        let '(v, elt') := pf_inner (map (hd zero) rows) omega_step elt zero in
        v :: pf_outer n (map (@tl T) rows) omega_step omega_k (mul elt' omega_k)
    end.

  (* a[i] = tmp[i % num_cosets][i / num_cosets] *)
  Fixpoint interleave (cnt : nat) (rows : list (list T)) : list T :=
    match cnt with
    | O => []
    | S n => map (hd zero) rows ++ interleave n (map (@tl T) rows)
    end.

  Fixpoint all_some {A : Type} (l : list (option A)) : option (list A) :=
    match l with
    | [] => Some []
    | None :: _ => None
    | Some a :: t => match all_some t with Some r => Some (a :: r) | None => None end
    end.

  (* parallel_fft(a, omega, log_n, log_cpus, serial_fft); None = an assert fails or the
     sub-FFT panics *)
  Definition parallel_fft (sfft : list T -> T -> Z -> option (list T))
      (a : list T) (omega : T) (log_n log_cpus : Z) : option (list T) :=
    let m := Z.of_nat (length a) in
    let nt := 2 ^ log_cpus in
    if (log_n <? log_cpus) || negb (m mod nt =? 0) then None else
    let cs := m / nt in
    let new_omega := fpow F omega nt in
    let new_two_adicity := k_adicity 2 cs in
    let rows := chunks (Z.to_nat cs) a in
    let tmp := map (fun k =>
                      let omega_k := fpow F omega (Z.of_nat k) in
                      let omega_step := fpow F omega (Z.of_nat k * cs) in
                      sfft (pf_outer (Z.to_nat cs) rows omega_step omega_k one)
                           new_omega new_two_adicity)
                   (seq 0 (Z.to_nat nt)) in
    match all_some tmp with
    | None => None
    | Some t => Some (interleave (Z.to_nat cs) t)
    end.

  Definition best_fft (nt : Z) (sfft : list T -> T -> Z -> option (list T))
      (a : list T) (omega : T) (log_n : Z) : option (list T) :=
    let log_cpus := log2_floor nt in
    if log_n <=? log_cpus then sfft a omega log_n
    else parallel_fft sfft a omega log_n log_cpus.

  (* ---------- the domains' transforms in the parallel build ---------- *)
  (* MixedRadixEvaluationDomain::fft_in_place / ifft_in_place *)
  Definition par_mixed_fft (nt q : Z) (d : domain T) (coeffs : list T) : option (list T) :=
    let c1 := if is_one F (d_offset d) then coeffs else par_distribute_powers nt coeffs (d_offset d) in
    best_fft nt (serial_mixed_radix_fft F q) (resize F (Z.to_nat (d_size d)) c1) (d_gen d) (d_log d).
  Definition par_mixed_ifft (nt q : Z) (d : domain T) (evals : list T) : option (list T) :=
    match best_fft nt (serial_mixed_radix_fft F q) (resize F (Z.to_nat (d_size d)) evals)
                   (d_gen_inv d) (d_log d) with
    | None => None
    | Some y =>
        Some (if is_one F (d_offset d) then map (fun v => mul v (d_size_inv d)) y
              else par_distribute_powers_and_mul_by_const nt y (d_offset_inv d) (d_size_inv d))
    end.

  (* Radix2EvaluationDomain::fft_in_place (degree-aware or in-order) / ifft_in_place *)
  Definition par_degree_aware_fft (nt : Z) (k : nat) (gen offset : T) (coeffs : list T) : option (list T) :=
    let c1 := if is_one F offset then coeffs else par_distribute_powers nt coeffs offset in
    let n := Nat.pow 2 k in
    let num_coeffs := npow2 (Z.of_nat (length c1)) in
    let log_d := Z.to_nat (log2c num_coeffs) in
    if Nat.ltb k log_d then None else
    let s := (k - log_d)%nat in
    let dup := Nat.pow 2 s in
    let c2 := resize F n c1 in
    let c3 := partial_bitrev_swap F c2 num_coeffs k in
    let c4 := if Nat.ltb 1 dup then duplicate_initials F c3 dup else c3 in
    Some (par_oi k s gen c4).
  Definition par_in_order_fft (nt : Z) (k : nat) (gen offset : T) (x : list T) : list T :=
    let x1 := if is_one F offset then x else par_distribute_powers nt x offset in
    derange F (par_io k gen x1) k.
  Definition par_in_order_ifft (nt : Z) (k : nat) (gen_inv offset offset_inv size_inv : T) (x : list T) : list T :=
    let y := par_oi k 0 gen_inv (derange F x k) in
    if is_one F offset then map (fun v => mul v size_inv) y
    else par_distribute_powers_and_mul_by_const nt y offset_inv size_inv.
  Definition par_radix2_fft (nt : Z) (d : domain T) (coeffs : list T) : option (list T) :=
    let k := Z.to_nat (d_log d) in
    if Z.of_nat (length coeffs) * 4 <=? d_size d
    then par_degree_aware_fft nt k (d_gen d) (d_offset d) coeffs
    else Some (par_in_order_fft nt k (d_gen d) (d_offset d) (resize F (Z.to_nat (d_size d)) coeffs)).
  Definition par_radix2_ifft (nt : Z) (d : domain T) (evals : list T) : list T :=
    par_in_order_ifft nt (Z.to_nat (d_log d)) (d_gen_inv d) (d_offset d) (d_offset_inv d) (d_size_inv d)
      (resize F (Z.to_nat (d_size d)) evals).

  Definition par_domain_fft (nt q : Z) (d : domain T) (coeffs : list T) : option (list T) :=
    if d_mixed d then par_mixed_fft nt q d coeffs else par_radix2_fft nt d coeffs.
  Definition par_domain_ifft (nt q : Z) (d : domain T) (evals : list T) : option (list T) :=
    if d_mixed d then par_mixed_ifft nt q d evals else Some (par_radix2_ifft nt d evals).
End Par.
