(* C14 proofs, part 2: parallel_fft (coset split, twisting, sub-FFT, re-interleave) computes the
   DFT whenever the sub-FFT does; best_fft is therefore independent of the thread count. *)
From V Require Import Base.Field C07.Dft C07.Radix2 C07.MixedRadix C07.DftProofs C07.DomainProofs C14.Par C14.ParProofs.
Require Import Lia Field Ring.
Local Open Scope nat_scope.

Lemma map_seq_shift {A} (f : nat -> A) : forall n s,
  map f (seq s n) = map (fun k => f (k + s)) (seq 0 n).
Proof.
  induction n as [|n IH]; intros s; [reflexivity|].
  cbn [seq map]. f_equal. rewrite IH. rewrite <- (seq_shift n 0), map_map.
  apply map_ext. intros k. f_equal. lia.
Qed.

Lemma flat_seq {A} (f : nat -> A) (nt : nat) : forall cs,
  flat_map (fun j => map (fun k => f (k + nt * j)) (seq 0 nt)) (seq 0 cs) = map f (seq 0 (nt * cs)).
Proof.
  induction cs as [|cs IH]; [rewrite Nat.mul_0_r; reflexivity|].
  rewrite seq_S, flat_map_app, IH. cbn [flat_map Nat.add]. rewrite app_nil_r.
  replace (nt * S cs) with (nt * cs + nt) by lia.
  rewrite seq_app, map_app. f_equal. cbn [Nat.add].
  now rewrite (map_seq_shift f nt (nt * cs)).
Qed.

Lemma all_some_map {A B} (g : A -> B) : forall l,
  all_some (map (fun k => Some (g k)) l) = Some (map g l).
Proof. induction l as [|x l IH]; cbn [map all_some]; [reflexivity|]. now rewrite IH. Qed.

Lemma chunks_exact {A} (cs : nat) : 1 <= cs -> forall n (l : list A) fuel,
  length l = n * cs -> length l <= fuel ->
  length (chunks_aux fuel cs l) = n /\ Forall (fun r => length r = cs) (chunks_aux fuel cs l).
Proof.
  intros Hcs. induction n as [|n IH]; intros l fuel Hl Hf.
  - destruct l; [|cbn in Hl; lia]. rewrite chunks_aux_nil. split; [reflexivity | constructor].
  - destruct l as [|x l]; [cbn in Hl; lia|].
    destruct fuel as [|fuel]; [cbn in Hf; lia|].
    rewrite chunks_aux_cons by congruence.
    set (L := x :: l) in *.
    assert (Hsk : length (skipn cs L) = n * cs) by (rewrite skipn_length; lia).
    destruct (IH (skipn cs L) fuel Hsk) as [H1 H2]; [lia|].
    split; [cbn [length]; now rewrite H1|].
    constructor; [rewrite firstn_length; lia | exact H2].
Qed.

Section P.
  Context {T : Type} (F : Fops T).
  Hypothesis Fth : field_theory (f0 F) (f1 F) (fadd F) (fmul F) (fsub F) (fneg F) (fdiv F) (finv F) eq.
  Add Field Ff2 : Fth.
  Local Notation zero := (f0 F).
  Local Notation one := (f1 F).
  Local Notation add := (fadd F).
  Local Notation mul := (fmul F).
  Local Notation pw := (pown F).
  Local Notation ev := (eval F).

  Lemma ev_hd_tl : forall r x, ev r x = add (hd zero r) (mul x (ev (tl r) x)).
  Proof. intros [|u r] x; cbn [hd tl]; [rewrite (eval_nil F); ring | apply (eval_cons F)]. Qed.

  (* the inner loop: acc += elt * sum_c col_c step^c;  elt *= step^|col| *)
  Lemma pf_inner_spec : forall col step elt acc,
    pf_inner F col step elt acc = (add acc (mul elt (ev col step)), mul elt (pw step (length col))).
  Proof.
    induction col as [|x col IH]; intros; cbn [pf_inner length pown].
    - rewrite (eval_nil F). f_equal; ring.
    - rewrite IH, (eval_cons F). f_equal; ring.
  Qed.

  Lemma pf_outer_length : forall cnt rows step wk e, length (pf_outer F cnt rows step wk e) = cnt.
  Proof.
    induction cnt as [|n IH]; intros; cbn [pf_outer]; [reflexivity|].
    rewrite pf_inner_spec. cbn [length]. now rewrite IH.
  Qed.

  Section Outer.
    Variables (step wk y : T).
    (* sum_c step^c * row_c(wk * y) *)
    Fixpoint wsum (rows : list (list T)) : T :=
      match rows with
      | [] => zero
      | r :: rs => add (ev r (mul wk y)) (mul step (wsum rs))
      end.

    Lemma wsum_step : forall rows,
      wsum rows = add (ev (map (hd zero) rows) step) (mul (mul wk y) (wsum (map (@tl T) rows))).
    Proof.
      induction rows as [|r rs IH]; cbn [wsum map].
      - rewrite (eval_nil F). ring.
      - rewrite (eval_cons F), IH, (ev_hd_tl r). ring.
    Qed.

    Lemma wsum_nils : forall rows, Forall (fun r : list T => length r <= 0) rows -> wsum rows = zero.
    Proof.
      induction 1 as [|r rs Hr _ IH]; cbn [wsum]; [reflexivity|].
      destruct r; [|cbn in Hr; lia]. rewrite IH, (eval_nil F). ring.
    Qed.

    Lemma pf_outer_eval : forall cnt rows e,
      pw step (length rows) = one ->
      Forall (fun r : list T => length r <= cnt) rows ->
      ev (pf_outer F cnt rows step wk e) y = mul e (wsum rows).
    Proof.
      induction cnt as [|n IH]; intros rows e Hstep Hlen; cbn [pf_outer].
      - rewrite (eval_nil F), wsum_nils by assumption. ring.
      - rewrite pf_inner_spec, (eval_cons F), map_length, Hstep.
        rewrite IH.
        + rewrite (wsum_step rows). ring.
        + now rewrite map_length.
        + apply Forall_map. eapply Forall_impl; [|exact Hlen].
          intros [|u r] H; cbn [tl length] in *; lia.
    Qed.
  End Outer.

  Lemma wsum_concat : forall cs x step wk y rows,
    Forall (fun r : list T => length r = cs) rows -> step = pw x cs -> mul wk y = x ->
    wsum step wk y rows = ev (concat rows) x.
  Proof.
    intros cs x step wk y rows Hr Hs Hx. induction Hr as [|r rs Hl _ IH]; cbn [wsum concat].
    - now rewrite (eval_nil F).
    - rewrite (eval_app F Fth), IH, Hx, Hl, Hs. reflexivity.
  Qed.

  Lemma pown_pown_one : forall w m j, pw w m = one -> pw w (m * j) = one.
  Proof. intros. rewrite (pown_mul F Fth), H. apply (pown_one F Fth). Qed.

  (* the k-th coset polynomial, evaluated at (omega^nt)^j, is a evaluated at omega^(k + nt j) *)
  Lemma coset_poly_eval : forall nt cs a omega k j,
    1 <= cs -> length a = nt * cs -> pw omega (nt * cs) = one ->
    ev (pf_outer F cs (chunks cs a) (pw omega (k * cs)) (pw omega k) one) (pw (pw omega nt) j)
    = ev a (pw omega (k + nt * j)).
  Proof.
    intros nt cs a omega k j Hcs Hl Hw. unfold chunks.
    destruct (chunks_exact cs Hcs nt a (length a) Hl (le_n _)) as [Hn Hr].
    rewrite pf_outer_eval.
    - rewrite (wsum_concat cs (pw omega (k + nt * j))).
      + rewrite concat_chunks_aux by lia. ring.
      + exact Hr.
      + rewrite <- (pown_mul F Fth). replace ((k + nt * j) * cs) with (k * cs + (nt * cs) * j) by lia.
        rewrite (pown_add F Fth), (pown_pown_one omega (nt * cs) j Hw). ring.
      + rewrite <- (pown_mul F Fth), <- (pown_add F Fth). reflexivity.
    - rewrite Hn, <- (pown_mul F Fth). replace (k * cs * nt) with ((nt * cs) * k) by lia.
      now apply (pown_pown_one omega (nt * cs) k).
    - eapply Forall_impl; [|exact Hr]. intros r H. cbn beta in H. lia.
  Qed.

  (* re-interleaving: a[i] = tmp[i mod nt][i / nt] *)
  Lemma interleave_spec : forall (g : nat -> nat -> T) (ks : list nat) cnt s,
    interleave F cnt (map (fun k => map (g k) (seq s cnt)) ks) =
    flat_map (fun j => map (fun k => g k j) ks) (seq s cnt).
  Proof.
    induction cnt as [|n IH]; intros s; [reflexivity|].
    cbn [interleave seq flat_map]. rewrite !map_map. cbn [map hd tl].
    f_equal. apply IH.
  Qed.

  Theorem parallel_fft_equals_dft :
    forall (sfft : list T -> T -> Z -> option (list T)) (ntn csn : nat) a omega log_n log_cpus,
    (0 <= log_cpus <= log_n)%Z -> (2 ^ log_cpus)%Z = Z.of_nat ntn -> 1 <= csn ->
    length a = ntn * csn ->
    pw omega (ntn * csn) = one ->
    (forall x, length x = csn ->
       sfft x (pw omega ntn) (k_adicity 2 (Z.of_nat csn)) = Some (dft F csn (pw omega ntn) x)) ->
    parallel_fft F sfft a omega log_n log_cpus = Some (dft F (ntn * csn) omega a).
  Proof.
    intros sfft ntn csn a omega log_n log_cpus Hlog Hnt Hcs Hlen Hw Hs.
    assert (Hntpos : 1 <= ntn) by (assert (0 < 2 ^ log_cpus)%Z by (apply Z.pow_pos_nonneg; lia); lia).
    unfold parallel_fft. rewrite Hnt, Hlen.
    replace (log_n <? log_cpus)%Z with false by (symmetry; apply Z.ltb_ge; lia).
    rewrite Nat2Z.inj_mul, (Z.mul_comm (Z.of_nat ntn)), Z_mod_mult, Z.div_mul by lia.
    cbn [orb negb Z.eqb]. rewrite !Nat2Z.id.
    rewrite (map_ext_in _ (fun k => Some (dft F csn (pw omega ntn)
               (pf_outer F csn (chunks csn a) (pw omega (k * csn)) (pw omega k) one)))).
    2:{ intros k _. rewrite fpow_mul_nat, !(fpow_spec F Fth) by assumption.
        apply Hs. apply pf_outer_length. }
    rewrite all_some_map. f_equal.
    unfold dft at 1.
    rewrite (map_ext _ (fun k => map (fun j => ev a (pw omega (k + ntn * j))) (seq 0 csn))).
    2:{ intros k. apply map_ext. intros j. now apply coset_poly_eval. }
    rewrite (interleave_spec (fun k j => ev a (pw omega (k + ntn * j)))).
    unfold dft. apply (flat_seq (fun i => ev a (pw omega i))).
  Qed.

  (* best_fft: the switch on floor(log2 T); whenever the serial transform computes the DFT on the
     whole array and on a coset-sized array, the result is the serial one for every T *)
  Theorem best_fft_equals_serial :
    forall (sfft : list T -> T -> Z -> option (list T)) (nt : Z) (csn : nat) a omega log_n,
    let ntn := Z.to_nat (2 ^ log2_floor nt) in
    1 <= csn -> length a = ntn * csn ->
    pw omega (ntn * csn) = one ->
    sfft a omega log_n = Some (dft F (ntn * csn) omega a) ->
    (forall x, length x = csn ->
       sfft x (pw omega ntn) (k_adicity 2 (Z.of_nat csn)) = Some (dft F csn (pw omega ntn) x)) ->
    best_fft F nt sfft a omega log_n = sfft a omega log_n.
  Proof.
    intros sfft nt csn a omega log_n ntn Hcs Hlen Hw Hfull Hsub.
    unfold best_fft. destruct (log_n <=? log2_floor nt)%Z eqn:E; [reflexivity|].
    apply Z.leb_gt in E.
    assert (H0 : (0 <= log2_floor nt)%Z).
    { unfold log2_floor. destruct (nt =? 0)%Z; [lia | apply Z.log2_nonneg]. }
    rewrite Hfull. apply parallel_fft_equals_dft with (ntn := ntn) (csn := csn); try assumption.
    - lia.
    - unfold ntn. rewrite Z2Nat.id; [reflexivity | apply Z.pow_nonneg; lia].
  Qed.

  (* MixedRadixEvaluationDomain::fft_in_place / ifft_in_place in the parallel build.  The serial
     mixed-radix transform of C07 has no proved DFT specification there, so that fact is a
     premise here (for the array and for a coset-sized array). *)
  Definition mixed_serial_is_dft (q : Z) (nt : Z) (a : list T) (omega : T) (log_n : Z) (csn : nat) : Prop :=
    let ntn := Z.to_nat (2 ^ log2_floor nt) in
    1 <= csn /\ length a = ntn * csn /\ pw omega (ntn * csn) = one /\
    serial_mixed_radix_fft F q a omega log_n = Some (dft F (ntn * csn) omega a) /\
    (forall x, length x = csn ->
       serial_mixed_radix_fft F q x (pw omega ntn) (k_adicity 2 (Z.of_nat csn))
       = Some (dft F csn (pw omega ntn) x)).

  Theorem par_mixed_fft_equals_serial : forall nt q d coeffs csn,
    mixed_serial_is_dft q nt
      (resize F (Z.to_nat (d_size d))
         (if is_one F (d_offset d) then coeffs else distribute_powers F coeffs (d_offset d)))
      (d_gen d) (d_log d) csn ->
    par_mixed_fft F nt q d coeffs = mixed_fft F q d coeffs.
  Proof.
    intros nt q d coeffs csn (H1 & H2 & H3 & H4 & H5).
    unfold par_mixed_fft, mixed_fft, par_distribute_powers.
    rewrite (distribute_powers_par_equals_serial F Fth).
    fold (distribute_powers F coeffs (d_offset d)).
    now apply best_fft_equals_serial with (csn := csn).
  Qed.

  Theorem par_mixed_ifft_equals_serial : forall nt q d evals csn,
    mixed_serial_is_dft q nt (resize F (Z.to_nat (d_size d)) evals) (d_gen_inv d) (d_log d) csn ->
    par_mixed_ifft F nt q d evals = mixed_ifft F q d evals.
  Proof.
    intros nt q d evals csn (H1 & H2 & H3 & H4 & H5).
    unfold par_mixed_ifft, mixed_ifft.
    rewrite (best_fft_equals_serial _ nt csn) by assumption.
    destruct (serial_mixed_radix_fft F q _ _ _); [|reflexivity].
    now rewrite (distribute_powers_par_equals_serial F Fth).
  Qed.
End P.
