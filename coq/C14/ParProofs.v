(* C14 proofs, part 1: the chunked parallel code paths equal their serial counterparts, for
   every thread count nt, every input, over an abstract field. *)
From V Require Import Base.Field C07.Dft C07.Radix2 C07.MixedRadix C07.DftProofs C07.DomainProofs C01.Batch C01.BatchProofs C14.Par.
Require Import Lia Field Ring.
Local Open Scope nat_scope.

(* ---------- generic list / chunk lemmas ---------- *)
Lemma zipw_app {A B C} (f : A -> B -> C) : forall a b c d, length a = length c ->
  zipw f (a ++ b) (c ++ d) = zipw f a c ++ zipw f b d.
Proof.
  induction a as [|x a IH]; intros b [|y c] d H; cbn [length] in H; try discriminate; cbn [app zipw].
  - reflexivity.
  - f_equal. apply IH. lia.
Qed.

Lemma zipw_nil_l {A B C} (f : A -> B -> C) l : zipw f [] l = [].
Proof. reflexivity. Qed.

Lemma chunks_aux_nil {A} fuel m : @chunks_aux A fuel m [] = [].
Proof. destruct fuel; reflexivity. Qed.

Lemma chunks_aux_cons {A} fuel m (l : list A) : l <> [] ->
  chunks_aux (S fuel) m l = firstn m l :: chunks_aux fuel m (skipn m l).
Proof. destruct l; [congruence | reflexivity]. Qed.

Lemma firstn_short {A} m (l : list A) : length l <= m -> firstn m l = l /\ skipn m l = [].
Proof. intros. split; [apply firstn_all2 | apply skipn_all2]; assumption. Qed.

Lemma concat_chunks_aux {A} m : 1 <= m -> forall fuel (l : list A), length l <= fuel ->
  concat (chunks_aux fuel m l) = l.
Proof.
  intros Hm. induction fuel as [|f IH]; intros l Hl.
  - destruct l; [reflexivity | cbn in Hl; lia].
  - destruct l as [|x l]; [reflexivity|].
    rewrite chunks_aux_cons by congruence. cbn [concat].
    rewrite IH; [apply firstn_skipn|].
    rewrite skipn_length. cbn [length] in *. lia.
Qed.

Section P.
  Context {T : Type} (F : Fops T).
  Hypothesis Fth : field_theory (f0 F) (f1 F) (fadd F) (fmul F) (fsub F) (fneg F) (fdiv F) (finv F) eq.
  Add Field Ff : Fth.
  Local Notation zero := (f0 F).
  Local Notation one := (f1 F).
  Local Notation add := (fadd F).
  Local Notation sub := (fsub F).
  Local Notation mul := (fmul F).
  Local Notation pw := (pown F).
  Local Notation ev := (eval F).

  Lemma powers_ext : forall n g c c', c = c' -> powers F n g c = powers F n g c'.
  Proof. intros; subst; reflexivity. Qed.

  Lemma powers_app : forall n1 n2 g o,
    powers F (n1 + n2) g o = powers F n1 g o ++ powers F n2 g (mul o (pw g n1)).
  Proof.
    induction n1 as [|n1 IH]; intros; cbn [Nat.add powers app pown].
    - apply powers_ext. ring.
    - f_equal. rewrite IH. f_equal. apply powers_ext. ring.
  Qed.

  (* fpow with a product of two nat-valued Z *)
  Lemma fpow_mul_nat : forall g j m, fpow F g (Z.of_nat j * Z.of_nat m) = pw g (j * m).
  Proof. intros. rewrite <- Nat2Z.inj_mul. apply (fpow_spec F Fth). Qed.

  (* ---------- distribute_powers ---------- *)
  Lemma par_dist_chunks_spec : forall m g c, 1 <= m -> forall fuel l j, length l <= fuel ->
    par_dist_chunks F (chunks_aux fuel m l) (Z.of_nat j) (Z.of_nat m) g c =
    zipw mul l (powers F (length l) g (mul c (pw g (j * m)))).
  Proof.
    intros m g c Hm. induction fuel as [|f IH]; intros l j Hl.
    - destruct l; [reflexivity | cbn in Hl; lia].
    - destruct l as [|x l]; [reflexivity|].
      rewrite chunks_aux_cons by congruence. cbn [par_dist_chunks].
      replace (Z.of_nat j + 1)%Z with (Z.of_nat (S j)) by lia.
      rewrite IH by (rewrite skipn_length; cbn [length] in *; lia).
      rewrite fpow_mul_nat.
      set (L := x :: l) in *.
      destruct (Nat.le_gt_cases (length L) m) as [Hs|Hs].
      + destruct (firstn_short m L Hs) as [E1 E2]. rewrite E1, E2. cbn [length powers]. 
        rewrite app_nil_r. reflexivity.
      + assert (Hf : length (firstn m L) = m) by (rewrite firstn_length; lia).
        transitivity (zipw mul (firstn m L ++ skipn m L)
                        (powers F (length (firstn m L) + length (skipn m L)) g (mul c (pw g (j * m))))).
        2:{ rewrite <- app_length, firstn_skipn. reflexivity. }
        rewrite powers_app, zipw_app by (now rewrite (powers_length F Fth)).
        f_equal. f_equal. apply powers_ext. rewrite Hf.
        replace (S j * m) with (j * m + m) by lia. rewrite (pown_add F Fth). ring.
  Qed.

  Theorem distribute_powers_par_equals_serial : forall nt coeffs g c,
    par_distribute_powers_and_mul_by_const F nt coeffs g c =
    distribute_powers_and_mul_by_const F coeffs g c.
  Proof.
    intros. unfold par_distribute_powers_and_mul_by_const, distribute_powers_and_mul_by_const, chunks, elems_per_thread.
    set (sz := Z.max (Z.of_nat (length coeffs) / nt) 1024).
    assert (Hsz : (1024 <= sz)%Z) by (unfold sz; lia).
    rewrite <- (Z2Nat.id sz) at 2 by lia.
    change 0%Z with (Z.of_nat 0).
    rewrite par_dist_chunks_spec by lia.
    f_equal. apply powers_ext. cbn [Nat.mul pown]. ring.
  Qed.

  (* ---------- Horner ---------- *)
  Lemma horner_app : forall a b x,
    horner F (a ++ b) x = add (horner F a x) (mul (horner F b x) (pw x (length a))).
  Proof.
    induction a as [|u a IH]; intros; cbn [app length pown horner fold_right].
    - change (fold_right (fun coeff result => add (mul result x) coeff) zero b) with (horner F b x). ring.
    - change (fold_right (fun coeff result => add (mul result x) coeff) zero (a ++ b)) with (horner F (a ++ b) x).
      change (fold_right (fun coeff result => add (mul result x) coeff) zero a) with (horner F a x).
      rewrite IH. ring.
  Qed.

  Lemma horner_eval : forall c x, horner F c x = ev c x.
  Proof.
    induction c as [|u c IH]; intros; [reflexivity|].
    change (horner F (u :: c) x) with (add (mul (horner F c x) x) u).
    rewrite (eval_cons F), IH. ring.
  Qed.

  Lemma par_horner_chunks_spec : forall m x, 1 <= m -> forall fuel l j acc, length l <= fuel ->
    fold_left add (par_horner_chunks F (chunks_aux fuel m l) (Z.of_nat j) (Z.of_nat m) x) acc =
    add acc (mul (horner F l x) (pw x (j * m))).
  Proof.
    intros m x Hm. induction fuel as [|f IH]; intros l j acc Hl.
    - destruct l; [|cbn in Hl; lia]. cbn [chunks_aux par_horner_chunks fold_left horner fold_right]. ring.
    - destruct l as [|u l]; [cbn [chunks_aux par_horner_chunks fold_left horner fold_right]; ring|].
      rewrite chunks_aux_cons by congruence. cbn [par_horner_chunks fold_left].
      replace (Z.of_nat j + 1)%Z with (Z.of_nat (S j)) by lia.
      rewrite IH by (rewrite skipn_length; cbn [length] in *; lia).
      rewrite fpow_mul_nat.
      set (L := u :: l) in *.
      destruct (Nat.le_gt_cases (length L) m) as [Hs|Hs].
      + destruct (firstn_short m L Hs) as [E1 E2]. rewrite E1, E2.
        cbn [horner fold_right]. ring.
      + assert (Hf : length (firstn m L) = m) by (rewrite firstn_length; lia).
        rewrite <- (firstn_skipn m L) at 3. rewrite horner_app, Hf.
        replace (S j * m) with (j * m + m) by lia. rewrite (pown_add F Fth). ring.
  Qed.

  Theorem horner_par_equals_serial : forall nt coeffs x,
    par_internal_evaluate F nt coeffs x = horner F coeffs x.
  Proof.
    intros. unfold par_internal_evaluate, chunks, elems_per_thread.
    set (sz := Z.max (Z.of_nat (length coeffs) / nt) 16).
    assert (Hsz : (16 <= sz)%Z) by (unfold sz; lia).
    rewrite <- (Z2Nat.id sz) at 2 by lia.
    change 0%Z with (Z.of_nat 0).
    rewrite par_horner_chunks_spec by lia.
    cbn [Nat.mul pown]. ring.
  Qed.

  Theorem evaluate_par_equals_serial : forall nt coeffs x,
    par_evaluate F nt coeffs x = serial_evaluate F coeffs x.
  Proof. intros. unfold par_evaluate, serial_evaluate. now rewrite horner_par_equals_serial. Qed.

  (* ---------- roots of unity ---------- *)
  Lemma map_mul_powers : forall a t c0 o,
    map (fun l => mul c0 l) (powers F a t o) = powers F a t (mul c0 o).
  Proof.
    induction a as [|a IH]; intros; cbn [powers map]; [reflexivity|].
    f_equal. rewrite IH. apply powers_ext. ring.
  Qed.

  Lemma flat_map_powers : forall a t b c0,
    flat_map (fun h => map (fun l => mul h l) (powers F a t one)) (powers F b (pw t a) c0) =
    powers F (b * a) t c0.
  Proof.
    induction b as [|b IH]; intros; cbn [powers flat_map Nat.mul]; [reflexivity|].
    rewrite IH, powers_app, map_mul_powers. f_equal. apply powers_ext. ring.
  Qed.

  Lemma log_powers_length : forall n t, length (log_powers F n t) = n.
  Proof. induction n; intros; cbn [log_powers length]; auto. Qed.

  Lemma log_powers_app : forall a b t,
    log_powers F (a + b) t = log_powers F a t ++ log_powers F b (pw t (2 ^ a)).
  Proof.
    induction a as [|a IH]; intros; cbn [Nat.add log_powers app].
    - f_equal. cbn. ring.
    - f_equal. rewrite IH. f_equal. f_equal.
      rewrite (pown_sqr F Fth). f_equal.
  Qed.

  Lemma roots_rec_spec : forall fuel n t, n <= fuel ->
    roots_rec F fuel (log_powers F n t) = powers F (2 ^ n) t one.
  Proof.
    induction fuel as [|f IH]; intros n t Hn.
    - assert (n = 0) by lia. subst n. reflexivity.
    - cbn [roots_rec]. rewrite log_powers_length.
      destruct (Nat.leb n LOG_ROOTS_OF_UNITY_PARALLEL_SIZE) eqn:E.
      + destruct n; [reflexivity|]. reflexivity.
      + apply Nat.leb_gt in E. unfold LOG_ROOTS_OF_UNITY_PARALLEL_SIZE in E.
        set (k := Nat.div (n + 1) 2).
        assert (Hk : 1 <= k /\ k < n).
        { unfold k. split.
          - apply Nat.div_le_lower_bound; lia.
          - apply Nat.div_lt_upper_bound; lia. }
        assert (Hlp : log_powers F n t = log_powers F k t ++ log_powers F (n - k) (pw t (2 ^ k)))
          by (rewrite <- log_powers_app; f_equal; lia).
        rewrite Hlp.
        rewrite firstn_app, skipn_app, log_powers_length, Nat.sub_diag.
        rewrite firstn_all2, skipn_all2 by (rewrite log_powers_length; lia).
        cbn [firstn skipn app]. rewrite app_nil_r.
        rewrite !IH by lia.
        rewrite flat_map_powers. f_equal.
        rewrite <- Nat.pow_add_r. f_equal. lia.
  Qed.

  Theorem roots_recursive_spec : forall log_size root,
    par_roots_of_unity F log_size root = powers F (Nat.div (2 ^ log_size) 2) root one.
  Proof.
    intros. unfold par_roots_of_unity.
    destruct (Nat.leb log_size LOG_ROOTS_OF_UNITY_PARALLEL_SIZE) eqn:E; [reflexivity|].
    apply Nat.leb_gt in E. unfold LOG_ROOTS_OF_UNITY_PARALLEL_SIZE in E.
    rewrite log_powers_length, roots_rec_spec by lia.
    f_equal. destruct log_size as [|n]; [lia|].
    replace (S n - 1) with n by lia.
    rewrite Nat.pow_succ_r', Nat.mul_comm, Nat.div_mul by lia. reflexivity.
  Qed.

  (* ---------- batch inversion ---------- *)
  Hypothesis feqb_ok : forall a b, feqb F a b = true <-> a = b.

  Lemma fis0_spec : forall x, fis0 F x = true <-> x = zero.
  Proof. intros. unfold fis0. apply feqb_ok. Qed.

  Definition inv_or_keep (coeff : T) (f : T) : T := if fis0 F f then f else mul coeff (finv F f).

  Lemma serial_batch_spec : forall v coeff,
    serial_batch_inversion_and_mul F v coeff = map (inv_or_keep coeff) v.
  Proof.
    intros. unfold serial_batch_inversion_and_mul.
    exact (batch_inversion_and_mul_spec T zero one add mul sub (fneg F) (fdiv F) (finv F) Fth
             (fis0 F) fis0_spec v coeff).
  Qed.

  Lemma flat_map_map_concat {A B} (g : A -> B) : forall chs,
    flat_map (map g) chs = map g (concat chs).
  Proof. induction chs as [|c chs IH]; cbn [flat_map concat]; [reflexivity|]. now rewrite map_app, IH. Qed.

  Theorem batch_inv_par_spec : forall nt v coeff,
    par_batch_inversion_and_mul F nt v coeff = map (inv_or_keep coeff) v.
  Proof.
    intros. unfold par_batch_inversion_and_mul, chunks, elems_per_thread.
    set (sz := Z.max (Z.of_nat (length v) / nt) 1).
    assert (Hsz : (1 <= sz)%Z) by (unfold sz; lia).
    rewrite (flat_map_ext _ (map (inv_or_keep coeff))) by (intros; apply serial_batch_spec).
    rewrite flat_map_map_concat, concat_chunks_aux by lia. reflexivity.
  Qed.

  Theorem batch_inv_par_equals_serial : forall nt v coeff,
    par_batch_inversion_and_mul F nt v coeff = serial_batch_inversion_and_mul F v coeff.
  Proof. intros. now rewrite batch_inv_par_spec, serial_batch_spec. Qed.

  (* ---------- radix-2 transforms: parallel build = serial model of C07 ---------- *)
  Lemma par_io_eq : forall k w x, par_io F k w x = io_aux F k w x.
  Proof.
    intros [|k] w x; [reflexivity|]. unfold par_io. cbn [io_aux].
    rewrite roots_recursive_spec.
    replace (Nat.div (2 ^ S k) 2) with (2 ^ k)
      by (rewrite Nat.pow_succ_r', Nat.mul_comm, Nat.div_mul by lia; reflexivity).
    reflexivity.
  Qed.

  Lemma par_oi_eq : forall k s w x, par_oi F k s w x = oi_aux F k s w x.
  Proof.
    intros [|k] s w x; [reflexivity|]. unfold par_oi. cbn [oi_aux].
    rewrite roots_recursive_spec.
    replace (Nat.div (2 ^ S k) 2) with (2 ^ k)
      by (rewrite Nat.pow_succ_r', Nat.mul_comm, Nat.div_mul by lia; reflexivity).
    reflexivity.
  Qed.

  Theorem par_radix2_fft_equals_serial : forall nt d coeffs,
    par_radix2_fft F nt d coeffs = radix2_fft F d coeffs.
  Proof.
    intros. unfold par_radix2_fft, radix2_fft, par_degree_aware_fft, degree_aware_fft,
      par_in_order_fft, in_order_fft, par_distribute_powers, distribute_powers.
    rewrite !distribute_powers_par_equals_serial.
    destruct (Z.of_nat (length coeffs) * 4 <=? d_size d)%Z.
    - destruct (Nat.ltb _ _); [reflexivity|]. now rewrite par_oi_eq.
    - now rewrite par_io_eq.
  Qed.

  Theorem par_radix2_ifft_equals_serial : forall nt d evals,
    par_radix2_ifft F nt d evals = radix2_ifft F d evals.
  Proof.
    intros. unfold par_radix2_ifft, radix2_ifft, par_in_order_ifft, in_order_ifft.
    now rewrite par_oi_eq, distribute_powers_par_equals_serial.
  Qed.
End P.
