(* Uniform case interpreter for the C14 model.
   args: a0 = [cfg_id; T; rep]   (T = number of rayon threads; rep = repetition index, ignored)
         a1 = [p]  (field ops)  |  [p; b; r; gx; gy]  (bls12_381 G1 ops: y^2 = x^3 + b, group order r)
         a2 = FftField constants as in C07 (fft / ifft / poly_mul), else []
         a3 = small parameters   a4 = [] | [offset]   a5, a6 = data
   status: [0] ok, [1;k] error (fft: constructor None = 0, get_coset None = 1; msm: k = min length;
           batch_check: 1 = InvalidData), [2] panic *)
From V Require Import Base.Field C07.Dft C07.Radix2 C07.MixedRadix C07.Domain C03.SWModel
  C14.Par C14.Ec.

Definition ok (r : list (list Z)) : list (list Z) := [0] :: r.
Definition err (k : Z) : list (list Z) := [[1; k]].
Definition panic : list (list Z) := [[2]].
Definition unsupported : list (list Z) := [[9]].

Definition arg (n : nat) (a : list (list Z)) : list Z := nth n a [].
Definition arg0 (n : nat) (a : list (list Z)) : Z := hd 0 (arg n a).

Definition mk_cfg (p : Z) (c : list Z) : fftcfg Z :=
  let q := nth 2 c 0 in
  mkCfg (nth 0 c 0) (nth 1 c 0 mod p)
        (if q =? 0 then None else Some q)
        (if q =? 0 then None else Some (nth 3 c 0))
        (if q =? 0 then None else Some (nth 4 c 0 mod p)).

Definition new_kind (F : Fops Z) (c : fftcfg Z) (kind n : Z) : res (domain Z) :=
  match kind with
  | 0 => radix2_new F c n
  | 1 => mixed_new F c n
  | _ => general_new F c n
  end.

Definition with_domain (F : Fops Z) (p : Z) (c : fftcfg Z) (a : list (list Z))
    (f : domain Z -> list (list Z)) : list (list Z) :=
  match new_kind F c (nth 0 (arg 3 a) 0) (nth 1 (arg 3 a) 0) with
  | RNone => err 0
  | RPanic => panic
  | RSome d =>
      match arg 4 a with
      | [] => f d
      | h :: _ => match get_coset F d (h mod p) with
                  | None => err 1
                  | Some d' => f d'
                  end
      end
  end.

Definition opt_out (o : option (list Z)) : list (list Z) :=
  match o with Some l => ok [l] | None => panic end.

(* &DensePolynomial * &DensePolynomial in the parallel build (operands already trimmed by
   from_coefficients_vec): zero shortcut; GeneralEvaluationDomain of len1 + len2 - 1;
   two FFTs; pointwise product; IFFT; from_coefficients_vec *)
Definition par_poly_mul (nt : Z) (F : Fops Z) (c : fftcfg Z) (q : Z) (f g : list Z) : list (list Z) :=
  let f := trim F f in
  let g := trim F g in
  match f, g with
  | [], _ | _, [] => ok [[]]
  | _, _ =>
      match general_new F c (Z.of_nat (length f) + Z.of_nat (length g) - 1) with
      | RNone | RPanic => panic
      | RSome d =>
          match par_domain_fft F nt q d f, par_domain_fft F nt q d g with
          | Some ef, Some eg =>
              match par_domain_ifft F nt q d (zipw (fmul F) ef eg) with
              | Some h => ok [trim F h]
              | None => panic
              end
          | _, _ => panic
          end
      end
  end.

(* flat [x; y; inf; ...] <-> affine points *)
Fixpoint aff_in (p : Z) (l : list Z) (fuel : nat) : list (option (Z * Z)) :=
  match fuel with
  | O => []
  | S f => match l with
           | x :: y :: i :: t => (if i =? 0 then Some (x mod p, y mod p) else None) :: aff_in p t f
           | _ => []
           end
  end.
Definition aff_out (l : list (option (Z * Z))) : list Z :=
  flat_map (fun P => match P with Some (x, y) => [x; y; 0] | None => [0; 0; 1] end) l.
Fixpoint jac_in (p : Z) (l : list Z) (fuel : nat) : list (Z * Z * Z) :=
  match fuel with
  | O => []
  | S f => match l with
           | x :: y :: z :: t => (x mod p, y mod p, z mod p) :: jac_in p t f
           | _ => []
           end
  end.

Definition run_C14 (op : Z) (a : list (list Z)) : list (list Z) :=
  let nt := Z.max 1 (nth 1 (arg 0 a) 1) in
  let p := arg0 1 a in
  let F := ZpOps p in
  let c := mk_cfg p (arg 2 a) in
  let q := nth 2 (arg 2 a) 0 in
  let red := map (fun x => x mod p) in
  let d5 := arg 5 a in
  let d6 := arg 6 a in
  let cb := nth 1 (arg 1 a) 0 in
  let r := nth 2 (arg 1 a) 0 in
  match op with
  | 1 => ok [[nt]]
  | 2 => ok [par_distribute_powers_and_mul_by_const F nt (red d5)
               (nth 0 (arg 3 a) 0 mod p) (nth 1 (arg 3 a) 0 mod p)]
  | 3 => ok [[par_evaluate F nt (trim F (red d5)) (arg0 3 a mod p)]]
  | 4 => ok [par_batch_inversion_and_mul F nt (red d5) (arg0 3 a mod p)]
  | 5 => ok [par_batch_inversion_and_mul F nt (red d5) (f1 F)]
  | 6 => with_domain F p c a (fun d => opt_out (par_domain_fft F nt q d (red d5)))
  | 7 => with_domain F p c a (fun d => opt_out (par_domain_ifft F nt q d (red d5)))
  | 8 => par_poly_mul nt F c q (red d5) (red d6)
  | 9 => let bases := aff_in p d5 (length d5) in
         if Nat.eqb (length bases) (length d6)
         then ok [aff_out [msm_spec F 0 r bases d6]]
         else [[1; Z.of_nat (Nat.min (length bases) (length d6))]]
  | 10 => let g := hd None (aff_in p d5 3) in
          let res := aff_out (batch_mul_spec F 0 r g d6) in
          ok [res; res]
  | 11 => ok [aff_out (par_normalize_batch F nt (jac_in p d5 (length d5)))]
  | 12 => let v := aff_in p d5 (length d5) in
          if batch_check_spec F 0 cb r v then ok [aff_out v] else err 1
  | 13 => let f := Z.b2z (pairing_is_identity r d5 d6) in ok [[1; f; f]]
  | _ => unsupported
  end.
