(* Executable model of ff/src/biginteger/{mod,arithmetic}.rs, ff/src/bits.rs and the
   const helpers: a BigInt<N> is a little-endian list of N limbs.  The carry chains are
   built from the *generated* leaf functions of GenArith.v.  No proofs in this file. *)
From V Require Import Base.Word C15.GenArith.

(* ---------- carry chains ---------- *)

Fixpoint add_chain (a b : list Z) (c : Z) : list Z * Z :=
  match a, b with
  | x :: a', y :: b' =>
      let '(r, c') := adc_for_add_with_carry x y c in
      let '(rs, cf) := add_chain a' b' c' in (r :: rs, cf)
  | _, _ => ([], c)
  end.

Definition add_with_carry (a b : list Z) : list Z * bool :=
  let '(r, c) := add_chain a b 0 in (r, negb (c =? 0)).

Fixpoint sub_chain (a b : list Z) (c : Z) : list Z * Z :=
  match a, b with
  | x :: a', y :: b' =>
      let '(r, c') := sbb_for_sub_with_borrow x y c in
      let '(rs, cf) := sub_chain a' b' c' in (r :: rs, cf)
  | _, _ => ([], c)
  end.

Definition sub_with_borrow (a b : list Z) : list Z * bool :=
  let '(r, c) := sub_chain a b 0 in (r, negb (c =? 0)).

(* mul2, portable branch: tmp = a >> 63; a <<= 1; a |= last; last = tmp *)
Fixpoint mul2_chain (a : list Z) (last : Z) : list Z * Z :=
  match a with
  | [] => ([], last)
  | x :: r =>
      let tmp := Z.shiftr x 63 in
      let x' := Z.lor ((Z.shiftl x 1) mod W64) last in
      let '(rs, l) := mul2_chain r tmp in (x' :: rs, l)
  end.

Definition mul2 (a : list Z) : list Z * bool :=
  let '(r, l) := mul2_chain a 0 in (r, negb (l =? 0)).

(* div2: from the most significant limb down; returns the bit handed to the next lower limb *)
Fixpoint div2_chain (a : list Z) : list Z * Z :=
  match a with
  | [] => ([], 0)
  | x :: r =>
      let '(rs, t) := div2_chain r in
      (Z.lor (Z.shiftr x 1) t :: rs, (Z.shiftl x 63) mod W64)
  end.

Definition div2 (a : list Z) : list Z := fst (div2_chain a).

(* ---------- shifts ---------- *)

Definition zeros (n : nat) : list Z := repeat 0 n.

(* one pass of `swap(&mut t, &mut self.0[i])` for i = 0..N with t = 0 *)
Definition limbs_up (a : list Z) : list Z := removelast (0 :: a).
(* same for i = N-1..0 *)
Definition limbs_down (a : list Z) : list Z := match a with [] => [] | _ :: r => r ++ [0] end.

(* sub-limb shift left by 0 < n < 64: t2 = a >> (64-n); a <<= n; a |= t; t = t2 *)
Fixpoint shl_small (a : list Z) (n t : Z) : list Z :=
  match a with
  | [] => []
  | x :: r =>
      let t2 := Z.shiftr x (64 - n) in
      Z.lor ((Z.shiftl x n) mod W64) t :: shl_small r n t2
  end.

(* sub-limb shift right by 0 < n < 64, most significant limb first *)
Fixpoint shr_small (a : list Z) (n : Z) : list Z * Z :=
  match a with
  | [] => ([], 0)
  | x :: r =>
      let '(rs, t) := shr_small r n in
      (Z.lor (Z.shiftr x n) t :: rs, (Z.shiftl x (64 - n)) mod W64)
  end.

Definition shl (a : list Z) (n : Z) : list Z :=
  let N := length a in
  if 64 * Z.of_nat N <=? n then zeros N
  else
    let a1 := Nat.iter (Z.to_nat (n / 64)) limbs_up a in
    let k := n mod 64 in
    if 0 <? k then shl_small a1 k 0 else a1.

Definition shr (a : list Z) (n : Z) : list Z :=
  let N := length a in
  if 64 * Z.of_nat N <=? n then zeros N
  else
    let a1 := Nat.iter (Z.to_nat (n / 64)) limbs_down a in
    let k := n mod 64 in
    if 0 <? k then fst (shr_small a1 k) else a1.

(* ---------- multiplication ---------- *)

Definition is_zero (a : list Z) : bool := forallb (fun x => x =? 0) a.

(* one inner loop: r[i+j] = mac_with_carry!(r[i+j], x, ys[j], carry), j = 0..|ys| *)
Fixpoint mac_row (acc : list Z) (x : Z) (ys : list Z) (carry : Z) : list Z * Z :=
  match ys, acc with
  | y :: ys', r :: acc' =>
      let '(v, c) := mac_with_carry_m r x y carry in
      let '(rs, cf) := mac_row acc' x ys' c in (v :: rs, cf)
  | _, _ => ([], carry)
  end.

Definition set_first (c : Z) (l : list Z) : list Z :=
  match l with [] => [] | _ :: r => c :: r end.

(* r is the part of the 2N buffer from index i on; limb i is final after row i *)
Fixpoint mul_rows (xs ys r : list Z) : list Z :=
  match xs with
  | [] => r
  | x :: xs' =>
      let '(row, c) := mac_row r x ys 0 in
      let r' := row ++ set_first c (skipn (length ys) r) in
      match r' with
      | [] => []
      | lo :: rest => lo :: mul_rows xs' ys rest
      end
  end.

Definition mul (a b : list Z) : list Z * list Z :=
  let N := length a in
  if is_zero a || is_zero b then (zeros N, zeros N)
  else
    let r := mul_rows a b (zeros (N + N)) in
    (firstn N r, skipn N r).

(* mul_low: row i only touches res[i .. N), the row's carry is dropped *)
Fixpoint mul_low_rows (xs ys r : list Z) : list Z :=
  match xs with
  | [] => r
  | x :: xs' =>
      let '(row, _) := mac_row r x (firstn (length r) ys) 0 in
      match row with
      | [] => []
      | lo :: rest => lo :: mul_low_rows xs' ys rest
      end
  end.

Definition mul_low (a b : list Z) : list Z :=
  let N := length a in
  if is_zero a || is_zero b then zeros N else mul_low_rows a b (zeros N).

Definition mul_high (a b : list Z) : list Z := snd (mul a b).

(* ---------- comparison, predicates, bits ---------- *)

Fixpoint cmp (a b : list Z) : comparison :=
  match a, b with
  | x :: a', y :: b' => match cmp a' b' with Eq => Z.compare x y | c => c end
  | _, _ => Eq
  end.

Definition is_odd (a : list Z) : bool := Z.land (hd 0 a) 1 =? 1.
Definition is_even (a : list Z) : bool := negb (is_odd a).

(* 64 - leading_zeros(x) *)
Definition bitlen (x : Z) : Z := if x =? 0 then 0 else Z.log2 x + 1.

Fixpoint num_bits (a : list Z) : Z :=
  match a with
  | [] => 0
  | x :: r => let h := num_bits r in
              if h =? 0 then bitlen x else 64 + h
  end.

Definition limb_bit (a : list Z) (i : Z) : bool :=
  let limb := i / 64 in
  let bit := i - 64 * limb in
  negb (Z.land (nth (Z.to_nat limb) a 0) (Z.shiftl 1 bit) =? 0).

Definition get_bit (a : list Z) (i : Z) : bool :=
  if 64 * Z.of_nat (length a) <=? i then false else limb_bit a i.

Fixpoint chunks (fuel : nat) (k : nat) (l : list Z) : list (list Z) :=
  match fuel with
  | O => []
  | S f => match l with [] => [] | _ => firstn k l :: chunks f k (skipn k l) end
  end.

(* res_i |= bit << i over one chunk *)
Fixpoint pack_bits (bits : list Z) (i : Z) (acc : Z) : Z :=
  match bits with
  | [] => acc
  | b :: r => pack_bits r (i + 1) (Z.lor acc ((Z.shiftl b i) mod W64))
  end.

Fixpoint zip_pack (cs : list (list Z)) (res : list Z) : list Z :=
  match res with
  | [] => []
  | r0 :: res' =>
      match cs with
      | [] => res
      | c :: cs' => pack_bits c 0 r0 :: zip_pack cs' res'
      end
  end.

Definition from_bits_le (N : nat) (bits : list Z) : list Z :=
  zip_pack (chunks (S (length bits)) 64 bits) (zeros N).
Definition from_bits_be (N : nat) (bits : list Z) : list Z := from_bits_le N (rev bits).

Definition to_bits_le (a : list Z) : list Z :=
  map (fun i => Z.b2z (limb_bit a (Z.of_nat i))) (seq 0 (64 * length a)).
Definition to_bits_be (a : list Z) : list Z := rev (to_bits_le a).

Fixpoint skip_zeros (l : list Z) : list Z :=
  match l with
  | [] => []
  | b :: r => if b =? 0 then skip_zeros r else l
  end.
Definition bits_be_nlz (a : list Z) : list Z := skip_zeros (to_bits_be a).
Definition bits_le_ntz (a : list Z) : list Z := firstn (Z.to_nat (num_bits a)) (to_bits_le a).

Definition le_bytes (x : Z) : list Z :=
  map (fun i => (Z.shiftr x (8 * Z.of_nat i)) mod 256) (seq 0 8).
Definition to_bytes_le (a : list Z) : list Z := flat_map le_bytes a.
Definition to_bytes_be (a : list Z) : list Z := rev (to_bytes_le a).

(* ---------- conversions through num-bigint (modelled: arbitrary-precision Z) ---------- *)

Fixpoint limbs_of (N : nat) (v : Z) : list Z :=
  match N with O => [] | S n => v mod W64 :: limbs_of n (v / W64) end.

(* minimal little-endian byte length, 1 for zero (BigUint::to_bytes_le) *)
Definition byte_len (v : Z) : Z := if v =? 0 then 1 else (Z.log2 v) / 8 + 1.

Definition try_from_biguint (N : nat) (v : Z) : option (list Z) :=
  if 8 * Z.of_nat N <? byte_len v then None else Some (limbs_of N v).

(* BigUint::from_str: optional single '+', non-empty, not starting with '_',
   decimal digits, '_' ignored *)
Fixpoint parse_digits (s : list Z) (acc : Z) : option Z :=
  match s with
  | [] => Some acc
  | c :: r => if c =? 95 then parse_digits r acc
              else if (48 <=? c) && (c <=? 57) then parse_digits r (10 * acc + (c - 48))
              else None
  end.

Definition parse_decimal (s : list Z) : option Z :=
  let s1 := match s with
            | 43 :: (43 :: _) => s
            | 43 :: t => t
            | _ => s
            end in
  match s1 with
  | [] => None
  | c :: _ => if c =? 95 then None else parse_digits s1 0
  end.

Definition from_str (N : nat) (s : list Z) : option (list Z) :=
  match parse_decimal s with
  | None => None
  | Some v => try_from_biguint N v
  end.

Fixpoint print_digits (fuel : nat) (v : Z) (acc : list Z) : list Z :=
  match fuel with
  | O => acc
  | S f => if v <? 10 then (48 + v) :: acc
           else print_digits f (v / 10) ((48 + v mod 10) :: acc)
  end.
Definition display (a : list Z) : list Z :=
  print_digits (S (Z.to_nat (Z.log2 (val a + 1)))) (val a) [].

(* ---------- bitwise ---------- *)

Fixpoint map2 (f : Z -> Z -> Z) (a b : list Z) : list Z :=
  match a, b with x :: a', y :: b' => f x y :: map2 f a' b' | _, _ => [] end.
Definition not64 (x : Z) : Z := W64 - 1 - x.

(* ---------- signed-digit recodings ---------- *)

(* after the fix: t - modulus computed without i64 overflow *)
Definition signed_mod_reduction (n m : Z) : Z :=
  let t := n mod m in if m / 2 <=? t then t - m else t.

Definition from_u64 (N : nat) (v : Z) : list Z :=
  match N with O => [] | S n => v :: zeros n end.

(* set the top bit of the top limb *)
Fixpoint set_top_bit (a : list Z) : list Z :=
  match a with
  | [] => []
  | [x] => [Z.lor x (Z.shiftl 1 63)]
  | x :: r => x :: set_top_bit r
  end.

Fixpoint wnaf_loop (fuel : nat) (w : Z) (e : list Z) : option (list Z) :=
  match fuel with
  | O => None
  | S f =>
      if is_zero e then Some []
      else
        let N := length e in
        let '(z, e1, carry) :=
          if is_odd e then
            let z := signed_mod_reduction (hd 0 e) (Z.shiftl 1 w) in
            if 0 <=? z then (z, fst (sub_with_borrow e (from_u64 N z)), false)
            else let '(r, c) := add_with_carry e (from_u64 N (- z)) in (z, r, c)
          else (0, e, false) in
        let e2 := div2 e1 in
        let e3 := if carry then set_top_bit e2 else e2 in
        match wnaf_loop f w e3 with
        | None => None
        | Some ds => Some (z :: ds)
        end
  end.

(* Some digits | None when w is outside 2..63; fuel exhaustion is reported separately *)
Inductive wnaf_result := WnafNone | WnafDigits (d : list Z) | WnafOutOfFuel.

Definition find_wnaf (a : list Z) (w : Z) : wnaf_result :=
  if (2 <=? w) && (w <? 64) then
    match wnaf_loop (64 * length a + 2) w a with
    | Some d => WnafDigits d
    | None => WnafOutOfFuel
    end
  else WnafNone.

(* arithmetic::find_naf on a limb slice: z = 2 - (num[0] % 4) *)
Fixpoint adc_chain (a b : list Z) (c : Z) : list Z * Z :=
  match a, b with
  | x :: a', y :: b' =>
      let '(r, c') := adc x y c in
      let '(rs, cf) := adc_chain a' b' c' in (r :: rs, cf)
  | _, _ => ([], c)
  end.
Fixpoint sbb_chain (a b : list Z) (c : Z) : list Z * Z :=
  match a, b with
  | x :: a', y :: b' =>
      let '(r, c') := sbb x y c in
      let '(rs, cf) := sbb_chain a' b' c' in (r :: rs, cf)
  | _, _ => ([], c)
  end.
(* zip(once(z).chain(repeat(0))).fold(0, adc) *)
Definition add_small (a : list Z) (z : Z) : list Z * Z := adc_chain a (from_u64 (length a) z) 0.
Definition sub_small (a : list Z) (z : Z) : list Z := fst (sbb_chain a (from_u64 (length a) z) 0).

(* the closure `div2` of find_naf: next_carry = x << 63; x = (x >> 1) | carry *)
Definition naf_div2 (a : list Z) : list Z := div2 a.

Fixpoint naf_loop (fuel : nat) (num : list Z) : option (list Z) :=
  match fuel with
  | O => None
  | S f =>
      if is_zero num then Some []
      else
        let '(z, n1, carry) :=
          if Z.land (hd 0 num) 1 =? 1 then
            let z := 2 - (hd 0 num) mod 4 in
            if 0 <=? z then (z, sub_small num z, 0)
            else let '(r, c) := add_small num (- z) in (z, r, c)
          else (0, num, 0) in
        let n2 := naf_div2 n1 in
        let n3 := if carry =? 0 then n2 else set_top_bit n2 in
        match naf_loop f n3 with
        | None => None
        | Some ds => Some (z :: ds)
        end
  end.

Definition find_naf (num : list Z) : option (list Z) := naf_loop (64 * length num + 2) num.

(* relaxed NAF: ... 0 -1 0 1  ->  ... 0 1 1 (top), guarded for short inputs *)
Definition find_relaxed_naf (num : list Z) : option (list Z) :=
  match find_naf num with
  | None => None
  | Some res =>
      let len := length res in
      if (3 <=? len)%nat then
        if (nth (len - 2) res 0 =? 0) && (nth (len - 3) res 0 =? -1) then
          Some (firstn (len - 3) res ++ [1; 1])
        else Some res
      else Some res
  end.

(* ---------- const helpers ---------- *)

Definition const_shr (a : list Z) : list Z := div2 a.
Definition mod_4 (a : list Z) : Z := (Z.shiftr ((Z.shiftl (hd 0 a) 62) mod W64) 62) mod 4.
Definition const_is_even (a : list Z) : bool := (hd 0 a) mod 2 =? 0.

Definition dec_first (a : list Z) : list Z := match a with [] => [] | x :: r => (x - 1) :: r end.

Fixpoint two_adic_loop (fuel : nat) (a : list Z) (s : Z) : option (Z * list Z) :=
  match fuel with
  | O => None
  | S f => if const_is_even a then two_adic_loop f (const_shr a) (s + 1) else Some (s, a)
  end.

(* (valuation, coefficient) of an odd value > 1; None = assertion failure / non-termination *)
Definition two_adic (a : list Z) : option (Z * list Z) :=
  if const_is_even a then None
  else two_adic_loop (64 * length a + 1) (dec_first a) 0.

Definition divide_by_2_round_down (a : list Z) : list Z :=
  const_shr (if const_is_even a then a else dec_first a).

Definition const_num_bits (a : list Z) : Z :=
  (Z.of_nat (length a) - 1) * 64 + bitlen (last a 0).

(* const_geq, most significant limb first *)
Definition const_geq (a b : list Z) : bool :=
  match cmp a b with Lt => false | _ => true end.

(* const_modulo!: base-2 long division of a value given by its bit function *)
Fixpoint const_modulo_loop (bit : nat -> bool) (i : nat) (rem d : list Z) : option (list Z) :=
  (* processes bits i-1, i-2, ..., 0 *)
  match i with
  | O => Some rem
  | S j =>
      let '(r1, carry) := mul2 rem in
      let r2 := match r1 with [] => [] | x :: t => Z.lor x (Z.b2z (bit j)) :: t end in
      if const_geq r2 d || carry then
        let '(r3, borrow) := sub_with_borrow r2 d in
        if Bool.eqb borrow carry then const_modulo_loop bit j r3 d else None
      else const_modulo_loop bit j r2 d
  end.

(* RBuffer([0;N],1) = 2^(64N): num_bits = 64N+1, only the top bit set *)
Definition montgomery_r (m : list Z) : option (list Z) :=
  let N := length m in
  if is_zero m then None
  else const_modulo_loop (fun i => Nat.eqb i (64 * N)) (64 * N + 1) (zeros N) m.

Definition montgomery_r2 (m : list Z) : option (list Z) :=
  let N := length m in
  if is_zero m then None
  else const_modulo_loop (fun i => Nat.eqb i (128 * N)) (128 * N + 1) (zeros N) m.
