(* Theorems about the limb-level model, for every limb count (= list length). *)
From V Require Import Base.Word C15.GenArith C15.LeafSpecs C15.BigIntModel.

Local Ltac unf := unfold u64, W64 in *.

(* ---------- add / sub chains ---------- *)

Lemma add_chain_spec : forall a b c, wf a -> wf b -> length a = length b -> 0 <= c <= 1 ->
  let '(r, cf) := add_chain a b c in
  wf r /\ length r = length a /\ 0 <= cf <= 1 /\
  val r + Wn (length a) * cf = val a + val b + c.
Proof.
  induction a as [|x a IH]; intros [|y b] c Ha Hb Hl Hc; try discriminate.
  - cbn [add_chain val length]. rewrite Wn_0. repeat split; try constructor; lia.
  - apply wf_cons in Ha as [Hx Ha]. apply wf_cons in Hb as [Hy Hb]. injection Hl as Hl.
    cbn [add_chain]. rewrite adc_for_add_with_carry_spec by auto.
    pose proof (adc_carry_bit x y c Hx Hy Hc) as Hc'.
    specialize (IH b ((x + y + c) / W64) Ha Hb Hl Hc').
    destruct (add_chain a b ((x + y + c) / W64)) as [rs cf].
    destruct IH as (Hw & Hlen & Hcf & Heq).
    repeat split; try lia.
    + apply wf_cons. split; [apply mod_u64 | exact Hw].
    + cbn [length]. lia.
    + cbn [val length]. rewrite Wn_S. pose proof (divmod_eq (x + y + c)). nia.
Qed.

Theorem add_with_carry_spec : forall a b, wf a -> wf b -> length a = length b ->
  let '(r, c) := add_with_carry a b in
  wf r /\ length r = length a /\ val r + Wn (length a) * Z.b2z c = val a + val b.
Proof.
  intros a b Ha Hb Hl. unfold add_with_carry.
  pose proof (add_chain_spec a b 0 Ha Hb Hl ltac:(lia)) as H.
  destruct (add_chain a b 0) as [r c]. destruct H as (Hw & Hlen & Hc & Heq).
  repeat split; auto. assert (c = 0 \/ c = 1) as [-> | ->] by lia; cbn; lia.
Qed.

(* the carry is exactly the lost 2^(64N) *)
Corollary add_with_carry_mod : forall a b, wf a -> wf b -> length a = length b ->
  val (fst (add_with_carry a b)) = (val a + val b) mod Wn (length a) /\
  snd (add_with_carry a b) = (Wn (length a) <=? val a + val b).
Proof.
  intros a b Ha Hb Hl. pose proof (add_with_carry_spec a b Ha Hb Hl) as H.
  destruct (add_with_carry a b) as [r c]. destruct H as (Hw & Hlen & Heq). cbn [fst snd].
  pose proof (val_bound r Hw) as Hr. rewrite Hlen in Hr. pose proof (Wn_pos (length a)) as HW.
  destruct c; cbn [Z.b2z] in Heq.
  - split.
    + symmetry. replace (val a + val b) with (val r + 1 * Wn (length a)) by lia.
      rewrite Z.mod_add by lia. apply Z.mod_small; lia.
    + symmetry. apply Z.leb_le. lia.
  - split.
    + symmetry. replace (val a + val b) with (val r) by lia. apply Z.mod_small; lia.
    + symmetry. apply Z.leb_gt. lia.
Qed.

Lemma sub_chain_spec : forall a b c, wf a -> wf b -> length a = length b -> 0 <= c <= 1 ->
  let '(r, cf) := sub_chain a b c in
  wf r /\ length r = length a /\ 0 <= cf <= 1 /\
  val r - Wn (length a) * cf = val a - val b - c.
Proof.
  induction a as [|x a IH]; intros [|y b] c Ha Hb Hl Hc; try discriminate.
  - cbn [sub_chain val length]. rewrite Wn_0. repeat split; try constructor; lia.
  - apply wf_cons in Ha as [Hx Ha]. apply wf_cons in Hb as [Hy Hb]. injection Hl as Hl.
    cbn [sub_chain]. rewrite sbb_for_sub_with_borrow_spec by auto.
    destruct (borrow_eq x y c Hx Hy Hc) as [Hbe Hb01].
    specialize (IH b (borrow_of x y c) Ha Hb Hl Hb01).
    destruct (sub_chain a b (borrow_of x y c)) as [rs cf].
    destruct IH as (Hw & Hlen & Hcf & Heq).
    repeat split; try lia.
    + apply wf_cons. split; [apply mod_u64 | exact Hw].
    + cbn [length]. lia.
    + cbn [val length]. rewrite Wn_S. nia.
Qed.

Theorem sub_with_borrow_spec : forall a b, wf a -> wf b -> length a = length b ->
  let '(r, c) := sub_with_borrow a b in
  wf r /\ length r = length a /\ val r - Wn (length a) * Z.b2z c = val a - val b.
Proof.
  intros a b Ha Hb Hl. unfold sub_with_borrow.
  pose proof (sub_chain_spec a b 0 Ha Hb Hl ltac:(lia)) as H.
  destruct (sub_chain a b 0) as [r c]. destruct H as (Hw & Hlen & Hc & Heq).
  repeat split; auto. assert (c = 0 \/ c = 1) as [-> | ->] by lia; cbn; lia.
Qed.

Corollary sub_with_borrow_mod : forall a b, wf a -> wf b -> length a = length b ->
  val (fst (sub_with_borrow a b)) = (val a - val b) mod Wn (length a) /\
  snd (sub_with_borrow a b) = (val a <? val b).
Proof.
  intros a b Ha Hb Hl. pose proof (sub_with_borrow_spec a b Ha Hb Hl) as H.
  destruct (sub_with_borrow a b) as [r c]. destruct H as (Hw & Hlen & Heq). cbn [fst snd].
  pose proof (val_bound r Hw) as Hr. rewrite Hlen in Hr. pose proof (Wn_pos (length a)) as HW.
  destruct c; cbn [Z.b2z] in Heq.
  - split.
    + symmetry. replace (val a - val b) with (val r + (-1) * Wn (length a)) by lia.
      rewrite Z.mod_add by lia. apply Z.mod_small; lia.
    + symmetry. apply Z.ltb_lt. lia.
  - split.
    + symmetry. replace (val a - val b) with (val r) by lia. apply Z.mod_small; lia.
    + symmetry. apply Z.ltb_ge. lia.
Qed.

(* ---------- comparison ---------- *)

Theorem cmp_spec : forall a b, wf a -> wf b -> length a = length b ->
  cmp a b = Z.compare (val a) (val b).
Proof.
  induction a as [|x a IH]; intros [|y b] Ha Hb Hl; try discriminate; [reflexivity|].
  apply wf_cons in Ha as [Hx Ha]. apply wf_cons in Hb as [Hy Hb]. injection Hl as Hl.
  cbn [cmp val]. rewrite (IH b Ha Hb Hl). unf.
  destruct (Z.compare_spec (val a) (val b)) as [He|Hlt|Hgt].
  - rewrite He. destruct (Z.compare_spec x y); symmetry;
      [apply Z.compare_eq_iff | apply Z.compare_lt_iff | apply Z.compare_gt_iff]; lia.
  - symmetry. apply Z.compare_lt_iff. lia.
  - symmetry. apply Z.compare_gt_iff. lia.
Qed.

(* ---------- is_zero ---------- *)

Theorem is_zero_spec : forall a, wf a -> is_zero a = (val a =? 0).
Proof.
  induction a as [|x a IH]; intros Ha; [reflexivity|].
  apply wf_cons in Ha as [Hx Ha]. cbn [is_zero forallb val]. fold (is_zero a).
  rewrite (IH Ha). pose proof (val_bound a Ha) as Hb. pose proof W64_pos as HW. unfold u64 in Hx.
  destruct (Z.eqb_spec x 0) as [Hx0|Hx0], (Z.eqb_spec (val a) 0) as [Hv|Hv]; cbn [andb]; symmetry.
  - apply Z.eqb_eq. nia.
  - apply Z.eqb_neq. nia.
  - apply Z.eqb_neq. nia.
  - apply Z.eqb_neq. nia.
Qed.
