(* num_bits, get_bit, bit and byte conversions of the limb-level model, every limb count. *)
From V Require Import Base.Word C15.GenArith C15.LeafSpecs C15.BigIntModel C15.BigIntProofs
  C15.ShiftProofs C15.MulProofs.

(* ---------- single bits ---------- *)

Lemma land_pow2 x b : 0 <= b -> Z.land x (2 ^ b) = if Z.testbit x b then 2 ^ b else 0.
Proof.
  intros Hb. apply Z.bits_inj'. intros n Hn. rewrite Z.land_spec, Z.pow2_bits_eqb by lia.
  destruct (Z.eqb_spec b n) as [->|Hne].
  - destruct (Z.testbit x n); [rewrite Z.pow2_bits_eqb, Z.eqb_refl by lia | rewrite Z.bits_0]; reflexivity.
  - rewrite andb_false_r. destruct (Z.testbit x b); [|rewrite Z.bits_0; reflexivity].
    rewrite Z.pow2_bits_eqb by lia. symmetry. apply Z.eqb_neq. exact Hne.
Qed.

Lemma testbit_above v k i : 0 <= v < 2 ^ k -> 0 <= k <= i -> Z.testbit v i = false.
Proof.
  intros Hv Hk. destruct (Z.eq_dec v 0) as [->|Hv0]; [apply Z.bits_0|].
  apply Z.bits_above_log2; [lia|]. apply Z.log2_lt_pow2; [lia|].
  assert (2 ^ k <= 2 ^ i) by (apply Z.pow_le_mono_r; lia). lia.
Qed.

Lemma limb_bit_spec a i : 0 <= i ->
  limb_bit a i = Z.testbit (nth (Z.to_nat (i / 64)) a 0) (i mod 64).
Proof.
  intros Hi. unfold limb_bit. rewrite <- Z.mod_eq by lia.
  pose proof (Z.mod_pos_bound i 64 ltac:(lia)) as Hb.
  rewrite Z.shiftl_1_l, land_pow2 by lia.
  destruct (Z.testbit _ (i mod 64)); [|reflexivity].
  pose proof (pow2_gt0 (i mod 64) ltac:(lia)).
  destruct (Z.eqb_spec (2 ^ (i mod 64)) 0); [lia | reflexivity].
Qed.

Lemma val_testbit : forall a i, wf a -> 0 <= i ->
  Z.testbit (val a) i = Z.testbit (nth (Z.to_nat (i / 64)) a 0) (i mod 64).
Proof.
  induction a as [|x a IH]; intros i Ha Hi.
  - cbn [val]. destruct (Z.to_nat (i / 64)); cbn [nth]; rewrite !Z.bits_0; reflexivity.
  - apply wf_cons in Ha as [Hx Ha]. cbn [val]. unfold u64 in Hx. rewrite <- W64_eq in Hx.
    replace (x + W64 * val a) with (val a * 2 ^ 64 + x) by (rewrite W64_eq; ring).
    rewrite <- lor_shifted by lia. rewrite Z.lor_spec.
    destruct (Z.lt_ge_cases i 64) as [Hlt|Hge].
    + rewrite Z.mul_pow2_bits_low by lia. rewrite Z.div_small, Z.mod_small by lia.
      reflexivity.
    + rewrite (testbit_above x 64 i) by lia. rewrite orb_false_r.
      rewrite Z.mul_pow2_bits by lia. rewrite IH by (auto; lia).
      replace (i - 64) with (i + (-1) * 64) by ring.
      rewrite Z.div_add, Z.mod_add by lia.
      assert (1 <= i / 64) by (apply Z.div_le_lower_bound; lia).
      replace (Z.to_nat (i / 64)) with (S (Z.to_nat (i / 64 + -1))) by lia.
      reflexivity.
Qed.

Theorem get_bit_spec : forall a i, wf a -> 0 <= i -> get_bit a i = Z.testbit (val a) i.
Proof.
  intros a i Ha Hi. unfold get_bit.
  destruct (Z.leb_spec (64 * Z.of_nat (length a)) i) as [Hge|Hlt].
  - symmetry. pose proof (val_bound a Ha) as Hb. rewrite Wn_pow2 in Hb.
    apply (testbit_above _ (64 * Z.of_nat (length a))); lia.
  - rewrite limb_bit_spec, val_testbit by auto. reflexivity.
Qed.

Corollary get_bit_beyond : forall a i, 64 * Z.of_nat (length a) <= i -> get_bit a i = false.
Proof. intros a i H. unfold get_bit. destruct (Z.leb_spec (64 * Z.of_nat (length a)) i); [reflexivity | lia]. Qed.

(* ---------- num_bits ---------- *)

Definition bit_length (v : Z) : Z := if v =? 0 then 0 else Z.log2 v + 1.

Theorem num_bits_spec : forall a, wf a -> num_bits a = bit_length (val a).
Proof.
  induction a as [|x a IH]; intros Ha; [reflexivity|].
  apply wf_cons in Ha as [Hx Ha]. cbn [num_bits val]. rewrite (IH Ha).
  pose proof (val_bound a Ha) as Hb. unfold u64 in Hx. pose proof W64_pos as HW.
  destruct (Z.eq_dec (val a) 0) as [Hv0|Hv0].
  - rewrite Hv0. replace (x + W64 * 0) with x by lia. unfold bit_length at 1. cbn [Z.eqb]. reflexivity.
  - pose proof (Z.log2_nonneg (val a)) as Hl. unfold bit_length at 1 2.
    destruct (Z.eqb_spec (val a) 0) as [|_]; [lia|].
    destruct (Z.eqb_spec (Z.log2 (val a) + 1) 0) as [|_]; [lia|].
    unfold bit_length. destruct (Z.eqb_spec (x + W64 * val a) 0) as [|_]; [nia|].
    assert (Hlog : Z.log2 (x + W64 * val a) = 64 + Z.log2 (val a)).
    { apply Z.log2_unique; [lia|].
      pose proof (Z.log2_spec (val a) ltac:(lia)) as Hs. unfold Z.succ in *.
      replace (64 + Z.log2 (val a) + 1) with (64 + (Z.log2 (val a) + 1)) by ring.
      rewrite !(Z.pow_add_r 2 64) by lia. rewrite W64_eq.
      set (p := 2 ^ Z.log2 (val a)) in *. set (p' := 2 ^ (Z.log2 (val a) + 1)) in *.
      assert (W64 * (val a + 1) <= W64 * p') by (apply Z.mul_le_mono_nonneg_l; lia).
      assert (W64 * p <= W64 * val a) by (apply Z.mul_le_mono_nonneg_l; lia). lia. }
    rewrite Hlog. ring.
Qed.

(* ---------- little-endian digit strings in base 2^k ---------- *)

Fixpoint dval (k : Z) (l : list Z) : Z :=
  match l with [] => 0 | d :: r => d + 2 ^ k * dval k r end.

Lemma dval_app k l1 l2 : 0 <= k ->
  dval k (l1 ++ l2) = dval k l1 + 2 ^ (k * Z.of_nat (length l1)) * dval k l2.
Proof.
  intros Hk. induction l1 as [|d l1 IH]; cbn [app dval length].
  - rewrite Z.mul_0_r. change (2 ^ 0) with 1. lia.
  - rewrite IH. rewrite Nat2Z.inj_succ. replace (k * Z.succ (Z.of_nat (length l1))) with (k + k * Z.of_nat (length l1)) by lia.
    rewrite Z.pow_add_r by lia. ring.
Qed.

(* the base-2^k digits of v, positions s .. s+n-1 *)
Lemma digits_val : forall k v n s, 0 < k -> 0 <= v ->
  dval k (map (fun i => (v / 2 ^ (k * Z.of_nat i)) mod 2 ^ k) (seq s n))
  = (v / 2 ^ (k * Z.of_nat s)) mod 2 ^ (k * Z.of_nat n).
Proof.
  intros k v n. induction n as [|n IH]; intros s Hk Hv.
  - cbn [seq map dval]. rewrite Z.mul_0_r. change (2 ^ 0) with 1. rewrite Z.mod_1_r. reflexivity.
  - cbn [seq map dval]. rewrite IH by auto.
    pose proof (pow2_gt0 k ltac:(lia)) as HB.
    pose proof (pow2_gt0 (k * Z.of_nat s) ltac:(lia)) as HS.
    pose proof (pow2_gt0 (k * Z.of_nat n) ltac:(lia)) as HN.
    replace (k * Z.of_nat (S s)) with (k * Z.of_nat s + k) by lia.
    replace (k * Z.of_nat (S n)) with (k + k * Z.of_nat n) by lia.
    rewrite !Z.pow_add_r by lia. rewrite <- Z.div_div by lia.
    set (u := v / 2 ^ (k * Z.of_nat s)). set (B := 2 ^ k) in *. set (M := 2 ^ (k * Z.of_nat n)) in *.
    apply Z.mod_unique with (q := (u / B) / M).
    + left. pose proof (Z.mod_pos_bound u B HB). pose proof (Z.mod_pos_bound (u / B) M HN). nia.
    + pose proof (Z.div_mod u B ltac:(lia)). pose proof (Z.div_mod (u / B) M ltac:(lia)). nia.
Qed.

Definition is_bit (b : Z) : Prop := b = 0 \/ b = 1.

Lemma dval_bound k l : 0 < k -> Forall (fun d => 0 <= d < 2 ^ k) l ->
  0 <= dval k l < 2 ^ (k * Z.of_nat (length l)).
Proof.
  intros Hk H. induction H as [|d l Hd Hl IH]; cbn [dval length].
  - rewrite Z.mul_0_r. change (2 ^ 0) with 1. lia.
  - replace (k * Z.of_nat (S (length l))) with (k + k * Z.of_nat (length l)) by lia.
    rewrite Z.pow_add_r by lia. pose proof (pow2_gt0 k ltac:(lia)). nia.
Qed.

Lemma dval_inj k : 0 < k -> forall l1 l2, Forall (fun d => 0 <= d < 2 ^ k) l1 -> Forall (fun d => 0 <= d < 2 ^ k) l2 ->
  length l1 = length l2 -> dval k l1 = dval k l2 -> l1 = l2.
Proof.
  intros Hk. induction l1 as [|d l1 IH]; intros [|e l2] H1 H2 Hl Hv; try discriminate; auto.
  inversion H1 as [|? ? Hd H1']; subst. inversion H2 as [|? ? He H2']; subst.
  cbn [dval] in Hv. injection Hl as Hl. pose proof (pow2_gt0 k ltac:(lia)).
  assert (Hd' : d = (d + 2 ^ k * dval k l1) mod 2 ^ k)
    by (apply Z.mod_unique with (q := dval k l1); [left; lia | ring]).
  assert (He' : e = (e + 2 ^ k * dval k l2) mod 2 ^ k)
    by (apply Z.mod_unique with (q := dval k l2); [left; lia | ring]).
  rewrite Hv, <- He' in Hd'. subst e. f_equal. apply IH; auto.
  apply (Z.mul_reg_l _ _ (2 ^ k)); lia.
Qed.

(* ---------- to_bits ---------- *)

Lemma to_bits_le_eq a : wf a ->
  to_bits_le a = map (fun i => (val a / 2 ^ (1 * Z.of_nat i)) mod 2 ^ 1) (seq 0 (64 * length a)).
Proof.
  intros Ha. unfold to_bits_le. apply map_ext_in. intros i _.
  rewrite limb_bit_spec, <- val_testbit by (auto; lia).
  rewrite Z.testbit_spec' by lia. rewrite Z.mul_1_l. reflexivity.
Qed.

Lemma nth_map_seq {A} (f : nat -> A) n i d : (i < n)%nat -> nth i (map f (seq 0 n)) d = f i.
Proof.
  intros. rewrite (nth_indep _ d (f O)) by (rewrite map_length, seq_length; lia).
  rewrite map_nth, seq_nth by lia. reflexivity.
Qed.

Theorem to_bits_le_spec : forall a, wf a ->
  length (to_bits_le a) = (64 * length a)%nat /\ Forall is_bit (to_bits_le a) /\
  dval 1 (to_bits_le a) = val a /\
  forall i, (i < 64 * length a)%nat -> nth i (to_bits_le a) 0 = Z.b2z (Z.testbit (val a) (Z.of_nat i)).
Proof.
  intros a Ha. pose proof (val_bound a Ha) as Hb. repeat split.
  - unfold to_bits_le. rewrite map_length, seq_length. reflexivity.
  - unfold to_bits_le. apply Forall_forall. intros b Hin. apply in_map_iff in Hin as (i & <- & _).
    unfold is_bit. destruct (limb_bit a (Z.of_nat i)); cbn; auto.
  - rewrite to_bits_le_eq by auto. rewrite digits_val by lia.
    cbn [Z.of_nat]. rewrite Z.mul_0_r. change (2 ^ 0) with 1. rewrite Z.div_1_r.
    apply Z.mod_small. rewrite Wn_pow2 in Hb.
    replace (1 * Z.of_nat (64 * length a)) with (64 * Z.of_nat (length a)) by lia. exact Hb.
  - intros i Hi. unfold to_bits_le.
    rewrite nth_map_seq by lia.
      rewrite limb_bit_spec, <- val_testbit by (auto; lia). reflexivity.
Qed.

(* ---------- from_bits ---------- *)

Lemma pack_bits_spec : forall c i acc, Forall is_bit c -> 0 <= i -> i + Z.of_nat (length c) <= 64 ->
  0 <= acc < 2 ^ i ->
  pack_bits c i acc = acc + 2 ^ i * dval 1 c /\ 0 <= pack_bits c i acc < 2 ^ (i + Z.of_nat (length c)).
Proof.
  induction c as [|b c IH]; intros i acc Hc Hi Hlen Hacc; cbn [pack_bits dval length] in *.
  - rewrite Z.add_0_r. lia.
  - inversion Hc as [|? ? Hb Hc']; subst.
    pose proof (pow2_gt0 i Hi) as Hp.
    assert (Hsh : Z.shiftl b i mod W64 = b * 2 ^ i).
    { rewrite Z.shiftl_mul_pow2 by lia. apply Z.mod_small. rewrite <- W64_eq.
      assert (2 ^ (i + 1) <= 2 ^ 64) by (apply Z.pow_le_mono_r; lia).
      rewrite Z.pow_add_r in * by lia. change (2 ^ 1) with 2 in *.
      destruct Hb; subst b; lia. }
    rewrite Hsh, lor_shifted' by lia.
    assert (Hacc' : 0 <= b * 2 ^ i + acc < 2 ^ (i + 1)).
    { rewrite Z.pow_add_r by lia. change (2 ^ 1) with 2. destruct Hb; subst b; lia. }
    destruct (IH (i + 1) (b * 2 ^ i + acc) Hc' ltac:(lia) ltac:(lia) Hacc') as [Heq Hbd].
    rewrite Heq. split.
    + rewrite Z.pow_add_r by lia. change (2 ^ 1) with 2. ring.
    + rewrite Heq in Hbd. replace (i + Z.of_nat (S (length c))) with (i + 1 + Z.of_nat (length c)) by lia.
      exact Hbd.
Qed.

Lemma dval_split64 l : dval 1 l = dval 1 (firstn 64 l) + W64 * dval 1 (skipn 64 l).
Proof.
  rewrite <- (firstn_skipn 64 l) at 1. rewrite dval_app by lia.
  destruct (Nat.le_gt_cases 64 (length l)) as [Hge|Hlt].
  - rewrite firstn_length, Nat.min_l by lia. reflexivity.
  - rewrite skipn_all2 by lia. cbn [dval]. lia.
Qed.

Lemma Forall_firstn {A} (P : A -> Prop) n l : Forall P l -> Forall P (firstn n l).
Proof. intros H. rewrite <- (firstn_skipn n l) in H. apply Forall_app in H. tauto. Qed.
Lemma Forall_skipn {A} (P : A -> Prop) n l : Forall P l -> Forall P (skipn n l).
Proof. intros H. rewrite <- (firstn_skipn n l) in H. apply Forall_app in H. tauto. Qed.

Lemma zip_pack_spec : forall N fuel l, Forall is_bit l -> (length l < fuel)%nat ->
  let r := zip_pack (chunks fuel 64 l) (zeros N) in
  wf r /\ length r = N /\ val r = dval 1 l mod Wn N.
Proof.
  induction N as [|N IH]; intros fuel l Hl Hf; cbv zeta.
  - cbn [zeros repeat]. destruct (chunks fuel 64 l); cbn [zip_pack val length];
      rewrite Wn_0, Z.mod_1_r; repeat split; constructor.
  - rewrite zeros_S. destruct fuel as [|f]; [lia|]. cbn [chunks].
    destruct l as [|b l'] eqn:El.
    + cbn [zip_pack dval]. rewrite <- zeros_S. rewrite val_zeros, Z.mod_0_l by (pose proof (Wn_pos (S N)); lia).
      repeat split; [apply wf_zeros | apply length_zeros].
    + rewrite <- El in *. cbn [zip_pack].
      assert (Hlen : (0 < length l)%nat) by (rewrite El; cbn [length]; lia).
      specialize (IH f (skipn 64 l) (Forall_skipn _ _ _ Hl) ltac:(rewrite skipn_length; lia)).
      cbv zeta in IH. destruct IH as (Hw & Hlr & Hv).
      destruct (pack_bits_spec (firstn 64 l) 0 0 (Forall_firstn _ _ _ Hl) ltac:(lia)
                  ltac:(rewrite firstn_length; lia) ltac:(change (2 ^ 0) with 1; lia)) as [Hp Hpb].
      assert (Hp64 : 0 <= pack_bits (firstn 64 l) 0 0 < W64).
      { rewrite <- W64_eq. assert (2 ^ (0 + Z.of_nat (length (firstn 64 l))) <= 2 ^ 64).
        { apply Z.pow_le_mono_r; [lia|]. rewrite firstn_length. lia. } lia. }
      repeat split.
      * apply wf_cons. split; auto.
      * cbn [length]. lia.
      * cbn [val]. rewrite Hv, Wn_S. rewrite <- mod_scale by (auto; apply Wn_pos).
        f_equal. rewrite (dval_split64 l). rewrite Hp. change (2 ^ 0) with 1. ring.
Qed.

Theorem from_bits_le_spec : forall N bits, Forall is_bit bits ->
  wf (from_bits_le N bits) /\ length (from_bits_le N bits) = N /\
  val (from_bits_le N bits) = dval 1 bits mod Wn N.
Proof. intros N bits Hb. unfold from_bits_le. apply zip_pack_spec; auto. Qed.

Theorem from_bits_be_spec : forall N bits, Forall is_bit bits ->
  wf (from_bits_be N bits) /\ length (from_bits_be N bits) = N /\
  val (from_bits_be N bits) = dval 1 (rev bits) mod Wn N.
Proof. intros N bits Hb. unfold from_bits_be. apply from_bits_le_spec. apply Forall_rev. exact Hb. Qed.

(* ---------- round trips ---------- *)

Theorem bits_le_roundtrip : forall a, wf a -> from_bits_le (length a) (to_bits_le a) = a.
Proof.
  intros a Ha. destruct (to_bits_le_spec a Ha) as (Hl & Hb & Hv & _).
  destruct (from_bits_le_spec (length a) _ Hb) as (Hw & Hlen & Hval).
  apply val_inj; auto. rewrite Hval, Hv. apply Z.mod_small. apply val_bound; auto.
Qed.

Theorem bits_be_roundtrip : forall a, wf a -> from_bits_be (length a) (to_bits_be a) = a.
Proof.
  intros a Ha. unfold from_bits_be, to_bits_be. rewrite rev_involutive. apply bits_le_roundtrip; auto.
Qed.

Lemma is_bit_digit l : Forall is_bit l -> Forall (fun d => 0 <= d < 2 ^ 1) l.
Proof. apply Forall_impl. intros b [-> | ->]; change (2 ^ 1) with 2; lia. Qed.

Theorem bits_le_roundtrip' : forall N bits, Forall is_bit bits -> length bits = (64 * N)%nat ->
  to_bits_le (from_bits_le N bits) = bits.
Proof.
  intros N bits Hb Hl. destruct (from_bits_le_spec N bits Hb) as (Hw & Hlen & Hval).
  destruct (to_bits_le_spec _ Hw) as (Hl' & Hb' & Hv' & _).
  apply (dval_inj 1 ltac:(lia)); try apply is_bit_digit; auto.
  - rewrite Hl', Hlen. auto.
  - rewrite Hv', Hval. apply Z.mod_small.
    pose proof (dval_bound 1 bits ltac:(lia) (is_bit_digit _ Hb)) as Hd.
    rewrite Wn_pow2. replace (64 * Z.of_nat N) with (1 * Z.of_nat (length bits)) by lia. exact Hd.
Qed.

Theorem bits_be_roundtrip' : forall N bits, Forall is_bit bits -> length bits = (64 * N)%nat ->
  to_bits_be (from_bits_be N bits) = bits.
Proof.
  intros N bits Hb Hl. unfold from_bits_be, to_bits_be.
  rewrite bits_le_roundtrip' by (try apply Forall_rev; auto; rewrite rev_length; auto).
  apply rev_involutive.
Qed.

(* ---------- bytes ---------- *)

Lemma le_bytes_spec x : u64 x ->
  length (le_bytes x) = 8%nat /\ Forall (fun d => 0 <= d < 2 ^ 8) (le_bytes x) /\ dval 8 (le_bytes x) = x.
Proof.
  intros Hx. unfold u64 in Hx. split; [reflexivity|]. split.
  - unfold le_bytes. apply Forall_forall. intros b Hin. apply in_map_iff in Hin as (i & <- & _).
    change 256 with (2 ^ 8). apply Z.mod_pos_bound. reflexivity.
  - unfold le_bytes.
    rewrite (map_ext _ (fun i => (x / 2 ^ (8 * Z.of_nat i)) mod 2 ^ 8)).
    + rewrite digits_val by lia. change (2 ^ (8 * Z.of_nat 0)) with 1. rewrite Z.div_1_r.
      change (2 ^ (8 * Z.of_nat 8)) with W64. apply Z.mod_small. exact Hx.
    + intros i. rewrite Z.shiftr_div_pow2 by lia. reflexivity.
Qed.

Theorem to_bytes_le_spec : forall a, wf a ->
  length (to_bytes_le a) = (8 * length a)%nat /\
  Forall (fun d => 0 <= d < 256) (to_bytes_le a) /\ dval 8 (to_bytes_le a) = val a.
Proof.
  induction a as [|x a IH]; intros Ha.
  - cbn. repeat split. constructor.
  - apply wf_cons in Ha as [Hx Ha]. destruct (IH Ha) as (Hl & Hf & Hv).
    destruct (le_bytes_spec x Hx) as (Hl8 & Hf8 & Hv8).
    unfold to_bytes_le in *. cbn [flat_map]. repeat split.
    + rewrite app_length, Hl, Hl8. cbn [length]. lia.
    + apply Forall_app. split; auto.
    + rewrite dval_app by lia. rewrite Hv8, Hl8, Hv. cbn [val].
      change (2 ^ (8 * Z.of_nat 8)) with W64. reflexivity.
Qed.

Theorem to_bytes_be_spec : forall a, wf a ->
  length (to_bytes_be a) = (8 * length a)%nat /\
  Forall (fun d => 0 <= d < 256) (to_bytes_be a) /\ dval 8 (rev (to_bytes_be a)) = val a.
Proof.
  intros a Ha. destruct (to_bytes_le_spec a Ha) as (Hl & Hf & Hv). unfold to_bytes_be.
  rewrite rev_length, rev_involutive. repeat split; auto. apply Forall_rev. exact Hf.
Qed.
