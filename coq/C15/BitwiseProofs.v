(* Bitwise operators on limb vectors are the bitwise operators on the values. *)
From V Require Import Base.Word C15.GenArith C15.LeafSpecs C15.BigIntModel C15.BigIntProofs
  C15.ShiftProofs C15.BitsProofs.

Lemma testbit_limb_cons x v n : u64 x -> 0 <= n ->
  Z.testbit (x + W64 * v) n = if n <? 64 then Z.testbit x n else Z.testbit v (n - 64).
Proof.
  intros Hx Hn. unfold u64 in Hx. rewrite <- W64_eq in Hx.
  replace (x + W64 * v) with (v * 2 ^ 64 + x) by (rewrite W64_eq; ring).
  rewrite <- lor_shifted by lia. rewrite Z.lor_spec.
  destruct (Z.ltb_spec n 64).
  - rewrite Z.mul_pow2_bits_low by lia. reflexivity.
  - rewrite (testbit_above x 64 n) by lia. rewrite orb_false_r. apply Z.mul_pow2_bits. lia.
Qed.

Lemma small_of_bits a : 0 <= a -> (forall n, 64 <= n -> Z.testbit a n = false) -> a < 2 ^ 64.
Proof.
  intros Ha Hbits. destruct (Z.lt_ge_cases a (2 ^ 64)) as [|Hge]; [auto|exfalso].
  assert (Hpos : 0 < a) by (assert (0 < 2 ^ 64) by reflexivity; lia).
  assert (64 <= Z.log2 a) by (apply Z.log2_le_pow2; lia).
  pose proof (Z.bit_log2 a Hpos) as Hb. rewrite Hbits in Hb by lia. discriminate.
Qed.

Section BitOp.
  Variable f : Z -> Z -> Z.
  Variable fb : bool -> bool -> bool.
  Hypothesis f_spec : forall a b n, Z.testbit (f a b) n = fb (Z.testbit a n) (Z.testbit b n).
  Hypothesis fb_ff : fb false false = false.
  Hypothesis f_nonneg : forall a b, 0 <= a -> 0 <= b -> 0 <= f a b.

  Lemma bitop_u64 x y : u64 x -> u64 y -> u64 (f x y).
  Proof.
    intros Hx Hy. unfold u64 in *. split; [apply f_nonneg; lia|]. rewrite <- W64_eq in *.
    apply small_of_bits; [apply f_nonneg; lia|]. intros n Hn.
    rewrite f_spec, (testbit_above x 64 n), (testbit_above y 64 n) by lia. exact fb_ff.
  Qed.

  Lemma bitop_cons x y v v' : u64 x -> u64 y -> 0 <= v -> 0 <= v' ->
    f (x + W64 * v) (y + W64 * v') = f x y + W64 * f v v'.
  Proof.
    intros Hx Hy Hv Hv'. apply Z.bits_inj'. intros n Hn.
    rewrite f_spec, !testbit_limb_cons by (auto using bitop_u64).
    destruct (n <? 64); rewrite f_spec; reflexivity.
  Qed.

  Lemma map2_spec : forall a b, wf a -> wf b -> length a = length b ->
    wf (map2 f a b) /\ length (map2 f a b) = length a /\ val (map2 f a b) = f (val a) (val b).
  Proof.
    induction a as [|x a IH]; intros [|y b] Ha Hb Hl; try discriminate.
    - cbn [map2 val length]. repeat split; [constructor|].
      apply Z.bits_inj'. intros n _. rewrite f_spec, Z.bits_0. symmetry. exact fb_ff.
    - apply wf_cons in Ha as [Hx Ha]. apply wf_cons in Hb as [Hy Hb]. injection Hl as Hl.
      destruct (IH b Ha Hb Hl) as (Hw & Hlen & Hv). cbn [map2 val length]. repeat split.
      + apply wf_cons. split; [apply bitop_u64; auto | auto].
      + lia.
      + rewrite Hv. symmetry. apply bitop_cons; auto; apply val_bound; auto.
  Qed.
End BitOp.

Theorem bitand_spec : forall a b, wf a -> wf b -> length a = length b ->
  wf (map2 Z.land a b) /\ length (map2 Z.land a b) = length a /\
  val (map2 Z.land a b) = Z.land (val a) (val b).
Proof.
  apply (map2_spec Z.land andb Z.land_spec eq_refl).
  intros a b Ha Hb. apply Z.land_nonneg. auto.
Qed.

Theorem bitor_spec : forall a b, wf a -> wf b -> length a = length b ->
  wf (map2 Z.lor a b) /\ length (map2 Z.lor a b) = length a /\
  val (map2 Z.lor a b) = Z.lor (val a) (val b).
Proof.
  apply (map2_spec Z.lor orb Z.lor_spec eq_refl).
  intros a b Ha Hb. apply Z.lor_nonneg. auto.
Qed.

Theorem bitxor_spec : forall a b, wf a -> wf b -> length a = length b ->
  wf (map2 Z.lxor a b) /\ length (map2 Z.lxor a b) = length a /\
  val (map2 Z.lxor a b) = Z.lxor (val a) (val b).
Proof.
  apply (map2_spec Z.lxor xorb Z.lxor_spec eq_refl).
  intros a b Ha Hb. apply Z.lxor_nonneg. split; auto.
Qed.

(* !a = 2^(64N) - 1 - a *)
Theorem bitnot_spec : forall a, wf a ->
  wf (map not64 a) /\ length (map not64 a) = length a /\
  val (map not64 a) = Wn (length a) - 1 - val a.
Proof.
  induction a as [|x a IH]; intros Ha.
  - cbn [map val length]. rewrite Wn_0. repeat split; try lia. constructor.
  - apply wf_cons in Ha as [Hx Ha]. destruct (IH Ha) as (Hw & Hl & Hv).
    cbn [map val length]. rewrite Wn_S. repeat split.
    + apply wf_cons. split; auto. unfold not64, u64 in *. lia.
    + lia.
    + rewrite Hv. unfold not64. ring.
Qed.
