(* The const helpers: base-2 long division (montgomery_r, montgomery_r2), two-adic
   decomposition, divide_by_2_round_down, const_num_bits, mod_4 -- every limb count. *)
From V Require Import Base.Word C15.GenArith C15.LeafSpecs C15.BigIntModel C15.BigIntProofs
  C15.ShiftProofs C15.BitsProofs C15.RecodeProofs.

(* value of the low i bits of a bit function *)
Fixpoint bitsum (bit : nat -> bool) (i : nat) : Z :=
  match i with
  | O => 0
  | S j => bitsum bit j + Z.b2z (bit j) * 2 ^ Z.of_nat j
  end.

Lemma const_geq_spec a b : wf a -> wf b -> length a = length b ->
  const_geq a b = (val b <=? val a).
Proof.
  intros Ha Hb Hl. unfold const_geq. rewrite cmp_spec by auto.
  destruct (Z.compare_spec (val a) (val b)); symmetry; [apply Z.leb_le | apply Z.leb_gt | apply Z.leb_le]; lia.
Qed.

(* or-ing a bit into an even low limb *)
Lemma set_low_bit r b : wf r -> r <> [] -> val r mod 2 = 0 ->
  let r2 := match r with [] => [] | x :: t => Z.lor x (Z.b2z b) :: t end in
  wf r2 /\ length r2 = length r /\ val r2 = val r + Z.b2z b.
Proof.
  intros Hr Hne Hev. destruct r as [|x t]; [congruence|]. cbv zeta.
  rewrite val_mod2 in Hev. apply wf_cons in Hr as [Hx Ht]. unfold u64 in Hx.
  assert (Hx2 : x = (x / 2) * 2 ^ 1) by (change (2 ^ 1) with 2; pose proof (Z.div_mod x 2 ltac:(lia)); lia).
  assert (Hb : 0 <= Z.b2z b < 2 ^ 1) by (destruct b; cbn; lia).
  assert (Hlor : Z.lor x (Z.b2z b) = x + Z.b2z b).
  { rewrite Hx2 at 1. rewrite lor_shifted by (auto; lia). rewrite <- Hx2. reflexivity. }
  rewrite Hlor.
  repeat split.
  - apply wf_cons. split; auto. unfold u64. change (2 ^ 1) with 2 in Hb.
    assert (x <> W64 - 1) by (intros E; rewrite E in Hev; cbn in Hev; lia). lia.
  - cbn [val]. lia.
Qed.

Lemma const_modulo_loop_spec bit : forall i rem d, wf rem -> wf d -> length rem = length d ->
  val rem < val d ->
  exists r, const_modulo_loop bit i rem d = Some r /\ wf r /\ length r = length d /\
    val r = (val rem * 2 ^ Z.of_nat i + bitsum bit i) mod val d.
Proof.
  induction i as [|j IH]; intros rem d Hrem Hd Hl Hlt.
  - exists rem. cbn [const_modulo_loop bitsum]. change (2 ^ Z.of_nat 0) with 1.
    repeat split; auto. rewrite Z.mul_1_r, Z.add_0_r. symmetry. apply Z.mod_small. pose proof (val_bound rem Hrem). lia.
  - cbn [const_modulo_loop bitsum].
    pose proof (val_bound rem Hrem) as Hbr. pose proof (val_bound d Hd) as Hbd.
    assert (Hne : d <> []) by (intros ->; cbn [val] in *; lia).
    pose proof (mul2_spec rem Hrem) as Hm. destruct (mul2 rem) as [r1 carry].
    destruct Hm as (Hw1 & Hl1 & Hv1).
    assert (HWev : Wn (length rem) mod 2 = 0).
    { rewrite Hl. destruct d as [|y d']; [congruence|]. cbn [length].
      rewrite Wn_S_even, Z.mul_comm. apply Z.mod_mul. lia. }
    assert (Hr1ev : val r1 mod 2 = 0).
    { replace (val r1) with (2 * val rem - Wn (length rem) * Z.b2z carry) by lia.
      pose proof (even_half _ HWev) as Hh. rewrite <- Hh.
      replace (2 * val rem - 2 * (Wn (length rem) / 2) * Z.b2z carry)
        with ((val rem - (Wn (length rem) / 2) * Z.b2z carry) * 2) by ring.
      apply Z.mod_mul. lia. }
    assert (Hne1 : r1 <> []) by (intros ->; cbn [length] in Hl1; destruct d; [congruence | cbn [length] in *; lia]).
    destruct (set_low_bit r1 (bit j) Hw1 Hne1 Hr1ev) as (Hw2 & Hl2 & Hv2).
    set (r2 := match r1 with [] => [] | x :: t => Z.lor x (Z.b2z (bit j)) :: t end) in *.
    pose proof (val_bound r2 Hw2) as Hb2. rewrite Hl2, Hl1 in Hb2.
    set (W := Wn (length rem)) in *.
    set (b := Z.b2z (bit j)) in *.
    assert (Hb01 : 0 <= b <= 1) by (unfold b; destruct (bit j); cbn; lia).
    (* v = 2 rem + b = val r2 + W carry *)
    assert (Hv : val r2 + W * Z.b2z carry = 2 * val rem + b) by lia.
    rewrite const_geq_spec by (auto; lia).
    rewrite Nat2Z.inj_succ, Z.pow_succ_r by lia.
    assert (Htarget : forall r', val r' = 2 * val rem + b - val d \/ (val r' = 2 * val rem + b) ->
              (val r' * 2 ^ Z.of_nat j + bitsum bit j) mod val d
              = (val rem * (2 * 2 ^ Z.of_nat j) + (bitsum bit j + b * 2 ^ Z.of_nat j)) mod val d).
    { intros r' [E|E]; rewrite E.
      - replace (val rem * (2 * 2 ^ Z.of_nat j) + (bitsum bit j + b * 2 ^ Z.of_nat j))
          with ((2 * val rem + b - val d) * 2 ^ Z.of_nat j + bitsum bit j + 2 ^ Z.of_nat j * val d) by ring.
        rewrite Z.mod_add by lia. reflexivity.
      - f_equal. ring. }
    destruct ((val d <=? val r2) || carry) eqn:Hcond.
    + pose proof (sub_with_borrow_spec r2 d Hw2 Hd ltac:(lia)) as Hs.
      destruct (sub_with_borrow r2 d) as [r3 borrow]. destruct Hs as (Hw3 & Hl3 & Hv3).
      pose proof (val_bound r3 Hw3) as Hb3. rewrite Hl3 in Hb3. rewrite Hl2, Hl1 in Hb3, Hv3.
      fold W in Hb3, Hv3. rewrite <- Hl in Hbd. fold W in Hbd.
      assert (Hbc : borrow = carry).
      { destruct carry; cbn [Z.b2z] in *.
        - destruct borrow; [reflexivity|]. cbn [Z.b2z] in Hv3. lia.
        - rewrite orb_false_r in Hcond. apply Z.leb_le in Hcond.
          destruct borrow; [|reflexivity]. cbn [Z.b2z] in Hv3. lia. }
      subst borrow. rewrite eqb_reflx.
      assert (Hv3' : val r3 = 2 * val rem + b - val d) by (destruct carry; cbn [Z.b2z] in *; lia).
      assert (Hlt3 : val r3 < val d) by lia.
      destruct (IH r3 d Hw3 Hd ltac:(lia) Hlt3) as (r & Hrun & Hwr & Hlr & Hvr).
      exists r. repeat split; auto. rewrite Hvr. apply Htarget. left. exact Hv3'.
    + apply orb_false_iff in Hcond as [Hc1 Hc2]. subst carry. cbn [Z.b2z] in *.
      apply Z.leb_gt in Hc1.
      destruct (IH r2 d Hw2 Hd ltac:(lia) Hc1) as (r & Hrun & Hwr & Hlr & Hvr).
      exists r. repeat split; auto. rewrite Hvr. apply Htarget. right. lia.
Qed.

Lemma bitsum_single n : forall k, bitsum (fun i => Nat.eqb i n) k = if (n <? k)%nat then 2 ^ Z.of_nat n else 0.
Proof.
  induction k as [|k IH]; [reflexivity|]. cbn [bitsum]. rewrite IH.
  destruct (Nat.eqb_spec k n) as [->|Hne].
  - destruct (Nat.ltb_spec n n); [lia|]. destruct (Nat.ltb_spec n (S n)); [|lia]. cbn [Z.b2z]. lia.
  - cbn [Z.b2z]. destruct (Nat.ltb_spec n k), (Nat.ltb_spec n (S k)); try lia.
Qed.

Theorem montgomery_r_spec : forall m, wf m -> val m <> 0 ->
  exists r, montgomery_r m = Some r /\ wf r /\ length r = length m /\
    val r = Wn (length m) mod val m.
Proof.
  intros m Hm Hne. unfold montgomery_r. rewrite (is_zero_spec m Hm).
  destruct (Z.eqb_spec (val m) 0); [lia|].
  pose proof (val_bound m Hm) as Hb.
  destruct (const_modulo_loop_spec (fun i => Nat.eqb i (64 * length m)) (64 * length m + 1)
              (zeros (length m)) m (wf_repeat0 _) Hm (repeat_length _ _))
    as (r & Hrun & Hw & Hl & Hv).
  { unfold zeros. rewrite val_repeat0. lia. }
  exists r. repeat split; auto. rewrite Hv. unfold zeros. rewrite val_repeat0, bitsum_single.
  destruct (Nat.ltb_spec (64 * length m) (64 * length m + 1)); [|lia].
  rewrite Z.mul_0_l, Z.add_0_l. f_equal. rewrite Wn_pow2. f_equal. lia.
Qed.

Theorem montgomery_r2_spec : forall m, wf m -> val m <> 0 ->
  exists r, montgomery_r2 m = Some r /\ wf r /\ length r = length m /\
    val r = (Wn (length m) * Wn (length m)) mod val m.
Proof.
  intros m Hm Hne. unfold montgomery_r2. rewrite (is_zero_spec m Hm).
  destruct (Z.eqb_spec (val m) 0); [lia|].
  pose proof (val_bound m Hm) as Hb.
  destruct (const_modulo_loop_spec (fun i => Nat.eqb i (128 * length m)) (128 * length m + 1)
              (zeros (length m)) m (wf_repeat0 _) Hm (repeat_length _ _))
    as (r & Hrun & Hw & Hl & Hv).
  { unfold zeros. rewrite val_repeat0. lia. }
  exists r. repeat split; auto. rewrite Hv. unfold zeros. rewrite val_repeat0, bitsum_single.
  destruct (Nat.ltb_spec (128 * length m) (128 * length m + 1)); [|lia].
  rewrite Z.mul_0_l, Z.add_0_l. f_equal. rewrite Wn_pow2, <- Z.pow_add_r by lia. f_equal. lia.
Qed.

(* ---------- two-adic decomposition of an odd value > 1 ---------- *)

Lemma const_is_even_spec a : const_is_even a = (val a mod 2 =? 0).
Proof. unfold const_is_even. destruct a as [|x r]; [reflexivity|]. cbn [hd]. rewrite val_mod2. reflexivity. Qed.

Lemma two_adic_loop_spec : forall f a s, wf a -> 0 < val a -> val a < 2 ^ Z.of_nat f ->
  exists s' t, two_adic_loop f a s = Some (s', t) /\ wf t /\ length t = length a /\
    s <= s' /\ val a = 2 ^ (s' - s) * val t /\ val t mod 2 = 1.
Proof.
  induction f as [|f IH]; intros a s Ha Hpos Hlt.
  - change (2 ^ Z.of_nat 0) with 1 in Hlt. lia.
  - cbn [two_adic_loop]. rewrite const_is_even_spec.
    pose proof (Z.mod_pos_bound (val a) 2 ltac:(lia)) as Hm.
    destruct (Z.eqb_spec (val a mod 2) 0) as [Hev|Hodd].
    + unfold const_shr. destruct (div2_spec a Ha) as (Hw & Hl & Hv).
      pose proof (even_half _ Hev) as Hh.
      rewrite Nat2Z.inj_succ, Z.pow_succ_r in Hlt by lia.
      destruct (IH (div2 a) (s + 1) Hw ltac:(lia) ltac:(lia)) as (s' & t & Hrun & Hwt & Hlt' & Hs & Hval & Hto).
      exists s', t. repeat split; auto; try lia.
      replace (s' - s) with (1 + (s' - (s + 1))) by ring. rewrite Z.pow_add_r by lia.
      change (2 ^ 1) with 2. lia.
    + exists s, a. rewrite Z.sub_diag. change (2 ^ 0) with 1. repeat split; auto; lia.
Qed.

Lemma dec_first_spec a : wf a -> val a mod 2 = 1 ->
  wf (dec_first a) /\ length (dec_first a) = length a /\ val (dec_first a) = val a - 1.
Proof.
  intros Ha Hodd. destruct a as [|x r]; [cbn in Hodd; lia|].
  rewrite val_mod2 in Hodd. apply wf_cons in Ha as [Hx Hr]. unfold u64 in Hx.
  assert (x <> 0) by (intros ->; cbn in Hodd; lia).
  cbn [dec_first val length]. repeat split; try lia. apply wf_cons. split; auto. unfold u64. lia.
Qed.

(* two_adic a = (two_adic_valuation, two_adic_coefficient) *)
Theorem two_adic_spec : forall a, wf a -> val a mod 2 = 1 -> 1 < val a ->
  exists s t, two_adic a = Some (s, t) /\ wf t /\ length t = length a /\
    0 <= s /\ val a - 1 = 2 ^ s * val t /\ val t mod 2 = 1.
Proof.
  intros a Ha Hodd Hgt. unfold two_adic. rewrite const_is_even_spec.
  destruct (Z.eqb_spec (val a mod 2) 0); [lia|].
  destruct (dec_first_spec a Ha Hodd) as (Hw & Hl & Hv).
  pose proof (val_bound a Ha) as Hb. rewrite Wn_pow2 in Hb.
  destruct (two_adic_loop_spec (64 * length a + 1) (dec_first a) 0 Hw ltac:(lia)) as (s & t & Hrun & Hwt & Hlt & Hs & Hval & Hto).
  { rewrite Hv. assert (2 ^ (64 * Z.of_nat (length a)) <= 2 ^ Z.of_nat (64 * length a + 1))
      by (apply Z.pow_le_mono_r; lia). lia. }
  exists s, t. rewrite Z.sub_0_r in Hval. repeat split; auto; try lia.
Qed.

Theorem divide_by_2_round_down_spec : forall a, wf a ->
  wf (divide_by_2_round_down a) /\ length (divide_by_2_round_down a) = length a /\
  val (divide_by_2_round_down a) = val a / 2.
Proof.
  intros a Ha. unfold divide_by_2_round_down, const_shr. rewrite const_is_even_spec.
  pose proof (Z.mod_pos_bound (val a) 2 ltac:(lia)) as Hm.
  destruct (Z.eqb_spec (val a mod 2) 0) as [Hev|Hodd].
  - apply div2_spec; auto.
  - destruct (dec_first_spec a Ha ltac:(lia)) as (Hw & Hl & Hv).
    destruct (div2_spec _ Hw) as (Hw2 & Hl2 & Hv2). repeat split; auto; try lia.
    rewrite Hv2, Hv. pose proof (Z.div_mod (val a) 2 ltac:(lia)) as Hdm.
    replace (val a - 1) with (0 + (val a / 2) * 2) by lia. rewrite Z.div_add by lia. reflexivity.
Qed.

Theorem mod_4_spec : forall a, wf a -> mod_4 a = val a mod 4.
Proof.
  intros a Ha. unfold mod_4. destruct a as [|x r]; [reflexivity|]. cbn [hd val].
  apply wf_cons in Ha as [Hx Hr]. unfold u64 in Hx.
  rewrite Z.shiftl_mul_pow2, Z.shiftr_div_pow2 by lia.
  change W64 with (2 ^ 2 * 2 ^ 62) at 1. rewrite Z.mul_mod_distr_r by lia.
  rewrite Z.div_mul by lia. change (2 ^ 2) with 4. rewrite Z.mod_mod by lia.
  symmetry. change W64 with (4611686018427387904 * 4).
  replace (x + 4611686018427387904 * 4 * val r) with (x + (4611686018427387904 * val r) * 4) by ring.
  apply Z.mod_add. lia.
Qed.
