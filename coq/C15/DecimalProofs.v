(* Conversions through arbitrary-precision integers and decimal strings:
   TryFrom<BigUint>, FromStr, Display -- every limb count. *)
From V Require Import Base.Word C15.GenArith C15.LeafSpecs C15.BigIntModel C15.BigIntProofs
  C15.ShiftProofs.

(* ---------- limbs_of / try_from_biguint ---------- *)

Lemma limbs_of_spec : forall N v, 0 <= v ->
  wf (limbs_of N v) /\ length (limbs_of N v) = N /\ val (limbs_of N v) = v mod Wn N.
Proof.
  induction N as [|N IH]; intros v Hv; cbn [limbs_of val length].
  - rewrite Wn_0, Z.mod_1_r. repeat split. constructor.
  - assert (Hq : 0 <= v / W64) by (apply Z.div_pos; unfold W64; lia).
    destruct (IH (v / W64) Hq) as (Hw & Hl & Hval). repeat split.
    + apply wf_cons. split; [apply mod_u64 | auto].
    + lia.
    + rewrite Hval, Wn_S. pose proof W64_pos. pose proof (Wn_pos N).
      rewrite Z.rem_mul_r by lia. reflexivity.
Qed.

Lemma limbs_of_val : forall a, wf a -> limbs_of (length a) (val a) = a.
Proof.
  intros a Ha. pose proof (val_bound a Ha) as Hb.
  destruct (limbs_of_spec (length a) (val a) ltac:(lia)) as (Hw & Hl & Hv).
  apply val_inj; auto. rewrite Hv. apply Z.mod_small. lia.
Qed.

(* the size test of TryFrom<BigUint>: at most 8N bytes, i.e. v < 2^(64N) *)
Lemma byte_len_spec N v : 0 <= v -> (8 * Z.of_nat N <? byte_len v) = negb (v <? Wn N) || ((N =? 0)%nat && (v =? 0)).
Proof.
  intros Hv. unfold byte_len. rewrite Wn_pow2.
  destruct (Z.eqb_spec v 0) as [->|Hne].
  - assert (0 < 2 ^ (64 * Z.of_nat N)) by (apply pow2_gt0; lia).
    destruct (Z.ltb_spec 0 (2 ^ (64 * Z.of_nat N))); [|lia]. cbn [negb orb].
    destruct (Nat.eqb_spec N 0) as [->|HN]; [reflexivity|]. cbn [andb].
    apply Z.ltb_ge. lia.
  - rewrite andb_false_r, orb_false_r.
    pose proof (Z.log2_nonneg v) as Hl0.
    destruct (Z.ltb_spec v (2 ^ (64 * Z.of_nat N))) as [Hlt|Hge]; cbn [negb].
    + apply Z.ltb_ge. apply Z.log2_lt_pow2 in Hlt; [|lia].
      assert (Z.log2 v / 8 < 8 * Z.of_nat N) by (apply Z.div_lt_upper_bound; lia). lia.
    + apply Z.ltb_lt.
      assert (64 * Z.of_nat N <= Z.log2 v) by (apply Z.log2_le_pow2; lia).
      assert (8 * Z.of_nat N <= Z.log2 v / 8) by (apply Z.div_le_lower_bound; lia). lia.
Qed.

Theorem try_from_biguint_spec : forall N v, 0 <= v -> (0 < N)%nat ->
  (v < Wn N -> exists a, try_from_biguint N v = Some a /\ wf a /\ length a = N /\ val a = v) /\
  (Wn N <= v -> try_from_biguint N v = None).
Proof.
  intros N v Hv HN. unfold try_from_biguint. rewrite byte_len_spec by auto.
  destruct (Nat.eqb_spec N 0); [lia|]. cbn [andb]. rewrite orb_false_r.
  split; intros H.
  - destruct (Z.ltb_spec v (Wn N)); [|lia]. cbn [negb].
    destruct (limbs_of_spec N v Hv) as (Hw & Hl & Hval).
    exists (limbs_of N v). repeat split; auto. rewrite Hval. apply Z.mod_small. lia.
  - destruct (Z.ltb_spec v (Wn N)); [lia|]. reflexivity.
Qed.

(* ---------- decimal printing and parsing ---------- *)

Definition is_digit (c : Z) : Prop := 48 <= c <= 57.

Lemma parse_digits_app : forall l1 l2 x,
  parse_digits (l1 ++ l2) x =
  match parse_digits l1 x with Some y => parse_digits l2 y | None => None end.
Proof.
  induction l1 as [|c l1 IH]; intros l2 x; cbn [app parse_digits]; [reflexivity|].
  destruct (c =? 95); [apply IH|]. destruct ((48 <=? c) && (c <=? 57)); [apply IH | reflexivity].
Qed.

Lemma print_digits_acc : forall f v acc, print_digits f v acc = print_digits f v [] ++ acc.
Proof.
  induction f as [|f IH]; intros v acc; cbn [print_digits]; [reflexivity|].
  destruct (v <? 10); [reflexivity|].
  rewrite (IH (v / 10) ((48 + v mod 10) :: acc)), (IH (v / 10) [48 + v mod 10]).
  rewrite <- app_assoc. reflexivity.
Qed.

Lemma parse_digit_step c x : is_digit c -> parse_digits [c] x = Some (10 * x + (c - 48)).
Proof.
  unfold is_digit. intros Hc. cbn [parse_digits].
  destruct (Z.eqb_spec c 95); [lia|].
  destruct (Z.leb_spec 48 c); [|lia]. destruct (Z.leb_spec c 57); [|lia]. reflexivity.
Qed.

Lemma print_digits_spec : forall f v, 0 <= v < 10 ^ Z.of_nat f -> (0 < f)%nat ->
  let s := print_digits f v [] in
  parse_digits s 0 = Some v /\ Forall is_digit s /\ s <> [].
Proof.
  induction f as [|f IH]; intros v Hv Hf; [lia|]. cbv zeta. cbn [print_digits].
  destruct (Z.ltb_spec v 10) as [Hlt|Hge].
  - rewrite parse_digit_step by (unfold is_digit; lia). repeat split.
    + f_equal. lia.
    + constructor; [unfold is_digit; lia | constructor].
    + discriminate.
  - rewrite print_digits_acc, parse_digits_app.
    rewrite Nat2Z.inj_succ, Z.pow_succ_r in Hv by lia.
    assert (Hq : 0 <= v / 10 < 10 ^ Z.of_nat f).
    { split; [apply Z.div_pos; lia | apply Z.div_lt_upper_bound; lia]. }
    assert (Hf' : (0 < f)%nat).
    { destruct f; [|lia]. change (10 ^ Z.of_nat 0) with 1 in Hv. lia. }
    destruct (IH (v / 10) Hq Hf') as (Hp & Hd & Hne). cbv zeta in Hp. rewrite Hp.
    pose proof (Z.mod_pos_bound v 10 ltac:(lia)) as Hm.
    rewrite parse_digit_step by (unfold is_digit; lia). repeat split.
    + f_equal. pose proof (Z.div_mod v 10 ltac:(lia)). lia.
    + apply Forall_app. split; auto. constructor; [unfold is_digit; lia | constructor].
    + intros E. apply app_eq_nil in E as [_ E]. discriminate.
Qed.

(* a non-empty all-digit string takes the plain branch of parse_decimal *)
Lemma parse_decimal_digits c t : is_digit c -> parse_decimal (c :: t) = parse_digits (c :: t) 0.
Proof.
  unfold is_digit. intros Hc. unfold parse_decimal.
  assert (Hs : match c :: t with
               | 43 :: (43 :: _) => c :: t
               | 43 :: t0 => t0
               | _ => c :: t
               end = c :: t).
  { destruct (Z.eq_dec c 43) as [->|Hne]; [lia|].
    destruct c as [|p|p]; try reflexivity.
    do 6 (try (destruct p as [p|p|]; try reflexivity)); lia. }
  rewrite Hs. destruct (Z.eqb_spec c 95); [lia | reflexivity].
Qed.

Lemma display_fuel v : 0 <= v -> v < 10 ^ Z.of_nat (S (Z.to_nat (Z.log2 (v + 1)))).
Proof.
  intros Hv. pose proof (Z.log2_nonneg (v + 1)) as Hl.
  rewrite Nat2Z.inj_succ, Z2Nat.id by lia.
  pose proof (Z.log2_spec (v + 1) ltac:(lia)) as Hs.
  assert (2 ^ Z.succ (Z.log2 (v + 1)) <= 10 ^ Z.succ (Z.log2 (v + 1))) by (apply Z.pow_le_mono_l; lia).
  lia.
Qed.

Theorem display_spec : forall a, wf a ->
  Forall is_digit (display a) /\ display a <> [] /\ parse_decimal (display a) = Some (val a).
Proof.
  intros a Ha. pose proof (val_bound a Ha) as Hb. unfold display.
  destruct (print_digits_spec (S (Z.to_nat (Z.log2 (val a + 1)))) (val a)
              ltac:(split; [lia | apply display_fuel; lia]) ltac:(lia)) as (Hp & Hd & Hne).
  cbv zeta in Hp. repeat split; auto.
  destruct (print_digits (S (Z.to_nat (Z.log2 (val a + 1)))) (val a) []) as [|c t]; [congruence|].
  inversion Hd as [|? ? Hc _]; subst. rewrite parse_decimal_digits by auto. exact Hp.
Qed.

(* parse (print a) = a *)
Theorem decimal_roundtrip : forall a, wf a -> a <> [] -> from_str (length a) (display a) = Some a.
Proof.
  intros a Ha Hne. destruct (display_spec a Ha) as (_ & _ & Hp). unfold from_str. rewrite Hp.
  pose proof (val_bound a Ha) as Hb.
  assert (HN : (0 < length a)%nat) by (destruct a; [congruence | cbn [length]; lia]).
  destruct (try_from_biguint_spec (length a) (val a) ltac:(lia) HN) as [Hok _].
  destruct (Hok ltac:(lia)) as (a' & Hrun & Hw & Hl & Hv). rewrite Hrun. f_equal.
  apply val_inj; auto.
Qed.

(* a decimal string that denotes v parses to the N-limb representation of v, or to an
   error exactly when v does not fit *)
Theorem from_str_value : forall N s v, (0 < N)%nat -> parse_decimal s = Some v -> 0 <= v ->
  (v < Wn N -> exists a, from_str N s = Some a /\ wf a /\ length a = N /\ val a = v) /\
  (Wn N <= v -> from_str N s = None).
Proof.
  intros N s v HN Hp Hv. unfold from_str. rewrite Hp. apply try_from_biguint_spec; auto.
Qed.
