(* Specifications of the *generated* leaf arithmetic (GenArith.v is regenerated from
   ff/src/biginteger/arithmetic.rs on every run).  Each lemma shows, for all in-range
   arguments, that no u128 intermediate wraps and that the result is the exact
   quotient/remainder by 2^64. *)
From V Require Import Base.Word C15.GenArith.

Local Ltac w := rewrite ?W64_eq, ?W128_eq in *.
Local Ltac unf := unfold u64, W64, W128 in *.

Lemma shiftr64 x : Z.shiftr x 64 = x / W64.
Proof. rewrite Z.shiftr_div_pow2 by lia. reflexivity. Qed.
Lemma shiftl1_64 : Z.shiftl 1 64 = W64. Proof. reflexivity. Qed.

Lemma small_mod x m : 0 <= x < m -> x mod m = x.
Proof. apply Z.mod_small. Qed.

Lemma widening_mul_spec a b : u64 a -> u64 b -> widening_mul a b = a * b.
Proof.
  intros Ha Hb. unfold widening_mul. w. apply small_mod. unf. nia.
Qed.

Lemma divmod_unique x q r : 0 <= r < W64 -> x = q * W64 + r -> x mod W64 = r /\ x / W64 = q.
Proof.
  intros Hr ->. split.
  - rewrite Z.add_comm, Z.mod_add by (unfold W64; lia). apply Z.mod_small; auto.
  - rewrite Z.add_comm, Z.div_add by (unfold W64; lia). rewrite Z.div_small; auto.
Qed.

(* sum of three words *)
Lemma add3_spec a b c : u64 a -> u64 b -> 0 <= c < W64 ->
  ((a + b) mod W128 + c) mod W128 = a + b + c.
Proof.
  intros. rewrite (small_mod (a + b)) by (unf; lia). apply small_mod. unf. lia.
Qed.

Lemma adc_spec a b c : u64 a -> u64 b -> u64 c ->
  adc a b c = ((a + b + c) mod W64, (a + b + c) / W64).
Proof.
  intros Ha Hb Hc. unfold adc. w. cbv zeta. rewrite add3_spec by auto.
  rewrite shiftr64. f_equal. apply small_mod.
  split; [apply Z.div_pos; unf; lia|]. apply Z.div_lt_upper_bound; unf; lia.
Qed.

Lemma adc_carry_bit a b c : u64 a -> u64 b -> 0 <= c <= 1 -> 0 <= (a + b + c) / W64 <= 1.
Proof.
  intros. split; [apply Z.div_pos; unf; lia|].
  assert ((a + b + c) / W64 < 2) by (apply Z.div_lt_upper_bound; unf; lia). lia.
Qed.

Lemma adc_for_add_with_carry_spec a b c : u64 a -> u64 b -> 0 <= c <= 1 ->
  adc_for_add_with_carry a b c = ((a + b + c) mod W64, (a + b + c) / W64).
Proof.
  intros Ha Hb Hc. unfold adc_for_add_with_carry. w. cbv zeta.
  rewrite add3_spec by (auto; unf; lia). rewrite shiftr64. f_equal.
  pose proof (adc_carry_bit a b c Ha Hb Hc). apply small_mod. lia.
Qed.

Lemma adc_no_carry_spec a b c : u64 a -> u64 b -> u64 c ->
  adc_no_carry a b c = (a + b + c) mod W64.
Proof. intros. unfold adc_no_carry. w. cbv zeta. rewrite add3_spec by auto. reflexivity. Qed.

Lemma adc_m_spec a b c : u64 a -> u64 b -> u64 c ->
  adc_m a b c = ((a + b + c) mod W64, (a + b + c) / W64).
Proof.
  intros Ha Hb Hc. unfold adc_m. w. cbv zeta. rewrite add3_spec by auto.
  rewrite shiftr64. f_equal. apply small_mod.
  split; [apply Z.div_pos; unf; lia|]. apply Z.div_lt_upper_bound; unf; lia.
Qed.

(* 2^64 + a - b - borrow, no wrap *)
Lemma sub3_spec a b c : u64 a -> u64 b -> 0 <= c <= 1 ->
  (((Z.shiftl 1 64 mod W128 + a) mod W128 - b) mod W128 - c) mod W128 = W64 + a - b - c.
Proof.
  intros. rewrite shiftl1_64. rewrite (small_mod W64) by (unf; lia).
  rewrite (small_mod (W64 + a)) by (unf; lia).
  rewrite (small_mod (W64 + a - b)) by (unf; lia).
  apply small_mod. unf. lia.
Qed.

(* borrow-out: 1 iff a < b + borrow *)
Definition borrow_of (a b c : Z) : Z := if Z.ltb (a - b - c) 0 then 1 else 0.

Lemma sbb_core a b c : u64 a -> u64 b -> 0 <= c <= 1 ->
  (W64 + a - b - c) mod W64 = (a - b - c) mod W64 /\
  Z.b2z (Z.eqb ((W64 + a - b - c) / W64) 0) = borrow_of a b c.
Proof.
  intros Ha Hb Hc. split.
  - replace (W64 + a - b - c) with (a - b - c + 1 * W64) by ring.
    apply Z.mod_add. unfold W64; lia.
  - unfold borrow_of. destruct (Z.ltb_spec (a - b - c) 0) as [Hlt|Hge].
    + rewrite Z.div_small by (unf; lia). reflexivity.
    + replace (W64 + a - b - c) with (a - b - c + 1 * W64) by ring.
      rewrite Z.div_add by (unfold W64; lia). rewrite Z.div_small by (unf; lia). reflexivity.
Qed.

Lemma sbb_spec a b c : u64 a -> u64 b -> 0 <= c <= 1 ->
  sbb a b c = ((a - b - c) mod W64, borrow_of a b c).
Proof.
  intros Ha Hb Hc. unfold sbb. w. cbv zeta. rewrite sub3_spec by auto.
  rewrite shiftr64. destruct (sbb_core a b c Ha Hb Hc) as [-> ->]. reflexivity.
Qed.

Lemma sbb_for_sub_with_borrow_spec a b c : u64 a -> u64 b -> 0 <= c <= 1 ->
  sbb_for_sub_with_borrow a b c = ((a - b - c) mod W64, borrow_of a b c).
Proof.
  intros Ha Hb Hc. unfold sbb_for_sub_with_borrow. w. cbv zeta.
  rewrite sub3_spec by auto.
  rewrite shiftr64. destruct (sbb_core a b c Ha Hb Hc) as [-> ->]. reflexivity.
Qed.

Lemma sbb_m_spec a b c : u64 a -> u64 b -> 0 <= c <= 1 ->
  sbb_m a b c = ((a - b - c) mod W64, borrow_of a b c).
Proof.
  intros Ha Hb Hc. unfold sbb_m. w. cbv zeta. rewrite sub3_spec by auto.
  rewrite shiftr64. destruct (sbb_core a b c Ha Hb Hc) as [-> <-].
  destruct (Z.eqb _ 0); reflexivity.
Qed.

(* the characteristic equation of a borrow step *)
Lemma borrow_eq a b c : u64 a -> u64 b -> 0 <= c <= 1 ->
  (a - b - c) mod W64 - W64 * borrow_of a b c = a - b - c /\ 0 <= borrow_of a b c <= 1.
Proof.
  intros Ha Hb Hc. unfold borrow_of. destruct (Z.ltb_spec (a - b - c) 0).
  - replace ((a - b - c) mod W64) with (a - b - c + W64); [lia|].
    symmetry. replace (a - b - c) with (a - b - c + W64 + (-1) * W64) at 1 by ring.
    rewrite Z.mod_add by (unfold W64; lia). apply Z.mod_small. unf. lia.
  - rewrite Z.mod_small by (unf; lia). lia.
Qed.

Lemma mac_with_carry_val a b c k : u64 a -> u64 b -> u64 c -> u64 k ->
  ((a + widening_mul b c) mod W128 + k) mod W128 = a + b * c + k.
Proof.
  intros. rewrite widening_mul_spec by auto.
  rewrite (small_mod (a + b * c)) by (unf; nia). apply small_mod. unf. nia.
Qed.

Lemma mac_with_carry_spec a b c k : u64 a -> u64 b -> u64 c -> u64 k ->
  mac_with_carry a b c k = ((a + b * c + k) mod W64, (a + b * c + k) / W64).
Proof.
  intros. unfold mac_with_carry. w. cbv zeta. rewrite mac_with_carry_val by auto.
  rewrite shiftr64. f_equal. apply small_mod.
  split; [apply Z.div_pos; unf; nia|]. apply Z.div_lt_upper_bound; unf; nia.
Qed.

Lemma mac_with_carry_m_spec a b c k : u64 a -> u64 b -> u64 c -> u64 k ->
  mac_with_carry_m a b c k = ((a + b * c + k) mod W64, (a + b * c + k) / W64).
Proof.
  intros. unfold mac_with_carry_m. w. cbv zeta. rewrite mac_with_carry_val by auto.
  rewrite shiftr64. f_equal. apply small_mod.
  split; [apply Z.div_pos; unf; nia|]. apply Z.div_lt_upper_bound; unf; nia.
Qed.

Lemma mac_val a b c : u64 a -> u64 b -> u64 c -> (a + widening_mul b c) mod W128 = a + b * c.
Proof. intros. rewrite widening_mul_spec by auto. apply small_mod. unf. nia. Qed.

Lemma mac_spec a b c k : u64 a -> u64 b -> u64 c ->
  mac a b c k = ((a + b * c) mod W64, (a + b * c) / W64).
Proof.
  intros. unfold mac. w. cbv zeta. rewrite mac_val by auto. rewrite shiftr64. f_equal.
  apply small_mod. split; [apply Z.div_pos; unf; nia|]. apply Z.div_lt_upper_bound; unf; nia.
Qed.

Lemma mac_m_spec a b c k : u64 a -> u64 b -> u64 c ->
  mac_m a b c k = ((a + b * c) mod W64, (a + b * c) / W64).
Proof.
  intros. unfold mac_m. w. cbv zeta. rewrite mac_val by auto. rewrite shiftr64. f_equal.
  apply small_mod. split; [apply Z.div_pos; unf; nia|]. apply Z.div_lt_upper_bound; unf; nia.
Qed.

Lemma mac_discard_spec a b c k : u64 a -> u64 b -> u64 c ->
  mac_discard a b c k = (a + b * c) / W64.
Proof.
  intros. unfold mac_discard. w. cbv zeta. rewrite mac_val by auto. rewrite shiftr64.
  apply small_mod. split; [apply Z.div_pos; unf; nia|]. apply Z.div_lt_upper_bound; unf; nia.
Qed.

(* the division equation, in the form every chain lemma uses *)
Lemma divmod_eq x : x mod W64 + W64 * (x / W64) = x.
Proof. pose proof (Z.div_mod x W64). unfold W64 in *. lia. Qed.
