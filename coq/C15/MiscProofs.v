(* Order facts, parity predicates, const_num_bits, iterators without leading/trailing zeros. *)
From V Require Import Base.Word C15.GenArith C15.LeafSpecs C15.BigIntModel C15.BigIntProofs
  C15.ShiftProofs C15.BitsProofs C15.RecodeProofs.

(* ---------- cmp is the total order of the values ---------- *)

Theorem cmp_eq_iff : forall a b, wf a -> wf b -> length a = length b ->
  (cmp a b = Eq <-> a = b).
Proof.
  intros a b Ha Hb Hl. rewrite cmp_spec by auto. rewrite Z.compare_eq_iff. split.
  - apply val_inj; auto.
  - intros ->. reflexivity.
Qed.

Theorem cmp_antisym : forall a b, wf a -> wf b -> length a = length b ->
  cmp b a = CompOpp (cmp a b).
Proof.
  intros a b Ha Hb Hl. rewrite !cmp_spec by auto. apply Z.compare_antisym.
Qed.

Theorem cmp_lt_trans : forall a b c, wf a -> wf b -> wf c -> length a = length b -> length b = length c ->
  cmp a b = Lt -> cmp b c = Lt -> cmp a c = Lt.
Proof.
  intros a b c Ha Hb Hc Hl1 Hl2. rewrite !cmp_spec by (auto; congruence).
  rewrite !Z.compare_lt_iff. lia.
Qed.

(* ---------- parity ---------- *)

Theorem is_even_spec : forall a, is_even a = (val a mod 2 =? 0).
Proof.
  intros a. unfold is_even. rewrite is_odd_spec.
  pose proof (Z.mod_pos_bound (val a) 2 ltac:(lia)).
  destruct (Z.eqb_spec (val a mod 2) 1), (Z.eqb_spec (val a mod 2) 0); cbn [negb]; try reflexivity; lia.
Qed.

(* ---------- const_num_bits: looks at the top limb only ---------- *)

Lemma num_bits_app_top : forall a x, wf a -> u64 x -> x <> 0 ->
  num_bits (a ++ [x]) = 64 * Z.of_nat (length a) + bitlen x.
Proof.
  induction a as [|y a IH]; intros x Ha Hx Hne.
  - cbn [app num_bits length]. cbn [Z.eqb Z.of_nat]. lia.
  - apply wf_cons in Ha as [Hy Ha]. cbn [app num_bits length]. rewrite IH by auto.
    assert (0 < bitlen x).
    { unfold bitlen. destruct (Z.eqb_spec x 0); [lia|]. pose proof (Z.log2_nonneg x). lia. }
    destruct (Z.eqb_spec (64 * Z.of_nat (length a) + bitlen x) 0); lia.
Qed.

(* equals num_bits exactly when the top limb is non-zero (as for every shipped modulus) *)
Theorem const_num_bits_spec : forall a, wf a -> a <> [] -> last a 0 <> 0 ->
  const_num_bits a = num_bits a /\ const_num_bits a = bit_length (val a).
Proof.
  intros a Ha Hne Htop.
  assert (Heq : const_num_bits a = num_bits a).
  { rewrite (app_removelast_last 0 Hne) at 2. rewrite (app_removelast_last 0 Hne) in Ha.
    apply wf_app in Ha as [Hr Hx]. apply wf_cons in Hx as [Hx _].
    rewrite num_bits_app_top by auto. unfold const_num_bits.
    assert (Hl : length a = S (length (removelast a))).
    { rewrite (app_removelast_last 0 Hne) at 1. rewrite app_length. cbn [length]. lia. }
    rewrite Hl. lia. }
  split; [exact Heq|]. rewrite Heq. apply num_bits_spec. exact Ha.
Qed.

(* ---------- bit iterators that skip zeros ---------- *)

Lemma testbit_above_bit_length v i : 0 <= v -> bit_length v <= i -> Z.testbit v i = false.
Proof.
  intros Hv Hi. unfold bit_length in Hi. destruct (Z.eqb_spec v 0) as [->|Hne]; [apply Z.bits_0|].
  apply Z.bits_above_log2; lia.
Qed.

Lemma dval_all_zero k l : Forall (fun d => d = 0) l -> dval k l = 0.
Proof. induction 1 as [|d l -> _ IH]; cbn [dval]; [reflexivity | rewrite IH; lia]. Qed.

Lemma nth_skipn' {A} : forall k (l : list A) j d, nth j (skipn k l) d = nth (k + j) l d.
Proof.
  induction k as [|k IH]; intros l j d; [reflexivity|].
  destruct l as [|x l]; [destruct j; reflexivity|]. cbn [skipn Nat.add nth]. apply IH.
Qed.

(* BitIteratorLE::without_trailing_zeros: exactly num_bits bits, same value *)
Theorem bits_le_ntz_spec : forall a, wf a ->
  Z.of_nat (length (bits_le_ntz a)) = num_bits a /\ Forall is_bit (bits_le_ntz a) /\
  dval 1 (bits_le_ntz a) = val a.
Proof.
  intros a Ha. unfold bits_le_ntz.
  destruct (to_bits_le_spec a Ha) as (Hl & Hb & Hv & Hn).
  pose proof (val_bound a Ha) as Hbd.
  rewrite num_bits_spec by auto.
  assert (Hbl : 0 <= bit_length (val a) <= 64 * Z.of_nat (length a)).
  { unfold bit_length. destruct (Z.eqb_spec (val a) 0); [lia|].
    pose proof (Z.log2_nonneg (val a)). split; [lia|].
    rewrite Wn_pow2 in Hbd. assert (Z.log2 (val a) < 64 * Z.of_nat (length a)) by (apply Z.log2_lt_pow2; lia). lia. }
  set (k := Z.to_nat (bit_length (val a))).
  repeat split.
  - rewrite firstn_length, Hl. lia.
  - apply Forall_firstn. exact Hb.
  - rewrite <- Hv. rewrite <- (firstn_skipn k (to_bits_le a)) at 2. rewrite dval_app by lia.
    rewrite (dval_all_zero 1 (skipn k (to_bits_le a))); [lia|].
    apply Forall_forall. intros d Hin. apply (In_nth _ _ 0) in Hin as (j & Hj & <-).
    rewrite skipn_length in Hj. rewrite nth_skipn'. rewrite Hn by lia.
    rewrite testbit_above_bit_length by lia. reflexivity.
Qed.

Lemma skip_zeros_app_zeros z l : Forall (fun d => d = 0) z -> skip_zeros (z ++ l) = skip_zeros l.
Proof. induction 1 as [|d z -> _ IH]; cbn [app skip_zeros]; [reflexivity | exact IH]. Qed.

Lemma firstn_S_nth {A} : forall k (l : list A) d, (k < length l)%nat ->
  firstn (S k) l = firstn k l ++ [nth k l d].
Proof.
  induction k as [|k IH]; intros l d Hk; destruct l as [|x l]; cbn [length] in Hk; try lia.
  - reflexivity.
  - cbn [firstn nth app]. f_equal. apply IH. lia.
Qed.

(* BitIteratorBE::without_leading_zeros is the reverse of the little-endian one *)
Theorem bits_be_nlz_spec : forall a, wf a -> bits_be_nlz a = rev (bits_le_ntz a).
Proof.
  intros a Ha. unfold bits_be_nlz, bits_le_ntz, to_bits_be.
  destruct (to_bits_le_spec a Ha) as (Hl & Hb & Hv & Hn).
  pose proof (val_bound a Ha) as Hbd. rewrite num_bits_spec by auto.
  assert (Hbl : 0 <= bit_length (val a) <= 64 * Z.of_nat (length a)).
  { unfold bit_length. destruct (Z.eqb_spec (val a) 0); [lia|].
    pose proof (Z.log2_nonneg (val a)). split; [lia|].
    rewrite Wn_pow2 in Hbd. assert (Z.log2 (val a) < 64 * Z.of_nat (length a)) by (apply Z.log2_lt_pow2; lia). lia. }
  set (L := to_bits_le a) in *. set (k := Z.to_nat (bit_length (val a))).
  rewrite <- (firstn_skipn k L) at 1. rewrite rev_app_distr.
  rewrite skip_zeros_app_zeros.
  - destruct k as [|k'] eqn:Ek; [reflexivity|].
    rewrite (firstn_S_nth k' L 0) by lia. rewrite rev_app_distr. cbn [rev app].
    rewrite Hn by lia.
    assert (Hnz : val a <> 0).
    { intros E. unfold k, bit_length in Ek. rewrite E in Ek. cbn in Ek. lia. }
    assert (Hk' : Z.of_nat k' = Z.log2 (val a)).
    { unfold k, bit_length in Ek. destruct (Z.eqb_spec (val a) 0); [lia|]. pose proof (Z.log2_nonneg (val a)). lia. }
    rewrite Hk', Z.bit_log2 by lia. reflexivity.
  - apply Forall_rev. apply Forall_forall. intros d Hin. apply (In_nth _ _ 0) in Hin as (j & Hj & <-).
    rewrite skipn_length in Hj. rewrite nth_skipn'. rewrite Hn by lia.
    rewrite testbit_above_bit_length by lia. reflexivity.
Qed.
