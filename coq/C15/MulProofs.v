(* Schoolbook multiplication of the limb-level model: mul, mul_low, mul_high, every limb count. *)
From V Require Import Base.Word C15.GenArith C15.LeafSpecs C15.BigIntModel C15.BigIntProofs.

(* ---------- one row: acc[0..|ys|) += x * ys + carry ---------- *)

Lemma mac_row_spec : forall ys acc x c, wf ys -> wf acc -> u64 x -> u64 c ->
  (length ys <= length acc)%nat ->
  let '(row, cf) := mac_row acc x ys c in
  wf row /\ length row = length ys /\ u64 cf /\
  val row + Wn (length ys) * cf = val (firstn (length ys) acc) + x * val ys + c.
Proof.
  induction ys as [|y ys IH]; intros acc x c Hys Hacc Hx Hc Hlen.
  - destruct acc; cbn [mac_row val length firstn]; rewrite Wn_0; repeat split; try constructor; unfold u64 in *; lia.
  - destruct acc as [|r acc]; [cbn [length] in Hlen; lia|].
    apply wf_cons in Hys as [Hy Hys]. apply wf_cons in Hacc as [Hr Hacc].
    cbn [mac_row]. rewrite mac_with_carry_m_spec by auto.
    assert (Hc' : u64 ((r + x * y + c) / W64)).
    { unfold u64, W64 in *. split; [apply Z.div_pos; nia|]. apply Z.div_lt_upper_bound; nia. }
    cbn [length] in Hlen.
    specialize (IH acc x _ Hys Hacc Hx Hc' ltac:(lia)).
    destruct (mac_row acc x ys ((r + x * y + c) / W64)) as [rs cf].
    destruct IH as (Hw & Hl & Hcf & Hv).
    repeat split; try apply Hcf.
    + apply wf_cons. split; [apply mod_u64 | exact Hw].
    + cbn [length]. lia.
    + cbn [val length firstn]. rewrite Wn_S. pose proof (divmod_eq (r + x * y + c)). nia.
Qed.

Lemma mac_row_app : forall ys acc q x c, (length ys <= length acc)%nat ->
  mac_row (acc ++ q) x ys c = mac_row acc x ys c.
Proof.
  induction ys as [|y ys IH]; intros acc q x c Hlen.
  - destruct acc; [destruct q|]; reflexivity.
  - destruct acc as [|r acc]; [cbn [length] in Hlen; lia|].
    cbn [mac_row app]. destruct (mac_with_carry_m r x y c) as [v c'].
    rewrite IH by (cbn [length] in Hlen; lia). reflexivity.
Qed.

(* ---------- all rows ---------- *)

Lemma zeros_S n : zeros (S n) = 0 :: zeros n. Proof. reflexivity. Qed.
Lemma val_zeros n : val (zeros n) = 0. Proof. apply val_repeat0. Qed.
Lemma wf_zeros n : wf (zeros n). Proof. apply wf_repeat0. Qed.
Lemma length_zeros n : length (zeros n) = n. Proof. apply repeat_length. Qed.

Lemma mul_rows_spec : forall xs ys p, wf xs -> wf ys -> wf p -> length p = length ys ->
  let r := mul_rows xs ys (p ++ zeros (length xs)) in
  wf r /\ length r = (length ys + length xs)%nat /\ val r = val p + val xs * val ys.
Proof.
  induction xs as [|x xs IH]; intros ys p Hxs Hys Hp Hlen; cbv zeta.
  - cbn [mul_rows length zeros repeat val]. rewrite app_nil_r. repeat split; auto; lia.
  - apply wf_cons in Hxs as [Hx Hxs]. cbn [mul_rows length].
    rewrite mac_row_app by lia.
    pose proof (mac_row_spec ys p x 0 Hys Hp Hx ltac:(unfold u64, W64; lia) ltac:(lia)) as Hrow.
    destruct (mac_row p x ys 0) as [row c]. destruct Hrow as (Hwr & Hlr & Hc & Hv).
    rewrite <- Hlen in Hv at 2. rewrite firstn_all in Hv.
    rewrite skipn_app, <- Hlen, skipn_all, Nat.sub_diag. cbn [skipn app].
    rewrite zeros_S. cbn [set_first].
    (* row ++ c :: zeros = lo :: (p' ++ zeros) with |p'| = |ys| *)
    assert (Hsplit : exists lo p', row ++ [c] = lo :: p' /\ length p' = length ys).
    { destruct row as [|v row'].
      - exists c, []. split; [reflexivity|]. cbn [length] in *. lia.
      - exists v, (row' ++ [c]). split; [reflexivity|]. rewrite app_length. cbn [length] in *. lia. }
    destruct Hsplit as (lo & p' & Hsp & Hlp').
    replace (row ++ c :: zeros (length xs)) with ((row ++ [c]) ++ zeros (length xs))
      by (rewrite <- app_assoc; reflexivity).
    rewrite Hsp. cbn [app].
    assert (Hwrc : wf (row ++ [c])) by (apply wf_app; split; [auto | apply wf_cons; split; [auto | constructor]]).
    rewrite Hsp in Hwrc. apply wf_cons in Hwrc as [Hlo Hp'].
    assert (Hvrc : val (row ++ [c]) = val p + x * val ys).
    { rewrite val_app. cbn [val]. rewrite Hlr. lia. }
    rewrite Hsp in Hvrc. cbn [val] in Hvrc.
    specialize (IH ys p' Hxs Hys Hp' Hlp'). cbv zeta in IH. destruct IH as (Hw & Hl & Hvr).
    repeat split.
    + apply wf_cons. split; auto.
    + cbn [length]. lia.
    + cbn [val]. rewrite Hvr. nia.
Qed.

Theorem mul_spec : forall a b, wf a -> wf b -> length a = length b ->
  let '(lo, hi) := mul a b in
  wf lo /\ wf hi /\ length lo = length a /\ length hi = length a /\
  val lo + Wn (length a) * val hi = val a * val b.
Proof.
  intros a b Ha Hb Hl. unfold mul.
  rewrite (is_zero_spec a Ha), (is_zero_spec b Hb).
  destruct (Z.eqb_spec (val a) 0) as [Ha0|Ha0]; [|destruct (Z.eqb_spec (val b) 0) as [Hb0|Hb0]]; cbn [orb].
  - rewrite val_zeros, Ha0. repeat split; try apply wf_zeros; try apply length_zeros. lia.
  - rewrite val_zeros, Hb0. repeat split; try apply wf_zeros; try apply length_zeros. lia.
  - assert (Hz : zeros (length a + length a) = zeros (length b) ++ zeros (length a)).
    { unfold zeros. rewrite Hl. apply repeat_app. }
    rewrite Hz.
    pose proof (mul_rows_spec a b (zeros (length b)) Ha Hb (wf_zeros _) (length_zeros _)) as H.
    cbv zeta in H. set (r := mul_rows a b (zeros (length b) ++ zeros (length a))) in *.
    destruct H as (Hw & Hlen & Hv). rewrite val_zeros in Hv.
    rewrite <- (firstn_skipn (length a) r) in Hw, Hv.
    apply wf_app in Hw as [Hw1 Hw2].
    assert (Hl1 : length (firstn (length a) r) = length a) by (rewrite firstn_length; lia).
    rewrite val_app, Hl1 in Hv.
    repeat split; auto. rewrite skipn_length. lia.
Qed.

Theorem mul_high_spec : forall a b, wf a -> wf b -> length a = length b ->
  wf (mul_high a b) /\ length (mul_high a b) = length a /\
  val (mul_high a b) = (val a * val b) / Wn (length a).
Proof.
  intros a b Ha Hb Hl. unfold mul_high. pose proof (mul_spec a b Ha Hb Hl) as H.
  destruct (mul a b) as [lo hi]. destruct H as (Hwl & Hwh & Hll & Hlh & Hv). cbn [snd].
  repeat split; auto. pose proof (val_bound lo Hwl) as Hb'. rewrite Hll in Hb'.
  apply Z.div_unique with (r := val lo); [left; lia | lia].
Qed.

Corollary mul_lo_mod : forall a b, wf a -> wf b -> length a = length b ->
  val (fst (mul a b)) = (val a * val b) mod Wn (length a).
Proof.
  intros a b Ha Hb Hl. pose proof (mul_spec a b Ha Hb Hl) as H.
  destruct (mul a b) as [lo hi]. destruct H as (Hwl & Hwh & Hll & Hlh & Hv). cbn [fst].
  pose proof (val_bound lo Hwl) as Hb'. rewrite Hll in Hb'.
  apply Z.mod_unique with (q := val hi); [left; lia | lia].
Qed.

(* ---------- mul_low ---------- *)

Lemma mod_scale lo A M : 0 <= lo < W64 -> 0 < M ->
  (lo + W64 * A) mod (W64 * M) = lo + W64 * (A mod M).
Proof.
  intros Hlo HM. symmetry. apply Z.mod_unique with (q := A / M).
  - left. pose proof (Z.mod_pos_bound A M HM). unfold W64 in *. nia.
  - pose proof (Z.div_mod A M ltac:(lia)). nia.
Qed.

Lemma mul_low_rows_spec : forall xs ys r, wf xs -> wf ys -> wf r ->
  length xs = length r -> (length r <= length ys)%nat ->
  let o := mul_low_rows xs ys r in
  wf o /\ length o = length r /\ val o = (val r + val xs * val ys) mod Wn (length r).
Proof.
  induction xs as [|x xs IH]; intros ys r Hxs Hys Hr Hlx Hly; cbv zeta.
  - destruct r; [|discriminate]. cbn [mul_low_rows val length]. rewrite Wn_0, Z.mod_1_r. auto.
  - apply wf_cons in Hxs as [Hx Hxs]. cbn [mul_low_rows].
    assert (Hwf : wf (firstn (length r) ys)).
    { rewrite <- (firstn_skipn (length r) ys) in Hys. apply wf_app in Hys. tauto. }
    assert (Hlf : length (firstn (length r) ys) = length r) by (rewrite firstn_length; lia).
    pose proof (mac_row_spec (firstn (length r) ys) r x 0 Hwf Hr Hx ltac:(unfold u64, W64; lia) ltac:(lia)) as Hrow.
    destruct (mac_row r x (firstn (length r) ys) 0) as [row c].
    destruct Hrow as (Hwr & Hlr & Hc & Hv). rewrite Hlf in *. rewrite firstn_all in Hv.
    destruct row as [|lo rest]; [cbn [length] in *; lia|].
    apply wf_cons in Hwr as [Hlo Hrest].
    destruct r as [|r0 r']; [discriminate|]. cbn [length] in *.
    specialize (IH ys rest Hxs Hys Hrest ltac:(lia) ltac:(lia)). cbv zeta in IH.
    destruct IH as (Hw & Hl & Hvo).
    repeat split.
    + apply wf_cons; auto.
    + cbn [length]. lia.
    + cbn [val length] in *. rewrite Hvo.
      replace (length rest) with (length r') by lia. rewrite Wn_S.
      rewrite <- mod_scale by (auto; apply Wn_pos).
      (* val ys = low part + Wn * high part *)
      pose proof (firstn_skipn (S (length r')) ys) as Hsplit.
      assert (Hvy : val ys = val (firstn (S (length r')) ys) + Wn (S (length r')) * val (skipn (S (length r')) ys)).
      { rewrite <- Hsplit at 1. rewrite val_app, Hlf. reflexivity. }
      rewrite Wn_S in Hvy, Hv.
      set (ylo := val (firstn (S (length r')) ys)) in *.
      set (yhi := val (skipn (S (length r')) ys)) in *.
      set (M := Wn (length r')) in *.
      replace (r0 + W64 * val r' + (x + W64 * val xs) * val ys)
        with (lo + W64 * (val rest + val xs * val ys) + (c + x * yhi) * (W64 * M)) by nia.
      symmetry. apply Z.mod_add. pose proof (Wn_pos (length r')). unfold W64. fold M. nia.
Qed.

Theorem mul_low_spec : forall a b, wf a -> wf b -> length a = length b ->
  wf (mul_low a b) /\ length (mul_low a b) = length a /\
  val (mul_low a b) = (val a * val b) mod Wn (length a).
Proof.
  intros a b Ha Hb Hl. unfold mul_low.
  rewrite (is_zero_spec a Ha), (is_zero_spec b Hb).
  pose proof (Wn_pos (length a)) as HW.
  destruct (Z.eqb_spec (val a) 0) as [Ha0|Ha0]; [|destruct (Z.eqb_spec (val b) 0) as [Hb0|Hb0]]; cbn [orb].
  - rewrite val_zeros, Ha0. repeat split; try apply wf_zeros; try apply length_zeros.
  - rewrite val_zeros, Hb0. repeat split; try apply wf_zeros; try apply length_zeros.
    rewrite Z.mul_0_r, Z.mod_0_l by lia. reflexivity.
  - pose proof (mul_low_rows_spec a b (zeros (length a)) Ha Hb (wf_zeros _)) as H.
    rewrite length_zeros in H. specialize (H eq_refl ltac:(lia)). cbv zeta in H.
    rewrite val_zeros in H. exact H.
Qed.

(* mul_low is the low half of mul *)
Corollary mul_low_eq_mul : forall a b, wf a -> wf b -> length a = length b ->
  mul_low a b = fst (mul a b).
Proof.
  intros a b Ha Hb Hl. destruct (mul_low_spec a b Ha Hb Hl) as (Hw & Hlen & Hv).
  pose proof (mul_lo_mod a b Ha Hb Hl) as Hm. pose proof (mul_spec a b Ha Hb Hl) as H.
  destruct (mul a b) as [lo hi]. destruct H as (Hwl & _ & Hll & _). cbn [fst] in *.
  apply val_inj; auto; congruence.
Qed.
