(* Signed-digit recodings: find_wnaf, find_naf, find_relaxed_naf reconstruct the value and
   obey their digit constraints, for every limb count, every window 2 <= w < 64 and every
   value (no side condition: the carry out of `+ |d|` re-enters after the halving). *)
From V Require Import Base.Word C15.GenArith C15.LeafSpecs C15.BigIntModel C15.BigIntProofs
  C15.ShiftProofs.

(* value of a little-endian signed digit string: sum d_i 2^i *)
Fixpoint deval (ds : list Z) : Z :=
  match ds with [] => 0 | d :: r => d + 2 * deval r end.

Definition digit_ok (w d : Z) : Prop :=
  d = 0 \/ (d mod 2 = 1 /\ - 2 ^ (w - 1) < d < 2 ^ (w - 1)).

(* the first n digits (those that exist) are zero *)
Fixpoint zeros_prefix (n : nat) (l : list Z) : Prop :=
  match n, l with
  | O, _ => True
  | _, [] => True
  | S n', d :: r => d = 0 /\ zeros_prefix n' r
  end.

(* every non-zero digit is followed by n zero digits *)
Fixpoint sparse (n : nat) (l : list Z) : Prop :=
  match l with
  | [] => True
  | d :: r => (d <> 0 -> zeros_prefix n r) /\ sparse n r
  end.

Lemma zeros_prefix_nth : forall n l k, zeros_prefix n l -> (k < n)%nat -> nth k l 0 = 0.
Proof.
  induction n as [|n IH]; intros l k H Hk; [lia|].
  destruct l as [|d r]; [destruct k; reflexivity|]. cbn [zeros_prefix] in H. destruct H as [-> H].
  destruct k as [|k]; [reflexivity|]. cbn [nth]. apply IH; auto. lia.
Qed.

(* among any n+1 consecutive digits at most one is non-zero *)
Lemma sparse_nth : forall n l i k, sparse n l -> (0 < k <= n)%nat ->
  nth i l 0 <> 0 -> nth (i + k) l 0 = 0.
Proof.
  intros n l. induction l as [|d r IH]; intros i k Hs Hk Hi.
  - destruct (i + k)%nat; reflexivity.
  - cbn [sparse] in Hs. destruct Hs as [Hd Hr]. destruct i as [|i].
    + cbn [nth] in Hi. cbn [Nat.add]. destruct k as [|k]; [lia|]. cbn [nth].
      apply (zeros_prefix_nth n); auto. lia.
    + cbn [nth Nat.add] in *. apply IH; auto.
Qed.

(* ---------- ingredients of one step ---------- *)

Lemma W64_even v : (W64 * v) = 2 * (2 ^ 63 * v).
Proof. change W64 with (2 * 2 ^ 63). ring. Qed.

Lemma val_mod2 x r : val (x :: r) mod 2 = x mod 2.
Proof.
  cbn [val]. rewrite W64_even. replace (x + 2 * (2 ^ 63 * val r)) with (x + (2 ^ 63 * val r) * 2) by ring.
  apply Z.mod_add. lia.
Qed.

Lemma is_odd_spec e : is_odd e = (val e mod 2 =? 1).
Proof.
  unfold is_odd. destruct e as [|x r]; [reflexivity|]. cbn [hd]. rewrite val_mod2.
  change 1 with (Z.ones 1) at 1. rewrite Z.land_ones by lia. reflexivity.
Qed.

Lemma from_u64_spec n z : u64 z ->
  wf (from_u64 (S n) z) /\ length (from_u64 (S n) z) = S n /\ val (from_u64 (S n) z) = z.
Proof.
  intros Hz. cbn [from_u64]. repeat split.
  - apply wf_cons. split; [auto | apply wf_repeat0].
  - cbn [length]. unfold zeros. rewrite repeat_length. reflexivity.
  - cbn [val]. unfold zeros. rewrite val_repeat0. lia.
Qed.

Lemma pow2_half w : 1 <= w -> 2 ^ w = 2 * 2 ^ (w - 1).
Proof. intros. replace w with (1 + (w - 1)) at 1 by ring. rewrite Z.pow_add_r by lia. reflexivity. Qed.

Lemma smr_spec n w : 0 <= n -> 1 <= w ->
  let z := signed_mod_reduction n (2 ^ w) in
  (exists q, n - z = 2 ^ w * q) /\ - 2 ^ (w - 1) <= z < 2 ^ (w - 1) /\ (0 <= z -> z <= n) /\
  (z < 0 -> - z <= 2 ^ (w - 1)).
Proof.
  intros Hn Hw. cbv zeta. unfold signed_mod_reduction.
  pose proof (pow2_half w Hw) as Hh. pose proof (pow2_gt0 (w - 1) ltac:(lia)) as Hp.
  assert (Hd : 2 ^ w / 2 = 2 ^ (w - 1)) by (rewrite Hh, Z.mul_comm; apply Z.div_mul; lia).
  rewrite Hd.
  pose proof (Z.div_mod n (2 ^ w) ltac:(lia)) as Hdm.
  pose proof (Z.mod_pos_bound n (2 ^ w) ltac:(lia)) as Hb.
  assert (0 <= n / 2 ^ w) by (apply Z.div_pos; lia).
  destruct (Z.leb_spec (2 ^ (w - 1)) (n mod 2 ^ w)) as [Hge|Hlt].
  - split; [exists (n / 2 ^ w + 1); lia|]. repeat split; lia.
  - split; [exists (n / 2 ^ w); lia|]. repeat split; lia.
Qed.

(* set_top_bit adds 2^(64N-1) when the top bit is clear *)
Lemma set_top_bit_spec : forall a, wf a -> a <> [] -> 2 * val a < Wn (length a) ->
  wf (set_top_bit a) /\ length (set_top_bit a) = length a /\
  2 * val (set_top_bit a) = 2 * val a + Wn (length a).
Proof.
  induction a as [|x a IH]; intros Ha Hne Hlt; [congruence|].
  apply wf_cons in Ha as [Hx Ha]. destruct a as [|y r].
  - cbn [set_top_bit val length] in *. rewrite Wn_S, Wn_0 in *. unfold u64 in *.
    assert (Hx63 : 0 <= x < 2 ^ 63) by (change (2 ^ 63) with 9223372036854775808; unfold W64 in *; lia).
    rewrite Z.shiftl_1_l. replace (2 ^ 63) with (1 * 2 ^ 63) at 1 2 by lia.
    rewrite lor_shifted' by lia.
    assert (HW : W64 = 2 * 2 ^ 63) by reflexivity.
    split; [|split; [reflexivity|lia]].
    apply wf_cons. split; [unfold u64; lia | constructor].
  - change (set_top_bit (x :: y :: r)) with (x :: set_top_bit (y :: r)).
    set (t := y :: r) in *. cbn [val length] in Hlt. rewrite Wn_S in Hlt.
    pose proof (Wn_pos (length t)). unfold u64 in Hx. pose proof W64_pos.
    specialize (IH Ha ltac:(discriminate) ltac:(nia)). destruct IH as (Hw & Hl & Hv).
    repeat split.
    + apply wf_cons. split; auto.
    + cbn [length]. lia.
    + cbn [val length]. rewrite Wn_S. nia.
Qed.

(* ---------- one step of the recoding loop ---------- *)

Definition wnaf_step (w : Z) (e : list Z) : Z * list Z :=
  let N := length e in
  let '(z, e1, carry) :=
    if is_odd e then
      let z := signed_mod_reduction (hd 0 e) (Z.shiftl 1 w) in
      if 0 <=? z then (z, fst (sub_with_borrow e (from_u64 N z)), false)
      else let '(r, c) := add_with_carry e (from_u64 N (- z)) in (z, r, c)
    else (0, e, false) in
  let e2 := div2 e1 in
  (z, if carry then set_top_bit e2 else e2).

Lemma wnaf_loop_S f w e :
  wnaf_loop (S f) w e =
  if is_zero e then Some []
  else let '(z, e3) := wnaf_step w e in
       match wnaf_loop f w e3 with None => None | Some ds => Some (z :: ds) end.
Proof.
  unfold wnaf_step. cbn [wnaf_loop]. destruct (is_zero e); [reflexivity|].
  destruct (is_odd e); [|reflexivity].
  destruct (0 <=? signed_mod_reduction (hd 0 e) (Z.shiftl 1 w)); [reflexivity|].
  destruct (add_with_carry e (from_u64 (length e) (- signed_mod_reduction (hd 0 e) (Z.shiftl 1 w)))).
  reflexivity.
Qed.

Lemma even_half v : v mod 2 = 0 -> 2 * (v / 2) = v.
Proof. intros H. pose proof (Z.div_mod v 2 ltac:(lia)). lia. Qed.

Lemma Wn_S_even n : Wn (S n) = 2 * (2 ^ 63 * Wn n).
Proof. rewrite Wn_S. apply W64_even. Qed.

Lemma wnaf_step_spec w e : 2 <= w < 64 -> wf e -> val e <> 0 ->
  let '(z, e3) := wnaf_step w e in
  wf e3 /\ length e3 = length e /\ 2 * val e3 = val e - z /\
  ((z = 0 /\ val e mod 2 = 0) \/
   (val e mod 2 = 1 /\ z mod 2 = 1 /\ - 2 ^ (w - 1) < z < 2 ^ (w - 1) /\
    exists q, val e - z = 2 ^ w * q)).
Proof.
  intros Hw He Hne. unfold wnaf_step. rewrite is_odd_spec.
  destruct e as [|x r]; [cbn [val] in Hne; lia|].
  pose proof He as He'. apply wf_cons in He' as [Hx Hr].
  pose proof (val_bound _ He) as Hb. set (e := x :: r) in *.
  assert (HN : length e = S (length r)) by reflexivity.
  pose proof (Z.mod_pos_bound (val e) 2 ltac:(lia)) as Hm2.
  destruct (Z.eqb_spec (val e mod 2) 1) as [Hodd|Heven].
  - (* odd *)
    cbn [hd e]. rewrite Z.shiftl_1_l.
    unfold u64 in Hx.
    destruct (smr_spec x w ltac:(lia) ltac:(lia)) as ((q & Hq) & Hz & Hzpos & Hzneg).
    set (z := signed_mod_reduction x (2 ^ w)) in *.
    pose proof (pow2_half w ltac:(lia)) as Hh.
    pose proof (pow2_gt0 (w - 1) ltac:(lia)) as Hp.
    assert (Hp64 : 2 ^ (w - 1) < W64).
    { rewrite <- W64_eq. apply Z.pow_lt_mono_r; lia. }
    assert (Hxm : x mod 2 = 1) by (unfold e in Hodd; rewrite val_mod2 in Hodd; exact Hodd).
    assert (Hzodd : z mod 2 = 1).
    { replace z with (x + (- (q * 2 ^ (w - 1))) * 2) by lia. rewrite Z.mod_add by lia. exact Hxm. }
    assert (Hh2 : 2 ^ (w - 1) mod 2 = 0).
    { rewrite (pow2_half (w - 1)) by lia. rewrite Z.mul_comm. apply Z.mod_mul. lia. }
    assert (Hzne : z <> - 2 ^ (w - 1)).
    { intros E. rewrite E in Hzodd.
      replace (- 2 ^ (w - 1)) with (2 ^ (w - 1) + (- 2 ^ (w - 1)) * 2) in Hzodd by ring.
      rewrite Z.mod_add in Hzodd by lia. lia. }
    assert (Hqe : exists q', val e - z = 2 ^ w * q').
    { exists (q + 2 ^ (64 - w) * val r). unfold e. cbn [val].
      rewrite <- (W64_split w (64 - w)) by lia. lia. }
    assert (Hdiff : (val e - z) mod 2 = 0).
    { destruct Hqe as (q' & ->). rewrite Hh.
      replace (2 * 2 ^ (w - 1) * q') with ((2 ^ (w - 1) * q') * 2) by ring. apply Z.mod_mul. lia. }
    destruct (Z.leb_spec 0 z) as [Hz0|Hz0].
    + (* subtract *)
      rewrite HN.
      destruct (from_u64_spec (length r) z ltac:(unfold u64; lia)) as (Hwz & Hlz & Hvz).
      pose proof (sub_with_borrow_spec e _ He Hwz ltac:(rewrite Hlz; exact HN)) as Hs.
      destruct (sub_with_borrow e (from_u64 (S (length r)) z)) as [r1 c]. cbn [fst].
      destruct Hs as (Hw1 & Hl1 & Hv1). rewrite Hvz in Hv1.
      pose proof (val_bound _ Hw1) as Hb1. rewrite Hl1 in Hb1.
      assert (Hxe : x <= val e) by (unfold e; cbn [val]; pose proof (val_bound r Hr); pose proof W64_pos; nia).
      assert (Hc : c = false).
      { destruct c; [|reflexivity]. cbn [Z.b2z] in Hv1. lia. }
      subst c. cbn [Z.b2z] in Hv1.
      destruct (div2_spec r1 Hw1) as (Hw2 & Hl2 & Hv2).
      repeat split; auto; try lia.
      * rewrite Hv2. rewrite even_half; [lia|]. replace (val r1) with (val e - z) by lia. exact Hdiff.
      * right. repeat split; auto; lia.
    + (* add, possibly overflowing *)
      rewrite HN.
      destruct (from_u64_spec (length r) (- z) ltac:(unfold u64; lia)) as (Hwz & Hlz & Hvz).
      pose proof (add_with_carry_spec e _ He Hwz ltac:(rewrite Hlz; exact HN)) as Hs.
      destruct (add_with_carry e (from_u64 (S (length r)) (- z))) as [r1 c].
      destruct Hs as (Hw1 & Hl1 & Hv1). rewrite Hvz in Hv1.
      pose proof (val_bound _ Hw1) as Hb1. rewrite Hl1 in Hb1.
      destruct (div2_spec r1 Hw1) as (Hw2 & Hl2 & Hv2).
      assert (HWe : Wn (length e) mod 2 = 0).
      { rewrite HN, Wn_S_even. rewrite Z.mul_comm. apply Z.mod_mul. lia. }
      assert (Hr1e : val r1 mod 2 = 0).
      { destruct c; cbn [Z.b2z] in Hv1.
        - replace (val r1) with ((val e - z) + (- (2 ^ 63 * Wn (length r))) * 2)
            by (rewrite HN, Wn_S_even in Hv1; lia).
          rewrite Z.mod_add by lia. exact Hdiff.
        - replace (val r1) with (val e - z) by lia. exact Hdiff. }
      pose proof (even_half _ Hr1e) as Hhalf.
      destruct c; cbn [Z.b2z] in Hv1.
      * assert (Hne2 : div2 r1 <> []).
        { intros E. rewrite E in Hl2. cbn [length] in Hl2. lia. }
        destruct (set_top_bit_spec (div2 r1) Hw2 Hne2 ltac:(rewrite Hl2, Hl1; lia)) as (Hw3 & Hl3 & Hv3).
        rewrite Hl2, Hl1 in Hv3.
        repeat split; auto; try lia. right. repeat split; auto; lia.
      * repeat split; auto; try lia. right. repeat split; auto; lia.
  - (* even *)
    assert (Hev : val e mod 2 = 0) by lia.
    destruct (div2_spec e He) as (Hw2 & Hl2 & Hv2).
    repeat split; auto.
    + rewrite Hv2, even_half by auto. lia.
Qed.

(* ---------- the loop ---------- *)

Definition pow2_divides (j : nat) (v : Z) : Prop := exists q, v = 2 ^ Z.of_nat j * q.

Lemma wnaf_loop_spec w : 2 <= w < 64 ->
  forall f e, wf e ->
  (val e = 0 /\ (1 <= f)%nat) \/ (exists k, 0 <= k /\ val e <= 2 ^ k /\ k + 2 <= Z.of_nat f) ->
  exists ds, wnaf_loop f w e = Some ds /\
    deval ds = val e /\ Forall (digit_ok w) ds /\ sparse (Z.to_nat (w - 1)) ds /\
    (forall j, pow2_divides j (val e) -> zeros_prefix j ds) /\
    (ds = [] \/ 0 < last ds 0) /\ (length ds < f)%nat.
Proof.
  intros Hw. induction f as [|f IH]; intros e He Hfuel.
  - exfalso. destruct Hfuel as [[_ H]|(k & H0 & _ & H)]; lia.
  - rewrite wnaf_loop_S, (is_zero_spec e He).
    pose proof (val_bound e He) as Hb.
    destruct (Z.eqb_spec (val e) 0) as [Hz|Hnz].
    + exists []. rewrite Hz. cbn [deval sparse length].
      repeat split; auto; try lia. intros [|j] _; exact I.
    + destruct Hfuel as [[H _]|(k & Hk0 & Hk & Hf)]; [lia|].
      pose proof (wnaf_step_spec w e Hw He Hnz) as Hstep.
      destruct (wnaf_step w e) as [z e3]. destruct Hstep as (Hw3 & Hl3 & Hv3 & Hcase).
      pose proof (val_bound e3 Hw3) as Hb3.
      pose proof (pow2_gt0 (w - 1) ltac:(lia)) as Hp. pose proof (pow2_half w ltac:(lia)) as Hh.
      (* fuel for the rest *)
      assert (Hfuel' : (val e3 = 0 /\ (1 <= f)%nat) \/
                       (exists k', 0 <= k' /\ val e3 <= 2 ^ k' /\ k' + 2 <= Z.of_nat f)).
      { destruct (Z.eq_dec (val e3) 0) as [H0|H0]; [left; lia|]. right.
        assert (Hk1 : 1 <= k).
        { destruct (Z.eq_dec k 0) as [->|]; [|lia]. change (2 ^ 0) with 1 in Hk.
          destruct Hcase as [[-> _]|(_ & _ & Hzb & (q & Hq))]; [lia|].
          rewrite Hh in Hq. set (h := 2 ^ (w - 1)) in *.
          assert (1 <= q) by nia. nia. }
        exists (k - 1). split; [lia|]. split; [|lia].
        pose proof (pow2_half k Hk1) as Hkh.
        destruct Hcase as [[-> Hev]|(Hodd & Hzodd & Hzb & (q & Hq))]; [lia|].
        (* e - z = 2^w q with q >= 1, so 2^(w-1) < e <= 2^k, hence w <= k *)
        assert (Hq1 : 1 <= q) by nia.
        assert (Hwk : w <= k).
        { destruct (Z.lt_ge_cases k w) as [Hlt|]; [|lia].
          assert (2 ^ k <= 2 ^ (w - 1)) by (apply Z.pow_le_mono_r; lia). nia. }
        assert (Hsplit : 2 ^ k = 2 ^ w * 2 ^ (k - w)).
        { rewrite <- Z.pow_add_r by lia. f_equal. lia. }
        pose proof (pow2_gt0 (k - w) ltac:(lia)) as HP.
        assert (Hqle : q <= 2 ^ (k - w)).
        { set (P := 2 ^ (k - w)) in *. set (h := 2 ^ (w - 1)) in *.
          assert (2 * h * q < 2 * h * P + h) by nia.
          assert (2 * q < 2 * P + 1) by nia. lia. }
        set (P := 2 ^ (k - w)) in *. set (h := 2 ^ (w - 1)) in *.
        assert (val e3 = h * q) by nia.
        assert (2 ^ (k - 1) = h * P) by nia. nia. }
      destruct (IH e3 Hw3 Hfuel') as (ds & Hrun & Hval & Hdig & Hsp & Hzp & Hlast & Hlen).
      rewrite Hrun. exists (z :: ds). split; [reflexivity|].
      split; [cbn [deval]; lia|].
      split.
      { constructor; auto. destruct Hcase as [[-> _]|(_ & Hzodd & Hzb & _)]; [left; reflexivity | right; auto]. }
      split.
      { cbn [sparse]. split; auto. intros Hz0.
        destruct Hcase as [[-> _]|(_ & _ & _ & (q & Hq))]; [congruence|].
        apply Hzp. exists q. rewrite Z2Nat.id by lia. nia. }
      split.
      { intros [|j] (q & Hq); [exact I|]. cbn [zeros_prefix].
        rewrite Nat2Z.inj_succ, Z.pow_succ_r in Hq by lia.
        destruct Hcase as [[-> Hev]|(Hodd & _)].
        - split; [reflexivity|]. apply Hzp. exists q. lia.
        - exfalso. rewrite Hq in Hodd.
          replace (2 * 2 ^ Z.of_nat j * q) with ((2 ^ Z.of_nat j * q) * 2) in Hodd by ring.
          rewrite Z.mod_mul in Hodd; lia. }
      split.
      { right. destruct ds as [|d ds'].
        - cbn [last]. cbn [deval] in Hval. lia.
        - destruct Hlast as [|Hl]; [discriminate|]. exact Hl. }
      cbn [length]. lia.
Qed.

(* ---------- find_wnaf ---------- *)

Theorem find_wnaf_spec : forall a w, wf a -> 2 <= w < 64 ->
  exists ds, find_wnaf a w = WnafDigits ds /\
    deval ds = val a /\
    Forall (digit_ok w) ds /\
    (forall i k, (0 < k <= Z.to_nat (w - 1))%nat -> nth i ds 0 <> 0 -> nth (i + k) ds 0 = 0) /\
    (ds = [] \/ 0 < last ds 0) /\
    (length ds <= 64 * length a + 1)%nat.
Proof.
  intros a w Ha Hw. unfold find_wnaf.
  destruct (Z.leb_spec 2 w); [|lia]. destruct (Z.ltb_spec w 64); [|lia]. cbn [andb].
  pose proof (val_bound a Ha) as Hb. rewrite Wn_pow2 in Hb.
  destruct (wnaf_loop_spec w Hw (64 * length a + 2) a Ha) as (ds & Hrun & Hval & Hdig & Hsp & _ & Hlast & Hlen).
  { right. exists (64 * Z.of_nat (length a)). split; [lia|]. split; lia. }
  rewrite Hrun. exists ds. repeat split; auto; [|lia].
  intros i k Hk Hi. apply (sparse_nth (Z.to_nat (w - 1))); auto.
Qed.

Theorem find_wnaf_bad_window : forall a w, ~ (2 <= w < 64) -> find_wnaf a w = WnafNone.
Proof.
  intros a w Hw. unfold find_wnaf.
  destruct (Z.leb_spec 2 w); destruct (Z.ltb_spec w 64); cbn [andb]; try reflexivity. lia.
Qed.

(* ---------- find_naf = find_wnaf with w = 2 ---------- *)

Lemma sbb_chain_eq : forall a b c, wf a -> wf b -> 0 <= c <= 1 -> sbb_chain a b c = sub_chain a b c.
Proof.
  induction a as [|x a IH]; intros [|y b] c Ha Hb Hc; [reflexivity | reflexivity | reflexivity |].
  apply wf_cons in Ha as [Hx Ha]. apply wf_cons in Hb as [Hy Hb].
  cbn [sbb_chain sub_chain]. rewrite sbb_spec, sbb_for_sub_with_borrow_spec by auto.
  destruct (borrow_eq x y c Hx Hy Hc) as [_ Hb01]. rewrite IH by auto. reflexivity.
Qed.

Lemma adc_chain_eq : forall a b c, wf a -> wf b -> 0 <= c <= 1 -> adc_chain a b c = add_chain a b c.
Proof.
  induction a as [|x a IH]; intros [|y b] c Ha Hb Hc; [reflexivity | reflexivity | reflexivity |].
  apply wf_cons in Ha as [Hx Ha]. apply wf_cons in Hb as [Hy Hb].
  cbn [adc_chain add_chain]. rewrite adc_spec, adc_for_add_with_carry_spec by (auto; unfold u64, W64; lia).
  pose proof (adc_carry_bit x y c Hx Hy Hc). rewrite IH by auto. reflexivity.
Qed.

Definition naf_step (num : list Z) : Z * list Z :=
  let '(z, n1, carry) :=
    if Z.land (hd 0 num) 1 =? 1 then
      let z := 2 - (hd 0 num) mod 4 in
      if 0 <=? z then (z, sub_small num z, 0)
      else let '(r, c) := add_small num (- z) in (z, r, c)
    else (0, num, 0) in
  let n2 := naf_div2 n1 in
  (z, if carry =? 0 then n2 else set_top_bit n2).

Lemma naf_loop_S f num :
  naf_loop (S f) num =
  if is_zero num then Some []
  else let '(z, n3) := naf_step num in
       match naf_loop f n3 with None => None | Some ds => Some (z :: ds) end.
Proof.
  unfold naf_step. cbn [naf_loop]. destruct (is_zero num); [reflexivity|].
  destruct (Z.land (hd 0 num) 1 =? 1); [|reflexivity].
  destruct (0 <=? 2 - hd 0 num mod 4); [reflexivity|].
  destruct (add_small num (- (2 - hd 0 num mod 4))). reflexivity.
Qed.

Lemma naf_step_eq num : wf num -> val num <> 0 -> naf_step num = wnaf_step 2 num.
Proof.
  intros Hn Hne. unfold naf_step, wnaf_step.
  change (Z.land (hd 0 num) 1 =? 1) with (is_odd num).
  pose proof (is_odd_spec num) as Hodd.
  destruct num as [|x r]; [cbn [val] in Hne; lia|].
  pose proof Hn as Hn'. apply wf_cons in Hn' as [Hx Hr]. cbn [hd] in *. rewrite val_mod2 in Hodd.
  destruct (is_odd (x :: r)); [|reflexivity].
  symmetry in Hodd. apply Z.eqb_eq in Hodd.
  change (Z.shiftl 1 2) with 4.
  assert (Hz : 2 - x mod 4 = signed_mod_reduction x 4).
  { unfold signed_mod_reduction. change (4 / 2) with 2.
    pose proof (Z.mod_pos_bound x 4 ltac:(lia)) as Hb4.
    assert (Hx4 : (x mod 4) mod 2 = 1).
    { change 4 with (2 * 2). rewrite Z.rem_mul_r by lia.
      replace (x mod 2 + 2 * ((x / 2) mod 2)) with (x mod 2 + ((x / 2) mod 2) * 2) by ring.
      rewrite Z.mod_add by lia. rewrite Z.mod_mod by lia. exact Hodd. }
    assert (x mod 4 = 1 \/ x mod 4 = 3) as [E|E].
    { assert (x mod 4 = 0 \/ x mod 4 = 1 \/ x mod 4 = 2 \/ x mod 4 = 3) as [E|[E|[E|E]]] by lia;
        rewrite E in Hx4; cbn in Hx4; try lia; auto. }
    - rewrite E. reflexivity.
    - rewrite E. reflexivity. }
  rewrite Hz. set (z := signed_mod_reduction x 4).
  assert (Hzb : -2 <= z < 2).
  { destruct (smr_spec x 2 ltac:(unfold u64 in Hx; lia) ltac:(lia)) as (_ & H & _).
    change (2 ^ 2) with 4 in H. change (2 ^ (2 - 1)) with 2 in H. exact H. }
  cbn [length].
  destruct (Z.leb_spec 0 z) as [Hz0|Hz0].
  - unfold sub_small, sub_with_borrow. cbn [length].
    destruct (from_u64_spec (length r) z ltac:(unfold u64, W64; lia)) as (Hwz & _).
    rewrite sbb_chain_eq by (auto; lia).
    destruct (sub_chain (x :: r) (from_u64 (S (length r)) z) 0). reflexivity.
  - unfold add_small, add_with_carry. cbn [length].
    destruct (from_u64_spec (length r) (- z) ltac:(unfold u64, W64; lia)) as (Hwz & _).
    rewrite adc_chain_eq by (auto; lia).
    destruct (add_chain (x :: r) (from_u64 (S (length r)) (- z)) 0) as [r1 c].
    unfold naf_div2. destruct (c =? 0); reflexivity.
Qed.

Lemma naf_loop_eq : forall f num, wf num -> naf_loop f num = wnaf_loop f 2 num.
Proof.
  induction f as [|f IH]; intros num Hn; [reflexivity|].
  rewrite naf_loop_S, wnaf_loop_S, (is_zero_spec num Hn).
  destruct (Z.eqb_spec (val num) 0) as [|Hne]; [reflexivity|].
  rewrite naf_step_eq by auto.
  pose proof (wnaf_step_spec 2 num ltac:(lia) Hn Hne) as Hs.
  destruct (wnaf_step 2 num) as [z n3]. destruct Hs as (Hw3 & _).
  rewrite IH by auto. reflexivity.
Qed.

Definition naf_digit (d : Z) : Prop := d = -1 \/ d = 0 \/ d = 1.

Lemma digit_ok_2 d : digit_ok 2 d -> naf_digit d.
Proof.
  unfold digit_ok, naf_digit. change (2 ^ (2 - 1)) with 2. intros [->|[Hodd Hb]]; [auto|].
  assert (d = -1 \/ d = 0 \/ d = 1) as [-> | [-> | ->]] by lia; auto.
Qed.

Theorem find_naf_spec : forall a, wf a ->
  exists ds, find_naf a = Some ds /\
    deval ds = val a /\
    Forall naf_digit ds /\
    (forall i, nth i ds 0 <> 0 -> nth (i + 1) ds 0 = 0) /\
    (ds = [] \/ last ds 0 = 1) /\
    (length ds <= 64 * length a + 1)%nat.
Proof.
  intros a Ha. unfold find_naf. rewrite naf_loop_eq by auto.
  pose proof (val_bound a Ha) as Hb. rewrite Wn_pow2 in Hb.
  destruct (wnaf_loop_spec 2 ltac:(lia) (64 * length a + 2) a Ha) as (ds & Hrun & Hval & Hdig & Hsp & _ & Hlast & Hlen).
  { right. exists (64 * Z.of_nat (length a)). split; [lia|]. split; lia. }
  exists ds. split; [exact Hrun|].
  assert (Hnd : Forall naf_digit ds) by (eapply Forall_impl; [|exact Hdig]; apply digit_ok_2).
  repeat split; auto; [| |lia].
  - intros i Hi. apply (sparse_nth (Z.to_nat (2 - 1))); auto; change (Z.to_nat (2 - 1)) with 1%nat; lia.
  - destruct Hlast as [|Hl]; [left; auto|right].
    destruct ds as [|d ds']; [cbn in Hl; lia|].
    assert (Hin : In (last (d :: ds') 0) (d :: ds')).
    { rewrite (app_removelast_last 0 (l := d :: ds')) at 2 by discriminate. apply in_or_app. right. left. reflexivity. }
    rewrite Forall_forall in Hnd. destruct (Hnd _ Hin) as [E|[E|E]]; lia.
Qed.

(* ---------- relaxed NAF ---------- *)

Lemma deval_app l1 l2 : deval (l1 ++ l2) = deval l1 + 2 ^ Z.of_nat (length l1) * deval l2.
Proof.
  induction l1 as [|d l1 IH]; cbn [app deval length].
  - change (2 ^ Z.of_nat 0) with 1. lia.
  - rewrite IH, Nat2Z.inj_succ, Z.pow_succ_r by lia. ring.
Qed.

Lemma split_last3 : forall (l : list Z) n, length l = (n + 3)%nat ->
  l = firstn n l ++ [nth n l 0; nth (n + 1) l 0; nth (n + 2) l 0].
Proof.
  intros l n. revert l. induction n as [|n IH]; intros l Hl.
  - destruct l as [|a [|b [|c [|d l]]]]; try discriminate. reflexivity.
  - destruct l as [|a l]; [discriminate|]. cbn [firstn app nth Nat.add]. f_equal. apply IH.
    cbn [length] in Hl. lia.
Qed.

Theorem find_relaxed_naf_spec : forall a, wf a ->
  exists ds naf, find_naf a = Some naf /\ find_relaxed_naf a = Some ds /\
    deval ds = val a /\
    Forall naf_digit ds /\
    (length ds <= length naf)%nat.
Proof.
  intros a Ha. destruct (find_naf_spec a Ha) as (res & Hrun & Hval & Hdig & _ & Hlast & _).
  unfold find_relaxed_naf. rewrite Hrun.
  destruct (Nat.leb_spec 3 (length res)) as [H3|H3]; [|exists res, res; auto].
  destruct ((nth (length res - 2) res 0 =? 0) && (nth (length res - 3) res 0 =? -1)) eqn:Hc;
    [|exists res, res; auto].
  apply andb_true_iff in Hc as [Hc2 Hc3]. apply Z.eqb_eq in Hc2, Hc3.
  set (n := (length res - 3)%nat) in *.
  assert (Hlen : length res = (n + 3)%nat) by lia.
  pose proof (split_last3 res n Hlen) as Hsp.
  replace (length res - 2)%nat with (n + 1)%nat in Hc2 by lia.
  rewrite Hc2, Hc3 in Hsp.
  assert (Htop : nth (n + 2) res 0 = 1).
  { destruct Hlast as [E|E]; [rewrite E in Hlen; cbn in Hlen; lia|].
    rewrite Hsp in E at 1.
    replace (firstn n res ++ [-1; 0; nth (n + 2) res 0])
      with ((firstn n res ++ [-1; 0]) ++ [nth (n + 2) res 0]) in E by (rewrite <- app_assoc; reflexivity).
    rewrite last_last in E. exact E. }
  rewrite Htop in Hsp.
  exists (firstn n res ++ [1; 1]), res. repeat split; auto.
  - rewrite <- Hval. rewrite Hsp at 2. rewrite !deval_app. cbn [deval]. ring.
  - apply Forall_app. split.
    + rewrite <- (firstn_skipn n res) in Hdig. apply Forall_app in Hdig. tauto.
    + constructor; [unfold naf_digit; auto | constructor; [unfold naf_digit; auto | constructor]].
  - rewrite app_length, firstn_length. cbn [length]. lia.
Qed.
