(* Uniform case interpreter for the C15 model: opcode -> argument lists -> result lists.
   First result list is the status: [0] ok, [1;kind] error, [2] panic, [9] unsupported. *)
From V Require Import Base.Word C15.GenArith C15.BigIntModel.

Definition ok (r : list (list Z)) : list (list Z) := [0] :: r.
Definition err (k : Z) : list (list Z) := [[1; k]].
Definition panic : list (list Z) := [[2]].
Definition unsupported : list (list Z) := [[9]].
Definition b2l (b : bool) : list Z := [Z.b2z b].
Definition cmp2z (c : comparison) : Z := match c with Lt => -1 | Eq => 0 | Gt => 1 end.

Definition arg (n : nat) (a : list (list Z)) : list Z := nth n a [].
Definition arg0 (n : nat) (a : list (list Z)) : Z := hd 0 (arg n a).

Definition run_C15 (op : Z) (a : list (list Z)) : list (list Z) :=
  let N := Z.to_nat (arg0 0 a) in
  let x := arg 1 a in
  let y := arg 2 a in
  match op with
  | 1 => let '(r, c) := add_with_carry x y in ok [r; b2l c]
  | 2 => let '(r, c) := sub_with_borrow x y in ok [r; b2l c]
  | 3 => let '(r, c) := mul2 x in ok [r; b2l c]
  | 4 => ok [div2 x]
  | 5 => ok [shl x (hd 0 y)]
  | 6 => ok [shl x (hd 0 y)]
  | 7 => ok [shr x (hd 0 y)]
  | 8 => ok [shr x (hd 0 y)]
  | 9 => let '(lo, hi) := mul x y in ok [lo; hi]
  | 10 => ok [mul_low x y]
  | 11 => ok [mul_high x y]
  | 12 => let c := cmp x y in
          ok [[cmp2z c]; [Z.b2z (match c with Eq => true | _ => false end);
                          Z.b2z (match c with Lt => true | _ => false end);
                          Z.b2z (match c with Gt => false | _ => true end)]]
  | 13 => ok [[Z.b2z (is_zero x); Z.b2z (is_odd x); Z.b2z (is_even x)]]
  | 14 => ok [[num_bits x]]
  | 15 => ok [b2l (get_bit x (hd 0 y))]
  | 16 => ok [from_bits_le N x]
  | 17 => ok [from_bits_be N x]
  | 18 => ok [to_bits_le x]
  | 19 => ok [to_bits_be x]
  | 20 => ok [to_bytes_le x]
  | 21 => ok [to_bytes_be x]
  | 22 => ok [bits_be_nlz x]
  | 23 => ok [bits_le_ntz x]
  | 24 => match from_str N x with Some r => ok [r] | None => err 0 end
  | 25 => ok [display x]
  | 26 => match try_from_biguint N (hd 0 x) with Some r => ok [r] | None => err 0 end
  | 27 => ok [[val x]]
  | 28 => ok [map2 Z.land x y; map2 Z.lor x y; map2 Z.lxor x y; map not64 x]
  | 29 => ok [from_u64 N (hd 0 x)]
  | 30 => match find_wnaf x (hd 0 y) with
          | WnafDigits d => ok [[1]; d]
          | WnafNone => ok [[0]; []]
          | WnafOutOfFuel => panic
          end
  | 31 => match find_naf x with Some d => ok [d] | None => panic end
  | 32 => match find_relaxed_naf x with Some d => ok [d] | None => panic end
  | 33 => ok [[signed_mod_reduction (nth 0 x 0) (nth 1 x 1)]]
  | 34 => ok [const_shr x]
  | 35 => ok [[mod_4 x]]
  | 36 => match two_adic x with Some (s, t) => ok [[s]; t] | None => panic end
  | 37 => ok [divide_by_2_round_down x]
  | 38 => ok [[const_num_bits x]]
  | 39 => match montgomery_r x, montgomery_r2 x with
          | Some r, Some r2 => ok [r; r2]
          | _, _ => panic
          end
  | _ => unsupported
  end.
