(* mul2 / div2 / shifts of the limb-level model, for every limb count. *)
From V Require Import Base.Word C15.GenArith C15.LeafSpecs C15.BigIntModel C15.BigIntProofs.

(* ---------- word-level facts ---------- *)

Lemma pow2_pos n : 0 < 2 ^ n \/ 2 ^ n = 0.
Proof. destruct (Z.le_gt_cases 0 n); [left; apply Z.pow_pos_nonneg; lia | right; apply Z.pow_neg_r; lia]. Qed.

Lemma pow2_gt0 n : 0 <= n -> 0 < 2 ^ n.
Proof. intros. apply Z.pow_pos_nonneg; lia. Qed.

Lemma pow2_split n k : 0 <= n -> 0 <= k -> 2 ^ (n + k) = 2 ^ n * 2 ^ k.
Proof. intros. apply Z.pow_add_r; auto. Qed.

Lemma W64_split n k : 0 <= n -> 0 <= k -> n + k = 64 -> 2 ^ k * 2 ^ n = W64.
Proof. intros Hn Hk H. rewrite <- Z.pow_add_r by auto. replace (k + n) with 64 by lia. reflexivity. Qed.

(* a | b = a + b when a is a multiple of 2^k and b < 2^k *)
Lemma lor_shifted q b k : 0 <= k -> 0 <= b < 2 ^ k -> Z.lor (q * 2 ^ k) b = q * 2 ^ k + b.
Proof.
  intros Hk Hb.
  assert (Hl : Z.land (q * 2 ^ k) b = 0).
  { apply Z.bits_inj'. intros n Hn. rewrite Z.land_spec, Z.bits_0.
    destruct (Z.lt_ge_cases n k) as [Hlt|Hge].
    - rewrite Z.mul_pow2_bits_low by lia. reflexivity.
    - assert (Z.testbit b n = false) as ->; [|apply andb_false_r].
      destruct (Z.eq_dec b 0) as [->|Hb0]; [apply Z.bits_0|].
      apply Z.bits_above_log2; [lia|].
      apply Z.log2_lt_pow2; [lia|].
      assert (2 ^ k <= 2 ^ n) by (apply Z.pow_le_mono_r; lia). lia. }
  rewrite <- Z.lxor_lor by exact Hl. symmetry. apply Z.add_nocarry_lxor. exact Hl.
Qed.

Lemma lor_shifted' q b k : 0 <= k -> 0 <= b < 2 ^ k -> Z.lor b (q * 2 ^ k) = q * 2 ^ k + b.
Proof. intros. rewrite Z.lor_comm. apply lor_shifted; auto. Qed.

(* one limb of a left shift by 0 < n < 64 (k = 64 - n) with incoming spill t *)
Lemma shl_word x n k t : u64 x -> 0 < n -> 0 < k -> n + k = 64 -> 0 <= t < 2 ^ n ->
  let hi := Z.shiftr x k in
  let lo := Z.lor ((Z.shiftl x n) mod W64) t in
  u64 lo /\ 0 <= hi < 2 ^ n /\ lo + W64 * hi = x * 2 ^ n + t.
Proof.
  intros Hx Hn Hk Hnk Ht. cbv zeta.
  rewrite Z.shiftr_div_pow2, Z.shiftl_mul_pow2 by lia.
  pose proof (W64_split n k ltac:(lia) ltac:(lia) Hnk) as HW.
  pose proof (pow2_gt0 n ltac:(lia)) as Hm. pose proof (pow2_gt0 k ltac:(lia)) as HM.
  rewrite <- HW. rewrite Z.mul_mod_distr_r by lia.
  rewrite lor_shifted by (auto; lia).
  pose proof (Z.div_mod x (2 ^ k) ltac:(lia)) as Hdm.
  pose proof (Z.mod_pos_bound x (2 ^ k) HM) as Hr.
  unfold u64 in *. rewrite <- HW in Hx.
  assert (Hq : 0 <= x / 2 ^ k < 2 ^ n).
  { split; [apply Z.div_pos; lia|]. apply Z.div_lt_upper_bound; lia. }
  set (q := x / 2 ^ k) in *. set (r := x mod 2 ^ k) in *.
  set (m := 2 ^ n) in *. set (M := 2 ^ k) in *.
  repeat split; try lia; try nia.
Qed.

(* one limb of a right shift by 0 < n < 64 (k = 64 - n) with incoming spill t' * 2^k *)
Lemma shr_word x n k t' : u64 x -> 0 < n -> 0 < k -> n + k = 64 -> 0 <= t' < 2 ^ n ->
  let lo := Z.lor (Z.shiftr x n) (t' * 2 ^ k) in
  let out := (Z.shiftl x k) mod W64 in
  u64 lo /\ lo = x / 2 ^ n + t' * 2 ^ k /\ out = (x mod 2 ^ n) * 2 ^ k.
Proof.
  intros Hx Hn Hk Hnk Ht. cbv zeta.
  rewrite Z.shiftr_div_pow2, Z.shiftl_mul_pow2 by lia.
  pose proof (W64_split k n ltac:(lia) ltac:(lia) ltac:(lia)) as HW.
  pose proof (pow2_gt0 n ltac:(lia)) as Hm. pose proof (pow2_gt0 k ltac:(lia)) as HM.
  unfold u64 in *.
  assert (Hq : 0 <= x / 2 ^ n < 2 ^ k).
  { split; [apply Z.div_pos; lia|]. apply Z.div_lt_upper_bound; lia. }
  rewrite lor_shifted' by (auto; lia).
  rewrite <- HW. rewrite Z.mul_mod_distr_r by lia. rewrite <- HW in Hx.
  set (q := x / 2 ^ n) in *. set (m := 2 ^ n) in *. set (M := 2 ^ k) in *.
  repeat split; try lia; try nia.
Qed.

(* ---------- mul2 ---------- *)

Lemma mul2_chain_spec : forall a last, wf a -> 0 <= last <= 1 ->
  let '(r, l) := mul2_chain a last in
  wf r /\ length r = length a /\ 0 <= l <= 1 /\
  val r + Wn (length a) * l = 2 * val a + last.
Proof.
  induction a as [|x a IH]; intros last Ha Hl.
  - cbn [mul2_chain val length]. rewrite Wn_0. repeat split; try constructor; lia.
  - apply wf_cons in Ha as [Hx Ha]. cbn [mul2_chain].
    destruct (shl_word x 1 63 last Hx ltac:(lia) ltac:(lia) ltac:(lia) ltac:(change (2 ^ 1) with 2; lia))
      as (Hlo & Hhi & Heq).
    change (2 ^ 1) with 2 in *.
    specialize (IH (Z.shiftr x 63) Ha ltac:(lia)).
    destruct (mul2_chain a (Z.shiftr x 63)) as [rs l].
    destruct IH as (Hw & Hlen & Hl' & Hv).
    repeat split; try lia.
    + apply wf_cons. split; auto.
    + cbn [length]. lia.
    + cbn [val length]. rewrite Wn_S.
      set (lo := Z.lor (Z.shiftl x 1 mod W64) last) in *. set (hi := Z.shiftr x 63) in *. nia.
Qed.

Theorem mul2_spec : forall a, wf a ->
  let '(r, c) := mul2 a in
  wf r /\ length r = length a /\ val r + Wn (length a) * Z.b2z c = 2 * val a.
Proof.
  intros a Ha. unfold mul2.
  pose proof (mul2_chain_spec a 0 Ha ltac:(lia)) as H.
  destruct (mul2_chain a 0) as [r l]. destruct H as (Hw & Hlen & Hl & Hv).
  repeat split; auto. assert (l = 0 \/ l = 1) as [-> | ->] by lia; cbn [Z.eqb negb Z.b2z]; lia.
Qed.

Corollary mul2_mod : forall a, wf a ->
  val (fst (mul2 a)) = (2 * val a) mod Wn (length a) /\
  snd (mul2 a) = (Wn (length a) <=? 2 * val a).
Proof.
  intros a Ha. pose proof (mul2_spec a Ha) as H.
  destruct (mul2 a) as [r c]. destruct H as (Hw & Hlen & Heq). cbn [fst snd].
  pose proof (val_bound r Hw) as Hr. rewrite Hlen in Hr. pose proof (Wn_pos (length a)) as HW.
  destruct c; cbn [Z.b2z] in Heq.
  - split.
    + symmetry. replace (2 * val a) with (val r + 1 * Wn (length a)) by lia.
      rewrite Z.mod_add by lia. apply Z.mod_small; lia.
    + symmetry. apply Z.leb_le. lia.
  - split.
    + symmetry. replace (2 * val a) with (val r) by lia. apply Z.mod_small; lia.
    + symmetry. apply Z.leb_gt. lia.
Qed.

(* ---------- right shift by a sub-limb amount, div2 ---------- *)

Lemma val_mod_pow2_low x v n k : 0 <= n -> 0 <= k -> n + k = 64 ->
  (x + W64 * v) mod 2 ^ n = x mod 2 ^ n.
Proof.
  intros Hn Hk Hnk. rewrite <- (W64_split n k Hn Hk Hnk).
  replace (x + 2 ^ k * 2 ^ n * v) with (x + (2 ^ k * v) * 2 ^ n) by ring.
  apply Z.mod_add. pose proof (pow2_gt0 n Hn). lia.
Qed.

Lemma val_div_pow2_low x v n k : 0 <= n -> 0 <= k -> n + k = 64 ->
  (x + W64 * v) / 2 ^ n = x / 2 ^ n + 2 ^ k * v.
Proof.
  intros Hn Hk Hnk. rewrite <- (W64_split n k Hn Hk Hnk).
  replace (x + 2 ^ k * 2 ^ n * v) with (x + (2 ^ k * v) * 2 ^ n) by ring.
  apply Z.div_add. pose proof (pow2_gt0 n Hn). lia.
Qed.

Lemma shr_chain_gen : forall n k a, 0 < n -> 0 < k -> n + k = 64 -> wf a ->
  forall (f : list Z -> list Z * Z),
  (forall x r, f (x :: r) = let '(rs, t) := f r in
       (Z.lor (Z.shiftr x n) t :: rs, (Z.shiftl x k) mod W64)) ->
  f [] = ([], 0) ->
  let '(rs, t) := f a in
  wf rs /\ length rs = length a /\ t = (val a mod 2 ^ n) * 2 ^ k /\ val rs = val a / 2 ^ n.
Proof.
  intros n k a Hn Hk Hnk Ha f Hf Hf0. induction a as [|x a IH].
  - rewrite Hf0. cbn [val length]. rewrite Z.mod_0_l, Z.div_0_l by (pose proof (pow2_gt0 n); lia).
    repeat split; try constructor; lia.
  - apply wf_cons in Ha as [Hx Ha]. rewrite Hf. specialize (IH Ha).
    destruct (f a) as [rs t]. destruct IH as (Hw & Hlen & Ht & Hv).
    pose proof (pow2_gt0 n ltac:(lia)) as Hm. pose proof (pow2_gt0 k ltac:(lia)) as HM.
    pose proof (Z.mod_pos_bound (val a) (2 ^ n) Hm) as Hr.
    destruct (shr_word x n k (val a mod 2 ^ n) Hx Hn Hk Hnk Hr) as (Hlo & Hloeq & Hout).
    rewrite <- Ht in *.
    repeat split.
    + apply wf_cons. split; auto.
    + cbn [length]. lia.
    + cbn [val]. rewrite (val_mod_pow2_low x (val a) n k) by lia. exact Hout.
    + cbn [val]. rewrite Hloeq, Hv. rewrite (val_div_pow2_low x (val a) n k) by lia.
      rewrite Ht. pose proof (Z.div_mod (val a) (2 ^ n) ltac:(lia)) as Hdm.
      rewrite <- (W64_split n k) by lia.
      set (q := val a / 2 ^ n) in *. set (r := val a mod 2 ^ n) in *. nia.
Qed.

Lemma shr_small_spec : forall a n, 0 < n < 64 -> wf a ->
  let '(rs, t) := shr_small a n in
  wf rs /\ length rs = length a /\ t = (val a mod 2 ^ n) * 2 ^ (64 - n) /\ val rs = val a / 2 ^ n.
Proof.
  intros a n Hn Ha.
  apply (shr_chain_gen n (64 - n) a ltac:(lia) ltac:(lia) ltac:(lia) Ha (fun l => shr_small l n)).
  - intros x r. reflexivity.
  - reflexivity.
Qed.

Lemma div2_chain_spec : forall a, wf a ->
  let '(rs, t) := div2_chain a in
  wf rs /\ length rs = length a /\ t = (val a mod 2 ^ 1) * 2 ^ 63 /\ val rs = val a / 2 ^ 1.
Proof.
  intros a Ha.
  apply (shr_chain_gen 1 63 a ltac:(lia) ltac:(lia) ltac:(lia) Ha div2_chain).
  - intros x r. reflexivity.
  - reflexivity.
Qed.

Theorem div2_spec : forall a, wf a ->
  wf (div2 a) /\ length (div2 a) = length a /\ val (div2 a) = val a / 2.
Proof.
  intros a Ha. unfold div2. pose proof (div2_chain_spec a Ha) as H.
  destruct (div2_chain a) as [rs t]. destruct H as (Hw & Hlen & _ & Hv). cbn [fst].
  change (2 ^ 1) with 2 in Hv. auto.
Qed.

(* ---------- left shift by a sub-limb amount ---------- *)

Lemma shl_small_spec : forall a n t, 0 < n < 64 -> wf a -> 0 <= t < 2 ^ n ->
  let r := shl_small a n t in
  wf r /\ length r = length a /\
  exists c, 0 <= c < 2 ^ n /\ val r + Wn (length a) * c = val a * 2 ^ n + t.
Proof.
  induction a as [|x a IH]; intros n t Hn Ha Ht; cbv zeta.
  - cbn [shl_small val length]. rewrite Wn_0. repeat split; try constructor.
    exists t. lia.
  - apply wf_cons in Ha as [Hx Ha]. cbn [shl_small].
    destruct (shl_word x n (64 - n) t Hx ltac:(lia) ltac:(lia) ltac:(lia) Ht) as (Hlo & Hhi & Heq).
    specialize (IH n (Z.shiftr x (64 - n)) Hn Ha Hhi). cbv zeta in IH.
    destruct IH as (Hw & Hlen & c & Hc & Hv).
    repeat split.
    + apply wf_cons. split; auto.
    + cbn [length]. lia.
    + exists c. split; [exact Hc|]. cbn [val length]. rewrite Wn_S.
      set (lo := Z.lor (Z.shiftl x n mod W64) t) in *. set (hi := Z.shiftr x (64 - n)) in *.
      set (rs := shl_small a n hi) in *. nia.
Qed.

Lemma shl_small_mod : forall a n, 0 < n < 64 -> wf a ->
  val (shl_small a n 0) = (val a * 2 ^ n) mod Wn (length a).
Proof.
  intros a n Hn Ha.
  destruct (shl_small_spec a n 0 Hn Ha ltac:(pose proof (pow2_gt0 n); lia)) as (Hw & Hlen & c & Hc & Hv).
  pose proof (val_bound _ Hw) as Hb. rewrite Hlen in Hb.
  apply Z.mod_unique with (q := c); [left; exact Hb | lia].
Qed.

(* ---------- whole-limb moves ---------- *)

Lemma removelast_cons_val : forall a x, wf (x :: a) ->
  wf (removelast (x :: a)) /\ length (removelast (x :: a)) = length a /\
  val (removelast (x :: a)) = val (x :: a) mod Wn (length a).
Proof.
  induction a as [|y a IH]; intros x Hxa.
  - cbn [removelast val length]. rewrite Wn_0, Z.mod_1_r. repeat split; constructor.
  - apply wf_cons in Hxa as [Hx Hya]. specialize (IH y Hya). destruct IH as (Hw & Hlen & Hv).
    change (removelast (x :: y :: a)) with (x :: removelast (y :: a)).
    repeat split.
    + apply wf_cons; auto.
    + cbn [length] in *. lia.
    + cbn [val length] in *. rewrite Hv. rewrite Wn_S.
      pose proof (Wn_pos (length a)) as HW. unfold u64 in Hx. pose proof W64_pos.
      set (v := y + W64 * val a) in *.
      apply Z.mod_unique with (q := v / Wn (length a)).
      * left. pose proof (Z.mod_pos_bound v (Wn (length a)) HW). nia.
      * pose proof (Z.div_mod v (Wn (length a)) ltac:(lia)). nia.
Qed.

Lemma limbs_up_spec : forall a, wf a ->
  wf (limbs_up a) /\ length (limbs_up a) = length a /\
  val (limbs_up a) = (val a * W64) mod Wn (length a).
Proof.
  intros a Ha. unfold limbs_up.
  assert (H0 : wf (0 :: a)) by (apply wf_cons; split; [unfold u64, W64; lia | auto]).
  destruct (removelast_cons_val a 0 H0) as (Hw & Hlen & Hv). repeat split; auto.
  rewrite Hv. cbn [val]. f_equal. ring.
Qed.

Lemma limbs_down_spec : forall a, wf a ->
  wf (limbs_down a) /\ length (limbs_down a) = length a /\ val (limbs_down a) = val a / W64.
Proof.
  intros [|x a] Ha; cbn [limbs_down].
  - repeat split; auto.
  - apply wf_cons in Ha as [Hx Ha]. repeat split.
    + apply wf_app. split; auto. apply wf_cons. split; [unfold u64, W64; lia | constructor].
    + rewrite app_length. cbn [length]. lia.
    + rewrite val_app. cbn [val]. unfold u64 in Hx.
      replace (x + W64 * val a) with (x + val a * W64) by ring.
      rewrite Z.div_add by (unfold W64; lia). rewrite Z.div_small by lia. lia.
Qed.

Lemma iter_up_spec : forall j a, wf a ->
  wf (Nat.iter j limbs_up a) /\ length (Nat.iter j limbs_up a) = length a /\
  val (Nat.iter j limbs_up a) = (val a * W64 ^ Z.of_nat j) mod Wn (length a).
Proof.
  induction j as [|j IH]; intros a Ha.
  - cbn [Nat.iter]. change (W64 ^ Z.of_nat 0) with 1. rewrite Z.mul_1_r.
    repeat split; auto. symmetry. apply Z.mod_small. apply val_bound; auto.
  - change (Nat.iter (S j) limbs_up a) with (limbs_up (Nat.iter j limbs_up a)).
    destruct (IH a Ha) as (Hw & Hlen & Hv).
    destruct (limbs_up_spec _ Hw) as (Hw' & Hlen' & Hv'). rewrite Hlen in *.
    repeat split; auto. rewrite Hv', Hv. rewrite Z.mul_mod_idemp_l by (pose proof (Wn_pos (length a)); lia).
    f_equal. rewrite Nat2Z.inj_succ, Z.pow_succ_r by lia. ring.
Qed.

Lemma iter_down_spec : forall j a, wf a ->
  wf (Nat.iter j limbs_down a) /\ length (Nat.iter j limbs_down a) = length a /\
  val (Nat.iter j limbs_down a) = val a / W64 ^ Z.of_nat j.
Proof.
  induction j as [|j IH]; intros a Ha.
  - cbn [Nat.iter]. change (W64 ^ Z.of_nat 0) with 1. rewrite Z.div_1_r. auto.
  - change (Nat.iter (S j) limbs_down a) with (limbs_down (Nat.iter j limbs_down a)).
    destruct (IH a Ha) as (Hw & Hlen & Hv).
    destruct (limbs_down_spec _ Hw) as (Hw' & Hlen' & Hv'). rewrite Hlen in *.
    repeat split; auto. rewrite Hv', Hv.
    assert (0 < W64 ^ Z.of_nat j) by (apply Z.pow_pos_nonneg; [reflexivity | lia]).
    rewrite Z.div_div by (unfold W64 in *; lia).
    f_equal. rewrite Nat2Z.inj_succ, Z.pow_succ_r by lia. ring.
Qed.

(* ---------- shl / shr (also muln / divn: the same code) ---------- *)

Lemma pow2_decomp n : 0 <= n -> 2 ^ n = W64 ^ (n / 64) * 2 ^ (n mod 64).
Proof.
  intros Hn. rewrite <- W64_eq. rewrite <- Z.pow_mul_r by (try apply Z.div_pos; lia).
  rewrite <- Z.pow_add_r.
  - f_equal. pose proof (Z.div_mod n 64). lia.
  - pose proof (Z.div_pos n 64). lia.
  - apply Z.mod_pos_bound. lia.
Qed.

Lemma Wn_pow2 N : Wn N = 2 ^ (64 * Z.of_nat N).
Proof. unfold Wn. rewrite <- W64_eq. rewrite <- Z.pow_mul_r by lia. reflexivity. Qed.

Theorem shl_spec : forall a n, wf a -> 0 <= n ->
  wf (shl a n) /\ length (shl a n) = length a /\
  val (shl a n) = (val a * 2 ^ n) mod Wn (length a).
Proof.
  intros a n Ha Hn. unfold shl.
  pose proof (Wn_pos (length a)) as HW.
  destruct (Z.leb_spec (64 * Z.of_nat (length a)) n) as [Hge|Hlt].
  - unfold zeros. repeat split; [apply wf_repeat0 | apply repeat_length |].
    rewrite val_repeat0. symmetry.
    replace n with (64 * Z.of_nat (length a) + (n - 64 * Z.of_nat (length a))) by ring.
    rewrite Z.pow_add_r by lia. rewrite <- Wn_pow2.
    replace (val a * (Wn (length a) * 2 ^ (n - 64 * Z.of_nat (length a))))
      with ((val a * 2 ^ (n - 64 * Z.of_nat (length a))) * Wn (length a)) by ring.
    apply Z.mod_mul. lia.
  - assert (Hq : 0 <= n / 64) by (apply Z.div_pos; lia).
    destruct (iter_up_spec (Z.to_nat (n / 64)) a Ha) as (Hw & Hlen & Hv).
    rewrite Z2Nat.id in Hv by exact Hq.
    pose proof (Z.mod_pos_bound n 64 ltac:(lia)) as Hk.
    rewrite (pow2_decomp n Hn).
    destruct (Z.ltb_spec 0 (n mod 64)) as [Hk0|Hk0].
    + destruct (shl_small_spec _ (n mod 64) 0 ltac:(lia) Hw ltac:(pose proof (pow2_gt0 (n mod 64)); lia))
        as (Hw' & Hlen' & _).
      repeat split; auto; [lia|].
      rewrite shl_small_mod by (auto; lia). rewrite Hlen, Hv.
      rewrite Z.mul_mod_idemp_l by lia. f_equal. ring.
    + repeat split; auto. rewrite Hv. replace (n mod 64) with 0 by lia.
      f_equal. change (2 ^ 0) with 1. ring.
Qed.

Theorem shr_spec : forall a n, wf a -> 0 <= n ->
  wf (shr a n) /\ length (shr a n) = length a /\ val (shr a n) = val a / 2 ^ n.
Proof.
  intros a n Ha Hn. unfold shr.
  pose proof (Wn_pos (length a)) as HW. pose proof (val_bound a Ha) as Hb.
  destruct (Z.leb_spec (64 * Z.of_nat (length a)) n) as [Hge|Hlt].
  - unfold zeros. repeat split; [apply wf_repeat0 | apply repeat_length |].
    rewrite val_repeat0. symmetry. apply Z.div_small.
    rewrite Wn_pow2 in Hb.
    assert (2 ^ (64 * Z.of_nat (length a)) <= 2 ^ n) by (apply Z.pow_le_mono_r; lia). lia.
  - assert (Hq : 0 <= n / 64) by (apply Z.div_pos; lia).
    destruct (iter_down_spec (Z.to_nat (n / 64)) a Ha) as (Hw & Hlen & Hv).
    rewrite Z2Nat.id in Hv by exact Hq.
    pose proof (Z.mod_pos_bound n 64 ltac:(lia)) as Hk.
    rewrite (pow2_decomp n Hn).
    assert (0 < W64 ^ (n / 64)) by (apply Z.pow_pos_nonneg; [reflexivity | lia]).
    destruct (Z.ltb_spec 0 (n mod 64)) as [Hk0|Hk0].
    + pose proof (shr_small_spec _ (n mod 64) ltac:(lia) Hw) as Hs.
      destruct (shr_small _ (n mod 64)) as [rs t]. destruct Hs as (Hw' & Hlen' & _ & Hv').
      cbn [fst]. repeat split; auto; [lia|].
      rewrite Hv', Hv. apply Z.div_div; [lia | apply pow2_gt0; lia].
    + repeat split; auto. rewrite Hv. replace (n mod 64) with 0 by lia.
      change (2 ^ 0) with 1. rewrite Z.mul_1_r. reflexivity.
Qed.

(* a shift by at least the width clears the value *)
Corollary shl_ge_width : forall a n, wf a -> 64 * Z.of_nat (length a) <= n -> val (shl a n) = 0.
Proof.
  intros a n Ha Hn. unfold shl. destruct (Z.leb_spec (64 * Z.of_nat (length a)) n); [|lia].
  apply val_repeat0.
Qed.
