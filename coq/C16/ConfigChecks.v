(* C16 -- boolean checkers for configuration constants.

   Every generated fact (coq/C16/Facts_<crate>.v) has the form  <checker> <constants> = true
   and is proved by kernel computation.  This file defines the checkers; ConfigSpecs.v
   proves, for each of them, what a `true` means mathematically.

   Two families:
   * integer-level checkers (Montgomery constants, two-adic decomposition, roots of unity,
     cofactor inverse, GLV lattice, pairing parameter polynomials): plain Z arithmetic,
     modular exponentiation through [fast_pow_mod] (Bignums.BigZ inside, specified on Z);
   * field-level checkers (tower non-residues, Frobenius tables, curve equations, r*G = O,
     endomorphisms, twists): generic over a field dictionary [Fops T] of Base/Field.v.  The
     facts instantiate them with the BigZ-backed dictionaries B1/B2/B3 (fast); the spec
     lemmas transfer the result to the specification-level dictionaries Z1/Z2/Z3
     (ZpOps, QuadOps, CubicOps over Z) through the logical relation of ConfigSpecs.v.

   No proofs in this file. *)
From Coq Require Import ZArith List Bool.
From Bignums Require Import BigZ.
From V Require Import Base.Field C13.Poly.
Import ListNotations.
Open Scope Z_scope.

(* ------------------------------------------------------------------ fast modexp *)

Fixpoint bpow_pos (a : bigZ) (e : positive) (m : bigZ) : bigZ :=
  match e with
  | xH => BigZ.modulo a m
  | xO e' => let h := bpow_pos a e' m in BigZ.modulo (BigZ.mul h h) m
  | xI e' => let h := bpow_pos a e' m in
             BigZ.modulo (BigZ.mul (BigZ.modulo (BigZ.mul h h) m) a) m
  end.

(* a^e mod m for e >= 0 (0 for negative e, as Base.Field.pow_mod) *)
Definition fast_pow_mod (a e m : Z) : Z :=
  match e with
  | Z0 => 1 mod m
  | Zpos e' => BigZ.to_Z (bpow_pos (BigZ.of_Z a) e' (BigZ.of_Z m))
  | Zneg _ => 0
  end.

(* ------------------------------------------------------------------ integer-level models
   (these are also what run_C16 evaluates against the const fns of /repo) *)

Definition W64 : Z := 2 ^ 64.

(* BigInt::montgomery_r / montgomery_r2: 2^(64N) mod p, 2^(128N) mod p *)
Definition mont_r (p n : Z) : Z := 2 ^ (64 * n) mod p.
Definition mont_r2 (p n : Z) : Z := 2 ^ (128 * n) mod p.

(* montgomery_backend.rs `inv`: inv = 1; 63 x { inv = inv^2; inv = inv * p0 } ; -inv, all mod 2^64 *)
Fixpoint mont_inv_loop (k : nat) (inv m0 : Z) : Z :=
  match k with
  | O => inv
  | S k' => mont_inv_loop k' ((((inv * inv) mod W64) * m0) mod W64) m0
  end.
Definition mont_inv (p : Z) : Z := (- mont_inv_loop 63 1 (p mod W64)) mod W64.

(* BigInt::two_adic_valuation / two_adic_coefficient of an odd p: p - 1 = 2^s * t *)
Fixpoint two_adic_fuel (k : nat) (v s : Z) : Z * Z :=
  match k with
  | O => (s, v)
  | S k' => if Z.even v then two_adic_fuel k' (v / 2) (s + 1) else (s, v)
  end.
Definition two_adic (p : Z) : Z * Z :=
  if p <=? 1 then (0, 0) else two_adic_fuel (Z.to_nat (Z.log2 p) + 1) (p - 1) 0.

(* BigInt::const_num_bits *)
Definition num_bits (p : Z) : Z := if p <=? 0 then 0 else Z.log2 p + 1.

(* ------------------------------------------------------------------ integer-level checkers *)

Definition mont_consts_ok (p n r r2 inv : Z) : bool :=
  (1 <? p) && Z.odd p && (0 <? n) && (2 ^ (64 * (n - 1)) <=? p) && (p <? 2 ^ (64 * n)) &&
  (r =? mont_r p n) && (r2 =? (r * r) mod p) &&
  (0 <=? inv) && (inv <? W64) && ((inv * p) mod W64 =? W64 - 1).

Fixpoint val_limbs (l : list Z) : Z :=
  match l with [] => 0 | x :: tl => x + W64 * val_limbs tl end.
Definition limbs_wf (n : Z) (l : list Z) : bool :=
  (Z.of_nat (length l) =? n) && forallb (fun x => (0 <=? x) && (x <? W64)) l.

Definition mont_form_ok (p r std raw : Z) : bool := raw =? (std * r) mod p.

Definition bits_ok (p bits : Z) : bool := (0 <? bits) && (2 ^ (bits - 1) <=? p) && (p <? 2 ^ bits).

Definition two_adic_ok (p s t tm1d2 pm1d2 : Z) : bool :=
  (0 <? s) && (p - 1 =? 2 ^ s * t) && Z.odd t && (tm1d2 =? (t - 1) / 2) && (pm1d2 =? (p - 1) / 2).

Definition gen_nonresidue_ok (p g : Z) : bool :=
  (2 <? p) && (fast_pow_mod g ((p - 1) / 2) p =? p - 1).

Definition two_adic_root_ok (p g s t root : Z) : bool :=
  (2 <? p) && (0 <? s) && (0 <=? t) && (root =? fast_pow_mod g t p) &&
  (fast_pow_mod root (2 ^ s) p =? 1) && (fast_pow_mod root (2 ^ (s - 1)) p =? p - 1).

Definition plus_one_div_four_ok (p : Z) (o : list Z) : bool :=
  if p mod 4 =? 3 then match o with [v] => v =? (p + 1) / 4 | _ => false end
  else match o with [] => true | _ => false end.

Definition large_subgroup_ok (p g s b k w : Z) : bool :=
  let n := 2 ^ s * b ^ k in
  (2 <? p) && (0 <? s) && (1 <? b) && (0 <? k) && ((p - 1) mod n =? 0) &&
  (w =? fast_pow_mod g ((p - 1) / n) p) &&
  negb (fast_pow_mod w (n / 2) p =? 1) && negb (fast_pow_mod w (n / b) p =? 1).

(* MODULUS_HAS_SPARE_BIT and CAN_USE_NO_CARRY_MUL_OPT as documented *)
Definition flags_ok (p n : Z) (spare nocarry_mul : bool) : bool :=
  Bool.eqb spare (p <? 2 ^ (64 * n - 1)) &&
  Bool.eqb nocarry_mul ((p <? 2 ^ (64 * n - 1)) && negb (p =? 2 ^ (64 * n - 1) - 1)).
(* CAN_USE_NO_CARRY_SQUARE_OPT as documented: top two bits clear, not all remaining bits set *)
Definition flag_square_ok (p n : Z) (nocarry_sq : bool) : bool :=
  Bool.eqb nocarry_sq ((p <? 2 ^ (64 * n - 2)) && negb (p =? 2 ^ (64 * n - 2) - 1)).

Definition cofactor_inv_ok (r h hinv : Z) : bool :=
  (1 <? r) && (0 <=? hinv) && (hinv <? r) && ((h * hinv) mod r =? 1).

Definition hasse_ok (q h r : Z) : bool := (h * r - (q + 1)) ^ 2 <=? 4 * q.

Definition glv_lambda_ok (r lam : Z) : bool :=
  (0 <=? lam) && (lam <? r) && ((lam * lam + lam + 1) mod r =? 0).

Definition glv_lattice_ok (r lam : Z) (co : list Z) : bool :=
  match co with
  | [n11; n12; n21; n22] =>
      (0 <? r) && ((n11 + lam * n12) mod r =? 0) && ((n21 + lam * n22) mod r =? 0) &&
      (Z.abs (n11 * n22 - n12 * n21) =? r)
  | _ => false
  end.

(* signed-digit expansions *)
Definition naf_ok (l : list Z) : bool := forallb (fun d => (-1 <=? d) && (d <=? 1)) l.
Fixpoint naf_le (l : list Z) : Z := match l with [] => 0 | d :: tl => d + 2 * naf_le tl end.

Definition x_limbs_ok (limbs : list Z) (x : Z) : bool :=
  (val_limbs limbs =? Z.abs x) && forallb (fun v => (0 <=? v) && (v <? W64)) limbs &&
  negb (last limbs 0 =? 0).

Definition bls12_params_ok (x p r : Z) : bool :=
  (r =? x ^ 4 - x ^ 2 + 1) && (3 * p =? (x - 1) ^ 2 * r + 3 * x).
Definition bn_params_ok (x p r : Z) : bool :=
  (p =? 36 * x ^ 4 + 36 * x ^ 3 + 24 * x ^ 2 + 6 * x + 1) &&
  (r =? 36 * x ^ 4 + 36 * x ^ 3 + 18 * x ^ 2 + 6 * x + 1).
Definition bw6_params_ok (x r xm1d3 loop1 : Z) : bool :=
  (3 * r =? (x - 1) ^ 2 * (x ^ 4 - x ^ 2 + 1) + 3 * x) && (3 * xm1d3 =? Z.abs (x - 1)) &&
  (loop1 =? x).
Definition mnt4_final_exp_ok (p r w1 w0 : Z) : bool := (w1 * p + w0) * r =? p * p + 1.
Definition mnt6_final_exp_ok (p r w1 w0 : Z) : bool := (w1 * p + w0) * r =? p * p - p + 1.

(* Field::SQRT_PRECOMP of a prime field.  kind 2 = Case3Mod4 [(p+1)/4] exactly when p = 3 mod 4;
   otherwise kind 1 = TonelliShanks [two_adicity; quadratic_nonresidue_to_trace; trace_minus_one_div_two]
   with p - 1 = 2^s (2 tm + 1) and the element = g^(2 tm + 1) of exact order 2^s *)
Definition sqrt_precomp_ok (p g kind : Z) (v : list Z) : bool :=
  if p mod 4 =? 3 then
    (kind =? 2) && match v with [m] => m =? (p + 1) / 4 | _ => false end
  else
    (kind =? 1) &&
    match v with
    | [s; q; tm] => (2 <? p) && (0 <? s) && (0 <=? tm) && (p - 1 =? 2 ^ s * (2 * tm + 1)) &&
                    (q =? fast_pow_mod g (2 * tm + 1) p) && (fast_pow_mod q (2 ^ (s - 1)) p =? p - 1)
    | _ => false
    end.

(* BW6 (Brezing-Weng, k = 6, D = 3) curve over the BLS12 base field r = p_bls12(x), family of
   El Housni-Guillevic: w = x^5 - 3x^4 + 3x^3 - x,
     T_MOD_R_IS_ZERO:  t = -w + h_t r,      3y = w + 3 h_y r
     otherwise:        t = w + 3 + h_t r,   3y = w + 3 + 3 h_y r
   and 4p = t^2 + 3y^2; t is the trace of G1 (#E(F_p) = h1 r = p + 1 - t) and the G2 curve (order h2 r)
   is one of the two sextic twists of trace (t +- 3y)/2 *)
Definition bw6_w (x : Z) : Z := x ^ 5 - 3 * x ^ 4 + 3 * x ^ 3 - x.
Definition bw6_t (x r ht : Z) (t0 : bool) : Z := if t0 then - bw6_w x + ht * r else bw6_w x + 3 + ht * r.
Definition bw6_y3 (x r hy : Z) (t0 : bool) : Z :=
  if t0 then bw6_w x + 3 * hy * r else bw6_w x + 3 + 3 * hy * r.
Definition bw6_curve_ok (x p r ht hy : Z) (t0 : bool) (h1 h2 : Z) : bool :=
  let t := bw6_t x r ht t0 in
  let y3 := bw6_y3 x r hy t0 in
  (12 * p =? 3 * t ^ 2 + y3 ^ 2) && (t =? p + 1 - h1 * r) && ((2 * (p + 1 - h2 * r) - t) ^ 2 =? y3 ^ 2).

(* an ate loop count only matters modulo r: it must be congruent to t - 1 = p - #E(F_p) = p (mod r) *)
Definition ate_loop_mod_ok (l p r : Z) : bool := (0 <? l) && (0 <? r) && ((l - p) mod r =? 0).

Definition lists_eqb (a b : list Z) : bool :=
  (Nat.eqb (length a) (length b)) && forallb (fun xy => fst xy =? snd xy) (combine a b).
Fixpoint forallb2 {A} (f : A -> A -> bool) (a b : list A) : bool :=
  match a, b with
  | [], [] => true
  | x :: ta, y :: tb => f x y && forallb2 f ta tb
  | _, _ => false
  end.

(* the FftField constants of an extension field are the base-prime-field constants embedded:
   coordinates (c, 0, ..., 0); an Option is a list of length <= 1 *)
Definition embeds_ok (x : list Z) (c deg : Z) : bool := lists_eqb x (c :: repeat 0 (Z.to_nat deg - 1)).
Definition opt_embeds_ok (o : list (list Z)) (c : list Z) (deg : Z) : bool :=
  match o, c with
  | [], [] => true
  | [w], [v] => embeds_ok w v deg
  | _, _ => false
  end.

(* ------------------------------------------------------------------ BigZ field dictionary *)

Fixpoint begcd (fuel : nat) (r0 r1 s0 s1 : bigZ) : bigZ * bigZ :=
  match fuel with
  | O => (r0, s0)
  | S f => if BigZ.eqb r1 BigZ.zero then (r0, s0)
           else let q := BigZ.div r0 r1 in
                begcd f r1 (BigZ.sub r0 (BigZ.mul q r1)) s1 (BigZ.sub s0 (BigZ.mul q s1))
  end.

Definition binv_mod (a p : bigZ) : bigZ :=
  let a' := BigZ.modulo a p in
  if BigZ.eqb a' BigZ.zero then BigZ.zero
  else let '(g, s) := begcd (2 * Z.to_nat (Z.log2 (BigZ.to_Z p)) + 4) a' p BigZ.one BigZ.zero in
       BigZ.modulo s p.

(* Bignums does not renormalise a zero result (it stays at the level of the operands and
   grows by one level per multiplication); [nz] keeps zero canonical.  Value-preserving. *)
Definition nz (x : bigZ) : bigZ := if BigZ.eqb x BigZ.zero then BigZ.zero else x.

Definition BpOps (p : bigZ) : Fops bigZ :=
  {| f0 := BigZ.zero; f1 := BigZ.modulo BigZ.one p;
     fadd := fun a b => nz (BigZ.modulo (BigZ.add a b) p);
     fsub := fun a b => nz (BigZ.modulo (BigZ.sub a b) p);
     fmul := fun a b => nz (BigZ.modulo (BigZ.mul a b) p);
     fneg := fun a => nz (BigZ.modulo (BigZ.opp a) p);
     finv := fun a => nz (binv_mod a p);
     feqb := BigZ.eqb;
     fcoords := fun a => [BigZ.to_Z a];
     fof := fun l => nz (BigZ.modulo (BigZ.of_Z (hd 0 l)) p);
     fdeg := 1%nat; fchar := BigZ.to_Z p |}.

(* the dictionaries the facts are computed in ... *)
Definition B1 (p : Z) : Fops bigZ := BpOps (BigZ.of_Z p).
Definition B2 (p beta : Z) := QuadOps (B1 p) (fof (B1 p) [beta]).
Definition B3 (p beta : Z) := CubicOps (B1 p) (fof (B1 p) [beta]).
(* ... and the specification-level ones the spec lemmas speak about *)
Definition Z1 (p : Z) : Fops Z := ZpOps p.
Definition Z2 (p beta : Z) := QuadOps (Z1 p) (fof (Z1 p) [beta]).
Definition Z3 (p beta : Z) := CubicOps (Z1 p) (fof (Z1 p) [beta]).

(* further tower levels: quadratic / cubic extension of any dictionary by the non-residue with the
   given base-prime-field coordinates (Fp4 = BQ Fp2, Fp6 = BC Fp2 or BQ Fp3, Fp12 = BQ Fp6) *)
Definition BQ {T} (F : Fops T) (nr : list Z) := QuadOps F (fof F nr).
Definition BC {T} (F : Fops T) (nr : list Z) := CubicOps F (fof F nr).

(* ------------------------------------------------------------------ field-level checkers *)

Section FieldChecks.
  Context {T : Type} (F : Fops T).
  Local Notation "a + b" := (fadd F a b). Local Notation "a - b" := (fsub F a b).
  Local Notation "a * b" := (fmul F a b).

  (* element from its base-prime-field coordinates (reduced mod p by the dictionary) *)
  Definition el (l : list Z) : T := fof F l.

  Definition el_eq (a b : list Z) : bool := feqb F (el a) (el b).
  Definition mul_is (a b c : list Z) : bool := feqb F (el a * el b) (el c).
  Definition pow_is (a : list Z) (e : Z) (c : list Z) : bool :=
    (0 <=? e) && feqb F (fpow F (el a) e) (el c).
  Definition pow_isnt (a : list Z) (e : Z) (c : list Z) : bool :=
    (0 <=? e) && negb (feqb F (fpow F (el a) e) (el c)).
  Definition nonzero_ok (a : list Z) : bool := negb (feqb F (el a) (f0 F)).
  (* a * b^e = c *)
  Definition mul_pow_is (a b : list Z) (e : Z) (c : list Z) : bool :=
    (0 <=? e) && feqb F (el a * fpow F (el b) e) (el c).
  (* simplified SWU, exceptional input u = 0 (x1 = b/(z a)): g(b/(z a)) = x1^3 + a x1 + b is a square
     (RFC 9380 6.6.2 criterion 4; SWUConfig documents it as the convenient choice of ZETA); q = field size *)
  Definition swu_exceptional_ok (q : Z) (a b z : list Z) : bool :=
    let x := el b * finv F (el z * el a) in
    Z.odd q && feqb F (fpow F (x * x * x + el a * x + el b) ((q - 1) / 2)) (f1 F).
  (* FftField roots of unity, exact order computed in the field itself *)
  Definition fft_root_ok (root : list Z) (s : Z) : bool :=
    (0 <? s) && pow_is root (2 ^ s) [1] && pow_is root (2 ^ (s - 1)) [-1].
  Definition fft_large_ok (w : list Z) (s b k : Z) : bool :=
    let n := Z.mul (2 ^ s) (b ^ k) in
    (0 <? s) && (1 <? b) && (0 <? k) && pow_is w n [1] && pow_isnt w (n / 2) [1] && pow_isnt w (n / b) [1].
  (* coordinates of x^2, x^3 -- used for twist coefficients *)
  Definition tower_sq (a : list Z) : list Z := fcoords F (el a * el a).
  Definition tower_cube (a : list Z) : list Z := fcoords F (el a * el a * el a).

  (* Frobenius table: entry i (starting at p^i = pi) is beta^(m * (p^i - 1) / k) *)
  Fixpoint frob_ok_from (beta : list Z) (p k m pi : Z) (tbl : list (list Z)) : bool :=
    match tbl with
    | [] => true
    | c :: tl => ((pi - 1) mod k =? 0) && pow_is beta (m * ((pi - 1) / k)) c &&
                 frob_ok_from beta p k m (pi * p) tl
    end.
  Definition frob_ok (beta : list Z) (p k m : Z) (tbl : list (list Z)) : bool :=
    (0 <? k) && (0 <? m) && (1 <? p) && frob_ok_from beta p k m 1 tbl.

  (* Fp3 square-root parameters: p^3 - 1 = 2^s * t, t = 2*tm + 1, element of exact order 2^s *)
  Definition fp3_sqrt_ok (p s tm : Z) (q : list Z) : bool :=
    (0 <? s) && (0 <=? tm) && (p ^ 3 - 1 =? 2 ^ s * (2 * tm + 1)) &&
    pow_is q (2 ^ s) [1] && pow_is q (2 ^ (s - 1)) [-1].

  (* ---- short Weierstrass, affine chord-and-tangent law; None = point at infinity *)
  Definition pt := option (T * T).
  Definition sw_on (a b : T) (P : pt) : bool :=
    match P with
    | None => true
    | Some (x, y) => feqb F (y * y) (x * x * x + a * x + b)
    end.
  Definition sw_add (a : T) (P Q : pt) : pt :=
    match P, Q with
    | None, _ => Q
    | _, None => P
    | Some (x1, y1), Some (x2, y2) =>
        if feqb F x1 x2 then
          if feqb F (y1 + y2) (f0 F) then None
          else let l := (x1 * x1 + x1 * x1 + x1 * x1 + a) * finv F (y1 + y1) in
               let x3 := l * l - x1 - x2 in
               Some (x3, l * (x1 - x3) - y1)
        else let l := (y2 - y1) * finv F (x2 - x1) in
             let x3 := l * l - x1 - x2 in
             Some (x3, l * (x1 - x3) - y1)
    end.
  Fixpoint sw_mul_pos (a : T) (n : positive) (P : pt) : pt :=
    match n with
    | xH => P
    | xO n' => let h := sw_mul_pos a n' P in sw_add a h h
    | xI n' => let h := sw_mul_pos a n' P in sw_add a (sw_add a h h) P
    end.
  Definition sw_mul (a : T) (n : Z) (P : pt) : pt :=
    match n with Zpos n' => sw_mul_pos a n' P | _ => None end.
  Definition pt_eqb (P Q : pt) : bool :=
    match P, Q with
    | None, None => true
    | Some (x1, y1), Some (x2, y2) => feqb F x1 x2 && feqb F y1 y2
    | _, _ => false
    end.

  Definition sw_on_ok (a b x y : list Z) : bool := sw_on (el a) (el b) (Some (el x, el y)).
  Definition sw_order_ok (a x y : list Z) (r : Z) : bool :=
    (0 <? r) && pt_eqb (sw_mul (el a) r (Some (el x, el y))) None.
  Definition glv_endo_ok (a x y beta : list Z) (lam : Z) : bool :=
    (0 <? lam) && pt_eqb (sw_mul (el a) lam (Some (el x, el y))) (Some (el beta * el x, el y)).

  (* ---- twisted Edwards, affine law; neutral (0,1) *)
  Definition te_on (a d : T) (P : T * T) : bool :=
    let '(x, y) := P in feqb F (a * (x * x) + y * y) (f1 F + d * ((x * x) * (y * y))).
  Definition te_add (a d : T) (P Q : T * T) : T * T :=
    let '(x1, y1) := P in let '(x2, y2) := Q in
    let t := d * ((x1 * x2) * (y1 * y2)) in
    ((x1 * y2 + y1 * x2) * finv F (f1 F + t), (y1 * y2 - a * (x1 * x2)) * finv F (f1 F - t)).
  Fixpoint te_mul_pos (a d : T) (n : positive) (P : T * T) : T * T :=
    match n with
    | xH => P
    | xO n' => let h := te_mul_pos a d n' P in te_add a d h h
    | xI n' => let h := te_mul_pos a d n' P in te_add a d (te_add a d h h) P
    end.
  Definition te_mul (a d : T) (n : Z) (P : T * T) : T * T :=
    match n with Zpos n' => te_mul_pos a d n' P | _ => (f0 F, f1 F) end.

  Definition te_on_ok (a d x y : list Z) : bool := te_on (el a) (el d) (el x, el y).
  Definition te_order_ok (a d x y : list Z) (r : Z) : bool :=
    (0 <? r) &&
    (let '(rx, ry) := te_mul (el a) (el d) r (el x, el y) in feqb F rx (f0 F) && feqb F ry (f1 F)) &&
    negb (feqb F (el x) (f0 F) && feqb F (el y) (f1 F)).
  (* Montgomery form B v^2 = u^3 + A u^2 + u of a x^2 + y^2 = 1 + d x^2 y^2:
     A = 2(a+d)/(a-d) exactly; B = 4/(a-d) up to a non-zero square factor c^2 (isomorphic
     scaling v -> c v), which is all the code relies on; q = size of the field *)
  Definition mont_te_ok (q : Z) (a d ma mb : list Z) : bool :=
    negb (feqb F (el a - el d) (f0 F)) &&
    feqb F (el ma * (el a - el d)) ((el a + el d) + (el a + el d)) &&
    (Z.odd q) && feqb F (fpow F (el mb * (el a - el d)) ((q - 1) / 2)) (f1 F).

  (* ---- Wahby-Boneh isogeny (x, y) |-> (xn(x)/xd(x), y yn(x)/yd(x)) from E' : y^2 = x^3 + a' x + b'
     to E : y^2 = x^3 + A x + B, coefficient lists lowest degree first: the polynomial identity
        yn^2 (x^3 + a' x + b') xd^3 = (xn^3 + A xn xd^2 + B xd^3) yd^2
     coefficient-wise (C13/Poly.v [iso_identity]), none of xd, yd, yn the zero polynomial *)
  Definition els (l : list (list Z)) : list T := map el l.
  Definition wb_iso_ok (a' b' A B : list Z) (xn xd yn yd : list (list Z)) : bool :=
    negb (pzero (f0 F) (feqb F) (els xd)) && negb (pzero (f0 F) (feqb F) (els yd)) &&
    negb (pzero (f0 F) (feqb F) (els yn)) &&
    iso_identity (f0 F) (f1 F) (fadd F) (fmul F) (feqb F) (el a') (el b') (el A) (el B)
                 (els xn) (els xd) (els yn) (els yd).

  (* ---- a curve shipped both as twisted Edwards a x^2 + y^2 = 1 + d x^2 y^2 (generator (x, y)), with
     Montgomery model Bm v^2 = u^3 + Am u^2 + u, and as short Weierstrass Y^2 = X^3 + sa X + sb
     (generator (X, Y)):
       - the SW model is the Weierstrass form of the Montgomery model under
         (u, v) |-> ((u + Am/3)/Bm, v/Bm):   3 Bm^2 sa = 3 - Am^2,  27 Bm^3 sb = 2 Am^3 - 9 Am;
       - the SW generator is the image of the TE generator: u = (1 + y)/(1 - y) and x = c u / v with
         c^2 = 4 / (Bm (a - d))  (c = 1 when Bm (a - d) = 4, otherwise up to the choice of the square root).
     Written without divisions, with u3 = 3 u = 3 Bm X - Am and v3 = 3 x v = 3 x Bm Y. *)
  Definition sw_te_ok (a d x y mA mB sa sb X Y : list Z) : bool :=
    let two := f1 F + f1 F in let three := two + f1 F in let four := two + two in
    let nine := three * three in
    let Am := el mA in let Bm := el mB in
    let u3 := three * (Bm * el X) - Am in
    let v3 := three * (el x * (Bm * el Y)) in
    let k := Bm * (el a - el d) in
    negb (feqb F three (f0 F)) && negb (feqb F Bm (f0 F)) &&
    feqb F (three * (Bm * Bm) * el sa) (three - Am * Am) &&
    feqb F (nine * three * (Bm * Bm * Bm) * el sb) (two * (Am * Am * Am) - nine * Am) &&
    negb (feqb F (el y) (f1 F)) &&
    feqb F (u3 * (f1 F - el y)) (three * (f1 F + el y)) &&
    (if feqb F k four then feqb F v3 u3 else feqb F (v3 * v3 * k) (four * (u3 * u3))).
End FieldChecks.
